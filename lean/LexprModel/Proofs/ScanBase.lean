/-
  Support for `FrameScan.lean`: the flat token scan `Spec.scan` —
   * `scanBody_congr`: one step of the scan calls its continuation on strictly shorter inputs only;
   * `scan_sat` / `scanAll_unfold`: with at least `length + 1` fuel the scan does not depend on the
     fuel, and `scanAll` (the scan with that fuel) satisfies the unfolding equation;
   * `scanAll_setD`: the scan does not depend on the recursion budget of the state;
   * `scanAll_ws`: skipping trivia first does not change the scan (`parse_whitespace` is idempotent);
   * the step lemmas `scanAll_closer`, `scanAll_token`.
-/
import LexprModel.Proofs.FrameTok
import LexprModel.Proofs.DepthInd
import LexprModel.Proofs.Progress
namespace Lexpr
namespace Parse
namespace C08
open Spec DepthInd

/-- the scan with enough fuel for the whole input -/
def scanAll (cfg : Cfg) (s : St) : List OptName := scan cfg (s.rd.rest.length + 1) s

/-! ### what the lexer steps do to the length of the input -/

theorem parseWhitespace_ok {s s0 : St} {r : Option UInt8} (h : parseWhitespace s = .ok r s0) :
    s0.rd.rest = s.rd.rest.drop (wsLen s.rd.rest) ∧ r = s0.rd.rest.head? ∧
      s0.rd.mode = s.rd.mode := by
  unfold parseWhitespace at h
  simp only [bind_apply, getRest_eq, consumeN_eq] at h
  obtain ⟨ho, hr, hm⟩ := peek_ok h
  refine ⟨by rw [hr]; simp, by rw [hr]; exact ho, by rw [hm]; simp⟩

theorem parseWhitespace_len {s s0 : St} {r : Option UInt8} (h : parseWhitespace s = .ok r s0) :
    s0.rd.rest.length ≤ s.rd.rest.length := by
  rw [(parseWhitespace_ok h).1]
  simp

theorem discard_len {s s1 : St} {u : Unit} (h : discard s = .ok u s1) :
    s1.rd.rest.length + 1 = s.rd.rest.length := by
  obtain ⟨b, tl, hr, rfl⟩ := discard_ok h
  simp [hr]

theorem parseToken_len {cfg : Cfg} {fuel : Nat} {pk : UInt8} {s s1 : St} {tok : Token}
    (hpk : s.rd.rest.head? = some pk) (h : parseToken cfg fuel pk s = .ok tok s1) :
    s1.rd.rest.length + 1 ≤ s.rd.rest.length :=
  ((Progress.parseToken_spec (cfg := cfg) (fuel := fuel) hpk).ok h).len

theorem parseByteList_len {cfg : Cfg} {fuel : Nat} {close : UInt8} {s s1 : St} {bs : List UInt8}
    (h : parseByteList cfg fuel close s = .ok bs s1) :
    s1.rd.rest.length ≤ s.rd.rest.length := by
  have := ((Progress.parseByteList_spec (cfg := cfg) (fuel := fuel) (close := close) (s := s)).ok h).len
  omega

theorem dotPeek_len {s s2 : St} {nxt : UInt8}
    (h : (discard >>= fun _ => peekOrNull) s = .ok nxt s2) :
    s2.rd.rest.length + 1 = s.rd.rest.length := by
  obtain ⟨u, s1, hd, hp⟩ := bind_ok' h
  obtain ⟨_, hr, _⟩ := peekOrNull_ok hp
  rw [hr]
  exact discard_len hd

/-! ### fuel -/

theorem scanBody_congr (cfg : Cfg) (k1 k2 : St → List OptName) (s : St)
    (h : ∀ s1 : St, s1.rd.rest.length < s.rd.rest.length → k1 s1 = k2 s1) :
    scanBody cfg k1 s = scanBody cfg k2 s := by
  unfold scanBody
  cases hw : parseWhitespace s with
  | ok r s0 =>
    cases r with
    | none => rfl
    | some pk =>
      have hl0 := parseWhitespace_len hw
      have hpk : s0.rd.rest.head? = some pk := (parseWhitespace_ok hw).2.1.symm
      simp only
      by_cases hc : (pk == 41 || pk == 93) = true
      · simp only [hc, ↓reduceIte]
        cases hd : discard s0 with
        | ok u s1 =>
          cases u
          have := discard_len hd
          exact h s1 (by omega)
        | err e s1 => rfl
        | panic p => rfl
        | fuel => rfl
      · simp only [hc, Bool.false_eq_true, ↓reduceIte]
        congr 1
        · congr 1
          cases ht : parseToken cfg (s0.rd.rest.length + 1) pk s0 with
          | ok tok s1 =>
            have hl1 := parseToken_len hpk ht
            cases tok with
            | byteVecOpen close =>
              simp only
              cases hb : parseByteList cfg (s0.rd.rest.length + 1) close s1 with
              | ok bs s2 =>
                have := parseByteList_len hb
                exact h s2 (by omega)
              | err e s2 => rfl
              | panic p => rfl
              | fuel => rfl
            | null => exact h s1 (by omega)
            | nil => exact h s1 (by omega)
            | bool b => exact h s1 (by omega)
            | char c => exact h s1 (by omega)
            | number n => exact h s1 (by omega)
            | symbol x => exact h s1 (by omega)
            | keyword x => exact h s1 (by omega)
            | string x => exact h s1 (by omega)
            | bytes x => exact h s1 (by omega)
            | listOpen c => exact h s1 (by omega)
            | quotation q => exact h s1 (by omega)
            | vecOpen c => exact h s1 (by omega)
          | err e s1 => rfl
          | panic p => rfl
          | fuel => rfl
        · by_cases hdot : (pk == 46) = true
          · simp only [hdot, ↓reduceIte]
            cases hd : (discard >>= fun _ => peekOrNull) s0 with
            | ok nxt s2 =>
              simp only
              have := dotPeek_len hd
              rw [h s2 (by omega)]
            | err e s2 => rfl
            | panic p => rfl
            | fuel => rfl
          · simp only [hdot, Bool.false_eq_true, ↓reduceIte]
  | err e s0 => rfl
  | panic p => rfl
  | fuel => rfl

/-- with enough fuel the scan does not depend on the fuel -/
theorem scan_sat (cfg : Cfg) : ∀ (F : Nat) (s : St), s.rd.rest.length + 1 ≤ F →
    scan cfg F s = scanAll cfg s := by
  intro F
  induction F using Nat.strongRecOn with
  | ind F ih =>
    intro s hF
    cases F with
    | zero => omega
    | succ G =>
      unfold scanAll
      rw [scan, scan]
      apply scanBody_congr
      intro s1 hlt
      rw [ih G (by omega) s1 (by omega), ih s.rd.rest.length (by omega) s1 (by omega)]

theorem scanAll_unfold (cfg : Cfg) (s : St) : scanAll cfg s = scanBody cfg (scanAll cfg) s := by
  show scan cfg (s.rd.rest.length + 1) s = _
  rw [scan]
  apply scanBody_congr
  intro s1 hlt
  exact scan_sat cfg _ s1 (by omega)

/-! ### the scan does not read the recursion budget -/

theorem rsetD_ok {α : Type} {d : Nat} {r : Res α} {a : α} {s' : St} (h : r = .ok a s') :
    rsetD d r = .ok a (setD d s') := by subst h; rfl

theorem scanBody_setD (cfg : Cfg) (k : St → List OptName) (hk : ∀ d x, k (setD d x) = k x)
    (s : St) (d : Nat) : scanBody cfg k (setD d s) = scanBody cfg k s := by
  unfold scanBody
  rw [DInd.parseWhitespace.eq s d]
  cases hw : parseWhitespace s with
  | ok r s0 =>
    cases r with
    | none => rfl
    | some pk =>
      simp only [rsetD, setD_rd]
      by_cases hc : (pk == 41 || pk == 93) = true
      · simp only [hc, ↓reduceIte]
        rw [DInd.discard.eq s0 d]
        cases hd : discard s0 with
        | ok u s1 => cases u; exact hk d s1
        | err e s1 => rfl
        | panic p => rfl
        | fuel => rfl
      · simp only [hc, Bool.false_eq_true, ↓reduceIte]
        congr 1
        · congr 1
          rw [(DInd.parseToken cfg (s0.rd.rest.length + 1) pk).eq s0 d]
          cases ht : parseToken cfg (s0.rd.rest.length + 1) pk s0 with
          | ok tok s1 =>
            cases tok with
            | byteVecOpen close =>
              simp only [rsetD]
              rw [(DInd.parseByteList cfg (s0.rd.rest.length + 1) close).eq s1 d]
              cases hb : parseByteList cfg (s0.rd.rest.length + 1) close s1 with
              | ok bs s2 => exact hk d s2
              | err e s2 => rfl
              | panic p => rfl
              | fuel => rfl
            | null => exact hk d s1
            | nil => exact hk d s1
            | bool b => exact hk d s1
            | char c => exact hk d s1
            | number n => exact hk d s1
            | symbol x => exact hk d s1
            | keyword x => exact hk d s1
            | string x => exact hk d s1
            | bytes x => exact hk d s1
            | listOpen c => exact hk d s1
            | quotation q => exact hk d s1
            | vecOpen c => exact hk d s1
          | err e s1 => rfl
          | panic p => rfl
          | fuel => rfl
        · by_cases hdot : (pk == 46) = true
          · simp only [hdot, ↓reduceIte]
            rw [(DInd.bind DInd.discard (fun _ => DInd.peekOrNull)).eq s0 d]
            cases hd : (discard >>= fun _ => peekOrNull) s0 with
            | ok nxt s2 =>
              simp only [rsetD]
              rw [hk d s2]
            | err e s2 => rfl
            | panic p => rfl
            | fuel => rfl
          · simp only [hdot, Bool.false_eq_true, ↓reduceIte]
  | err e s0 => rfl
  | panic p => rfl
  | fuel => rfl

theorem scan_setD (cfg : Cfg) : ∀ (F : Nat) (d : Nat) (s : St),
    scan cfg F (setD d s) = scan cfg F s := by
  intro F
  induction F with
  | zero => intro d s; rfl
  | succ F ih =>
    intro d s
    rw [scan, scan]
    exact scanBody_setD cfg _ ih s d

theorem scanAll_setD (cfg : Cfg) (d : Nat) (s : St) : scanAll cfg (setD d s) = scanAll cfg s :=
  scan_setD cfg _ d s

/-- states that differ in the recursion budget only -/
theorem scanAll_depth (cfg : Cfg) (s s' : St) (h : s'.rd = s.rd) : scanAll cfg s' = scanAll cfg s := by
  have : s' = setD s'.depth s := by
    cases s; cases s'; simp only at h; subst h; rfl
  rw [this, scanAll_setD]

/-! ### `parse_whitespace` is idempotent -/

theorem wsLen_drop_zero : ∀ l : List UInt8,
    wsLen (l.drop (wsLen l)) = 0 ∧ wsLen (l.drop (commentLen l)) = 0 := by
  intro l
  induction l with
  | nil => simp [wsLen, commentLen]
  | cons c cs ih =>
    constructor
    · by_cases h59 : c = 59
      · simp only [wsLen, h59, beq_self_eq_true, if_true, List.drop_succ_cons]
        exact ih.2
      · by_cases ht : isTrivia c = true
        · simp only [wsLen, beq_iff_eq, h59, if_false, ht, if_true, List.drop_succ_cons]
          exact ih.1
        · simp only [wsLen, beq_iff_eq, h59, if_false, ht, List.drop_zero, Bool.false_eq_true]
    · by_cases h10 : c = 10
      · simp only [commentLen, h10, beq_self_eq_true, if_true, List.drop_succ_cons]
        exact ih.1
      · simp only [commentLen, beq_iff_eq, h10, if_false, List.drop_succ_cons]
        exact ih.2

theorem peek_adv0 {s s' : St} {o : Option UInt8} (h : peek s = .ok o s')
    (hp : s.rd.peeked = false) : s'.adv 0 = s := by
  obtain ⟨⟨mode, rest, line, col, peeked, faulty⟩, depth⟩ := s
  simp only at hp
  subst hp
  unfold peek at h
  cases rest with
  | nil =>
    cases faulty with
    | true => simp at h
    | false =>
      simp only [Bool.false_eq_true, ↓reduceIte, Res.ok.injEq] at h
      rw [← h.2]; rfl
  | cons b bs =>
    simp only [Res.ok.injEq] at h
    rw [← h.2]; rfl

theorem parseWhitespace_idem {s s0 : St} {r : Option UInt8} (h : parseWhitespace s = .ok r s0) :
    parseWhitespace s0 = .ok r s0 := by
  have hr := (parseWhitespace_ok h).1
  unfold parseWhitespace at h ⊢
  simp only [bind_apply, getRest_eq, consumeN_eq] at h ⊢
  rw [hr, (wsLen_drop_zero s.rd.rest).1, peek_adv0 h (by simp)]
  exact h

theorem scanAll_ws (cfg : Cfg) {s s0 : St} {r : Option UInt8} (h : parseWhitespace s = .ok r s0) :
    scanAll cfg s0 = scanAll cfg s := by
  rw [scanAll_unfold cfg s0, scanAll_unfold cfg s]
  unfold scanBody
  rw [parseWhitespace_idem h, h]

/-! ### the steps of the scan -/

theorem scanAll_closer (cfg : Cfg) {s s0 s1 : St} {pk : UInt8} {u : Unit}
    (hw : parseWhitespace s = .ok (some pk) s0) (hc : (pk == 41 || pk == 93) = true)
    (hd : discard s0 = .ok u s1) : scanAll cfg s = scanAll cfg s1 := by
  rw [scanAll_unfold cfg s]
  unfold scanBody
  cases u
  simp only [hw, hc, ↓reduceIte, hd]

theorem scanAll_token (cfg : Cfg) {s s0 : St} {pk : UInt8}
    (hw : parseWhitespace s = .ok (some pk) s0) (hc : (pk == 41 || pk == 93) = false) :
    scanAll cfg s =
      tokenOpts cfg.opts s0.rd.mode s0.rd.rest ++
      (match parseToken cfg (s0.rd.rest.length + 1) pk s0 with
       | .ok (.byteVecOpen close) s1 =>
         (match parseByteList cfg (s0.rd.rest.length + 1) close s1 with
          | .ok _ s2 => scanAll cfg s2
          | _ => [])
       | .ok _ s1 => scanAll cfg s1
       | _ => []) ++
      (if pk == 46 then
         (match (discard >>= fun _ => peekOrNull) s0 with
          | .ok nxt s2 => if nxt == 0 || isDelimiter nxt then scanAll cfg s2 else []
          | _ => [])
       else []) := by
  rw [scanAll_unfold cfg s]
  unfold scanBody
  simp only [hw, hc, Bool.false_eq_true, ↓reduceIte]
  rfl

end C08
end Parse
end Lexpr
