/-
  C01, structural part: lists, dotted lists, vectors and `()` printed with the default printer
  options are read back by `next_value` (default parser options, slice source), given that the
  atoms at the leaves are (hypothesis `AtomOK`, packaged per value as `AllAtomsOK`).

  Contents: the parser monad on a state; `parse_whitespace`; `next_value` at `(` and `#(`; the
  rounds of the list loop (closing parenthesis, ordinary element, element starting with `.`,
  dotted tail) and of the vector loop; the printed text of the composite values; the mutual
  recursion `value_rt` / `tail_rt` / `seq_rt` over `Value`; the public entry `from_trait`;
  `AtomOK` for `#nil`, `#t`, `#f` and a bridge from token-level statements; exactness of the depth
  bound; a witness that the atom hypothesis needs its `ElemHead` component.
  Everything lives in the namespace `Lexpr.Parse.ListRT` (helper names such as `bind_apply`,
  `Follow` also exist in other proof files).
-/
import LexprModel.Parse
import LexprModel.Print
namespace Lexpr
namespace Parse
namespace ListRT
open Print

/-! ### the parser monad applied to a state -/

@[simp] theorem bind_apply {α β : Type} (m : P α) (f : α → P β) (s : St) :
    (m >>= f) s = match m s with
      | .ok a s' => f a s'
      | .err e s' => .err e s'
      | .panic p => .panic p
      | .fuel => .fuel := rfl

@[simp] theorem pure_apply {α : Type} (a : α) (s : St) : (pure a : P α) s = .ok a s := rfl

/-! ### `Rd.consume` -/

@[simp] theorem consume_mode (rd : Rd) (n : Nat) : (rd.consume n).mode = rd.mode := by
  induction n generalizing rd with
  | zero => rfl
  | succ n ih =>
    unfold Rd.consume
    split
    · rfl
    · simp [ih]

@[simp] theorem consume_faulty (rd : Rd) (n : Nat) : (rd.consume n).faulty = rd.faulty := by
  induction n generalizing rd with
  | zero => rfl
  | succ n ih =>
    unfold Rd.consume
    split
    · rfl
    · simp [ih]

@[simp] theorem consume_rest (rd : Rd) (n : Nat) : (rd.consume n).rest = rd.rest.drop n := by
  induction n generalizing rd with
  | zero => rfl
  | succ n ih =>
    unfold Rd.consume
    split
    · rename_i h; simp [h]
    · rename_i b bs h; simp [ih, h]

/-- the reader is a non-faulty slice source -/
def Good (s : St) : Prop := s.rd.mode = .slice ∧ s.rd.faulty = false

/-- `m` run in `s` returns `a`, leaves `rest` unread, keeps the source kind and the depth budget. -/
def Runs {α : Type} (m : P α) (s : St) (a : α) (rest : List UInt8) : Prop :=
  ∃ s', m s = .ok a s' ∧ s'.rd.rest = rest ∧ Good s' ∧ s'.depth = s.depth

theorem peek_good (s : St) (h : Good s) :
    peek s = .ok s.rd.rest.head? s := by
  obtain ⟨hm, hf⟩ := h
  unfold peek
  cases hr : s.rd.rest with
  | nil => simp [hf]
  | cons b bs =>
    obtain ⟨⟨mode, rest, line, col, peeked, faulty⟩, depth⟩ := s
    simp only at hm hr hf
    subst hm
    simp [hr]


/-! ### whitespace -/

theorem wsLen_start (c : UInt8) (tl : List UInt8) (h1 : isTrivia c = false) (h2 : (c == 59) = false) :
    wsLen (c :: tl) = 0 := by
  simp [wsLen, h1, h2]

theorem wsLen_space (c : UInt8) (tl : List UInt8) (h1 : isTrivia c = false) (h2 : (c == 59) = false) :
    wsLen (32 :: c :: tl) = 1 := by
  have : isTrivia 32 = true := by decide
  simp [wsLen, h1, h2, this]

theorem parseWhitespace_good (s : St) (h : Good s) :
    parseWhitespace s = .ok (s.rd.rest.drop (wsLen s.rd.rest)).head?
      { s with rd := s.rd.consume (wsLen s.rd.rest) } := by
  have hg : Good { s with rd := s.rd.consume (wsLen s.rd.rest) } := by
    obtain ⟨hm, hf⟩ := h
    exact ⟨by simp [hm], by simp [hf]⟩
  show peek { s with rd := s.rd.consume (wsLen s.rd.rest) } = _
  rw [peek_good _ hg]
  simp

theorem ws_runs (s : St) (h : Good s) :
    Runs parseWhitespace s (s.rd.rest.drop (wsLen s.rd.rest)).head?
      (s.rd.rest.drop (wsLen s.rd.rest)) := by
  refine ⟨_, parseWhitespace_good s h, by simp, ?_, rfl⟩
  obtain ⟨hm, hf⟩ := h
  exact ⟨by simp [hm], by simp [hf]⟩

/-- `parse_whitespace` on input that starts with a non-trivia byte consumes nothing. -/
theorem ws_start (s : St) (h : Good s) (c : UInt8) (tl : List UInt8) (hr : s.rd.rest = c :: tl)
    (h1 : isTrivia c = false) (h2 : (c == 59) = false) :
    Runs parseWhitespace s (some c) (c :: tl) := by
  have := ws_runs s h
  rw [hr, wsLen_start c tl h1 h2] at this
  simpa using this

/-- `parse_whitespace` on a space followed by a non-trivia byte consumes exactly the space. -/
theorem ws_space (s : St) (h : Good s) (c : UInt8) (tl : List UInt8) (hr : s.rd.rest = 32 :: c :: tl)
    (h1 : isTrivia c = false) (h2 : (c == 59) = false) :
    Runs parseWhitespace s (some c) (c :: tl) := by
  have := ws_runs s h
  rw [hr, wsLen_space c tl h1 h2] at this
  simpa using this

/-- `parse_whitespace` at the end of the input. -/
theorem ws_eof (s : St) (h : Good s) (hr : s.rd.rest = []) :
    Runs parseWhitespace s none [] := by
  have := ws_runs s h
  rw [hr] at this
  simpa [wsLen] using this


/-! ### primitive steps -/

theorem discard_runs (s : St) (h : Good s) (b : UInt8) (tl : List UInt8) (hr : s.rd.rest = b :: tl) :
    Runs discard s () tl := by
  obtain ⟨hm, hf⟩ := h
  refine ⟨{ s with rd := s.rd.consume 1 }, ?_, by simp [hr], ⟨by simp [hm], by simp [hf]⟩, rfl⟩
  simp [discard, hr]

theorem parseToken_lparen (cfg : Cfg) (tf : Nat) (s : St) (h : Good s) (tl : List UInt8)
    (hr : s.rd.rest = 40 :: tl) : Runs (parseToken cfg tf 40) s (.listOpen 41) tl := by
  obtain ⟨s1, e1, r1, g1, d1⟩ := discard_runs s h 40 tl hr
  refine ⟨s1, ?_, r1, g1, d1⟩
  simp [parseToken, isDigit, e1]


theorem next_runs (s : St) (h : Good s) (b : UInt8) (tl : List UInt8) (hr : s.rd.rest = b :: tl) :
    Runs next s (some b) tl := by
  obtain ⟨hm, hf⟩ := h
  refine ⟨{ s with rd := s.rd.consume 1 }, ?_, by simp [hr], ⟨by simp [hm], by simp [hf]⟩, rfl⟩
  simp [next, hr]

theorem parseToken_hash_lparen (cfg : Cfg) (tf : Nat) (s : St) (h : Good s) (tl : List UInt8)
    (hr : s.rd.rest = 35 :: 40 :: tl) : Runs (parseToken cfg tf 35) s (.vecOpen 41) tl := by
  obtain ⟨s1, e1, r1, g1, d1⟩ := discard_runs s h 35 _ hr
  obtain ⟨s2, e2, r2, g2, d2⟩ := next_runs s1 g1 40 tl r1
  refine ⟨s2, ?_, r2, g2, d2.trans d1⟩
  simp [parseToken, e1, e2]

theorem enter_ok (s : St) (hd : 2 ≤ s.depth) : enter s = .ok () { s with depth := s.depth - 1 } := by
  unfold enter
  have h1 : (s.depth == 0) = false := by simp; omega
  have h2 : (s.depth - 1 == 0) = false := by simp; omega
  simp [h1, h2]

/-- `end_seq` on the closing parenthesis. -/
theorem endSeq_runs (s : St) (h : Good s) (rest : List UInt8) (hr : s.rd.rest = 41 :: rest) :
    Runs (endSeq 41) s () rest := by
  obtain ⟨s1, e1, r1, g1, d1⟩ := ws_start s h 41 rest hr (by decide) (by decide)
  obtain ⟨s2, e2, r2, g2, d2⟩ := discard_runs s1 g1 41 rest r1
  refine ⟨s2, ?_, r2, g2, d2.trans d1⟩
  simp [endSeq, e1, e2]

/-- `next_value` at `(`: reduces to the element loop. -/
theorem nextValue_listOpen (cfg : Cfg) (f : Nat) (s : St) (tl rest : List UInt8) (v : Value)
    (h : Good s) (hr : s.rd.rest = 40 :: tl) (hd : 2 ≤ s.depth)
    (hin : ∀ s1, Good s1 → s1.rd.rest = tl → s1.depth + 1 = s.depth →
      Runs (parseList cfg f 41 []) s1 v (41 :: rest)) :
    Runs (nextValue cfg (f + 1)) s (some v) rest := by
  obtain ⟨s1, e1, r1, g1, d1⟩ := ws_start s h 40 tl hr (by decide) (by decide)
  obtain ⟨s2, e2, r2, g2, d2⟩ := parseToken_lparen cfg (s1.rd.rest.length + 1) s1 g1 tl r1
  have hd2 : 2 ≤ s2.depth := by omega
  obtain ⟨s4, e4, r4, g4, d4⟩ := hin { s2 with depth := s2.depth - 1 } g2 r2 (by simp; omega)
  have g5 : Good { s4 with depth := s4.depth + 1 } := g4
  obtain ⟨s6, e6, r6, g6, d6⟩ := endSeq_runs { s4 with depth := s4.depth + 1 } g5 rest r4
  refine ⟨s6, ?_, r6, g6, ?_⟩
  · simp [nextValue, e1, tokenFuel, e2, enter_ok s2 hd2, attempt, e4, leave, e6]
  · simp at d4 d6; omega


/-- `next_value` at `#(`: reduces to the element loop of the vector. -/
theorem nextValue_vecOpen (cfg : Cfg) (f : Nat) (s : St) (tl rest : List UInt8) (xs : List Value)
    (h : Good s) (hr : s.rd.rest = 35 :: 40 :: tl) (hd : 2 ≤ s.depth)
    (hin : ∀ s1, Good s1 → s1.rd.rest = tl → s1.depth + 1 = s.depth →
      Runs (parseVector cfg f 41 []) s1 xs (41 :: rest)) :
    Runs (nextValue cfg (f + 1)) s (some (.vector xs)) rest := by
  obtain ⟨s1, e1, r1, g1, d1⟩ := ws_start s h 35 _ hr (by decide) (by decide)
  obtain ⟨s2, e2, r2, g2, d2⟩ := parseToken_hash_lparen cfg (s1.rd.rest.length + 1) s1 g1 tl r1
  have hd2 : 2 ≤ s2.depth := by omega
  obtain ⟨s4, e4, r4, g4, d4⟩ := hin { s2 with depth := s2.depth - 1 } g2 r2 (by simp; omega)
  have g5 : Good { s4 with depth := s4.depth + 1 } := g4
  obtain ⟨s6, e6, r6, g6, d6⟩ := endSeq_runs { s4 with depth := s4.depth + 1 } g5 rest r4
  refine ⟨s6, ?_, r6, g6, ?_⟩
  · simp [nextValue, e1, tokenFuel, e2, enter_ok s2 hd2, attempt, e4, leave, e6]
  · simp at d4 d6; omega

theorem peekOrNull_runs (s : St) (h : Good s) (b : UInt8) (tl : List UInt8) (hr : s.rd.rest = b :: tl) :
    Runs peekOrNull s b (b :: tl) := by
  refine ⟨s, ?_, hr, h, rfl⟩
  simp [peekOrNull, peek_good s h, hr]

/-! ### the list loop -/

/-- the list loop at the closing parenthesis: returns the elements read so far (nothing consumed) -/
theorem parseList_close (cfg : Cfg) (f : Nat) (s : St) (acc : List Value) (rest : List UInt8)
    (h : Good s) (hr : s.rd.rest = 41 :: rest) :
    Runs (parseList cfg (f + 1) 41 acc) s (Value.list acc) (41 :: rest) := by
  obtain ⟨s1, e1, r1, g1, d1⟩ := ws_start s h 41 rest hr (by decide) (by decide)
  refine ⟨s1, ?_, r1, g1, d1⟩
  simp [parseList, e1]

/-- one round of the list loop on an element that does not start with `.` -/
theorem parseList_elem (cfg : Cfg) (f : Nat) (s : St) (acc : List Value) (c : UInt8)
    (tl rest' rest'' : List UInt8) (a w : Value)
    (hws : Runs parseWhitespace s (some c) (c :: tl))
    (hc1 : c ≠ 41) (hc2 : c ≠ 93) (hc3 : c ≠ 46)
    (hv : ∀ s1, Good s1 → s1.rd.rest = c :: tl → s1.depth = s.depth →
      Runs (nextValue cfg f) s1 (some a) rest')
    (hk : ∀ s2, Good s2 → s2.rd.rest = rest' → s2.depth = s.depth →
      Runs (parseList cfg f 41 (acc ++ [a])) s2 w rest'') :
    Runs (parseList cfg (f + 1) 41 acc) s w rest'' := by
  obtain ⟨s1, e1, r1, g1, d1⟩ := hws
  obtain ⟨s2, e2, r2, g2, d2⟩ := hv s1 g1 r1 d1
  obtain ⟨s3, e3, r3, g3, d3⟩ := hk s2 g2 r2 (d2.trans d1)
  refine ⟨s3, ?_, r3, g3, by omega⟩
  simp [parseList, e1, hc1, hc2, hc3, e2, e3]

/-- the dotted tail ` . tail)` -/
theorem parseList_dotted (cfg : Cfg) (f : Nat) (s : St) (acc : List Value)
    (tl rest : List UInt8) (d : Value) (h : Good s)
    (hr : s.rd.rest = 32 :: 46 :: 32 :: tl) (hacc : acc ≠ [])
    (hv : ∀ s1, Good s1 → s1.rd.rest = 32 :: tl → s1.depth = s.depth →
      Runs (nextValue cfg f) s1 (some d) (41 :: rest)) :
    Runs (parseList cfg (f + 1) 41 acc) s (Value.append acc d) (41 :: rest) := by
  obtain ⟨s1, e1, r1, g1, d1⟩ := ws_space s h 46 _ hr (by decide) (by decide)
  obtain ⟨s2, e2, r2, g2, d2⟩ := discard_runs s1 g1 46 _ r1
  obtain ⟨s3, e3, r3, g3, d3⟩ := peekOrNull_runs s2 g2 32 _ r2
  obtain ⟨s4, e4, r4, g4, d4⟩ := hv s3 g3 r3 (by omega)
  obtain ⟨s5, e5, r5, g5, d5⟩ := ws_start s4 g4 41 rest r4 (by decide) (by decide)
  refine ⟨s5, ?_, r5, g5, by omega⟩
  have hacc' : acc.isEmpty = false := by cases acc <;> simp_all
  simp [parseList, e1, e2, e3, isDelimiter, hacc', e4, e5]


/-! ### the vector loop -/

theorem parseVector_close (cfg : Cfg) (f : Nat) (s : St) (acc : List Value) (rest : List UInt8)
    (h : Good s) (hr : s.rd.rest = 41 :: rest) :
    Runs (parseVector cfg (f + 1) 41 acc) s acc (41 :: rest) := by
  obtain ⟨s1, e1, r1, g1, d1⟩ := ws_start s h 41 rest hr (by decide) (by decide)
  refine ⟨s1, ?_, r1, g1, d1⟩
  simp [parseVector, e1]

theorem parseVector_elem (cfg : Cfg) (f : Nat) (s : St) (acc : List Value) (c : UInt8)
    (tl rest' rest'' : List UInt8) (a : Value) (w : List Value)
    (hws : Runs parseWhitespace s (some c) (c :: tl))
    (hc1 : c ≠ 41) (hc2 : c ≠ 93)
    (hv : ∀ s1, Good s1 → s1.rd.rest = c :: tl → s1.depth = s.depth →
      Runs (nextValue cfg f) s1 (some a) rest')
    (hk : ∀ s2, Good s2 → s2.rd.rest = rest' → s2.depth = s.depth →
      Runs (parseVector cfg f 41 (acc ++ [a])) s2 w rest'') :
    Runs (parseVector cfg (f + 1) 41 acc) s w rest'' := by
  obtain ⟨s1, e1, r1, g1, d1⟩ := hws
  obtain ⟨s2, e2, r2, g2, d2⟩ := hv s1 g1 r1 d1
  obtain ⟨s3, e3, r3, g3, d3⟩ := hk s2 g2 r2 (d2.trans d1)
  refine ⟨s3, ?_, r3, g3, by omega⟩
  simp [parseVector, e1, hc1, hc2, e2, e3]

/-! ### leading space before a value -/

/-- `next_value` skips one leading space: same result as from the state behind the space -/
theorem nextValue_skip (cfg : Cfg) (s : St) (h : Good s) (c : UInt8) (tl : List UInt8)
    (hr : s.rd.rest = 32 :: c :: tl) (h1 : isTrivia c = false) (h2 : (c == 59) = false) :
    ∃ s1, Good s1 ∧ s1.rd.rest = c :: tl ∧ s1.depth = s.depth ∧
      ∀ f, nextValue cfg f s = nextValue cfg f s1 := by
  obtain ⟨hm, hf⟩ := h
  refine ⟨{ s with rd := s.rd.consume 1 }, ⟨by simp [hm], by simp [hf]⟩, by simp [hr], rfl, ?_⟩
  intro f
  cases f with
  | zero => simp [nextValue, outOfFuel]
  | succ f =>
    have hw : parseWhitespace s = parseWhitespace { s with rd := s.rd.consume 1 } := by
      show peek { s with rd := s.rd.consume (wsLen s.rd.rest) } =
        peek { s with rd := (s.rd.consume 1).consume (wsLen (s.rd.consume 1).rest) }
      rw [hr, wsLen_space c tl h1 h2]
      simp only [consume_rest, hr, List.drop_succ_cons, List.drop_zero, wsLen_start c tl h1 h2]
      simp [Rd.consume, hr]
    simp only [nextValue, bind_apply, hw]

/-! ### list elements that start with `.` (symbols such as `...` or `.foo`) -/

theorem consume_zero_succ (rd : Rd) (b : UInt8) (tl : List UInt8) (hr : rd.rest = b :: tl) (n : Nat) :
    (rd.consume 0).consume (n + 1) = (rd.consume 1).consume n := by
  simp [Rd.consume, hr]

theorem psb_dot (s : St) (h : Good s) (tl : List UInt8) (hr : s.rd.rest = 46 :: tl) :
    parseSymbolBytes [] { s with rd := s.rd.consume 0 } =
      parseSymbolBytes [46] { s with rd := s.rd.consume 1 } := by
  obtain ⟨hm, hf⟩ := h
  have hs : symTerm Mode.slice 46 = false := by decide
  simp [parseSymbolBytes, getRest, getMode, consumeN, hr, hm, symLen, hs,
    consume_zero_succ s.rd 46 tl hr]

/-- `next_value` on a symbol that starts with `.`: the computation `parse_list` performs inline. -/
theorem nextValue_dot (cfg : Cfg) (hopts : cfg.opts = Options.default) (f : Nat) (s : St) (h : Good s)
    (tl : List UInt8) (hr : s.rd.rest = 46 :: tl) :
    nextValue cfg (f + 1) s =
      match parseSymbolBytes [46] { s with rd := s.rd.consume 1 } with
      | .ok name s' => .ok (some (symbolValue cfg.opts name)) s'
      | .err e s' => .err e s'
      | .panic p => .panic p
      | .fuel => .fuel := by
  have hw := parseWhitespace_good s h
  rw [hr, wsLen_start 46 tl (by decide) (by decide)] at hw
  simp only [List.drop_zero, List.head?_cons] at hw
  rw [← psb_dot s h tl hr]
  simp only [nextValue, bind_apply, hw, tokenFuel]
  simp [parseToken, isDigit, isAsciiAlpha, isSymbolExtended]
  cases parseSymbolBytes [] { s with rd := s.rd.consume 0 } with
  | ok name s' => simp [symbolToken, symbolValue, hopts, Options.default, Token.atom]
  | err e s' => simp
  | panic p => simp
  | fuel => simp

/-- one round of the list loop on a symbol that starts with `.` followed by a non-delimiter: the
    inline code of `parse_list` does what `next_value` would do -/
theorem parseList_dotsym (cfg : Cfg) (hopts : cfg.opts = Options.default) (f : Nat) (s : St)
    (acc : List Value) (b : UInt8) (tl rest' rest'' : List UInt8) (a w : Value)
    (hws : Runs parseWhitespace s (some 46) (46 :: b :: tl))
    (hb0 : b ≠ 0) (hbd : isDelimiter b = false)
    (hv : ∀ s1, Good s1 → s1.rd.rest = 46 :: b :: tl → s1.depth = s.depth →
      Runs (nextValue cfg (f + 1)) s1 (some a) rest')
    (hk : ∀ s2, Good s2 → s2.rd.rest = rest' → s2.depth = s.depth →
      Runs (parseList cfg (f + 1) 41 (acc ++ [a])) s2 w rest'') :
    Runs (parseList cfg (f + 2) 41 acc) s w rest'' := by
  obtain ⟨s1, e1, r1, g1, d1⟩ := hws
  obtain ⟨s2, e2, r2, g2, d2⟩ := hv s1 g1 r1 d1
  obtain ⟨s3, e3, r3, g3, d3⟩ := hk s2 g2 r2 (d2.trans d1)
  refine ⟨s3, ?_, r3, g3, by omega⟩
  rw [nextValue_dot cfg hopts f s1 g1 _ r1] at e2
  have gB : Good { s1 with rd := s1.rd.consume 1 } := by
    obtain ⟨hm, hf⟩ := g1
    exact ⟨by simp [hm], by simp [hf]⟩
  have eD : discard s1 = .ok () { s1 with rd := s1.rd.consume 1 } := by simp [discard, r1]
  have eP : peekOrNull { s1 with rd := s1.rd.consume 1 } = .ok b { s1 with rd := s1.rd.consume 1 } := by
    simp [peekOrNull, peek_good _ gB, r1]
  cases hp : parseSymbolBytes [46] { s1 with rd := s1.rd.consume 1 } with
  | ok name s' =>
    rw [hp] at e2
    simp only [Res.ok.injEq, Option.some.injEq] at e2
    obtain ⟨ea, es⟩ := e2
    subst es
    rw [parseList]
    simp [e1, eD, eP, hb0, hbd, hp, ea, e3]
  | err e s' => rw [hp] at e2; simp at e2
  | panic p => rw [hp] at e2; simp at e2
  | fuel => rw [hp] at e2; simp at e2

/-! ### the printed text -/

/-- the printer options of the round trip -/
abbrev po : Print.Options := Print.Options.default

theorem asc_lparen : asc "(" = [40] := by decide
theorem asc_rparen : asc ")" = [41] := by decide
theorem asc_space : asc " " = [32] := by decide
theorem asc_dot : asc "." = [46] := by decide
theorem asc_hash_lparen : asc "#(" = [35, 40] := by decide

theorem flatten_append (a b : List Emit) : flatten (a ++ b) = flatten a ++ flatten b := by
  simp [flatten]

theorem flatten_cons_all (bs : List UInt8) (es : List Emit) :
    flatten (.all bs :: es) = bs ++ flatten es := by
  simp [flatten, Emit.bytes]

theorem flatten_nil : flatten [] = [] := rfl

theorem text_cons (ryu : Nat → List UInt8) (a d : Value) :
    text po ryu (.cons a d) = 40 :: (text po ryu a ++ (flatten (emitsTail po ryu d) ++ [41])) := by
  simp [text, emits, flatten_cons_all, flatten_append, asc_lparen, asc_rparen, flatten_nil]

theorem text_vector (ryu : Nat → List UInt8) (xs : List Value) :
    text po ryu (.vector xs) = 35 :: 40 :: (flatten (emitsSeq po ryu true xs) ++ [41]) := by
  simp [text, emits, flatten_cons_all, flatten_append, vecOpen, vecClose, po, Print.Options.default,
    asc_hash_lparen, asc_rparen, flatten_nil]

theorem text_null (ryu : Nat → List UInt8) : text po ryu .null = [40, 41] := by
  simp only [text, emits, atomEmits, flatten_cons_all, flatten_nil]; decide

theorem tail_null (ryu : Nat → List UInt8) : flatten (emitsTail po ryu .null) = [] := by
  simp [emitsTail, flatten_nil]

theorem tail_cons (ryu : Nat → List UInt8) (a d : Value) :
    flatten (emitsTail po ryu (.cons a d)) = 32 :: (text po ryu a ++ flatten (emitsTail po ryu d)) := by
  simp [text, emitsTail, flatten_cons_all, flatten_append, asc_space]

theorem seq_nil (ryu : Nat → List UInt8) (first : Bool) : flatten (emitsSeq po ryu first []) = [] := by
  simp [emitsSeq, flatten_nil]

theorem seq_true (ryu : Nat → List UInt8) (x : Value) (xs : List Value) :
    flatten (emitsSeq po ryu true (x :: xs)) = text po ryu x ++ flatten (emitsSeq po ryu false xs) := by
  simp [text, emitsSeq, flatten_append]

theorem seq_false (ryu : Nat → List UInt8) (x : Value) (xs : List Value) :
    flatten (emitsSeq po ryu false (x :: xs)) =
      32 :: (text po ryu x ++ flatten (emitsSeq po ryu false xs)) := by
  simp [text, emitsSeq, flatten_append, flatten_cons_all, asc_space]

/-- a tail that is neither a pair nor the empty list is printed ` . tail` -/
theorem tail_dotted (ryu : Nat → List UInt8) (d : Value) (h1 : d.isCons = false) (h2 : d ≠ .null) :
    flatten (emitsTail po ryu d) = 32 :: 46 :: 32 :: text po ryu d := by
  cases d <;>
    simp_all [Value.isCons, text, emits, emitsTail, flatten_cons_all, flatten_append, asc_space, asc_dot]

/-! ### the hypotheses on atoms -/

/-- bytes that end every token -/
def isFollow (b : UInt8) : Bool :=
  b == 32 || b == 10 || b == 9 || b == 13 || b == 12 || b == 40 || b == 41 || b == 91 || b == 93 ||
  b == 59

/-- what may come after a printed value: the end of the input or a byte that ends every token -/
def Follow (rest : List UInt8) : Prop := rest = [] ∨ ∃ b tl, rest = b :: tl ∧ isFollow b = true

/-- The first byte of the text of a list element lets the loops of `parse_list` / `parse_vector`
    hand it to `next_value`: it is not trivia, not `;`, not a closing delimiter, and a leading `.`
    is followed (inside the text) by a byte that is not a delimiter (else `parse_list` reads a
    dotted tail).  -/
def ElemHead (t : List UInt8) : Prop :=
  ∃ c tl, t = c :: tl ∧ isTrivia c = false ∧ c ≠ 59 ∧ c ≠ 41 ∧ c ≠ 93 ∧
    (c = 46 → ∃ b tl', tl = b :: tl' ∧ b ≠ 0 ∧ isDelimiter b = false)

/-- the text of an atom -/
def atomText (ryu : Nat → List UInt8) (v : Value) : List UInt8 := flatten (atomEmits po ryu v)

/-- `v` is an atom (not a pair, vector or the empty list) whose printed text is read back as `v`
    in every follow context, from every non-faulty slice state. -/
def AtomOK (cfg : Cfg) (ryu : Nat → List UInt8) (v : Value) : Prop :=
  v.isCons = false ∧ v.isVector = false ∧ v ≠ .null ∧ ElemHead (atomText ryu v) ∧
  ∀ (s : St) (rest : List UInt8) (fuel : Nat), Follow rest → Good s →
    s.rd.rest = atomText ryu v ++ rest → fuel ≥ s.rd.rest.length + 2 → 1 ≤ s.depth →
    Runs (nextValue cfg fuel) s (some v) rest

mutual
/-- every atom leaf (through car, cdr and vector elements) round-trips; `Null` always does -/
def AllAtomsOK (cfg : Cfg) (ryu : Nat → List UInt8) : Value → Prop
  | .cons a d => AllAtomsOK cfg ryu a ∧ AllAtomsOK cfg ryu d
  | .vector xs => AllAtomsOKSeq cfg ryu xs
  | .null => True
  | .nil => AtomOK cfg ryu .nil
  | .bool b => AtomOK cfg ryu (.bool b)
  | .number n => AtomOK cfg ryu (.number n)
  | .char c => AtomOK cfg ryu (.char c)
  | .string x => AtomOK cfg ryu (.string x)
  | .symbol x => AtomOK cfg ryu (.symbol x)
  | .keyword x => AtomOK cfg ryu (.keyword x)
  | .bytes x => AtomOK cfg ryu (.bytes x)
def AllAtomsOKSeq (cfg : Cfg) (ryu : Nat → List UInt8) : List Value → Prop
  | [] => True
  | x :: xs => AllAtomsOK cfg ryu x ∧ AllAtomsOKSeq cfg ryu xs
end

mutual
/-- number of `enter`s the parser has pending at the deepest point while reading the text of `v`:
    one per list or vector (also for `()`), not counting along the cdr chain -/
def nesting : Value → Nat
  | .cons a d => 1 + max (nesting a) (nestingTail d)
  | .vector xs => 1 + nestingSeq xs
  | .null => 1
  | .nil => 0
  | .bool _ => 0
  | .number _ => 0
  | .char _ => 0
  | .string _ => 0
  | .symbol _ => 0
  | .keyword _ => 0
  | .bytes _ => 0
/-- the same for the rest of a cdr chain, read inside the list that is already open -/
def nestingTail : Value → Nat
  | .cons a d => max (nesting a) (nestingTail d)
  | .vector xs => 1 + nestingSeq xs
  | .null => 0
  | .nil => 0
  | .bool _ => 0
  | .number _ => 0
  | .char _ => 0
  | .string _ => 0
  | .symbol _ => 0
  | .keyword _ => 0
  | .bytes _ => 0
def nestingSeq : List Value → Nat
  | [] => 0
  | x :: xs => max (nesting x) (nestingSeq xs)
end

/-! ### the three statements proved by mutual recursion -/

/-- `next_value` reads the text of `v` back as `v` -/
def ValueRT (cfg : Cfg) (ryu : Nat → List UInt8) (v : Value) : Prop :=
  ∀ (s : St) (rest : List UInt8) (fuel : Nat), Follow rest → Good s →
    s.rd.rest = text po ryu v ++ rest → fuel ≥ 2 * s.rd.rest.length + 3 →
    nesting v + 1 ≤ s.depth → Runs (nextValue cfg fuel) s (some v) rest

/-- the list loop, after at least one element, reads the rest of the cdr chain `d` up to (not
    including) the closing parenthesis -/
def TailRT (cfg : Cfg) (ryu : Nat → List UInt8) (d : Value) : Prop :=
  ∀ (s : St) (rest : List UInt8) (fuel : Nat) (acc : List Value), acc ≠ [] → Good s →
    s.rd.rest = flatten (emitsTail po ryu d) ++ 41 :: rest → fuel ≥ 2 * s.rd.rest.length + 3 →
    nestingTail d + 1 ≤ s.depth →
    Runs (parseList cfg fuel 41 acc) s (Value.append acc d) (41 :: rest)

/-- the vector loop reads the elements up to (not including) the closing parenthesis -/
def SeqRT (cfg : Cfg) (ryu : Nat → List UInt8) (first : Bool) (xs : List Value) : Prop :=
  ∀ (s : St) (rest : List UInt8) (fuel : Nat) (acc : List Value), Good s →
    s.rd.rest = flatten (emitsSeq po ryu first xs) ++ 41 :: rest →
    fuel ≥ 2 * s.rd.rest.length + (if first then 4 else 3) →
    nestingSeq xs + 1 ≤ s.depth →
    Runs (parseVector cfg fuel 41 acc) s (acc ++ xs) (41 :: rest)

theorem ElemHead.append {t : List UInt8} (h : ElemHead t) (rest : List UInt8) :
    ElemHead (t ++ rest) := by
  obtain ⟨c, tl, ht, h1, h2, h3, h4, h5⟩ := h
  refine ⟨c, tl ++ rest, by simp [ht], h1, h2, h3, h4, ?_⟩
  intro hc
  obtain ⟨b, tl', htl, hb⟩ := h5 hc
  exact ⟨b, tl' ++ rest, by simp [htl], hb⟩

/-- one round of the list loop on any element -/
theorem list_elem_step (cfg : Cfg) (hopts : cfg.opts = Parse.Options.default) (F : Nat) (s : St)
    (acc : List Value) (a w : Value) (pre t rest' rest'' : List UInt8)
    (h : Good s) (hpre : pre = [] ∨ pre = [32]) (hr : s.rd.rest = pre ++ (t ++ rest'))
    (hhead : ElemHead t)
    (hv : ∀ s1, Good s1 → s1.rd.rest = t ++ rest' → s1.depth = s.depth →
      Runs (nextValue cfg (F + 1)) s1 (some a) rest')
    (hk : ∀ s2, Good s2 → s2.rd.rest = rest' → s2.depth = s.depth →
      Runs (parseList cfg (F + 1) 41 (acc ++ [a])) s2 w rest'') :
    Runs (parseList cfg (F + 2) 41 acc) s w rest'' := by
  obtain ⟨c, tl, ht, h1, h2, h3, h4, h5⟩ := hhead.append rest'
  rw [ht] at hr hv
  have h2' : (c == 59) = false := by simp [h2]
  have hws : Runs parseWhitespace s (some c) (c :: tl) := by
    rcases hpre with rfl | rfl
    · exact ws_start s h c tl hr h1 h2'
    · exact ws_space s h c tl hr h1 h2'
  by_cases hc : c = 46
  · subst hc
    obtain ⟨b, tl', rfl, hb0, hbd⟩ := h5 rfl
    exact parseList_dotsym cfg hopts F s acc b tl' rest' rest'' a w hws hb0 hbd hv hk
  · exact parseList_elem cfg (F + 1) s acc c tl rest' rest'' a w hws h3 h4 hc hv hk

/-- one round of the vector loop on any element -/
theorem vec_elem_step (cfg : Cfg) (F : Nat) (s : St)
    (acc : List Value) (a : Value) (w : List Value) (pre t rest' rest'' : List UInt8)
    (h : Good s) (hpre : pre = [] ∨ pre = [32]) (hr : s.rd.rest = pre ++ (t ++ rest'))
    (hhead : ElemHead t)
    (hv : ∀ s1, Good s1 → s1.rd.rest = t ++ rest' → s1.depth = s.depth →
      Runs (nextValue cfg F) s1 (some a) rest')
    (hk : ∀ s2, Good s2 → s2.rd.rest = rest' → s2.depth = s.depth →
      Runs (parseVector cfg F 41 (acc ++ [a])) s2 w rest'') :
    Runs (parseVector cfg (F + 1) 41 acc) s w rest'' := by
  obtain ⟨c, tl, ht, h1, h2, h3, h4, h5⟩ := hhead.append rest'
  rw [ht] at hr hv
  have h2' : (c == 59) = false := by simp [h2]
  have hws : Runs parseWhitespace s (some c) (c :: tl) := by
    rcases hpre with rfl | rfl
    · exact ws_start s h c tl hr h1 h2'
    · exact ws_space s h c tl hr h1 h2'
  exact parseVector_elem cfg F s acc c tl rest' rest'' a w hws h3 h4 hv hk

/-! ### the cases of the mutual recursion -/

theorem follow_cons (b : UInt8) (tl : List UInt8) (h : isFollow b = true) : Follow (b :: tl) :=
  Or.inr ⟨b, tl, rfl, h⟩

/-- what follows an element of a list is a space or the closing parenthesis -/
theorem tail_follow (ryu : Nat → List UInt8) (d : Value) (rest : List UInt8) :
    Follow (flatten (emitsTail po ryu d) ++ 41 :: rest) := by
  by_cases h1 : d.isCons = true
  · cases d <;> simp [Value.isCons] at h1
    rw [tail_cons]; exact follow_cons _ _ (by decide)
  · by_cases h2 : d = .null
    · subst h2; rw [tail_null]; exact follow_cons _ _ (by decide)
    · rw [tail_dotted ryu d (by simpa using h1) h2]; exact follow_cons _ _ (by decide)

theorem seq_follow (ryu : Nat → List UInt8) (xs : List Value) (rest : List UInt8) :
    Follow (flatten (emitsSeq po ryu false xs) ++ 41 :: rest) := by
  cases xs with
  | nil => rw [seq_nil]; exact follow_cons _ _ (by decide)
  | cons x xs => rw [seq_false]; exact follow_cons _ _ (by decide)

theorem null_rt (cfg : Cfg) (ryu : Nat → List UInt8) : ValueRT cfg ryu .null := by
  intro s rest fuel _ hg hr hfu hd
  rw [text_null] at hr
  obtain ⟨F, rfl⟩ : ∃ F, fuel = F + 2 := ⟨fuel - 2, by omega⟩
  simp only [nesting] at hd
  refine nextValue_listOpen cfg (F + 1) s (41 :: rest) rest .null hg (by simpa using hr) (by omega) ?_
  intro s1 g1 r1 _
  exact parseList_close cfg F s1 [] rest g1 r1

theorem cons_rt (cfg : Cfg) (hopts : cfg.opts = Parse.Options.default) (ryu : Nat → List UInt8)
    (a d : Value) (hA : ValueRT cfg ryu a) (hhead : ElemHead (text po ryu a))
    (hD : TailRT cfg ryu d) : ValueRT cfg ryu (.cons a d) := by
  intro s rest fuel _ hg hr hfu hd
  rw [text_cons] at hr
  have hr' : s.rd.rest = 40 :: (text po ryu a ++ (flatten (emitsTail po ryu d) ++ 41 :: rest)) := by
    simpa using hr
  have hlen := congrArg List.length hr'
  simp only [List.length_cons, List.length_append] at hlen
  obtain ⟨F, rfl⟩ : ∃ F, fuel = F + 3 := ⟨fuel - 3, by omega⟩
  simp only [nesting] at hd
  refine nextValue_listOpen cfg (F + 2) s _ rest (.cons a d) hg hr' (by omega) ?_
  intro s1 g1 r1 d1
  refine list_elem_step cfg hopts F s1 [] a (.cons a d) [] (text po ryu a)
    (flatten (emitsTail po ryu d) ++ 41 :: rest) (41 :: rest) g1 (Or.inl rfl) (by simpa using r1)
    hhead ?_ ?_
  · intro s2 g2 r2 d2
    refine hA s2 _ (F + 1) (tail_follow ryu d rest) g2 r2 ?_ (by omega)
    rw [r2]; simp only [List.length_cons, List.length_append]; omega
  · intro s3 g3 r3 d3
    have := hD s3 rest (F + 1) [a] (by simp) g3 r3
      (by rw [r3]; simp only [List.length_cons, List.length_append]; omega) (by omega)
    simpa [Value.append] using this

theorem vector_rt (cfg : Cfg) (ryu : Nat → List UInt8) (xs : List Value)
    (hS : SeqRT cfg ryu true xs) : ValueRT cfg ryu (.vector xs) := by
  intro s rest fuel _ hg hr hfu hd
  rw [text_vector] at hr
  have hr' : s.rd.rest = 35 :: 40 :: (flatten (emitsSeq po ryu true xs) ++ 41 :: rest) := by
    simpa using hr
  have hlen := congrArg List.length hr'
  simp only [List.length_cons, List.length_append] at hlen
  obtain ⟨F, rfl⟩ : ∃ F, fuel = F + 1 := ⟨fuel - 1, by omega⟩
  simp only [nesting] at hd
  refine nextValue_vecOpen cfg F s _ rest xs hg hr' (by omega) ?_
  intro s1 g1 r1 d1
  have := hS s1 rest F [] g1 r1
    (by rw [r1]; simp only [List.length_cons, List.length_append, if_true]; omega) (by omega)
  simpa using this

theorem text_atom (ryu : Nat → List UInt8) (v : Value) (h1 : v.isCons = false)
    (h2 : v.isVector = false) : text po ryu v = atomText ryu v := by
  cases v <;> simp_all [Value.isCons, Value.isVector, text, emits, atomText]

theorem nesting_atom (v : Value) (h1 : v.isCons = false) (h2 : v.isVector = false)
    (h3 : v ≠ .null) : nesting v = 0 ∧ nestingTail v = 0 := by
  cases v <;> simp_all [Value.isCons, Value.isVector, nesting, nestingTail]

theorem atom_rt (cfg : Cfg) (ryu : Nat → List UInt8) (v : Value) (h : AtomOK cfg ryu v) :
    ValueRT cfg ryu v := by
  obtain ⟨h1, h2, h3, _, hrun⟩ := h
  intro s rest fuel hf hg hr hfu hd
  rw [text_atom ryu v h1 h2] at hr
  exact hrun s rest fuel hf hg hr (by omega) (by omega)

theorem tail_null_rt (cfg : Cfg) (ryu : Nat → List UInt8) : TailRT cfg ryu .null := by
  intro s rest fuel acc _ hg hr hfu hd
  rw [tail_null] at hr
  obtain ⟨F, rfl⟩ : ∃ F, fuel = F + 1 := ⟨fuel - 1, by omega⟩
  exact parseList_close cfg F s acc rest hg (by simpa using hr)

theorem append_snoc (acc : List Value) (a d : Value) :
    Value.append (acc ++ [a]) d = Value.append acc (.cons a d) := by
  induction acc with
  | nil => rfl
  | cons x xs ih => simp [Value.append, ih]

theorem tail_cons_rt (cfg : Cfg) (hopts : cfg.opts = Parse.Options.default) (ryu : Nat → List UInt8)
    (a d : Value) (hA : ValueRT cfg ryu a) (hhead : ElemHead (text po ryu a))
    (hD : TailRT cfg ryu d) : TailRT cfg ryu (.cons a d) := by
  intro s rest fuel acc _ hg hr hfu hd
  rw [tail_cons] at hr
  have hr' : s.rd.rest =
      [32] ++ (text po ryu a ++ (flatten (emitsTail po ryu d) ++ 41 :: rest)) := by
    simpa using hr
  have hlen := congrArg List.length hr'
  simp only [List.length_cons, List.length_append, List.length_nil] at hlen
  obtain ⟨F, rfl⟩ : ∃ F, fuel = F + 2 := ⟨fuel - 2, by omega⟩
  simp only [nestingTail] at hd
  refine list_elem_step cfg hopts F s acc a _ [32] (text po ryu a)
    (flatten (emitsTail po ryu d) ++ 41 :: rest) (41 :: rest) hg (Or.inr rfl) hr' hhead ?_ ?_
  · intro s2 g2 r2 d2
    refine hA s2 _ (F + 1) (tail_follow ryu d rest) g2 r2 ?_ (by omega)
    rw [r2]; simp only [List.length_cons, List.length_append]; omega
  · intro s3 g3 r3 d3
    have := hD s3 rest (F + 1) (acc ++ [a]) (by simp) g3 r3
      (by rw [r3]; simp only [List.length_cons, List.length_append]; omega) (by omega)
    rwa [append_snoc] at this

theorem tail_dotted_rt (cfg : Cfg) (ryu : Nat → List UInt8) (d : Value)
    (hD : ValueRT cfg ryu d) (hhead : ElemHead (text po ryu d)) (h1 : d.isCons = false)
    (h2 : d ≠ .null) (hn : nestingTail d = nesting d) : TailRT cfg ryu d := by
  intro s rest fuel acc hacc hg hr hfu hd
  rw [tail_dotted ryu d h1 h2] at hr
  obtain ⟨c, tl, ht, hc1, hc2, -, -, -⟩ := hhead
  have hr' : s.rd.rest = 32 :: 46 :: 32 :: (c :: (tl ++ 41 :: rest)) := by
    simpa [ht] using hr
  have hlen := congrArg List.length hr'
  simp only [List.length_cons, List.length_append] at hlen
  obtain ⟨F, rfl⟩ : ∃ F, fuel = F + 1 := ⟨fuel - 1, by omega⟩
  refine parseList_dotted cfg F s acc _ rest d hg hr' hacc ?_
  intro s1 g1 r1 d1
  obtain ⟨s2, g2, r2, d2, heq⟩ := nextValue_skip cfg s1 g1 c _ r1 hc1 (by simp [hc2])
  obtain ⟨s3, e3, r3, g3, d3⟩ := hD s2 (41 :: rest) F (follow_cons _ _ (by decide)) g2
    (by rw [r2, ht]; simp)
    (by rw [r2]; simp only [List.length_cons, List.length_append]; omega) (by omega)
  exact ⟨s3, (heq F).trans e3, r3, g3, by omega⟩

theorem seq_nil_rt (cfg : Cfg) (ryu : Nat → List UInt8) (first : Bool) : SeqRT cfg ryu first [] := by
  intro s rest fuel acc hg hr hfu hd
  rw [seq_nil] at hr
  obtain ⟨F, rfl⟩ : ∃ F, fuel = F + 1 := ⟨fuel - 1, by cases first <;> simp at hfu <;> omega⟩
  have := parseVector_close cfg F s acc rest hg (by simpa using hr)
  simpa using this

theorem seq_cons_rt (cfg : Cfg) (ryu : Nat → List UInt8) (first : Bool) (x : Value)
    (xs : List Value) (hX : ValueRT cfg ryu x) (hhead : ElemHead (text po ryu x))
    (hS : SeqRT cfg ryu false xs) : SeqRT cfg ryu first (x :: xs) := by
  intro s rest fuel acc hg hr hfu hd
  simp only [nestingSeq] at hd
  cases first with
  | true =>
    rw [seq_true] at hr
    have hr' : s.rd.rest =
        [] ++ (text po ryu x ++ (flatten (emitsSeq po ryu false xs) ++ 41 :: rest)) := by
      simpa using hr
    have hlen := congrArg List.length hr'
    simp only [List.length_cons, List.length_append, List.length_nil] at hlen
    simp only [if_true] at hfu
    obtain ⟨F, rfl⟩ : ∃ F, fuel = F + 1 := ⟨fuel - 1, by omega⟩
    refine vec_elem_step cfg F s acc x _ [] (text po ryu x)
      (flatten (emitsSeq po ryu false xs) ++ 41 :: rest) (41 :: rest) hg (Or.inl rfl) hr' hhead ?_ ?_
    · intro s2 g2 r2 d2
      refine hX s2 _ F (seq_follow ryu xs rest) g2 r2 ?_ (by omega)
      rw [r2]; simp only [List.length_cons, List.length_append]; omega
    · intro s3 g3 r3 d3
      have := hS s3 rest F (acc ++ [x]) g3 r3
        (by rw [r3]; simp only [List.length_cons, List.length_append]; simp; omega) (by omega)
      simpa using this
  | false =>
    rw [seq_false] at hr
    have hr' : s.rd.rest =
        [32] ++ (text po ryu x ++ (flatten (emitsSeq po ryu false xs) ++ 41 :: rest)) := by
      simpa using hr
    have hlen := congrArg List.length hr'
    simp only [List.length_cons, List.length_append, List.length_nil] at hlen
    simp at hfu
    obtain ⟨F, rfl⟩ : ∃ F, fuel = F + 1 := ⟨fuel - 1, by omega⟩
    refine vec_elem_step cfg F s acc x _ [32] (text po ryu x)
      (flatten (emitsSeq po ryu false xs) ++ 41 :: rest) (41 :: rest) hg (Or.inr rfl) hr' hhead ?_ ?_
    · intro s2 g2 r2 d2
      refine hX s2 _ F (seq_follow ryu xs rest) g2 r2 ?_ (by omega)
      rw [r2]; simp only [List.length_cons, List.length_append]; omega
    · intro s3 g3 r3 d3
      have := hS s3 rest F (acc ++ [x]) g3 r3
        (by rw [r3]; simp only [List.length_cons, List.length_append]; simp; omega) (by omega)
      simpa using this

theorem head_of_byte (c : UInt8) (tl : List UInt8) (h1 : isTrivia c = false) (h2 : c ≠ 59)
    (h3 : c ≠ 41) (h4 : c ≠ 93) (h5 : c ≠ 46) : ElemHead (c :: tl) :=
  ⟨c, tl, rfl, h1, h2, h3, h4, fun h => absurd h h5⟩

theorem atom_of_all (cfg : Cfg) (ryu : Nat → List UInt8) (v : Value) (h1 : v.isCons = false)
    (h2 : v.isVector = false) (h3 : v ≠ .null) (h : AllAtomsOK cfg ryu v) : AtomOK cfg ryu v := by
  cases v <;> simp_all [Value.isCons, Value.isVector, AllAtomsOK]

/-- the text of every value with good atoms starts with a byte the loops hand to `next_value` -/
theorem text_head (cfg : Cfg) (ryu : Nat → List UInt8) (v : Value) (h : AllAtomsOK cfg ryu v) :
    ElemHead (text po ryu v) := by
  by_cases h1 : v.isCons = true
  · cases v <;> simp [Value.isCons] at h1
    rw [text_cons]
    exact head_of_byte _ _ (by decide) (by decide) (by decide) (by decide) (by decide)
  by_cases h2 : v.isVector = true
  · cases v <;> simp [Value.isVector] at h2
    rw [text_vector]
    exact head_of_byte _ _ (by decide) (by decide) (by decide) (by decide) (by decide)
  by_cases h3 : v = .null
  · subst h3; rw [text_null]
    exact head_of_byte _ _ (by decide) (by decide) (by decide) (by decide) (by decide)
  have h1' : v.isCons = false := by simpa using h1
  have h2' : v.isVector = false := by simpa using h2
  rw [text_atom ryu v h1' h2']
  exact (atom_of_all cfg ryu v h1' h2' h3 h).2.2.2.1

/-- a dotted tail that is an atom -/
theorem tail_atom_rt (cfg : Cfg) (ryu : Nat → List UInt8) (d : Value) (h : AtomOK cfg ryu d) :
    TailRT cfg ryu d := by
  have hn := nesting_atom d h.1 h.2.1 h.2.2.1
  refine tail_dotted_rt cfg ryu d (atom_rt cfg ryu d h) ?_ h.1 h.2.2.1 (by omega)
  rw [text_atom ryu d h.1 h.2.1]; exact h.2.2.2.1

mutual
theorem value_rt (cfg : Cfg) (hopts : cfg.opts = Parse.Options.default) (ryu : Nat → List UInt8) :
    ∀ v : Value, AllAtomsOK cfg ryu v → ValueRT cfg ryu v
  | .cons a d, h => by
    simp only [AllAtomsOK] at h
    exact cons_rt cfg hopts ryu a d (value_rt cfg hopts ryu a h.1) (text_head cfg ryu a h.1)
      (tail_rt cfg hopts ryu d h.2)
  | .vector xs, h => by
    simp only [AllAtomsOK] at h
    exact vector_rt cfg ryu xs (seq_rt cfg hopts ryu true xs h)
  | .null, _ => null_rt cfg ryu
  | .nil, h => by simp only [AllAtomsOK] at h; exact atom_rt cfg ryu _ h
  | .bool _, h => by simp only [AllAtomsOK] at h; exact atom_rt cfg ryu _ h
  | .number _, h => by simp only [AllAtomsOK] at h; exact atom_rt cfg ryu _ h
  | .char _, h => by simp only [AllAtomsOK] at h; exact atom_rt cfg ryu _ h
  | .string _, h => by simp only [AllAtomsOK] at h; exact atom_rt cfg ryu _ h
  | .symbol _, h => by simp only [AllAtomsOK] at h; exact atom_rt cfg ryu _ h
  | .keyword _, h => by simp only [AllAtomsOK] at h; exact atom_rt cfg ryu _ h
  | .bytes _, h => by simp only [AllAtomsOK] at h; exact atom_rt cfg ryu _ h
theorem tail_rt (cfg : Cfg) (hopts : cfg.opts = Parse.Options.default) (ryu : Nat → List UInt8) :
    ∀ d : Value, AllAtomsOK cfg ryu d → TailRT cfg ryu d
  | .cons a d, h => by
    simp only [AllAtomsOK] at h
    exact tail_cons_rt cfg hopts ryu a d (value_rt cfg hopts ryu a h.1) (text_head cfg ryu a h.1)
      (tail_rt cfg hopts ryu d h.2)
  | .vector xs, h => by
    have hh := text_head cfg ryu (.vector xs) h
    simp only [AllAtomsOK] at h
    exact tail_dotted_rt cfg ryu (.vector xs)
      (vector_rt cfg ryu xs (seq_rt cfg hopts ryu true xs h)) hh rfl (by simp)
      (by simp [nesting, nestingTail])
  | .null, _ => tail_null_rt cfg ryu
  | .nil, h => by simp only [AllAtomsOK] at h; exact tail_atom_rt cfg ryu _ h
  | .bool _, h => by simp only [AllAtomsOK] at h; exact tail_atom_rt cfg ryu _ h
  | .number _, h => by simp only [AllAtomsOK] at h; exact tail_atom_rt cfg ryu _ h
  | .char _, h => by simp only [AllAtomsOK] at h; exact tail_atom_rt cfg ryu _ h
  | .string _, h => by simp only [AllAtomsOK] at h; exact tail_atom_rt cfg ryu _ h
  | .symbol _, h => by simp only [AllAtomsOK] at h; exact tail_atom_rt cfg ryu _ h
  | .keyword _, h => by simp only [AllAtomsOK] at h; exact tail_atom_rt cfg ryu _ h
  | .bytes _, h => by simp only [AllAtomsOK] at h; exact tail_atom_rt cfg ryu _ h
theorem seq_rt (cfg : Cfg) (hopts : cfg.opts = Parse.Options.default) (ryu : Nat → List UInt8) :
    ∀ (first : Bool) (xs : List Value), AllAtomsOKSeq cfg ryu xs → SeqRT cfg ryu first xs
  | first, [], _ => seq_nil_rt cfg ryu first
  | first, x :: xs, h => by
    simp only [AllAtomsOKSeq] at h
    exact seq_cons_rt cfg ryu first x xs (value_rt cfg hopts ryu x h.1) (text_head cfg ryu x h.1)
      (seq_rt cfg hopts ryu false xs h.2)
end

/-! ### the public entry point -/

theorem expectEnd_runs (s : St) (h : Good s) (hr : s.rd.rest = []) : Runs expectEnd s () [] := by
  obtain ⟨s1, e1, r1, g1, d1⟩ := ws_eof s h hr
  exact ⟨s1, by simp [expectEnd, e1], r1, g1, d1⟩

theorem fromTrait_of_nextValue (cfg : Cfg) (s : St) (v : Value)
    (hv : Runs (nextValue cfg (2 * s.rd.rest.length + 4)) s (some v) []) :
    Runs (fromTrait cfg) s v [] := by
  obtain ⟨s1, e1, r1, g1, d1⟩ := hv
  obtain ⟨s2, e2, r2, g2, d2⟩ := expectEnd_runs s1 g1 r1
  refine ⟨s2, ?_, r2, g2, by omega⟩
  simp [fromTrait, expectValue, nextValueTop, apiFuel, e1, e2]

/-! ### two atoms that satisfy `AtomOK` (the hypothesis is satisfiable) -/

theorem atomOK_bool (cfg : Cfg) (ryu : Nat → List UInt8) (b : Bool) : AtomOK cfg ryu (.bool b) := by
  have htext : atomText ryu (.bool b) = [35, if b then 116 else 102] := by
    cases b <;> simp [atomText, atomEmits, boolText, po, Print.Options.default, flatten_cons_all,
      flatten_nil] <;> decide
  refine ⟨rfl, rfl, by simp, ?_, ?_⟩
  · rw [htext]
    exact head_of_byte _ _ (by decide) (by decide) (by decide) (by decide) (by decide)
  · intro s rest fuel _ hg hr hfu _
    rw [htext] at hr
    obtain ⟨F, rfl⟩ : ∃ F, fuel = F + 1 := ⟨fuel - 1, by omega⟩
    obtain ⟨s1, e1, r1, g1, d1⟩ := ws_start s hg 35 _ (by simpa using hr) (by decide) (by decide)
    obtain ⟨s2, e2, r2, g2, d2⟩ := discard_runs s1 g1 35 _ r1
    obtain ⟨s3, e3, r3, g3, d3⟩ := next_runs s2 g2 _ _ r2
    refine ⟨s3, ?_, r3, g3, by omega⟩
    cases b <;> simp [nextValue, e1, tokenFuel, parseToken, e2, e3, Token.atom]

/-- Bridge from a token-level round trip to `AtomOK`: if `parse_token` (called, as `next_value`
    does, with the first byte of the text and fuel `unread length + 1`) turns the text of `v` into a
    token whose value is `v`, then `v` is `AtomOK`. -/
theorem atomOK_of_parseToken (cfg : Cfg) (ryu : Nat → List UInt8) (v : Value) (tok : Token)
    (h1 : v.isCons = false) (h2 : v.isVector = false) (h3 : v ≠ .null)
    (hat : tok.atom = some v) (hhead : ElemHead (atomText ryu v))
    (hrun : ∀ (s : St) (rest : List UInt8) (pk : UInt8) (tl : List UInt8), Follow rest → Good s →
      atomText ryu v = pk :: tl → s.rd.rest = atomText ryu v ++ rest →
      Runs (parseToken cfg (s.rd.rest.length + 1) pk) s tok rest) :
    AtomOK cfg ryu v := by
  refine ⟨h1, h2, h3, hhead, ?_⟩
  intro s rest fuel hf hg hr hfu _
  obtain ⟨c, tl, ht, hc1, hc2, -, -, -⟩ := hhead
  obtain ⟨F, rfl⟩ : ∃ F, fuel = F + 1 := ⟨fuel - 1, by omega⟩
  obtain ⟨s1, e1, r1, g1, d1⟩ := ws_start s hg c (tl ++ rest) (by simp [hr, ht]) hc1 (by simp [hc2])
  obtain ⟨s2, e2, r2, g2, d2⟩ := hrun s1 rest c tl hf g1 ht (by simp [r1, ht])
  refine ⟨s2, ?_, r2, g2, by omega⟩
  rw [nextValue]
  simp only [bind_apply, e1, tokenFuel, e2]
  cases tok <;> simp_all [Token.atom]

theorem atomOK_nil (cfg : Cfg) (ryu : Nat → List UInt8) : AtomOK cfg ryu .nil := by
  have htext : atomText ryu .nil = [35, 110, 105, 108] := by
    simp [atomText, atomEmits, nilText, po, Print.Options.default, flatten_cons_all, flatten_nil]
    decide
  refine atomOK_of_parseToken cfg ryu .nil .nil rfl rfl (by simp) rfl ?_ ?_
  · rw [htext]
    exact head_of_byte _ _ (by decide) (by decide) (by decide) (by decide) (by decide)
  · intro s rest pk tl _ hg ht hr
    rw [htext] at ht hr
    obtain ⟨rfl, rfl⟩ : pk = 35 ∧ tl = [110, 105, 108] := by simpa using ht.symm
    obtain ⟨s1, e1, r1, g1, d1⟩ := discard_runs s hg 35 _ (by simpa using hr)
    obtain ⟨s2, e2, r2, g2, d2⟩ := next_runs s1 g1 _ _ r1
    obtain ⟨s3, e3, r3, g3, d3⟩ := next_runs s2 g2 _ _ r2
    obtain ⟨s4, e4, r4, g4, d4⟩ := next_runs s3 g3 _ _ r3
    refine ⟨s4, ?_, r4, g4, by omega⟩
    have hil : asc "il" = [105, 108] := by decide
    simp [parseToken, e1, e2, hil, expectIdent, e3, e4]


/-! ### the depth bound is exact -/

/-- `()`, `(())`, `((()))`, … -/
def deep : Nat → Value
  | 0 => .null
  | n + 1 => .cons (deep n) .null

theorem nesting_deep (n : Nat) : nesting (deep n) = n + 1 := by
  induction n with
  | zero => simp [deep, nesting]
  | succ n ih => simp [deep, nesting, nestingTail, ih]; omega

theorem allAtomsOK_deep (cfg : Cfg) (ryu : Nat → List UInt8) (n : Nat) : AllAtomsOK cfg ryu (deep n) := by
  induction n with
  | zero => simp [deep, AllAtomsOK]
  | succ n ih => simp [deep, AllAtomsOK, ih]

theorem enter_limit (s : St) (hd : s.depth = 1) :
    enter s = .err (.syntax .recursionLimitExceeded s.rd.peekPosition.line s.rd.peekPosition.col) s := by
  simp [enter, hd]

/-- `end_seq` never panics or runs out of fuel on a good state -/
theorem endSeq_total (s : St) (h : Good s) :
    ∃ r s', attempt (endSeq 41) s = .ok r s' ∧ Good s' ∧ s'.depth = s.depth := by
  obtain ⟨s1, e1, r1, g1, d1⟩ := ws_runs s h
  have hatt : ∀ s', (∃ e, endSeq 41 s = .err e s') ∨ endSeq 41 s = .ok () s' →
      ∃ r, attempt (endSeq 41) s = .ok r s' := by
    intro s' h
    rcases h with ⟨e, h⟩ | h
    · exact ⟨.error e, by simp [attempt, h]⟩
    · exact ⟨.ok (), by simp [attempt, h]⟩
  cases hx : List.drop (wsLen s.rd.rest) s.rd.rest with
  | nil =>
    rw [hx] at e1
    obtain ⟨r, hr⟩ := hatt s1 (Or.inl ⟨_, by simp only [endSeq, bind_apply, e1, List.head?_nil, peekErr]; rfl⟩)
    exact ⟨r, s1, hr, g1, d1⟩
  | cons b tl =>
    rw [hx] at e1 r1
    by_cases hb : b = 41
    · subst hb
      obtain ⟨s2, e2, r2, g2, d2⟩ := discard_runs s1 g1 41 tl r1
      obtain ⟨r, hr⟩ := hatt s2 (Or.inr (by simp [endSeq, e1, e2]))
      exact ⟨r, s2, hr, g2, by omega⟩
    · obtain ⟨r, hr⟩ := hatt s1 (Or.inl ⟨_, by
        simp only [endSeq, bind_apply, e1, List.head?_cons, beq_iff_eq, hb, if_false, peekErr]; rfl⟩)
      exact ⟨r, s1, hr, g1, d1⟩


/-- reading `deep n` with a depth budget of `n + 1` (one less than needed) fails with
    `RecursionLimitExceeded` -/
theorem deep_fails (cfg : Cfg) (ryu : Nat → List UInt8) :
    ∀ (n : Nat) (s : St) (rest : List UInt8) (fuel : Nat), Good s →
      s.rd.rest = text po ryu (deep n) ++ rest → s.depth = n + 1 → fuel ≥ 2 * n + 1 →
      ∃ l c s', nextValue cfg fuel s = .err (.syntax .recursionLimitExceeded l c) s' ∧ Good s' ∧
        s'.depth = s.depth := by
  intro n
  induction n with
  | zero =>
    intro s rest fuel hg hr hd hfu
    simp only [deep, text_null] at hr
    obtain ⟨F, rfl⟩ : ∃ F, fuel = F + 1 := ⟨fuel - 1, by omega⟩
    obtain ⟨s1, e1, r1, g1, d1⟩ := ws_start s hg 40 _ (by simpa using hr) (by decide) (by decide)
    obtain ⟨s2, e2, r2, g2, d2⟩ := parseToken_lparen cfg (s1.rd.rest.length + 1) s1 g1 _ r1
    refine ⟨s2.rd.peekPosition.line, s2.rd.peekPosition.col, s2, ?_, g2, by omega⟩
    simp only [nextValue, bind_apply, e1, tokenFuel, e2, enter_limit s2 (by omega)]
  | succ n ih =>
    intro s rest fuel hg hr hd hfu
    simp only [deep, text_cons, tail_null] at hr
    obtain ⟨F, rfl⟩ : ∃ F, fuel = F + 2 := ⟨fuel - 2, by omega⟩
    obtain ⟨s1, e1, r1, g1, d1⟩ := ws_start s hg 40 _ (by simpa using hr) (by decide) (by decide)
    obtain ⟨s2, e2, r2, g2, d2⟩ := parseToken_lparen cfg (s1.rd.rest.length + 1) s1 g1 _ r1
    have g3 : Good { s2 with depth := s2.depth - 1 } := g2
    have hhead := text_head cfg ryu (deep n) (allAtomsOK_deep cfg ryu n)
    obtain ⟨c, tl, ht, h1, h2, h3, h4, h5⟩ := hhead
    have hc46 : c ≠ 46 := by
      cases n <;> simp [deep, text_null, text_cons] at ht <;> (rw [← ht.1]; decide)
    obtain ⟨s4, e4, r4, g4, d4⟩ := ws_start { s2 with depth := s2.depth - 1 } g3 c
      (tl ++ ([41] ++ rest)) (by simp [r2, ht]) h1 (by simp [h2])
    obtain ⟨l, k, s5, e5, g5, d5⟩ := ih s4 ([41] ++ rest) (F + 0) g4 (by simp [r4, ht])
      (by simp at d4; omega) (by omega)
    have g6 : Good { s5 with depth := s5.depth + 1 } := g5
    obtain ⟨r, s7, e7, g7, d7⟩ := endSeq_total { s5 with depth := s5.depth + 1 } g6
    refine ⟨l, k, s7, ?_, g7, ?_⟩
    · have hpl : parseList cfg (F + 1) 41 [] { s2 with depth := s2.depth - 1 } =
          .err (.syntax .recursionLimitExceeded l k) s5 := by
        simp only [Nat.add_zero] at e5
        rw [parseList]
        simp [e4, h3, h4, hc46, e5]
      have hat : attempt (parseList cfg (F + 1) 41 []) { s2 with depth := s2.depth - 1 } =
          .ok (.error (.syntax .recursionLimitExceeded l k)) s5 := by
        simp only [attempt, hpl]
      rw [nextValue]
      simp only [bind_apply, e1, tokenFuel, e2, enter_ok s2 (by omega), hat, leave, e7]
      cases r <;> rfl
    · simp at d4 d7; omega


theorem text_deep_length (ryu : Nat → List UInt8) (n : Nat) :
    (text po ryu (deep n)).length = 2 * n + 2 := by
  induction n with
  | zero => simp [deep, text_null]
  | succ n ih => simp [deep, text_cons, tail_null, ih]; omega

theorem deep_fails_top (cfg : Cfg) (ryu : Nat → List UInt8) :
    ∃ l c s', fromTrait cfg (initSt .slice (text po ryu (deep 127))) =
      .err (.syntax .recursionLimitExceeded l c) s' := by
  obtain ⟨l, c, s', e, _, _⟩ := deep_fails cfg ryu 127 (initSt .slice (text po ryu (deep 127))) []
    (2 * (initSt .slice (text po ryu (deep 127))).rd.rest.length + 4) ⟨rfl, rfl⟩ (by simp [initSt]) rfl
    (by simp [initSt, text_deep_length])
  exact ⟨l, c, s', by simp [fromTrait, expectValue, nextValueTop, apiFuel, e]⟩

/-! ### atoms that round-trip alone but not inside a list -/

/-- a concrete configuration for evaluating the model -/
def cfg0 : Cfg :=
  { opts := Parse.Options.default, isAlphabetic := fun _ => false, pow10 := fun _ => 0 }

/-- the syntax error code of a result, if it is one -/
def errCode {α : Type} : Res α → Option Code
  | .err (.syntax c _ _) _ => some c
  | _ => none

/-- value and unread input of a successful `next_value` returning a symbol -/
def symbolAndRest : Res (Option Value) → Option (List UInt8 × List UInt8)
  | .ok (some (.symbol x)) s' => some (x, s'.rd.rest)
  | _ => none

/-- The symbol `.|a` is printed as `.|a` and read back as the same symbol with nothing left
    (`parse_symbol` does not stop at `|`), but inside a list `parse_list` takes `.` followed by the
    delimiter `|` for a dotted tail: `(.|a)` is rejected and `(#t .|a)` as well.  The same happens
    with `."` and with `.` followed by a NUL byte.  This is why `ElemHead` restricts what may follow
    a leading `.`. -/
theorem dot_symbol_witness :
    symbolAndRest (nextValue cfg0 20 (initSt .slice (text po (fun _ => []) (.symbol [46, 124, 97]))))
      = some ([46, 124, 97], []) ∧
    errCode (nextValue cfg0 20 (initSt .slice
      (text po (fun _ => []) (.cons (.symbol [46, 124, 97]) .null))))
      = some .expectedSomeValue := by
  constructor <;> decide

theorem dot_symbol_witness_tail :
    errCode (nextValue cfg0 20 (initSt .slice
      (text po (fun _ => []) (.cons (.bool true) (.cons (.symbol [46, 124, 97]) .null)))))
      = some .expectedSomeValue := by
  decide +kernel

theorem dot_nul_witness :
    symbolAndRest (nextValue cfg0 20 (initSt .slice (text po (fun _ => []) (.symbol [46, 0]))))
      = some ([46, 0], []) ∧
    errCode (nextValue cfg0 20 (initSt .slice
      (text po (fun _ => []) (.cons (.symbol [46, 0]) .null))))
      = some .expectedSomeValue := by
  constructor <;> decide

theorem follow_symTerm (b : UInt8) (h : isFollow b = true) : symTermSlice b = true := by
  simp only [isFollow, Bool.or_eq_true, beq_iff_eq] at h
  rcases h with (((((((((h|h)|h)|h)|h)|h)|h)|h)|h)|h) <;> subst h <;> decide

theorem symLen_follow (rest : List UInt8) (h : Follow rest) : symLen .slice rest = 0 := by
  rcases h with rfl | ⟨b, tl, rfl, hb⟩
  · rfl
  · simp [symLen, symTerm, follow_symTerm b hb]

/-- The run part of `AtomOK` alone (the shape suggested for the hypothesis), without `ElemHead`. -/
def AtomRuns (cfg : Cfg) (ryu : Nat → List UInt8) (v : Value) : Prop :=
  v.isCons = false ∧ v.isVector = false ∧ v ≠ .null ∧
  ∀ (s : St) (rest : List UInt8) (fuel : Nat), Follow rest → Good s →
    s.rd.rest = atomText ryu v ++ rest → fuel ≥ s.rd.rest.length + 2 → 1 ≤ s.depth →
    Runs (nextValue cfg fuel) s (some v) rest

/-- the symbol `.|a` round-trips as an atom in every follow context -/
theorem atomRuns_dot_bar (cfg : Cfg) (hopts : cfg.opts = Parse.Options.default)
    (ryu : Nat → List UInt8) : AtomRuns cfg ryu (.symbol [46, 124, 97]) := by
  refine ⟨rfl, rfl, by simp, ?_⟩
  intro s rest fuel hf hg hr hfu _
  have htext : atomText ryu (.symbol [46, 124, 97]) = [46, 124, 97] := by
    simp [atomText, atomEmits, flatten_cons_all, flatten_nil]
  rw [htext] at hr
  obtain ⟨F, rfl⟩ : ∃ F, fuel = F + 1 := ⟨fuel - 1, by omega⟩
  have hr' : s.rd.rest = 46 :: 124 :: 97 :: rest := by simpa using hr
  rw [Runs, nextValue_dot cfg hopts F s hg _ hr']
  obtain ⟨hm, hfa⟩ := hg
  have hv : Utf8.valid [46, 124, 97] = true := by decide
  have h1 : symTerm Mode.slice 124 = false := by decide
  have h2 : symTerm Mode.slice 97 = false := by decide
  have hg2 : Good { s with rd := (s.rd.consume 1).consume 2 } := ⟨by simp [hm], by simp [hfa]⟩
  refine ⟨{ s with rd := (s.rd.consume 1).consume 2 }, ?_, by simp [hr'], hg2, rfl⟩
  simp [parseSymbolBytes, getRest, getMode, consumeN, hr', hm, symLen, h1, h2, symLen_follow rest hf,
    peek_good _ hg2, hv, symbolValue, symbolToken, hopts, Parse.Options.default]


/-- the depth formula at its smallest instance: `()` needs a budget of 2 -/
theorem null_depth_witness :
    errCode (nextValue cfg0 10 { initSt .slice [40, 41] with depth := 1 })
      = some .recursionLimitExceeded := by
  decide

/-! ## Main theorems -/

/-- **C01_structure.** Let every atom leaf of `v` round-trip (`AllAtomsOK`, the empty list needs
    nothing).  In any non-faulty slice state whose unread input is the default-options text of `v`
    followed by `rest` (empty or starting with a byte that ends every token), with a depth budget
    above the nesting of `v` and fuel at least `2 * (unread length) + 3`, `next_value` with default
    parser options returns `v`, leaves exactly `rest` unread, and restores the depth budget.
    Proper and dotted lists, vectors, `()` and any mixture of them are covered. -/
theorem C01_structure (cfg : Cfg) (hopts : cfg.opts = Parse.Options.default)
    (ryu : Nat → List UInt8) (v : Value) (h : AllAtomsOK cfg ryu v)
    (s : St) (rest : List UInt8) (fuel : Nat) (hf : Follow rest)
    (hm : s.rd.mode = .slice) (hfa : s.rd.faulty = false)
    (hr : s.rd.rest = text Print.Options.default ryu v ++ rest)
    (hfu : fuel ≥ 2 * s.rd.rest.length + 3) (hn : nesting v + 1 ≤ s.depth) :
    ∃ s', nextValue cfg fuel s = .ok (some v) s' ∧ s'.rd.rest = rest ∧ s'.rd.mode = .slice ∧
      s'.rd.faulty = false ∧ s'.depth = s.depth := by
  obtain ⟨s', e, r, ⟨gm, gf⟩, d⟩ := value_rt cfg hopts ryu v h s rest fuel hf ⟨hm, hfa⟩ hr hfu hn
  exact ⟨s', e, r, gm, gf, d⟩

/-- **C01_structure_public.** The same through the public `next_value` (`nextValueTop`), whose
    fuel `2 * length + 4` suffices. -/
theorem C01_structure_public (cfg : Cfg) (hopts : cfg.opts = Parse.Options.default)
    (ryu : Nat → List UInt8) (v : Value) (h : AllAtomsOK cfg ryu v)
    (s : St) (rest : List UInt8) (hf : Follow rest)
    (hm : s.rd.mode = .slice) (hfa : s.rd.faulty = false)
    (hr : s.rd.rest = text Print.Options.default ryu v ++ rest) (hn : nesting v + 1 ≤ s.depth) :
    ∃ s', nextValueTop cfg s = .ok (some v) s' ∧ s'.rd.rest = rest ∧ s'.rd.mode = .slice ∧
      s'.rd.faulty = false ∧ s'.depth = s.depth := by
  obtain ⟨s', e, r⟩ := C01_structure cfg hopts ryu v h s rest (2 * s.rd.rest.length + 4) hf hm hfa hr
    (by omega) hn
  exact ⟨s', by simp [nextValueTop, apiFuel, e], r⟩

/-- **C01_roundtrip_partial.** `from_slice(to_string(v)) = Ok(v)` with default options on both
    sides, for every `v` whose atoms round-trip and whose nesting is at most 127 (the parser starts
    with `remaining_depth = 128` and every open list or vector, `()` included, takes one).
    Partial in that the atom round trips are a hypothesis. -/
theorem C01_roundtrip_partial (cfg : Cfg) (hopts : cfg.opts = Parse.Options.default)
    (ryu : Nat → List UInt8) (v : Value) (h : AllAtomsOK cfg ryu v) (hn : nesting v ≤ 127) :
    ∃ s', fromTrait cfg (initSt .slice (text Print.Options.default ryu v)) = .ok v s' ∧
      s'.rd.rest = [] ∧ s'.depth = 128 := by
  have hv := value_rt cfg hopts ryu v h (initSt .slice (text po ryu v)) []
    (2 * (initSt .slice (text po ryu v)).rd.rest.length + 4) (Or.inl rfl) ⟨rfl, rfl⟩
    (by simp [initSt]) (by omega) (by simp [initSt]; omega)
  obtain ⟨s', e, r, _, d⟩ := fromTrait_of_nextValue cfg _ v hv
  exact ⟨s', e, r, d⟩

/-- **C01_depth_exact.** The bound is exact: `deep n` = `n + 1` nested pairs of parentheses has
    no atoms and nesting `n + 1`; read with a depth budget of `n + 1` it fails with
    `RecursionLimitExceeded` (and the budget is restored).  In particular the 128-fold `((…()…))`
    is rejected by `from_slice`. -/
theorem C01_depth_exact (cfg : Cfg) (ryu : Nat → List UInt8) (n : Nat) :
    AllAtomsOK cfg ryu (deep n) ∧ nesting (deep n) = n + 1 ∧
    (∀ (s : St) (rest : List UInt8) (fuel : Nat), s.rd.mode = .slice → s.rd.faulty = false →
      s.rd.rest = text Print.Options.default ryu (deep n) ++ rest → s.depth = n + 1 →
      fuel ≥ 2 * n + 1 →
      ∃ l c s', nextValue cfg fuel s = .err (.syntax .recursionLimitExceeded l c) s' ∧
        s'.depth = s.depth) ∧
    (∃ l c s', fromTrait cfg (initSt .slice (text Print.Options.default ryu (deep 127))) =
      .err (.syntax .recursionLimitExceeded l c) s') := by
  refine ⟨allAtomsOK_deep cfg ryu n, nesting_deep n, ?_, deep_fails_top cfg ryu⟩
  intro s rest fuel hm hfa hr hd hfu
  obtain ⟨l, c, s', e, _, d⟩ := deep_fails cfg ryu n s rest fuel ⟨hm, hfa⟩ hr hd hfu
  exact ⟨l, c, s', e, d⟩

/-- **C01_elemhead_needed.** The statement with the run part of the atom hypothesis alone
    (`AtomRuns`, i.e. `AtomOK` without `ElemHead`) is false: the symbol `.|a` satisfies `AtomRuns`
    (for every configuration with default options), yet the one-element list `(.|a)` printed from
    it is rejected with `ExpectedSomeValue`, because `parse_list` takes a `.` followed by the
    delimiter `|` for the dot of a dotted tail.  `C01_structure` is the variant with `ElemHead`. -/
theorem C01_elemhead_needed :
    AtomRuns cfg0 (fun _ => []) (.symbol [46, 124, 97]) ∧
    errCode (fromTrait cfg0 (initSt .slice
      (text Print.Options.default (fun _ => []) (.cons (.symbol [46, 124, 97]) .null))))
      = some .expectedSomeValue :=
  ⟨atomRuns_dot_bar cfg0 rfl _, by decide +kernel⟩

/-! ### instances -/

/-- `(#t () . #(#f (())))`: a dotted list with a vector tail; all hypotheses hold -/
example (cfg : Cfg) (hopts : cfg.opts = Parse.Options.default) (ryu : Nat → List UInt8) :
    let v : Value := .cons (.bool true) (.cons .null (.vector [.bool false, deep 1]))
    ∃ s', fromTrait cfg (initSt .slice (text Print.Options.default ryu v)) = .ok v s' ∧
      s'.rd.rest = [] ∧ s'.depth = 128 := by
  intro v
  refine C01_roundtrip_partial cfg hopts ryu v ?_ ?_
  · simp [v, AllAtomsOK, AllAtomsOKSeq, atomOK_bool, deep]
  · simp [v, nesting, nestingTail, nestingSeq, deep]

/-- the text of that value -/
example : text Print.Options.default (fun _ => [])
    (.cons (.bool true) (.cons .null (.vector [.bool false, deep 1]))) =
    asc "(#t () . #(#f (())))" := by decide

/-- `(#t . #f)` followed by `)` in a state with a depth budget of 2 -/
example (cfg : Cfg) (hopts : cfg.opts = Parse.Options.default) :
    let ryu : Nat → List UInt8 := fun _ => []
    ∃ s', nextValue cfg 100
        { initSt .slice (text Print.Options.default ryu (.cons (.bool true) (.bool false)) ++ [41])
          with depth := 2 } = .ok (some (.cons (.bool true) (.bool false))) s' ∧
      s'.rd.rest = [41] ∧ s'.rd.mode = .slice ∧ s'.rd.faulty = false ∧ s'.depth = 2 := by
  intro ryu
  refine C01_structure cfg hopts ryu _ ?_ _ [41] 100 (follow_cons _ _ (by decide)) rfl rfl rfl ?_ ?_
  · simp [AllAtomsOK, atomOK_bool]
  · have : text Print.Options.default ryu (.cons (.bool true) (.bool false)) = asc "(#t . #f)" := by
      decide
    simp [initSt, this]; decide
  · simp [nesting, nestingTail]

/-- the public `next_value` on `() #t`: returns `()` and leaves ` #t` -/
example (cfg : Cfg) (hopts : cfg.opts = Parse.Options.default) (ryu : Nat → List UInt8) :
    ∃ s', nextValueTop cfg (initSt .slice (text Print.Options.default ryu .null ++ [32, 35, 116])) =
      .ok (some .null) s' ∧ s'.rd.rest = [32, 35, 116] ∧ s'.rd.mode = .slice ∧
      s'.rd.faulty = false ∧ s'.depth = 128 := by
  refine C01_structure_public cfg hopts ryu .null (by simp [AllAtomsOK]) _ [32, 35, 116]
    (follow_cons _ _ (by decide)) rfl rfl rfl (by simp [nesting, initSt])

example (cfg : Cfg) (ryu : Nat → List UInt8) :
    nesting (deep 127) = 128 ∧ AllAtomsOK cfg ryu (deep 127) :=
  ⟨nesting_deep 127, allAtomsOK_deep cfg ryu 127⟩

end ListRT
end Parse
end Lexpr
