/-
  SpecRT — C01, last clause: "the printed text is also readable as the same datum by an independent
  reader of the documented R6RS/R7RS-style grammar".

  The reader is `Spec.readSchemeWith` (Spec/Reader.lean), written from the grammar and sharing
  nothing with the model of the crate's parser.  Main theorems:

    C01_independent_leaves : Leaves (SpecLeaf alpha ryu) v →
        Spec.readSchemeWith alpha (Print.text Print.Options.default ryu v) = some v
    C01_independent : FullRT.AllSupportedFull cfg ryu v → FullRT.AllLeaves (IdentNames alpha) v →
        Spec.readSchemeWith alpha (Print.text Print.Options.default ryu v) = some v

  for EVERY nesting depth (the reader has no depth limit and uses no fuel), every `alpha`.
  * Floats: only `Decimals.RyuSpec` is used (ryu's text denotes a decimal that rounds to the
    double); the exactness window of the crate's fast path (`FloatOK`) plays no role, because the
    specification reader assigns a literal its correctly rounded value.
  * Names: symbols and keywords must be identifiers of the grammar (`Spec.isIdentifier`).  This is
    NOT implied by the hypothesis of the crate-parser round trip (`PlainIdent`): the printer writes
    names verbatim, and the crate's parser accepts as a symbol whatever contains no terminator.
    Kernel-checked witnesses below (`witness_*`): the symbols `a"b`, `a#b`, `.5`, `+i` satisfy
    `AllSupportedFull` (so the crate reads its own text back) but their text is not that symbol for
    a reader of the documented grammar (`.5` IS the number 0.5 in R6RS and R7RS).
-/
import LexprModel.Proofs.SpecRTNum
namespace Lexpr
namespace SpecRT
open Spec Print

/-- The leaves of the independent-reader theorem: `#nil`, booleans, `u64` / negative `i64`
    integers, doubles for which ryu meets its specification (any finite double: no window), scalar
    characters, valid UTF-8 strings, symbols and keywords whose names are identifiers of the
    grammar, byte vectors with any content. -/
def SpecLeaf (alpha : Nat → Bool) (ryu : Nat → List UInt8) : Value → Prop
  | .nil => True
  | .bool _ => True
  | .number (.pos n) => n ≤ u64Max
  | .number (.neg i) => i64Min ≤ i ∧ i < 0
  | .number (.flt b) => b < 2 ^ 64 ∧ ∃ d : Decimals.RyuDec, Decimals.RyuSpec ryu b d
  | .char c => isScalar c = true
  | .string x => Utf8.valid x = true
  | .symbol x => isIdentifier alpha x = true
  | .keyword x => isIdentifier alpha x = true
  | .bytes _ => True
  | _ => False

theorem fold_default (v : Value) : fold po Parse.Options.default v = v :=
  FullRT.fold_default Parse.Options.default v

/-- every leaf is read back -/
theorem reads_leaf (alpha : Nat → Bool) (ryu : Nat → List UInt8) (v : Value)
    (h : SpecLeaf alpha ryu v) : ReadsAs lexeme (classify alpha) (text po ryu v) v := by
  cases v with
  | nil => exact reads_nil alpha ryu
  | bool b => exact reads_bool alpha ryu b
  | number n =>
    cases n with
    | pos n => exact reads_posint alpha ryu n h
    | neg i => exact reads_negint alpha ryu i h.1 h.2
    | flt b => obtain ⟨hb, d, hd⟩ := h; exact reads_float alpha ryu b hb d hd
  | char c => exact reads_char alpha ryu c h
  | string x => exact reads_string alpha ryu x h
  | symbol x => exact reads_symbol alpha ryu x h
  | keyword x => exact reads_keyword alpha ryu x h
  | bytes x => exact reads_bytes alpha ryu x
  | null => exact absurd h id
  | cons a d => exact absurd h id
  | vector xs => exact absurd h id

theorem readScheme_eq (alpha : Nat → Bool) (bs : List UInt8) :
    readSchemeWith alpha bs = (lexItems lexeme (classify alpha) bs).bind build := by
  unfold readSchemeWith lexItems tokens
  cases chunks lexeme 0 bs <;> rfl

/-- **C01_independent_leaves.**  The text the default printer writes for `v` is read by the
    independent reader as exactly `v`: one datum, nothing left over.  Any nesting depth. -/
theorem C01_independent_leaves (alpha : Nat → Bool) (ryu : Nat → List UInt8) (v : Value)
    (h : Leaves (SpecLeaf alpha ryu) v) :
    readSchemeWith alpha (Print.text Print.Options.default ryu v) = some v := by
  rw [readScheme_eq]
  have := value_reads lexeme (classify alpha) po (brackets_default alpha) ryu Parse.Options.default
    (SpecLeaf alpha ryu)
    (fun v _ _ _ hv => by rw [fold_default]; exact reads_leaf alpha ryu v hv) v h
  rw [fold_default] at this
  exact read_of_readsAs lexeme (classify alpha) _ v this

/-! ## The statement with the hypotheses of the crate-parser round trip -/

/-- symbol and keyword names are identifiers of the documented grammar -/
def IdentNames (alpha : Nat → Bool) : Value → Prop
  | .symbol x => isIdentifier alpha x = true
  | .keyword x => isIdentifier alpha x = true
  | _ => True

/-- a leaf of the crate-parser round trip whose name (if any) is an identifier is a leaf here;
    of `FloatOK` only the `RyuSpec` half is used -/
theorem specLeaf_of_full (alpha : Nat → Bool) (cfg : Parse.Cfg) (ryu : Nat → List UInt8) (v : Value)
    (h : FullRT.LeafFull cfg ryu v) (hid : IdentNames alpha v) : SpecLeaf alpha ryu v := by
  cases v with
  | number n =>
    cases n with
    | pos n => exact h
    | neg i => exact h
    | flt b => obtain ⟨hb, d, hd, -⟩ := h; exact ⟨hb, d, hd⟩
  | symbol x => exact hid
  | keyword x => exact hid
  | nil => trivial
  | bool b => trivial
  | char c => exact h
  | string x => exact h
  | bytes x => trivial
  | null => exact h
  | cons a d => exact h
  | vector xs => exact h

/-- **C01_independent.**  Under the hypotheses of `C01_roundtrip_all_sources` (default options;
    `AllSupportedFull`) WITHOUT the nesting bound, plus: names are identifiers of the grammar. -/
theorem C01_independent (alpha : Nat → Bool) (cfg : Parse.Cfg) (ryu : Nat → List UInt8) (v : Value)
    (h : FullRT.AllSupportedFull cfg ryu v) (hid : FullRT.AllLeaves (IdentNames alpha) v) :
    readSchemeWith alpha (Print.text Print.Options.default ryu v) = some v :=
  C01_independent_leaves alpha ryu v
    (leaves_of_allLeaves (fun v _ => specLeaf_of_full alpha cfg ryu v) v h hid)

/-! ## Witnesses: why the names must be identifiers of the grammar

Each value below satisfies the hypothesis of the crate-parser round trip (`AllSupportedFull`: the
crate reads its own text back as the same symbol, `C01_roundtrip_all_sources`), yet the text means
something else, or nothing, to a reader of the documented grammar — for every `alpha`.  Checked
against the real crate: `to_string(Value::symbol(".5")) == ".5"`, `from_str(".5") == Symbol(".5")`. -/

theorem supported_symbol (cfg : Parse.Cfg) (ryu : Nat → List UInt8) (x : List UInt8)
    (h : Parse.PlainIdent x ∧ Parse.ListRT.dotHeadOk x = true) :
    FullRT.AllSupportedFull cfg ryu (.symbol x) := by
  simpa only [FullRT.AllSupportedFull, FullRT.AllLeaves, FullRT.LeafFull, Parse.ListRT.SupportedAtom]
    using h

/-- the symbol `.5` is printed as `.5`, which the grammar reads as the NUMBER 0.5
    (R7RS `<decimal 10> → . <digit 10>+ <suffix>`); the crate's parser reads it as a symbol -/
theorem witness_dot5 (alpha : Nat → Bool) (cfg : Parse.Cfg) (ryu : Nat → List UInt8) :
    FullRT.AllSupportedFull cfg ryu (.symbol (asc ".5")) ∧
    readSchemeWith alpha (Print.text Print.Options.default ryu (.symbol (asc ".5"))) =
      some (.number (.flt 0x3FE0000000000000)) :=
  ⟨supported_symbol cfg ryu _ (by decide), by rw [text_symbol]; rfl⟩

/-- the symbol `a"b` is printed as `a"b`: an identifier followed by an unterminated string -/
theorem witness_quote (alpha : Nat → Bool) (cfg : Parse.Cfg) (ryu : Nat → List UInt8) :
    FullRT.AllSupportedFull cfg ryu (.symbol (asc "a\"b")) ∧
    readSchemeWith alpha (Print.text Print.Options.default ryu (.symbol (asc "a\"b"))) = none :=
  ⟨supported_symbol cfg ryu _ (by decide), by rw [text_symbol]; rfl⟩

/-- the symbol `a#b` is printed as `a#b`; `#` is not a `<subsequent>` -/
theorem witness_hash (alpha : Nat → Bool) (cfg : Parse.Cfg) (ryu : Nat → List UInt8) :
    FullRT.AllSupportedFull cfg ryu (.symbol (asc "a#b")) ∧
    readSchemeWith alpha (Print.text Print.Options.default ryu (.symbol (asc "a#b"))) = none :=
  ⟨supported_symbol cfg ryu _ (by decide), by rw [text_symbol]; rfl⟩

/-- the symbol `+i` is printed as `+i`, the imaginary unit of the grammar (7.1.1: "`+i`, `-i` and
    `<infnan>` are exceptions to the `<peculiar identifier>` rule") -/
theorem witness_plus_i (alpha : Nat → Bool) (cfg : Parse.Cfg) (ryu : Nat → List UInt8) :
    FullRT.AllSupportedFull cfg ryu (.symbol (asc "+i")) ∧
    readSchemeWith alpha (Print.text Print.Options.default ryu (.symbol (asc "+i"))) = none :=
  ⟨supported_symbol cfg ryu _ (by decide), by rw [text_symbol]; rfl⟩

/-- a keyword named `1` is printed as `#:1`, and `1` is not an identifier -/
theorem witness_keyword_digit (alpha : Nat → Bool) (cfg : Parse.Cfg) (ryu : Nat → List UInt8) :
    FullRT.AllSupportedFull cfg ryu (.keyword (asc "1")) ∧
    readSchemeWith alpha (Print.text Print.Options.default ryu (.keyword (asc "1"))) = none := by
  refine ⟨?_, by rw [text_keyword]; rfl⟩
  simp only [FullRT.AllSupportedFull, FullRT.AllLeaves, FullRT.LeafFull, Parse.ListRT.SupportedAtom]
  decide

/-! ## Non-vacuity -/

open Decimals in
/-- `#((a #u8(1 2 255) 1.5 . -100.0) "s" #:k () #\x3bb 1.2345678901234568e17)`: every leaf kind; the
    last float has 17 significant digits, outside the window of `FloatOK` in the default build -/
def exValue : Value :=
  .vector [.cons (.symbol (asc "a")) (.cons (.bytes [1, 2, 255])
    (.cons (.number (.flt 0x3FF8000000000000)) (.number (.flt 0xC059000000000000)))),
    .string (asc "s"), .keyword (asc "k"), .null, .char 955, .number (.flt 0x437B69B4BA630F35)]

open Decimals in
theorem exValue_leaves (alpha : Nat → Bool) : Leaves (SpecLeaf alpha ryuEx) exValue := by
  simp only [exValue, Leaves, LeavesSeq, SpecLeaf, and_true, true_and]
  refine ⟨⟨rfl, ⟨by decide, ⟨false, 15, -1, .mid⟩, ?_⟩, ⟨by decide, ⟨true, 1, 2, .intDot0⟩, ?_⟩⟩,
    by decide, rfl, by decide, ⟨by decide, ⟨false, 12345678901234568, 1, .sci⟩, ?_⟩⟩
  all_goals exact ⟨by decide, by decide, by decide, by decide +kernel⟩

example (alpha : Nat → Bool) :
    readSchemeWith alpha (Print.text Print.Options.default Decimals.ryuEx exValue) = some exValue :=
  C01_independent_leaves alpha _ _ (exValue_leaves alpha)

example : Print.text Print.Options.default Decimals.ryuEx exValue =
    asc "#((a #u8(1 2 255) 1.5 . -100.0) \"s\" #:k () #\\x3bb 1.2345678901234568e17)" := by
  decide +kernel

/-- the reader itself, run by the kernel on that text (compared with `Value.beq`) -/
example : (readSchemeWith (fun _ => false)
    (asc "#((a #u8(1 2 255) 1.5 . -100.0) \"s\" #:k () #\\x3bb 1.2345678901234568e17)")).map
      (Value.beq · exValue) = some true := by decide +kernel

/-- the hypotheses of `C01_independent` are satisfiable together -/
example : FullRT.AllSupportedFull Decimals.exCfgFast Decimals.ryuEx
      (.cons (.symbol (asc "set!")) (.cons (.keyword (asc "k")) (.number (.flt 0x3FF8000000000000)))) ∧
    FullRT.AllLeaves (IdentNames (fun _ => false))
      (.cons (.symbol (asc "set!")) (.cons (.keyword (asc "k")) (.number (.flt 0x3FF8000000000000)))) := by
  simp only [FullRT.AllSupportedFull, FullRT.AllLeaves, FullRT.LeafFull, Parse.ListRT.SupportedAtom,
    IdentNames]
  exact ⟨⟨by decide, by decide, Decimals.floatOK_ex_15⟩, by decide +kernel, by decide +kernel, trivial⟩

/-- no depth limit: `((((…a…))))` nested `n` deep is read back for every `n` (the crate's own parser
    refuses 128 levels, `C01_depth_exact`) -/
def deep : Nat → Value
  | 0 => .symbol (asc "a")
  | n + 1 => .cons (deep n) .null

theorem deep_independent (alpha : Nat → Bool) (ryu : Nat → List UInt8) (n : Nat) :
    readSchemeWith alpha (Print.text Print.Options.default ryu (deep n)) = some (deep n) := by
  apply C01_independent_leaves
  induction n with
  | zero => simp only [deep, Leaves, SpecLeaf]; rfl
  | succ n ih => simp only [deep, Leaves, and_true]; exact ih

#print axioms C01_independent_leaves
#print axioms C01_independent
#print axioms witness_dot5
#print axioms witness_quote
#print axioms witness_hash
#print axioms witness_plus_i
#print axioms witness_keyword_digit
#print axioms deep_independent

end SpecRT
end Lexpr
