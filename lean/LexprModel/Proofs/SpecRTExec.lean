/-
  The independent-reader theorems for the closed executable readers `Spec.readScheme` and
  `Spec.readElisp` (`alpha` := Unicode Alphabetic): the statements C01 and C02 end with.
-/
import LexprModel.Proofs.SpecRT
import LexprModel.Proofs.SpecRTElisp
import LexprModel.Spec.ReaderExec
namespace Lexpr
open Spec SpecRT

/-- **C01_independent**: for every value in the domain of `C01_roundtrip_all_sources` (default
    printer options; `FullRT.AllSupportedFull`) whose symbol and keyword names are identifiers of the
    grammar, at ANY nesting depth, the printed text is read by the independent reader of the
    documented grammar as exactly that value.  Of the float hypothesis `FloatOK` only `RyuSpec` is
    used (see `SpecRT.C01_independent_leaves` for the statement with that alone). -/
theorem C01_independent (cfg : Parse.Cfg) (ryu : Nat → List UInt8) (v : Value)
    (h : FullRT.AllSupportedFull cfg ryu v)
    (hid : FullRT.AllLeaves (SpecRT.IdentNames unicodeAlphabetic) v) :
    Spec.readScheme (Print.text Print.Options.default ryu v) = some v :=
  SpecRT.C01_independent unicodeAlphabetic cfg ryu v h hid

/-- **C02_independent_elisp**: for every value in the domain of the Emacs Lisp round trip
    (`FullRT.AllPlainForF` for `Print.Options.elisp` / `Parse.Options.elisp`) whose names are symbols
    of the documented subset, at ANY nesting depth, the printed text is read by the independent
    Emacs Lisp reader as the documented folding of the value. -/
theorem C02_independent_elisp (cfg : Parse.Cfg) (ho : cfg.opts = Parse.Options.elisp)
    (ryu : Nat → List UInt8) (v : Value)
    (h : FullRT.AllPlainForF Print.Options.elisp cfg ryu v)
    (hid : FullRT.AllLeaves (SpecRT.El.ElNames unicodeAlphabetic) v) :
    Spec.readElisp (Print.text Print.Options.elisp ryu v) =
      some (Spec.fold Print.Options.elisp Parse.Options.elisp v) :=
  SpecRT.El.C02_independent_elisp unicodeAlphabetic cfg ho ryu v h hid

#print axioms C01_independent
#print axioms C02_independent_elisp

end Lexpr
