/-
  Call depth of the hand-written `Clone` / `PartialEq` / `Drop` of `Cons` (C16), from the loops
  themselves (LexprModel/ConsOpsDepth.lean instruments the functions of LexprModel/ConsOps.lean).

    cloneVI_eq        cloneVI v = (.ok v, Depth.looped v)        result and exact depth, every value
    clone_depth_le    (cloneVI v).2 ≤ nesting v + 1              (through C16_depth_looped)
    eqVI_fst          (eqVI a b).1 = eqV a b                      erasure
    eq_depth_le       (eqVI a b).2 ≤ min (nesting a) (nesting b) + 1
    dropD_loop        dropD (cons a d) = 1 + max (cells dropped by `Cons.dropLoop`) (glue on what is left)
    drop_depth_le     dropD v ≤ 2 * Depth.looped v ≤ 2 * nesting v + 2
    drop_depth_not_looped   witness: the bound `nesting + 1` of `Depth.looped` does NOT hold for drop
    *_flat            a flat list of n atoms: depth 2 (clone, ==) and ≤ 4 (drop), for every n
-/
import LexprModel.ConsOpsDepth
import LexprModel.Proofs.ConsOps
import LexprModel.Props.C16
namespace Lexpr
namespace ConsOps
open Value Depth Spec

/-! ### Clone -/

mutual
/-- **cloneVI_eq**: the instrumented loop returns the value itself, and the depth it reaches is
    exactly `Depth.looped v` — one level per nesting through cars / vector elements / the tail,
    nothing per element. -/
theorem cloneVI_eq : ∀ v : Value, cloneVI v = (.ok v, looped v)
  | .cons a d => by
    have h := cloneWhileI_eq d [] a (looped a)
    simp only [append, List.length_nil] at h
    simp only [cloneVI, cloneVI_eq a, h, looped]
  | .vector xs => by simp [cloneVI, cloneListI_eq xs, Out.map, looped]
  | .nil | .null | .bool _ | .number _ | .char _ | .string _ | .symbol _ | .keyword _ | .bytes _ => by
    simp [cloneVI, looped]
theorem cloneWhileI_eq : ∀ (rest : Value) (ys : List Value) (c : Value) (k : Nat),
    cloneWhileI (append ys (.cons c .null)) ys.length rest k
      = (.ok (append ys (.cons c rest)), max k (loopedTail rest))
  | .cons a d, ys, c, k => by
    have ih := cloneWhileI_eq d (ys ++ [c]) a (max k (looped a))
    simp only [append_snoc, List.length_append, List.length_cons, List.length_nil,
      Nat.zero_add] at ih
    simp only [cloneWhileI, cloneVI_eq a, setCdrAt_append, cellAt_append, ih, loopedTail,
      Nat.max_assoc]
  | .vector xs, ys, c, k => by
    simp only [cloneWhileI, cloneListI_eq xs, Out.map, finish_append, loopedTail]
  | .nil, ys, c, k | .null, ys, c, k | .bool _, ys, c, k | .number _, ys, c, k | .char _, ys, c, k
  | .string _, ys, c, k | .symbol _, ys, c, k | .keyword _, ys, c, k | .bytes _, ys, c, k => by
    simp only [cloneWhileI, finish_append, loopedTail]
theorem cloneListI_eq : ∀ xs : List Value, cloneListI xs = (.ok xs, loopedList xs)
  | [] => by simp [cloneListI, loopedList]
  | x :: xs => by simp [cloneListI, cloneVI_eq x, cloneListI_eq xs, Out.map, loopedList]
end

/-- erasure: the instrumented clone computes `cloneV` -/
theorem cloneVI_fst (v : Value) : (cloneVI v).1 = cloneV v := by rw [cloneVI_eq, clone_eq]

/-- **clone_depth_le**: cloning uses at most `nesting v + 1` levels, whatever the number of elements. -/
theorem clone_depth_le (v : Value) : (cloneVI v).2 ≤ nesting v + 1 := by
  rw [cloneVI_eq]; exact C16_depth_looped v

/-- a flat list of n atoms is cloned at depth ≤ 2, for every n -/
theorem clone_depth_flat (n : Nat) :
    (cloneVI (Value.list (List.replicate n (.number (.pos 7))))).2 ≤ 2 := by
  rw [cloneVI_eq]; exact C16_flat_list n

/-! ### PartialEq -/

theorem looped_pos (v : Value) : 1 ≤ looped v := by cases v <;> simp [looped]
theorem loopedTail_pos : ∀ v : Value, 1 ≤ loopedTail v
  | .cons a d => by
    have := looped_pos a
    simp only [loopedTail]; omega
  | .vector _ => by simp [loopedTail]
  | .nil | .null | .bool _ | .number _ | .char _ | .string _ | .symbol _ | .keyword _ | .bytes _ => by
    simp [loopedTail]

mutual
theorem eqVI_spec : ∀ a b : Value,
    (eqVI a b).1 = eqV a b ∧ (eqVI a b).2 ≤ looped a ∧ (eqVI a b).2 ≤ looped b
  | .cons a d, b => by
    cases b with
    | cons a' d' =>
      obtain ⟨h1, h2, h3⟩ := eqVI_spec a a'
      obtain ⟨t1, t2, t3⟩ := eqTailI_spec d d'
      simp only [eqVI, eqV, looped]
      rcases he : eqVI a a' with ⟨r, k⟩
      rw [he] at h1 h2 h3
      simp only at h1 h2 h3
      cases r with
      | false => simp only [← h1]; refine ⟨by simp, by omega, by omega⟩
      | true =>
        rcases ht : eqTailI d d' with ⟨r', k'⟩
        rw [ht] at t1 t2 t3
        simp only at t1 t2 t3
        simp only [← h1, ← t1]
        refine ⟨by simp, by omega, by omega⟩
    | vector ys => simp [eqVI, eqV, looped]
    | nil | null | bool _ | number _ | char _ | string _ | symbol _ | keyword _ | bytes _ =>
      simp [eqVI, eqV, looped]
  | .vector xs, b => by
    cases b with
    | vector ys =>
      obtain ⟨l1, l2, l3⟩ := eqListI_spec xs ys
      simp only [eqVI, eqV, looped]
      exact ⟨l1, by omega, by omega⟩
    | cons a' d' => simp [eqVI, eqV, looped]
    | nil | null | bool _ | number _ | char _ | string _ | symbol _ | keyword _ | bytes _ =>
      simp [eqVI, eqV, looped]
  | .nil, b | .null, b | .bool _, b | .number _, b | .char _, b | .string _, b | .symbol _, b
  | .keyword _, b | .bytes _, b => by
    have := looped_pos b
    cases b <;> simp_all [eqVI, eqV, looped]
theorem eqTailI_spec : ∀ a b : Value,
    (eqTailI a b).1 = eqTail a b ∧ (eqTailI a b).2 ≤ loopedTail a ∧ (eqTailI a b).2 ≤ loopedTail b
  | .cons a d, b => by
    cases b with
    | cons a' d' =>
      obtain ⟨h1, h2, h3⟩ := eqVI_spec a a'
      obtain ⟨t1, t2, t3⟩ := eqTailI_spec d d'
      simp only [eqTailI, eqTail, loopedTail]
      rcases he : eqVI a a' with ⟨r, k⟩
      rw [he] at h1 h2 h3
      simp only at h1 h2 h3
      cases r with
      | false => simp only [← h1]; refine ⟨by simp, by omega, by omega⟩
      | true =>
        rcases ht : eqTailI d d' with ⟨r', k'⟩
        rw [ht] at t1 t2 t3
        simp only at t1 t2 t3
        simp only [← h1, ← t1]
        refine ⟨by simp, by omega, by omega⟩
    | vector ys =>
      have := looped_pos a
      simp [eqTailI, eqTail, loopedTail]; omega
    | nil | null | bool _ | number _ | char _ | string _ | symbol _ | keyword _ | bytes _ =>
      have := looped_pos a
      simp [eqTailI, eqTail, loopedTail]; omega
  | .vector xs, b => by
    cases b with
    | vector ys =>
      obtain ⟨l1, l2, l3⟩ := eqListI_spec xs ys
      simp only [eqTailI, eqTail, loopedTail]
      exact ⟨l1, by omega, by omega⟩
    | cons a' d' =>
      have := looped_pos a'
      simp [eqTailI, eqTail, loopedTail]; omega
    | nil | null | bool _ | number _ | char _ | string _ | symbol _ | keyword _ | bytes _ =>
      simp [eqTailI, eqTail, loopedTail]
  | .nil, b | .null, b | .bool _, b | .number _, b | .char _, b | .string _, b | .symbol _, b
  | .keyword _, b | .bytes _, b => by
    have := loopedTail_pos b
    cases b <;> simp_all [eqTailI, eqTail, loopedTail]
theorem eqListI_spec : ∀ xs ys : List Value,
    (eqListI xs ys).1 = eqList xs ys ∧ (eqListI xs ys).2 ≤ loopedList xs ∧
      (eqListI xs ys).2 ≤ loopedList ys
  | [], ys => by cases ys <;> simp [eqListI, eqList]
  | x :: xs, ys => by
    cases ys with
    | nil => simp [eqListI, eqList]
    | cons y ys =>
      obtain ⟨h1, h2, h3⟩ := eqVI_spec x y
      obtain ⟨t1, t2, t3⟩ := eqListI_spec xs ys
      simp only [eqListI, eqList, loopedList]
      rcases he : eqVI x y with ⟨r, k⟩
      rw [he] at h1 h2 h3
      simp only at h1 h2 h3
      cases r with
      | false => simp only [← h1]; refine ⟨by simp, by omega, by omega⟩
      | true =>
        rcases ht : eqListI xs ys with ⟨r', k'⟩
        rw [ht] at t1 t2 t3
        simp only at t1 t2 t3
        simp only [← h1, ← t1]
        refine ⟨by simp, by omega, by omega⟩
end

/-- erasure: the instrumented comparison computes `eqV` -/
theorem eqVI_fst (a b : Value) : (eqVI a b).1 = eqV a b := (eqVI_spec a b).1

/-- **eq_depth_le**: comparing uses at most `min (nesting a) (nesting b) + 1` levels. -/
theorem eq_depth_le (a b : Value) :
    (eqVI a b).2 ≤ nesting a + 1 ∧ (eqVI a b).2 ≤ nesting b + 1 :=
  ⟨Nat.le_trans (eqVI_spec a b).2.1 (C16_depth_looped a),
   Nat.le_trans (eqVI_spec a b).2.2 (C16_depth_looped b)⟩

/-- two flat lists of any lengths are compared at depth ≤ 2 -/
theorem eq_depth_flat (n : Nat) (b : Value) :
    (eqVI (Value.list (List.replicate n (.number (.pos 7)))) b).2 ≤ 2 :=
  Nat.le_trans (eqVI_spec _ b).2.1 (C16_flat_list n)

/-! ### Drop -/

theorem dropD_nilnil : dropD (.cons .nil .nil) = 2 := by decide

theorem dropD_noncons (t : Value) (h : t.isCons = false) (k : Nat) :
    chainD k t = 1 + max k (dropD t) := by
  cases t <;> simp_all [isCons, chainD, dropD]

/-- the depth function `chainD` is the deepest of the cells that the loop drops -/
theorem chainD_cells : ∀ (d a : Value), chainD (dropD a) d = maxOf ((dropWhile a d).map cellD)
  | .cons x y, a => by
    simp only [chainD, dropWhile, List.map_cons, maxOf, cellD, dropD_nilnil, chainD_cells y x]
  | .vector xs, a => by simp [chainD, dropWhile, maxOf, cellD, dropD]
  | .nil, a | .null, a | .bool _, a | .number _, a | .char _, a | .string _, a | .symbol _, a
  | .keyword _, a | .bytes _, a => by simp [chainD, dropWhile, maxOf, cellD, dropD]

/-- **dropD_loop**: the depth of dropping a pair is one level for the pair itself plus the deepest of
    (a) the cells that `Cons::drop` drops inside its loop (`Cons.dropLoop`), (b) the drop glue on what
    `Cons::drop` leaves in the cell — this ties `dropD` to the state model of the loop. -/
theorem dropD_loop (a d : Value) :
    dropD (.cons a d) =
      1 + max (maxOf ((Cons.dropLoop a d).2.map cellD))
              (max (dropD (Cons.dropLoop a d).1.1) (dropD (Cons.dropLoop a d).1.2)) := by
  cases d with
  | cons a2 d2 =>
    cases d2 with
    | cons a3 d3 =>
      simp only [dropD, Cons.dropLoop, take, dropWhile, List.map_cons, maxOf, cellD,
        chainD_cells d3 a3]
      omega
    | _ => simp [dropD, Cons.dropLoop, maxOf]
  | _ => simp [dropD, Cons.dropLoop, maxOf]

mutual
theorem dropD_le : ∀ v : Value, dropD v ≤ 2 * looped v
  | .cons a d => by
    have ha := dropD_le a
    have hp := looped_pos a
    cases d with
    | cons a2 d2 =>
      have ha2 := dropD_le a2
      have hp2 := looped_pos a2
      cases d2 with
      | cons a3 d3 =>
        have ha3 := dropD_le a3
        have hc := chainD_le d3 (dropD a3) (looped a3) ha3 (looped_pos a3)
        simp only [dropD, looped, loopedTail] at *
        omega
      | vector xs =>
        have := dropListD_le xs
        simp only [dropD, looped, loopedTail] at *
        omega
      | nil | null | bool _ | number _ | char _ | string _ | symbol _ | keyword _ | bytes _ =>
        simp only [dropD, looped, loopedTail] at *
        omega
    | vector xs =>
      have := dropListD_le xs
      simp only [dropD, looped, loopedTail] at *
      omega
    | nil | null | bool _ | number _ | char _ | string _ | symbol _ | keyword _ | bytes _ =>
      simp only [dropD, looped, loopedTail] at *
      omega
  | .vector xs => by
    have := dropListD_le xs
    simp only [dropD, looped]; omega
  | .nil | .null | .bool _ | .number _ | .char _ | .string _ | .symbol _ | .keyword _ | .bytes _ => by
    simp [dropD, looped]
theorem chainD_le : ∀ (d : Value) (k k' : Nat), k ≤ 2 * k' → 1 ≤ k' →
    chainD k d ≤ 2 * max k' (loopedTail d) + 1
  | .cons a d, k, k', hk, hp => by
    have ha := dropD_le a
    have hc := chainD_le d (dropD a) (looped a) ha (looped_pos a)
    simp only [chainD, loopedTail] at *
    omega
  | .vector xs, k, k', hk, hp => by
    have := dropListD_le xs
    simp only [chainD, loopedTail]; omega
  | .nil, k, k', hk, hp | .null, k, k', hk, hp | .bool _, k, k', hk, hp | .number _, k, k', hk, hp
  | .char _, k, k', hk, hp | .string _, k, k', hk, hp | .symbol _, k, k', hk, hp
  | .keyword _, k, k', hk, hp | .bytes _, k, k', hk, hp => by
    simp only [chainD, loopedTail]; omega
theorem dropListD_le : ∀ xs : List Value, dropListD xs ≤ 2 * loopedList xs
  | [] => by simp [dropListD]
  | x :: xs => by
    have h1 := dropD_le x; have h2 := dropListD_le xs
    simp only [dropListD, loopedList]; omega
end

/-- **drop_depth_le**: dropping uses at most `2 * nesting v + 2` levels, whatever the number of
    elements (`Cons::drop` hands lists of one or two cells to the recursive drop glue, and drops the
    cells of longer lists one level below itself: two levels per nesting in the worst case). -/
theorem drop_depth_le (v : Value) : dropD v ≤ 2 * nesting v + 2 := by
  have h1 := dropD_le v
  have h2 := C16_depth_looped v
  omega

/-- witness: the `nesting + 1` bound of `Depth.looped` does not hold for drop under this count
    (a flat list of three atoms: nesting 1, drop reaches level 4; a two-element list nested in second
    position k times: nesting k, drop reaches 2k + 1) -/
theorem drop_depth_not_looped :
    dropD (Value.list [.null, .null, .null]) = 4 ∧
    looped (Value.list [.null, .null, .null]) = 2 ∧
    dropD (Value.list [.null, Value.list [.null, Value.list [.null, .null]]]) = 7 ∧
    looped (Value.list [.null, Value.list [.null, Value.list [.null, .null]]]) = 4 := by
  decide

/-- a flat list of n atoms is dropped at depth ≤ 4, for every n -/
theorem drop_depth_flat (n : Nat) : dropD (Value.list (List.replicate n (.number (.pos 7)))) ≤ 4 := by
  have h1 := dropD_le (Value.list (List.replicate n (.number (.pos 7))))
  have h2 := C16_flat_list n
  omega

end ConsOps
end Lexpr
