/-
  Utf8InputAllOptsDatum — C17, input clause for whole inputs and EVERY option set, the datum
  reader (`datum::from_slice` / `datum::from_reader`, `Parser::next_datum`): the same statements as
  `Utf8InputAllOpts`, by the same invariant, through `nextDatum` / `parseListMeta` /
  `parseVectorMeta` over the abstract hypothesis `TokH` on the token scanner.
-/
import LexprModel.Proofs.Utf8InputAllDatum
import LexprModel.Proofs.Utf8InputAllOpts
namespace Lexpr
namespace Parse
namespace InAllOpts
open Utf8 Utf8.U8 Parse.U8 InLoop InTok InAll Image

def DatumInvAt (cfg : Cfg) (s0 : St) (f : Nat) : Prop :=
  (∀ {s s' : St} {d : Option Datum}, nextDatum cfg f s = .ok d s' → Inv s0 s → Inv s0 s') ∧
  (∀ {term : UInt8} {acc : List Value} {ms : List SpanInfo} {s s' : St}
      {r : Option (Value × SpanInfo × SpanInfo)},
      parseListMeta cfg f term acc ms s = .ok r s' → Inv s0 s → Inv s0 s') ∧
  (∀ {term : UInt8} {acc : List Value} {ms : List SpanInfo} {s s' : St}
      {r : List Value × List SpanInfo},
      parseVectorMeta cfg f term acc ms s = .ok r s' → Inv s0 s → Inv s0 s')

theorem datumInvG (cfg : Cfg) (s0 : St) (htokH : TokH cfg s0) : ∀ f, DatumInvAt cfg s0 f := by
  intro f
  induction f with
  | zero =>
    refine ⟨?_, ?_, ?_⟩
    · intro s s' v h; simp [nextDatum, outOfFuel] at h
    · intro term acc ms s s' v h; simp [parseListMeta, outOfFuel] at h
    · intro term acc ms s s' v h; simp [parseVectorMeta, outOfFuel] at h
  | succ f ih =>
    obtain ⟨ihV, ihL, ihX⟩ := ih
    refine ⟨?_, ?_, ?_⟩
    · -- next_datum
      intro s s' v h hs
      unfold nextDatum at h
      obtain ⟨a, s1, hw, h⟩ := bind_ok h
      have hs1 := parseWhitespace_inv hw hs
      cases a with
      | none =>
        obtain ⟨_, rfl⟩ := pure_ok h
        exact hs1
      | some pk =>
        have hhead := parseWhitespace_head' hw
        dsimp only at h
        obtain ⟨start, s2, hgp, h⟩ := bind_ok h
        rw [getPos_ok hgp] at h
        obtain ⟨tf, s2', htf, h⟩ := bind_ok h
        rw [tokenFuel_ok htf] at h
        obtain ⟨tok, s3, htok, h⟩ := bind_ok h
        have hs3 := hs1.step (htokH htok hhead hs1)
        have htokok := (parseToken_pres htok (parseWhitespace_head hw) hs1.sv).2
        cases tok with
        | byteVecOpen close =>
          dsimp only at h
          obtain ⟨bs, s4, hbl, h⟩ := bind_ok h
          obtain ⟨stop, s5, hgp5, h⟩ := bind_ok h
          rw [getPos_ok hgp5] at h
          obtain ⟨_, rfl⟩ := pure_ok h
          exact parseByteList_inv (tokOK_close htokok) hbl hs3
        | vecOpen close =>
          dsimp only at h
          obtain ⟨_, s4, he, h⟩ := bind_ok h
          have hs4 := hs3.of_rd (Parse.U8.enter_ok he)
          obtain ⟨ret, s5, hat, h⟩ := bind_ok h
          obtain ⟨_, s6, hl, h⟩ := bind_ok h
          obtain ⟨es, s7, hes, h⟩ := bind_ok h
          rcases attempt_ok hat with ⟨⟨xs, ms⟩, rfl, hpv⟩ | ⟨e, rfl, _⟩
          · have hs5 := ihX hpv hs4
            have hs6 := hs5.of_rd (Parse.U8.leave_ok hl)
            rcases attempt_ok hes with ⟨u, rfl, hend⟩ | ⟨e, rfl, _⟩
            · dsimp only at h
              obtain ⟨stop, s8, hgp8, h⟩ := bind_ok h
              rw [getPos_ok hgp8] at h
              obtain ⟨_, rfl⟩ := pure_ok h
              exact endSeq_inv (tokOK_close htokok) hend hs6
            · exact (liftExcept_error h).elim
          · cases es <;> exact (liftExcept_error h).elim
        | listOpen close =>
          dsimp only at h
          obtain ⟨_, s4, he, h⟩ := bind_ok h
          have hs4 := hs3.of_rd (Parse.U8.enter_ok he)
          obtain ⟨ret, s5, hat, h⟩ := bind_ok h
          obtain ⟨_, s6, hl, h⟩ := bind_ok h
          obtain ⟨es, s7, hes, h⟩ := bind_ok h
          rcases attempt_ok hat with ⟨r, rfl, hpl⟩ | ⟨e, rfl, _⟩
          · have hs5 := ihL hpl hs4
            have hs6 := hs5.of_rd (Parse.U8.leave_ok hl)
            rcases attempt_ok hes with ⟨u, rfl, hend⟩ | ⟨e, rfl, _⟩
            · have hs7 := endSeq_inv (tokOK_close htokok) hend hs6
              cases r with
              | none =>
                dsimp only at h
                obtain ⟨stop, s8, hgp8, h⟩ := bind_ok h
                rw [getPos_ok hgp8] at h
                obtain ⟨_, rfl⟩ := pure_ok h
                exact hs7
              | some r =>
                obtain ⟨v0, c0, d0⟩ := r
                dsimp only at h
                obtain ⟨stop, s8, hgp8, h⟩ := bind_ok h
                rw [getPos_ok hgp8] at h
                obtain ⟨_, rfl⟩ := pure_ok h
                exact hs7
            · cases r <;> exact (liftExcept_error h).elim
          · cases es <;> exact (liftExcept_error h).elim
        | quotation q =>
          dsimp only at h
          obtain ⟨tokenEnd, s3', hgp3, h⟩ := bind_ok h
          rw [getPos_ok hgp3] at h
          obtain ⟨_, s4, he, h⟩ := bind_ok h
          have hs4 := hs3.of_rd (Parse.U8.enter_ok he)
          obtain ⟨ret, s5, hat, h⟩ := bind_ok h
          obtain ⟨_, s6, hl, h⟩ := bind_ok h
          rcases attempt_ok hat with ⟨ov, rfl, hnv⟩ | ⟨e, rfl, _⟩
          · have hs5 := ihV hnv hs4
            have hs6 := hs5.of_rd (Parse.U8.leave_ok hl)
            cases ov with
            | none => simp [peekErr] at h
            | some d =>
              obtain ⟨_, rfl⟩ := pure_ok h
              exact hs6
          · exact (liftExcept_error h).elim
        | _ =>
          simp only [Token.atom] at h
          obtain ⟨stop, s4, hgp4, h⟩ := bind_ok h
          rw [getPos_ok hgp4] at h
          obtain ⟨_, h2⟩ := pure_ok h
          subst h2
          exact hs3
    · -- parse_list_meta
      intro term acc ms s s' r h hs
      unfold parseListMeta at h
      obtain ⟨a, s1, hw, h⟩ := bind_ok h
      have hs1 := parseWhitespace_inv hw hs
      cases a with
      | none => simp [peekErr] at h
      | some c =>
        have hhead := parseWhitespace_head' hw
        dsimp only at h
        rcases ite_ok h with ⟨_, h⟩ | ⟨_, h⟩
        · rcases ite_ok h with ⟨_, h⟩ | ⟨_, h⟩
          · simp [peekErr] at h
          rcases ite_ok h with ⟨_, h⟩ | ⟨_, h⟩
          · obtain ⟨_, rfl⟩ := pure_ok h
            exact hs1
          · generalize buildMeta _ _ = bm at h
            obtain ⟨cm, dm⟩ := bm
            obtain ⟨_, rfl⟩ := pure_ok h
            exact hs1
        rcases ite_ok h with ⟨h46, h⟩ | ⟨_, h⟩
        · obtain ⟨start, s1', hgp, h⟩ := bind_ok h
          rw [getPos_ok hgp] at h
          obtain ⟨_, s2, hd, h⟩ := bind_ok h
          have hs2 := discard_inv hd hhead (by rw [eq_of_beq h46]; decide) hs1
          obtain ⟨nxt, s3, hp, h⟩ := bind_ok h
          have hs3 : Inv s0 s3 := hs2.asuf (peekOrNull_same hp)
          rcases ite_ok h with ⟨_, h⟩ | ⟨_, h⟩
          · rcases ite_ok h with ⟨_, h⟩ | ⟨_, h⟩
            · obtain ⟨a, s4, _, h⟩ := bind_ok h
              cases a <;> simp [peekErr] at h
            · obtain ⟨tail, s4, ht, h⟩ := bind_ok h
              obtain ⟨ov, s4', hnv, ht⟩ := bind_ok ht
              have hs4' := ihV hnv hs3
              cases ov with
              | none => simp [peekErr] at ht
              | some v0 =>
                obtain ⟨_, rfl⟩ := pure_ok ht
                obtain ⟨a, s5, hw5, h⟩ := bind_ok h
                have hs5 := parseWhitespace_inv hw5 hs4'
                cases a with
                | none => simp [peekErr] at h
                | some c' =>
                  dsimp only at h
                  rcases ite_ok h with ⟨_, h⟩ | ⟨_, h⟩
                  · generalize buildMeta _ _ = bm at h
                    obtain ⟨cm, dm⟩ := bm
                    obtain ⟨_, rfl⟩ := pure_ok h
                    exact hs5
                  · simp [peekErr] at h
          · obtain ⟨name, s4, hsym, h⟩ := bind_ok h
            obtain ⟨stop, s5, hgp5, h⟩ := bind_ok h
            rw [getPos_ok hgp5] at h
            exact ihL h (hs3.step (parseSymbolBytes_vc hsym hs3.mode (by decide)))
        · obtain ⟨ov, s2, hnv, h⟩ := bind_ok h
          have hs2 := ihV hnv hs1
          cases ov with
          | none => simp [peekErr] at h
          | some d0 => exact ihL h hs2
    · -- parse_vector_meta
      intro term acc ms s s' r h hs
      unfold parseVectorMeta at h
      obtain ⟨a, s1, hw, h⟩ := bind_ok h
      have hs1 := parseWhitespace_inv hw hs
      cases a with
      | none => simp [peekErr] at h
      | some c =>
        dsimp only at h
        rcases ite_ok h with ⟨_, h⟩ | ⟨_, h⟩
        · rcases ite_ok h with ⟨_, h⟩ | ⟨_, h⟩
          · simp [peekErr] at h
          · obtain ⟨_, rfl⟩ := pure_ok h
            exact hs1
        · obtain ⟨ov, s2, hnv, h⟩ := bind_ok h
          have hs2 := ihV hnv hs1
          cases ov with
          | none => simp [peekErr] at h
          | some d0 => exact ihX h hs2

/-- **`next_datum` consumes a valid chunk, every option set** (one call of `Parser::next_datum` /
    one item of the datum iterator). -/
theorem C17_next_datum_input_valid_all_num {cfg : Cfg} {S S' : St} {d : Option Datum}
    {w : List UInt8} (h : nextDatumTop cfg S = .ok d S')
    (hm : S.rd.mode ≠ .str) (htv : TV S.rd.rest)
    (hnb : cfg.opts.string = .elisp → NoNumEsc S.rd.rest)
    (hw : S.rd.rest = w ++ S'.rd.rest) :
    Utf8.valid w = true := by
  unfold nextDatumTop at h
  obtain ⟨f, s1, hf, h⟩ := bind_ok h
  rw [apiFuel_ok hf] at h
  have := (datumInvG cfg S (tokH_of_noNumEsc hnb) f).1 h ⟨VC.refl S, htv, hm⟩
  exact this.vc.valid_of hw

/-- the statement with `NoByteEsc`, a corollary of `C17_next_datum_input_valid_all_num` -/
theorem C17_next_datum_input_valid_all {cfg : Cfg} {S S' : St} {d : Option Datum}
    {w : List UInt8} (h : nextDatumTop cfg S = .ok d S')
    (hm : S.rd.mode ≠ .str) (htv : TV S.rd.rest)
    (hnb : cfg.opts.string = .elisp → NoByteEsc S.rd.rest)
    (hw : S.rd.rest = w ++ S'.rd.rest) :
    Utf8.valid w = true :=
  C17_next_datum_input_valid_all_num h hm htv (fun hel => (hnb hel).toNum) hw

/-- **C17, input clause, whole inputs, datum reader, EVERY option set**: if `datum::from_slice` /
    `datum::from_reader` accepts `bytes`, the trivia of `bytes` are well-formed and — only needed
    under the Emacs Lisp string syntax — `bytes` satisfies `NoNumEsc`, then `bytes` is valid
    UTF-8. -/
theorem C17_whole_input_valid_datum_all_num {cfg : Cfg} {mode : Mode} {bytes : List UInt8}
    {faulty : Bool} {d : Datum} {S' : St}
    (h : fromTraitDatum cfg (initSt mode bytes faulty) = .ok d S')
    (hm : mode ≠ .str) (htv : TV bytes) (hnb : cfg.opts.string = .elisp → NoNumEsc bytes) :
    Utf8.valid bytes = true := by
  unfold fromTraitDatum at h
  obtain ⟨x, s1, he, h⟩ := bind_ok h
  obtain ⟨_, s2, hend, h⟩ := bind_ok h
  obtain ⟨_, rfl⟩ := pure_ok h
  unfold expectDatum at he
  obtain ⟨ov, s3, hn, he⟩ := bind_ok he
  unfold nextDatumTop at hn
  obtain ⟨f, s4, hf, hn⟩ := bind_ok hn
  rw [apiFuel_ok hf] at hn
  have hs3 := (datumInvG cfg (initSt mode bytes faulty)
    (tokH_of_noNumEsc (s0 := initSt mode bytes faulty) (by exact hnb)) f).1 hn
    ⟨VC.refl _, by exact htv, by exact hm⟩
  cases ov with
  | none => simp [peekErr] at he
  | some x' =>
    obtain ⟨_, rfl⟩ := pure_ok he
    obtain ⟨hinv, hrest⟩ := expectEnd_inv hend hs3
    exact hinv.vc.valid_of (w := bytes) (by rw [hrest]; simp [initSt])

/-- the statement with `NoByteEsc`, a corollary of `C17_whole_input_valid_datum_all_num` -/
theorem C17_whole_input_valid_datum_all {cfg : Cfg} {mode : Mode} {bytes : List UInt8}
    {faulty : Bool} {d : Datum} {S' : St}
    (h : fromTraitDatum cfg (initSt mode bytes faulty) = .ok d S')
    (hm : mode ≠ .str) (htv : TV bytes) (hnb : cfg.opts.string = .elisp → NoByteEsc bytes) :
    Utf8.valid bytes = true :=
  C17_whole_input_valid_datum_all_num h hm htv (fun hel => (hnb hel).toNum)

/-- the rule of the differential oracle, datum reader, every option set -/
theorem C17_whole_input_valid_datum_all_no_comment_num {cfg : Cfg} {mode : Mode} {bytes : List UInt8}
    {faulty : Bool} {d : Datum} {S' : St}
    (h : fromTraitDatum cfg (initSt mode bytes faulty) = .ok d S')
    (hm : mode ≠ .str) (hno : ∀ b ∈ bytes, b ≠ 59) (hnb : NoNumEsc bytes) :
    Utf8.valid bytes = true :=
  C17_whole_input_valid_datum_all_num h hm (TV.of_no59 hno) (fun _ => hnb)

/-- the statement with `NoByteEsc`, a corollary of `C17_whole_input_valid_datum_all_no_comment_num` -/
theorem C17_whole_input_valid_datum_all_no_comment {cfg : Cfg} {mode : Mode} {bytes : List UInt8}
    {faulty : Bool} {d : Datum} {S' : St}
    (h : fromTraitDatum cfg (initSt mode bytes faulty) = .ok d S')
    (hm : mode ≠ .str) (hno : ∀ b ∈ bytes, b ≠ 59) (hnb : NoByteEsc bytes) :
    Utf8.valid bytes = true :=
  C17_whole_input_valid_datum_all_no_comment_num h hm hno hnb.toNum

/-- the hypotheses are met under the Emacs Lisp options (`exInputEl`), slice and stream source,
    and the theorem applies -/
theorem exInputEl_accepted_datum :
    acceptsAllDatum cfgEl .slice exInputEl = true ∧ acceptsAllDatum cfgEl .io exInputEl = true := by
  decide +kernel

example : Utf8.valid exInputEl = true := by
  have h := exInputEl_accepted_datum.1
  unfold acceptsAllDatum at h
  split at h
  · rename_i d S' heq
    exact C17_whole_input_valid_datum_all_no_comment heq (by decide) (by decide)
      (noByteEscB_spec exInputEl_accepted.2.2.1)
  · cases h

/-- a condition is needed for the datum reader too: the two numeric witnesses are accepted; the
    blank witness is rejected after the repair of the escaped blank -/
theorem noByteEsc_needed_datum :
    acceptsAllDatum cfgEl .slice wHex = true ∧ acceptsAllDatum cfgEl .slice wOct = true ∧
    acceptsAllDatum cfgEl .slice wBlank = false ∧ acceptsAllDatum cfgEl .io wBlank = false := by
  decide +kernel

/-- the `_num` theorem applies to the input with escaped blanks -/
example : Utf8.valid exInputElBlank = true := by
  have h : acceptsAllDatum cfgEl .slice exInputElBlank = true := by decide +kernel
  unfold acceptsAllDatum at h
  split at h
  · rename_i d S' heq
    exact C17_whole_input_valid_datum_all_no_comment_num heq (by decide) (by decide)
      (noNumEscB_spec exInputElBlank_accepted.2.2.1)
  · cases h

end InAllOpts
end Parse
end Lexpr
