/-
  C09 (text half) — the documented `sexp!` syntax, written as S-expression text, is read by the
  parser as the value the macro builds from it.
-/
import LexprModel.Proofs.MacroSpec
import LexprModel.Proofs.ListRTGlue
namespace Lexpr
namespace Parse

/-- `-0` is the integer token `0` (the counterpart of `negint_aux` for the one negative literal
    that does not denote a negative number) -/
theorem negzero_token (cfg : Cfg) (fuel : Nat) (rest : List UInt8) (s : St)
    (hrest : s.rd.rest = (45 :: natDigits 0) ++ rest)
    (hfuel : (45 :: natDigits 0).length ≤ fuel + 1)
    (hF : Follow rest) (hf : rest = [] → s.rd.faulty = false) :
    parseToken cfg fuel 45 s =
      .ok (.number (.pos 0)) (adv s (45 :: natDigits 0).length (endPeek s rest)) := by
  have hd : parseToken cfg fuel 45 = parseSignToken cfg fuel 45 false := by
    unfold parseToken; simp
  rw [hd]
  obtain ⟨d, tl, hd, he⟩ := natDigits_head 0
  obtain ⟨-, -, g3, g4, -⟩ := digit_facts d hd
  unfold parseSignToken
  have hr1 : (adv s 1 false).rd.rest = natDigits 0 ++ rest := by simp [hrest]
  simp only [bind_apply, discard_eq, hrest, List.cons_append, peekOrNull, peek_eq, hr1, he,
    pure_apply, Option.getD_some, g3, g4, Bool.false_eq_true, if_false, adv_adv]
  have hn : 0 ≤ u64Max := by decide
  rw [parseNumToken_digits cfg false 0 hn fuel _ rest (by simp [hrest, he])
    (by simpa using hfuel) hF (by simpa using hf)]
  have hv : numTailVal false 0 = .pos 0 := by decide
  simp only [hv, adv_adv, endPeek_adv, Nat.add_zero]
  have hl : 1 + (natDigits 0).length = tl.length + 1 + 1 := by
    rw [he]; simp only [List.length_cons]; omega
  simp only [List.length_cons, hl]

end Parse
end Lexpr

namespace Lexpr
namespace Macro
open Print
open Parse.ListRT
open Parse (PlainIdent symTermSlice)

/-! ## The S-expression text of a documented tree -/

/-- the text of the leaves; `[]` for the constructors outside the sub-language (floats, unquotes)
    and for the composite ones -/
def stextAtom : Doc → List UInt8
  | .int n => natDigits n
  | .negInt n => 45 :: natDigits n
  | .str src _ => 34 :: (src ++ [34])
  | .chr c => schemeChar c
  | .tru => [35, 116]
  | .fls => [35, 102]
  | .nil => [35, 110, 105, 108]
  | .sym name => name
  | .psym cs => cs
  | .qsym src _ => src
  | .kw name => 35 :: 58 :: name
  | .ckw name => 35 :: 58 :: name
  | .qkw src _ => 35 :: 58 :: src
  | .cqkw src _ => 35 :: 58 :: src
  | .pkw cs => 35 :: 58 :: cs
  | _ => []

mutual
/-- The S-expression text equivalent to the macro syntax `d`: integers in decimal, strings between
    double quotes, characters as `#\c`, `#t #f #nil`, symbols verbatim, every keyword spelling as
    `#:name`, lists `(a b c)`, dotted lists `(a b . t)` where a tail that is itself a list or
    dotted list is written merged (`(a . (b c))` is written `(a b c)`, as the printer does), vectors
    `#(a b c)`; single spaces as separators. -/
def stext : Doc → List UInt8
  | .list [] => [40, 41]
  | .list (x :: xs) => 40 :: (stext x ++ (stextRest xs ++ [41]))
  | .dotted [] t => stext t
  | .dotted (x :: xs) t => 40 :: (stext x ++ (stextRest xs ++ (stextTail t ++ [41])))
  | .vec [] => [35, 40, 41]
  | .vec (x :: xs) => 35 :: 40 :: (stext x ++ (stextRest xs ++ [41]))
  | .int n => stextAtom (.int n)
  | .negInt n => stextAtom (.negInt n)
  | .float s e => stextAtom (.float s e)
  | .negFloat s e => stextAtom (.negFloat s e)
  | .str src val => stextAtom (.str src val)
  | .chr c => stextAtom (.chr c)
  | .tru => stextAtom .tru
  | .fls => stextAtom .fls
  | .nil => stextAtom .nil
  | .sym name => stextAtom (.sym name)
  | .psym cs => stextAtom (.psym cs)
  | .qsym src val => stextAtom (.qsym src val)
  | .kw name => stextAtom (.kw name)
  | .ckw name => stextAtom (.ckw name)
  | .qkw src val => stextAtom (.qkw src val)
  | .cqkw src val => stextAtom (.cqkw src val)
  | .pkw cs => stextAtom (.pkw cs)
  | .unq t => stextAtom (.unq t)
/-- further elements, each preceded by a space -/
def stextRest : List Doc → List UInt8
  | [] => []
  | x :: xs => 32 :: (stext x ++ stextRest xs)
/-- the tail of a dotted list, up to the closing parenthesis: merged if it is a list -/
def stextTail : Doc → List UInt8
  | .list ys => stextRest ys
  | .dotted ys t => stextRest ys ++ stextTail t
  | .vec [] => [32, 46, 32, 35, 40, 41]
  | .vec (x :: xs) => 32 :: 46 :: 32 :: 35 :: 40 :: (stext x ++ (stextRest xs ++ [41]))
  | d => 32 :: 46 :: 32 :: stextAtom d
end

/-! ## Side conditions -/

/-- no byte of the string needs an escape: no `"`, no `\`, no control character -/
def noEscape (s : List UInt8) : Bool := s.all (fun b => decide (escClass b = .none))

/-- a symbol name the reader returns verbatim -/
def symOk (name : List UInt8) : Bool := decide (PlainIdent name) && dotHeadOk name

/-- a keyword name the reader returns verbatim after `#:` -/
def kwOk (name : List UInt8) : Bool :=
  name.all (fun b => !symTermSlice b) && name != [46] && Utf8.valid name

/-- side conditions on the leaves -/
def atomOk : Doc → Bool
  | .int n => decide (n ≤ u64Max)
  | .negInt n => decide (1 ≤ n ∧ n ≤ 9223372036854775808)
  | .str src val => src == val && noEscape src && Utf8.valid src
  | .chr c => isScalar c
  | .tru => true
  | .fls => true
  | .nil => true
  | .sym name => symOk name
  | .psym cs => symOk cs
  | .qsym src _ => symOk src
  | .kw name => kwOk name
  | .ckw name => kwOk name
  | .qkw src _ => kwOk src
  | .cqkw src _ => kwOk src
  | .pkw cs => kwOk cs
  | _ => false

mutual
def textOk : Doc → Bool
  | .list xs => textOkL xs
  | .dotted [] _ => false
  | .dotted (x :: xs) t => textOk x && textOkL xs && textOkTail t
  | .vec xs => textOkL xs
  | .int n => atomOk (.int n)
  | .negInt n => atomOk (.negInt n)
  | .float s e => atomOk (.float s e)
  | .negFloat s e => atomOk (.negFloat s e)
  | .str src val => atomOk (.str src val)
  | .chr c => atomOk (.chr c)
  | .tru => atomOk .tru
  | .fls => atomOk .fls
  | .nil => atomOk .nil
  | .sym name => atomOk (.sym name)
  | .psym cs => atomOk (.psym cs)
  | .qsym src val => atomOk (.qsym src val)
  | .kw name => atomOk (.kw name)
  | .ckw name => atomOk (.ckw name)
  | .qkw src val => atomOk (.qkw src val)
  | .cqkw src val => atomOk (.cqkw src val)
  | .pkw cs => atomOk (.pkw cs)
  | .unq t => atomOk (.unq t)
def textOkL : List Doc → Bool
  | [] => true
  | x :: xs => textOk x && textOkL xs
/-- in tail position a dotted list may have no elements before its dot -/
def textOkTail : Doc → Bool
  | .list ys => textOkL ys
  | .dotted ys t => textOkL ys && textOkTail t
  | .vec xs => textOkL xs
  | d => atomOk d
end

/-- The side conditions under which `stext d` is the printer's text of the denoted value and is
    read back (`textOk` is the executable check):
    * no float, no unquote;
    * `int n`: `n ≤ u64::MAX`; `negInt n`: `1 ≤ n ≤ 2^63` (`-0` denotes `0`, which prints `0`);
    * `str src val`: the source text is the denoted string (`src = val`), it needs no escape
      (no `"`, `\`, control character) and is valid UTF-8;
    * `chr c`: `c` is a Unicode scalar value;
    * symbols (`sym`, `psym`, `qsym`): the name is a `PlainIdent` and a leading `.` is not followed
      by NUL, `|` or `"` (`dotHeadOk`);
    * keywords (all five spellings): no byte of the name is a symbol terminator, the name is not
      the lone `.`, and it is valid UTF-8;
    * a dotted list has at least one element before the dot (`sexp!((. 5))` is `5`, which no list
      text denotes), except in tail position, where it is merged anyway. -/
def TextOK (d : Doc) : Prop := textOk d = true

instance (d : Doc) : Decidable (TextOK d) := inferInstanceAs (Decidable (textOk d = true))

/-! ## Leaves -/

theorem escapeStr_noEscape (syn : StringSyntax) (s : List UInt8) (h : noEscape s = true) :
    escapeStr syn s = s := by
  induction s with
  | nil => rfl
  | cons b s ih =>
    simp only [noEscape, List.all_cons, Bool.and_eq_true, decide_eq_true_eq] at h
    have ih' := ih (by simpa [noEscape] using h.2)
    simp only [escapeStr, List.flatMap_cons] at ih' ⊢
    rw [ih', h.1]
    rfl

theorem ofSigned_nat (n : Nat) : Number.ofSigned (n : Int) = .pos n := by
  simp [Number.ofSigned]

theorem ofSigned_neg (n : Nat) (h : 1 ≤ n) : Number.ofSigned (-(n : Int)) = .neg (-(n : Int)) := by
  have : ¬ (-(n : Int) ≥ 0) := by omega
  simp only [Number.ofSigned, this, if_false]

theorem intDigits_neg (n : Nat) (h : 1 ≤ n) : intDigits (-(n : Int)) = 45 :: natDigits n := by
  have : (-(n : Int)) < 0 := by omega
  simp only [intDigits, this, if_true, Int.natAbs_neg, Int.natAbs_natCast]
  rfl

theorem symOk_iff (name : List UInt8) : symOk name = true ↔ PlainIdent name ∧ dotHeadOk name = true := by
  simp [symOk]

theorem kwOk_iff (name : List UInt8) : kwOk name = true ↔
    (∀ b ∈ name, symTermSlice b = false) ∧ name ≠ [46] ∧ Utf8.valid name = true := by
  simp [kwOk, and_assoc]

theorem text_symbol (ryu : Nat → List UInt8) (x : List UInt8) : text po ryu (.symbol x) = x := by
  simp [text, emits, atomEmits, flatten_cons_all, flatten_nil]

theorem text_keyword (ryu : Nat → List UInt8) (x : List UInt8) :
    text po ryu (.keyword x) = 35 :: 58 :: x := by
  have hk : asc "#:" = [35, 58] := by decide
  simp [text, emits, atomEmits, keywordEmits, po, Print.Options.default, flatten_cons_all,
    flatten_nil, hk]

theorem text_string (ryu : Nat → List UInt8) (x : List UInt8) :
    text po ryu (.string x) = 34 :: (escapeStr .r6rs x ++ [34]) := by
  have hq : asc "\"" = [34] := by decide
  simp [text, emits, atomEmits, po, Print.Options.default, flatten_cons_all, flatten_nil, hq]

theorem text_number (ryu : Nat → List UInt8) (n : Number) :
    text po ryu (.number n) = numberText ryu n := by
  simp [text, emits, atomEmits, flatten_cons_all, flatten_nil]

theorem text_char (ryu : Nat → List UInt8) (c : Nat) : text po ryu (.char c) = schemeChar c := by
  simp [text, emits, atomEmits, charText, po, Print.Options.default, flatten_cons_all, flatten_nil]

theorem text_bool (ryu : Nat → List UInt8) (b : Bool) :
    text po ryu (.bool b) = [35, if b then 116 else 102] := by
  cases b <;> simp [text, emits, atomEmits, boolText, po, Print.Options.default, flatten_cons_all,
      flatten_nil] <;> decide

theorem text_nil (ryu : Nat → List UInt8) : text po ryu .nil = [35, 110, 105, 108] := by
  simp [text, emits, atomEmits, nilText, po, Print.Options.default, flatten_cons_all, flatten_nil]
  decide

/-- the leaves: text, shape and support of the denoted value -/
theorem atom_facts (env : Tok → Value) (ryu : Nat → List UInt8) (d : Doc) (h : atomOk d = true) :
    text po ryu (valueOf env d) = stextAtom d ∧ (valueOf env d).isCons = false ∧
      valueOf env d ≠ .null ∧ AllSupported (valueOf env d) := by
  cases d with
  | int n =>
    simp only [atomOk, decide_eq_true_eq] at h
    simp only [valueOf, ofSigned_nat, stextAtom, text_number, numberText]
    exact ⟨trivial, rfl, by simp, by simpa [AllSupported, SupportedAtom] using h⟩
  | negInt n =>
    simp only [atomOk, decide_eq_true_eq] at h
    simp only [valueOf, ofSigned_neg n h.1, stextAtom, text_number, numberText, intDigits_neg n h.1]
    refine ⟨trivial, rfl, by simp, ?_⟩
    simp only [AllSupported, SupportedAtom, i64Min]
    omega
  | str src val =>
    simp only [atomOk, Bool.and_eq_true, beq_iff_eq] at h
    obtain ⟨⟨rfl, h2⟩, h3⟩ := h
    simp only [valueOf, stextAtom, text_string, escapeStr_noEscape _ _ h2]
    exact ⟨trivial, rfl, by simp, by simpa [AllSupported, SupportedAtom] using h3⟩
  | chr c =>
    simp only [atomOk] at h
    simp only [valueOf, stextAtom, text_char]
    exact ⟨trivial, rfl, by simp, by simpa [AllSupported, SupportedAtom] using h⟩
  | tru => exact ⟨by simp [valueOf, stextAtom, text_bool], rfl, by simp [valueOf], by simp [valueOf, AllSupported]⟩
  | fls => exact ⟨by simp [valueOf, stextAtom, text_bool], rfl, by simp [valueOf], by simp [valueOf, AllSupported]⟩
  | nil => exact ⟨by simp [valueOf, stextAtom, text_nil], rfl, by simp [valueOf], by simp [valueOf, AllSupported]⟩
  | sym name =>
    simp only [atomOk, symOk_iff] at h
    exact ⟨by simp [valueOf, stextAtom, text_symbol], rfl, by simp [valueOf],
      by simpa [valueOf, AllSupported, SupportedAtom] using h⟩
  | psym name =>
    simp only [atomOk, symOk_iff] at h
    exact ⟨by simp [valueOf, stextAtom, text_symbol], rfl, by simp [valueOf],
      by simpa [valueOf, AllSupported, SupportedAtom] using h⟩
  | qsym name _ =>
    simp only [atomOk, symOk_iff] at h
    exact ⟨by simp [valueOf, stextAtom, text_symbol], rfl, by simp [valueOf],
      by simpa [valueOf, AllSupported, SupportedAtom] using h⟩
  | kw name =>
    simp only [atomOk, kwOk_iff] at h
    exact ⟨by simp [valueOf, stextAtom, text_keyword], rfl, by simp [valueOf],
      by simpa [valueOf, AllSupported, SupportedAtom] using h⟩
  | ckw name =>
    simp only [atomOk, kwOk_iff] at h
    exact ⟨by simp [valueOf, stextAtom, text_keyword], rfl, by simp [valueOf],
      by simpa [valueOf, AllSupported, SupportedAtom] using h⟩
  | qkw name _ =>
    simp only [atomOk, kwOk_iff] at h
    exact ⟨by simp [valueOf, stextAtom, text_keyword], rfl, by simp [valueOf],
      by simpa [valueOf, AllSupported, SupportedAtom] using h⟩
  | cqkw name _ =>
    simp only [atomOk, kwOk_iff] at h
    exact ⟨by simp [valueOf, stextAtom, text_keyword], rfl, by simp [valueOf],
      by simpa [valueOf, AllSupported, SupportedAtom] using h⟩
  | pkw name =>
    simp only [atomOk, kwOk_iff] at h
    exact ⟨by simp [valueOf, stextAtom, text_keyword], rfl, by simp [valueOf],
      by simpa [valueOf, AllSupported, SupportedAtom] using h⟩
  | float _ _ => simp [atomOk] at h
  | negFloat _ _ => simp [atomOk] at h
  | unq _ => simp [atomOk] at h
  | list _ => simp [atomOk] at h
  | dotted _ _ => simp [atomOk] at h
  | vec _ => simp [atomOk] at h

/-! ## `stext` is the printer's text of the denoted value -/

/-- a leaf in tail position -/
theorem atom_tail (env : Tok → Value) (ryu : Nat → List UInt8) (d : Doc) (h : atomOk d = true) :
    32 :: 46 :: 32 :: stextAtom d = flatten (emitsTail po ryu (valueOf env d)) := by
  obtain ⟨h1, h2, h3, _⟩ := atom_facts env ryu d h
  rw [tail_dotted ryu _ h2 h3, h1]

mutual
theorem stext_eq (env : Tok → Value) (ryu : Nat → List UInt8) :
    ∀ d : Doc, textOk d = true → stext d = text po ryu (valueOf env d)
  | .list [], _ => by simp only [stext, valueOf, valueOfL, Value.list, Value.append, text_null]
  | .list (x :: xs), h => by
    simp only [textOk, textOkL, Bool.and_eq_true] at h
    simp only [stext, valueOf, valueOfL, Value.list, Value.append, text_cons,
      stextRest_eq env ryu xs .null h.2, tail_null, List.append_nil, stext_eq env ryu x h.1]
  | .dotted [] t, h => by simp [textOk] at h
  | .dotted (x :: xs) t, h => by
    simp only [textOk, Bool.and_eq_true] at h
    simp only [stext, valueOf, valueOfL, Value.append, text_cons,
      stextRest_eq env ryu xs _ h.1.2, stext_eq env ryu x h.1.1, stextTail_eq env ryu t h.2,
      List.append_assoc]
  | .vec [], _ => by simp only [stext, valueOf, valueOfL, text_vector, seq_nil, List.nil_append]
  | .vec (x :: xs), h => by
    simp only [textOk, textOkL, Bool.and_eq_true] at h
    simp only [stext, valueOf, valueOfL, text_vector, seq_true, stextSeq_eq env ryu xs h.2,
      stext_eq env ryu x h.1, List.append_assoc]
  | .int n, h => by simp only [textOk] at h; simp only [stext, (atom_facts env ryu _ h).1]
  | .negInt n, h => by simp only [textOk] at h; simp only [stext, (atom_facts env ryu _ h).1]
  | .float _ _, h => by simp [textOk, atomOk] at h
  | .negFloat _ _, h => by simp [textOk, atomOk] at h
  | .str _ _, h => by simp only [textOk] at h; simp only [stext, (atom_facts env ryu _ h).1]
  | .chr _, h => by simp only [textOk] at h; simp only [stext, (atom_facts env ryu _ h).1]
  | .tru, h => by simp only [textOk] at h; simp only [stext, (atom_facts env ryu _ h).1]
  | .fls, h => by simp only [textOk] at h; simp only [stext, (atom_facts env ryu _ h).1]
  | .nil, h => by simp only [textOk] at h; simp only [stext, (atom_facts env ryu _ h).1]
  | .sym _, h => by simp only [textOk] at h; simp only [stext, (atom_facts env ryu _ h).1]
  | .psym _, h => by simp only [textOk] at h; simp only [stext, (atom_facts env ryu _ h).1]
  | .qsym _ _, h => by simp only [textOk] at h; simp only [stext, (atom_facts env ryu _ h).1]
  | .kw _, h => by simp only [textOk] at h; simp only [stext, (atom_facts env ryu _ h).1]
  | .ckw _, h => by simp only [textOk] at h; simp only [stext, (atom_facts env ryu _ h).1]
  | .qkw _ _, h => by simp only [textOk] at h; simp only [stext, (atom_facts env ryu _ h).1]
  | .cqkw _ _, h => by simp only [textOk] at h; simp only [stext, (atom_facts env ryu _ h).1]
  | .pkw _, h => by simp only [textOk] at h; simp only [stext, (atom_facts env ryu _ h).1]
  | .unq _, h => by simp [textOk, atomOk] at h
theorem stextRest_eq (env : Tok → Value) (ryu : Nat → List UInt8) :
    ∀ (xs : List Doc) (t : Value), textOkL xs = true →
      flatten (emitsTail po ryu (Value.append (valueOfL env xs) t)) =
        stextRest xs ++ flatten (emitsTail po ryu t)
  | [], t, _ => by simp only [valueOfL, Value.append, stextRest, List.nil_append]
  | x :: xs, t, h => by
    simp only [textOkL, Bool.and_eq_true] at h
    simp only [valueOfL, Value.append, stextRest, tail_cons, stextRest_eq env ryu xs t h.2,
      stext_eq env ryu x h.1, List.cons_append, List.append_assoc]
theorem stextSeq_eq (env : Tok → Value) (ryu : Nat → List UInt8) :
    ∀ xs : List Doc, textOkL xs = true →
      flatten (emitsSeq po ryu false (valueOfL env xs)) = stextRest xs
  | [], _ => by simp only [valueOfL, seq_nil, stextRest]
  | x :: xs, h => by
    simp only [textOkL, Bool.and_eq_true] at h
    simp only [valueOfL, seq_false, stextRest, stextSeq_eq env ryu xs h.2, stext_eq env ryu x h.1]
theorem stextTail_eq (env : Tok → Value) (ryu : Nat → List UInt8) :
    ∀ t : Doc, textOkTail t = true → stextTail t = flatten (emitsTail po ryu (valueOf env t))
  | .list ys, h => by
    simp only [textOkTail] at h
    simp only [stextTail, valueOf, Value.list, stextRest_eq env ryu ys .null h, tail_null,
      List.append_nil]
  | .dotted ys t, h => by
    simp only [textOkTail, Bool.and_eq_true] at h
    simp only [stextTail, valueOf, stextRest_eq env ryu ys _ h.1, stextTail_eq env ryu t h.2]
  | .vec [], _ => by
    rw [tail_dotted ryu _ rfl (by simp [valueOf])]
    simp only [stextTail, valueOf, valueOfL, text_vector, seq_nil, List.nil_append]
  | .vec (x :: xs), h => by
    simp only [textOkTail, textOkL, Bool.and_eq_true] at h
    rw [tail_dotted ryu _ rfl (by simp [valueOf])]
    simp only [stextTail, valueOf, valueOfL, text_vector, seq_true, stextSeq_eq env ryu xs h.2,
      stext_eq env ryu x h.1, List.append_assoc]
  | .int n, h => by simp only [textOkTail] at h; simp only [stextTail, atom_tail env ryu _ h]
  | .negInt n, h => by simp only [textOkTail] at h; simp only [stextTail, atom_tail env ryu _ h]
  | .float _ _, h => by simp [textOkTail, atomOk] at h
  | .negFloat _ _, h => by simp [textOkTail, atomOk] at h
  | .str _ _, h => by simp only [textOkTail] at h; simp only [stextTail, atom_tail env ryu _ h]
  | .chr _, h => by simp only [textOkTail] at h; simp only [stextTail, atom_tail env ryu _ h]
  | .tru, h => by simp only [textOkTail] at h; simp only [stextTail, atom_tail env ryu _ h]
  | .fls, h => by simp only [textOkTail] at h; simp only [stextTail, atom_tail env ryu _ h]
  | .nil, h => by simp only [textOkTail] at h; simp only [stextTail, atom_tail env ryu _ h]
  | .sym _, h => by simp only [textOkTail] at h; simp only [stextTail, atom_tail env ryu _ h]
  | .psym _, h => by simp only [textOkTail] at h; simp only [stextTail, atom_tail env ryu _ h]
  | .qsym _ _, h => by simp only [textOkTail] at h; simp only [stextTail, atom_tail env ryu _ h]
  | .kw _, h => by simp only [textOkTail] at h; simp only [stextTail, atom_tail env ryu _ h]
  | .ckw _, h => by simp only [textOkTail] at h; simp only [stextTail, atom_tail env ryu _ h]
  | .qkw _ _, h => by simp only [textOkTail] at h; simp only [stextTail, atom_tail env ryu _ h]
  | .cqkw _ _, h => by simp only [textOkTail] at h; simp only [stextTail, atom_tail env ryu _ h]
  | .pkw _, h => by simp only [textOkTail] at h; simp only [stextTail, atom_tail env ryu _ h]
  | .unq _, h => by simp [textOkTail, atomOk] at h
end

/-! ## The denoted value is supported by the round-trip theorem -/

mutual
theorem supported_valueOf (env : Tok → Value) :
    ∀ d : Doc, textOk d = true → AllSupported (valueOf env d)
  | .list xs, h => by
    simp only [textOk] at h
    simp only [valueOf, Value.list]
    exact supported_append env xs .null h (by simp only [AllSupported])
  | .dotted [] t, h => by simp [textOk] at h
  | .dotted (x :: xs) t, h => by
    simp only [textOk, Bool.and_eq_true] at h
    simp only [valueOf]
    exact supported_append env (x :: xs) _ (by simp only [textOkL, h.1.1, h.1.2, Bool.and_self])
      (supported_tail env t h.2)
  | .vec xs, h => by
    simp only [textOk] at h
    simp only [valueOf, AllSupported]
    exact supported_seq env xs h
  | .int n, h => by simp only [textOk] at h; exact (atom_facts env (fun _ => []) _ h).2.2.2
  | .negInt n, h => by simp only [textOk] at h; exact (atom_facts env (fun _ => []) _ h).2.2.2
  | .float _ _, h => by simp [textOk, atomOk] at h
  | .negFloat _ _, h => by simp [textOk, atomOk] at h
  | .str _ _, h => by simp only [textOk] at h; exact (atom_facts env (fun _ => []) _ h).2.2.2
  | .chr _, h => by simp only [textOk] at h; exact (atom_facts env (fun _ => []) _ h).2.2.2
  | .tru, h => by simp only [textOk] at h; exact (atom_facts env (fun _ => []) _ h).2.2.2
  | .fls, h => by simp only [textOk] at h; exact (atom_facts env (fun _ => []) _ h).2.2.2
  | .nil, h => by simp only [textOk] at h; exact (atom_facts env (fun _ => []) _ h).2.2.2
  | .sym _, h => by simp only [textOk] at h; exact (atom_facts env (fun _ => []) _ h).2.2.2
  | .psym _, h => by simp only [textOk] at h; exact (atom_facts env (fun _ => []) _ h).2.2.2
  | .qsym _ _, h => by simp only [textOk] at h; exact (atom_facts env (fun _ => []) _ h).2.2.2
  | .kw _, h => by simp only [textOk] at h; exact (atom_facts env (fun _ => []) _ h).2.2.2
  | .ckw _, h => by simp only [textOk] at h; exact (atom_facts env (fun _ => []) _ h).2.2.2
  | .qkw _ _, h => by simp only [textOk] at h; exact (atom_facts env (fun _ => []) _ h).2.2.2
  | .cqkw _ _, h => by simp only [textOk] at h; exact (atom_facts env (fun _ => []) _ h).2.2.2
  | .pkw _, h => by simp only [textOk] at h; exact (atom_facts env (fun _ => []) _ h).2.2.2
  | .unq _, h => by simp [textOk, atomOk] at h
theorem supported_append (env : Tok → Value) :
    ∀ (xs : List Doc) (t : Value), textOkL xs = true → AllSupported t →
      AllSupported (Value.append (valueOfL env xs) t)
  | [], t, _, ht => by simpa only [valueOfL, Value.append] using ht
  | x :: xs, t, h, ht => by
    simp only [textOkL, Bool.and_eq_true] at h
    simp only [valueOfL, Value.append, AllSupported]
    exact ⟨supported_valueOf env x h.1, supported_append env xs t h.2 ht⟩
theorem supported_seq (env : Tok → Value) :
    ∀ xs : List Doc, textOkL xs = true → AllSupportedSeq (valueOfL env xs)
  | [], _ => by simp only [valueOfL, AllSupportedSeq]
  | x :: xs, h => by
    simp only [textOkL, Bool.and_eq_true] at h
    simp only [valueOfL, AllSupportedSeq]
    exact ⟨supported_valueOf env x h.1, supported_seq env xs h.2⟩
theorem supported_tail (env : Tok → Value) :
    ∀ t : Doc, textOkTail t = true → AllSupported (valueOf env t)
  | .list ys, h => by
    simp only [textOkTail] at h
    simp only [valueOf, Value.list]
    exact supported_append env ys .null h (by simp only [AllSupported])
  | .dotted ys t, h => by
    simp only [textOkTail, Bool.and_eq_true] at h
    simp only [valueOf]
    exact supported_append env ys _ h.1 (supported_tail env t h.2)
  | .vec xs, h => by
    simp only [textOkTail] at h
    simp only [valueOf, AllSupported]
    exact supported_seq env xs h
  | .int n, h => by simp only [textOkTail] at h; exact (atom_facts env (fun _ => []) _ h).2.2.2
  | .negInt n, h => by simp only [textOkTail] at h; exact (atom_facts env (fun _ => []) _ h).2.2.2
  | .float _ _, h => by simp [textOkTail, atomOk] at h
  | .negFloat _ _, h => by simp [textOkTail, atomOk] at h
  | .str _ _, h => by simp only [textOkTail] at h; exact (atom_facts env (fun _ => []) _ h).2.2.2
  | .chr _, h => by simp only [textOkTail] at h; exact (atom_facts env (fun _ => []) _ h).2.2.2
  | .tru, h => by simp only [textOkTail] at h; exact (atom_facts env (fun _ => []) _ h).2.2.2
  | .fls, h => by simp only [textOkTail] at h; exact (atom_facts env (fun _ => []) _ h).2.2.2
  | .nil, h => by simp only [textOkTail] at h; exact (atom_facts env (fun _ => []) _ h).2.2.2
  | .sym _, h => by simp only [textOkTail] at h; exact (atom_facts env (fun _ => []) _ h).2.2.2
  | .psym _, h => by simp only [textOkTail] at h; exact (atom_facts env (fun _ => []) _ h).2.2.2
  | .qsym _ _, h => by simp only [textOkTail] at h; exact (atom_facts env (fun _ => []) _ h).2.2.2
  | .kw _, h => by simp only [textOkTail] at h; exact (atom_facts env (fun _ => []) _ h).2.2.2
  | .ckw _, h => by simp only [textOkTail] at h; exact (atom_facts env (fun _ => []) _ h).2.2.2
  | .qkw _ _, h => by simp only [textOkTail] at h; exact (atom_facts env (fun _ => []) _ h).2.2.2
  | .cqkw _ _, h => by simp only [textOkTail] at h; exact (atom_facts env (fun _ => []) _ h).2.2.2
  | .pkw _, h => by simp only [textOkTail] at h; exact (atom_facts env (fun _ => []) _ h).2.2.2
  | .unq _, h => by simp [textOkTail, atomOk] at h
end

/-- what is fine as a value is fine as a tail -/
theorem textOk_tail_of_textOk (d : Doc) (h : textOk d = true) : textOkTail d = true := by
  cases d with
  | dotted ys t =>
    cases ys with
    | nil => simp [textOk] at h
    | cons y ys =>
      simp only [textOk, Bool.and_eq_true] at h
      simp only [textOkTail, textOkL, h.1.1, h.1.2, h.2, Bool.and_self]
  | list ys => simpa only [textOk, textOkTail] using h
  | vec ys => simpa only [textOk, textOkTail] using h
  | _ => simpa only [textOk, textOkTail] using h

/-! ## Nesting of the denoted value, computed on the tree -/

mutual
/-- parentheses pending at the deepest point of `stext d` (merged tails do not count) -/
def dnest : Doc → Nat
  | .list xs => 1 + dnestL xs
  | .dotted [] t => dnest t
  | .dotted (x :: xs) t => 1 + max (dnest x) (max (dnestL xs) (dnestTail t))
  | .vec xs => 1 + dnestL xs
  | _ => 0
def dnestL : List Doc → Nat
  | [] => 0
  | x :: xs => max (dnest x) (dnestL xs)
def dnestTail : Doc → Nat
  | .list ys => dnestL ys
  | .dotted ys t => max (dnestL ys) (dnestTail t)
  | .vec xs => 1 + dnestL xs
  | _ => 0
end

theorem atom_nesting (env : Tok → Value) (d : Doc) (h : atomOk d = true) :
    nesting (valueOf env d) = 0 ∧ nestingTail (valueOf env d) = 0 ∧ dnest d = 0 ∧ dnestTail d = 0 := by
  cases d <;> first
    | (simp [atomOk] at h; done)
    | simp [valueOf, nesting, nestingTail, dnest, dnestTail]

mutual
theorem nesting_valueOf (env : Tok → Value) :
    ∀ d : Doc, textOk d = true → nesting (valueOf env d) = dnest d
  | .list [], _ => by simp [valueOf, valueOfL, Value.list, Value.append, nesting, dnest, dnestL]
  | .list (x :: xs), h => by
    simp only [textOk, textOkL, Bool.and_eq_true] at h
    simp only [valueOf, valueOfL, Value.list, Value.append, nesting, dnest, dnestL,
      nesting_valueOf env x h.1, nestingTail_append env xs .null h.2, nestingTail]
    omega
  | .dotted [] t, h => by simp [textOk] at h
  | .dotted (x :: xs) t, h => by
    simp only [textOk, Bool.and_eq_true] at h
    simp only [valueOf, valueOfL, Value.append, nesting, dnest,
      nesting_valueOf env x h.1.1, nestingTail_append env xs _ h.1.2, nestingTail_valueOf env t h.2]
  | .vec xs, h => by
    simp only [textOk] at h
    simp only [valueOf, nesting, dnest, nestingSeq_valueOfL env xs h]
  | .int n, h => by simp only [textOk] at h; have := atom_nesting env _ h; omega
  | .negInt n, h => by simp only [textOk] at h; have := atom_nesting env _ h; omega
  | .float _ _, h => by simp [textOk, atomOk] at h
  | .negFloat _ _, h => by simp [textOk, atomOk] at h
  | .str _ _, h => by simp only [textOk] at h; have := atom_nesting env _ h; omega
  | .chr _, h => by simp only [textOk] at h; have := atom_nesting env _ h; omega
  | .tru, h => by simp only [textOk] at h; have := atom_nesting env _ h; omega
  | .fls, h => by simp only [textOk] at h; have := atom_nesting env _ h; omega
  | .nil, h => by simp only [textOk] at h; have := atom_nesting env _ h; omega
  | .sym _, h => by simp only [textOk] at h; have := atom_nesting env _ h; omega
  | .psym _, h => by simp only [textOk] at h; have := atom_nesting env _ h; omega
  | .qsym _ _, h => by simp only [textOk] at h; have := atom_nesting env _ h; omega
  | .kw _, h => by simp only [textOk] at h; have := atom_nesting env _ h; omega
  | .ckw _, h => by simp only [textOk] at h; have := atom_nesting env _ h; omega
  | .qkw _ _, h => by simp only [textOk] at h; have := atom_nesting env _ h; omega
  | .cqkw _ _, h => by simp only [textOk] at h; have := atom_nesting env _ h; omega
  | .pkw _, h => by simp only [textOk] at h; have := atom_nesting env _ h; omega
  | .unq _, h => by simp [textOk, atomOk] at h
theorem nestingTail_append (env : Tok → Value) :
    ∀ (xs : List Doc) (t : Value), textOkL xs = true →
      nestingTail (Value.append (valueOfL env xs) t) = max (dnestL xs) (nestingTail t)
  | [], t, _ => by simp [valueOfL, Value.append, dnestL]
  | x :: xs, t, h => by
    simp only [textOkL, Bool.and_eq_true] at h
    simp only [valueOfL, Value.append, nestingTail, dnestL, nesting_valueOf env x h.1,
      nestingTail_append env xs t h.2]
    omega
theorem nestingSeq_valueOfL (env : Tok → Value) :
    ∀ xs : List Doc, textOkL xs = true → nestingSeq (valueOfL env xs) = dnestL xs
  | [], _ => by simp [valueOfL, nestingSeq, dnestL]
  | x :: xs, h => by
    simp only [textOkL, Bool.and_eq_true] at h
    simp only [valueOfL, nestingSeq, dnestL, nesting_valueOf env x h.1,
      nestingSeq_valueOfL env xs h.2]
theorem nestingTail_valueOf (env : Tok → Value) :
    ∀ t : Doc, textOkTail t = true → nestingTail (valueOf env t) = dnestTail t
  | .list ys, h => by
    simp only [textOkTail] at h
    simp only [valueOf, Value.list, nestingTail_append env ys .null h, nestingTail, dnestTail]
    omega
  | .dotted ys t, h => by
    simp only [textOkTail, Bool.and_eq_true] at h
    simp only [valueOf, nestingTail_append env ys _ h.1, nestingTail_valueOf env t h.2, dnestTail]
  | .vec xs, h => by
    simp only [textOkTail] at h
    simp only [valueOf, nestingTail, dnestTail, nestingSeq_valueOfL env xs h]
  | .int n, h => by simp only [textOkTail] at h; have := atom_nesting env _ h; omega
  | .negInt n, h => by simp only [textOkTail] at h; have := atom_nesting env _ h; omega
  | .float _ _, h => by simp [textOkTail, atomOk] at h
  | .negFloat _ _, h => by simp [textOkTail, atomOk] at h
  | .str _ _, h => by simp only [textOkTail] at h; have := atom_nesting env _ h; omega
  | .chr _, h => by simp only [textOkTail] at h; have := atom_nesting env _ h; omega
  | .tru, h => by simp only [textOkTail] at h; have := atom_nesting env _ h; omega
  | .fls, h => by simp only [textOkTail] at h; have := atom_nesting env _ h; omega
  | .nil, h => by simp only [textOkTail] at h; have := atom_nesting env _ h; omega
  | .sym _, h => by simp only [textOkTail] at h; have := atom_nesting env _ h; omega
  | .psym _, h => by simp only [textOkTail] at h; have := atom_nesting env _ h; omega
  | .qsym _ _, h => by simp only [textOkTail] at h; have := atom_nesting env _ h; omega
  | .kw _, h => by simp only [textOkTail] at h; have := atom_nesting env _ h; omega
  | .ckw _, h => by simp only [textOkTail] at h; have := atom_nesting env _ h; omega
  | .qkw _ _, h => by simp only [textOkTail] at h; have := atom_nesting env _ h; omega
  | .cqkw _ _, h => by simp only [textOkTail] at h; have := atom_nesting env _ h; omega
  | .pkw _, h => by simp only [textOkTail] at h; have := atom_nesting env _ h; omega
  | .unq _, h => by simp [textOkTail, atomOk] at h
end

/-! ## The literal text: dotted tails written as they stand

  `rtext d` writes `(a . (b c))` as it stands.  The printer never emits that text (it prints
  `(a b c)`), so the round-trip theorem does not apply; the list loop is followed directly. -/

mutual
/-- the literal S-expression text of `d`: as `stext`, but a dotted tail is always written
    ` . tail` -/
def rtext : Doc → List UInt8
  | .list [] => [40, 41]
  | .list (x :: xs) => 40 :: (rtext x ++ (rtextRest xs ++ [41]))
  | .dotted [] _ => []
  | .dotted (x :: xs) t => 40 :: (rtext x ++ ((rtextRest xs ++ 32 :: 46 :: 32 :: rtext t) ++ [41]))
  | .vec [] => [35, 40, 41]
  | .vec (x :: xs) => 35 :: 40 :: ((rtext x ++ rtextRest xs) ++ [41])
  | .int n => stextAtom (.int n)
  | .negInt n => stextAtom (.negInt n)
  | .float s e => stextAtom (.float s e)
  | .negFloat s e => stextAtom (.negFloat s e)
  | .str src val => stextAtom (.str src val)
  | .chr c => stextAtom (.chr c)
  | .tru => stextAtom .tru
  | .fls => stextAtom .fls
  | .nil => stextAtom .nil
  | .sym name => stextAtom (.sym name)
  | .psym cs => stextAtom (.psym cs)
  | .qsym src val => stextAtom (.qsym src val)
  | .kw name => stextAtom (.kw name)
  | .ckw name => stextAtom (.ckw name)
  | .qkw src val => stextAtom (.qkw src val)
  | .cqkw src val => stextAtom (.cqkw src val)
  | .pkw cs => stextAtom (.pkw cs)
  | .unq t => stextAtom (.unq t)
def rtextRest : List Doc → List UInt8
  | [] => []
  | x :: xs => 32 :: (rtext x ++ rtextRest xs)
end

mutual
/-- side conditions for the literal text: those of `textOk`, and every dotted list (also one in
    tail position) has an element before its dot; with `z = true` the literal `-0` is allowed
    (it denotes `0`, which the printer writes `0`: fine for reading, not for `stext_eq_print`) -/
def rawOk (z : Bool) : Doc → Bool
  | .list xs => rawOkL z xs
  | .dotted [] _ => false
  | .dotted (x :: xs) t => rawOk z x && rawOkL z xs && rawOk z t
  | .vec xs => rawOkL z xs
  | .int n => atomOk (.int n)
  | .negInt n => (z && n == 0) || atomOk (.negInt n)
  | .float s e => atomOk (.float s e)
  | .negFloat s e => atomOk (.negFloat s e)
  | .str src val => atomOk (.str src val)
  | .chr c => atomOk (.chr c)
  | .tru => atomOk .tru
  | .fls => atomOk .fls
  | .nil => atomOk .nil
  | .sym name => atomOk (.sym name)
  | .psym cs => atomOk (.psym cs)
  | .qsym src val => atomOk (.qsym src val)
  | .kw name => atomOk (.kw name)
  | .ckw name => atomOk (.ckw name)
  | .qkw src val => atomOk (.qkw src val)
  | .cqkw src val => atomOk (.cqkw src val)
  | .pkw cs => atomOk (.pkw cs)
  | .unq t => atomOk (.unq t)
def rawOkL (z : Bool) : List Doc → Bool
  | [] => true
  | x :: xs => rawOk z x && rawOkL z xs
end

/-- the side conditions for reading the literal text (see `rawOk`; `-0` allowed) -/
def RawOK (d : Doc) : Prop := rawOk true d = true

instance (d : Doc) : Decidable (RawOK d) := inferInstanceAs (Decidable (rawOk true d = true))

/-- `RawOK` without `-0`: the merged text is then the printer's text as well -/
def RawOKStrict (d : Doc) : Prop := rawOk false d = true

instance (d : Doc) : Decidable (RawOKStrict d) := inferInstanceAs (Decidable (rawOk false d = true))

mutual
/-- parentheses pending at the deepest point of `rtext d` (a list in tail position counts) -/
def rnest : Doc → Nat
  | .list xs => 1 + rnestL xs
  | .dotted xs t => 1 + max (rnestL xs) (rnest t)
  | .vec xs => 1 + rnestL xs
  | _ => 0
def rnestL : List Doc → Nat
  | [] => 0
  | x :: xs => max (rnest x) (rnestL xs)
end

/-- `next_value` reads the text `T` as `v`, in every follow context, from every non-faulty slice
    state with a depth budget above `n` (`ValueRT` for an arbitrary text) -/
def ReadsAs (cfg : Parse.Cfg) (T : List UInt8) (v : Value) (n : Nat) : Prop :=
  ∀ (s : Parse.St) (rest : List UInt8) (fuel : Nat), Follow rest → Good s →
    s.rd.rest = T ++ rest → fuel ≥ 2 * s.rd.rest.length + 3 → n + 1 ≤ s.depth →
    Runs (Parse.nextValue cfg fuel) s (some v) rest

/-- the list loop, after at least one element, reads the text `E` up to the closing parenthesis
    as the rest `tl` of the cdr chain (`TailRT` for an arbitrary text) -/
def TailReads (cfg : Parse.Cfg) (E : List UInt8) (tl : Value) (n : Nat) : Prop :=
  ∀ (s : Parse.St) (rest : List UInt8) (fuel : Nat) (acc : List Value), acc ≠ [] → Good s →
    s.rd.rest = E ++ 41 :: rest → fuel ≥ 2 * s.rd.rest.length + 3 → n + 1 ≤ s.depth →
    Runs (Parse.parseList cfg fuel 41 acc) s (Value.append acc tl) (41 :: rest)

/-- the vector loop reads the text `E` up to the closing parenthesis as the elements `xs` -/
def SeqReads (cfg : Parse.Cfg) (first : Bool) (E : List UInt8) (xs : List Value) (n : Nat) : Prop :=
  ∀ (s : Parse.St) (rest : List UInt8) (fuel : Nat) (acc : List Value), Good s →
    s.rd.rest = E ++ 41 :: rest → fuel ≥ 2 * s.rd.rest.length + (if first then 4 else 3) →
    n + 1 ≤ s.depth →
    Runs (Parse.parseVector cfg fuel 41 acc) s (acc ++ xs) (41 :: rest)

/-- what follows an element inside a list or vector: nothing (then the parenthesis) or a space -/
def SpaceOrEnd (E : List UInt8) : Prop := E = [] ∨ ∃ tl, E = 32 :: tl

theorem follow_spaceOrEnd (E rest : List UInt8) (h : SpaceOrEnd E) : Follow (E ++ 41 :: rest) := by
  rcases h with rfl | ⟨tl, rfl⟩
  · exact follow_cons _ _ (by decide)
  · exact follow_cons _ _ (by decide)

theorem readsAs_null (cfg : Parse.Cfg) : ReadsAs cfg [40, 41] .null 1 := by
  intro s rest fuel hf hg hr hfu hd
  have := null_rt cfg (fun _ => []) s rest fuel hf hg (by rw [text_null]; exact hr) hfu
    (by simpa [nesting] using hd)
  exact this

theorem readsAs_cons (cfg : Parse.Cfg) (hopts : cfg.opts = Parse.Options.default)
    (X E : List UInt8) (a tl : Value) (na nt : Nat)
    (hA : ReadsAs cfg X a na) (hhead : ElemHead X) (hE : SpaceOrEnd E)
    (hD : TailReads cfg E tl nt) :
    ReadsAs cfg (40 :: (X ++ (E ++ [41]))) (.cons a tl) (1 + max na nt) := by
  intro s rest fuel _ hg hr hfu hd
  have hr' : s.rd.rest = 40 :: (X ++ (E ++ 41 :: rest)) := by simpa using hr
  have hlen := congrArg List.length hr'
  simp only [List.length_cons, List.length_append] at hlen
  obtain ⟨F, rfl⟩ : ∃ F, fuel = F + 3 := ⟨fuel - 3, by omega⟩
  refine nextValue_listOpen cfg (F + 2) s _ rest (.cons a tl) hg hr' (by omega) ?_
  intro s1 g1 r1 d1
  refine list_elem_step cfg hopts F s1 [] a (.cons a tl) [] X (E ++ 41 :: rest) (41 :: rest) g1
    (Or.inl rfl) (by simpa using r1) hhead ?_ ?_
  · intro s2 g2 r2 d2
    refine hA s2 _ (F + 1) (follow_spaceOrEnd E rest hE) g2 r2 ?_ (by omega)
    rw [r2]; simp only [List.length_cons, List.length_append]; omega
  · intro s3 g3 r3 d3
    have := hD s3 rest (F + 1) [a] (by simp) g3 r3
      (by rw [r3]; simp only [List.length_cons, List.length_append]; omega) (by omega)
    simpa [Value.append] using this

theorem tailReads_nil (cfg : Parse.Cfg) : TailReads cfg [] .null 0 := by
  intro s rest fuel acc _ hg hr hfu hd
  obtain ⟨F, rfl⟩ : ∃ F, fuel = F + 1 := ⟨fuel - 1, by omega⟩
  exact Parse.ListRT.parseList_close cfg F s acc rest hg (by simpa using hr)

theorem tailReads_cons (cfg : Parse.Cfg) (hopts : cfg.opts = Parse.Options.default)
    (X E : List UInt8) (a tl : Value) (na nt : Nat)
    (hA : ReadsAs cfg X a na) (hhead : ElemHead X) (hE : SpaceOrEnd E)
    (hD : TailReads cfg E tl nt) :
    TailReads cfg (32 :: (X ++ E)) (.cons a tl) (max na nt) := by
  intro s rest fuel acc _ hg hr hfu hd
  have hr' : s.rd.rest = [32] ++ (X ++ (E ++ 41 :: rest)) := by simpa using hr
  have hlen := congrArg List.length hr'
  simp only [List.length_cons, List.length_append, List.length_nil] at hlen
  obtain ⟨F, rfl⟩ : ∃ F, fuel = F + 2 := ⟨fuel - 2, by omega⟩
  refine list_elem_step cfg hopts F s acc a _ [32] X (E ++ 41 :: rest) (41 :: rest) hg
    (Or.inr rfl) hr' hhead ?_ ?_
  · intro s2 g2 r2 d2
    refine hA s2 _ (F + 1) (follow_spaceOrEnd E rest hE) g2 r2 ?_ (by omega)
    rw [r2]; simp only [List.length_cons, List.length_append]; omega
  · intro s3 g3 r3 d3
    have := hD s3 rest (F + 1) (acc ++ [a]) (by simp) g3 r3
      (by rw [r3]; simp only [List.length_cons, List.length_append]; omega) (by omega)
    rwa [append_snoc] at this

/-- the dotted tail ` . T`, whatever `T` is read as (a list included) -/
theorem tailReads_dot (cfg : Parse.Cfg) (T : List UInt8) (d : Value) (n : Nat)
    (hD : ReadsAs cfg T d n) (hhead : ElemHead T) :
    TailReads cfg (32 :: 46 :: 32 :: T) d n := by
  intro s rest fuel acc hacc hg hr hfu hd
  obtain ⟨c, tl, ht, hc1, hc2, -, -, -⟩ := hhead
  have hr' : s.rd.rest = 32 :: 46 :: 32 :: (c :: (tl ++ 41 :: rest)) := by
    simpa [ht] using hr
  have hlen := congrArg List.length hr'
  simp only [List.length_cons, List.length_append] at hlen
  obtain ⟨F, rfl⟩ : ∃ F, fuel = F + 1 := ⟨fuel - 1, by omega⟩
  refine Parse.ListRT.parseList_dotted cfg F s acc _ rest d hg hr' hacc ?_
  intro s1 g1 r1 d1
  obtain ⟨s2, g2, r2, d2, heq⟩ := nextValue_skip cfg s1 g1 c _ r1 hc1 (by simp [hc2])
  obtain ⟨s3, e3, r3, g3, d3⟩ := hD s2 (41 :: rest) F (follow_cons _ _ (by decide)) g2
    (by rw [r2, ht]; simp)
    (by rw [r2]; simp only [List.length_cons, List.length_append]; omega) (by omega)
  exact ⟨s3, (heq F).trans e3, r3, g3, by omega⟩

theorem seqReads_nil (cfg : Parse.Cfg) (first : Bool) : SeqReads cfg first [] [] 0 := by
  intro s rest fuel acc hg hr hfu hd
  obtain ⟨F, rfl⟩ : ∃ F, fuel = F + 1 := ⟨fuel - 1, by cases first <;> simp at hfu <;> omega⟩
  have := Parse.ListRT.parseVector_close cfg F s acc rest hg (by simpa using hr)
  simpa using this

theorem seqReads_cons (cfg : Parse.Cfg) (first : Bool) (X E : List UInt8) (x : Value)
    (xs : List Value) (nx n : Nat) (hX : ReadsAs cfg X x nx) (hhead : ElemHead X)
    (hE : SpaceOrEnd E) (hS : SeqReads cfg false E xs n) :
    SeqReads cfg first ((if first then [] else [32]) ++ (X ++ E)) (x :: xs) (max nx n) := by
  intro s rest fuel acc hg hr hfu hd
  have hr' : s.rd.rest = (if first then [] else [32]) ++ (X ++ (E ++ 41 :: rest)) := by
    simpa using hr
  have hpre : (if first then [] else [32]) = ([] : List UInt8) ∨
      (if first then [] else [32]) = ([32] : List UInt8) := by cases first <;> simp
  have hlen := congrArg List.length hr'
  simp only [List.length_cons, List.length_append] at hlen
  obtain ⟨F, rfl⟩ : ∃ F, fuel = F + 1 := ⟨fuel - 1, by cases first <;> simp at hfu <;> omega⟩
  have hF : F ≥ 2 * (X.length + (E.length + (rest.length + 1))) + 3 := by
    cases first <;> simp at hfu hlen <;> omega
  refine vec_elem_step cfg F s acc x _ _ X (E ++ 41 :: rest) (41 :: rest) hg hpre hr' hhead ?_ ?_
  · intro s2 g2 r2 d2
    refine hX s2 _ F (follow_spaceOrEnd E rest hE) g2 r2 ?_ (by omega)
    rw [r2]; simp only [List.length_cons, List.length_append]; omega
  · intro s3 g3 r3 d3
    have := hS s3 rest F (acc ++ [x]) g3 r3
      (by rw [r3]; simp only [List.length_cons, List.length_append]; simp; omega) (by omega)
    simpa using this

theorem readsAs_vector (cfg : Parse.Cfg) (E : List UInt8) (xs : List Value) (n : Nat)
    (hS : SeqReads cfg true E xs n) : ReadsAs cfg (35 :: 40 :: (E ++ [41])) (.vector xs) (1 + n) := by
  intro s rest fuel _ hg hr hfu hd
  have hr' : s.rd.rest = 35 :: 40 :: (E ++ 41 :: rest) := by simpa using hr
  have hlen := congrArg List.length hr'
  simp only [List.length_cons, List.length_append] at hlen
  obtain ⟨F, rfl⟩ : ∃ F, fuel = F + 1 := ⟨fuel - 1, by omega⟩
  refine nextValue_vecOpen cfg F s _ rest xs hg hr' (by omega) ?_
  intro s1 g1 r1 d1
  have := hS s1 rest F [] g1 r1
    (by rw [r1]; simp only [List.length_cons, List.length_append, if_true]; omega) (by omega)
  simpa using this

theorem raw_atom (env : Tok → Value) (cfg : Parse.Cfg) (ho : cfg.opts = Parse.Options.default)
    (d : Doc) (h : atomOk d = true) :
    ReadsAs cfg (stextAtom d) (valueOf env d) 0 ∧ ElemHead (stextAtom d) := by
  obtain ⟨h1, _, _, h4⟩ := atom_facts env (fun _ => []) d h
  have hall := allAtomsOK_of_supported cfg ho (fun _ => []) _ h4
  have hv := value_rt cfg ho (fun _ => []) _ hall
  have hh := text_head cfg (fun _ => []) _ hall
  rw [h1] at hh
  refine ⟨?_, hh⟩
  intro s rest fuel hf hg hr hfu hd
  exact hv s rest fuel hf hg (by rw [h1]; exact hr) hfu
    (by rw [(atom_nesting env d h).1]; exact hd)

theorem negzero_reads (cfg : Parse.Cfg) :
    ReadsAs cfg (45 :: natDigits 0) (.number (.pos 0)) 0 ∧ ElemHead (45 :: natDigits 0) := by
  refine ⟨?_, head_of_nonterm 45 _ (by decide) (by decide)⟩
  intro s rest fuel hf hg hr hfu _
  have hlen := congrArg List.length hr
  simp only [List.length_append] at hlen
  obtain ⟨F, rfl⟩ : ∃ F, fuel = F + 1 := ⟨fuel - 1, by omega⟩
  obtain ⟨s1, e1, r1, g1, d1⟩ := ws_start s hg 45 (natDigits 0 ++ rest) (by simpa using hr)
    (by decide) (by decide)
  have ht := Parse.negzero_token cfg (s1.rd.rest.length + 1) rest s1 (by simpa using r1)
    (by rw [r1]; simp; omega) hf (fun _ => g1.2)
  obtain ⟨s2, e2, r2, g2, d2⟩ := runs_of_adv _ s1 _ _ _ rest g1 ht (by simp [r1])
  refine ⟨s2, ?_, r2, g2, by omega⟩
  rw [Parse.nextValue]
  simp only [bind_apply, e1, Parse.tokenFuel, e2]
  simp [Parse.Token.atom]

/-- a negative integer literal, `-0` included -/
theorem raw_negInt (env : Tok → Value) (cfg : Parse.Cfg) (ho : cfg.opts = Parse.Options.default)
    (z : Bool) (n : Nat) (h : ((z && n == 0) || atomOk (.negInt n)) = true) :
    ReadsAs cfg (stextAtom (.negInt n)) (valueOf env (.negInt n)) 0 ∧
      ElemHead (stextAtom (.negInt n)) := by
  by_cases h0 : n = 0
  · subst h0
    have : valueOf env (.negInt 0) = .number (.pos 0) := by simp [valueOf, Number.ofSigned]
    rw [this]
    exact negzero_reads cfg
  · have : atomOk (.negInt n) = true := by simpa [h0] using h
    exact raw_atom env cfg ho _ this

theorem spaceOrEnd_rest (xs : List Doc) (E : List UInt8) (hE : SpaceOrEnd E) :
    SpaceOrEnd (rtextRest xs ++ E) := by
  cases xs with
  | nil => simpa only [rtextRest, List.nil_append] using hE
  | cons x xs => exact Or.inr ⟨(rtext x ++ rtextRest xs) ++ E, by simp only [rtextRest, List.cons_append]⟩

theorem head40 (tl : List UInt8) : ElemHead (40 :: tl) :=
  head_of_byte _ _ (by decide) (by decide) (by decide) (by decide) (by decide)

theorem head35 (tl : List UInt8) : ElemHead (35 :: tl) :=
  head_of_byte _ _ (by decide) (by decide) (by decide) (by decide) (by decide)

mutual
theorem raw_reads (env : Tok → Value) (cfg : Parse.Cfg) (ho : cfg.opts = Parse.Options.default)
    (z : Bool) : ∀ d : Doc, rawOk z d = true →
      ReadsAs cfg (rtext d) (valueOf env d) (rnest d) ∧ ElemHead (rtext d)
  | .list [], _ => by
    refine ⟨?_, by simp only [rtext]; exact head40 _⟩
    simpa [rtext, valueOf, valueOfL, Value.list, Value.append, rnest, rnestL] using readsAs_null cfg
  | .list (x :: xs), h => by
    simp only [rawOk, rawOkL, Bool.and_eq_true] at h
    obtain ⟨hx, hxh⟩ := raw_reads env cfg ho z x h.1
    have ht := raw_rest env cfg ho z xs [] .null 0 h.2 (Or.inl rfl) (tailReads_nil cfg)
    have := readsAs_cons cfg ho (rtext x) (rtextRest xs ++ []) _ _ _ _ hx hxh
      (spaceOrEnd_rest xs [] (Or.inl rfl)) ht
    refine ⟨?_, by simp only [rtext]; exact head40 _⟩
    simpa [rtext, valueOf, valueOfL, Value.list, Value.append, rnest, rnestL] using this
  | .dotted [] t, h => by simp [rawOk] at h
  | .dotted (x :: xs) t, h => by
    simp only [rawOk, Bool.and_eq_true] at h
    obtain ⟨hx, hxh⟩ := raw_reads env cfg ho z x h.1.1
    obtain ⟨htt, hth⟩ := raw_reads env cfg ho z t h.2
    have hd := tailReads_dot cfg (rtext t) _ _ htt hth
    have ht := raw_rest env cfg ho z xs _ _ _ h.1.2 (Or.inr ⟨_, rfl⟩) hd
    have := readsAs_cons cfg ho (rtext x) (rtextRest xs ++ 32 :: 46 :: 32 :: rtext t) _ _ _ _ hx hxh
      (spaceOrEnd_rest xs _ (Or.inr ⟨_, rfl⟩)) ht
    have e : rnest (.dotted (x :: xs) t) = 1 + max (rnest x) (max (rnestL xs) (rnest t)) := by
      simp only [rnest, rnestL]; omega
    refine ⟨?_, by simp only [rtext]; exact head40 _⟩
    rw [e]
    simpa only [rtext, valueOf, valueOfL, Value.append] using this
  | .vec [], _ => by
    refine ⟨?_, by simp only [rtext]; exact head35 _⟩
    simpa [rtext, valueOf, valueOfL, rnest, rnestL] using
      readsAs_vector cfg [] [] 0 (seqReads_nil cfg true)
  | .vec (x :: xs), h => by
    simp only [rawOk, rawOkL, Bool.and_eq_true] at h
    obtain ⟨hx, hxh⟩ := raw_reads env cfg ho z x h.1
    have hs := seqReads_cons cfg true (rtext x) (rtextRest xs) _ _ _ _ hx hxh
      (by simpa using spaceOrEnd_rest xs [] (Or.inl rfl)) (raw_seq env cfg ho z xs h.2)
    simp only [if_true, List.nil_append] at hs
    have := readsAs_vector cfg _ _ _ hs
    refine ⟨?_, by simp only [rtext]; exact head35 _⟩
    simpa only [rtext, valueOf, valueOfL, rnest, rnestL] using this
  | .int n, h => by simp only [rawOk] at h; simpa only [rtext, rnest] using raw_atom env cfg ho _ h
  | .negInt n, h => by
    simp only [rawOk] at h; simpa only [rtext, rnest] using raw_negInt env cfg ho z n h
  | .float _ _, h => by simp [rawOk, atomOk] at h
  | .negFloat _ _, h => by simp [rawOk, atomOk] at h
  | .str _ _, h => by simp only [rawOk] at h; simpa only [rtext, rnest] using raw_atom env cfg ho _ h
  | .chr _, h => by simp only [rawOk] at h; simpa only [rtext, rnest] using raw_atom env cfg ho _ h
  | .tru, h => by simp only [rawOk] at h; simpa only [rtext, rnest] using raw_atom env cfg ho _ h
  | .fls, h => by simp only [rawOk] at h; simpa only [rtext, rnest] using raw_atom env cfg ho _ h
  | .nil, h => by simp only [rawOk] at h; simpa only [rtext, rnest] using raw_atom env cfg ho _ h
  | .sym _, h => by simp only [rawOk] at h; simpa only [rtext, rnest] using raw_atom env cfg ho _ h
  | .psym _, h => by simp only [rawOk] at h; simpa only [rtext, rnest] using raw_atom env cfg ho _ h
  | .qsym _ _, h => by simp only [rawOk] at h; simpa only [rtext, rnest] using raw_atom env cfg ho _ h
  | .kw _, h => by simp only [rawOk] at h; simpa only [rtext, rnest] using raw_atom env cfg ho _ h
  | .ckw _, h => by simp only [rawOk] at h; simpa only [rtext, rnest] using raw_atom env cfg ho _ h
  | .qkw _ _, h => by simp only [rawOk] at h; simpa only [rtext, rnest] using raw_atom env cfg ho _ h
  | .cqkw _ _, h => by simp only [rawOk] at h; simpa only [rtext, rnest] using raw_atom env cfg ho _ h
  | .pkw _, h => by simp only [rawOk] at h; simpa only [rtext, rnest] using raw_atom env cfg ho _ h
  | .unq _, h => by simp [rawOk, atomOk] at h
theorem raw_rest (env : Tok → Value) (cfg : Parse.Cfg) (ho : cfg.opts = Parse.Options.default)
    (z : Bool) : ∀ (xs : List Doc) (E : List UInt8) (tl : Value) (nt : Nat), rawOkL z xs = true →
      SpaceOrEnd E → TailReads cfg E tl nt →
      TailReads cfg (rtextRest xs ++ E) (Value.append (valueOfL env xs) tl) (max (rnestL xs) nt)
  | [], E, tl, nt, _, _, hD => by
    simpa [rtextRest, valueOfL, Value.append, rnestL] using hD
  | x :: xs, E, tl, nt, h, hE, hD => by
    simp only [rawOkL, Bool.and_eq_true] at h
    obtain ⟨hx, hxh⟩ := raw_reads env cfg ho z x h.1
    have ih := raw_rest env cfg ho z xs E tl nt h.2 hE hD
    have := tailReads_cons cfg ho (rtext x) (rtextRest xs ++ E) _ _ _ _ hx hxh
      (spaceOrEnd_rest xs E hE) ih
    simpa [rtextRest, valueOfL, Value.append, rnestL, Nat.max_assoc] using this
theorem raw_seq (env : Tok → Value) (cfg : Parse.Cfg) (ho : cfg.opts = Parse.Options.default)
    (z : Bool) : ∀ xs : List Doc, rawOkL z xs = true →
      SeqReads cfg false (rtextRest xs) (valueOfL env xs) (rnestL xs)
  | [], _ => by simpa [rtextRest, valueOfL, rnestL] using seqReads_nil cfg false
  | x :: xs, h => by
    simp only [rawOkL, Bool.and_eq_true] at h
    obtain ⟨hx, hxh⟩ := raw_reads env cfg ho z x h.1
    have := seqReads_cons cfg false (rtext x) (rtextRest xs) _ _ _ _ hx hxh
      (by simpa using spaceOrEnd_rest xs [] (Or.inl rfl)) (raw_seq env cfg ho z xs h.2)
    simpa [rtextRest, valueOfL, rnestL] using this
end

mutual
theorem textOk_of_rawOk : ∀ d : Doc, rawOk false d = true → textOk d = true
  | .list xs, h => by
    simp only [rawOk] at h; simp only [textOk]; exact textOkL_of_rawOkL xs h
  | .dotted [] t, h => by simp [rawOk] at h
  | .dotted (x :: xs) t, h => by
    simp only [rawOk, Bool.and_eq_true] at h
    simp only [textOk, Bool.and_eq_true]
    exact ⟨⟨textOk_of_rawOk x h.1.1, textOkL_of_rawOkL xs h.1.2⟩,
      textOk_tail_of_textOk t (textOk_of_rawOk t h.2)⟩
  | .vec xs, h => by
    simp only [rawOk] at h; simp only [textOk]; exact textOkL_of_rawOkL xs h
  | .int _, h | .negInt _, h | .float _ _, h | .negFloat _ _, h | .str _ _, h | .chr _, h
  | .tru, h | .fls, h | .nil, h | .sym _, h | .psym _, h | .qsym _ _, h | .kw _, h | .ckw _, h
  | .qkw _ _, h | .cqkw _ _, h | .pkw _, h | .unq _, h => by
    simpa only [rawOk, textOk, Bool.false_and, Bool.false_or] using h
theorem textOkL_of_rawOkL : ∀ xs : List Doc, rawOkL false xs = true → textOkL xs = true
  | [], _ => rfl
  | x :: xs, h => by
    simp only [rawOkL, Bool.and_eq_true] at h
    simp only [textOkL, Bool.and_eq_true]
    exact ⟨textOk_of_rawOk x h.1, textOkL_of_rawOkL xs h.2⟩
end

mutual
theorem rawOk_mono (z : Bool) : ∀ d : Doc, rawOk false d = true → rawOk z d = true
  | .list xs, h => by
    simp only [rawOk] at h ⊢; exact rawOkL_mono z xs h
  | .dotted [] t, h => by simp [rawOk] at h
  | .dotted (x :: xs) t, h => by
    simp only [rawOk, Bool.and_eq_true] at h ⊢
    exact ⟨⟨rawOk_mono z x h.1.1, rawOkL_mono z xs h.1.2⟩, rawOk_mono z t h.2⟩
  | .vec xs, h => by
    simp only [rawOk] at h ⊢; exact rawOkL_mono z xs h
  | .negInt n, h => by
    simp only [rawOk, Bool.false_and, Bool.false_or] at h
    simp only [rawOk, h, Bool.or_true]
  | .int _, h | .float _ _, h | .negFloat _ _, h | .str _ _, h | .chr _, h
  | .tru, h | .fls, h | .nil, h | .sym _, h | .psym _, h | .qsym _ _, h | .kw _, h | .ckw _, h
  | .qkw _ _, h | .cqkw _ _, h | .pkw _, h | .unq _, h => by simpa only [rawOk] using h
theorem rawOkL_mono (z : Bool) : ∀ xs : List Doc, rawOkL false xs = true → rawOkL z xs = true
  | [], _ => rfl
  | x :: xs, h => by
    simp only [rawOkL, Bool.and_eq_true] at h ⊢
    exact ⟨rawOk_mono z x h.1, rawOkL_mono z xs h.2⟩
end

/-! ## Names the macro syntax can produce are fine

  A symbol or keyword written in the macro without string literal is a Rust identifier or a run
  of punctuation.  For ASCII identifiers and for every well-formed punctuation run except the
  lone `.`, the name conditions of `TextOK` hold. -/

/-- an ASCII Rust identifier: a letter or `_`, then letters, digits and `_` -/
def rustIdent : List UInt8 → Bool
  | [] => false
  | b :: tl => (Parse.isAsciiAlpha b || b == 95) &&
      tl.all (fun c => Parse.isAsciiAlpha c || Parse.isDigit c || c == 95)

theorem kwOk_of_symOk (name : List UInt8) (h : symOk name = true) : kwOk name = true := by
  rw [symOk_iff] at h
  obtain ⟨⟨hshape, hvalid⟩, _⟩ := h
  rw [kwOk_iff]
  cases name with
  | nil => simp [Parse.plainShape] at hshape
  | cons b tl =>
    simp only [Parse.plainShape, Bool.and_eq_true, List.all_eq_true, Bool.not_eq_true'] at hshape
    refine ⟨hshape.1, ?_, hvalid⟩
    intro he
    obtain ⟨rfl, rfl⟩ : b = 46 ∧ tl = [] := by simpa using he
    exact absurd hshape.2 (by decide)

theorem rustIdent_asciiIdent (name : List UInt8) (h : rustIdent name = true) :
    Parse.asciiIdent name = true := by
  cases name with
  | nil => simp [rustIdent] at h
  | cons b tl =>
    simp only [rustIdent, Bool.and_eq_true, Bool.or_eq_true, beq_iff_eq, List.all_eq_true] at h
    simp only [Parse.asciiIdent, Bool.and_eq_true, Bool.or_eq_true, List.all_eq_true]
    refine ⟨?_, ?_⟩
    · rcases h.1 with h1 | h1
      · exact Or.inl h1
      · subst h1; exact Or.inr (by decide)
    · intro c hc
      rcases h.2 c hc with (h1 | h1) | h1
      · simp [Parse.isIdentSubsequent, h1]
      · simp [Parse.isIdentSubsequent, h1]
      · subst h1; decide

theorem symOk_of_asciiIdent (name : List UInt8) (h : Parse.asciiIdent name = true) :
    symOk name = true := by
  rw [symOk_iff]
  refine ⟨Parse.asciiIdent_plain name h, ?_⟩
  cases name with
  | nil => rfl
  | cons b tl =>
    simp only [Parse.asciiIdent, Bool.and_eq_true, Bool.or_eq_true, bne_iff_ne, ne_eq] at h
    have hb : b ≠ 46 := by
      rcases h.1 with h1 | h1
      · intro he; subst he; exact absurd h1 (by decide)
      · exact h1.2
    unfold dotHeadOk
    split
    · rename_i heq; simp only [List.cons.injEq] at heq; exact absurd heq.1 hb
    · rfl

theorem symPunct_facts : ∀ c : UInt8, isSymPunct c = true →
    symTermSlice c = false ∧ c < 0x80 ∧ Parse.isDigit c = false ∧ c ≠ 0 ∧
      Parse.isDelimiter c = false ∧ (Parse.isSignSubsequent c = true ∨ c = 46) ∧
      (Parse.isSymbolExtended c = true ∨ c = 43 ∨ c = 45) := by
  apply Parse.forall_u8; decide +kernel

theorem idPunct_symPunct (c : UInt8) (h : isIdPunct c = true) : isSymPunct c = true := by
  simp only [isIdPunct, Bool.and_eq_true] at h; exact h.1

/-- every well-formed punctuation symbol except the lone `.` is a plain identifier -/
theorem symOk_of_punct (cs : List UInt8) (hwf : wf (.psym cs) = true) (hdot : cs ≠ [46]) :
    symOk cs = true := by
  cases cs with
  | nil => simp [wf] at hwf
  | cons b tl =>
    simp only [wf, Bool.and_eq_true, List.all_eq_true] at hwf
    obtain ⟨hb, htl⟩ := hwf
    have hall : ∀ x ∈ b :: tl, isSymPunct x = true := by
      intro x hx
      rcases List.mem_cons.mp hx with rfl | hx
      · exact hb
      · exact idPunct_symPunct x (htl x hx)
    rw [symOk_iff]
    refine ⟨⟨?_, Parse.ascii_valid _ (fun x hx => (symPunct_facts x (hall x hx)).2.1)⟩, ?_⟩
    · simp only [Parse.plainShape, Bool.and_eq_true, List.all_eq_true, Bool.not_eq_true',
        Bool.or_eq_true, bne_iff_ne, ne_eq, beq_iff_eq]
      refine ⟨fun x hx => (symPunct_facts x (hall x hx)).1, ?_⟩
      rcases (symPunct_facts b hb).2.2.2.2.2.2 with he | he
      · exact Or.inl ⟨Or.inr he, hdot⟩
      · refine Or.inr ⟨he, ?_⟩
        cases tl with
        | nil => rfl
        | cons c tl' =>
          have hc := symPunct_facts c (hall c (by simp))
          simp only [Parse.signTailOk, Bool.or_eq_true, Bool.and_eq_true, beq_iff_eq]
          rcases hc.2.2.2.2.2.1 with h1 | h1
          · exact Or.inl (Or.inr h1)
          · refine Or.inr ⟨h1, ?_⟩
            cases tl' with
            | nil => rfl
            | cons d tl'' =>
              have hd := symPunct_facts d (hall d (by simp))
              simp [Parse.dotTailOk, hd.2.2.1]
    · unfold dotHeadOk
      split
      · rename_i b' tl' heq
        simp only [List.cons.injEq] at heq
        obtain ⟨-, rfl⟩ := heq
        have hc := symPunct_facts b' (hall b' (by simp))
        simp [hc.2.2.2.1, hc.2.2.2.2.1]
      · rfl

/-- every well-formed punctuation keyword except `#:.` has a supported name -/
theorem kwOk_of_punct (cs : List UInt8) (hwf : wf (.pkw cs) = true) (hdot : cs ≠ [46]) :
    kwOk cs = true := by
  cases cs with
  | nil => simp [wf] at hwf
  | cons b tl =>
    simp only [wf, Bool.and_eq_true, List.all_eq_true] at hwf
    have hall : ∀ x ∈ b :: tl, isSymPunct x = true := by
      intro x hx
      rcases List.mem_cons.mp hx with rfl | hx
      · exact idPunct_symPunct _ hwf.1
      · exact idPunct_symPunct x (hwf.2 x hx)
    rw [kwOk_iff]
    exact ⟨fun x hx => (symPunct_facts x (hall x hx)).1, hdot,
      Parse.ascii_valid _ (fun x hx => (symPunct_facts x (hall x hx)).2.1)⟩

/-! ## Why the side conditions are there, and where macro and parser differ

  Concrete witnesses (`cfg0` is the concrete parser configuration of `ListRT`). -/

/-- Without `TextOK` the requested equation `stext d = print (valueOf d)` is false: `-0` denotes
    `0`, printed `0`; a string containing `"` is printed with an escape. -/
theorem stext_ne_print_witness (env : Tok → Value) (ryu : Nat → List UInt8) :
    stext (.negInt 0) ≠ Print.text Print.Options.default ryu (valueOf env (.negInt 0)) ∧
    stext (.str (asc "a\"b") (asc "a\"b")) ≠
      Print.text Print.Options.default ryu (valueOf env (.str (asc "a\"b") (asc "a\"b"))) := by
  constructor
  · have : valueOf env (.negInt 0) = .number (.pos 0) := by simp [valueOf, Number.ofSigned]
    rw [this, text_number]; simp only [numberText]; decide
  · simp only [valueOf, text_string]; decide

/-- `sexp!((. 5))` is `5` (a dotted list without elements is accepted by `parse_list` and
    evaluates to its tail), but the text `(. 5)` is rejected by the parser: `WF` trees with an
    empty dotted front have no S-expression text; `TextOK` excludes them. -/
theorem empty_front_witness (env : Tok → Value) :
    WF (.dotted [] (.int 5)) ∧
    expand env (toks (.dotted [] (.int 5))) = some (.number (.pos 5)) ∧
    errCode (Parse.fromTrait cfg0 (Parse.initSt .slice (asc "(. 5)"))) = some .expectedSomeValue := by
  refine ⟨by decide, ?_, by decide +kernel⟩
  rw [C09_expand env _ (by decide) (by decide)]
  simp [valueOf, valueOfL, Value.append, Number.ofSigned]

/-- `sexp!(#(. a))` is the vector of the symbols `.` and `a` (`WF` exempts vectors from the
    lone-dot rule), but the text `#(. a)` — which is also what the printer writes for that value
    — is rejected by the parser (`.` alone is not a symbol).  `TextOK` excludes the symbol `.`. -/
theorem lone_dot_witness (env : Tok → Value) :
    WF (.vec [.psym [46], .sym (asc "a")]) ∧
    expand env (toks (.vec [.psym [46], .sym (asc "a")])) =
      some (.vector [.symbol [46], .symbol (asc "a")]) ∧
    Print.text Print.Options.default (fun _ => []) (.vector [.symbol [46], .symbol (asc "a")]) =
      asc "#(. a)" ∧
    errCode (Parse.fromTrait cfg0 (Parse.initSt .slice (asc "#(. a)"))) = some .invalidSymbol := by
  refine ⟨by decide, ?_, by decide, by decide +kernel⟩
  rw [C09_expand env _ (by decide) (by decide)]
  simp [valueOf, valueOfL]

/-- `(1 . (1 . ( … . ())))`, `n` dots deep -/
def deepTail : Nat → Doc
  | 0 => .list []
  | n + 1 => .dotted [.int 1] (deepTail n)

set_option maxRecDepth 100000 in
/-- The depth limit separates macro and parser on the literal syntax: the macro turns the 127-fold
    `(1 . (1 . ( … . ())))` into the flat list of 127 ones (nesting 1), and the parser reads the
    merged text `(1 1 … 1)` as that value, but it rejects the literal text with
    `RecursionLimitExceeded`, because every list in tail position opens a parenthesis
    (`rnest = 128`).  One level less is read (`C09_text_literal`). -/
theorem literal_depth_witness (env : Tok → Value) :
    WF (deepTail 127) ∧ TextOK (deepTail 127) ∧ RawOK (deepTail 127) ∧
    dnest (deepTail 127) = 1 ∧ rnest (deepTail 127) = 128 ∧
    expand env (toks (deepTail 127)) = some (valueOf env (deepTail 127)) ∧
    (∃ s', Parse.fromTrait cfg0 (Parse.initSt .slice (stext (deepTail 127))) =
      .ok (valueOf env (deepTail 127)) s') ∧
    errCode (Parse.fromTrait cfg0 (Parse.initSt .slice (rtext (deepTail 127)))) =
      some .recursionLimitExceeded := by
  have hok : TextOK (deepTail 127) := by decide +kernel
  refine ⟨by decide +kernel, hok, by decide +kernel, by decide +kernel, by decide +kernel,
    C09_expand env _ (by decide +kernel) (by decide +kernel), ?_, by decide +kernel⟩
  obtain ⟨s', h, _⟩ := stext_eq env (fun _ => []) _ hok ▸
    C01_roundtrip_supported cfg0 rfl (fun _ => []) _ (supported_valueOf env _ hok)
      (by rw [nesting_valueOf env _ hok]; decide +kernel)
  exact ⟨s', h⟩

/-! ## Main theorems -/

/-- **stext_eq_print.** Under the side conditions `TextOK d`, the S-expression text of the
    documented tree `d` is exactly what the default printer writes for the value `d` denotes. -/
theorem stext_eq_print (env : Tok → Value) (ryu : Nat → List UInt8) (d : Doc) (h : TextOK d) :
    stext d = Print.text Print.Options.default ryu (valueOf env d) :=
  stext_eq env ryu d h

/-- **C09_supported.** The value denoted by a `TextOK` tree is in the fragment covered by
    `C01_roundtrip_supported`. -/
theorem C09_supported (env : Tok → Value) (d : Doc) (h : TextOK d) :
    AllSupported (valueOf env d) :=
  supported_valueOf env d h

/-- **C09_nesting.** The nesting of the denoted value, computed on the tree. -/
theorem C09_nesting (env : Tok → Value) (d : Doc) (h : TextOK d) :
    nesting (valueOf env d) = dnest d :=
  nesting_valueOf env d h

/-- **C09_text.** The parser (default options, slice source) reads the text of a `TextOK` tree of
    nesting at most 127 as the denoted value, consuming all of it. -/
theorem C09_text (env : Tok → Value) (cfg : Parse.Cfg) (ho : cfg.opts = Parse.Options.default)
    (d : Doc) (hok : TextOK d) (hn : dnest d ≤ 127) :
    ∃ s', Parse.fromTrait cfg (Parse.initSt .slice (stext d)) = .ok (valueOf env d) s' ∧
      s'.rd.rest = [] ∧ s'.depth = 128 := by
  rw [stext_eq_print env (fun _ => []) d hok]
  exact C01_roundtrip_supported cfg ho _ _ (C09_supported env d hok)
    (by rw [C09_nesting env d hok]; exact hn)

/-- **C09_agree.** The macro and the parser agree on the documented syntax: for a well-formed
    tree `d` (`WF d`: no glued tokens, see `MacroSpec`) that satisfies the text side conditions
    (`TextOK d`) and nests at most 127 deep, `sexp!` applied to the Rust tokens of `d` and
    `from_slice` applied to the S-expression text of `d` both yield `valueOf env d`.
    (`hfuel` is the fuel artefact of the macro model, as in `C09_expand`.) -/
theorem C09_agree (env : Tok → Value) (cfg : Parse.Cfg) (ho : cfg.opts = Parse.Options.default)
    (d : Doc) (hwf : WF d) (hok : TextOK d) (hn : dnest d ≤ 127)
    (hfuel : need d ≤ 2 * (toks d).length + 1000) :
    expand env (toks d) = some (valueOf env d) ∧
      ∃ s', Parse.fromTrait cfg (Parse.initSt .slice (stext d)) = .ok (valueOf env d) s' ∧
        s'.rd.rest = [] ∧ s'.depth = 128 :=
  ⟨C09_expand env d hwf hfuel, C09_text env cfg ho d hok hn⟩

/-- **C09_agree** with the nesting bound stated on the value and a fuel hypothesis that does not
    mention `need`: at most 500 nodes. -/
theorem C09_agree_small (env : Tok → Value) (cfg : Parse.Cfg)
    (ho : cfg.opts = Parse.Options.default) (d : Doc) (hwf : WF d) (hok : TextOK d)
    (hn : nesting (valueOf env d) ≤ 127) (hsize : nodes d ≤ 500) :
    expand env (toks d) = some (valueOf env d) ∧
      ∃ s', Parse.fromTrait cfg (Parse.initSt .slice (stext d)) = .ok (valueOf env d) s' ∧
        s'.rd.rest = [] ∧ s'.depth = 128 :=
  ⟨C09_expand_small env d hwf hsize,
    C09_text env cfg ho d hok (by rw [← C09_nesting env d hok]; exact hn)⟩

/-- **C09_text_literal.** The parser reads the *literal* text of a `RawOK` tree — dotted tails
    written as they stand, `(a . (b c))` — as the denoted value: it merges the tail as the macro
    does.  The depth bound is on the text (`rnest`): a list in tail position opens a parenthesis
    although the value does not nest there. -/
theorem C09_text_literal (env : Tok → Value) (cfg : Parse.Cfg)
    (ho : cfg.opts = Parse.Options.default) (d : Doc) (hok : RawOK d) (hn : rnest d ≤ 127) :
    ∃ s', Parse.fromTrait cfg (Parse.initSt .slice (rtext d)) = .ok (valueOf env d) s' ∧
      s'.rd.rest = [] ∧ s'.depth = 128 := by
  have hv := (raw_reads env cfg ho true d hok).1 (Parse.initSt .slice (rtext d)) []
    (2 * (Parse.initSt .slice (rtext d)).rd.rest.length + 4) (Or.inl rfl) ⟨rfl, rfl⟩
    (by simp [Parse.initSt]) (by omega) (by simp [Parse.initSt]; omega)
  obtain ⟨s', e, r, _, dd⟩ := fromTrait_of_nextValue cfg _ _ hv
  exact ⟨s', e, r, dd⟩

/-- **C09_agree_literal.** `C09_agree` for the literal text: the macro on the tokens of `d` and the
    parser on the literal text of `d` both yield `valueOf env d`. -/
theorem C09_agree_literal (env : Tok → Value) (cfg : Parse.Cfg)
    (ho : cfg.opts = Parse.Options.default) (d : Doc) (hwf : WF d) (hok : RawOK d)
    (hn : rnest d ≤ 127) (hfuel : need d ≤ 2 * (toks d).length + 1000) :
    expand env (toks d) = some (valueOf env d) ∧
      ∃ s', Parse.fromTrait cfg (Parse.initSt .slice (rtext d)) = .ok (valueOf env d) s' ∧
        s'.rd.rest = [] ∧ s'.depth = 128 :=
  ⟨C09_expand env d hwf hfuel, C09_text_literal env cfg ho d hok hn⟩

/-- **RawOKStrict_TextOK.** Without `-0`, the side conditions of the literal text imply those of
    the merged text (so `stext_eq_print`, `C09_text`, `C09_agree` apply as well) and `RawOK`. -/
theorem RawOKStrict_TextOK (d : Doc) (h : RawOKStrict d) : TextOK d ∧ RawOK d :=
  ⟨textOk_of_rawOk d h, rawOk_mono true d h⟩

/-- **C09_names.** The name conditions of `TextOK` hold for every name the macro syntax can spell
    without a string literal: ASCII Rust identifiers (as symbol and as keyword) and every
    well-formed punctuation run except the lone `.`. -/
theorem C09_names :
    (∀ name, rustIdent name = true → symOk name = true ∧ kwOk name = true) ∧
    (∀ cs, wf (.psym cs) = true → cs ≠ [46] → symOk cs = true) ∧
    (∀ cs, wf (.pkw cs) = true → cs ≠ [46] → kwOk cs = true) :=
  ⟨fun name h => ⟨symOk_of_asciiIdent name (rustIdent_asciiIdent name h),
      kwOk_of_symOk name (symOk_of_asciiIdent name (rustIdent_asciiIdent name h))⟩,
    symOk_of_punct, kwOk_of_punct⟩

/-! ### Instances -/

/-- `(define (f + <= ... ->) #:a :b #:"c-d" -5 (1 2 . (3 . ())) (x . y) #("hi" 'z' #t #nil))`:
    a nested tree with symbols, punctuation symbols, keywords in three macro spellings, a negative
    integer, a dotted list with a list tail (merged in the text), a dotted pair, a vector -/
def textDoc : Doc :=
  .list [.sym (asc "define"),
    .list [.sym (asc "f"), .psym (asc "+"), .psym (asc "<="), .psym (asc "..."), .psym (asc "->")],
    .kw (asc "a"), .ckw (asc "b"), .qkw (asc "c-d") (asc "c-d"), .negInt 5,
    .dotted [.int 1, .int 2] (.dotted [.int 3] (.list [])),
    .dotted [.sym (asc "x")] (.sym (asc "y")),
    .vec [.str (asc "hi") (asc "hi"), .chr 122, .tru, .nil]]

theorem textDoc_wf : WF textDoc := by decide
theorem textDoc_ok : TextOK textDoc := by decide
theorem textDoc_text : stext textDoc =
    asc "(define (f + <= ... ->) #:a #:b #:c-d -5 (1 2 3) (x . y) #(\"hi\" #\\z #t #nil))" := by
  decide

example (env : Tok → Value) (ryu : Nat → List UInt8) :
    stext textDoc = Print.text Print.Options.default ryu (valueOf env textDoc) :=
  stext_eq_print env ryu textDoc textDoc_ok

example (env : Tok → Value) : AllSupported (valueOf env textDoc) := C09_supported env _ textDoc_ok

example (env : Tok → Value) : nesting (valueOf env textDoc) = 2 :=
  (C09_nesting env _ textDoc_ok).trans (by decide)

example (env : Tok → Value) (cfg : Parse.Cfg) (ho : cfg.opts = Parse.Options.default) :
    ∃ s', Parse.fromTrait cfg (Parse.initSt .slice (stext textDoc)) = .ok (valueOf env textDoc) s' ∧
      s'.rd.rest = [] ∧ s'.depth = 128 :=
  C09_text env cfg ho textDoc textDoc_ok (by decide)

example (env : Tok → Value) (cfg : Parse.Cfg) (ho : cfg.opts = Parse.Options.default) :
    expand env (toks textDoc) = some (valueOf env textDoc) ∧
      ∃ s', Parse.fromTrait cfg (Parse.initSt .slice (stext textDoc)) = .ok (valueOf env textDoc) s' ∧
        s'.rd.rest = [] ∧ s'.depth = 128 :=
  C09_agree env cfg ho textDoc textDoc_wf textDoc_ok (by decide) (by decide)

example (env : Tok → Value) (cfg : Parse.Cfg) (ho : cfg.opts = Parse.Options.default) :
    expand env (toks textDoc) = some (valueOf env textDoc) ∧
      ∃ s', Parse.fromTrait cfg (Parse.initSt .slice (stext textDoc)) = .ok (valueOf env textDoc) s' ∧
        s'.rd.rest = [] ∧ s'.depth = 128 :=
  C09_agree_small env cfg ho textDoc textDoc_wf textDoc_ok
    (by rw [C09_nesting env _ textDoc_ok]; decide) (by decide)

/-- `(a . (b c))`: the literal text, the merged text, and the common value `(a b c)` -/
def tailDoc : Doc := .dotted [.sym (asc "a")] (.list [.sym (asc "b"), .sym (asc "c")])

example : rtext tailDoc = asc "(a . (b c))" ∧ stext tailDoc = asc "(a b c)" ∧
    rnest tailDoc = 2 ∧ dnest tailDoc = 1 := by decide

example (env : Tok → Value) (cfg : Parse.Cfg) (ho : cfg.opts = Parse.Options.default) :
    ∃ s', Parse.fromTrait cfg (Parse.initSt .slice (rtext tailDoc)) =
        .ok (Value.list [.symbol (asc "a"), .symbol (asc "b"), .symbol (asc "c")]) s' ∧
      s'.rd.rest = [] ∧ s'.depth = 128 :=
  C09_text_literal env cfg ho tailDoc (by decide) (by decide)

example : RawOK textDoc ∧ rtext textDoc =
    asc "(define (f + <= ... ->) #:a #:b #:c-d -5 (1 2 . (3 . ())) (x . y) #(\"hi\" #\\z #t #nil))" := by
  decide

example (env : Tok → Value) (cfg : Parse.Cfg) (ho : cfg.opts = Parse.Options.default) :
    expand env (toks textDoc) = some (valueOf env textDoc) ∧
      ∃ s', Parse.fromTrait cfg (Parse.initSt .slice (rtext textDoc)) = .ok (valueOf env textDoc) s' ∧
        s'.rd.rest = [] ∧ s'.depth = 128 :=
  C09_agree_literal env cfg ho textDoc textDoc_wf (by decide) (by decide) (by decide)

/-- `(-0 . (-0))`: read as `(0 0)` -/
example (env : Tok → Value) (cfg : Parse.Cfg) (ho : cfg.opts = Parse.Options.default) :
    ∃ s', Parse.fromTrait cfg (Parse.initSt .slice (asc "(-0 . (-0))")) =
        .ok (Value.list [.number (.pos 0), .number (.pos 0)]) s' ∧ s'.rd.rest = [] ∧ s'.depth = 128 :=
  C09_text_literal env cfg ho (.dotted [.negInt 0] (.list [.negInt 0])) (by decide) (by decide)

example : TextOK tailDoc ∧ RawOK tailDoc := RawOKStrict_TextOK tailDoc (by decide)

example : symOk (asc "list_of_2") = true ∧ kwOk (asc "_x") = true ∧ symOk (asc "<=>") = true ∧
    symOk (asc "+.") = true ∧ kwOk (asc "->") = true :=
  ⟨(C09_names.1 _ (by decide)).1, (C09_names.1 _ (by decide)).2,
    C09_names.2.1 _ (by decide) (by decide), C09_names.2.1 _ (by decide) (by decide),
    C09_names.2.2 _ (by decide) (by decide)⟩

#print axioms stext_eq_print
#print axioms C09_supported
#print axioms C09_nesting
#print axioms C09_text
#print axioms C09_agree
#print axioms C09_agree_small
#print axioms C09_text_literal
#print axioms C09_agree_literal
#print axioms RawOKStrict_TextOK
#print axioms C09_names
#print axioms stext_ne_print_witness
#print axioms empty_front_witness
#print axioms lone_dot_witness
#print axioms literal_depth_witness

end Macro
end Lexpr
