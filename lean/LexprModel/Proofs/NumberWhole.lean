/-
  C08 — "a token is read as a number only if the whole token is a numeric literal":

    `C08_number_whole_token` : whenever `parse_token` returns a number — for ANY input, option set
    (`cfg.opts`), build, source mode and reader state whose next byte is the peeked byte `pk` —
    the bytes it consumed, `w` with `s.rd.rest = w ++ s'.rd.rest`, are a numeric literal of the C05
    grammar (`Spec.numericLiteralShape w = true`, Spec/NumericLiteral.lean), and the reader stopped
    at the end of input or in front of a delimiter (`C08_number_delimited`);
    `C08_number_is_token` : so `w` is exactly the token, the maximal delimiter-free run at the head
    of the input.

  This covers the three number-producing paths of `parse_token`: `#b #o #d #x` (`parse_radix_token`),
  the sign arms and the digit arm (`parse_num_token`), and — under leading-digit symbols — the path
  where the token is first read as a symbol and its copy is re-read by the sub-parser
  (`wholeNumber`): there the consumed bytes are the symbol's bytes, and the sub-parser succeeded on
  the whole copy.  The scanners are in `NumberWholeBase.lean`.
-/
import LexprModel.Proofs.NumberWholeBase
namespace Lexpr
namespace Parse
namespace C08
open Spec

/-! ### from the decomposition of the consumed bytes to the recogniser -/

theorem expMark_not_digit10 : ∀ b : UInt8, isExpMark b = true → isRadixDigit 10 b = false := by
  apply byte_forall; decide +kernel

theorem digit10_not_hash : ∀ b : UInt8, isRadixDigit 10 b = true → (b == 35) = false := by
  apply byte_forall; decide +kernel

theorem fraction_noExp {fr : List UInt8} (h : fractionPart fr = true) :
    fr.all (fun c => !isExpMark c) = true ∧ ∃ r, fr = 46 :: r := by
  cases fr with
  | nil => cases h
  | cons c r =>
    simp only [fractionPart, digits1, Bool.and_eq_true, beq_iff_eq] at h
    obtain ⟨rfl, _, hall⟩ := h
    refine ⟨?_, r, rfl⟩
    rw [List.all_cons]
    simp only [Bool.and_eq_true]
    refine ⟨by decide, ?_⟩
    rw [List.all_eq_true] at hall ⊢
    intro x hx
    simp [digit_not_expMark x (hall x hx)]

theorem exponent_head {ex : List UInt8} (h : exponentPart ex = true) :
    ∃ e r, ex = e :: r ∧ isExpMark e = true := by
  cases ex with
  | nil => cases h
  | cons e r =>
    simp only [exponentPart, Bool.and_eq_true] at h
    exact ⟨e, r, rfl, h.1⟩

/-- a tail is empty, or the radix is 10 and it is `[fraction][exponent]` -/
theorem tailW_suffix {radix : Nat} {t : List UInt8} (h : TailW radix t) :
    t = [] ∨ (radix = 10 ∧ decimalSuffix t = true ∧
      ∃ b bs, t = b :: bs ∧ isRadixDigit 10 b = false) := by
  obtain ⟨fr, ex, rfl, hfr, hex, hrad⟩ := h
  by_cases hnil : fr ++ ex = []
  · exact .inl hnil
  · refine .inr ⟨hrad hnil, ?_, ?_⟩
    · have hfa : fr.all (fun c => !isExpMark c) = true := by
        rcases hfr with rfl | hfr
        · rfl
        · exact (fraction_noExp hfr).1
      have hexh : ∀ b bs, ex = b :: bs → (fun c => !isExpMark c) b = false := by
        intro b bs hb
        rcases hex with rfl | hex
        · cases hb
        · obtain ⟨e, r, he, hm⟩ := exponent_head hex
          rw [he] at hb
          cases hb
          simp [hm]
      unfold decimalSuffix
      simp only [takeWhile_run _ fr ex hfa hexh, dropWhile_run _ fr ex hfa hexh]
      rcases hfr with rfl | hfr <;> rcases hex with rfl | hex <;> simp_all
    · rcases hfr with rfl | hfr
      · rcases hex with rfl | hex
        · exact absurd rfl hnil
        · obtain ⟨e, r, he, hm⟩ := exponent_head hex
          exact ⟨e, r, by simp [he], expMark_not_digit10 e hm⟩
      · obtain ⟨_, r, rfl⟩ := fraction_noExp hfr
        exact ⟨46, r ++ ex, rfl, by decide⟩

theorem dOk_radix {radix : Nat} (hr : radix = 2 ∨ radix = 8 ∨ radix = 10 ∨ radix = 16) :
    dOk radix = isRadixDigit radix := by
  funext b
  rcases hr with rfl | rfl | rfl | rfl
  · exact dOk_2 b
  · exact dOk_8 b
  · exact dOk_10 b
  · exact dOk_16 b

/-- `digit(radix)+ tail` is an `unsigned(radix)` -/
theorem unsignedShape_of_body {radix : Nat} (hr : radix = 2 ∨ radix = 8 ∨ radix = 10 ∨ radix = 16)
    {w : List UInt8} (h : BodyW radix w) : unsignedShape radix w = true := by
  obtain ⟨ds, t, rfl, hne, hall, ht⟩ := h
  rw [dOk_radix hr] at hall
  have hth : ∀ b bs, t = b :: bs → isRadixDigit radix b = false := by
    intro b bs hb
    rcases tailW_suffix ht with h0 | ⟨h10, _, b', bs', hb', hnd⟩
    · rw [h0] at hb; cases hb
    · rw [hb'] at hb
      cases hb
      rw [h10]; exact hnd
  unfold unsignedShape
  simp only [takeWhile_run _ ds t hall hth, dropWhile_run _ ds t hall hth]
  have h1 : ds.isEmpty = false := by cases ds <;> simp_all
  rcases tailW_suffix ht with h0 | ⟨h10, hsuf, _⟩
  · simp [h1, h0]
  · simp [h1, h10, hsuf]

theorem body_head {radix : Nat} (hr : radix = 2 ∨ radix = 8 ∨ radix = 10 ∨ radix = 16)
    {w : List UInt8} (h : BodyW radix w) : ∃ d r, w = d :: r ∧ isRadixDigit radix d = true := by
  obtain ⟨ds, t, rfl, hne, hall, _⟩ := h
  rw [dOk_radix hr] at hall
  cases ds with
  | nil => exact absurd rfl hne
  | cons d r =>
    simp only [List.all_cons, Bool.and_eq_true] at hall
    exact ⟨d, r ++ t, rfl, hall.1⟩

/-- `[sign] digit(radix)+ tail` is a `[sign] unsigned(radix)` -/
theorem signedShape_of {radix : Nat} (hr : radix = 2 ∨ radix = 8 ∨ radix = 10 ∨ radix = 16)
    {sg w : List UInt8} (hsg : sg = [] ∨ sg = [43] ∨ sg = [45]) (h : BodyW radix w) :
    signedShape radix (sg ++ w) = true := by
  have hd : dropSign (sg ++ w) = w := by
    rcases hsg with rfl | rfl | rfl
    · obtain ⟨d, r, rfl, hdg⟩ := body_head hr h
      simp [dropSign, radixDigit_not_sign radix d hdg]
    · simp [dropSign]
    · simp [dropSign]
  unfold signedShape
  rw [hd]
  exact unsignedShape_of_body hr h

theorem radixOfMark_some {c : UInt8} {radix : Nat} (h : radixOfMark c = some radix) :
    radix = 2 ∨ radix = 8 ∨ radix = 10 ∨ radix = 16 := by
  unfold radixOfMark at h
  split at h
  · cases h; simp
  · split at h
    · cases h; simp
    · split at h
      · cases h; simp
      · split at h
        · cases h; simp
        · cases h

/-- `#` mark `[sign] unsigned(radix)` -/
theorem shape_hash {c : UInt8} {radix : Nat} (hm : radixOfMark c = some radix) {sg w : List UInt8}
    (hsg : sg = [] ∨ sg = [43] ∨ sg = [45]) (h : BodyW radix w) :
    numericLiteralShape (35 :: c :: (sg ++ w)) = true := by
  simp only [numericLiteralShape, beq_self_eq_true, ↓reduceIte, hm]
  exact signedShape_of (radixOfMark_some hm) hsg h

/-- no mark: `[sign] unsigned(10)` -/
theorem shape_plain {sg w : List UInt8} (hsg : sg = [] ∨ sg = [43] ∨ sg = [45]) (h : BodyW 10 w) :
    numericLiteralShape (sg ++ w) = true := by
  have hs := signedShape_of (radix := 10) (by simp) hsg h
  obtain ⟨d, r, rfl, hdg⟩ := body_head (radix := 10) (by simp) h
  have hd35 : (d == 35) = false := digit10_not_hash d hdg
  unfold numericLiteralShape
  split
  · rename_i h' c r' heq
    have hh : (h' == 35) = false := by
      rcases hsg with rfl | rfl | rfl
      · simp only [List.nil_append, List.cons.injEq] at heq
        rw [← heq.1]; exact hd35
      · simp only [List.cons_append, List.nil_append, List.cons.injEq] at heq
        rw [← heq.1]; decide
      · simp only [List.cons_append, List.nil_append, List.cons.injEq] at heq
        rw [← heq.1]; decide
    simp only [hh, Bool.false_eq_true, ↓reduceIte]
    exact hs
  · exact hs

/-! ### the token level -/

theorem parseNumToken_eats {cfg : Cfg} {fuel : Nat} {pos : Bool} {s s' : St} {n : Number}
    (h : parseNumToken cfg fuel pos s = .ok n s') :
    ∃ w, s.rd.rest = w ++ s'.rd.rest ∧ BodyW 10 w := by
  unfold parseNumToken at h
  obtain ⟨m, s1, h1, h2⟩ := bind_ok' h
  obtain ⟨w, hw, hb⟩ := parseNumLiteral_eats h1
  exact ⟨w, by rw [hw, (expectNumberEnd_ok h2).2.1], hb⟩

theorem parseRadixToken_eats {cfg : Cfg} {fuel radix : Nat} {s s' : St} {n : Number}
    (h : parseRadixToken cfg fuel radix s = .ok n s') :
    ∃ sg w, s.rd.rest = sg ++ w ++ s'.rd.rest ∧ (sg = [] ∨ sg = [43] ∨ sg = [45]) ∧
      BodyW radix w := by
  unfold parseRadixToken at h
  obtain ⟨m, s1, h1, h2⟩ := bind_ok' h
  obtain ⟨sg, w, hw, hsg, hb⟩ := parseRadixLiteral_eats h1
  exact ⟨sg, w, by rw [hw, (expectNumberEnd_ok h2).2.1], hsg, hb⟩

/-- the arms of `parse_token` that never give a number -/
structure NoNum (m : P Token) : Prop where
  ok : ∀ s n s', m s ≠ .ok (.number n) s'

theorem NoNum.pure_other {t : Token} (h : ∀ n, t ≠ .number n) : NoNum (pure t) := by
  constructor
  intro s n s' hr
  simp only [pure_apply, Res.ok.injEq] at hr
  exact absurd hr.1 (h n)
theorem NoNum.bind {α : Type} {m : P α} {f : α → P Token} (hf : ∀ a, NoNum (f a)) :
    NoNum (m >>= f) := by
  constructor
  intro s n s' hr
  obtain ⟨a, s1, _, h2⟩ := bind_ok' hr
  exact (hf a).ok s1 n s' h2
theorem NoNum.ite {c : Prop} [Decidable c] {f g : P Token} (hf : NoNum f) (hg : NoNum g) :
    NoNum (if c then f else g) := by
  split <;> assumption
theorem NoNum.peekErr (c : Code) : NoNum (peekErr c) := ⟨fun _ _ _ h => by cases h⟩
theorem NoNum.panicAt (p : Site) : NoNum (panicAt p) := ⟨fun _ _ _ h => by cases h⟩
theorem NoNum.rawErr (e : Err) : NoNum (fun s' => Res.err e s') := ⟨fun _ _ _ h => by cases h⟩
theorem noNum_symbolToken (o : Options) (name : List UInt8) :
    NoNum (Pure.pure (Parse.symbolToken o name)) := by
  apply NoNum.pure_other
  intro n
  rcases symbolToken_cases o name with h | h <;> rw [h] <;> intro e <;> cases e

/-- close an arm that cannot give a number -/
macro "nonum" : tactic => `(tactic|
  repeat' (first
    | exact noNum_symbolToken _ _ | exact NoNum.peekErr _ | exact NoNum.panicAt _
    | exact NoNum.rawErr _
    | exact NoNum.pure_other (by intro n h; cases h)
    | apply NoNum.bind | apply NoNum.ite | intro _ | split))

theorem noNum_parseSignDotSymbol (cfg : Cfg) (pfx : List UInt8) :
    NoNum (parseSignDotSymbol cfg pfx) := by
  simp only [Parse.parseSignDotSymbol]
  nonum

/-- the `+` / `-` arms: the sign, then `parse_num_token` -/
theorem parseSignToken_eats {cfg : Cfg} {fuel : Nat} {sign : UInt8} {pos : Bool} {s s' : St}
    {n : Number} (h : parseSignToken cfg fuel sign pos s = .ok (.number n) s') :
    ∃ b w, s.rd.rest = b :: (w ++ s'.rd.rest) ∧ BodyW 10 w := by
  unfold parseSignToken at h
  obtain ⟨u, s1, hd, h⟩ := bind_ok' h
  obtain ⟨b, hb⟩ := discard_rest hd
  obtain ⟨nxt, s2, hp, h⟩ := bind_ok' h
  split at h
  · exact absurd h (NoNum.ok (by nonum) _ _ _)
  · split at h
    · exact absurd h ((noNum_parseSignDotSymbol _ _).ok _ _ _)
    · obtain ⟨m, s3, hn, h⟩ := bind_ok' h
      simp only [pure_apply, Res.ok.injEq] at h
      rw [h.2] at hn
      obtain ⟨w, hw, hbw⟩ := parseNumToken_eats hn
      exact ⟨b, w, by rw [hb, ← (peekOrNull_rest hp).1, hw], hbw⟩

theorem parseSymbolBytes_rest {sc name : List UInt8} {s s' : St}
    (h : parseSymbolBytes sc s = .ok name s') :
    s'.rd.rest = s.rd.rest.drop (symLen s.rd.mode s.rd.rest) := by
  unfold parseSymbolBytes at h
  simp only [bind_apply, getRest_eq, getMode_eq, consumeN_eq] at h
  cases hp : peek (s.adv (symLen s.rd.mode s.rd.rest)) with
  | ok o s1 =>
    rw [hp] at h
    obtain ⟨_, hr, _⟩ := peek_ok hp
    have hs' : s' = s1 := by
      simp only at h
      split at h
      · simp [errAt] at h
      · split at h
        · simp only [pure_apply, Res.ok.injEq] at h; exact h.2.symm
        · split at h
          · simp only [pure_apply, Res.ok.injEq] at h; exact h.2.symm
          · split at h <;> simp [errAt] at h
    subst hs'
    rw [hr, adv_rest]
  | err e s1 => rw [hp] at h; cases h
  | panic p => rw [hp] at h; cases h
  | fuel => rw [hp] at h; cases h

/-- the sub-parser of the leading-digit path accepted the copy: the copy is a decimal literal -/
theorem wholeNumber_body {cfg : Cfg} {sym : List UInt8} {n : Number}
    (h : wholeNumber cfg sym = some n) : BodyW 10 sym := by
  unfold wholeNumber at h
  simp only at h
  cases hl : parseNumLiteral cfg (sym.length + 1) 10 true
      { rd := { mode := .slice, rest := sym } } with
  | ok m s1 =>
    rw [hl] at h
    obtain ⟨w, hw, hb⟩ := parseNumLiteral_eats hl
    by_cases he : s1.rd.rest.isEmpty = true
    · have : s1.rd.rest = [] := by simpa using he
      rw [this] at hw
      simp only [List.append_nil] at hw
      rw [hw]; exact hb
    · simp [he] at h
  | err e s1 => rw [hl] at h; cases h
  | panic p => rw [hl] at h; cases h
  | fuel => rw [hl] at h; cases h

/-- the leading-digit path: the symbol's bytes are consumed, and they are a decimal literal -/
theorem leadingDigitArm_eats {cfg : Cfg} {s s' : St} {n : Number}
    (h : (parseSymbolBytes [] >>= fun sym =>
          match wholeNumber cfg sym with
          | some n => (pure (.number n) : P Token)
          | none => pure (symbolToken cfg.opts sym)) s = .ok (.number n) s') :
    ∃ w, s.rd.rest = w ++ s'.rd.rest ∧ BodyW 10 w := by
  obtain ⟨sym, s1, hs, h⟩ := bind_ok' h
  have hst := wholeArm_pure cfg sym s1 _ s' h
  subst hst
  cases hw : wholeNumber cfg sym with
  | none =>
    rw [hw] at h
    exact absurd h ((noNum_symbolToken _ _).ok _ _ _)
  | some m =>
    have hname := parseSymbolBytes_name hs
    have hrest := parseSymbolBytes_rest hs
    refine ⟨sym, ?_, wholeNumber_body hw⟩
    rw [hname, hrest]
    simp only [List.nil_append, tokenText]
    exact (List.take_append_drop _ _).symm

theorem ite_ok {α : Type} {c : Prop} [Decidable c] {A B : P α} {s s' : St} {a : α}
    (h : (if c then A else B) s = .ok a s') : (c ∧ A s = .ok a s') ∨ (¬c ∧ B s = .ok a s') := by
  split at h
  · exact .inl ⟨‹_›, h⟩
  · exact .inr ⟨‹_›, h⟩

/-- **the consumed bytes of a number token are a numeric literal** (every option set, build, mode
    and state whose next byte is `pk`) -/
theorem parseToken_number_shape (cfg : Cfg) (fuel : Nat) (pk : UInt8) (tl : List UInt8) (s s' : St)
    (n : Number) (hr : s.rd.rest = pk :: tl)
    (h : parseToken cfg fuel pk s = .ok (.number n) s') :
    ∃ w, s.rd.rest = w ++ s'.rd.rest ∧ numericLiteralShape w = true := by
  unfold parseToken at h
  rcases ite_ok h with ⟨hpk, h⟩ | ⟨_, h⟩
  · -- '#'
    have hpk' : pk = 35 := by simpa using hpk
    obtain ⟨u, s1, hd, h⟩ := bind_ok' h
    obtain ⟨b, hb⟩ := discard_rest hd
    have hb35 : b = 35 := by
      rw [hr] at hb
      simp only [List.cons.injEq] at hb
      rw [← hb.1, hpk']
    subst hb35
    obtain ⟨o, s2, hn, h⟩ := bind_ok' h
    cases o with
    | none => simp [peekErr] at h
    | some c =>
      simp only at h
      have hc := next_rest hn
      have radixArm : ∀ radix, radixOfMark c = some radix →
          (parseRadixToken cfg fuel radix >>= fun n => (pure (.number n) : P Token)) s2 =
            .ok (.number n) s' →
          ∃ w, s.rd.rest = w ++ s'.rd.rest ∧ numericLiteralShape w = true := by
        intro radix hm hh
        obtain ⟨m, s3, h3, hh⟩ := bind_ok' hh
        simp only [pure_apply, Res.ok.injEq] at hh
        rw [hh.2] at h3
        obtain ⟨sg, w, hw, hsg, hbw⟩ := parseRadixToken_eats h3
        exact ⟨35 :: c :: (sg ++ w), by rw [hb, hc, hw]; simp, shape_hash hm hsg hbw⟩
      iterate 7 (
        rcases ite_ok h with ⟨_, h⟩ | ⟨_, h⟩
        · exact absurd h (NoNum.ok (by nonum) _ _ _))
      rcases ite_ok h with ⟨hc98, h⟩ | ⟨hc98, h⟩
      · exact radixArm 2 (by simp [radixOfMark, hc98]) h
      rcases ite_ok h with ⟨hc111, h⟩ | ⟨hc111, h⟩
      · exact radixArm 8 (by simp [radixOfMark, hc98, hc111]) h
      rcases ite_ok h with ⟨hc100, h⟩ | ⟨hc100, h⟩
      · exact radixArm 10 (by simp [radixOfMark, hc98, hc111, hc100]) h
      rcases ite_ok h with ⟨hc120, h⟩ | ⟨hc120, h⟩
      · exact radixArm 16 (by simp [radixOfMark, hc98, hc111, hc100, hc120]) h
      · exact absurd h (NoNum.ok (by nonum) _ _ _)
  rcases ite_ok h with ⟨hpk, h⟩ | ⟨_, h⟩
  · -- '-'
    obtain ⟨b, w, hw, hbw⟩ := parseSignToken_eats h
    have hb : b = 45 := by
      rw [hr] at hw
      simp only [List.cons.injEq] at hw
      rw [← hw.1]; simpa using hpk
    subst hb
    exact ⟨[45] ++ w, by rw [hw]; simp, shape_plain (.inr (.inr rfl)) hbw⟩
  rcases ite_ok h with ⟨hpk, h⟩ | ⟨_, h⟩
  · -- '+'
    obtain ⟨b, w, hw, hbw⟩ := parseSignToken_eats h
    have hb : b = 43 := by
      rw [hr] at hw
      simp only [List.cons.injEq] at hw
      rw [← hw.1]; simpa using hpk
    subst hb
    exact ⟨[43] ++ w, by rw [hw]; simp, shape_plain (.inr (.inl rfl)) hbw⟩
  rcases ite_ok h with ⟨_, h⟩ | ⟨_, h⟩
  · -- a digit
    rcases ite_ok h with ⟨_, h⟩ | ⟨_, h⟩
    · obtain ⟨w, hw, hbw⟩ := leadingDigitArm_eats h
      exact ⟨w, hw, by simpa using shape_plain (.inl rfl) hbw⟩
    · obtain ⟨m, s3, hn, h⟩ := bind_ok' h
      simp only [pure_apply, Res.ok.injEq] at h
      rw [h.2] at hn
      obtain ⟨w, hw, hbw⟩ := parseNumToken_eats hn
      exact ⟨w, hw, by simpa using shape_plain (.inl rfl) hbw⟩
  · exact absurd h (NoNum.ok (by nonum) _ _ _)

/-! ### a numeric literal contains no delimiter, so it is the whole token -/

/-- no byte of `w` is a delimiter -/
def nonDelim (w : List UInt8) : Bool := w.all (fun b => !isDelimiter b)

theorem nonDelim_of_all {p : UInt8 → Bool} (hp : ∀ b, p b = true → isDelimiter b = false)
    {w : List UInt8} (h : w.all p = true) : nonDelim w = true := by
  unfold nonDelim
  rw [List.all_eq_true] at h ⊢
  intro x hx
  simp [hp x (h x hx)]

theorem nonDelim_append {a b : List UInt8} (ha : nonDelim a = true) (hb : nonDelim b = true) :
    nonDelim (a ++ b) = true := by
  unfold nonDelim at *
  rw [List.all_append, ha, hb]; rfl

theorem digit_nonDelim : ∀ b : UInt8, isDigit b = true → isDelimiter b = false := by
  apply byte_forall; decide +kernel

theorem radixDigit_nonDelim (radix : Nat) : ∀ b : UInt8, isRadixDigit radix b = true →
    isDelimiter b = false := by
  unfold isRadixDigit
  split
  · apply byte_forall; decide +kernel
  · split
    · apply byte_forall; decide +kernel
    · split
      · apply byte_forall; decide +kernel
      · apply byte_forall; decide +kernel

theorem expMark_nonDelim : ∀ b : UInt8, isExpMark b = true → isDelimiter b = false := by
  apply byte_forall; decide +kernel

theorem dropSign_nonDelim {w : List UInt8} (h : nonDelim (dropSign w) = true) :
    nonDelim w = true := by
  cases w with
  | nil => rfl
  | cons c r =>
    by_cases hc : (c == 43 || c == 45) = true
    · simp only [dropSign, hc, ↓reduceIte] at h
      have hcd : isDelimiter c = false := by
        simp only [Bool.or_eq_true, beq_iff_eq] at hc
        rcases hc with rfl | rfl <;> decide
      unfold nonDelim at *
      simp only [List.all_cons, hcd, h, Bool.not_false, Bool.and_self]
    · simp only [dropSign, hc, Bool.false_eq_true, ↓reduceIte] at h
      exact h

theorem digits1_nonDelim {w : List UInt8} (h : digits1 isDigit w = true) : nonDelim w = true := by
  simp only [digits1, Bool.and_eq_true] at h
  exact nonDelim_of_all digit_nonDelim h.2

theorem exponentPart_nonDelim {ex : List UInt8} (h : exponentPart ex = true) :
    nonDelim ex = true := by
  cases ex with
  | nil => rfl
  | cons c r =>
    simp only [exponentPart, Bool.and_eq_true] at h
    have h2 := dropSign_nonDelim (digits1_nonDelim h.2)
    unfold nonDelim at *
    simp [expMark_nonDelim c h.1, h2]

theorem fractionPart_nonDelim {fr : List UInt8} (h : fractionPart fr = true) :
    nonDelim fr = true := by
  cases fr with
  | nil => rfl
  | cons c r =>
    simp only [fractionPart, Bool.and_eq_true, beq_iff_eq] at h
    obtain ⟨rfl, h2⟩ := h
    have h2 := digits1_nonDelim h2
    unfold nonDelim at *
    simp only [List.all_cons, h2, Bool.and_true]
    decide

theorem decimalSuffix_nonDelim {t : List UInt8} (h : decimalSuffix t = true) :
    nonDelim t = true := by
  unfold decimalSuffix at h
  simp only [Bool.and_eq_true, Bool.or_eq_true] at h
  rw [← List.takeWhile_append_dropWhile (p := fun c => !isExpMark c) (l := t)]
  apply nonDelim_append
  · rcases h.1 with h1 | h1
    · have : List.takeWhile (fun c => !isExpMark c) t = [] := by simpa using h1
      rw [this]; rfl
    · exact fractionPart_nonDelim h1
  · rcases h.2 with h1 | h1
    · have : List.dropWhile (fun c => !isExpMark c) t = [] := by simpa using h1
      rw [this]; rfl
    · exact exponentPart_nonDelim h1

theorem unsignedShape_nonDelim {radix : Nat} {w : List UInt8} (h : unsignedShape radix w = true) :
    nonDelim w = true := by
  unfold unsignedShape at h
  simp only [Bool.and_eq_true, Bool.or_eq_true] at h
  rw [← List.takeWhile_append_dropWhile (p := isRadixDigit radix) (l := w)]
  apply nonDelim_append
  · exact nonDelim_of_all (radixDigit_nonDelim radix) (all_takeWhile _ _)
  · rcases h.2 with h1 | h1
    · have : List.dropWhile (isRadixDigit radix) w = [] := by simpa using h1
      rw [this]; rfl
    · exact decimalSuffix_nonDelim h1.2

theorem signedShape_nonDelim {radix : Nat} {w : List UInt8} (h : signedShape radix w = true) :
    nonDelim w = true := dropSign_nonDelim (unsignedShape_nonDelim h)

/-- a numeric literal contains no delimiter -/
theorem numericLiteralShape_nonDelim {w : List UInt8} (h : numericLiteralShape w = true) :
    nonDelim w = true := by
  unfold numericLiteralShape at h
  split at h
  · rename_i h' c r
    split at h
    · rename_i hh
      have hh' : h' = 35 := by simpa using hh
      subst hh'
      cases hm : radixOfMark c with
      | none => rw [hm] at h; cases h
      | some radix =>
        rw [hm] at h
        have h2 := signedShape_nonDelim h
        have hcd : isDelimiter c = false := by
          unfold radixOfMark at hm
          split at hm
          · rename_i hc; have : c = 98 := by simpa using hc
            subst this; decide
          · split at hm
            · rename_i hc; have : c = 111 := by simpa using hc
              subst this; decide
            · split at hm
              · rename_i hc; have : c = 100 := by simpa using hc
                subst this; decide
              · split at hm
                · rename_i hc; have : c = 120 := by simpa using hc
                  subst this; decide
                · cases hm
        unfold nonDelim at *
        simp only [List.all_cons, hcd, h2, Bool.and_true, Bool.not_false]
        decide
    · exact signedShape_nonDelim h
  · exact signedShape_nonDelim h

/-- a delimiter-free `w` followed by the end of input or a delimiter is the maximal
    delimiter-free run -/
theorem token_of_nonDelim {l w r : List UInt8} (hl : l = w ++ r) (hw : nonDelim w = true)
    (hr : r = [] ∨ ∃ b bs, r = b :: bs ∧ isDelimiter b = true) :
    l.takeWhile (fun b => !isDelimiter b) = w ∧ l.dropWhile (fun b => !isDelimiter b) = r := by
  have hrh : ∀ b bs, r = b :: bs → (fun b => !isDelimiter b) b = false := by
    intro b bs hb
    rcases hr with h0 | ⟨b', bs', hb', hd⟩
    · rw [h0] at hb; cases hb
    · rw [hb'] at hb; cases hb; simp [hd]
  subst hl
  exact ⟨takeWhile_run _ w r hw hrh, dropWhile_run _ w r hw hrh⟩

end C08

open C08 Spec

/-- **C08_number_whole_token** — "a token is read as a number only if the whole token is a
    numeric literal": whenever `parse_token` returns a number — whatever the input, the option
    set `cfg.opts`, the build, the source mode and the reader state, provided the next byte of
    the input is the byte `pk` the caller has peeked (`hr`; `parse_whitespace` returns exactly
    that byte) — the bytes it consumed, `w` with `s.rd.rest = w ++ s'.rd.rest` (the first byte of
    `w` is `pk`), are a numeric literal of the C05 grammar
    (`numericLiteralShape`: optional `#b #o #d #x`, optional sign, digits of the radix, and for
    radix 10 an optional `.digits` and an optional exponent), and the reader is then at the end
    of input or in front of a delimiter. -/
theorem C08_number_whole_token (cfg : Cfg) (fuel : Nat) (pk : UInt8) (tl : List UInt8) (s s' : St)
    (n : Number) (hr : s.rd.rest = pk :: tl)
    (h : parseToken cfg fuel pk s = .ok (.number n) s') :
    ∃ w, s.rd.rest = w ++ s'.rd.rest ∧ numericLiteralShape w = true ∧
      (s'.rd.rest = [] ∨ ∃ b bs, s'.rd.rest = b :: bs ∧ isDelimiter b = true) := by
  obtain ⟨w, hw, hs⟩ := parseToken_number_shape cfg fuel pk tl s s' n hr h
  exact ⟨w, hw, hs, C08_number_delimited cfg fuel pk s s' n h⟩

/-- **C08_number_is_token** — the same, in terms of the token: when `parse_token` returns a
    number, the TOKEN at the head of the input — the maximal run of non-delimiter bytes — is a
    numeric literal, and it is exactly what has been consumed. -/
theorem C08_number_is_token (cfg : Cfg) (fuel : Nat) (pk : UInt8) (tl : List UInt8) (s s' : St)
    (n : Number) (hr : s.rd.rest = pk :: tl)
    (h : parseToken cfg fuel pk s = .ok (.number n) s') :
    numericLiteralShape (s.rd.rest.takeWhile (fun b => !isDelimiter b)) = true ∧
      s'.rd.rest = s.rd.rest.dropWhile (fun b => !isDelimiter b) := by
  obtain ⟨w, hw, hs, hd⟩ := C08_number_whole_token cfg fuel pk tl s s' n hr h
  obtain ⟨h1, h2⟩ := token_of_nonDelim hw (numericLiteralShape_nonDelim hs) hd
  rw [h1, h2]
  exact ⟨hs, rfl⟩

/-- the hypothesis `hr` holds where `parse_token` is called (`next_value`, `next_datum`, the list
    and vector readers): `pk` is the byte `parse_whitespace` has just peeked, the first byte of
    the input that is left -/
theorem parseWhitespace_peeked {s s1 : St} {pk : UInt8}
    (h : parseWhitespace s = .ok (some pk) s1) : ∃ tl, s1.rd.rest = pk :: tl := by
  unfold parseWhitespace at h
  simp only [bind_apply, getRest_eq, consumeN_eq] at h
  obtain ⟨h1, h2, _⟩ := peek_ok h
  rw [h2]
  cases hr : (s.adv (wsLen s.rd.rest)).rd.rest with
  | nil => rw [hr] at h1; cases h1
  | cons b tl =>
    rw [hr] at h1
    simp only [List.head?_cons, Option.some.injEq] at h1
    exact ⟨tl, by rw [h1]⟩

/-- `C08_number_whole_token` at a call site: after `parse_whitespace` -/
theorem C08_number_whole_token_ws (cfg : Cfg) (fuel : Nat) (pk : UInt8) (s s1 s' : St) (n : Number)
    (hw : parseWhitespace s = .ok (some pk) s1)
    (h : parseToken cfg fuel pk s1 = .ok (.number n) s') :
    numericLiteralShape (s1.rd.rest.takeWhile (fun b => !isDelimiter b)) = true ∧
      s'.rd.rest = s1.rd.rest.dropWhile (fun b => !isDelimiter b) := by
  obtain ⟨tl, hr⟩ := parseWhitespace_peeked hw
  exact C08_number_is_token cfg fuel pk tl s1 s' n hr h

/-! ### the hypotheses are satisfiable (non-vacuity), on each number-producing path -/

/-- what is left of the input if the result is a number token -/
def numberRest (r : Res Token) : Option (List UInt8) :=
  match r with
  | .ok (.number _) s' => some s'.rd.rest
  | _ => none

theorem numberRest_some {r : Res Token} {l : List UInt8} (h : numberRest r = some l) :
    ∃ n s', r = .ok (.number n) s' ∧ s'.rd.rest = l := by
  unfold numberRest at h
  split at h
  · rename_i n s'
    exact ⟨n, s', rfl, by simpa using h⟩
  · cases h

/-- the sign arm, with a fraction and an exponent: `-12.5e3)` (both builds) -/
example : ∃ n s', parseToken (cfgOf Options.default) 9 45 (initSt .slice (asc "-12.5e3)")) =
    .ok (.number n) s' ∧ s'.rd.rest = asc ")" :=
  numberRest_some (by decide +kernel)
example : (initSt .slice (asc "-12.5e3)")).rd.rest = 45 :: asc "12.5e3)" := rfl
example : ∃ n s', parseToken { cfgOf Options.default with fast := false } 9 45
    (initSt .slice (asc "-12.5e3)")) = .ok (.number n) s' ∧ s'.rd.rest = asc ")" :=
  numberRest_some (by decide +kernel)

/-- the digit arm under the default options -/
example : ∃ n s', parseToken (cfgOf Options.default) 4 49 (initSt .slice (asc "17 x")) =
    .ok (.number n) s' ∧ s'.rd.rest = asc " x" := ⟨_, _, rfl, rfl⟩

/-- the leading-digit path (Emacs Lisp options): the token is read as a symbol, its copy is
    re-read by the sub-parser -/
example : ∃ n s', parseToken (cfgOf Options.elisp) 6 49 (initSt .io (asc "1e5 x")) =
    .ok (.number n) s' ∧ s'.rd.rest = asc " x" := ⟨_, _, rfl, rfl⟩

/-- the radix arm: `#x-1F)` -/
example : ∃ n s', parseToken (cfgOf Options.default) 7 35 (initSt .str (asc "#x-1F)")) =
    .ok (.number n) s' ∧ s'.rd.rest = asc ")" := ⟨_, _, rfl, rfl⟩

/-- the hypothesis `hr` (the next byte of the input is the peeked byte `pk`) is needed: called
    with `pk = '#'` on the input `xx5`, the model's `parse_token` discards an `x`, reads the
    second `x` as the radix mark and returns the number 5 — the consumed bytes `xx5` are not a
    numeric literal.  (The real `parse_token` peeks `pk` itself, so this state cannot arise.) -/
example : ∃ n s', parseToken (cfgOf Options.default) 4 35 (initSt .slice (asc "xx5")) =
    .ok (.number n) s' ∧ s'.rd.rest = [] ∧ numericLiteralShape (asc "xx5") = false :=
  ⟨_, _, rfl, rfl, by decide⟩

/-- `.5`, `-.5`, `1.`, `+5x`, `1+` are not number tokens (an error or a symbol), in agreement
    with the grammar -/
example : ∀ n s', parseToken (cfgOf Options.default) 4 46 (initSt .slice (asc ".5")) ≠
    .ok (.number n) s' := by
  intro n s' h
  have := (C08_number_is_token _ _ _ _ _ _ _ rfl h).1
  revert this; decide

end Parse
end Lexpr

#print axioms Lexpr.Parse.C08_number_whole_token
#print axioms Lexpr.Parse.C08_number_is_token
#print axioms Lexpr.Parse.C08_number_whole_token_ws
