/-
  AtomRT — token-level round trip for atoms in the default dialect.

  For each atom kind, the text the printer emits (`Print.atomEmits Print.Options.default`)
  followed by a token-ending context is consumed exactly by `Parse.parseToken` and yields the
  token of that atom.  All three source modes (slice, str, io) are covered at once; the reader
  state after the token is given exactly (`adv s n p`).

  Layout: reader-state bookkeeping (`adv`), byte-class facts (checked by `decide +kernel` over all
  256 bytes), then one section per kind (symbols/keywords, integers, characters, strings, byte
  vectors, non-ASCII symbol initials), identifier classes, witnesses, and the main theorems.
-/
import LexprModel.Parse
import LexprModel.Print
namespace Lexpr
namespace Parse

@[simp] theorem bind_apply {α β} (m : P α) (f : α → P β) (s : St) :
    (m >>= f) s = match m s with
      | .ok a s' => f a s'
      | .err e s' => .err e s'
      | .panic p => .panic p
      | .fuel => .fuel := rfl

@[simp] theorem pure_apply {α} (a : α) (s : St) : (pure a : P α) s = .ok a s := rfl

/-! ## Reader state bookkeeping -/

@[simp] theorem consume_rest (rd : Rd) (n : Nat) : (rd.consume n).rest = rd.rest.drop n := by
  induction n generalizing rd with
  | zero => simp [Rd.consume]
  | succ n ih =>
    unfold Rd.consume
    split
    · rename_i h; simp [h]
    · rename_i b bs h; simp [ih, h]

@[simp] theorem consume_mode (rd : Rd) (n : Nat) : (rd.consume n).mode = rd.mode := by
  induction n generalizing rd with
  | zero => simp [Rd.consume]
  | succ n ih =>
    unfold Rd.consume
    split
    · simp
    · simp [ih]

@[simp] theorem consume_faulty (rd : Rd) (n : Nat) : (rd.consume n).faulty = rd.faulty := by
  induction n generalizing rd with
  | zero => simp [Rd.consume]
  | succ n ih =>
    unfold Rd.consume
    split
    · simp
    · simp [ih]

@[simp] theorem consume_peeked (rd : Rd) (n : Nat) : (rd.consume n).peeked = false := by
  induction n generalizing rd with
  | zero => simp [Rd.consume]
  | succ n ih =>
    unfold Rd.consume
    split
    · simp
    · simp [ih]

theorem consume_setPeeked (rd : Rd) (n : Nat) (p : Bool) :
    ({ rd with peeked := p } : Rd).consume n = rd.consume n := by
  cases n with
  | zero => simp [Rd.consume]
  | succ n =>
    simp only [Rd.consume]

theorem consume_consume (rd : Rd) (n m : Nat) : (rd.consume n).consume m = rd.consume (n + m) := by
  induction n generalizing rd with
  | zero =>
    simp only [Nat.zero_add]
    show ({ rd with peeked := false } : Rd).consume m = _
    exact consume_setPeeked ..
  | succ n ih =>
    rw [show n + 1 + m = (n + m) + 1 by omega]
    simp only [Rd.consume]
    split
    · cases m <;> simp [Rd.consume, *]
    · exact ih _

/-- The state after consuming `n` bytes from `s`, with the peek flag set to `p`. -/
def adv (s : St) (n : Nat) (p : Bool) : St :=
  { rd := { s.rd.consume n with peeked := p }, depth := s.depth }

@[simp] theorem adv_rest (s : St) (n p) : (adv s n p).rd.rest = s.rd.rest.drop n := by simp [adv]
@[simp] theorem adv_mode (s : St) (n p) : (adv s n p).rd.mode = s.rd.mode := by simp [adv]
@[simp] theorem adv_faulty (s : St) (n p) : (adv s n p).rd.faulty = s.rd.faulty := by simp [adv]
@[simp] theorem adv_peeked (s : St) (n p) : (adv s n p).rd.peeked = p := by simp [adv]
@[simp] theorem adv_depth (s : St) (n p) : (adv s n p).depth = s.depth := by simp [adv]
@[simp] theorem adv_adv (s : St) (n m p q) : adv (adv s n p) m q = adv s (n + m) q := by
  unfold adv
  show ({ rd := { ({ s.rd.consume n with peeked := p } : Rd).consume m with peeked := q },
          depth := s.depth } : St) = _
  rw [consume_setPeeked, consume_consume]

theorem setPeeked_consume (rd : Rd) (n : Nat) :
    ({ rd.consume n with peeked := false } : Rd) = rd.consume n := by
  have h := consume_peeked rd n
  revert h
  cases rd.consume n
  simp

theorem adv_false (s : St) (n : Nat) : adv s n false = { s with rd := s.rd.consume n } := by
  unfold adv; rw [setPeeked_consume]

theorem peek_eq (s : St) : peek s =
    match s.rd.rest with
    | b :: _ => .ok (some b) (adv s 0 (s.rd.peeked || s.rd.mode == .io))
    | [] => if s.rd.faulty then .err .io s else .ok none s := by
  cases h : s.rd.rest <;> simp [peek, h, adv, Rd.consume]

theorem next_eq (s : St) : next s =
    match s.rd.rest with
    | b :: _ => .ok (some b) (adv s 1 false)
    | [] => if s.rd.faulty then .err .io s else .ok none s := by
  rw [adv_false]; cases h : s.rd.rest <;> simp [next, h]

theorem discard_eq (s : St) : discard s =
    match s.rd.rest with
    | _ :: _ => .ok () (adv s 1 false)
    | [] => .panic .discardAtEof := by
  rw [adv_false]; cases h : s.rd.rest <;> simp [discard, h]

theorem consumeN_eq (n : Nat) (s : St) : consumeN n s = .ok () (adv s n false) := by
  rw [adv_false]; simp [consumeN]

@[simp] theorem getRest_eq (s : St) : getRest s = .ok s.rd.rest s := rfl
@[simp] theorem getMode_eq (s : St) : getMode s = .ok s.rd.mode s := rfl

theorem adv_zero_self (s : St) : adv s 0 s.rd.peeked = s := by
  cases s with | mk rd d => cases rd; rfl

/-! ## Bytes -/

theorem forall_u8 (P : UInt8 → Prop) (h : ∀ n, n < 256 → P (UInt8.ofNat n)) : ∀ b, P b := by
  intro b
  have := h b.toNat (UInt8.toNat_lt b)
  simpa using this

/-- A byte that ends every token: whitespace, parentheses, brackets, `;`. -/
def isFollow (b : UInt8) : Bool :=
  b == 32 || b == 10 || b == 9 || b == 13 || b == 12 || b == 40 || b == 41 || b == 91 ||
  b == 93 || b == 59

/-- What may come after an atom: end of input or a byte that terminates every token. -/
def Follow (rest : List UInt8) : Prop := rest = [] ∨ ∃ b tl, rest = b :: tl ∧ isFollow b = true

theorem isFollow_symTermSlice : ∀ b, isFollow b = true → symTermSlice b = true := by
  apply forall_u8; decide +kernel
theorem isFollow_symTerm (m : Mode) (b : UInt8) (h : isFollow b = true) : symTerm m b = true := by
  cases m <;> exact isFollow_symTermSlice b h
theorem isFollow_isDelimiter : ∀ b, isFollow b = true → isDelimiter b = true := by
  apply forall_u8; decide +kernel
theorem isFollow_isCharDelimiter : ∀ b, isFollow b = true → isCharDelimiter b = true := by
  apply forall_u8; decide +kernel
theorem symTerm_eq (m : Mode) (b : UInt8) : symTerm m b = symTermSlice b := by cases m <;> rfl
theorem isFollow_eq_symTermSlice : ∀ b, isFollow b = symTermSlice b := by
  apply forall_u8; decide +kernel

/-- The peek flag after looking at what follows a token. -/
def endPeek (s : St) (rest : List UInt8) : Bool := !rest.isEmpty && s.rd.mode == .io

theorem Follow.head {rest : List UInt8} (h : Follow rest) :
    ∀ b, rest.head? = some b → isFollow b = true := by
  intro b hb
  rcases h with rfl | ⟨b', tl, rfl, hb'⟩
  · simp at hb
  · simp at hb; subst hb; exact hb'

/-- `peek` at the end of a token. -/
theorem peek_at (s : St) (rest : List UInt8) (h : s.rd.rest = rest)
    (hf : rest = [] → s.rd.faulty = false) :
    peek s = .ok rest.head? (adv s 0 (s.rd.peeked || endPeek s rest)) := by
  rw [peek_eq, h]
  cases rest with
  | nil => simp [hf rfl, endPeek, adv_zero_self]
  | cons b tl => simp [endPeek]

/-! ## Symbols and keywords -/

theorem symLen_append (m : Mode) (name rest : List UInt8)
    (hn : ∀ b ∈ name, symTermSlice b = false) (hF : Follow rest) :
    symLen m (name ++ rest) = name.length := by
  induction name with
  | nil =>
    rcases hF with rfl | ⟨b, tl, rfl, hb⟩
    · simp [symLen]
    · simp [symLen, isFollow_symTerm m b hb]
  | cons a tl ih =>
    have ha : symTerm m a = false := by rw [symTerm_eq]; exact hn a (by simp)
    simp [symLen, ha, ih (fun b hb => hn b (by simp [hb]))]

theorem parseSymbolBytes_ok (scratch name rest : List UInt8) (s : St)
    (hrest : s.rd.rest = name ++ rest) (hF : Follow rest)
    (hf : rest = [] → s.rd.faulty = false)
    (hn : ∀ b ∈ name, symTermSlice b = false)
    (hdot : scratch ++ name ≠ [46])
    (hv : s.rd.mode = .str ∨ Utf8.valid (scratch ++ name) = true) :
    parseSymbolBytes scratch s = .ok (scratch ++ name) (adv s name.length (endPeek s rest)) := by
  unfold parseSymbolBytes
  simp only [bind_apply, getRest_eq, getMode_eq, consumeN_eq, hrest, symLen_append _ _ _ hn hF]
  rw [peek_at _ rest (by simp [hrest]) (by simpa using hf)]
  simp only [List.take_left', adv_adv, adv_peeked, Bool.false_or, Nat.add_zero]
  have e : endPeek (adv s name.length false) rest = endPeek s rest := by simp [endPeek]
  rw [e]
  simp only [beq_iff_eq, hdot, if_false]
  rcases hv with hm | hv
  · simp [hm]
  · simp [hv]

@[simp] theorem endPeek_adv (s : St) (n p) (rest : List UInt8) :
    endPeek (adv s n p) rest = endPeek s rest := by simp [endPeek]

/-! ## Keywords -/

theorem kw_aux (cfg : Cfg) (fuel : Nat) (name rest : List UInt8) (s : St)
    (ho : cfg.opts = Options.default)
    (hrest : s.rd.rest = 35 :: 58 :: (name ++ rest)) (hF : Follow rest)
    (hf : rest = [] → s.rd.faulty = false)
    (hn : ∀ b ∈ name, symTermSlice b = false)
    (hdot : name ≠ [46])
    (hv : s.rd.mode = .str ∨ Utf8.valid name = true) :
    parseToken cfg fuel 35 s = .ok (.keyword name) (adv s (name.length + 2) (endPeek s rest)) := by
  have h := parseSymbolBytes_ok [] name rest (adv s 2 false) (by simp [hrest]) hF (by simpa using hf)
    hn (by simpa using hdot) (by simpa using hv)
  simp [parseToken, discard_eq, next_eq, hrest, ho, Options.default]
  rw [h]; simp [Nat.add_comm]

/-! ## Symbols -/

theorem alpha_facts : ∀ b : UInt8, isAsciiAlpha b = true →
    (b == 35) = false ∧ (b == 45) = false ∧ (b == 43) = false ∧ isDigit b = false ∧
    (b == 34) = false ∧ (b == 40) = false ∧ (b == 91) = false ∧ (b == 58) = false ∧
    (b == 46) = false := by
  apply forall_u8; decide +kernel

theorem parseToken_alpha (cfg : Cfg) (fuel : Nat) (pk : UInt8) (ho : cfg.opts = Options.default)
    (h : isAsciiAlpha pk = true) :
    parseToken cfg fuel pk = (do let name ← parseSymbolBytes []; pure (.symbol name)) := by
  obtain ⟨h1, h2, h3, h4, h5, h6, h7, h8, _⟩ := alpha_facts pk h
  simp only [beq_eq_false_iff_ne, ne_eq] at h1 h2 h3 h5 h6 h7 h8
  unfold parseToken
  simp [h1, h2, h3, h4, h5, h6, h7, h8, h, ho, Options.default]

/-! ### other initials -/

theorem peekOrNull_at (s : St) (rest : List UInt8) (h : s.rd.rest = rest)
    (hf : rest = [] → s.rd.faulty = false) :
    peekOrNull s = .ok (rest.head?.getD 0) (adv s 0 (s.rd.peeked || endPeek s rest)) := by
  unfold peekOrNull
  simp only [bind_apply, peek_at s rest h hf, pure_apply]

theorem Follow.headD {rest : List UInt8} (h : Follow rest) :
    (rest.head?.getD 0 == 0 || isFollow (rest.head?.getD 0)) = true := by
  rcases h with rfl | ⟨b, tl, rfl, hb⟩ <;> simp [*]

theorem symbolToken_default (cfg : Cfg) (ho : cfg.opts = Options.default) (name : List UInt8) :
    symbolToken cfg.opts name = .symbol name := by
  simp [symbolToken, ho, Options.default]

theorem ext_facts : ∀ b : UInt8, isSymbolExtended b = true →
    (b == 35) = false ∧ (b == 45) = false ∧ (b == 43) = false ∧ isDigit b = false ∧
    (b == 34) = false ∧ (b == 40) = false ∧ (b == 91) = false ∧ isAsciiAlpha b = false ∧
    (b == 39) = false ∧ (b == 96) = false ∧ (b == 44) = false ∧ ¬ (b > 127) := by
  apply forall_u8; decide +kernel

theorem parseToken_ext (cfg : Cfg) (fuel : Nat) (pk : UInt8) (ho : cfg.opts = Options.default)
    (h : isSymbolExtended pk = true) :
    parseToken cfg fuel pk = (do let name ← parseSymbolBytes []; pure (.symbol name)) := by
  obtain ⟨h1, h2, h3, h4, h5, h6, h7, h8, h9, h10, h11, h12⟩ := ext_facts pk h
  simp only [beq_eq_false_iff_ne, ne_eq] at h1 h2 h3 h5 h6 h7 h9 h10 h11
  unfold parseToken
  by_cases h58 : pk = 58
  · simp [h58, ho, Options.default, symbolToken, isDigit]
  · simp [h1, h2, h3, h4, h5, h6, h7, h8, h9, h10, h11, h12, h, h58, ho, Options.default, symbolToken]

/-! ### sign initials -/

/-- after `+.` / `-.`: anything but a digit -/
def dotTailOk : List UInt8 → Bool
  | [] => true
  | d :: _ => !isDigit d

/-- What may follow a leading `+`/`-` in a peculiar identifier (all bytes of the tail are
    additionally required not to be symbol terminators). -/
def signTailOk : List UInt8 → Bool
  | [] => true
  | c :: tl => (c == 0 || isDelimiter c || isSignSubsequent c) || (c == 46 && dotTailOk tl)

theorem follow_facts : ∀ c : UInt8, (c == 0 || isFollow c) = true →
    (c == 0 || isDelimiter c) = true ∧ isDigit c = false ∧ digitVal 10 c = none ∧
    (c == 46) = false ∧ (c == 101) = false ∧ (c == 69) = false ∧
    (c == 0 || isCharDelimiter c) = true := by
  apply forall_u8; decide +kernel

theorem parseSignToken_symbol (cfg : Cfg) (fuel : Nat) (sign : UInt8) (pos : Bool)
    (tl rest : List UInt8) (s : St)
    (ho : cfg.opts = Options.default) (hsign : sign ≠ 46)
    (hrest : s.rd.rest = sign :: (tl ++ rest)) (hF : Follow rest)
    (hf : rest = [] → s.rd.faulty = false)
    (hn : ∀ b ∈ tl, symTermSlice b = false)
    (hs : signTailOk tl = true)
    (hv : s.rd.mode = .str ∨ Utf8.valid (sign :: tl) = true) :
    parseSignToken cfg fuel sign pos s =
      .ok (.symbol (sign :: tl)) (adv s (tl.length + 1) (endPeek s rest)) := by
  unfold parseSignToken
  have hf' : tl ++ rest = [] → (adv s 1 false).rd.faulty = false := by
    intro h; simp at h; simpa using hf h.2
  simp only [bind_apply, discard_eq, hrest,
    peekOrNull_at (adv s 1 false) (tl ++ rest) (by simp [hrest]) hf']
  generalize hnxt : (tl ++ rest).head?.getD 0 = nxt
  by_cases h1 : (nxt == 0 || isDelimiter nxt || isSignSubsequent nxt) = true
  · simp only [h1, if_true, bind_apply]
    have h := parseSymbolBytes_ok [sign] tl rest (adv (adv s 1 false) 0
      ((adv s 1 false).rd.peeked || endPeek (adv s 1 false) (tl ++ rest))) (by simp [hrest]) hF
      (by simpa using hf) hn (by cases tl <;> simp [hsign]) (by simpa using hv)
    rw [h]
    simp [symbolToken_default cfg ho, Nat.add_comm]
  · cases tl with
    | nil =>
      exfalso; apply h1
      have := (follow_facts _ hF.headD).1
      simp only [List.nil_append] at hnxt
      rw [hnxt] at this
      simp [this]
    | cons c tl' =>
      simp only [List.cons_append, List.head?_cons, Option.getD_some] at hnxt
      subst hnxt
      simp only [signTailOk, Bool.or_eq_true, Bool.and_eq_true] at hs
      have hs' : c = 46 ∧ dotTailOk tl' = true := by
        rcases hs with hs | hs
        · simp only [Bool.or_eq_true] at h1; exact absurd hs h1
        · simpa using hs
      obtain ⟨hc, hd⟩ := hs'
      subst hc
      simp only [h1]
      simp only [Bool.false_eq_true, if_false, beq_self_eq_true, if_true]
      unfold parseSignDotSymbol
      simp only [bind_apply, discard_eq, adv_rest, hrest, List.drop_succ_cons, List.drop_zero,
        List.cons_append, adv_adv]
      have hf'' : tl' ++ rest = [] → s.rd.faulty = false := by
        intro h; simp at h; exact hf h.2
      rw [peekOrNull_at _ (tl' ++ rest) (by simp [hrest]) (by simpa using hf'')]
      have hnd : isDigit ((tl' ++ rest).head?.getD 0) = false := by
        cases tl' with
        | nil => simpa using (follow_facts _ hF.headD).2.1
        | cons d tl'' => simpa [dotTailOk] using hd
      simp only [hnd, Bool.false_eq_true, if_false, bind_apply]
      have h := parseSymbolBytes_ok [sign, 46] tl' rest (adv (adv s (1 + 0 + 1) false) 0
        ((adv s (1 + 0 + 1) false).rd.peeked || endPeek (adv s (1 + 0 + 1) false) (tl' ++ rest)))
        (by simp [hrest]) hF
        (by simpa using hf) (fun b hb => hn b (by simp [hb])) (by simp) (by simpa using hv)
      rw [h]
      simp [symbolToken_default cfg ho]
      congr 1; omega

/-! ### plain identifiers -/

/-- Shape of a name that the default reader returns verbatim as a symbol: no byte is a symbol
    terminator, and the name starts with an ASCII letter or one of `!$%&*./:<=>?@^_~` (but is not
    the lone dot), or is a peculiar identifier: `+`/`-` alone or followed by a sign-subsequent
    (or a NUL / `|` / `"`), or followed by a dot that is not followed by a digit. -/
def plainShape : List UInt8 → Bool
  | [] => false
  | b :: tl =>
    (b :: tl).all (fun x => !symTermSlice x) &&
    (((isAsciiAlpha b || isSymbolExtended b) && (b :: tl) != [46]) ||
     ((b == 43 || b == 45) && signTailOk tl))

/-- A plain identifier: plain shape and well-formed UTF-8. Decidable. -/
def PlainIdent (name : List UInt8) : Prop := plainShape name = true ∧ Utf8.valid name = true

instance (name : List UInt8) : Decidable (PlainIdent name) := by
  unfold PlainIdent; infer_instance

theorem symbol_aux (cfg : Cfg) (fuel : Nat) (pk : UInt8) (tl rest : List UInt8) (s : St)
    (ho : cfg.opts = Options.default)
    (hrest : s.rd.rest = (pk :: tl) ++ rest) (hF : Follow rest)
    (hf : rest = [] → s.rd.faulty = false)
    (hshape : plainShape (pk :: tl) = true)
    (hv : s.rd.mode = .str ∨ Utf8.valid (pk :: tl) = true) :
    parseToken cfg fuel pk s =
      .ok (.symbol (pk :: tl)) (adv s (tl.length + 1) (endPeek s rest)) := by
  simp only [plainShape, Bool.and_eq_true, Bool.or_eq_true, List.all_eq_true,
    Bool.not_eq_true', bne_iff_ne, ne_eq] at hshape
  obtain ⟨hn, hcls⟩ := hshape
  rcases hcls with ⟨hinit, hdot⟩ | ⟨hsign, hs⟩
  · have hd : parseToken cfg fuel pk = (do let name ← parseSymbolBytes []; pure (.symbol name)) := by
      rcases hinit with h | h
      · exact parseToken_alpha cfg fuel pk ho h
      · exact parseToken_ext cfg fuel pk ho h
    rw [hd]
    simp only [bind_apply]
    rw [parseSymbolBytes_ok [] (pk :: tl) rest s hrest hF hf hn (by simpa using hdot)
      (by simpa using hv)]
    simp
  · have hn' : ∀ b ∈ tl, symTermSlice b = false := fun b hb => hn b (by simp [hb])
    rcases hsign with h | h
    · have h : pk = 43 := by simpa using h
      subst h
      have hd : parseToken cfg fuel 43 = parseSignToken cfg fuel 43 true := by
        unfold parseToken; simp
      rw [hd]
      exact parseSignToken_symbol cfg fuel 43 true tl rest s ho (by decide) (by simpa using hrest)
        hF hf hn' hs hv
    · have h : pk = 45 := by simpa using h
      subst h
      have hd : parseToken cfg fuel 45 = parseSignToken cfg fuel 45 false := by
        unfold parseToken; simp
      rw [hd]
      exact parseSignToken_symbol cfg fuel 45 false tl rest s ho (by decide) (by simpa using hrest)
        hF hf hn' hs hv

/-! ## Integers -/

theorem ch_digitChar : ∀ d, d < 16 → ch (Nat.digitChar d) = hexDigitLower d := by decide

theorem natDigits_lt {n : Nat} (h : n < 10) : natDigits n = [UInt8.ofNat (48 + n)] := by
  have := ch_digitChar n (by omega)
  simp only [natDigits, Nat.toDigits_of_lt_base h, List.map_cons, List.map_nil, this,
    hexDigitLower, h, if_true]

theorem natDigits_ge {n : Nat} (h : 10 ≤ n) :
    natDigits n = natDigits (n / 10) ++ [UInt8.ofNat (48 + n % 10)] := by
  have h10 : n % 10 < 10 := Nat.mod_lt _ (by omega)
  have := ch_digitChar (n % 10) (by omega)
  simp only [natDigits, Nat.toDigits_of_base_le (by omega : 1 < 10) h, List.map_append,
    List.map_cons, List.map_nil, this, hexDigitLower, h10, if_true]

theorem digit_facts : ∀ d, d < 10 →
    digitVal 10 (UInt8.ofNat (48 + d)) = some d ∧ isDigit (UInt8.ofNat (48 + d)) = true ∧
    (UInt8.ofNat (48 + d) == 0 || isDelimiter (UInt8.ofNat (48 + d)) ||
      isSignSubsequent (UInt8.ofNat (48 + d))) = false ∧
    (UInt8.ofNat (48 + d) == 46) = false ∧ (UInt8.ofNat (48 + d) == 35) = false ∧
    (UInt8.ofNat (48 + d) == 45) = false ∧ (UInt8.ofNat (48 + d) == 43) = false := by
  decide

theorem natDigits_head (n : Nat) : ∃ d tl, d < 10 ∧ natDigits n = UInt8.ofNat (48 + d) :: tl := by
  induction n using Nat.strongRecOn with
  | _ n ih =>
    by_cases h : n < 10
    · exact ⟨n, [], h, natDigits_lt h⟩
    · obtain ⟨d, tl, hd, he⟩ := ih (n / 10) (by omega)
      refine ⟨d, tl ++ [UInt8.ofNat (48 + n % 10)], hd, ?_⟩
      rw [natDigits_ge (by omega), he]; rfl

theorem overflow_false {n : Nat} (h : n ≤ u64Max) : overflow (n / 10) 10 (n % 10) u64Max = false := by
  simp only [overflow, u64Max, ge_iff_le, gt_iff_lt, Bool.and_eq_false_iff, decide_eq_false_iff_not,
    Bool.or_eq_false_iff]
  unfold u64Max at h
  omega

/-- The digit loop of `parse_num_literal` over the decimal digits of `n`. -/
theorem parseNumLiteral_digits (cfg : Cfg) (pos : Bool) (n : Nat) (hn : n ≤ u64Max) :
    ∀ (f : Nat) (s : St) (rest : List UInt8), s.rd.rest = natDigits n ++ rest →
      parseNumLiteral cfg (f + (natDigits n).length) 10 pos s =
        numLoop cfg 10 pos (f + 1) n (adv s (natDigits n).length false) := by
  induction n using Nat.strongRecOn with
  | _ n ih =>
    intro f s rest hrest
    by_cases h : n < 10
    · rw [natDigits_lt h] at hrest ⊢
      obtain ⟨h1, -⟩ := digit_facts n h
      unfold parseNumLiteral
      simp only [bind_apply, next_eq, hrest, List.cons_append, List.nil_append, h1,
        List.length_cons, List.length_nil, Nat.zero_add]
      simp [Nat.not_le.mpr h]
    · have h10 : n % 10 < 10 := Nat.mod_lt _ (by omega)
      have hge := natDigits_ge (Nat.not_lt.mp h)
      obtain ⟨h1, -⟩ := digit_facts (n % 10) h10
      have hlen : (natDigits n).length = (natDigits (n / 10)).length + 1 := by simp [hge]
      have hr' : s.rd.rest = natDigits (n / 10) ++ (UInt8.ofNat (48 + n % 10) :: rest) := by
        rw [hrest, hge]; simp
      have := ih (n / 10) (by omega) (by unfold u64Max at hn ⊢; omega) (f + 1) s _ hr'
      rw [hlen, show f + ((natDigits (n / 10)).length + 1) = f + 1 + (natDigits (n / 10)).length by omega,
        this]
      rw [numLoop]
      have hpk : (adv s (natDigits (n / 10)).length false).rd.rest =
          UInt8.ofNat (48 + n % 10) :: rest := by simp [hr']
      simp only [bind_apply, peekOrNull, peek_eq, hpk, pure_apply, Option.getD_some, h1,
        adv_adv, overflow_false hn]
      simp [Nat.not_le.mpr h10, Nat.div_add_mod', discard_eq, hr']

/-! ### end of a number -/

/-- What `parse_num_tail` returns for an integer literal that is followed by a delimiter. -/
def numTailVal (pos : Bool) (sig : Nat) : Number :=
  if pos then Number.ofUnsigned sig
  else if wrappingNeg (asI64 sig) > 0 then Number.ofF64 (F64.neg (F64.ofNat sig))
  else Number.ofSigned (wrappingNeg (asI64 sig))

theorem numLoop_end (cfg : Cfg) (pos : Bool) (f n : Nat) (s : St) (rest : List UInt8)
    (h : s.rd.rest = rest) (hF : Follow rest) (hf : rest = [] → s.rd.faulty = false) :
    numLoop cfg 10 pos (f + 1) n s =
      .ok (numTailVal pos n) (adv s 0 (s.rd.peeked || endPeek s rest)) := by
  obtain ⟨-, -, h3, h4, h5, h6, -⟩ := follow_facts _ hF.headD
  rw [numLoop]
  simp only [bind_apply, peekOrNull_at s rest h hf, h3]
  unfold parseNumTail
  simp only [bind_apply, peekOrNull_at (adv s 0 (s.rd.peeked || endPeek s rest)) rest
    (by simp [h]) (by simpa using hf), h4, h5, h6]
  simp only [numTailVal]
  cases pos <;> simp <;> split <;> simp

theorem parseNumToken_digits (cfg : Cfg) (pos : Bool) (n : Nat) (hn : n ≤ u64Max)
    (fuel : Nat) (s : St) (rest : List UInt8) (hrest : s.rd.rest = natDigits n ++ rest)
    (hfuel : (natDigits n).length ≤ fuel)
    (hF : Follow rest) (hf : rest = [] → s.rd.faulty = false) :
    parseNumToken cfg fuel pos s =
      .ok (numTailVal pos n) (adv s (natDigits n).length (endPeek s rest)) := by
  obtain ⟨f, rfl⟩ : ∃ f, fuel = f + (natDigits n).length := ⟨fuel - (natDigits n).length, by omega⟩
  unfold parseNumToken
  simp only [bind_apply, parseNumLiteral_digits cfg pos n hn f s rest hrest]
  rw [numLoop_end cfg pos f n _ rest (by simp [hrest]) hF (by simpa using hf)]
  simp only [expectNumberEnd, bind_apply]
  rw [peek_at _ rest (by simp [hrest]) (by simpa using hf)]
  cases hh : rest.head? with
  | none => simp
  | some c => simp [isFollow_isDelimiter c (hF.head c hh)]

theorem numTailVal_pos (n : Nat) : numTailVal true n = .pos n := by simp [numTailVal, Number.ofUnsigned]

theorem numTailVal_neg (i : Int) (h1 : i64Min ≤ i) (h2 : i < 0) :
    numTailVal false i.natAbs = .neg i := by
  unfold i64Min at h1
  simp only [numTailVal, Bool.false_eq_true, if_false, asI64, wrappingNeg, i64Min]
  by_cases hm : i.natAbs < 9223372036854775808
  · have e : ((i.natAbs : Nat) : Int) = -i := by omega
    simp only [hm, if_true, e]
    have : ¬ (-i = -9223372036854775808) := by omega
    simp only [beq_iff_eq, this, if_false, Int.neg_neg]
    have : ¬ (i > 0) := by omega
    simp only [this, if_false, Number.ofSigned]
    have : ¬ (i ≥ 0) := by omega
    simp only [this, if_false]
  · have e : ((i.natAbs : Nat) : Int) = 9223372036854775808 := by omega
    have e' : i = -9223372036854775808 := by omega
    simp only [hm, if_false, e]
    simp [Number.ofSigned, e']

/-! ### integer tokens -/

theorem isDigit_facts : ∀ b : UInt8, isDigit b = true →
    (b == 35) = false ∧ (b == 45) = false ∧ (b == 43) = false := by
  apply forall_u8; decide +kernel

theorem parseToken_digit (cfg : Cfg) (fuel : Nat) (pk : UInt8) (ho : cfg.opts = Options.default)
    (h : isDigit pk = true) :
    parseToken cfg fuel pk = (do let n ← parseNumToken cfg fuel true; pure (.number n)) := by
  obtain ⟨h1, h2, h3⟩ := isDigit_facts pk h
  simp only [beq_eq_false_iff_ne, ne_eq] at h1 h2 h3
  unfold parseToken
  simp [h1, h2, h3, h, ho, Options.default]

theorem posint_aux (cfg : Cfg) (fuel : Nat) (pk : UInt8) (n : Nat) (rest : List UInt8) (s : St)
    (ho : cfg.opts = Options.default) (hn : n ≤ u64Max)
    (hrest : s.rd.rest = natDigits n ++ rest) (hpk : (natDigits n).head? = some pk)
    (hfuel : (natDigits n).length ≤ fuel)
    (hF : Follow rest) (hf : rest = [] → s.rd.faulty = false) :
    parseToken cfg fuel pk s =
      .ok (.number (.pos n)) (adv s (natDigits n).length (endPeek s rest)) := by
  obtain ⟨d, tl, hd, he⟩ := natDigits_head n
  have : pk = UInt8.ofNat (48 + d) := by rw [he] at hpk; simpa using hpk.symm
  subst this
  rw [parseToken_digit cfg fuel _ ho (digit_facts d hd).2.1]
  simp only [bind_apply, parseNumToken_digits cfg true n hn fuel s rest hrest hfuel hF hf,
    numTailVal_pos, pure_apply]

theorem negint_aux (cfg : Cfg) (fuel : Nat) (i : Int) (rest : List UInt8) (s : St)
    (h1 : i64Min ≤ i) (h2 : i < 0)
    (hrest : s.rd.rest = intDigits i ++ rest)
    (hfuel : (intDigits i).length ≤ fuel + 1)
    (hF : Follow rest) (hf : rest = [] → s.rd.faulty = false) :
    parseToken cfg fuel 45 s =
      .ok (.number (.neg i)) (adv s (intDigits i).length (endPeek s rest)) := by
  have hi : intDigits i = 45 :: natDigits i.natAbs := by
    simp only [intDigits, h2, if_true]; rfl
  rw [hi] at hrest hfuel ⊢
  have hd : parseToken cfg fuel 45 = parseSignToken cfg fuel 45 false := by
    unfold parseToken; simp
  rw [hd]
  obtain ⟨d, tl, hd, he⟩ := natDigits_head i.natAbs
  obtain ⟨-, -, g3, g4, -⟩ := digit_facts d hd
  unfold parseSignToken
  have hr1 : (adv s 1 false).rd.rest = natDigits i.natAbs ++ rest := by simp [hrest]
  simp only [bind_apply, discard_eq, hrest, List.cons_append, peekOrNull, peek_eq, hr1, he,
    pure_apply, Option.getD_some, g3, g4, Bool.false_eq_true, if_false, adv_adv]
  have hn : i.natAbs ≤ u64Max := by unfold u64Max; unfold i64Min at h1; omega
  rw [parseNumToken_digits cfg false i.natAbs hn fuel _ rest (by simp [hrest, he])
    (by simpa using hfuel) hF (by simpa using hf)]
  simp only [numTailVal_neg i h1 h2, adv_adv, endPeek_adv, Nat.add_zero]
  have hl : 1 + (natDigits i.natAbs).length = tl.length + 1 + 1 := by
    rw [he]; simp only [List.length_cons]; omega
  simp only [List.length_cons, hl]

/-! ## Characters -/

theorem natHexLower_lt {n : Nat} (h : n < 16) : natHexLower n = [hexDigitLower n] := by
  simp only [natHexLower, Nat.toDigits_of_lt_base h, List.map_cons, List.map_nil,
    ch_digitChar n h]

theorem natHexLower_ge {n : Nat} (h : 16 ≤ n) :
    natHexLower n = natHexLower (n / 16) ++ [hexDigitLower (n % 16)] := by
  have h16 : n % 16 < 16 := Nat.mod_lt _ (by omega)
  simp only [natHexLower, Nat.toDigits_of_base_le (by omega : 1 < 16) h, List.map_append,
    List.map_cons, List.map_nil, ch_digitChar _ h16]

theorem hexDigit_facts : ∀ d, d < 16 →
    hexVal (hexDigitLower d) = some d ∧ isCharDelimiter (hexDigitLower d) = false := by
  decide

/-- The digit loop of `decode_r6rs_char_hex_escape` over the hexadecimal digits of `c`. -/
theorem charHex_digits (c : Nat) (hc : c < maxCp) :
    ∀ (f : Nat) (s : St) (rest : List UInt8), s.rd.rest = natHexLower c ++ rest →
      decodeR6rsCharHexEscape (f + (natHexLower c).length) 0 true s =
        decodeR6rsCharHexEscape f c false (adv s (natHexLower c).length false) := by
  induction c using Nat.strongRecOn with
  | _ c ih =>
    intro f s rest hrest
    by_cases h : c < 16
    · rw [natHexLower_lt h] at hrest ⊢
      obtain ⟨h1, h2⟩ := hexDigit_facts c h
      simp only [List.length_cons, List.length_nil, Nat.zero_add]
      rw [decodeR6rsCharHexEscape]
      simp only [bind_apply, peek_eq, hrest, List.cons_append, h2, Bool.false_eq_true, if_false,
        discard_eq, adv_rest, List.drop_zero, h1, adv_adv]
      simp [maxCp]
    · have h16 : c % 16 < 16 := Nat.mod_lt _ (by omega)
      have hge := natHexLower_ge (Nat.not_lt.mp h)
      obtain ⟨h1, h2⟩ := hexDigit_facts (c % 16) h16
      have hlen : (natHexLower c).length = (natHexLower (c / 16)).length + 1 := by simp [hge]
      have hr' : s.rd.rest = natHexLower (c / 16) ++ (hexDigitLower (c % 16) :: rest) := by
        rw [hrest, hge]; simp
      have := ih (c / 16) (by omega) (by omega) (f + 1) s _ hr'
      rw [hlen, show f + ((natHexLower (c / 16)).length + 1) =
        f + 1 + (natHexLower (c / 16)).length by omega, this]
      rw [decodeR6rsCharHexEscape]
      have hpk : (adv s (natHexLower (c / 16)).length false).rd.rest =
          hexDigitLower (c % 16) :: rest := by simp [hr']
      have hlt : ¬ (c / 16 ≥ maxCp) := by omega
      simp only [bind_apply, peek_eq, hpk, h2, Bool.false_eq_true, if_false,
        discard_eq, adv_rest, adv_adv, h1, hlt]
      simp [hr', Nat.div_add_mod']

theorem charHex_end (f c : Nat) (s : St) (rest : List UInt8)
    (h : s.rd.rest = rest) (hF : Follow rest) (hf : rest = [] → s.rd.faulty = false)
    (first : Bool) :
    decodeR6rsCharHexEscape (f + 1) c first s =
      .ok (if first then none else some c) (adv s 0 (s.rd.peeked || endPeek s rest)) := by
  rw [decodeR6rsCharHexEscape]
  simp only [bind_apply, peek_at s rest h hf]
  cases hh : rest.head? with
  | none => simp
  | some b => simp [isFollow_isCharDelimiter b (hF.head b hh)]

/-! ### character tokens -/

/-- map over the result of a parser step -/
def Res.map {α β} (g : α → β) : Res α → Res β
  | .ok a s => .ok (g a) s
  | .err e s => .err e s
  | .panic p => .panic p
  | .fuel => .fuel

theorem parseToken_char (cfg : Cfg) (fuel : Nat) (s : St) (r : List UInt8)
    (hrest : s.rd.rest = 35 :: 92 :: r) :
    parseToken cfg fuel 35 s = (parseR6rsChar fuel (adv s 2 false)).map Token.char := by
  simp [parseToken, discard_eq, next_eq, hrest]
  cases parseR6rsChar fuel (adv s 2 false) <;> rfl

theorem printable_facts : ∀ c, c < 127 → 32 ≤ c →
    ((UInt8.ofNat c == 120) = decide (c = 120)) ∧ ¬ (UInt8.ofNat c > 127) ∧
    (UInt8.ofNat c).toNat = c := by
  decide

theorem isScalar_lt {c : Nat} (h : isScalar c = true) : c < maxCp := by
  simp [isScalar] at h; unfold maxCp; omega

theorem drop_add_left {xs l r : List UInt8} {n : Nat} (h : xs.drop n = l ++ r) :
    xs.drop (n + l.length) = r := by
  rw [← List.drop_drop, h, List.drop_left]

theorem r6rsChar_printable (f c : Nat) (s : St) (rest : List UInt8) (hp : 32 ≤ c ∧ c < 127)
    (hrest : s.rd.rest = UInt8.ofNat c :: rest)
    (hF : Follow rest) (hf : rest = [] → s.rd.faulty = false) :
    parseR6rsChar (f + 1) s = .ok c (adv s 1 (endPeek s rest)) := by
  obtain ⟨p1, p2, p3⟩ := printable_facts c hp.2 hp.1
  unfold parseR6rsChar
  simp only [bind_apply, nextOrEofChar, next_eq, hrest, pure_apply, p1]
  by_cases hx : c = 120
  · subst hx
    simp only [decide_true, if_true, bind_apply]
    rw [charHex_end f 0 _ rest (by simp [hrest]) hF (by simpa using hf)]
    simp
  · simp only [hx, decide_false, Bool.false_eq_true, if_false, p2, p3, bind_apply]
    rw [peek_at _ rest (by simp [hrest]) (by simpa using hf)]
    cases hh : rest.head? with
    | none => simp
    | some b => simp [isFollow_isCharDelimiter b (hF.head b hh)]

theorem r6rsChar_hex (f c : Nat) (s : St) (rest : List UInt8) (hc : isScalar c = true)
    (hrest : s.rd.rest = 120 :: (natHexLower c ++ rest))
    (hF : Follow rest) (hf : rest = [] → s.rd.faulty = false) :
    parseR6rsChar (f + 1 + (natHexLower c).length) s =
      .ok c (adv s (1 + (natHexLower c).length) (endPeek s rest)) := by
  unfold parseR6rsChar
  simp only [bind_apply, nextOrEofChar, next_eq, hrest, pure_apply, beq_self_eq_true, if_true]
  rw [charHex_digits c (isScalar_lt hc) (f + 1) _ rest (by simp [hrest])]
  rw [charHex_end f c _ rest (by rw [adv_adv, adv_rest]; exact drop_add_left (by simp [hrest]))
    hF (by simpa using hf)]
  simp [hc]

theorem char_aux (cfg : Cfg) (fuel : Nat) (c : Nat) (rest : List UInt8) (s : St)
    (hc : isScalar c = true)
    (hrest : s.rd.rest = Print.schemeChar c ++ rest)
    (hfuel : (Print.schemeChar c).length ≤ fuel + 2)
    (hF : Follow rest) (hf : rest = [] → s.rd.faulty = false) :
    parseToken cfg fuel 35 s =
      .ok (.char c) (adv s (Print.schemeChar c).length (endPeek s rest)) := by
  unfold Print.schemeChar at hrest hfuel ⊢
  split at hrest
  · rename_i hp
    rw [if_pos hp] at hfuel ⊢
    have hrest' : s.rd.rest = 35 :: 92 :: (UInt8.ofNat c :: rest) := by rw [hrest]; rfl
    rw [parseToken_char cfg fuel s _ hrest']
    obtain ⟨f, rfl⟩ : ∃ f, fuel = f + 1 := ⟨fuel - 1, by simp at hfuel; omega⟩
    rw [r6rsChar_printable f c _ rest hp (by simp [hrest']) hF (by simpa using hf)]
    simp [Res.map]
  · rename_i hp
    rw [if_neg hp] at hfuel ⊢
    have hrest' : s.rd.rest = 35 :: 92 :: (120 :: (natHexLower c ++ rest)) := by rw [hrest]; rfl
    rw [parseToken_char cfg fuel s _ hrest']
    have hl : (asc "#\\x" ++ natHexLower c).length = (natHexLower c).length + 3 := by
      simp [asc]
    rw [hl] at hfuel ⊢
    obtain ⟨f, rfl⟩ : ∃ f, fuel = f + 1 + (natHexLower c).length :=
      ⟨fuel - 1 - (natHexLower c).length, by omega⟩
    rw [r6rsChar_hex f c _ rest hc (by simp [hrest']) hF (by simpa using hf)]
    simp only [Res.map, adv_adv, endPeek_adv]
    rw [show 2 + (1 + (natHexLower c).length) = (natHexLower c).length + 3 by omega]

/-! ## Strings -/

open Print in
theorem escClass_inv1 : ∀ b : UInt8,
    (escClass b = .alert → b = 7) ∧ (escClass b = .backspace → b = 8) ∧
    (escClass b = .tab → b = 9) ∧ (escClass b = .lineFeed → b = 10) := by
  apply forall_u8; decide +kernel

open Print in
theorem escClass_inv2 : ∀ b : UInt8,
    (escClass b = .carriageReturn → b = 13) ∧ (escClass b = .quote → b = 34) ∧
    (escClass b = .reverseSolidus → b = 92) ∧
    (escClass b = .none → b ≠ 34 ∧ b ≠ 92) := by
  apply forall_u8; decide +kernel

open Print in
theorem escClass_inv3 : ∀ b : UInt8, escClass b = .control →
      hexVal (hexDigitUpper (b.toNat / 16)) = some (b.toNat / 16) ∧
      hexDigitUpper (b.toNat / 16) ≠ 59 ∧
      hexVal (hexDigitUpper (b.toNat % 16)) = some (b.toNat % 16) ∧
      hexDigitUpper (b.toNat % 16) ≠ 59 := by
  apply forall_u8; decide +kernel

open Print in
theorem escClass_inv4 : ∀ b : UInt8, escClass b = .control →
      isScalar b.toNat = true ∧ Utf8.encode b.toNat = [b] := by
  apply forall_u8; decide +kernel

theorem escTexts :
    asc "\\\"" = [92, 34] ∧ asc "\\\\" = [92, 92] ∧ asc "\\a" = [92, 97] ∧ asc "\\b" = [92, 98] ∧
    asc "\\n" = [92, 110] ∧ asc "\\r" = [92, 114] ∧ asc "\\t" = [92, 116] ∧
    ch '\\' = 92 ∧ ch 'x' = 120 ∧ ch ';' = 59 := by decide

open Print in
/-- One source byte: `parse_r6rs_str` reads back what `format_escaped_str_contents` wrote. -/
theorem r6rsStr_step (b : UInt8) (f : Nat) (acc r : List UInt8) (s : St)
    (hrest : s.rd.rest = escapeText .r6rs b (escClass b) ++ r)
    (hfuel : (escapeText .r6rs b (escClass b)).length ≤ f + 1) :
    parseR6rsStr (f + 1) acc s =
      parseR6rsStr f (acc ++ [b]) (adv s (escapeText .r6rs b (escClass b)).length false) := by
  obtain ⟨i1, i2, i3, i4⟩ := escClass_inv1 b
  obtain ⟨i5, i6, i7, i8⟩ := escClass_inv2 b
  obtain ⟨t1, t2, t3, t4, t5, t6, t7, t8, t9, t10⟩ := escTexts
  rw [parseR6rsStr]
  cases hcls : escClass b <;> rw [hcls] at hrest hfuel
  case none =>
    obtain ⟨h34, h92⟩ := i8 hcls
    simp only [escapeText, List.cons_append, List.nil_append] at hrest
    simp [nextOrEof, next_eq, hrest, h34, h92, escapeText]
  case control =>
    obtain ⟨h1, h2, h3, h4⟩ := escClass_inv3 b hcls
    obtain ⟨h5, h6⟩ := escClass_inv4 b hcls
    simp only [escapeText, List.cons_append, List.nil_append, t8, t9, t10] at hrest hfuel
    obtain ⟨f', rfl⟩ : ∃ f', f = f' + 4 := ⟨f - 4, by simp at hfuel; omega⟩
    have hb := UInt8.toNat_lt b
    have hq1 : ¬ 16777216 ≤ b.toNat / 16 := by omega
    have hq2 : ¬ 16777216 ≤ b.toNat := by omega
    simp [nextOrEof, next_eq, hrest, parseR6rsEscape, decodeR6rsHexEscape,
      h1, h2, h3, h4, h5, h6, hq1, hq2, maxCp, escapeText, Nat.div_add_mod', t8, t9, t10]
  case alert =>
    have := i1 hcls; subst this
    simp only [escapeText, t3] at hrest
    simp [nextOrEof, next_eq, hrest, parseR6rsEscape, escapeText, t3]
  case backspace =>
    have := i2 hcls; subst this
    simp only [escapeText, t4] at hrest
    simp [nextOrEof, next_eq, hrest, parseR6rsEscape, escapeText, t4]
  case tab =>
    have := i3 hcls; subst this
    simp only [escapeText, t7] at hrest
    simp [nextOrEof, next_eq, hrest, parseR6rsEscape, escapeText, t7]
  case lineFeed =>
    have := i4 hcls; subst this
    simp only [escapeText, t5] at hrest
    simp [nextOrEof, next_eq, hrest, parseR6rsEscape, escapeText, t5]
  case carriageReturn =>
    have := i5 hcls; subst this
    simp only [escapeText, t6] at hrest
    simp [nextOrEof, next_eq, hrest, parseR6rsEscape, escapeText, t6]
  case quote =>
    have := i6 hcls; subst this
    simp only [escapeText, t1] at hrest
    simp [nextOrEof, next_eq, hrest, parseR6rsEscape, escapeText, t1]
  case reverseSolidus =>
    have := i7 hcls; subst this
    simp only [escapeText, t2] at hrest
    simp [nextOrEof, next_eq, hrest, parseR6rsEscape, escapeText, t2]

/-! ### string loop -/

open Print in
theorem escapeText_length_pos (b : UInt8) : 1 ≤ (escapeText .r6rs b (escClass b)).length := by
  obtain ⟨t1, t2, t3, t4, t5, t6, t7, -⟩ := escTexts
  cases escClass b <;> simp [escapeText, t1, t2, t3, t4, t5, t6, t7]

open Print in
/-- The loop of `parse_r6rs_str` over the escaped text of `bytes` followed by the closing quote:
    the scratch buffer `acc` grows by exactly `bytes`. -/
theorem r6rsStr_loop (bytes : List UInt8) :
    ∀ (acc : List UInt8) (fuel : Nat) (s : St) (rest : List UInt8),
      s.rd.rest = escapeStr .r6rs bytes ++ 34 :: rest →
      (escapeStr .r6rs bytes).length + 1 ≤ fuel →
      parseR6rsStr fuel acc s =
        finishStr false (acc ++ bytes) (adv s ((escapeStr .r6rs bytes).length + 1) false) := by
  induction bytes with
  | nil =>
    intro acc fuel s rest hrest hfuel
    obtain ⟨f, rfl⟩ : ∃ f, fuel = f + 1 := ⟨fuel - 1, by omega⟩
    simp only [escapeStr, List.flatMap_nil, List.nil_append] at hrest
    rw [parseR6rsStr]
    simp [nextOrEof, next_eq, hrest, escapeStr]
  | cons b bs ih =>
    intro acc fuel s rest hrest hfuel
    have hcons : escapeStr .r6rs (b :: bs) =
        escapeText .r6rs b (escClass b) ++ escapeStr .r6rs bs := by
      simp [escapeStr]
    rw [hcons] at hrest hfuel ⊢
    have hpos := escapeText_length_pos b
    simp only [List.length_append] at hfuel ⊢
    obtain ⟨f, rfl⟩ : ∃ f, fuel = f + 1 := ⟨fuel - 1, by omega⟩
    rw [r6rsStr_step b f acc (escapeStr .r6rs bs ++ 34 :: rest) s (by rw [hrest]; simp)
      (by omega)]
    rw [ih (acc ++ [b]) f _ rest (by rw [adv_rest, hrest]; simp) (by omega)]
    simp [Nat.add_assoc]

theorem string_aux (cfg : Cfg) (fuel : Nat) (bytes rest : List UInt8) (s : St)
    (ho : cfg.opts = Options.default)
    (hrest : s.rd.rest = 34 :: (Print.escapeStr .r6rs bytes ++ 34 :: rest))
    (hfuel : (Print.escapeStr .r6rs bytes).length + 1 ≤ fuel)
    (hv : s.rd.mode = .str ∨ Utf8.valid bytes = true) :
    parseToken cfg fuel 34 s =
      .ok (.string bytes) (adv s ((Print.escapeStr .r6rs bytes).length + 2) false) := by
  have hd : parseToken cfg fuel 34 = (do discard; let s ← parseR6rsStr fuel []; pure (.string s)) := by
    unfold parseToken; simp [ho, Options.default, isDigit]
  rw [hd]
  simp only [bind_apply, discard_eq, hrest]
  rw [r6rsStr_loop bytes [] fuel _ rest (by simp [hrest]) hfuel]
  simp only [finishStr, bind_apply, getMode_eq, adv_mode, List.nil_append, adv_adv]
  rcases hv with hm | hv
  · simp [hm]; congr 1; omega
  · simp [hv]; congr 1; omega

/-! ## Byte vectors -/

theorem parseNumLiteral_ok (cfg : Cfg) (pos : Bool) (n : Nat) (hn : n ≤ u64Max)
    (fuel : Nat) (s : St) (rest : List UInt8) (hrest : s.rd.rest = natDigits n ++ rest)
    (hfuel : (natDigits n).length ≤ fuel)
    (hF : Follow rest) (hf : rest = [] → s.rd.faulty = false) :
    parseNumLiteral cfg fuel 10 pos s =
      .ok (numTailVal pos n) (adv s (natDigits n).length (endPeek s rest)) := by
  obtain ⟨f, rfl⟩ : ∃ f, fuel = f + (natDigits n).length := ⟨fuel - (natDigits n).length, by omega⟩
  rw [parseNumLiteral_digits cfg pos n hn f s rest hrest]
  rw [numLoop_end cfg pos f n _ rest (by simp [hrest]) hF (by simpa using hf)]
  simp

theorem expectNumberEnd_ok (n : Number) (s : St) (rest : List UInt8) (h : s.rd.rest = rest)
    (hF : Follow rest) (hf : rest = [] → s.rd.faulty = false) :
    expectNumberEnd n s = .ok n (adv s 0 (s.rd.peeked || endPeek s rest)) := by
  simp only [expectNumberEnd, bind_apply]
  rw [peek_at _ rest h hf]
  cases hh : rest.head? with
  | none => simp
  | some c => simp [isFollow_isDelimiter c (hF.head c hh)]

/-- Text of the elements of a byte vector; every element but the first is preceded by a space. -/
def elemsText : Bool → List UInt8 → List UInt8
  | _, [] => []
  | first, b :: bs => (if first then [] else [32]) ++ natDigits b.toNat ++ elemsText false bs

theorem octetsText_eq (bs : List UInt8) : Print.octetsText bs = elemsText true bs := by
  have key : ∀ (b : UInt8) (bs : List UInt8),
      Print.octetsText (b :: bs) = natDigits b.toNat ++ elemsText false bs := by
    intro b bs
    induction bs generalizing b with
    | nil => simp [Print.octetsText, elemsText]
    | cons c cs ih =>
      rw [Print.octetsText, ih c]
      · simp [elemsText, ch]
      · simp
  cases bs with
  | nil => rfl
  | cons b bs => rw [key]; simp [elemsText]

theorem digit_facts2 : ∀ d, d < 10 →
    isTrivia (UInt8.ofNat (48 + d)) = false ∧ (UInt8.ofNat (48 + d) == 59) = false ∧
    (UInt8.ofNat (48 + d) == 41) = false := by
  decide

theorem parseWhitespace_eq (s : St) :
    parseWhitespace s = peek (adv s (wsLen s.rd.rest) false) := by
  simp [parseWhitespace, consumeN_eq]

theorem elemsText_follow (bs rest : List UInt8) : Follow (elemsText false bs ++ 41 :: rest) := by
  cases bs with
  | nil => exact Or.inr ⟨41, rest, by simp [elemsText], by decide⟩
  | cons b bs =>
    exact Or.inr ⟨32, natDigits b.toNat ++ elemsText false bs ++ 41 :: rest,
      by simp [elemsText], by decide⟩

theorem wsLen_nontrivia (c : UInt8) (xs : List UInt8) (h1 : isTrivia c = false) (h2 : c ≠ 59) :
    wsLen (c :: xs) = 0 := by
  simp [wsLen, h1, h2]

theorem wsLen_space (xs : List UInt8) : wsLen (32 :: xs) = wsLen xs + 1 := by
  simp [wsLen, isTrivia]

/-- The element loop of `parse_byte_list` over the printed octets and the closing parenthesis. -/
theorem byteListLoop_ok (cfg : Cfg) (bs : List UInt8) :
    ∀ (first : Bool) (acc : List UInt8) (fuel : Nat) (s : St) (rest : List UInt8),
      s.rd.rest = elemsText first bs ++ 41 :: rest →
      (elemsText first bs).length + 1 ≤ fuel →
      byteListLoop cfg 41 fuel acc s =
        .ok (acc ++ bs) (adv s ((elemsText first bs).length + 1) false) := by
  induction bs with
  | nil =>
    intro first acc fuel s rest hrest hfuel
    obtain ⟨f, rfl⟩ : ∃ f, fuel = f + 1 := ⟨fuel - 1, by omega⟩
    simp only [elemsText, List.nil_append] at hrest
    rw [byteListLoop]
    simp [parseWhitespace_eq, hrest, wsLen, isTrivia, peek_eq, discard_eq, elemsText]
  | cons b bs ih =>
    intro first acc fuel s rest hrest hfuel
    obtain ⟨f, rfl⟩ : ∃ f, fuel = f + 1 := ⟨fuel - 1, by omega⟩
    obtain ⟨d, tl, hd, he⟩ := natDigits_head b.toNat
    obtain ⟨g1, g2, g3⟩ := digit_facts2 d hd
    obtain ⟨-, -, -, -, g4, g5, g6⟩ := digit_facts d hd
    simp only [beq_eq_false_iff_ne, ne_eq] at g2 g3 g4 g5 g6
    generalize UInt8.ofNat (48 + d) = c at he g1 g2 g3 g4 g5 g6
    have hb : b.toNat ≤ u64Max := by have := UInt8.toNat_lt b; unfold u64Max; omega
    -- the separator
    have hsep : ∃ k, (if first then [] else [32] : List UInt8).length = k ∧
        wsLen s.rd.rest = k ∧
        s.rd.rest.drop k = natDigits b.toNat ++ (elemsText false bs ++ 41 :: rest) := by
      cases first
      · refine ⟨1, rfl, ?_, ?_⟩
        · rw [hrest]
          simp only [elemsText, he, Bool.false_eq_true, if_false, List.cons_append,
            List.nil_append, wsLen_space, wsLen_nontrivia c _ g1 g2]
        · rw [hrest]; simp [elemsText]
      · refine ⟨0, rfl, ?_, ?_⟩
        · rw [hrest]
          simp only [elemsText, he, if_true, List.cons_append,
            List.nil_append, wsLen_nontrivia c _ g1 g2]
        · rw [hrest]; simp [elemsText]
    obtain ⟨k, hk, hws, hdrop⟩ := hsep
    have hlen : (elemsText first (b :: bs)).length =
        k + (natDigits b.toNat).length + (elemsText false bs).length := by
      simp [elemsText, hk]; omega
    rw [hlen] at hfuel ⊢
    have hnl : (natDigits b.toNat).length = tl.length + 1 := by rw [he]; rfl
    rw [byteListLoop]
    have hr1 : (adv s k false).rd.rest = c :: (tl ++ (elemsText false bs ++ 41 :: rest)) := by
      rw [adv_rest, hdrop, he]; rfl
    simp only [bind_apply, parseWhitespace_eq, hws, peek_eq, hr1, g3, if_false,
      parseNumber, peekOrNull, pure_apply, Option.getD_some, g4, beq_iff_eq, adv_adv,
      parseRadixLiteral, g5, g6, adv_rest, hdrop, he, List.cons_append, Nat.add_zero]
    have hF := elemsText_follow bs rest
    rw [parseNumLiteral_ok cfg true b.toNat hb (f + 1) _ _
      (by rw [adv_rest, hdrop]) (by omega) hF (by simp)]
    simp only [adv_adv, endPeek_adv]
    rw [expectNumberEnd_ok _ _ (elemsText false bs ++ 41 :: rest)
      (by rw [adv_rest]; exact drop_add_left hdrop) hF (by simp)]
    simp only [numTailVal_pos, Number.asU64, adv_adv, Nat.add_zero]
    have h255 : ¬ b.toNat > 255 := by have := UInt8.toNat_lt b; omega
    simp only [h255, if_false]
    rw [ih false (acc ++ [UInt8.ofNat b.toNat]) f _ rest
      (by rw [adv_rest]; exact drop_add_left hdrop) (by omega)]
    simp only [adv_adv, UInt8.ofNat_toNat, List.append_assoc, List.cons_append, List.nil_append]
    rw [show k + (natDigits b.toNat).length + ((elemsText false bs).length + 1) =
      k + (natDigits b.toNat).length + (elemsText false bs).length + 1 by omega]
    rw [he]

/-! ## Fixed tokens -/

theorem nil_aux (cfg : Cfg) (fuel : Nat) (s : St) (rest : List UInt8)
    (h : s.rd.rest = 35 :: 110 :: 105 :: 108 :: rest) :
    parseToken cfg fuel 35 s = .ok .nil (adv s 4 false) := by
  simp [parseToken, discard_eq, next_eq, h, expectIdent, asc, ch]

theorem true_aux (cfg : Cfg) (fuel : Nat) (s : St) (rest : List UInt8)
    (h : s.rd.rest = 35 :: 116 :: rest) :
    parseToken cfg fuel 35 s = .ok (.bool true) (adv s 2 false) := by
  simp [parseToken, discard_eq, next_eq, h]

theorem false_aux (cfg : Cfg) (fuel : Nat) (s : St) (rest : List UInt8)
    (h : s.rd.rest = 35 :: 102 :: rest) :
    parseToken cfg fuel 35 s = .ok (.bool false) (adv s 2 false) := by
  simp [parseToken, discard_eq, next_eq, h]

theorem u8open_aux (cfg : Cfg) (fuel : Nat) (s : St) (rest : List UInt8)
    (h : s.rd.rest = 35 :: 117 :: 56 :: rest) :
    parseToken cfg fuel 35 s = .ok (.byteVecOpen 41) (adv s 3 false) := by
  simp [parseToken, discard_eq, next_eq, h, expectIdent, asc, ch]

theorem parseByteList_ok (cfg : Cfg) (fuel : Nat) (bs rest : List UInt8) (s : St)
    (hrest : s.rd.rest = 40 :: (Print.octetsText bs ++ 41 :: rest))
    (hfuel : (Print.octetsText bs).length + 1 ≤ fuel) :
    parseByteList cfg fuel 41 s = .ok bs (adv s ((Print.octetsText bs).length + 2) false) := by
  rw [octetsText_eq] at hrest hfuel ⊢
  unfold parseByteList
  have hw : wsLen (40 :: (elemsText true bs ++ 41 :: rest)) = 0 :=
    wsLen_nontrivia 40 _ (by decide) (by decide)
  simp only [bind_apply, parseWhitespace_eq, hrest, hw, peek_eq, adv_rest, List.drop_zero,
    beq_self_eq_true, if_true, discard_eq, adv_adv, Nat.add_zero, Nat.zero_add]
  rw [byteListLoop_ok cfg bs true [] fuel _ rest (by simp [hrest]) hfuel]
  simp only [adv_adv, List.nil_append]
  rw [show 1 + ((elemsText true bs).length + 1) = (elemsText true bs).length + 2 by omega]

/-! ## Symbols with a non-ASCII initial -/

/-- number of continuation bytes `decode_utf8_sequence` reads after the initial byte -/
def seqLen (initial : UInt8) : Option Nat :=
  if 0xC0 ≤ initial && initial ≤ 0xDF then some 1
  else if 0xE0 ≤ initial && initial ≤ 0xF7 then some ((initial.toNat - 0xC0) / 16)
  else none

theorem readCont_ok : ∀ (k : Nat) (acc : List UInt8) (s : St) (cont r : List UInt8),
    cont.length = k → s.rd.rest = cont ++ r → s.rd.peeked = false →
    readCont k acc s = .ok (acc ++ cont) (adv s k false) := by
  intro k
  induction k with
  | zero =>
    intro acc s cont r hl _ hp
    have : cont = [] := by simpa using hl
    subst this
    rw [← hp, adv_zero_self]; simp [readCont]
  | succ k ih =>
    intro acc s cont r hl hrest hp
    cases cont with
    | nil => simp at hl
    | cons b cont =>
      rw [readCont]
      simp only [bind_apply, next_eq, hrest, List.cons_append]
      rw [ih (acc ++ [b]) (adv s 1 false) cont r (by simpa using hl) (by simp [hrest]) (by simp)]
      simp [Nat.add_comm]

theorem run_append (st : Utf8.St) (xs ys : List UInt8) :
    Utf8.run st (xs ++ ys) = (Utf8.run st xs).bind (fun st' => Utf8.run st' ys) := by
  induction xs generalizing st with
  | nil => simp [Utf8.run]
  | cons x xs ih =>
    simp only [List.cons_append, Utf8.run]
    cases Utf8.step st x with
    | none => simp
    | some st' => simp [ih]

theorem step_mid (n : Nat) (lo hi b : UInt8) :
    Utf8.step (.mid n lo hi) b =
      if (lo ≤ b && b ≤ hi) = true then some (if n ≤ 1 then .idle else .mid (n - 1) 0x80 0xBF)
      else none := by
  simp only [Utf8.step]
  split
  · split <;> rfl
  · rfl

theorem run_mid : ∀ (n : Nat) (lo hi : UInt8) (cont tl : List UInt8),
    cont.length = n + 1 → Utf8.run (.mid (n + 1) lo hi) (cont ++ tl) ≠ none →
    Utf8.run (.mid (n + 1) lo hi) cont = some .idle := by
  intro n
  induction n with
  | zero =>
    intro lo hi cont tl hl hne
    match cont, hl with
    | [b], _ =>
      simp only [List.cons_append, List.nil_append, Utf8.run, step_mid] at hne ⊢
      by_cases h : (decide (lo ≤ b) && decide (b ≤ hi)) = true
      · simp [h]
      · simp [h] at hne
  | succ n ih =>
    intro lo hi cont tl hl hne
    match cont, hl with
    | b :: cont, hl =>
      simp only [List.cons_append, Utf8.run, step_mid] at hne ⊢
      by_cases h : (decide (lo ≤ b) && decide (b ≤ hi)) = true
      · have hn1 : ¬ (n + 1 + 1 ≤ 1) := by omega
        simp only [h, if_true, hn1, if_false, Nat.add_sub_cancel] at hne ⊢
        exact ih _ _ cont tl (by simpa using hl) hne
      · simp [h] at hne

/-- the automaton after a non-ASCII initial byte waits for exactly `seqLen` continuation bytes -/
def stepOk (b : UInt8) : Bool :=
  match Utf8.step .idle b with
  | none => true
  | some (.mid n _ _) => seqLen b == some n && decide (n ≥ 1)
  | some .idle => false

theorem stepOk_all : ∀ b : UInt8, ¬ (b < 0x80) → stepOk b = true := by
  apply forall_u8; decide +kernel

theorem valid_prefix (pk : UInt8) (cont tl : List UInt8) (hpk : ¬ (pk < 0x80))
    (hlen : seqLen pk = some cont.length)
    (hv : Utf8.valid (pk :: (cont ++ tl)) = true) : Utf8.valid (pk :: cont) = true := by
  have hs := stepOk_all pk hpk
  simp only [Utf8.valid, Utf8.run, beq_iff_eq] at hv ⊢
  unfold stepOk at hs
  cases hstep : Utf8.step .idle pk with
  | none => rw [hstep] at hv; simp at hv
  | some st =>
    rw [hstep] at hv hs
    cases st with
    | idle => simp at hs
    | mid n lo hi =>
      simp only [Bool.and_eq_true, beq_iff_eq, decide_eq_true_eq] at hs
      obtain ⟨h1, h2⟩ := hs
      rw [hlen] at h1
      have hn : cont.length = n := by simpa using h1
      obtain ⟨m, rfl⟩ : ∃ m, n = m + 1 := ⟨n - 1, by omega⟩
      simp only
      exact run_mid m lo hi cont tl hn (by simp only at hv; rw [hv]; simp)

/-! ### decodeFirst structure -/

theorem seqLen_facts : ∀ b : UInt8,
    ((0xC2 ≤ b && b < 0xE0) = true → seqLen b = some 1) ∧
    ((0xE0 ≤ b && b < 0xF0) = true → seqLen b = some 2) ∧
    ((0xF0 ≤ b && b < 0xF5) = true → seqLen b = some 3) := by
  apply forall_u8; decide +kernel

theorem decodeFirst_split (pk : UInt8) (tl : List UInt8) (c : Nat) (tl' : List UInt8)
    (hpk : ¬ (pk < 0x80)) (h : Utf8.decodeFirst (pk :: tl) = some (c, tl')) :
    ∃ cont, tl = cont ++ tl' ∧ seqLen pk = some cont.length ∧
      Utf8.decodeFirst (pk :: cont) = some (c, []) := by
  obtain ⟨s2, s3, s4⟩ := seqLen_facts pk
  unfold Utf8.decodeFirst at h
  simp only [hpk, if_false] at h
  by_cases h2 : (0xC2 ≤ pk && pk < 0xE0) = true
  · simp only [h2, if_true] at h
    match tl, h with
    | [], h => simp at h
    | b1 :: r, h =>
      by_cases hc1 : Utf8.isCont b1 = true
      · simp [hc1] at h
        obtain ⟨hc, hr⟩ := h
        subst hr
        refine ⟨[b1], rfl, s2 h2, ?_⟩
        unfold Utf8.decodeFirst
        simp [hpk, h2, hc1, hc]
      · simp [hc1] at h
  · simp only [h2] at h
    by_cases h3 : (0xE0 ≤ pk && pk < 0xF0) = true
    · simp only [h3, if_true] at h
      match tl, h with
      | [], h => simp at h
      | [_], h => simp at h
      | b1 :: b2 :: r, h =>
        by_cases hc1 : (Utf8.isCont b1 && Utf8.isCont b2) = true
        · simp only [hc1, if_true] at h
          simp at h
          obtain ⟨⟨hr1, hr2⟩, hc, hr⟩ := h
          subst hr
          refine ⟨[b1, b2], rfl, s3 h3, ?_⟩
          unfold Utf8.decodeFirst
          simp only [hpk, h2, h3, hc1, if_true, if_false]
          subst hc
          simp [hr1, hr2]
        · simp [hc1] at h
    · simp only [h3] at h
      by_cases h4 : (0xF0 ≤ pk && pk < 0xF5) = true
      · simp only [h4, if_true] at h
        match tl, h with
        | [], h => simp at h
        | [_], h => simp at h
        | [_, _], h => simp at h
        | b1 :: b2 :: b3 :: r, h =>
          by_cases hc1 : (Utf8.isCont b1 && Utf8.isCont b2 && Utf8.isCont b3) = true
          · simp only [hc1, if_true] at h
            simp at h
            obtain ⟨⟨hr1, hr2⟩, hc, hr⟩ := h
            subst hr
            refine ⟨[b1, b2, b3], rfl, s4 h4, ?_⟩
            unfold Utf8.decodeFirst
            simp only [hpk, h2, h3, h4, hc1, if_true, if_false]
            subst hc
            simp [hr1, hr2]
          · simp [hc1] at h
      · simp [h4] at h

/-! ### the non-ASCII arm -/

theorem decodeUtf8Sequence_ok (pk : UInt8) (cont r : List UInt8) (c : Nat) (s : St)
    (hlen : seqLen pk = some cont.length)
    (hrest : s.rd.rest = cont ++ r) (hp : s.rd.peeked = false)
    (hv : Utf8.valid (pk :: cont) = true)
    (hd : Utf8.decodeFirst (pk :: cont) = some (c, [])) :
    decodeUtf8Sequence pk s = .ok (c, pk :: cont) (adv s cont.length false) := by
  unfold decodeUtf8Sequence
  have hl : (if (0xC0 ≤ pk && pk ≤ 0xDF) = true then some 1
      else if (0xE0 ≤ pk && pk ≤ 0xF7) = true then some ((pk.toNat - 0xC0) / 16) else none)
      = some cont.length := hlen
  simp only [hl, bind_apply]
  rw [readCont_ok cont.length [pk] s cont r rfl hrest hp]
  simp [hv, hd]

theorem hi_facts1 : ∀ b : UInt8, b > 127 →
    b ≠ 35 ∧ b ≠ 45 ∧ b ≠ 43 ∧ isDigit b = false ∧ b ≠ 34 ∧ b ≠ 40 ∧ b ≠ 91 ∧ b ≠ 58 := by
  apply forall_u8; decide +kernel

theorem hi_facts2 : ∀ b : UInt8, b > 127 →
    isAsciiAlpha b = false ∧ b ≠ 63 ∧ b ≠ 39 ∧ b ≠ 96 ∧ b ≠ 44 ∧ ¬ (b < 0x80) ∧ b ≠ 46 := by
  apply forall_u8; decide +kernel

theorem symbol_unicode_aux (cfg : Cfg) (fuel : Nat) (pk : UInt8) (tl rest : List UInt8) (s : St)
    (c : Nat) (tl' : List UInt8)
    (ho : cfg.opts = Options.default) (hpk : pk > 127)
    (hdec : Utf8.decodeFirst (pk :: tl) = some (c, tl'))
    (halpha : cfg.isAlphabetic c = true)
    (hn : ∀ b ∈ tl', symTermSlice b = false)
    (hv : Utf8.valid (pk :: tl) = true)
    (hrest : s.rd.rest = (pk :: tl) ++ rest) (hF : Follow rest)
    (hf : rest = [] → s.rd.faulty = false) :
    parseToken cfg fuel pk s =
      .ok (.symbol (pk :: tl)) (adv s (tl.length + 1) (endPeek s rest)) := by
  obtain ⟨g1, g2, g3, g4, g5, g6, g7, g8⟩ := hi_facts1 pk hpk
  obtain ⟨g9, g10, g11, g12, g13, g14, g15⟩ := hi_facts2 pk hpk
  obtain ⟨cont, rfl, hlen, hd⟩ := decodeFirst_split pk tl c tl' g14 hdec
  have hvp : Utf8.valid (pk :: cont) = true := valid_prefix pk cont tl' g14 hlen hv
  have hdisp : parseToken cfg fuel pk = (do
      discard
      let (c, bytes) ← decodeUtf8Sequence pk
      if !cfg.isAlphabetic c then peekErr .expectedSomeValue
      else do
        let name ← parseSymbolBytes bytes
        pure (.symbol name)) := by
    unfold parseToken
    simp [g1, g2, g3, g4, g5, g6, g7, g8, g9, g10, g11, g12, g13, hpk, ho, Options.default,
      symbolToken]
  rw [hdisp]
  simp only [bind_apply, discard_eq, hrest, List.cons_append]
  rw [decodeUtf8Sequence_ok pk cont (tl' ++ rest) c (adv s 1 false) hlen (by simp [hrest]) (by simp)
    hvp hd]
  simp only [halpha, Bool.not_true, Bool.false_eq_true, if_false, bind_apply, adv_adv]
  rw [parseSymbolBytes_ok (pk :: cont) tl' rest _
    (by rw [adv_rest]; exact drop_add_left (by simp [hrest])) hF (by simpa using hf) hn
    (by intro h; simp at h; exact g15 h.1) (Or.inr (by simpa using hv))]
  simp only [pure_apply, adv_adv, endPeek_adv, List.cons_append, List.length_append]
  rw [show 1 + cont.length + tl'.length = cont.length + tl'.length + 1 by omega]

/-! ## Identifier classes -/

/-- subsequent characters of the ASCII identifier class: letters, digits and
    `!$%&*./:<=>?@^_~+-` -/
def isIdentSubsequent (b : UInt8) : Bool :=
  isAsciiAlpha b || isDigit b || isSymbolExtended b || b == 43 || b == 45

/-- The simple ASCII identifiers: an ASCII letter or one of `!$%&*/:<=>?@^_~` followed by letters,
    digits and `!$%&*./:<=>?@^_~+-`. -/
def asciiIdent : List UInt8 → Bool
  | [] => false
  | b :: tl => (isAsciiAlpha b || (isSymbolExtended b && b != 46)) && tl.all isIdentSubsequent

theorem identSubsequent_facts : ∀ b : UInt8, isIdentSubsequent b = true →
    symTermSlice b = false ∧ b < 0x80 := by
  apply forall_u8; decide +kernel

theorem ascii_valid (l : List UInt8) (h : ∀ b ∈ l, b < 0x80) : Utf8.valid l = true := by
  have : Utf8.run .idle l = some .idle := by
    induction l with
    | nil => rfl
    | cons b l ih =>
      have hb : b < 0x80 := h b (by simp)
      simp only [Utf8.run, Utf8.step, hb, if_true]
      exact ih (fun x hx => h x (by simp [hx]))
  simp [Utf8.valid, this]

theorem asciiIdent_plain (name : List UInt8) (h : asciiIdent name = true) : PlainIdent name := by
  cases name with
  | nil => simp [asciiIdent] at h
  | cons b tl =>
    simp only [asciiIdent, Bool.and_eq_true, Bool.or_eq_true, List.all_eq_true, bne_iff_ne,
      ne_eq] at h
    obtain ⟨hinit, htl⟩ := h
    have hb : isIdentSubsequent b = true := by
      rcases hinit with h | h
      · simp [isIdentSubsequent, h]
      · simp [isIdentSubsequent, h.1]
    have hall : ∀ x ∈ b :: tl, isIdentSubsequent x = true := by
      intro x hx
      rcases List.mem_cons.mp hx with rfl | hx
      · exact hb
      · exact htl x hx
    refine ⟨?_, ascii_valid _ (fun x hx => (identSubsequent_facts x (hall x hx)).2)⟩
    simp only [plainShape, Bool.and_eq_true, Bool.or_eq_true, List.all_eq_true, Bool.not_eq_true',
      bne_iff_ne, ne_eq]
    refine ⟨fun x hx => (identSubsequent_facts x (hall x hx)).1, Or.inl ⟨?_, ?_⟩⟩
    · rcases hinit with h | h
      · exact Or.inl h
      · exact Or.inr h.1
    · intro he
      have hb46 : b = 46 := by simpa using (List.cons.inj he).1
      rcases hinit with h | h
      · subst hb46; simp [isAsciiAlpha] at h
      · exact h.2 hb46

/-! ## Whitespace before a token, and the printed text -/

/-- `parse_whitespace` in front of a byte that is neither trivia nor `;` consumes nothing. -/
theorem parseWhitespace_token (s : St) (pk : UInt8) (tl : List UInt8)
    (hrest : s.rd.rest = pk :: tl) (h1 : isTrivia pk = false) (h2 : pk ≠ 59) :
    parseWhitespace s = .ok (some pk) (adv s 0 (s.rd.mode == .io)) := by
  rw [parseWhitespace_eq, hrest, wsLen_nontrivia pk tl h1 h2, peek_eq]
  simp [hrest]

/-- `parse_whitespace` skips blanks and `;` comments, then shows the first byte of the token. -/
theorem parseWhitespace_skip (s : St) (ws : List UInt8) (pk : UInt8) (tl : List UInt8)
    (hrest : s.rd.rest = ws ++ pk :: tl) (hws : wsLen (ws ++ pk :: tl) = ws.length) :
    parseWhitespace s = .ok (some pk) (adv s ws.length (s.rd.mode == .io)) := by
  rw [parseWhitespace_eq, hrest, hws, peek_eq]
  simp [hrest]

theorem adv_rest_text (s : St) (text rest : List UInt8) (p : Bool)
    (h : s.rd.rest = text ++ rest) : (adv s text.length p).rd.rest = rest := by
  simp [h]

/-- The text `Printer::print` writes for an atom with the default options. -/
def atomText (ryu : Nat → List UInt8) (v : Value) : List UInt8 :=
  Print.flatten (Print.atomEmits Print.Options.default ryu v)

theorem atomText_nil (ryu) : atomText ryu .nil = [35, 110, 105, 108] := by rfl
theorem atomText_true (ryu) : atomText ryu (.bool true) = [35, 116] := by rfl
theorem atomText_false (ryu) : atomText ryu (.bool false) = [35, 102] := by rfl
theorem atomText_char (ryu) (c : Nat) : atomText ryu (.char c) = Print.schemeChar c := by
  simp [atomText, Print.atomEmits, Print.flatten, Print.Emit.bytes, Print.charText,
    Print.Options.default]
theorem atomText_symbol (ryu) (n : List UInt8) : atomText ryu (.symbol n) = n := by
  simp [atomText, Print.atomEmits, Print.flatten, Print.Emit.bytes]
theorem atomText_keyword (ryu) (n : List UInt8) : atomText ryu (.keyword n) = 35 :: 58 :: n := by
  simp [atomText, Print.atomEmits, Print.flatten, Print.Emit.bytes, Print.keywordEmits,
    Print.Options.default]
  rw [show asc "#:" = [35, 58] by decide]; rfl
theorem atomText_string (ryu) (b : List UInt8) :
    atomText ryu (.string b) = 34 :: (Print.escapeStr .r6rs b ++ [34]) := by
  simp [atomText, Print.atomEmits, Print.flatten, Print.Emit.bytes, Print.Options.default]
  rw [show asc "\"" = [34] by decide]; rfl
theorem atomText_pos (ryu) (n : Nat) : atomText ryu (.number (.pos n)) = natDigits n := by
  simp [atomText, Print.atomEmits, Print.flatten, Print.Emit.bytes, Print.numberText]
theorem atomText_neg (ryu) (i : Int) : atomText ryu (.number (.neg i)) = intDigits i := by
  simp [atomText, Print.atomEmits, Print.flatten, Print.Emit.bytes, Print.numberText]
theorem atomText_bytes (ryu) (b : List UInt8) :
    atomText ryu (.bytes b) = 35 :: 117 :: 56 :: 40 :: (Print.octetsText b ++ [41]) := by
  simp [atomText, Print.atomEmits, Print.flatten, Print.Emit.bytes, Print.bytesEmits,
    Print.Options.default]
  rw [show asc "#u8(" = [35, 117, 56, 40] by decide, show asc ")" = [41] by decide]; rfl

/-! ## Example configuration, and witnesses that the hypotheses matter -/

theorem Follow.nil : Follow [] := Or.inl rfl
theorem Follow.cons {b : UInt8} {tl : List UInt8} (h : isFollow b = true) : Follow (b :: tl) :=
  Or.inr ⟨b, tl, rfl, h⟩

/-- example configuration: default dialect; only U+03BB is "alphabetic" -/
def exCfg : Cfg := { opts := Options.default, isAlphabetic := fun c => c == 955, pow10 := fun _ => 0 }
/-- example state: a slice source positioned at the start of `bs` -/
def exSt (bs : List UInt8) : St := { rd := { mode := .slice, rest := bs } }
def ryu0 : Nat → List UInt8 := fun _ => []

def tokIs (p : Token → Bool) : Res Token → Bool
  | .ok t _ => p t
  | _ => false
def isErr : Res Token → Bool
  | .err _ _ => true
  | _ => false

-- the symbol named `+1` is printed as `+1`, which reads as a number (not a `PlainIdent`)
example : tokIs (fun t => match t with | .number (.pos 1) => true | _ => false)
    (parseToken exCfg 3 43 (exSt (asc "+1"))) = true := by decide
-- the lone dot and a digit-initial name are errors
example : isErr (parseToken exCfg 3 46 (exSt (asc "."))) = true := by decide
example : isErr (parseToken exCfg 3 49 (exSt (asc "1+"))) = true := by decide
-- without `Follow`: a symbol runs on through `"` (not a symbol terminator)
example : tokIs (fun t => match t with | .symbol s => s == asc "foo\"bar\"" | _ => false)
    (parseToken exCfg 10 102 (exSt (asc "foo\"bar\""))) = true := by decide
-- without `Follow`: `#\x` followed by hex digits is a hex escape, not the letter x
example : tokIs (fun t => match t with | .char 65 => true | _ => false)
    (parseToken exCfg 10 35 (exSt (asc "#\\x41"))) = true := by decide
-- `#t` does not look at what follows
example : tokIs (fun t => match t with | .bool true => true | _ => false)
    (parseToken exCfg 10 35 (exSt (asc "#true"))) = true := by decide

/-! ## Main theorems

Conventions.  `s` is any parser state (any source mode: slice, str or stream; any position; any
peek flag), `s.rd.rest` is the unread input.  `atomText ryu v` is the concatenation of what the
printer emits for the atom `v` with default options.  `Follow rest` says the input after the token
is empty or starts with whitespace, a parenthesis, a bracket or `;`; `hf` excludes the one case
where the end of the input is a failing stream read.  `cfg.opts = Options.default` is the default
reader dialect (`cfg.fast`, the tables and the fuel are otherwise arbitrary).  The result is always
`.ok tok (adv s n p)`: the state `s` advanced by exactly the `n` bytes of the text (so
`(adv s n p).rd.rest = rest`, see `adv_rest_text`; line/column are those of `Rd.consume`), with
peek flag `p`; mode, fault flag and depth are unchanged. -/

/-- **atomRT_nil**: `#nil` reads as the nil token (any option set, no condition on what follows). -/
theorem atomRT_nil (cfg : Cfg) (ryu : Nat → List UInt8) (fuel : Nat) (s : St) (rest : List UInt8)
    (hrest : s.rd.rest = atomText ryu .nil ++ rest) :
    parseToken cfg fuel 35 s = .ok .nil (adv s (atomText ryu .nil).length false) := by
  rw [atomText_nil] at hrest ⊢
  exact nil_aux cfg fuel s rest hrest

/-- **atomRT_bool**: `#t` / `#f` read as the boolean tokens (any option set, no condition on what
    follows: `#true` is `#t` followed by `rue`). -/
theorem atomRT_bool (cfg : Cfg) (ryu : Nat → List UInt8) (fuel : Nat) (s : St) (rest : List UInt8)
    (b : Bool) (hrest : s.rd.rest = atomText ryu (.bool b) ++ rest) :
    parseToken cfg fuel 35 s = .ok (.bool b) (adv s (atomText ryu (.bool b)).length false) := by
  cases b
  · rw [atomText_false] at hrest ⊢; exact false_aux cfg fuel s rest hrest
  · rw [atomText_true] at hrest ⊢; exact true_aux cfg fuel s rest hrest

/-- **atomRT_char**: for every Unicode scalar value `c` the text of `write_scheme_char`
    (`#\c` for printable ASCII including `#\x`, else `#\x<hex>`) reads back as `c`
    (any option set). -/
theorem atomRT_char (cfg : Cfg) (ryu : Nat → List UInt8) (fuel : Nat) (s : St) (rest : List UInt8)
    (c : Nat) (hc : isScalar c = true)
    (hrest : s.rd.rest = atomText ryu (.char c) ++ rest)
    (hfuel : (atomText ryu (.char c)).length ≤ fuel)
    (hF : Follow rest) (hf : rest = [] → s.rd.faulty = false) :
    parseToken cfg fuel 35 s =
      .ok (.char c) (adv s (atomText ryu (.char c)).length (endPeek s rest)) := by
  rw [atomText_char] at hrest hfuel ⊢
  exact char_aux cfg fuel c rest s hc hrest (by omega) hF hf

/-- **atomRT_string**: for every byte string that is valid UTF-8 (not needed for the `str`
    source), the quoted and escaped text reads back as the same bytes.  No condition on what
    follows the closing quote. -/
theorem atomRT_string (cfg : Cfg) (ryu : Nat → List UInt8) (fuel : Nat) (s : St)
    (rest : List UInt8) (bytes : List UInt8)
    (ho : cfg.opts = Options.default)
    (hv : s.rd.mode = .str ∨ Utf8.valid bytes = true)
    (hrest : s.rd.rest = atomText ryu (.string bytes) ++ rest)
    (hfuel : (atomText ryu (.string bytes)).length ≤ fuel) :
    parseToken cfg fuel 34 s =
      .ok (.string bytes) (adv s (atomText ryu (.string bytes)).length false) := by
  rw [atomText_string] at hrest hfuel ⊢
  have := string_aux cfg fuel bytes rest s ho (by rw [hrest]; simp)
    (by simp at hfuel; omega) hv
  rw [this]; simp

/-- **atomRT_symbol**: every plain identifier (`PlainIdent`: ASCII-letter / `!$%&*./:<=>?@^_~`
    initial or peculiar `+`/`-` identifier, no terminator byte, valid UTF-8) printed verbatim reads
    back as the symbol with that name. -/
theorem atomRT_symbol (cfg : Cfg) (ryu : Nat → List UInt8) (fuel : Nat) (s : St)
    (rest : List UInt8) (name : List UInt8) (pk : UInt8)
    (ho : cfg.opts = Options.default) (hid : PlainIdent name)
    (hrest : s.rd.rest = atomText ryu (.symbol name) ++ rest)
    (hpk : (atomText ryu (.symbol name)).head? = some pk)
    (hF : Follow rest) (hf : rest = [] → s.rd.faulty = false) :
    parseToken cfg fuel pk s =
      .ok (.symbol name) (adv s (atomText ryu (.symbol name)).length (endPeek s rest)) := by
  rw [atomText_symbol] at hrest hpk ⊢
  cases name with
  | nil => simp at hpk
  | cons b tl =>
    have : b = pk := by simpa using hpk
    subst this
    exact symbol_aux cfg fuel b tl rest s ho hrest hF hf hid.1 (Or.inr hid.2)

/-- **atomRT_symbol_unicode**: a name that starts with a non-ASCII scalar `c` which the reader
    classifies as alphabetic (`cfg.isAlphabetic`), is valid UTF-8 and has no terminator byte after
    the first scalar reads back as the symbol with that name. -/
theorem atomRT_symbol_unicode (cfg : Cfg) (ryu : Nat → List UInt8) (fuel : Nat) (s : St)
    (rest : List UInt8) (pk : UInt8) (tl : List UInt8) (c : Nat) (tl' : List UInt8)
    (ho : cfg.opts = Options.default) (hpk : pk > 127)
    (hdec : Utf8.decodeFirst (pk :: tl) = some (c, tl'))
    (halpha : cfg.isAlphabetic c = true)
    (hn : ∀ b ∈ tl', symTermSlice b = false)
    (hv : Utf8.valid (pk :: tl) = true)
    (hrest : s.rd.rest = atomText ryu (.symbol (pk :: tl)) ++ rest)
    (hF : Follow rest) (hf : rest = [] → s.rd.faulty = false) :
    parseToken cfg fuel pk s =
      .ok (.symbol (pk :: tl))
        (adv s (atomText ryu (.symbol (pk :: tl))).length (endPeek s rest)) := by
  rw [atomText_symbol] at hrest ⊢
  exact symbol_unicode_aux cfg fuel pk tl rest s c tl' ho hpk hdec halpha hn hv hrest hF hf

/-- **atomRT_keyword**: `#:name` reads back as the keyword `name` for every name without a
    terminator byte that is valid UTF-8 and not the lone dot (the empty name included). -/
theorem atomRT_keyword (cfg : Cfg) (ryu : Nat → List UInt8) (fuel : Nat) (s : St)
    (rest : List UInt8) (name : List UInt8)
    (ho : cfg.opts = Options.default)
    (hn : ∀ b ∈ name, symTermSlice b = false) (hdot : name ≠ [46])
    (hv : s.rd.mode = .str ∨ Utf8.valid name = true)
    (hrest : s.rd.rest = atomText ryu (.keyword name) ++ rest)
    (hF : Follow rest) (hf : rest = [] → s.rd.faulty = false) :
    parseToken cfg fuel 35 s =
      .ok (.keyword name) (adv s (atomText ryu (.keyword name)).length (endPeek s rest)) := by
  rw [atomText_keyword] at hrest ⊢
  have := kw_aux cfg fuel name rest s ho (by rw [hrest]; simp) hF hf hn hdot hv
  rw [this]; simp

/-- **atomRT_posint**: the decimal digits of `n ≤ u64::MAX` read back as `PosInt(n)`. -/
theorem atomRT_posint (cfg : Cfg) (ryu : Nat → List UInt8) (fuel : Nat) (s : St)
    (rest : List UInt8) (n : Nat) (pk : UInt8)
    (ho : cfg.opts = Options.default) (hn : n ≤ u64Max)
    (hrest : s.rd.rest = atomText ryu (.number (.pos n)) ++ rest)
    (hpk : (atomText ryu (.number (.pos n))).head? = some pk)
    (hfuel : (atomText ryu (.number (.pos n))).length ≤ fuel)
    (hF : Follow rest) (hf : rest = [] → s.rd.faulty = false) :
    parseToken cfg fuel pk s =
      .ok (.number (.pos n))
        (adv s (atomText ryu (.number (.pos n))).length (endPeek s rest)) := by
  rw [atomText_pos] at hrest hpk hfuel ⊢
  exact posint_aux cfg fuel pk n rest s ho hn hrest hpk hfuel hF hf

/-- **atomRT_negint**: what `itoa` prints for `i64::MIN ≤ i < 0` reads back as `NegInt(i)`
    (any option set). -/
theorem atomRT_negint (cfg : Cfg) (ryu : Nat → List UInt8) (fuel : Nat) (s : St)
    (rest : List UInt8) (i : Int) (h1 : i64Min ≤ i) (h2 : i < 0)
    (hrest : s.rd.rest = atomText ryu (.number (.neg i)) ++ rest)
    (hfuel : (atomText ryu (.number (.neg i))).length ≤ fuel)
    (hF : Follow rest) (hf : rest = [] → s.rd.faulty = false) :
    parseToken cfg fuel 45 s =
      .ok (.number (.neg i))
        (adv s (atomText ryu (.number (.neg i))).length (endPeek s rest)) := by
  rw [atomText_neg] at hrest hfuel ⊢
  exact negint_aux cfg fuel i rest s h1 h2 hrest (by omega) hF hf

/-- **atomRT_bytes**: `#u8(` octets `)` : the token is `byteVecOpen` after `#u8`, and
    `parse_byte_list` then returns exactly the bytes and stops after the closing parenthesis
    (any option set, no condition on what follows). -/
theorem atomRT_bytes (cfg : Cfg) (ryu : Nat → List UInt8) (fuel : Nat) (s : St)
    (rest : List UInt8) (bs : List UInt8)
    (hrest : s.rd.rest = atomText ryu (.bytes bs) ++ rest)
    (hfuel : (atomText ryu (.bytes bs)).length ≤ fuel) :
    parseToken cfg fuel 35 s = .ok (.byteVecOpen 41) (adv s 3 false) ∧
    parseByteList cfg fuel 41 (adv s 3 false) =
      .ok bs (adv s (atomText ryu (.bytes bs)).length false) := by
  rw [atomText_bytes] at hrest hfuel ⊢
  refine ⟨u8open_aux cfg fuel s _ (by rw [hrest]; rfl), ?_⟩
  have := parseByteList_ok cfg fuel bs rest (adv s 3 false) (by simp [hrest])
    (by simp at hfuel; omega)
  have hl : (35 :: 117 :: 56 :: 40 :: (Print.octetsText bs ++ [41])).length =
      3 + ((Print.octetsText bs).length + 2) := by simp; omega
  rw [this, adv_adv, hl]

/-- The atoms covered by the per-kind theorems (floats, byte vectors — which are not a single
    token — `Null`, and names outside the plain classes are not). -/
def Supported : Value → Prop
  | .nil => True
  | .bool _ => True
  | .char c => isScalar c = true
  | .string b => Utf8.valid b = true
  | .symbol n => PlainIdent n
  | .keyword n => (∀ b ∈ n, symTermSlice b = false) ∧ n ≠ [46] ∧ Utf8.valid n = true
  | .number (.pos n) => n ≤ u64Max
  | .number (.neg i) => i64Min ≤ i ∧ i < 0
  | _ => False

theorem nonterm_start : ∀ b : UInt8, symTermSlice b = false → isTrivia b = false ∧ b ≠ 59 := by
  apply forall_u8; decide +kernel

/-- **atomRT**: for every supported atom `v`, the default printer's text, followed by a `Follow`
    context, starts with a byte `pk` at which `parse_whitespace` stops, and `parse_token` at `pk`
    consumes exactly the text and returns a token whose value is `v`. -/
theorem atomRT (cfg : Cfg) (ryu : Nat → List UInt8) (fuel : Nat) (s : St) (rest : List UInt8)
    (v : Value) (ho : cfg.opts = Options.default) (hsup : Supported v)
    (hrest : s.rd.rest = atomText ryu v ++ rest)
    (hfuel : (atomText ryu v).length ≤ fuel)
    (hF : Follow rest) (hf : rest = [] → s.rd.faulty = false) :
    ∃ pk tok p, (atomText ryu v).head? = some pk ∧ isTrivia pk = false ∧ pk ≠ 59 ∧
      parseToken cfg fuel pk s = .ok tok (adv s (atomText ryu v).length p) ∧
      tok.atom = some v := by
  cases v with
  | nil =>
    exact ⟨35, .nil, false, by rw [atomText_nil]; rfl, by decide, by decide,
      atomRT_nil cfg ryu fuel s rest hrest, rfl⟩
  | bool b =>
    refine ⟨35, .bool b, false, ?_, by decide, by decide,
      atomRT_bool cfg ryu fuel s rest b hrest, rfl⟩
    cases b
    · rw [atomText_false]; rfl
    · rw [atomText_true]; rfl
  | char c =>
    refine ⟨35, .char c, _, ?_, by decide, by decide,
      atomRT_char cfg ryu fuel s rest c hsup hrest hfuel hF hf, rfl⟩
    rw [atomText_char]; unfold Print.schemeChar; split <;> rfl
  | string b =>
    exact ⟨34, .string b, false, by rw [atomText_string]; rfl, by decide, by decide,
      atomRT_string cfg ryu fuel s rest b ho (Or.inr hsup) hrest hfuel, rfl⟩
  | symbol n =>
    cases n with
    | nil => exact absurd hsup.1 (by simp [plainShape])
    | cons b tl =>
      have hb : symTermSlice b = false := by
        have := hsup.1
        simp only [plainShape, Bool.and_eq_true, List.all_eq_true, Bool.not_eq_true'] at this
        exact this.1 b (by simp)
      obtain ⟨t1, t2⟩ := nonterm_start b hb
      exact ⟨b, .symbol (b :: tl), _, by rw [atomText_symbol]; rfl, t1, t2,
        atomRT_symbol cfg ryu fuel s rest (b :: tl) b ho hsup hrest (by rw [atomText_symbol]; rfl)
          hF hf, rfl⟩
  | keyword n =>
    exact ⟨35, .keyword n, _, by rw [atomText_keyword]; rfl, by decide, by decide,
      atomRT_keyword cfg ryu fuel s rest n ho hsup.1 hsup.2.1 (Or.inr hsup.2.2) hrest hF hf, rfl⟩
  | number num =>
    cases num with
    | pos n =>
      obtain ⟨d, tl, hd, he⟩ := natDigits_head n
      obtain ⟨t1, t2, -⟩ := digit_facts2 d hd
      have hh : (atomText ryu (.number (.pos n))).head? = some (UInt8.ofNat (48 + d)) := by
        rw [atomText_pos, he]; rfl
      exact ⟨_, .number (.pos n), _, hh, t1, by simpa using t2,
        atomRT_posint cfg ryu fuel s rest n _ ho hsup hrest hh hfuel hF hf, rfl⟩
    | neg i =>
      have hh : (atomText ryu (.number (.neg i))).head? = some 45 := by
        rw [atomText_neg]; simp only [intDigits, hsup.2, if_true]; rfl
      exact ⟨45, .number (.neg i), _, hh, by decide, by decide,
        atomRT_negint cfg ryu fuel s rest i hsup.1 hsup.2 hrest hfuel hF hf, rfl⟩
    | flt b => exact absurd hsup id
  | null => exact absurd hsup id
  | bytes b => exact absurd hsup id
  | cons a d => exact absurd hsup id
  | vector xs => exact absurd hsup id

/-- **atomRT_lex**: the lexer steps `next_value` performs — `parse_whitespace`, the fuel
    `tokenFuel`, `parse_token` — on the printed text of a supported atom in a `Follow` context. -/
theorem atomRT_lex (cfg : Cfg) (ryu : Nat → List UInt8) (s : St) (rest : List UInt8)
    (v : Value) (ho : cfg.opts = Options.default) (hsup : Supported v)
    (hrest : s.rd.rest = atomText ryu v ++ rest)
    (hF : Follow rest) (hf : rest = [] → s.rd.faulty = false) :
    ∃ pk tok p s1, parseWhitespace s = .ok (some pk) s1 ∧
      tokenFuel s1 = .ok ((atomText ryu v ++ rest).length + 1) s1 ∧
      parseToken cfg ((atomText ryu v ++ rest).length + 1) pk s1 =
        .ok tok (adv s (atomText ryu v).length p) ∧
      tok.atom = some v := by
  have hs1 : (adv s 0 (s.rd.mode == .io)).rd.rest = atomText ryu v ++ rest := by simp [hrest]
  obtain ⟨pk, tok, p, hhead, t1, t2, hp, ha⟩ :=
    atomRT cfg ryu ((atomText ryu v ++ rest).length + 1) (adv s 0 (s.rd.mode == .io)) rest v ho
      hsup hs1 (by simp; omega) hF (by simpa using hf)
  cases htxt : atomText ryu v with
  | nil => rw [htxt] at hhead; simp at hhead
  | cons b tl =>
    have hb : b = pk := by rw [htxt] at hhead; simpa using hhead
    subst hb
    refine ⟨b, tok, p, _, parseWhitespace_token s b (tl ++ rest) (by rw [hrest, htxt]; rfl) t1 t2,
      ?_, ?_, ha⟩
    · simp [tokenFuel, hrest, htxt]
    · rw [← htxt]; simpa using hp

/-- **atomRT_rest**: the form of the task statement — with `s.rd.rest = text ++ rest`,
    `Follow rest` and enough fuel, `parse_token` succeeds with the token of the atom and leaves
    exactly `rest` unread (source mode, fault flag and depth unchanged). -/
theorem atomRT_rest (cfg : Cfg) (ryu : Nat → List UInt8) (fuel : Nat) (s : St) (rest : List UInt8)
    (v : Value) (ho : cfg.opts = Options.default) (hsup : Supported v)
    (hrest : s.rd.rest = atomText ryu v ++ rest)
    (hfuel : (atomText ryu v ++ rest).length + 1 ≤ fuel)
    (hF : Follow rest) (hf : rest = [] → s.rd.faulty = false) :
    ∃ pk tok s', (atomText ryu v).head? = some pk ∧
      parseToken cfg fuel pk s = .ok tok s' ∧ tok.atom = some v ∧
      s'.rd.rest = rest ∧ s'.rd.mode = s.rd.mode ∧ s'.rd.faulty = s.rd.faulty ∧
      s'.depth = s.depth := by
  obtain ⟨pk, tok, p, h1, -, -, h2, h3⟩ := atomRT cfg ryu fuel s rest v ho hsup hrest
    (by simp at hfuel; omega) hF hf
  exact ⟨pk, tok, _, h1, h2, h3, adv_rest_text s _ rest p hrest, by simp, by simp, by simp⟩

/-! ### Instances: every main theorem applies to a non-trivial input -/

example := atomRT_nil exCfg ryu0 0 (exSt (atomText ryu0 .nil ++ asc ")")) (asc ")") rfl
example := atomRT_bool exCfg ryu0 0 (exSt (atomText ryu0 (.bool true) ++ asc "rue")) (asc "rue")
  true rfl
-- U+03BB is written `#\x3bb`; `x` itself is written `#\x`
example := atomRT_char exCfg ryu0 8 (exSt (atomText ryu0 (.char 955) ++ asc " x")) (asc " x") 955
  (by decide) rfl (by decide) (Follow.cons (by decide)) (fun _ => rfl)
example := atomRT_char exCfg ryu0 8 (exSt (atomText ryu0 (.char 120) ++ [])) [] 120
  (by decide) rfl (by decide) Follow.nil (fun _ => rfl)
-- quote, backslash, newline, a control byte and a two-byte scalar
example := atomRT_string exCfg ryu0 20
  (exSt (atomText ryu0 (.string [97, 34, 92, 10, 1, 0xC3, 0xA9]) ++ asc "tail"))
  (asc "tail") [97, 34, 92, 10, 1, 0xC3, 0xA9] rfl (Or.inr (by decide)) rfl (by decide)
example : PlainIdent (asc "hello-world!") ∧ PlainIdent (asc "+") ∧ PlainIdent (asc "-x") ∧
    PlainIdent (asc "...") ∧ PlainIdent (asc "+.x") ∧ PlainIdent (asc "<=?") ∧
    PlainIdent [104, 0xC3, 0xA9] ∧ ¬ PlainIdent (asc ".") ∧ ¬ PlainIdent (asc "+1") ∧
    ¬ PlainIdent (asc "1+") ∧ ¬ PlainIdent (asc "a b") ∧ ¬ PlainIdent (asc "#a") := by decide
example := atomRT_symbol exCfg ryu0 0 (exSt (atomText ryu0 (.symbol (asc "set-car!")) ++ asc ")"))
  (asc ")") (asc "set-car!") 115 rfl (by decide) rfl rfl (Follow.cons (by decide)) (fun _ => rfl)
example := atomRT_symbol exCfg ryu0 0 (exSt (atomText ryu0 (.symbol (asc "-.e")) ++ asc " 1"))
  (asc " 1") (asc "-.e") 45 rfl (by decide) rfl rfl (Follow.cons (by decide)) (fun _ => rfl)
-- `λx`
example := atomRT_symbol_unicode exCfg ryu0 0
  (exSt (atomText ryu0 (.symbol [0xCE, 0xBB, 120]) ++ [])) [] 0xCE [0xBB, 120] 955 [120]
  rfl (by decide) (by decide) rfl (by decide) (by decide) rfl Follow.nil (fun _ => rfl)
example := atomRT_keyword exCfg ryu0 0 (exSt (atomText ryu0 (.keyword (asc "key")) ++ asc "\n"))
  (asc "\n") (asc "key") rfl (by decide) (by decide) (Or.inr (by decide)) rfl
  (Follow.cons (by decide)) (fun _ => rfl)
example := atomRT_posint exCfg ryu0 20
  (exSt (atomText ryu0 (.number (.pos u64Max)) ++ asc ")")) (asc ")") u64Max 49 rfl
  (Nat.le_refl _) rfl (by decide) (by decide) (Follow.cons (by decide)) (fun _ => rfl)
example := atomRT_negint exCfg ryu0 20
  (exSt (atomText ryu0 (.number (.neg i64Min)) ++ asc " ")) (asc " ") i64Min
  (Int.le_refl _) (by decide) rfl (by decide) (Follow.cons (by decide)) (fun _ => rfl)
example := atomRT_bytes exCfg ryu0 20 (exSt (atomText ryu0 (.bytes [0, 255, 7]) ++ asc "x"))
  (asc "x") [0, 255, 7] rfl (by decide)
example : Supported (.symbol (asc "a.b")) ∧ Supported (.char 0x10FFFF) ∧
    Supported (.number (.neg (-1))) ∧ Supported (.keyword []) := by
  refine ⟨?_, ?_, ?_, ?_⟩
  · show PlainIdent _; decide
  · show isScalar _ = true; decide
  · show _ ∧ _; decide
  · show _ ∧ _ ∧ _; simp; decide
example := atomRT_lex exCfg ryu0 (exSt (atomText ryu0 (.symbol (asc "a.b")) ++ asc ")"))
  (asc ")") (.symbol (asc "a.b")) rfl (by show PlainIdent _; decide) rfl
  (Follow.cons (by decide)) (fun _ => rfl)

#print axioms atomRT_nil
#print axioms atomRT_bool
#print axioms atomRT_char
#print axioms atomRT_string
#print axioms atomRT_symbol
#print axioms atomRT_symbol_unicode
#print axioms atomRT_keyword
#print axioms atomRT_posint
#print axioms atomRT_negint
#print axioms atomRT_bytes
#print axioms atomRT
#print axioms atomRT_lex
#print axioms atomRT_rest

end Parse
end Lexpr
