/-
  FloatApproxImage2 — C13 with the finiteness of the float leaves discharged.

  `C13_reparse_approx` (FloatApproxImage.lean) asks `RyuSpecOnly` of every float leaf, which
  includes "the double is finite".  Floats in the image of the parser are always finite
  (`nextValue_floats_finite`, FloatApproxFin.lean), so the hypothesis can be reduced to what it
  says about the formatter: *if* the leaf is a finite double *then* ryu's text for it meets
  `RyuSpec` (`floatSideC`).  (With a formatter that is right on every finite double the condition
  holds for every leaf, so nothing about the floats of the accepted value is left to assume; no
  such formatter is constructed here, so that corollary is not stated.)
-/
import LexprModel.Proofs.FloatApproxImage
import LexprModel.Proofs.FloatApproxFin
namespace Lexpr
namespace FloatApprox
open Parse Parse.ListRT Print Spec F64 Numbers Decimals

/-- (a'') what is asked of the formatter on a float leaf: if the leaf is a finite double, ryu's
    text for it meets `RyuSpec` (and, fast build, the table / range clauses of `RyuSpecOnly`) -/
def floatSideC (cfg : Cfg) (ryu : Nat → List UInt8) : Value → Prop
  | .number (.flt b) => FinF b → RyuSpecOnly cfg ryu b
  | _ => True

/-- (a'') and (d1) -/
def AtomSideC (cfg : Cfg) (ryu : Nat → List UInt8) (a : Value) : Prop :=
  Image.kwDotOk cfg.opts a = true ∧ floatSideC cfg ryu a

theorem sideA_of_C (cfg : Cfg) (ryu : Nat → List UInt8) (a : Value)
    (h : AtomSideC cfg ryu a ∧ LeafFin a) : AtomSideA cfg ryu a := by
  obtain ⟨⟨h1, h2⟩, h3⟩ := h
  refine ⟨h1, ?_⟩
  cases a with
  | number n =>
    cases n with
    | flt b => exact h2 h3
    | pos n => exact True.intro
    | neg i => exact True.intro
  | _ => exact True.intro

/-- **C13_reparse_approx_fin.**  `from_slice_custom(bytes, R) = Ok(v)` implies
    `from_slice_custom(to_string_custom(v, pof R), R) = Ok(w)` with `Value.approxEq v w`, where
    the only thing assumed about floats concerns the formatter: for each float leaf `b` of `v`,
    *if* `b` is a finite double *then* `RyuSpecOnly cfg ryu b` (`AtomSideC`).  That the leaves are
    finite is proved (`fromTrait_floats_finite`; the `POW10` table holds finite doubles `≥ 1.0`:
    `TabFin`).  Other hypotheses as in `Image.C13_reparse_partial`. -/
theorem C13_reparse_approx_fin (cfg : Cfg) (ryu : Nat → List UInt8) (bytes : List UInt8)
    (v : Value) (s1 : St) (ht : TabFin cfg)
    (h : fromTrait cfg (initSt .slice bytes) = .ok v s1)
    (hside : Image.AllAtoms (AtomSideC cfg ryu) v)
    (hdot : Image.carDotOk (pof cfg.opts) v = true)
    (hnest : cfg.opts.nil = .emptyList → ListRT.nestingP (pof cfg.opts) v ≤ 127) :
    ∃ w s', Value.approxEq v w ∧
      fromTrait cfg (initSt .slice (Print.text (pof cfg.opts) ryu v)) = .ok w s' ∧
      s'.rd.rest = [] ∧ s'.depth = 128 :=
  C13_reparse_approx cfg ryu bytes v s1 h
    (Image.AllAtoms.imp (sideA_of_C cfg ryu) v
      (Image.AllAtoms.and v hside (fromTrait_floats_finite ht h))) hdot hnest

/-! ### instance -/

/-- non-vacuity of `C13_reparse_approx_fin`: the accepted text `(a 11e23 .  #(2.50))` of
    `C13_reparse_approx_strict` -/
example : ∃ w s', Value.approxEq exG w ∧
    fromTrait exCfgFast (initSt .slice (Print.text (pof exCfgFast.opts) ryuC exG)) = .ok w s' ∧
    s'.rd.rest = [] ∧ s'.depth = 128 := by
  obtain ⟨s1, hacc⟩ := exG_accepted
  exact C13_reparse_approx_fin exCfgFast ryuC _ exG s1
    (tabFin_of_rounded _ exTab) hacc
    (by simp only [exG, Image.AllAtoms, Image.AllAtomsSeq, AtomSideC, floatSideC, and_true]
        exact ⟨by decide, ⟨by decide, fun _ => ryuC_g⟩, by decide, fun _ => ryuC_25⟩)
    (by decide) (fun hn => absurd hn (by decide))

#print axioms C13_reparse_approx_fin

end FloatApprox
end Lexpr
