/-
  Utf8InputTokBase — C17, input clause ("input that is not valid UTF-8 inside a string, symbol or
  character is rejected"), the tools for the token scanners other than the Emacs Lisp string loop:

  * `VC s s'`: `s'` is reached from `s` by consuming a chunk of valid UTF-8 (same source);
    closed under composition (`VC.trans`), contains the ASCII steps (`VC.of_asuf`);
  * R6RS strings: `parseR6rsEscape_shape` (every escape is ASCII text and appends a NON-EMPTY
    well-formed text), `parseR6rsStr_inv` (the automaton run over the consumed body equals the run
    over the scratch buffer) and `parseR6rsStr_vc`;
  * symbols: `parseSymbolBytes_vc` (the bytes scanned behind a well-formed scratch prefix);
  * characters: `parseR6rsChar_vc`, `decodeElispCharEscape_vc`, `parseElispChar_vc`.

  All statements are for the sources that validate (`mode ≠ .str`: slice and stream); for the
  &str source the input is valid UTF-8 by its type and nothing is to prove.
-/
import LexprModel.Proofs.Utf8InputLoop
namespace Lexpr
namespace Parse
namespace InTok
open Utf8 Utf8.U8 Parse.U8 InLoop

/-! ### consuming a valid chunk -/

/-- `s'` is reached from `s` by consuming a chunk of valid UTF-8; the source is the same -/
def VC (s s' : St) : Prop :=
  s'.rd.mode = s.rd.mode ∧ ∃ w, valid w = true ∧ s.rd.rest = w ++ s'.rd.rest

theorem VC.refl (s : St) : VC s s := ⟨rfl, [], valid_nil, rfl⟩

theorem VC.trans {a b c : St} (h1 : VC a b) (h2 : VC b c) : VC a c := by
  obtain ⟨m1, p1, a1, r1⟩ := h1
  obtain ⟨m2, p2, a2, r2⟩ := h2
  exact ⟨m2.trans m1, p1 ++ p2, valid_append a1 a2, by rw [r1, r2, List.append_assoc]⟩

theorem VC.of_asuf {s s' : St} (h : ASuf s s') : VC s s' := by
  obtain ⟨m, p, a, r⟩ := h
  exact ⟨m, p, valid_ascii a, r⟩

theorem VC.chunk {s s' : St} {w : List UInt8} (hm : s'.rd.mode = s.rd.mode)
    (hr : s.rd.rest = w ++ s'.rd.rest) (hv : valid w = true) : VC s s' := ⟨hm, w, hv, hr⟩

theorem VC.one {s s' : St} {b : UInt8} (hm : s'.rd.mode = s.rd.mode)
    (hr : s.rd.rest = b :: s'.rd.rest) (hb : b < 0x80) : VC s s' :=
  VC.of_asuf (ASuf.one hm hr hb)

theorem VC.same {s s' : St} (hm : s'.rd.mode = s.rd.mode) (hr : s'.rd.rest = s.rd.rest) :
    VC s s' := VC.of_asuf (ASuf.same hm hr)

theorem VC.eq {s s' : St} (h : s' = s) : VC s s' := h ▸ VC.refl s

theorem VC.tail {s0 s s1 : St} {b : UInt8} (h : VC s0 s) (hm : s1.rd.mode = s.rd.mode)
    (hr : s.rd.rest = b :: s1.rd.rest) (hb : b < 0x80) : VC s0 s1 := h.trans (VC.one hm hr hb)

theorem VC.asuf {s0 s s1 : St} (h : VC s0 s) (ha : ASuf s s1) : VC s0 s1 := h.trans (VC.of_asuf ha)

/-- what `VC` says about any way of writing the consumed bytes -/
theorem VC.valid_of {s s' : St} {w : List UInt8} (h : VC s s') (hw : s.rd.rest = w ++ s'.rd.rest) :
    valid w = true := by
  obtain ⟨_, w', hv, hr⟩ := h
  have : w = w' := List.append_cancel_right (hw.symm.trans hr)
  rw [this]; exact hv

theorem VC.mode {s s' : St} (h : VC s s') : s'.rd.mode = s.rd.mode := h.1

/-! ### R6RS strings -/

set_option hygiene false in
local macro "r6_one" : tactic => `(tactic| (
  rcases ite_ok h with ⟨hc, h⟩ | ⟨_, h⟩
  · obtain ⟨h1, h2⟩ := pure_ok h
    subst h1; subst h2
    exact ⟨hm, c, [], _, by rw [eq_of_beq hc]; decide, Ascii.nil, hr, rfl, by simp,
      valid_ascii (by decide)⟩))

/-- **One R6RS escape**: the bytes consumed after the backslash are ASCII (`c :: t`) and the text
    appended is non-empty and well-formed.  (Unlike the Emacs syntax there is no escape that
    appends nothing and none that appends a raw byte.) -/
theorem parseR6rsEscape_shape {fuel : Nat} {acc acc' : List UInt8} {s s' : St}
    (h : parseR6rsEscape fuel acc s = .ok acc' s') :
    s'.rd.mode = s.rd.mode ∧ ∃ c t out, c < 0x80 ∧ Ascii t ∧ s.rd.rest = c :: (t ++ s'.rd.rest) ∧
      acc' = acc ++ out ∧ out ≠ [] ∧ valid out = true := by
  unfold parseR6rsEscape at h
  obtain ⟨c, s1, hn, h⟩ := bind_ok h
  obtain ⟨hm, hr⟩ := nextOrEof_ok hn
  r6_one; r6_one; r6_one; r6_one; r6_one; r6_one; r6_one; r6_one; r6_one; r6_one
  rcases ite_ok h with ⟨hc, h⟩ | ⟨_, h⟩
  · obtain ⟨n, s2, hd, h⟩ := bind_ok h
    obtain ⟨hm2, pre, hpre, hr2⟩ := decodeR6rsHexEscape_ok _ _ hd
    rcases ite_ok h with ⟨hsc, h⟩ | ⟨_, h⟩
    · obtain ⟨h1, h2⟩ := pure_ok h
      subst h1; subst h2
      exact ⟨hm2.trans hm, c, pre, encode n, by rw [eq_of_beq hc]; decide, hpre,
        by rw [hr, hr2], rfl, encode_ne_nil n, encode_valid hsc⟩
    · simp [errAt] at h
  · simp [errAt] at h

/-- **The loop invariant of `parse_r6rs_str`.**  `w` is the body consumed in front of the closing
    quote; the automaton run over it equals the run over the bytes returned, from any pair of
    texts `pre`, `acc` in the same automaton state. -/
theorem parseR6rsStr_inv (f : Nat) : ∀ {acc : List UInt8} {S S' : St} {out : List UInt8},
    parseR6rsStr f acc S = .ok out S' →
    S'.rd.mode = S.rd.mode ∧ ∃ w, S.rd.rest = w ++ 34 :: S'.rd.rest ∧
      (∀ pre, run .idle pre = run .idle acc → run .idle (pre ++ w) = run .idle out) ∧
      (S.rd.mode ≠ .str → valid out = true) := by
  induction f with
  | zero => intro acc S S' out h; simp [parseR6rsStr, outOfFuel] at h
  | succ f ih =>
    intro acc S S' out h
    simp only [parseR6rsStr] at h
    obtain ⟨c, s1, hn, h⟩ := bind_ok h
    obtain ⟨hm, hr⟩ := nextOrEof_ok hn
    rcases ite_ok h with ⟨h34, h⟩ | ⟨_, h⟩
    · rw [eq_of_beq h34] at hr
      have hs := finishStr_state h
      subst hs
      obtain ⟨rfl, hv⟩ := finishStr_ok h
      refine ⟨hm, [], hr, fun pre hp => by rw [List.append_nil]; exact hp, fun hne => ?_⟩
      rcases hv with hv | ⟨_, hstr⟩
      · exact hv
      · exact absurd (hm ▸ hstr) hne
    rcases ite_ok h with ⟨h92, h⟩ | ⟨_, h⟩
    · rw [eq_of_beq h92] at hr
      obtain ⟨acc', s2, he, h⟩ := bind_ok h
      obtain ⟨hm2, c', t, o, hc', ht, hr1, rfl, hne, hv⟩ := parseR6rsEscape_shape he
      obtain ⟨hm3, w2, hr2, hsync, hval⟩ := ih h
      refine ⟨hm3.trans (hm2.trans hm), 92 :: c' :: t ++ w2, by rw [hr, hr1, hr2]; simp,
        fun pre hp => ?_, fun hne' => hval (by rw [hm2, hm]; exact hne')⟩
      have := hsync (pre ++ 92 :: c' :: t) (sync_text hp (Ascii.cons hc' ht) hne hv)
      rw [List.append_assoc] at this
      exact this
    · obtain ⟨hm3, w2, hr2, hsync, hval⟩ := ih h
      refine ⟨hm3.trans hm, c :: w2, by rw [hr, hr2]; rfl, fun pre hp => ?_,
        fun hne' => hval (by rw [hm]; exact hne')⟩
      have := hsync (pre ++ [c]) (sync_push c hp)
      rw [List.append_assoc] at this
      exact this

/-- `parse_r6rs_str` from a well-formed scratch buffer, slice or stream source: the body consumed
    (closing quote included) is a valid chunk -/
theorem parseR6rsStr_vc {f : Nat} {acc : List UInt8} {S S' : St} {out : List UInt8}
    (h : parseR6rsStr f acc S = .ok out S') (hm : S.rd.mode ≠ .str) (hacc : valid acc = true) :
    VC S S' := by
  obtain ⟨hmode, w, hr, hsync, hval⟩ := parseR6rsStr_inv f h
  refine VC.chunk (w := w ++ [34]) hmode (by rw [hr]; simp) ?_
  have h34 : (34 : UInt8) < 0x80 := by decide
  rw [valid_append_cons_ascii w [] h34]
  have hrun := hsync [] (by rw [(valid_iff _).mp hacc]; rfl)
  simp only [List.nil_append] at hrun
  have hw : valid w = true := by
    rw [valid_iff, hrun, ← valid_iff]; exact hval hm
  simp [hw, valid_nil]

/-! ### symbols -/

theorem take_symLen_rest (m : Mode) (rest : List UInt8) :
    rest = rest.take (symLen m rest) ++ rest.drop (symLen m rest) :=
  (List.take_append_drop _ _).symm

/-- `parse_symbol_bytes` behind a well-formed scratch prefix, slice or stream source: the bytes
    scanned up to the terminator are a valid chunk -/
theorem parseSymbolBytes_vc {scratch : List UInt8} {s s' : St} {name : List UInt8}
    (h : parseSymbolBytes scratch s = .ok name s') (hm : s.rd.mode ≠ .str)
    (hsc : valid scratch = true) : VC s s' := by
  obtain ⟨hname, hv⟩ := Parse.U8.parseSymbolBytes_ok h
  have hvn := hv hm
  rw [hname, valid_append_iff_of_valid_left _ hsc] at hvn
  unfold parseSymbolBytes at h
  obtain ⟨rest, s1, h1, h⟩ := bind_ok h
  obtain ⟨rfl, rfl⟩ := getRest_ok h1
  obtain ⟨mode, s2, h2, h⟩ := bind_ok h
  obtain ⟨rfl, rfl⟩ := getMode_ok h2
  simp only [] at h
  obtain ⟨_, s3, h3, h⟩ := bind_ok h
  obtain ⟨hm3, hr3⟩ := consumeN_ok h3
  obtain ⟨nxt, s4, h4, h⟩ := bind_ok h
  obtain ⟨hm4, hr4, _⟩ := peek_ok h4
  have hs' : s' = s4 := by
    rcases ite_ok h with ⟨_, h⟩ | ⟨_, h⟩
    · simp [errAt] at h
    rcases ite_ok h with ⟨_, h⟩ | ⟨_, h⟩
    · exact (pure_ok h).2.symm
    rcases ite_ok h with ⟨_, h⟩ | ⟨_, h⟩
    · exact (pure_ok h).2.symm
    rcases ite_ok h with ⟨_, h⟩ | ⟨_, h⟩ <;> simp [errAt] at h
  subst hs'
  refine VC.chunk (hm4.trans hm3) ?_ hvn
  rw [hr4, hr3]
  exact take_symLen_rest _ _

/-! ### characters -/

theorem decodeR6rsCharHexEscape_asuf (f : Nat) : ∀ {n : Nat} {first : Bool} {s s' : St}
    {r : Option Nat}, decodeR6rsCharHexEscape f n first s = .ok r s' → ASuf s s' := by
  induction f with
  | zero => intro n first s s' r h; simp [decodeR6rsCharHexEscape, outOfFuel] at h
  | succ f ih =>
    intro n first s s' r h
    simp only [decodeR6rsCharHexEscape] at h
    obtain ⟨a, s1, hp, h⟩ := bind_ok h
    cases a with
    | none => rw [← (pure_ok h).2]; exact peek_same hp
    | some c =>
      rcases ite_ok h with ⟨_, h⟩ | ⟨_, h⟩
      · rw [← (pure_ok h).2]; exact peek_same hp
      · obtain ⟨_, s2, hd, h⟩ := bind_ok h
        cases hv : hexVal c with
        | none => rw [hv] at h; simp [errAt] at h
        | some v =>
          rw [hv] at h
          rcases ite_ok h with ⟨_, h⟩ | ⟨_, h⟩
          · simp [errAt] at h
          · exact (peek_discard hp hd (hexVal_ascii hv)).trans (ih h)

theorem ite_some {α : Type} {c : Prop} [Decidable c] {a r : α} {e : Option α}
    (h : (if c then some a else e) = some r) : c ∨ e = some r := by
  by_cases hc : c
  · exact Or.inl hc
  · rw [if_neg hc] at h; exact Or.inr h

theorem charName_ascii {name : List UInt8} {c : Nat} (h : charName name = some c) : Ascii name := by
  unfold charName at h
  iterate 12 (
    rcases ite_some h with hn | h
    · rw [eq_of_beq hn]; decide)
  cases h

/-- `parse_r6rs_char` (after `#\`): the character text consumed is a valid chunk -/
theorem parseR6rsChar_vc {f : Nat} {s s' : St} {c : Nat}
    (h : parseR6rsChar f s = .ok c s') : VC s s' := by
  unfold parseR6rsChar at h
  obtain ⟨initial, s1, hn, h⟩ := bind_ok h
  obtain ⟨hm1, hr1⟩ := nextOrEofChar_ok hn
  rcases ite_ok h with ⟨hx, h⟩ | ⟨_, h⟩
  · have h0 : VC s s1 := VC.one hm1 hr1 (by rw [eq_of_beq hx]; decide)
    obtain ⟨r, s2, hd, h⟩ := bind_ok h
    have h2 : VC s s2 := h0.asuf (decodeR6rsCharHexEscape_asuf _ hd)
    have hs' : s' = s2 := by
      cases r with
      | none => exact (pure_ok h).2.symm
      | some n =>
        rcases ite_ok h with ⟨_, h⟩ | ⟨_, h⟩
        · exact (pure_ok h).2.symm
        rcases ite_ok h with ⟨_, h⟩ | ⟨_, h⟩
        · obtain ⟨a, s3, _, h⟩ := bind_ok h
          cases a <;> simp [errAt] at h
        · simp [errAt] at h
    subst hs'
    exact h2
  rcases ite_ok h with ⟨_, h⟩ | ⟨hna, h⟩
  · obtain ⟨⟨c', bytes⟩, s2, hseq, h⟩ := bind_ok h
    obtain ⟨_, rfl⟩ := pure_ok h
    obtain ⟨hv, hm2, hr2⟩ := Parse.U8.decodeUtf8Sequence_ok hseq
    exact VC.chunk (hm2.trans hm1) (by rw [hr1, hr2]) hv
  · have hia : initial < 0x80 := not_gt_ascii hna
    have h0 : VC s s1 := VC.one hm1 hr1 hia
    obtain ⟨a, s2, hp, h⟩ := bind_ok h
    have h2 : VC s s2 := h0.asuf (peek_same hp)
    cases a with
    | none => obtain ⟨_, rfl⟩ := pure_ok h; exact h2
    | some nxt =>
      rcases ite_ok h with ⟨_, h⟩ | ⟨_, h⟩
      · obtain ⟨_, rfl⟩ := pure_ok h; exact h2
      · obtain ⟨rest, s3, h3, h⟩ := bind_ok h
        obtain ⟨rfl, rfl⟩ := getRest_ok h3
        simp only [] at h
        obtain ⟨_, s4, h4, h⟩ := bind_ok h
        obtain ⟨hm4, hr4⟩ := consumeN_ok h4
        obtain ⟨nxt', s5, h5, h⟩ := bind_ok h
        obtain ⟨hm5, hr5, _⟩ := peek_ok h5
        cases hcn : charName (initial :: List.take (charNameLen s3.rd.rest) s3.rd.rest) with
        | some c'' =>
          rw [hcn] at h
          obtain ⟨_, rfl⟩ := pure_ok h
          have hasc := (charName_ascii hcn).tail
          refine h2.asuf ⟨hm5.trans hm4, _, hasc, ?_⟩
          rw [hr5, hr4, List.take_append_drop]
        | none =>
          rw [hcn] at h
          rcases ite_ok h with ⟨_, h⟩ | ⟨_, h⟩ <;> simp [errAt] at h

set_option hygiene false in
local macro "esc_pure" : tactic => `(tactic| (
  rcases ite_ok h with ⟨hc, h⟩ | ⟨_, h⟩
  · rw [← (pure_ok h).2]
    exact hs.tail hm1 hr1 (by rw [eq_of_beq hc]; decide)))

/-- `decode_elisp_char_escape` (after `?\`): every arm consumes ASCII text or one well-formed
    sequence.  `s0` is any state the caller started from. -/
theorem decodeElispCharEscape_vc {f : Nat} {s0 s s' : St} {r : Nat}
    (h : decodeElispCharEscape f s = .ok r s') (hs : VC s0 s) : VC s0 s' := by
  unfold decodeElispCharEscape at h
  obtain ⟨c, s1, hn, h⟩ := bind_ok h
  obtain ⟨hm1, hr1⟩ := nextOrEofChar_ok hn
  esc_pure; esc_pure; esc_pure; esc_pure; esc_pure; esc_pure
  esc_pure; esc_pure; esc_pure; esc_pure; esc_pure
  -- `^`
  rcases ite_ok h with ⟨hc, h⟩ | ⟨_, h⟩
  · have hs1 : VC s0 s1 := hs.tail hm1 hr1 (by rw [eq_of_beq hc]; decide)
    obtain ⟨k, s2, hk, h⟩ := bind_ok h
    obtain ⟨hm2, hr2⟩ := nextOrEofChar_ok hk
    rcases ite_ok h with ⟨hl, h⟩ | ⟨_, h⟩
    · rw [← (pure_ok h).2]
      exact hs1.tail hm2 hr2 (lower_ascii hl)
    · simp [errAt] at h
  -- `N{U+...}`
  rcases ite_ok h with ⟨hc, h⟩ | ⟨_, h⟩
  · have hs1 : VC s0 s1 := hs.tail hm1 hr1 (by rw [eq_of_beq hc]; decide)
    obtain ⟨b1, s2, hk1, h⟩ := bind_ok h
    obtain ⟨hm2, hr2⟩ := nextOrEofChar_ok hk1
    rcases ite_ok h with ⟨_, h⟩ | ⟨hb1, h⟩
    · simp [errAt] at h
    have hs2 : VC s0 s2 := hs1.tail hm2 hr2 (by rw [ne_false_eq hb1]; decide)
    obtain ⟨b2, s3, hk2, h⟩ := bind_ok h
    obtain ⟨hm3, hr3⟩ := nextOrEofChar_ok hk2
    rcases ite_ok h with ⟨_, h⟩ | ⟨hb2, h⟩
    · simp [errAt] at h
    have hs3 : VC s0 s3 := hs2.tail hm3 hr3 (by rw [ne_false_eq hb2]; decide)
    obtain ⟨b3, s4, hk3, h⟩ := bind_ok h
    obtain ⟨hm4, hr4⟩ := nextOrEofChar_ok hk3
    rcases ite_ok h with ⟨_, h⟩ | ⟨hb3, h⟩
    · simp [errAt] at h
    have hs4 : VC s0 s4 := hs3.tail hm4 hr4 (by rw [ne_false_eq hb3]; decide)
    obtain ⟨n, s5, hx, h⟩ := bind_ok h
    have hs5 : VC s0 s5 := hs4.asuf (decodeElispHexEscape_asuf _ hx)
    obtain ⟨b4, s6, hk4, h⟩ := bind_ok h
    obtain ⟨hm6, hr6⟩ := nextOrEof_ok hk4
    rcases ite_ok h with ⟨_, h⟩ | ⟨hb4, h⟩
    · simp [errAt] at h
    have hs6 : VC s0 s6 := hs5.tail hm6 hr6 (by rw [ne_false_eq hb4]; decide)
    rcases ite_ok h with ⟨_, h⟩ | ⟨_, h⟩
    · rw [← (pure_ok h).2]; exact hs6
    · simp [errAt] at h
  -- `u`
  rcases ite_ok h with ⟨hc, h⟩ | ⟨_, h⟩
  · have hs1 : VC s0 s1 := hs.tail hm1 hr1 (by rw [eq_of_beq hc]; decide)
    obtain ⟨n, s2, hx, h⟩ := bind_ok h
    rw [asChar_ok h]
    exact hs1.asuf (decodeElispUniEscape_asuf _ hx)
  -- `U`
  rcases ite_ok h with ⟨hc, h⟩ | ⟨_, h⟩
  · have hs1 : VC s0 s1 := hs.tail hm1 hr1 (by rw [eq_of_beq hc]; decide)
    obtain ⟨n, s2, hx, h⟩ := bind_ok h
    rw [asChar_ok h]
    exact hs1.asuf (decodeElispUniEscape_asuf _ hx)
  -- `x`
  rcases ite_ok h with ⟨hc, h⟩ | ⟨_, h⟩
  · have hs1 : VC s0 s1 := hs.tail hm1 hr1 (by rw [eq_of_beq hc]; decide)
    obtain ⟨n, s2, hx, h⟩ := bind_ok h
    exact (hs1.asuf (decodeElispHexEscape_asuf _ hx)).asuf (asEscapedChar_asuf h)
  -- octal
  rcases ite_ok h with ⟨hc, h⟩ | ⟨_, h⟩
  · have hs1 : VC s0 s1 := hs.tail hm1 hr1 (octal_range_ascii hc)
    obtain ⟨n, s2, hx, h⟩ := bind_ok h
    exact (hs1.asuf (decodeElispOctalEscape_asuf _ hx)).asuf (asEscapedChar_asuf h)
  -- a non-ASCII character: one well-formed sequence
  rcases ite_ok h with ⟨hc, h⟩ | ⟨hc, h⟩
  · obtain ⟨⟨ch, bytes⟩, s2, hseq, h⟩ := bind_ok h
    obtain ⟨_, rfl⟩ := pure_ok h
    obtain ⟨hv, hm2, hr2⟩ := Parse.U8.decodeUtf8Sequence_ok hseq
    exact hs.trans (VC.chunk (hm2.trans hm1) (by rw [hr1, hr2]) hv)
  · rw [← (pure_ok h).2]
    exact hs.tail hm1 hr1 (not_gt_ascii hc)

/-- `parse_elisp_char` (after `?`): the character text consumed is a valid chunk — no exception,
    unlike Emacs Lisp strings: a character escape denotes a code point, never a raw byte, and a
    raw non-ASCII character is decoded (and validated) on the spot. -/
theorem parseElispChar_vc {f : Nat} {s s' : St} {r : Nat}
    (h : parseElispChar f s = .ok r s') : VC s s' := by
  unfold parseElispChar at h
  obtain ⟨a, s1, hn, h⟩ := bind_ok h
  obtain ⟨hm1, hr1⟩ := next_ok hn
  cases a with
  | none => simp [errAt] at h
  | some initial =>
    rcases hr1 with ⟨h0, _⟩ | ⟨b', hb', hr1⟩
    · cases h0
    cases hb'
    rcases ite_ok h with ⟨hc, h⟩ | ⟨hc, h⟩
    · obtain ⟨⟨ch, bytes⟩, s2, hseq, h⟩ := bind_ok h
      obtain ⟨_, rfl⟩ := pure_ok h
      obtain ⟨hv, hm2, hr2⟩ := Parse.U8.decodeUtf8Sequence_ok hseq
      exact VC.chunk (hm2.trans hm1) (by rw [hr1, hr2]) hv
    have hs1 : VC s s1 := VC.one hm1 hr1 (not_gt_ascii hc)
    rcases ite_ok h with ⟨_, h⟩ | ⟨_, h⟩
    · simp [errAt] at h
    rcases ite_ok h with ⟨_, h⟩ | ⟨_, h⟩
    · exact decodeElispCharEscape_vc h hs1
    · rw [← (pure_ok h).2]; exact hs1

end InTok
end Parse
end Lexpr
