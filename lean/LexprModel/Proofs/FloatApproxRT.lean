/-
  FloatApproxRT — the end-to-end round trip `print → parse` with float leaves that are *not*
  assumed exactly readable (C01 / C02 with the accuracy clause of C05).

  * `C02_roundtrip_approx`: every compatible printer / parser pair, every leaf kind, finite floats
    with `RyuSpecOnly` (no exactness window), nesting `≤ 127`, all three sources:
    `from_*_custom(to_string_custom(v, p), r) = Ok(w)` with `Value.approxEq (fold p r v) w`,
    all input consumed, depth budget restored.
  * `C01_roundtrip_approx`: the default pair, leaves as in `FullRT.C01_roundtrip_full`.
  * in the build without `fast-float-parsing` `RyuSpecOnly` gives `FloatOK`, so the exact theorems
    apply (`floatOK_of_ryuSpecOnly_slow`).
  * examples: `(a 1e-23 . #(2.5))` in the default build is read back as
    `(a <next double above 1e-23> . #(2.5))`: `approxEq` holds, equality fails
    (`C01_roundtrip_approx_strict`).
-/
import LexprModel.Proofs.FloatApproxStruct
namespace Lexpr
namespace FloatApprox
open Parse Parse.ListRT Print Spec F64 Numbers Decimals FullRT

/-! ## 1. C02: every compatible pair -/

/-- A leaf that is plain for the pair `p`, `cfg` (`ListRT.LeafPlainFor`) or a finite float with
    `RyuSpecOnly`. -/
def LeafPlainForA (p : Print.Options) (cfg : Cfg) (ryu : Nat → List UInt8) : Value → Prop
  | .number (.flt b) => RyuSpecOnly cfg ryu b
  | v => ListRT.LeafPlainFor p cfg v

/-- every leaf of `v` is a `LeafPlainForA` -/
def AllPlainForA (p : Print.Options) (cfg : Cfg) (ryu : Nat → List UInt8) (v : Value) : Prop :=
  AllLeaves (LeafPlainForA p cfg ryu) v

theorem atomOKW_of_leafA (p : Print.Options) (cfg : Cfg) (ryu : Nat → List UInt8)
    (hc : Compatible p cfg.opts = true) (v : Value) (hl : IsLeaf v)
    (h : LeafPlainForA p cfg ryu v) : AtomOKW p cfg ryu v := by
  cases v with
  | number n =>
    cases n with
    | flt b => exact atomOKW_float p cfg ryu b h
    | pos n => exact atomOKW_of_P _ _ _ _ (ListRT.atomOKP_of_leaf p cfg ryu _ hc hl.2.2 h)
    | neg i => exact atomOKW_of_P _ _ _ _ (ListRT.atomOKP_of_leaf p cfg ryu _ hc hl.2.2 h)
  | _ => exact atomOKW_of_P _ _ _ _ (ListRT.atomOKP_of_leaf p cfg ryu _ hc hl.2.2 h)

theorem leafTextOK_of_plainA (p : Print.Options) (cfg : Cfg) (ryu : Nat → List UInt8) (v : Value)
    (h : LeafPlainForA p cfg ryu v) : LeafTextOK ryu v := by
  cases v with
  | number n =>
    cases n with
    | flt b =>
      refine ⟨by simp only [Print.U8.TextValid], fun b' hb => ?_⟩
      cases hb; exact ryuSpecOnly_ascii cfg ryu b h
    | pos n => exact leafTextOK_of_plainF p cfg ryu _ h
    | neg i => exact leafTextOK_of_plainF p cfg ryu _ h
  | _ => exact leafTextOK_of_plainF p cfg ryu _ h

/-- the printed text is well-formed UTF-8 -/
theorem text_valid_approx (cfg : Cfg) (p : Print.Options) (ryu : Nat → List UInt8) (v : Value)
    (h : AllPlainForA p cfg ryu v) : Utf8.valid (Print.text p ryu v) = true :=
  text_valid_of_leaves p ryu v
    (AllLeaves.mono (fun w _ hw => leafTextOK_of_plainA p cfg ryu w hw) v h)

/-- **C02_structure_approx**: `next_value` in any non-faulty slice state, in any follow context,
    reads the text of `v` as one value `w` with `approxEq (fold p r v) w`. -/
theorem C02_structure_approx (cfg : Cfg) (p : Print.Options) (ryu : Nat → List UInt8)
    (hc : Compatible p cfg.opts = true) (v : Value) (h : AllPlainForA p cfg ryu v) :
    ∃ w, Value.approxEq (fold p cfg.opts v) w ∧
      ∀ (s : St) (rest : List UInt8) (fuel : Nat), ListRT.Follow rest →
        s.rd.mode = .slice → s.rd.faulty = false → s.rd.rest = Print.text p ryu v ++ rest →
        fuel ≥ 2 * s.rd.rest.length + 3 → ListRT.nestingP p v + 1 ≤ s.depth →
        ∃ s', nextValue cfg fuel s = .ok (some w) s' ∧ s'.rd.rest = rest ∧
          s'.rd.mode = .slice ∧ s'.rd.faulty = false ∧ s'.depth = s.depth := by
  obtain ⟨w, hw, hrun⟩ := value_rtW p cfg ryu (ListRT.compatible_brackets p cfg.opts hc) v
    (AllLeaves.mono (atomOKW_of_leafA p cfg ryu hc) v h)
  refine ⟨w, hw, fun s rest fuel hf hm hfa hr hfu hn => ?_⟩
  obtain ⟨s', e, r, ⟨gm, gf⟩, d⟩ := hrun s rest fuel hf ⟨hm, hfa⟩ hr hfu hn
  exact ⟨s', e, r, gm, gf, d⟩

/-- **C02_roundtrip_approx.**  For every compatible printer / parser pair `p`, `r = cfg.opts`,
    every value whose leaves are plain for the pair, finite floats with `RyuSpecOnly` (no
    exactness window) and byte vectors included, `nestingP p v ≤ 127`, and each of the three
    sources: `from_*_custom(to_string_custom(v, p), r) = Ok(w)` where `w` is `fold p r v` up to
    `floatClose` on the float leaves; the whole text is consumed and the depth budget is back at
    128. -/
theorem C02_roundtrip_approx (cfg : Cfg) (p : Print.Options) (ryu : Nat → List UInt8)
    (hc : Compatible p cfg.opts = true) (v : Value) (h : AllPlainForA p cfg ryu v)
    (hn : ListRT.nestingP p v ≤ 127) (m : Mode) :
    ∃ w s', Value.approxEq (fold p cfg.opts v) w ∧
      fromTrait cfg (initSt m (Print.text p ryu v)) = .ok w s' ∧
      s'.rd.rest = [] ∧ s'.depth = 128 := by
  obtain ⟨w, hw, hrun⟩ := value_rtW p cfg ryu (ListRT.compatible_brackets p cfg.opts hc) v
    (AllLeaves.mono (atomOKW_of_leafA p cfg ryu hc) v h)
  have hv := hrun (initSt .slice (Print.text p ryu v)) []
    (2 * (initSt .slice (Print.text p ryu v)).rd.rest.length + 4) (Or.inl rfl) ⟨rfl, rfl⟩
    (by simp [initSt]) (by omega) (by simp [initSt]; omega)
  obtain ⟨s', e, r, _, d⟩ := ListRT.fromTrait_of_nextValue cfg _ _ hv
  cases m with
  | slice => exact ⟨w, s', hw, e, r, d⟩
  | str =>
    obtain ⟨t, e', r', d'⟩ := str_of_slice cfg _ _ s' (text_valid_approx cfg p ryu v h) e
    exact ⟨w, t, hw, e', r'.trans r, d'.trans d⟩
  | io =>
    obtain ⟨t, e', r', d'⟩ := io_of_slice cfg _ _ s' e
    exact ⟨w, t, hw, e', r'.trans r, d'.trans d⟩

/-- the same with the nesting measure of `Spec/Dialect.lean` -/
theorem C02_roundtrip_approx_spec (cfg : Cfg) (p : Print.Options) (ryu : Nat → List UInt8)
    (hc : Compatible p cfg.opts = true) (v : Value) (h : AllPlainForA p cfg ryu v)
    (hn : Spec.nesting v < 127) (m : Mode) :
    ∃ w s', Value.approxEq (fold p cfg.opts v) w ∧
      fromTrait cfg (initSt m (Print.text p ryu v)) = .ok w s' ∧
      s'.rd.rest = [] ∧ s'.depth = 128 :=
  C02_roundtrip_approx cfg p ryu hc v h (by have := ListRT.nestingP_le p v; omega) m

/-! ## 2. C01: the default pair -/

/-- The leaves of `C01_roundtrip_approx`: those of `FullRT.LeafFull` with `RyuSpecOnly` in place
    of `FloatOK` — `ListRT.SupportedAtom` (`#nil`, booleans, `u64` / negative `i64` integers,
    scalar characters, valid UTF-8 strings, plain-identifier symbols and keywords), finite floats
    whose ryu text meets `RyuSpec`, byte vectors. -/
def LeafFullA (cfg : Cfg) (ryu : Nat → List UInt8) : Value → Prop
  | .number (.flt b) => RyuSpecOnly cfg ryu b
  | .bytes _ => True
  | v => ListRT.SupportedAtom v

/-- every leaf of `v` is a `LeafFullA` -/
def AllSupportedApprox (cfg : Cfg) (ryu : Nat → List UInt8) (v : Value) : Prop :=
  AllLeaves (LeafFullA cfg ryu) v

theorem nestingP_default_leaf (v : Value) (h1 : v.isCons = false) (h2 : v.isVector = false)
    (h3 : v ≠ .null) : ListRT.nestingP Print.Options.default v = 0 := by
  cases v <;> simp_all [ListRT.nestingP, Value.isCons, Value.isVector, Print.Options.default]

theorem atomOKP_of_atomOK (cfg : Cfg) (ryu : Nat → List UInt8) (v : Value)
    (h : ListRT.AtomOK cfg ryu v) : ListRT.AtomOKP Print.Options.default cfg ryu v := by
  obtain ⟨h1, h2, h3, h4, h5⟩ := h
  refine ⟨h1, h2, h3, h4, ?_⟩
  intro s rest fuel hf hg hr hfu hd
  rw [fold_default]
  exact h5 s rest fuel hf hg hr hfu (by omega)

theorem atomOKW_of_leafFullA (cfg : Cfg) (ho : cfg.opts = Parse.Options.default)
    (ryu : Nat → List UInt8) (v : Value) (h : LeafFullA cfg ryu v) :
    AtomOKW Print.Options.default cfg ryu v := by
  cases v with
  | number n =>
    cases n with
    | flt b => exact atomOKW_float _ cfg ryu b h
    | pos n =>
      exact atomOKW_of_P _ _ _ _ (atomOKP_of_atomOK cfg ryu _ (ListRT.atomOK_supported cfg ho ryu _ h))
    | neg i =>
      exact atomOKW_of_P _ _ _ _ (atomOKP_of_atomOK cfg ryu _ (ListRT.atomOK_supported cfg ho ryu _ h))
  | bytes x => exact atomOKW_of_P _ _ _ _ (atomOKP_of_atomOK cfg ryu _ (atomOK_bytes cfg ho ryu x))
  | _ =>
    exact atomOKW_of_P _ _ _ _ (atomOKP_of_atomOK cfg ryu _ (ListRT.atomOK_supported cfg ho ryu _ h))

theorem leafTextOK_of_fullA (cfg : Cfg) (ryu : Nat → List UInt8) (v : Value)
    (h : LeafFullA cfg ryu v) : LeafTextOK ryu v := by
  cases v with
  | number n =>
    cases n with
    | flt b =>
      refine ⟨by simp only [Print.U8.TextValid], fun b' hb => ?_⟩
      cases hb; exact ryuSpecOnly_ascii cfg ryu b h
    | pos n => exact ⟨by simp only [Print.U8.TextValid], fun b hb => by cases hb⟩
    | neg i => exact ⟨by simp only [Print.U8.TextValid], fun b hb => by cases hb⟩
  | string x => exact ⟨by simp only [Print.U8.TextValid]; exact h, fun b hb => by cases hb⟩
  | symbol x => exact ⟨by simp only [Print.U8.TextValid]; exact h.1.2, fun b hb => by cases hb⟩
  | keyword x => exact ⟨by simp only [Print.U8.TextValid]; exact h.2.2, fun b hb => by cases hb⟩
  | cons a d => exact False.elim h
  | vector xs => exact False.elim h
  | _ => exact ⟨by simp only [Print.U8.TextValid], fun b hb => by cases hb⟩

/-- **C01_structure_approx**: `next_value` reads the text of `v` (default options on both sides)
    as one value `w` with `approxEq v w`, from any non-faulty slice state in any follow context. -/
theorem C01_structure_approx (cfg : Cfg) (ho : cfg.opts = Parse.Options.default)
    (ryu : Nat → List UInt8) (v : Value) (h : AllSupportedApprox cfg ryu v) :
    ∃ w, Value.approxEq v w ∧
      ∀ (s : St) (rest : List UInt8) (fuel : Nat), ListRT.Follow rest →
        s.rd.mode = .slice → s.rd.faulty = false →
        s.rd.rest = Print.text Print.Options.default ryu v ++ rest →
        fuel ≥ 2 * s.rd.rest.length + 3 → ListRT.nesting v + 1 ≤ s.depth →
        ∃ s', nextValue cfg fuel s = .ok (some w) s' ∧ s'.rd.rest = rest ∧
          s'.rd.mode = .slice ∧ s'.rd.faulty = false ∧ s'.depth = s.depth := by
  have hc : Compatible Print.Options.default cfg.opts = true := by rw [ho]; decide
  obtain ⟨w, hw, hrun⟩ := value_rtW Print.Options.default cfg ryu
    (ListRT.compatible_brackets _ cfg.opts hc) v
    (AllLeaves.mono (fun v _ hv => atomOKW_of_leafFullA cfg ho ryu v hv) v h)
  rw [fold_default] at hw
  refine ⟨w, hw, fun s rest fuel hf hm hfa hr hfu hn => ?_⟩
  obtain ⟨s', e, r, ⟨gm, gf⟩, d⟩ :=
    hrun s rest fuel hf ⟨hm, hfa⟩ hr hfu (by rw [nestingP_default]; exact hn)
  exact ⟨s', e, r, gm, gf, d⟩

/-- **C01_roundtrip_approx.**  `from_str / from_slice / from_reader (to_string(v)) = Ok(w)` with
    the default options on both sides, for every value of nesting at most 127 whose leaves are
    `#nil`, booleans, integers (`u64`, negative `i64`), scalar characters, valid UTF-8 strings,
    plain-identifier symbols and keywords, byte vectors, and finite floats for which ryu meets
    `RyuSpec` (`RyuSpecOnly`: no exactness window); `w` equals `v` except that float leaves may
    differ within `floatClose` (`2^-50` relative, `2^-1073` absolute); all input is consumed and
    the recursion budget is back at 128. -/
theorem C01_roundtrip_approx (cfg : Cfg) (ho : cfg.opts = Parse.Options.default)
    (ryu : Nat → List UInt8) (v : Value) (h : AllSupportedApprox cfg ryu v)
    (hn : ListRT.nesting v ≤ 127) (m : Mode) :
    ∃ w s', Value.approxEq v w ∧
      fromTrait cfg (initSt m (Print.text Print.Options.default ryu v)) = .ok w s' ∧
      s'.rd.rest = [] ∧ s'.depth = 128 := by
  obtain ⟨w, hw, hrun⟩ := C01_structure_approx cfg ho ryu v h
  obtain ⟨s1, e1, r1, m1, f1, d1⟩ :=
    hrun (initSt .slice (Print.text Print.Options.default ryu v)) []
      (2 * (initSt .slice (Print.text Print.Options.default ryu v)).rd.rest.length + 4)
      (Or.inl rfl) rfl rfl (by simp [initSt]) (by omega) (by simp [initSt]; omega)
  obtain ⟨s', e, r, _, d⟩ := ListRT.fromTrait_of_nextValue cfg _ _ ⟨s1, e1, r1, ⟨m1, f1⟩, d1⟩
  have hval : Utf8.valid (Print.text Print.Options.default ryu v) = true :=
    text_valid_of_leaves _ ryu v
      (AllLeaves.mono (fun w _ hw => leafTextOK_of_fullA cfg ryu w hw) v h)
  cases m with
  | slice => exact ⟨w, s', hw, e, r, d⟩
  | str =>
    obtain ⟨t, e', r', d'⟩ := str_of_slice cfg _ _ s' hval e
    exact ⟨w, t, hw, e', r'.trans r, d'.trans d⟩
  | io =>
    obtain ⟨t, e', r', d'⟩ := io_of_slice cfg _ _ s' e
    exact ⟨w, t, hw, e', r'.trans r, d'.trans d⟩

/-! ## 3. The build without `fast-float-parsing` -/

/-- without `fast-float-parsing`, `RyuSpecOnly` is `FloatOK`: the exact theorems
    (`FullRT.C01_roundtrip_full` …) apply -/
theorem floatOK_of_ryuSpecOnly_slow (cfg : Cfg) (ryu : Nat → List UInt8) (b : Nat)
    (hs : cfg.fast = false) (h : RyuSpecOnly cfg ryu b) : FloatOK cfg ryu b := by
  obtain ⟨hb, hfin, d, hspec, _⟩ := h
  refine ⟨hb, d, hspec, Or.inr ⟨hs, ?_⟩⟩
  unfold isFinite at hfin
  unfold isInf
  have : b % signBit < infBits := by simpa using hfin
  simp; omega

/-! ## 4. Instances -/

/-- `(a 1e-23 . #(2.5))` -/
def exV : Value :=
  .cons (.symbol (asc "a")) (.cons (.number (.flt 0x3B282DB34012B251))
    (.vector [.number (.flt 0x4004000000000000)]))

/-- what the default build reads back: `1e-23` has moved up by one ulp -/
def exW : Value :=
  .cons (.symbol (asc "a")) (.cons (.number (.flt 0x3B282DB34012B252))
    (.vector [.number (.flt 0x4004000000000000)]))

theorem exV_supported : AllSupportedApprox exCfgFast ryuAx exV := by
  simp only [exV, AllSupportedApprox, AllLeaves, AllLeavesSeq, LeafFullA, ListRT.SupportedAtom,
    and_true]
  exact ⟨by decide, ryuAx_1em23, ryuAx_25⟩

example : Print.text Print.Options.default ryuAx exV = asc "(a 1e-23 . #(2.5))" := by
  decide +kernel

/-- non-vacuity of `C01_roundtrip_approx`, all three sources -/
example (m : Mode) : ∃ w s', Value.approxEq exV w ∧
    fromTrait exCfgFast (initSt m (Print.text Print.Options.default ryuAx exV)) = .ok w s' ∧
    s'.rd.rest = [] ∧ s'.depth = 128 :=
  C01_roundtrip_approx exCfgFast rfl ryuAx exV exV_supported
    (by simp [exV, ListRT.nesting, ListRT.nestingTail, ListRT.nestingSeq]) m

/-- the result of a parse, if it has the shape `(sym f . #(g))` -/
def shape3 : Res Value → Option (List UInt8 × Nat × Nat)
  | .ok (.cons (.symbol n) (.cons (.number (.flt b)) (.vector [.number (.flt c)]))) _ =>
    some (n, b, c)
  | _ => none

theorem shape3_inv {r : Res Value} {n : List UInt8} {b c : Nat} (h : shape3 r = some (n, b, c)) :
    ∃ s, r = .ok (.cons (.symbol n) (.cons (.number (.flt b)) (.vector [.number (.flt c)]))) s := by
  unfold shape3 at h
  split at h
  · rename_i n' b' c' s
    simp only [Option.some.injEq, Prod.mk.injEq] at h
    obtain ⟨rfl, rfl, rfl⟩ := h
    exact ⟨s, rfl⟩
  · cases h

theorem exV_parse : shape3 (fromTrait exCfgFast (initSt .slice (asc "(a 1e-23 . #(2.5))"))) =
    some (asc "a", 0x3B282DB34012B252, 0x4004000000000000) := by decide +kernel

/-- **C01_roundtrip_approx_strict.**  The theorem covers exactly the case that the exact theorem
    must exclude: in the default build `(a 1e-23 . #(2.5))` is read back as `exW`, a value that
    is `approxEq` to the original and *different* from it (the float `1e-23` is one ulp up). -/
theorem C01_roundtrip_approx_strict :
    ∃ s', fromTrait exCfgFast (initSt .slice (Print.text Print.Options.default ryuAx exV)) =
      .ok exW s' ∧ Value.approxEq exV exW ∧ exV ≠ exW := by
  have ht : Print.text Print.Options.default ryuAx exV = asc "(a 1e-23 . #(2.5))" := by
    decide +kernel
  obtain ⟨w, s', hw, e, _, _⟩ := C01_roundtrip_approx exCfgFast rfl ryuAx exV exV_supported
    (by simp [exV, ListRT.nesting, ListRT.nestingTail, ListRT.nestingSeq]) .slice
  obtain ⟨s'', e'⟩ := shape3_inv exV_parse
  rw [ht] at e
  have hww : w = exW := by
    rw [e] at e'; injection e' with e' _
  subst hww
  refine ⟨s', by rw [ht]; exact e, hw, ?_⟩
  intro hne
  simp only [exV, exW] at hne
  injection hne with _ h2
  injection h2 with h3 _
  injection h3 with h4
  injection h4 with h5
  exact absurd h5 (by decide)

/-- the dialect of `FullRT` (all keyword syntaxes, special `nil`, `t`, leading-digit symbols),
    default build with the regenerated table -/
theorem ryuAx_mix (b : Nat) (h : RyuSpecOnly exCfgFast ryuAx b) : RyuSpecOnly mixCfgF ryuAx b := by
  obtain ⟨h1, h2, d, h3, h4⟩ := h
  exact ⟨h1, h2, d, h3, fun _ => h4 rfl⟩

/-- non-vacuity of `C02_roundtrip_approx`: `(a: [1e-23 #vu8(1 2) nil] t . 1.7976931348623157e308)`
    printed with `name:` keywords and bracket vectors, read with leading-digit symbols enabled
    (the floats go through `parse_symbol` and the sub-parser) -/
example (m : Mode) :
    let v : Value := .cons (.keyword (asc "a")) (.cons (.vector [.number (.flt 0x3B282DB34012B251),
      .bytes [1, 2], .nil]) (.cons (.bool true) (.number (.flt 0x7FEFFFFFFFFFFFFF))))
    ∃ w s', Value.approxEq (fold mixP mixOpts v) w ∧
      fromTrait mixCfgF (initSt m (Print.text mixP ryuAx v)) = .ok w s' ∧
      s'.rd.rest = [] ∧ s'.depth = 128 := by
  intro v
  refine C02_roundtrip_approx mixCfgF mixP ryuAx (by decide) v ?_ ?_ m
  · simp only [v, AllPlainForA, AllLeaves, AllLeavesSeq, LeafPlainForA, ListRT.LeafPlainFor,
      AtomPlainFor, ListRT.dotOkP, and_true, true_and]
    exact ⟨by decide, ryuAx_mix _ ryuAx_1em23, ryuAx_mix _ ryuAx_max⟩
  · simp [v, ListRT.nestingP, ListRT.nestingTailP, ListRT.nestingSeqP, mixP]

#print axioms C02_structure_approx
#print axioms C02_roundtrip_approx
#print axioms C01_structure_approx
#print axioms C01_roundtrip_approx
#print axioms C01_roundtrip_approx_strict

end FloatApprox
end Lexpr
