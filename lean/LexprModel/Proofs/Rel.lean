/-
  A small relational logic for the parser monad, and the generic part of the proof that two
  input sources agree: every function of the lexer and parser maps related states to related
  results as soon as the primitives of `Reader.lean` do.
-/
import LexprModel.Parse
namespace Lexpr
namespace Parse

/-! ## a small relational logic for the parser monad -/

/-- Two results are related: same constructor, related values, related states / errors. -/
def ResRel (S : St → St → Prop) (E : Err → Err → Prop) {α β : Type} (V : α → β → Prop) :
    Res α → Res β → Prop
  | .ok a s, .ok b t => V a b ∧ S s t
  | .err e s, .err e' t => E e e' ∧ S s t
  | .panic p, .panic q => p = q
  | .fuel, .fuel => True
  | _, _ => False

/-- Two computations map related states to related results. -/
structure PRel (S : St → St → Prop) (E : Err → Err → Prop) {α β : Type} (V : α → β → Prop)
    (m₁ : P α) (m₂ : P β) : Prop where
  app : ∀ s t, S s t → ResRel S E V (m₁ s) (m₂ t)

section generic
variable {S : St → St → Prop} {E : Err → Err → Prop} {α β α' β' : Type}
  {V : α → α' → Prop} {W : β → β' → Prop}

theorem PRel.pure' {a : α} {b : α'} (h : V a b) : PRel S E V (pure a : P α) (pure b) := by
  constructor; intro s t hs; exact ⟨h, hs⟩

theorem PRel.bind' {m₁ : P α} {m₂ : P α'} {f₁ : α → P β} {f₂ : α' → P β'}
    (hm : PRel S E V m₁ m₂) (hf : ∀ a b, V a b → PRel S E W (f₁ a) (f₂ b)) :
    PRel S E W (m₁ >>= f₁) (m₂ >>= f₂) := by
  constructor; intro s t h
  have := hm.app s t h
  show ResRel S E W (P.bind m₁ f₁ s) (P.bind m₂ f₂ t)
  unfold P.bind
  cases h1 : m₁ s <;> cases h2 : m₂ t <;> rw [h1, h2] at this <;> simp only [ResRel] at this ⊢
  · exact (hf _ _ this.1).app _ _ this.2
  · exact this
  · exact this

theorem PRel.pure (a : α) : PRel S E Eq (pure a : P α) (pure a) := PRel.pure' rfl

theorem PRel.bind {m₁ m₂ : P α} {f₁ : α → P β} {f₂ : α → P β'}
    (hm : PRel S E Eq m₁ m₂) (hf : ∀ a, PRel S E W (f₁ a) (f₂ a)) :
    PRel S E W (m₁ >>= f₁) (m₂ >>= f₂) :=
  PRel.bind' hm (fun a b h => h ▸ hf a)

theorem PRel.ite {c : Prop} [Decidable c] {a b : P α} {a' b' : P α'}
    (ha : c → PRel S E V a a') (hb : ¬c → PRel S E V b b') :
    PRel S E V (if c then a else b) (if c then a' else b') := by
  split
  · exact ha ‹_›
  · exact hb ‹_›

theorem PRel.panicAt (p : Site) : PRel S E V (panicAt p : P α) (panicAt p) := by
  constructor; intro s t _; exact rfl

theorem PRel.outOfFuel : PRel S E V (outOfFuel : P α) outOfFuel := by
  constructor; intro s t _; exact True.intro

/-- relation on captured results -/
def ExRel (E : Err → Err → Prop) (V : α → α' → Prop) : Except Err α → Except Err α' → Prop
  | .ok a, .ok b => V a b
  | .error e, .error e' => E e e'
  | _, _ => False

theorem PRel.attempt {m₁ : P α} {m₂ : P α'} (hm : PRel S E V m₁ m₂) :
    PRel S E (ExRel E V) (attempt m₁) (attempt m₂) := by
  constructor; intro s t h
  have := hm.app s t h
  unfold Parse.attempt
  cases h1 : m₁ s <;> cases h2 : m₂ t <;> rw [h1, h2] at this <;>
    simp only [ResRel, ExRel] at this ⊢ <;> exact this

theorem PRel.liftExcept {a : Except Err α} {b : Except Err α'} (h : ExRel E V a b) :
    PRel S E V (liftExcept a) (liftExcept b) := by
  constructor; intro s t hs
  cases a <;> cases b <;> simp only [ExRel] at h
  · exact ⟨h, hs⟩
  · exact ⟨h, hs⟩

end generic


theorem PRel.bind_attempt {S : St → St → Prop} {E : Err → Err → Prop} {α α' β β' : Type}
    {V : α → α' → Prop} {W : β → β' → Prop}
    {m₁ : P α} {m₂ : P α'} {f₁ : Except Err α → P β} {f₂ : Except Err α' → P β'}
    (hm : PRel S E V m₁ m₂) (hf : ∀ a b, ExRel E V a b → PRel S E W (f₁ a) (f₂ b)) :
    PRel S E W (Parse.attempt m₁ >>= f₁) (Parse.attempt m₂ >>= f₂) :=
  PRel.bind' (PRel.attempt hm) hf

theorem ExRel.cases_eq {E : Err → Err → Prop} {α : Type} {r₁ r₂ : Except Err α}
    (h : ExRel E Eq r₁ r₂) :
    (∃ a, r₁ = .ok a ∧ r₂ = .ok a) ∨ (∃ e e', r₁ = .error e ∧ r₂ = .error e' ∧ E e e') := by
  cases r₁ <;> cases r₂ <;> simp only [ExRel] at h
  · exact .inr ⟨_, _, rfl, rfl, h⟩
  · exact .inl ⟨_, h ▸ rfl, rfl⟩

theorem PRel.errK {S : St → St → Prop} {E : Err → Err → Prop} {α : Type} {e e' : Err}
    (h : E e e') : PRel S E Eq (Parse.liftExcept (Except.error e) : P α) (Parse.liftExcept (Except.error e')) :=
  PRel.liftExcept (V := Eq) h

/-! ## the primitives, as an interface -/

/-- The reader primitives respect the relation `S` on states (errors related by `E`). -/
class Prims (S : St → St → Prop) (E : Err → Err → Prop) : Prop where
  peek : PRel S E Eq peek peek
  next : PRel S E Eq next next
  discard : PRel S E Eq discard discard
  consumeN : ∀ n, PRel S E Eq (consumeN n) (consumeN n)
  getRest : PRel S E Eq getRest getRest
  getPos : PRel S E Eq getPos getPos
  tokenFuel : PRel S E Eq tokenFuel tokenFuel
  apiFuel : PRel S E Eq apiFuel apiFuel
  errAt : ∀ {α : Type} (c : Code), PRel S E Eq (errAt c : P α) (errAt c)
  peekErr : ∀ {α : Type} (c : Code), PRel S E Eq (peekErr c : P α) (peekErr c)
  enter : PRel S E Eq enter enter
  leave : PRel S E Eq leave leave
  /-- `as_str` when both sources validate -/
  finishChecked : ∀ bytes, PRel S E Eq (finishStr true bytes) (finishStr true bytes)
  /-- errors at the peek positions of related states are related -/
  peekPosE : ∀ {s t : St} (c : Code), S s t →
    E (.syntax c s.rd.peekPosition.line s.rd.peekPosition.col)
      (.syntax c t.rd.peekPosition.line t.rd.peekPosition.col)
  /-- a state is a value in the last arm of `parse_token` -/
  getSt : PRel S E S (fun s => Res.ok s s) (fun s => Res.ok s s)

/-- ... and so do the two places where the `&str` source skips UTF-8 validation. -/
class PrimsFull (S : St → St → Prop) (E : Err → Err → Prop) : Prop extends Prims S E where
  parseSymbolBytes : ∀ scratch, PRel S E Eq (parseSymbolBytes scratch) (parseSymbolBytes scratch)
  finishStr : ∀ checked bytes, PRel S E Eq (finishStr checked bytes) (finishStr checked bytes)

/-! ### automation -/

/-- extensible: closes a goal `PRel S E Eq m m` for an `m` that already has a lemma -/
syntax "psim_lemma" : tactic
macro_rules
  | `(tactic| psim_lemma) => `(tactic| (with_reducible apply_assumption -exfalso -symm) <;> fail)
macro_rules | `(tactic| psim_lemma) => `(tactic| with_reducible exact PRel.pure _)
macro_rules | `(tactic| psim_lemma) => `(tactic| with_reducible exact PRel.panicAt _)
macro_rules | `(tactic| psim_lemma) => `(tactic| with_reducible exact PRel.outOfFuel)
macro_rules | `(tactic| psim_lemma) => `(tactic| with_reducible exact Prims.peek)
macro_rules | `(tactic| psim_lemma) => `(tactic| with_reducible exact Prims.next)
macro_rules | `(tactic| psim_lemma) => `(tactic| with_reducible exact Prims.discard)
macro_rules | `(tactic| psim_lemma) => `(tactic| with_reducible exact Prims.consumeN _)
macro_rules | `(tactic| psim_lemma) => `(tactic| with_reducible exact Prims.getRest)
macro_rules | `(tactic| psim_lemma) => `(tactic| with_reducible exact Prims.getPos)
macro_rules | `(tactic| psim_lemma) => `(tactic| with_reducible exact Prims.tokenFuel)
macro_rules | `(tactic| psim_lemma) => `(tactic| with_reducible exact Prims.apiFuel)
macro_rules | `(tactic| psim_lemma) => `(tactic| with_reducible exact Prims.errAt _)
macro_rules | `(tactic| psim_lemma) => `(tactic| with_reducible exact Prims.peekErr _)
macro_rules | `(tactic| psim_lemma) => `(tactic| with_reducible exact Prims.enter)
macro_rules | `(tactic| psim_lemma) => `(tactic| with_reducible exact Prims.leave)
macro_rules | `(tactic| psim_lemma) => `(tactic| with_reducible exact Prims.finishChecked _)
macro_rules | `(tactic| psim_lemma) => `(tactic| with_reducible exact PrimsFull.parseSymbolBytes _)
macro_rules | `(tactic| psim_lemma) => `(tactic| with_reducible exact PrimsFull.finishStr _ _)

macro "psim_step" : tactic => `(tactic| first
  | psim_lemma
  | (with_reducible apply PRel.bind)
  | (with_reducible apply PRel.ite)
  | (intro _; try dsimp only)
  | (dsimp only)
  | split)

/-- symbolic execution of both sides in lock step -/
macro "psim" : tactic => `(tactic| repeat' psim_step)

section lexer
variable {S : St → St → Prop} {E : Err → Err → Prop}

theorem Gen.peekOrNull [Prims S E]  :
    PRel S E Eq (peekOrNull ) (peekOrNull ) := by
  unfold Parse.peekOrNull; psim
macro_rules | `(tactic| psim_lemma) => `(tactic| with_reducible exact Gen.peekOrNull ..)
theorem Gen.nextOrNull [Prims S E]  :
    PRel S E Eq (nextOrNull ) (nextOrNull ) := by
  unfold Parse.nextOrNull; psim
macro_rules | `(tactic| psim_lemma) => `(tactic| with_reducible exact Gen.nextOrNull ..)
theorem Gen.nextOrEof [Prims S E]  :
    PRel S E Eq (nextOrEof ) (nextOrEof ) := by
  unfold Parse.nextOrEof; psim
macro_rules | `(tactic| psim_lemma) => `(tactic| with_reducible exact Gen.nextOrEof ..)
theorem Gen.nextOrEofChar [Prims S E]  :
    PRel S E Eq (nextOrEofChar ) (nextOrEofChar ) := by
  unfold Parse.nextOrEofChar; psim
macro_rules | `(tactic| psim_lemma) => `(tactic| with_reducible exact Gen.nextOrEofChar ..)
theorem Gen.parseWhitespace [Prims S E]  :
    PRel S E Eq (parseWhitespace ) (parseWhitespace ) := by
  unfold Parse.parseWhitespace; psim
macro_rules | `(tactic| psim_lemma) => `(tactic| with_reducible exact Gen.parseWhitespace ..)
theorem Gen.readCont [Prims S E] (n : Nat) (acc : List UInt8) :
    PRel S E Eq (readCont n acc) (readCont n acc) := by
  induction n generalizing acc with
  | zero => unfold Parse.readCont; psim
  | succ n ih => unfold Parse.readCont; psim
macro_rules | `(tactic| psim_lemma) => `(tactic| with_reducible exact Gen.readCont ..)
theorem Gen.decodeUtf8Sequence [Prims S E] (initial : UInt8) :
    PRel S E Eq (decodeUtf8Sequence initial) (decodeUtf8Sequence initial) := by
  unfold Parse.decodeUtf8Sequence; psim
macro_rules | `(tactic| psim_lemma) => `(tactic| with_reducible exact Gen.decodeUtf8Sequence ..)
theorem Gen.decodeR6rsHexEscape [Prims S E] (f n : Nat) :
    PRel S E Eq (decodeR6rsHexEscape f n) (decodeR6rsHexEscape f n) := by
  induction f generalizing n with
  | zero => unfold Parse.decodeR6rsHexEscape; psim
  | succ f ih => unfold Parse.decodeR6rsHexEscape; psim
macro_rules | `(tactic| psim_lemma) => `(tactic| with_reducible exact Gen.decodeR6rsHexEscape ..)
theorem Gen.parseR6rsEscape [Prims S E] (fuel : Nat) (acc : List UInt8) :
    PRel S E Eq (parseR6rsEscape fuel acc) (parseR6rsEscape fuel acc) := by
  unfold Parse.parseR6rsEscape; psim
macro_rules | `(tactic| psim_lemma) => `(tactic| with_reducible exact Gen.parseR6rsEscape ..)
theorem Gen.decodeElispHexEscape [Prims S E] (f n : Nat) :
    PRel S E Eq (decodeElispHexEscape f n) (decodeElispHexEscape f n) := by
  induction f generalizing n with
  | zero => unfold Parse.decodeElispHexEscape; psim
  | succ f ih => unfold Parse.decodeElispHexEscape; psim
macro_rules | `(tactic| psim_lemma) => `(tactic| with_reducible exact Gen.decodeElispHexEscape ..)
theorem Gen.decodeElispUniEscape [Prims S E] (f n : Nat) :
    PRel S E Eq (decodeElispUniEscape f n) (decodeElispUniEscape f n) := by
  induction f generalizing n with
  | zero => unfold Parse.decodeElispUniEscape; psim
  | succ f ih => unfold Parse.decodeElispUniEscape; psim
macro_rules | `(tactic| psim_lemma) => `(tactic| with_reducible exact Gen.decodeElispUniEscape ..)
theorem Gen.decodeElispOctalEscape [Prims S E] (f n : Nat) :
    PRel S E Eq (decodeElispOctalEscape f n) (decodeElispOctalEscape f n) := by
  induction f generalizing n with
  | zero => unfold Parse.decodeElispOctalEscape; psim
  | succ f ih => unfold Parse.decodeElispOctalEscape; psim
macro_rules | `(tactic| psim_lemma) => `(tactic| with_reducible exact Gen.decodeElispOctalEscape ..)
theorem Gen.elispCharEscape [Prims S E] (acc : List UInt8) (n : Nat) :
    PRel S E Eq (elispCharEscape acc n) (elispCharEscape acc n) := by
  unfold Parse.elispCharEscape; psim
macro_rules | `(tactic| psim_lemma) => `(tactic| with_reducible exact Gen.elispCharEscape ..)
theorem Gen.elispUniCharEscape [Prims S E] (acc : List UInt8) (n : Nat) :
    PRel S E Eq (elispUniCharEscape acc n) (elispUniCharEscape acc n) := by
  unfold Parse.elispUniCharEscape; psim
macro_rules | `(tactic| psim_lemma) => `(tactic| with_reducible exact Gen.elispUniCharEscape ..)
theorem Gen.parseElispEscape [Prims S E] (fuel : Nat) (acc : List UInt8) :
    PRel S E Eq (parseElispEscape fuel acc) (parseElispEscape fuel acc) := by
  unfold Parse.parseElispEscape; psim
macro_rules | `(tactic| psim_lemma) => `(tactic| with_reducible exact Gen.parseElispEscape ..)
theorem Gen.parseElispStr [Prims S E] (f : Nat) (acc : List UInt8) (ub mb na : Bool) :
    PRel S E Eq (parseElispStr f acc ub mb na) (parseElispStr f acc ub mb na) := by
  induction f generalizing acc ub mb na with
  | zero => unfold Parse.parseElispStr; psim
  | succ f ih => unfold Parse.parseElispStr; psim
macro_rules | `(tactic| psim_lemma) => `(tactic| with_reducible exact Gen.parseElispStr ..)
theorem Gen.decodeR6rsCharHexEscape [Prims S E] (f n : Nat) (first : Bool) :
    PRel S E Eq (decodeR6rsCharHexEscape f n first) (decodeR6rsCharHexEscape f n first) := by
  induction f generalizing n first with
  | zero => unfold Parse.decodeR6rsCharHexEscape; psim
  | succ f ih => unfold Parse.decodeR6rsCharHexEscape; psim
macro_rules | `(tactic| psim_lemma) => `(tactic| with_reducible exact Gen.decodeR6rsCharHexEscape ..)
theorem Gen.parseR6rsChar [Prims S E] (fuel : Nat) :
    PRel S E Eq (parseR6rsChar fuel) (parseR6rsChar fuel) := by
  unfold Parse.parseR6rsChar; psim
macro_rules | `(tactic| psim_lemma) => `(tactic| with_reducible exact Gen.parseR6rsChar ..)
theorem Gen.asChar [Prims S E] (n : Nat) :
    PRel S E Eq (asChar n) (asChar n) := by
  unfold Parse.asChar; psim
macro_rules | `(tactic| psim_lemma) => `(tactic| with_reducible exact Gen.asChar ..)
theorem Gen.asEscapedChar [Prims S E] (n : Nat) :
    PRel S E Eq (asEscapedChar n) (asEscapedChar n) := by
  unfold Parse.asEscapedChar; psim
macro_rules | `(tactic| psim_lemma) => `(tactic| with_reducible exact Gen.asEscapedChar ..)
theorem Gen.decodeElispCharEscape [Prims S E] (fuel : Nat) :
    PRel S E Eq (decodeElispCharEscape fuel) (decodeElispCharEscape fuel) := by
  unfold Parse.decodeElispCharEscape; psim
macro_rules | `(tactic| psim_lemma) => `(tactic| with_reducible exact Gen.decodeElispCharEscape ..)
theorem Gen.parseElispChar [Prims S E] (fuel : Nat) :
    PRel S E Eq (parseElispChar fuel) (parseElispChar fuel) := by
  unfold Parse.parseElispChar; psim
macro_rules | `(tactic| psim_lemma) => `(tactic| with_reducible exact Gen.parseElispChar ..)
theorem Gen.f64FromParts [Prims S E] (cfg : Cfg) (pos : Bool) (sig : Nat) (e : Int) :
    PRel S E Eq (f64FromParts cfg pos sig e) (f64FromParts cfg pos sig e) := by
  unfold Parse.f64FromParts; psim
macro_rules | `(tactic| psim_lemma) => `(tactic| with_reducible exact Gen.f64FromParts ..)
theorem Gen.skipDigits [Prims S E]  :
    PRel S E Eq (skipDigits ) (skipDigits ) := by
  unfold Parse.skipDigits; psim
macro_rules | `(tactic| psim_lemma) => `(tactic| with_reducible exact Gen.skipDigits ..)
theorem Gen.parseExponentOverflow [Prims S E] (pos : Bool) (sig : Nat) (posExp : Bool) :
    PRel S E Eq (parseExponentOverflow pos sig posExp) (parseExponentOverflow pos sig posExp) := by
  unfold Parse.parseExponentOverflow; psim
macro_rules | `(tactic| psim_lemma) => `(tactic| with_reducible exact Gen.parseExponentOverflow ..)
theorem Gen.exponentLoop [Prims S E] (cfg : Cfg) (pos : Bool) (sig : Nat) (startExp : Int) (posExp : Bool) (f exp : Nat) :
    PRel S E Eq (exponentLoop cfg pos sig startExp posExp f exp) (exponentLoop cfg pos sig startExp posExp f exp) := by
  induction f generalizing exp with
  | zero => unfold Parse.exponentLoop; psim
  | succ f ih => unfold Parse.exponentLoop; psim
macro_rules | `(tactic| psim_lemma) => `(tactic| with_reducible exact Gen.exponentLoop ..)
theorem Gen.parseExponent [Prims S E] (cfg : Cfg) (fuel : Nat) (pos : Bool) (sig : Nat) (startExp : Int) :
    PRel S E Eq (parseExponent cfg fuel pos sig startExp) (parseExponent cfg fuel pos sig startExp) := by
  unfold Parse.parseExponent; psim
macro_rules | `(tactic| psim_lemma) => `(tactic| with_reducible exact Gen.parseExponent ..)
theorem Gen.decimalLoop [Prims S E] (f sig : Nat) (exp : Int) (zeros : Nat) (any : Bool) :
    PRel S E Eq (decimalLoop f sig exp zeros any) (decimalLoop f sig exp zeros any) := by
  induction f generalizing sig exp zeros any with
  | zero => unfold Parse.decimalLoop; psim
  | succ f ih => unfold Parse.decimalLoop; psim
macro_rules | `(tactic| psim_lemma) => `(tactic| with_reducible exact Gen.decimalLoop ..)
theorem Gen.parseDecimal [Prims S E] (cfg : Cfg) (fuel : Nat) (pos : Bool) (sig : Nat) (exp : Int) :
    PRel S E Eq (parseDecimal cfg fuel pos sig exp) (parseDecimal cfg fuel pos sig exp) := by
  unfold Parse.parseDecimal; psim
macro_rules | `(tactic| psim_lemma) => `(tactic| with_reducible exact Gen.parseDecimal ..)
theorem Gen.parseLongInteger [Prims S E] (cfg : Cfg) (radix : Nat) (pos : Bool) (sig f exp : Nat) :
    PRel S E Eq (parseLongInteger cfg radix pos sig f exp) (parseLongInteger cfg radix pos sig f exp) := by
  induction f generalizing exp with
  | zero => unfold Parse.parseLongInteger; psim
  | succ f ih => unfold Parse.parseLongInteger; generalize (2 : Nat) ^ 1024 = K; psim
macro_rules | `(tactic| psim_lemma) => `(tactic| with_reducible exact Gen.parseLongInteger ..)
theorem Gen.parseNumTail [Prims S E] (cfg : Cfg) (fuel radix : Nat) (pos : Bool) (sig : Nat) :
    PRel S E Eq (parseNumTail cfg fuel radix pos sig) (parseNumTail cfg fuel radix pos sig) := by
  unfold Parse.parseNumTail; psim
macro_rules | `(tactic| psim_lemma) => `(tactic| with_reducible exact Gen.parseNumTail ..)
theorem Gen.numLoop [Prims S E] (cfg : Cfg) (radix : Nat) (pos : Bool) (f res : Nat) :
    PRel S E Eq (numLoop cfg radix pos f res) (numLoop cfg radix pos f res) := by
  induction f generalizing res with
  | zero => unfold Parse.numLoop; psim
  | succ f ih => unfold Parse.numLoop; psim
macro_rules | `(tactic| psim_lemma) => `(tactic| with_reducible exact Gen.numLoop ..)
theorem Gen.parseNumLiteral [Prims S E] (cfg : Cfg) (fuel radix : Nat) (pos : Bool) :
    PRel S E Eq (parseNumLiteral cfg fuel radix pos) (parseNumLiteral cfg fuel radix pos) := by
  unfold Parse.parseNumLiteral; psim
macro_rules | `(tactic| psim_lemma) => `(tactic| with_reducible exact Gen.parseNumLiteral ..)
theorem Gen.parseRadixLiteral [Prims S E] (cfg : Cfg) (fuel radix : Nat) :
    PRel S E Eq (parseRadixLiteral cfg fuel radix) (parseRadixLiteral cfg fuel radix) := by
  unfold Parse.parseRadixLiteral; psim
macro_rules | `(tactic| psim_lemma) => `(tactic| with_reducible exact Gen.parseRadixLiteral ..)
theorem Gen.expectNumberEnd [Prims S E] (n : Number) :
    PRel S E Eq (expectNumberEnd n) (expectNumberEnd n) := by
  unfold Parse.expectNumberEnd; psim
macro_rules | `(tactic| psim_lemma) => `(tactic| with_reducible exact Gen.expectNumberEnd ..)
theorem Gen.parseNumToken [Prims S E] (cfg : Cfg) (fuel : Nat) (pos : Bool) :
    PRel S E Eq (parseNumToken cfg fuel pos) (parseNumToken cfg fuel pos) := by
  unfold Parse.parseNumToken; psim
macro_rules | `(tactic| psim_lemma) => `(tactic| with_reducible exact Gen.parseNumToken ..)
theorem Gen.parseRadixToken [Prims S E] (cfg : Cfg) (fuel radix : Nat) :
    PRel S E Eq (parseRadixToken cfg fuel radix) (parseRadixToken cfg fuel radix) := by
  unfold Parse.parseRadixToken; psim
macro_rules | `(tactic| psim_lemma) => `(tactic| with_reducible exact Gen.parseRadixToken ..)
theorem Gen.parseNumber [Prims S E] (cfg : Cfg) (fuel : Nat) :
    PRel S E Eq (parseNumber cfg fuel) (parseNumber cfg fuel) := by
  unfold Parse.parseNumber; psim
macro_rules | `(tactic| psim_lemma) => `(tactic| with_reducible exact Gen.parseNumber ..)
theorem Gen.expectIdent [Prims S E] (cs : List UInt8) :
    PRel S E Eq (expectIdent cs) (expectIdent cs) := by
  induction cs with
  | nil => unfold Parse.expectIdent; psim
  | cons c cs ih => unfold Parse.expectIdent; psim
macro_rules | `(tactic| psim_lemma) => `(tactic| with_reducible exact Gen.expectIdent ..)
theorem Gen.endSeq [Prims S E] (close : UInt8) :
    PRel S E Eq (endSeq close) (endSeq close) := by
  unfold Parse.endSeq; psim
macro_rules | `(tactic| psim_lemma) => `(tactic| with_reducible exact Gen.endSeq ..)
theorem Gen.byteListLoop [Prims S E] (cfg : Cfg) (close : UInt8) (f : Nat) (acc : List UInt8) :
    PRel S E Eq (byteListLoop cfg close f acc) (byteListLoop cfg close f acc) := by
  induction f generalizing acc with
  | zero => unfold Parse.byteListLoop; psim
  | succ f ih => unfold Parse.byteListLoop; psim
macro_rules | `(tactic| psim_lemma) => `(tactic| with_reducible exact Gen.byteListLoop ..)
theorem Gen.parseByteList [Prims S E] (cfg : Cfg) (fuel : Nat) (close : UInt8) :
    PRel S E Eq (parseByteList cfg fuel close) (parseByteList cfg fuel close) := by
  unfold Parse.parseByteList; psim
macro_rules | `(tactic| psim_lemma) => `(tactic| with_reducible exact Gen.parseByteList ..)
theorem Gen.expectEnd [Prims S E]  :
    PRel S E Eq (expectEnd ) (expectEnd ) := by
  unfold Parse.expectEnd; psim
macro_rules | `(tactic| psim_lemma) => `(tactic| with_reducible exact Gen.expectEnd ..)

/-! ### functions that reach the unchecked conversions -/

theorem Gen.parseR6rsStr [PrimsFull S E] (f : Nat) (acc : List UInt8) :
    PRel S E Eq (parseR6rsStr f acc) (parseR6rsStr f acc) := by
  induction f generalizing acc with
  | zero => unfold Parse.parseR6rsStr; psim
  | succ f ih => unfold Parse.parseR6rsStr; psim
macro_rules | `(tactic| psim_lemma) => `(tactic| with_reducible exact Gen.parseR6rsStr ..)
theorem Gen.parseSignDotSymbol [PrimsFull S E] (cfg : Cfg) (pfx : List UInt8) :
    PRel S E Eq (parseSignDotSymbol cfg pfx) (parseSignDotSymbol cfg pfx) := by
  unfold Parse.parseSignDotSymbol; psim
macro_rules | `(tactic| psim_lemma) => `(tactic| with_reducible exact Gen.parseSignDotSymbol ..)
theorem Gen.parseSignToken [PrimsFull S E] (cfg : Cfg) (fuel : Nat) (sign : UInt8) (pos : Bool) :
    PRel S E Eq (parseSignToken cfg fuel sign pos) (parseSignToken cfg fuel sign pos) := by
  unfold Parse.parseSignToken; psim
macro_rules | `(tactic| psim_lemma) => `(tactic| with_reducible exact Gen.parseSignToken ..)

/-- the last arm of `parse_token`: report at `peek_position()`, then skip the byte -/
theorem Gen.tokenFallback [Prims S E] :
    PRel S E Eq (do
        let s ← (fun s => Res.ok s s : P St)
        Parse.discard
        (fun s' => Res.err (.syntax .expectedSomeValue s.rd.peekPosition.line
          s.rd.peekPosition.col) s' : P Token))
      (do
        let s ← (fun s => Res.ok s s : P St)
        Parse.discard
        (fun s' => Res.err (.syntax .expectedSomeValue s.rd.peekPosition.line
          s.rd.peekPosition.col) s' : P Token)) := by
  apply PRel.bind' Prims.getSt
  intro a b hab
  apply PRel.bind Prims.discard; intro _
  constructor; intro s t h; exact ⟨Prims.peekPosE _ hab, h⟩
macro_rules | `(tactic| psim_lemma) => `(tactic| with_reducible exact Gen.tokenFallback)

theorem Gen.parseToken [PrimsFull S E] (cfg : Cfg) (fuel : Nat) (pk : UInt8) :
    PRel S E Eq (parseToken cfg fuel pk) (parseToken cfg fuel pk) := by
  unfold Parse.parseToken; psim
macro_rules | `(tactic| psim_lemma) => `(tactic| with_reducible exact Gen.parseToken ..)

/-! ### the parser proper -/

-- the `enter; attempt body; leave; attempt end_seq; match` block of `next_value`
set_option hygiene false in
macro "attempt_block" ih:term : tactic => `(tactic|
  (apply PRel.bind Prims.enter; intro _
   apply PRel.bind_attempt $ih; intro r₁ r₂ hr
   apply PRel.bind Prims.leave; intro _
   apply PRel.bind_attempt (Gen.endSeq _); intro e₁ e₂ he
   rcases ExRel.cases_eq hr with ⟨a, rfl, rfl⟩ | ⟨e, e', rfl, rfl, hr⟩ <;>
   rcases ExRel.cases_eq he with ⟨⟨⟩, rfl, rfl⟩ | ⟨e, e', rfl, rfl, he⟩ <;>
   (try rcases a with _ | ⟨v, c, d⟩) <;>
   (try dsimp only) <;>
     first | exact PRel.errK hr | exact PRel.errK he | psim))

theorem Gen.nextValue_all [PrimsFull S E] (cfg : Cfg) : ∀ f,
    PRel S E Eq (nextValue cfg f) (nextValue cfg f) ∧
    (∀ term acc, PRel S E Eq (parseList cfg f term acc) (parseList cfg f term acc)) ∧
    (∀ term acc, PRel S E Eq (parseVector cfg f term acc) (parseVector cfg f term acc)) := by
  intro f
  induction f with
  | zero =>
    refine ⟨?_, ?_, ?_⟩
    · unfold nextValue; psim
    · intro term acc; unfold parseList; psim
    · intro term acc; unfold parseVector; psim
  | succ f ih =>
    obtain ⟨ihV, ihL, ihVec⟩ := ih
    refine ⟨?_, ?_, ?_⟩
    · unfold nextValue
      apply PRel.bind Gen.parseWhitespace; intro pk
      split
      · psim
      · apply PRel.bind Prims.tokenFuel; intro tf
        apply PRel.bind (Gen.parseToken _ _ _); intro tok
        split
        · psim
        · attempt_block (ihVec _ _)
        · attempt_block (ihL _ _)
        · apply PRel.bind Prims.enter; intro _
          apply PRel.bind_attempt ihV; intro r₁ r₂ hr
          apply PRel.bind Prims.leave; intro _
          rcases ExRel.cases_eq hr with ⟨_ | a, rfl, rfl⟩ | ⟨e, e', rfl, rfl, hr⟩ <;> (try dsimp only) <;>
            first | exact PRel.errK hr | psim
        · psim
    · intro term acc; unfold parseList; psim
    · intro term acc; unfold parseVector; psim

theorem Gen.nextDatum_all [PrimsFull S E] (cfg : Cfg) : ∀ f,
    PRel S E Eq (nextDatum cfg f) (nextDatum cfg f) ∧
    (∀ term acc ms, PRel S E Eq (parseListMeta cfg f term acc ms) (parseListMeta cfg f term acc ms)) ∧
    (∀ term acc ms, PRel S E Eq (parseVectorMeta cfg f term acc ms) (parseVectorMeta cfg f term acc ms)) := by
  intro f
  induction f with
  | zero =>
    refine ⟨?_, ?_, ?_⟩
    · unfold nextDatum; psim
    · intro term acc ms; unfold parseListMeta; psim
    · intro term acc ms; unfold parseVectorMeta; psim
  | succ f ih =>
    obtain ⟨ihV, ihL, ihVec⟩ := ih
    refine ⟨?_, ?_, ?_⟩
    · unfold nextDatum
      apply PRel.bind Gen.parseWhitespace; intro pk
      split
      · psim
      · apply PRel.bind Prims.getPos; intro start
        apply PRel.bind Prims.tokenFuel; intro tf
        apply PRel.bind (Gen.parseToken _ _ _); intro tok
        split
        · psim
        · attempt_block (ihVec _ _ _)
        · attempt_block (ihL _ _ _)
        · apply PRel.bind Prims.getPos; intro tokenEnd
          apply PRel.bind Prims.enter; intro _
          apply PRel.bind_attempt ihV; intro r₁ r₂ hr
          apply PRel.bind Prims.leave; intro _
          rcases ExRel.cases_eq hr with ⟨_ | a, rfl, rfl⟩ | ⟨e, e', rfl, rfl, hr⟩ <;> (try dsimp only) <;>
            first | exact PRel.errK hr | psim
        · psim
    · intro term acc ms; unfold parseListMeta; psim
    · intro term acc ms; unfold parseVectorMeta; psim

theorem Gen.nextValue [PrimsFull S E] (cfg : Cfg) (f : Nat) : PRel S E Eq (nextValue cfg f) (nextValue cfg f) :=
  (Gen.nextValue_all cfg f).1
theorem Gen.nextDatum [PrimsFull S E] (cfg : Cfg) (f : Nat) : PRel S E Eq (nextDatum cfg f) (nextDatum cfg f) :=
  (Gen.nextDatum_all cfg f).1
macro_rules | `(tactic| psim_lemma) => `(tactic| with_reducible exact Gen.nextValue ..)
macro_rules | `(tactic| psim_lemma) => `(tactic| with_reducible exact Gen.nextDatum ..)


end lexer

end Parse
end Lexpr
