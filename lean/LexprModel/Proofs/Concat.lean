/-
  Concat — C12, concatenation part: parsing the concatenation of several printed values separated
  by trivia (space, tab, CR, LF, form feed, line comments) yields exactly those values, in order,
  followed by end of input.

  On top of `DialectStructRT.lean` (print → parse round trip of one value in an arbitrary follow
  context, every compatible printer / parser option pair, slice source).

  Contents: `Trivia` / `TriviaEnd` (with Boolean checkers `triviaB` / `triviaEndB`), skipping of
  trivia by `parse_whitespace`, one `next_value` step on `trivia ++ text v ++ rest`, the end-of-input
  step, the iteration (`runHistory`, `iterate`, the states in between), corollaries for
  `AllPlainFor` values, the default pairing, the simple statement with non-empty separators,
  non-vacuity examples and witnesses showing which hypotheses are needed.
  Companion files: `ConcatBase.lean` (facts about histories that only need `Parse.lean`),
  `ConcatDatum.lean` (+ `ConcatDatumCopy.lean`: the datum API), `ConcatSources.lean` (`&str` and
  stream sources), `ConcatTrivia.lean` (trivia variants of the printed texts).
-/
import LexprModel.Proofs.ConcatBase
import LexprModel.Proofs.DialectStructRT
import LexprModel.Props.C02
namespace Lexpr
namespace Parse
namespace Concat
open Print Spec ListRT

/-! ## Trivia -/

/-- Trivia: whitespace bytes (space 32, tab 9, CR 13, LF 10, form feed 12) and complete line
    comments `;` … LF. -/
inductive Trivia : List UInt8 → Prop where
  | nil : Trivia []
  | ws (b : UInt8) (t : List UInt8) : isTrivia b = true → Trivia t → Trivia (b :: t)
  | comment (body t : List UInt8) : (∀ x ∈ body, x ≠ 10) → Trivia t →
      Trivia (59 :: (body ++ 10 :: t))

/-- Trivia at the very end of the input: the last comment may lack its line feed. -/
def TriviaEnd (t : List UInt8) : Prop :=
  Trivia t ∨ ∃ t1 body, t = t1 ++ 59 :: body ∧ Trivia t1 ∧ ∀ x ∈ body, x ≠ 10

theorem Trivia.append {a b : List UInt8} (ha : Trivia a) (hb : Trivia b) : Trivia (a ++ b) := by
  induction ha with
  | nil => simpa using hb
  | ws c t hc _ ih => exact .ws c _ hc ih
  | comment body t hbody _ ih =>
    have : 59 :: (body ++ 10 :: t) ++ b = 59 :: (body ++ 10 :: (t ++ b)) := by simp
    rw [this]; exact .comment body _ hbody ih

theorem TriviaEnd.prepend {a b : List UInt8} (ha : Trivia a) (hb : TriviaEnd b) :
    TriviaEnd (a ++ b) := by
  rcases hb with hb | ⟨t1, body, rfl, h1, h2⟩
  · exact .inl (ha.append hb)
  · exact .inr ⟨a ++ t1, body, by simp, ha.append h1, h2⟩

theorem TriviaEnd.nil : TriviaEnd [] := .inl .nil

/-- Boolean scanner behind `triviaB` / `triviaEndB`: `endOk` says whether the input may end
    inside a comment, the second argument whether the scanner is inside one. -/
def scan (endOk : Bool) : Bool → List UInt8 → Bool
  | c, [] => !c || endOk
  | false, b :: bs => if b == 59 then scan endOk true bs else isTrivia b && scan endOk false bs
  | true, b :: bs => if b == 10 then scan endOk false bs else scan endOk true bs

/-- decidable form of `Trivia` -/
def triviaB (t : List UInt8) : Bool := scan false false t
/-- decidable form of `TriviaEnd` -/
def triviaEndB (t : List UInt8) : Bool := scan true false t

theorem scan_comment (endOk : Bool) : ∀ bs : List UInt8, scan endOk true bs = true →
    (∃ body t, bs = body ++ 10 :: t ∧ (∀ x ∈ body, x ≠ 10) ∧ scan endOk false t = true) ∨
    (endOk = true ∧ ∀ x ∈ bs, x ≠ 10)
  | [], h => by
    right
    simp only [scan, Bool.not_true, Bool.false_or] at h
    exact ⟨h, by simp⟩
  | b :: bs, h => by
    simp only [scan] at h
    by_cases hb : b = 10
    · subst hb
      simp only [beq_self_eq_true, if_true] at h
      exact .inl ⟨[], bs, rfl, by simp, h⟩
    · have hb' : (b == 10) = false := by simpa using hb
      simp only [hb', Bool.false_eq_true, if_false] at h
      rcases scan_comment endOk bs h with ⟨body, t, rfl, h1, h2⟩ | ⟨h1, h2⟩
      · refine .inl ⟨b :: body, t, rfl, ?_, h2⟩
        intro x hx
        rcases List.mem_cons.1 hx with rfl | hx
        · exact hb
        · exact h1 x hx
      · refine .inr ⟨h1, ?_⟩
        intro x hx
        rcases List.mem_cons.1 hx with rfl | hx
        · exact hb
        · exact h2 x hx

theorem trivia_of_scan : ∀ (n : Nat) (t : List UInt8), t.length ≤ n → scan false false t = true →
    Trivia t
  | _, [], _, _ => .nil
  | 0, _ :: _, hl, _ => by simp at hl
  | n + 1, b :: bs, hl, h => by
    simp only [scan] at h
    by_cases hb : b = 59
    · subst hb
      simp only [beq_self_eq_true, if_true] at h
      rcases scan_comment false bs h with ⟨body, t, rfl, h1, h2⟩ | ⟨h1, _⟩
      · refine .comment body t h1 (trivia_of_scan n t ?_ h2)
        simp only [List.length_cons, List.length_append] at hl; omega
      · exact Bool.noConfusion h1
    · have hb' : (b == 59) = false := by simpa using hb
      simp only [hb', Bool.false_eq_true, if_false, Bool.and_eq_true] at h
      exact .ws b bs h.1 (trivia_of_scan n bs (by simp only [List.length_cons] at hl; omega) h.2)

theorem triviaEnd_of_scan : ∀ (n : Nat) (t : List UInt8), t.length ≤ n → scan true false t = true →
    TriviaEnd t
  | _, [], _, _ => .nil
  | 0, _ :: _, hl, _ => by simp at hl
  | n + 1, b :: bs, hl, h => by
    simp only [scan] at h
    by_cases hb : b = 59
    · subst hb
      simp only [beq_self_eq_true, if_true] at h
      rcases scan_comment true bs h with ⟨body, t, rfl, h1, h2⟩ | ⟨_, h2⟩
      · have ht := triviaEnd_of_scan n t
          (by simp only [List.length_cons, List.length_append] at hl; omega) h2
        have := TriviaEnd.prepend (.comment body [] h1 .nil) ht
        simpa using this
      · exact .inr ⟨[], bs, rfl, .nil, h2⟩
    · have hb' : (b == 59) = false := by simpa using hb
      simp only [hb', Bool.false_eq_true, if_false, Bool.and_eq_true] at h
      have ht := triviaEnd_of_scan n bs (by simp only [List.length_cons] at hl; omega) h.2
      exact TriviaEnd.prepend (.ws b [] h.1 .nil) ht

theorem trivia_of_triviaB (t : List UInt8) (h : triviaB t = true) : Trivia t :=
  trivia_of_scan t.length t (Nat.le_refl _) h

theorem triviaEnd_of_triviaEndB (t : List UInt8) (h : triviaEndB t = true) : TriviaEnd t :=
  triviaEnd_of_scan t.length t (Nat.le_refl _) h

theorem scan_body (endOk : Bool) (body t : List UInt8) (h : ∀ x ∈ body, x ≠ 10) :
    scan endOk true (body ++ 10 :: t) = scan endOk false t := by
  induction body with
  | nil => simp [scan]
  | cons b bs ih =>
    have hb : (b == 10) = false := by simpa using h b (by simp)
    simp only [List.cons_append, scan, hb, Bool.false_eq_true, if_false]
    exact ih (fun x hx => h x (by simp [hx]))

theorem isTrivia_ne_semicolon (b : UInt8) (h : isTrivia b = true) : (b == 59) = false := by
  cases hc : (b == 59)
  · rfl
  · have : b = 59 := by simpa using hc
    subst this; simp [isTrivia] at h

/-- the checker is complete as well: `triviaB` decides `Trivia` -/
theorem triviaB_of_trivia (t : List UInt8) (h : Trivia t) : triviaB t = true := by
  unfold triviaB
  induction h with
  | nil => rfl
  | ws b t hb _ ih => simp [scan, isTrivia_ne_semicolon b hb, hb, ih]
  | comment body t hbody _ ih => simp [scan, scan_body false body t hbody, ih]

theorem trivia_iff (t : List UInt8) : Trivia t ↔ triviaB t = true :=
  ⟨triviaB_of_trivia t, trivia_of_triviaB t⟩

/-! ### what `parse_whitespace` skips -/

theorem commentLen_body (body rest : List UInt8) (h : ∀ x ∈ body, x ≠ 10) :
    commentLen (body ++ 10 :: rest) = body.length + 1 + wsLen rest := by
  induction body with
  | nil => simp [commentLen]; omega
  | cons b bs ih =>
    have hb : b ≠ 10 := h b (by simp)
    have : (b == 10) = false := by simpa using hb
    simp only [List.cons_append, commentLen, this, Bool.false_eq_true, ↓reduceIte, List.length_cons]
    rw [ih (fun x hx => h x (by simp [hx]))]
    omega

/-- trivia in front of any input is skipped as a whole (as `C12_trivia_skipped` in `Props/C12`) -/
theorem wsLen_trivia (tr rest : List UInt8) (h : Trivia tr) :
    wsLen (tr ++ rest) = tr.length + wsLen rest := by
  induction h with
  | nil => simp
  | ws b t hb _ ih =>
    simp only [List.cons_append, wsLen, isTrivia_ne_semicolon b hb, Bool.false_eq_true, ↓reduceIte,
      hb, List.length_cons]
    omega
  | comment body t hbody _ ih =>
    simp only [List.cons_append, List.append_assoc, wsLen, beq_self_eq_true, ↓reduceIte,
      List.length_cons, List.length_append]
    rw [commentLen_body body (t ++ rest) hbody, ih]
    omega

theorem commentLen_open (body : List UInt8) (h : ∀ x ∈ body, x ≠ 10) :
    commentLen body = body.length := by
  induction body with
  | nil => rfl
  | cons b bs ih =>
    have hb : (b == 10) = false := by simpa using h b (by simp)
    simp [commentLen, hb, ih (fun x hx => h x (by simp [hx]))]

/-- trailing trivia is skipped up to the end of the input -/
theorem wsLen_triviaEnd (t : List UInt8) (h : TriviaEnd t) : wsLen t = t.length := by
  rcases h with h | ⟨t1, body, rfl, h1, h2⟩
  · have := wsLen_trivia t [] h
    simpa [wsLen] using this
  · rw [wsLen_trivia t1 _ h1]
    simp [wsLen, commentLen_open body h2]

/-! ### trivia is a follow context -/

theorem isFollow_of_isTrivia (b : UInt8) (h : isTrivia b = true) : isFollow b = true := by
  simp only [isTrivia, Bool.or_eq_true, beq_iff_eq] at h
  rcases h with (((h | h) | h) | h) | h <;> subst h <;> decide

theorem trivia_follow (t rest : List UInt8) (h : Trivia t) (hne : t ≠ []) : Follow (t ++ rest) := by
  cases h with
  | nil => exact absurd rfl hne
  | ws b t hb _ => exact follow_cons _ _ (isFollow_of_isTrivia b hb)
  | comment body t _ _ => exact follow_cons _ _ (by decide)

theorem triviaEnd_follow (t : List UInt8) (h : TriviaEnd t) : Follow t := by
  rcases h with h | ⟨t1, body, rfl, h1, _⟩
  · by_cases hne : t = []
    · exact .inl hne
    · have := trivia_follow t [] h hne
      simpa using this
  · by_cases hne : t1 = []
    · subst hne; exact follow_cons _ _ (by decide)
    · exact trivia_follow t1 _ h1 hne

/-! ## One call of `next_value` -/

theorem consume_consume_zero (n : Nat) : ∀ rd : Rd, (rd.consume n).consume 0 = rd.consume n := by
  induction n with
  | zero => intro rd; rfl
  | succ n ih =>
    intro rd
    cases hr : rd.rest with
    | nil => simp [Rd.consume, hr]
    | cons b bs => simp only [Rd.consume, hr]; exact ih _

/-- `next_value` skips leading trivia: same result as from the state behind it. -/
theorem nextValue_skipTrivia (cfg : Cfg) (s : St) (h : Good s) (tr : List UInt8) (c : UInt8)
    (tl : List UInt8) (hr : s.rd.rest = tr ++ c :: tl) (htr : Trivia tr)
    (h1 : isTrivia c = false) (h2 : (c == 59) = false) :
    ∃ s1, Good s1 ∧ s1.rd.rest = c :: tl ∧ s1.depth = s.depth ∧
      ∀ f, nextValue cfg f s = nextValue cfg f s1 := by
  obtain ⟨hm, hf⟩ := h
  refine ⟨{ s with rd := s.rd.consume tr.length }, ⟨by simp [hm], by simp [hf]⟩, by simp [hr], rfl, ?_⟩
  intro f
  cases f with
  | zero => simp [nextValue, outOfFuel]
  | succ f =>
    have hw : parseWhitespace s = parseWhitespace { s with rd := s.rd.consume tr.length } := by
      show peek { s with rd := s.rd.consume (wsLen s.rd.rest) } =
        peek { s with rd := (s.rd.consume tr.length).consume (wsLen (s.rd.consume tr.length).rest) }
      have e1 : wsLen s.rd.rest = tr.length := by
        rw [hr, wsLen_trivia tr _ htr, wsLen_start c tl h1 h2]; rfl
      have e2 : wsLen (s.rd.consume tr.length).rest = 0 := by
        simp [hr, wsLen_start c tl h1 h2]
      rw [e1, e2, consume_consume_zero]
    simp only [nextValue, ListRT.bind_apply, hw]

/-- Does the text of `v` end with its own closing delimiter (so that anything may follow)?
    True for pairs, vectors and the empty list. -/
def closes : Value → Bool
  | .cons _ _ => true
  | .vector _ => true
  | .null => true
  | _ => false

/-- Does a text start with a byte that ends every token (`(`, `[`; also trivia, `)`, `]`, `;`)? -/
def startsFollow : List UInt8 → Bool
  | b :: _ => isFollow b
  | [] => false

theorem follow_of_startsFollow (t rest : List UInt8) (h : startsFollow t = true) :
    Follow (t ++ rest) := by
  cases t with
  | nil => simp [startsFollow] at h
  | cons b tl => exact follow_cons _ _ h

/-- the round trip of one value, without any condition on what follows -/
def ValueRTC (p : Print.Options) (cfg : Cfg) (ryu : Nat → List UInt8) (v : Value) : Prop :=
  ∀ (s : St) (rest : List UInt8) (fuel : Nat), Good s →
    s.rd.rest = text p ryu v ++ rest → fuel ≥ 2 * s.rd.rest.length + 3 →
    nestingP p v + 1 ≤ s.depth → Runs (nextValue cfg fuel) s (some (fold p cfg.opts v)) rest

/- The next three proofs are those of `null_rtP`, `cons_rtP`, `vector_rtP` in `DialectStructRT.lean`
   with the (there unused) hypothesis `Follow rest` removed from the statement. -/

theorem null_rtC (p : Print.Options) (cfg : Cfg) (ryu : Nat → List UInt8) :
    ValueRTC p cfg ryu .null := by
  intro s rest fuel hg hr hfu hd
  rw [textP_null] at hr
  rw [fold_null]
  obtain ⟨F, rfl⟩ : ∃ F, fuel = F + 2 := ⟨fuel - 2, by omega⟩
  simp only [nestingP] at hd
  refine nextValue_listOpen cfg (F + 1) s (41 :: rest) rest .null hg (by simpa using hr) (by omega) ?_
  intro s1 g1 r1 _
  exact parseList_close cfg F s1 [] rest g1 r1

theorem cons_rtC (p : Print.Options) (cfg : Cfg) (ryu : Nat → List UInt8)
    (a d : Value) (hA : ValueRTP p cfg ryu a) (hhead : ElemHead (text p ryu a))
    (hD : TailRTP p cfg ryu d) : ValueRTC p cfg ryu (.cons a d) := by
  intro s rest fuel hg hr hfu hd
  rw [textP_cons] at hr
  rw [fold_cons]
  have hr' : s.rd.rest = 40 :: (text p ryu a ++ (flatten (emitsTail p ryu d) ++ 41 :: rest)) := by
    simpa using hr
  have hlen := congrArg List.length hr'
  simp only [List.length_cons, List.length_append] at hlen
  obtain ⟨F, rfl⟩ : ∃ F, fuel = F + 3 := ⟨fuel - 3, by omega⟩
  simp only [nestingP] at hd
  refine nextValue_listOpen cfg (F + 2) s _ rest _ hg hr' (by omega) ?_
  intro s1 g1 r1 d1
  refine list_elem_stepP cfg F s1 [] (fold p cfg.opts a) _ [] (text p ryu a)
    (flatten (emitsTail p ryu d) ++ 41 :: rest) (41 :: rest) g1 (Or.inl rfl) (by simpa using r1)
    hhead ?_ ?_
  · intro s2 g2 r2 d2
    refine hA s2 _ (F + 1) (tail_followP p ryu d rest) g2 r2 ?_ (by omega)
    rw [r2]; simp only [List.length_cons, List.length_append]; omega
  · intro s3 g3 r3 d3
    have := hD s3 rest (F + 1) [fold p cfg.opts a] (by simp) g3 r3
      (by rw [r3]; simp only [List.length_cons, List.length_append]; omega) (by omega)
    simpa [Value.append] using this

theorem vector_rtC (p : Print.Options) (cfg : Cfg) (ryu : Nat → List UInt8) (xs : List Value)
    (hb : p.vector = .brackets → cfg.opts.brackets = .vector)
    (hS : SeqRTP p cfg ryu true xs) : ValueRTC p cfg ryu (.vector xs) := by
  intro s rest fuel hg hr hfu hd
  rw [textP_vector] at hr
  rw [fold_vector]
  have hr' : s.rd.rest = vopen p ++ (flatten (emitsSeq p ryu true xs) ++ vclose p :: rest) := by
    simpa using hr
  have hlen := congrArg List.length hr'
  simp only [List.length_cons, List.length_append] at hlen
  have hvo : 1 ≤ (vopen p).length := by unfold vopen; cases p.vector <;> simp
  obtain ⟨F, rfl⟩ : ∃ F, fuel = F + 1 := ⟨fuel - 1, by omega⟩
  simp only [nestingP] at hd
  refine nextValue_vecOpenP cfg p F s _ rest _ hb hg hr' (by omega) ?_
  intro s1 g1 r1 d1
  have := hS s1 rest F [] g1 r1
    (by rw [r1]; simp only [List.length_cons, List.length_append, if_true]; omega) (by omega)
  simpa using this

theorem value_rtC (p : Print.Options) (cfg : Cfg) (ryu : Nat → List UInt8)
    (hb : p.vector = .brackets → cfg.opts.brackets = .vector) (v : Value)
    (h : AllAtomsOKP p cfg ryu v) (hc : closes v = true) : ValueRTC p cfg ryu v := by
  cases v with
  | cons a d =>
    simp only [AllAtomsOKP] at h
    exact cons_rtC p cfg ryu a d (value_rtP p cfg ryu hb a h.1) (text_headP p cfg ryu a h.1)
      (tail_rtP p cfg ryu hb d h.2)
  | vector xs =>
    simp only [AllAtomsOKP] at h
    exact vector_rtC p cfg ryu xs hb (seq_rtP p cfg ryu hb true xs h)
  | null => exact null_rtC p cfg ryu
  | _ => simp [closes] at hc

theorem nextValueTop_eq (cfg : Cfg) (s : St) :
    nextValueTop cfg s = nextValue cfg (2 * s.rd.rest.length + 4) s := rfl

/-- **One step.**  In a non-faulty slice state whose unread input is trivia, then the text of
    `v`, then `rest`, where `v` closes itself or `rest` is a follow context: the public
    `next_value` returns `fold p cfg.opts v`, leaves exactly `rest`, restores the depth budget. -/
theorem value_step (p : Print.Options) (cfg : Cfg) (ryu : Nat → List UInt8)
    (hb : p.vector = .brackets → cfg.opts.brackets = .vector) (v : Value)
    (h : AllAtomsOKP p cfg ryu v) (s : St) (tr rest : List UInt8) (hg : Good s)
    (htr : Trivia tr) (hr : s.rd.rest = tr ++ (text p ryu v ++ rest))
    (hf : closes v = true ∨ Follow rest) (hd : nestingP p v + 1 ≤ s.depth) :
    Runs (nextValueTop cfg) s (some (fold p cfg.opts v)) rest := by
  obtain ⟨c, tl, ht, h1, h2, -⟩ := text_headP p cfg ryu v h
  have hr' : s.rd.rest = tr ++ c :: (tl ++ rest) := by rw [hr, ht]; simp
  have h2' : (c == 59) = false := by simp [h2]
  obtain ⟨s1, g1, r1, d1, heq⟩ := nextValue_skipTrivia cfg s hg tr c (tl ++ rest) hr' htr h1 h2'
  have r1' : s1.rd.rest = text p ryu v ++ rest := by rw [r1, ht]; simp
  have hlen : s1.rd.rest.length ≤ s.rd.rest.length := by
    rw [r1, hr']; simp only [List.length_append, List.length_cons]; omega
  have hrun : Runs (nextValue cfg (2 * s.rd.rest.length + 4)) s1 (some (fold p cfg.opts v)) rest := by
    rcases hf with hc | hf
    · exact value_rtC p cfg ryu hb v h hc s1 rest _ g1 r1' (by omega) (by omega)
    · exact value_rtP p cfg ryu hb v h s1 rest _ hf g1 r1' (by omega) (by omega)
  obtain ⟨s2, e2, r2, g2, d2⟩ := hrun
  exact ⟨s2, by rw [nextValueTop_eq, heq]; exact e2, r2, g2, d2.trans d1⟩

/-- **The last step.**  On trailing trivia (the last comment may be unterminated) the public
    `next_value` reports end of input and consumes everything. -/
theorem end_step (cfg : Cfg) (s : St) (hg : Good s) (ht : TriviaEnd s.rd.rest) :
    Runs (nextValueTop cfg) s none [] := by
  have hw := parseWhitespace_good s hg
  rw [wsLen_triviaEnd _ ht] at hw
  simp only [List.drop_length, List.head?_nil] at hw
  refine ⟨{ s with rd := s.rd.consume s.rd.rest.length }, ?_, by simp,
    ⟨by simp [hg.1], by simp [hg.2]⟩, rfl⟩
  show nextValue cfg ((2 * s.rd.rest.length + 3) + 1) s = _
  simp [nextValue, hw]

/-! ## Iteration -/

/-- The input: each value preceded by its separator (the first one by the leading trivia). -/
def concatText (p : Print.Options) (ryu : Nat → List UInt8) :
    List (List UInt8 × Value) → List UInt8
  | [] => []
  | (sep, v) :: xs => sep ++ (text p ryu v ++ concatText p ryu xs)

/-- The unread input after each value, given the trailing trivia. -/
def rests (p : Print.Options) (ryu : Nat → List UInt8) (tEnd : List UInt8) :
    List (List UInt8 × Value) → List (List UInt8)
  | [] => []
  | _ :: xs => (concatText p ryu xs ++ tEnd) :: rests p ryu tEnd xs

/-- Separators are trivia; a separator may be empty only at the very beginning (`free`), after
    a value that closes itself (pair, vector, `()`), or in front of a text that starts with a
    byte ending every token (`(`, `[`). -/
def SepsOK (p : Print.Options) (ryu : Nat → List UInt8) : Bool → List (List UInt8 × Value) → Prop
  | _, [] => True
  | free, (sep, v) :: xs =>
    Trivia sep ∧ (free = true ∨ sep ≠ [] ∨ startsFollow (text p ryu v) = true) ∧
      SepsOK p ryu (closes v) xs

theorem seps_follow (p : Print.Options) (ryu : Nat → List UInt8) (tEnd : List UInt8)
    (hE : TriviaEnd tEnd) (free : Bool) (xs : List (List UInt8 × Value))
    (h : SepsOK p ryu free xs) : free = true ∨ Follow (concatText p ryu xs ++ tEnd) := by
  cases xs with
  | nil => right; simpa [concatText] using triviaEnd_follow tEnd hE
  | cons it xs =>
    obtain ⟨sep, v⟩ := it
    obtain ⟨htr, hcond, -⟩ := h
    rcases hcond with hfree | hne | hst
    · exact .inl hfree
    · right
      have := trivia_follow sep (text p ryu v ++ concatText p ryu xs ++ tEnd) htr hne
      simpa [concatText] using this
    · right
      by_cases hne : sep = []
      · subst hne
        have := follow_of_startsFollow (text p ryu v) (concatText p ryu xs ++ tEnd) hst
        simpa [concatText] using this
      · have := trivia_follow sep (text p ryu v ++ concatText p ryu xs ++ tEnd) htr hne
        simpa [concatText] using this

/-- what the calls return for the values -/
def valueItems (p : Print.Options) (r : Options) (items : List (List UInt8 × Value)) : List Item :=
  items.map fun it => Item.value (fold p r it.2)

/-- `valueItems` as a list of values wrapped in `Item.value` (the form used by the transfer
    lemmas of `ConcatSources.lean`) -/
theorem valueItems_eq_map (p : Print.Options) (r : Options) (items : List (List UInt8 × Value)) :
    valueItems p r items = (items.map fun it => fold p r it.2).map Item.value := by
  simp [valueItems, List.map_map]

/-- The values, by induction: from any non-faulty slice state. -/
theorem concat_values (p : Print.Options) (cfg : Cfg) (ryu : Nat → List UInt8)
    (hb : p.vector = .brackets → cfg.opts.brackets = .vector) (op : Op) (hop : ValueOp op)
    (tEnd : List UInt8) (hE : TriviaEnd tEnd) :
    ∀ (items : List (List UInt8 × Value)) (free : Bool) (s : St), Good s →
      s.rd.rest = concatText p ryu items ++ tEnd →
      (∀ it ∈ items, AllAtomsOKP p cfg ryu it.2 ∧ nestingP p it.2 + 1 ≤ s.depth) →
      SepsOK p ryu free items →
      ∃ sN, Good sN ∧ sN.rd.rest = tEnd ∧ sN.depth = s.depth ∧
        ∀ ops' : List Op,
          runHistory cfg (List.replicate items.length op ++ ops') s =
            valueItems p cfg.opts items ++ runHistory cfg ops' sN ∧
          (runStates cfg (List.replicate items.length op ++ ops') s).map obs =
            (rests p ryu tEnd items).map (fun r => (r, s.depth)) ++
              (runStates cfg ops' sN).map obs
  | [], _, s, hg, hr, _, _ => by
    refine ⟨s, hg, by simpa [concatText] using hr, rfl, ?_⟩
    intro ops'
    simp [valueItems, rests]
  | (sep, v) :: xs, free, s, hg, hr, hall, hs => by
    obtain ⟨htr, -, hs'⟩ := hs
    obtain ⟨hv, hdv⟩ := hall (sep, v) (by simp)
    have hf := seps_follow p ryu tEnd hE (closes v) xs hs'
    have hr' : s.rd.rest = sep ++ (text p ryu v ++ (concatText p ryu xs ++ tEnd)) := by
      rw [hr]; simp [concatText]
    obtain ⟨s1, e1, r1, g1, d1⟩ := value_step p cfg ryu hb v hv s sep _ hg htr hr' hf hdv
    have hstep := stepOp_value cfg op hop s s1 _ e1
    obtain ⟨sN, gN, rN, dN, hN⟩ := concat_values p cfg ryu hb op hop tEnd hE xs (closes v) s1 g1 r1
      (fun it hit => by rw [d1]; exact hall it (by simp [hit])) hs'
    refine ⟨sN, gN, rN, dN.trans d1, ?_⟩
    intro ops'
    obtain ⟨hH, hS⟩ := hN ops'
    constructor
    · simp only [List.length_cons, List.replicate_succ, List.cons_append, runHistory, hstep, hH]
      simp [valueItems]
    · simp only [List.length_cons, List.replicate_succ, List.cons_append, runStates, hstep,
        List.map_cons, hS, rests, d1]
      simp [obs, r1, d1]

/-- After the end of the input every further call reports the end again. -/
theorem end_history (cfg : Cfg) (op : Op) (hop : ValueOp op) :
    ∀ (k : Nat) (s : St), Good s → TriviaEnd s.rd.rest →
      runHistory cfg (List.replicate k op) s = List.replicate k .none_ ∧
      (runStates cfg (List.replicate k op) s).map obs = List.replicate k ([], s.depth)
  | 0, _, _, _ => by simp [runHistory, runStates]
  | k + 1, s, hg, ht => by
    obtain ⟨s1, e1, r1, g1, d1⟩ := end_step cfg s hg ht
    have hstep := stepOp_none cfg op hop s s1 e1
    obtain ⟨hH, hS⟩ := end_history cfg op hop k s1 g1 (by rw [r1]; exact .nil)
    constructor
    · simp only [List.replicate_succ, runHistory, hstep, hH]
    · simp only [List.replicate_succ, runStates, hstep, List.map_cons, hS, d1]
      simp [obs, r1, d1]

/-! ## Main theorems -/

/-- **C12_concat_general** (from any state, atoms by hypothesis).  In a non-faulty slice state
    whose unread input is `concatText p ryu items ++ tEnd`, with separators as in `SepsOK`, trailing
    trivia `tEnd`, values whose atoms satisfy the round-trip hypothesis and whose nesting is below
    the depth budget: `items.length + 1 + k` calls return the folded values in order and then
    `k + 1` times end of input — nothing else; after the `i`-th call exactly the input behind the
    `i`-th value is unread and the depth budget is what it was; iterating until the first end of
    input gives the values and the end marker. -/
theorem C12_concat_general (p : Print.Options) (cfg : Cfg) (ryu : Nat → List UInt8)
    (hb : p.vector = .brackets → cfg.opts.brackets = .vector) (op : Op) (hop : ValueOp op)
    (items : List (List UInt8 × Value)) (tEnd : List UInt8) (s : St)
    (hm : s.rd.mode = .slice) (hfa : s.rd.faulty = false)
    (hr : s.rd.rest = concatText p ryu items ++ tEnd)
    (hall : ∀ it ∈ items, AllAtomsOKP p cfg ryu it.2 ∧ nestingP p it.2 + 1 ≤ s.depth)
    (hs : SepsOK p ryu true items) (hE : TriviaEnd tEnd) :
    (∀ k, runHistory cfg (List.replicate (items.length + (k + 1)) op) s =
        valueItems p cfg.opts items ++ List.replicate (k + 1) .none_) ∧
    (∀ k, (runStates cfg (List.replicate (items.length + (k + 1)) op) s).map obs =
        (rests p ryu tEnd items).map (fun r => (r, s.depth)) ++
          List.replicate (k + 1) ([], s.depth)) ∧
    (∀ cap, items.length + 1 ≤ cap →
        iterate cfg op cap s = valueItems p cfg.opts items ++ [.none_]) := by
  obtain ⟨sN, gN, rN, dN, hN⟩ :=
    concat_values p cfg ryu hb op hop tEnd hE items true s ⟨hm, hfa⟩ hr hall hs
  have hhist : ∀ k, runHistory cfg (List.replicate (items.length + (k + 1)) op) s =
      valueItems p cfg.opts items ++ List.replicate (k + 1) .none_ := by
    intro k
    rw [← List.replicate_append_replicate, (hN _).1, (end_history cfg op hop (k + 1) sN gN (by rw [rN]; exact hE)).1]
  refine ⟨hhist, ?_, ?_⟩
  · intro k
    rw [← List.replicate_append_replicate, (hN _).2,
      (end_history cfg op hop (k + 1) sN gN (by rw [rN]; exact hE)).2, dN]
  · intro cap hcap
    have h0 := hhist 0
    refine iterate_of_runHistory cfg op (valueItems p cfg.opts items) s cap ?_ ?_ ?_
    · intro it hit
      simp only [valueItems, List.mem_map] at hit
      obtain ⟨x, -, rfl⟩ := hit
      simp
    · simpa [valueItems] using h0
    · simpa [valueItems] using hcap

/-- **C12_concat.**  For every compatible printer / parser option pair, every ryu parameter, and
    values all of whose atom leaves are plain for the pair (`AllPlainFor`) and whose nesting is at
    most 127: a fresh slice parser on `t0 ++ text v1 ++ sep1 ++ text v2 ++ … ++ tEnd`
    (`concatText` of the (separator, value) pairs, then the trailing trivia), separators as in
    `SepsOK`, returns `fold p cfg.opts v1`, …, `fold p cfg.opts vn` and then end of input, for
    each of the three ways of asking for the next value; further calls keep reporting the end;
    the depth budget is 128 after every call and the unread input after the `i`-th call is
    exactly what follows the `i`-th value. -/
theorem C12_concat (p : Print.Options) (cfg : Cfg) (ryu : Nat → List UInt8)
    (hc : Compatible p cfg.opts = true) (op : Op) (hop : ValueOp op)
    (items : List (List UInt8 × Value)) (tEnd : List UInt8)
    (hall : ∀ it ∈ items, AllPlainFor p cfg it.2 ∧ nestingP p it.2 ≤ 127)
    (hs : SepsOK p ryu true items) (hE : TriviaEnd tEnd) :
    let s0 := initSt .slice (concatText p ryu items ++ tEnd)
    (∀ cap, items.length + 1 ≤ cap →
        iterate cfg op cap s0 = valueItems p cfg.opts items ++ [.none_]) ∧
    (∀ k, runHistory cfg (List.replicate (items.length + (k + 1)) op) s0 =
        valueItems p cfg.opts items ++ List.replicate (k + 1) .none_) ∧
    (∀ k, (runStates cfg (List.replicate (items.length + (k + 1)) op) s0).map obs =
        (rests p ryu tEnd items).map (fun r => (r, 128)) ++ List.replicate (k + 1) ([], 128)) := by
  intro s0
  have h := C12_concat_general p cfg ryu (compatible_brackets p cfg.opts hc) op hop items tEnd s0
    rfl rfl rfl
    (fun it hit => ⟨allAtomsOKP_of_plain p cfg ryu hc it.2 (hall it hit).1, by
      have := (hall it hit).2
      show nestingP p it.2 + 1 ≤ 128
      omega⟩) hs hE
  exact ⟨h.2.2, h.1, h.2.1⟩

/-- non-empty separators everywhere (the leading trivia may be empty) satisfy `SepsOK` -/
theorem sepsOK_of_nonempty (p : Print.Options) (ryu : Nat → List UInt8) :
    ∀ (free : Bool) (items : List (List UInt8 × Value)), (∀ it ∈ items, Trivia it.1) →
      (free = true ∨ ∀ it ∈ items.head?, it.1 ≠ []) → (∀ it ∈ items.tail, it.1 ≠ []) →
      SepsOK p ryu free items
  | _, [], _, _, _ => trivial
  | free, (sep, v) :: xs, htr, hhead, htail => by
    refine ⟨htr (sep, v) (by simp), ?_, ?_⟩
    · rcases hhead with h | h
      · exact .inl h
      · exact .inr (.inl (h (sep, v) (by simp)))
    · refine sepsOK_of_nonempty p ryu _ xs (fun it hit => htr it (by simp [hit])) (.inr ?_) ?_
      · intro it hit
        cases xs with
        | nil => simp at hit
        | cons x xs' =>
          simp only [List.head?_cons, Option.mem_def, Option.some.injEq] at hit
          subst hit
          exact htail x (by simp)
      · intro it hit
        exact htail it (by
          simp only [List.tail_cons]
          exact List.mem_of_mem_tail hit)

/-- **C12_concat_simple**: the statement with every separator between two values non-empty
    (leading trivia `items[0].1` and trailing trivia `tEnd` arbitrary). -/
theorem C12_concat_simple (p : Print.Options) (cfg : Cfg) (ryu : Nat → List UInt8)
    (hc : Compatible p cfg.opts = true) (op : Op) (hop : ValueOp op)
    (items : List (List UInt8 × Value)) (tEnd : List UInt8)
    (hall : ∀ it ∈ items, AllPlainFor p cfg it.2 ∧ nestingP p it.2 ≤ 127)
    (htr : ∀ it ∈ items, Trivia it.1) (hne : ∀ it ∈ items.tail, it.1 ≠ [])
    (hE : TriviaEnd tEnd) (cap : Nat) (hcap : items.length + 1 ≤ cap) :
    iterate cfg op cap (initSt .slice (concatText p ryu items ++ tEnd)) =
      valueItems p cfg.opts items ++ [.none_] :=
  (C12_concat p cfg ryu hc op hop items tEnd hall
    (sepsOK_of_nonempty p ryu true items htr (.inl rfl) hne) hE).1 cap hcap

/-- **C12_concat_default**: with the default printer and the default parser options the values
    come back unchanged. -/
theorem C12_concat_default (cfg : Cfg) (ho : cfg.opts = Parse.Options.default)
    (ryu : Nat → List UInt8) (op : Op) (hop : ValueOp op)
    (items : List (List UInt8 × Value)) (tEnd : List UInt8)
    (hall : ∀ it ∈ items, AllPlainFor Print.Options.default cfg it.2 ∧
      nestingP Print.Options.default it.2 ≤ 127)
    (hs : SepsOK Print.Options.default ryu true items) (hE : TriviaEnd tEnd) :
    let s0 := initSt .slice (concatText Print.Options.default ryu items ++ tEnd)
    (∀ cap, items.length + 1 ≤ cap →
        iterate cfg op cap s0 = items.map (fun it => Item.value it.2) ++ [.none_]) ∧
    (∀ k, runHistory cfg (List.replicate (items.length + (k + 1)) op) s0 =
        items.map (fun it => Item.value it.2) ++ List.replicate (k + 1) .none_) := by
  intro s0
  have hc : Compatible Print.Options.default cfg.opts = true := by rw [ho]; decide
  have h := C12_concat Print.Options.default cfg ryu hc op hop items tEnd hall hs hE
  have hv : valueItems Print.Options.default cfg.opts items =
      items.map (fun it => Item.value it.2) := by
    simp only [valueItems, ho, C02_fold_default]
  simp only [hv] at h
  exact ⟨h.1, h.2.1⟩

/-! ## Which texts may follow without a separator -/

theorem startsFollow_cons (p : Print.Options) (ryu : Nat → List UInt8) (a d : Value) :
    startsFollow (text p ryu (.cons a d)) = true := by rw [textP_cons]; rfl

theorem startsFollow_null (p : Print.Options) (ryu : Nat → List UInt8) :
    startsFollow (text p ryu .null) = true := by rw [textP_null]; rfl

theorem startsFollow_vector_brackets (p : Print.Options) (ryu : Nat → List UInt8) (xs : List Value)
    (h : p.vector = .brackets) : startsFollow (text p ryu (.vector xs)) = true := by
  rw [textP_vector]; simp only [vopen, h]; rfl

/-- a vector written `#(`…`)` does **not** start with a byte that ends every token: after an atom
    it needs a separator (witness `octothorpe_vector_needs_separator` below) -/
theorem startsFollow_vector_octothorpe (p : Print.Options) (ryu : Nat → List UInt8)
    (xs : List Value) (h : p.vector = .octothorpe) :
    startsFollow (text p ryu (.vector xs)) = false := by
  rw [textP_vector]; simp only [vopen, h]; rfl

/-! ## Non-vacuity -/

/-- ` ;first⏎(a 1)␌"s;x";c⏎⇥foo` — a list, a string and a symbol; leading space and comment, a form
    feed, a comment followed by a tab as separators -/
def exItems : List (List UInt8 × Value) :=
  [ (asc " ;first\n", .cons (.symbol (asc "a")) (.cons (.number (.pos 1)) .null)),
    (asc "\x0c", .string (asc "s;x")),
    (asc ";c\n\t", .symbol (asc "foo")) ]

example (ryu : Nat → List UInt8) :
    concatText Print.Options.default ryu exItems ++ asc " ; end" =
      asc " ;first\n(a 1)\x0c\"s;x\";c\n\tfoo ; end" := by rfl

theorem exItems_plain : ∀ it ∈ exItems, AllPlainFor Print.Options.default cfg0 it.2 ∧
    nestingP Print.Options.default it.2 ≤ 127 := by
  intro it hit
  simp only [exItems, List.mem_cons, List.not_mem_nil, or_false] at hit
  rcases hit with rfl | rfl | rfl
  · refine ⟨?_, by simp [nestingP, nestingTailP]⟩
    simp only [AllPlainFor, LeafPlainFor, AtomPlainFor, dotOkP]; decide
  · refine ⟨?_, by simp [nestingP]⟩
    simp only [AllPlainFor, LeafPlainFor, AtomPlainFor, dotOkP]; decide
  · refine ⟨?_, by simp [nestingP]⟩
    simp only [AllPlainFor, LeafPlainFor, AtomPlainFor, dotOkP]; decide

theorem exItems_seps (ryu : Nat → List UInt8) : SepsOK Print.Options.default ryu true exItems :=
  ⟨trivia_of_triviaB _ (by decide), .inl rfl,
   trivia_of_triviaB _ (by decide), .inr (.inl (by decide)),
   trivia_of_triviaB _ (by decide), .inr (.inl (by decide)), trivial⟩

/-- the instance: three values, comment and form-feed separators, an unterminated comment at the
    very end; all three ways of asking, any ryu -/
example (ryu : Nat → List UInt8) (op : Op) (hop : ValueOp op) :
    iterate cfg0 op 4
        (initSt .slice (concatText Print.Options.default ryu exItems ++ asc " ; end")) =
      [.value (.cons (.symbol (asc "a")) (.cons (.number (.pos 1)) .null)),
       .value (.string (asc "s;x")), .value (.symbol (asc "foo")), .none_] :=
  (C12_concat_default cfg0 rfl ryu op hop exItems (asc " ; end") exItems_plain (exItems_seps ryu)
    (triviaEnd_of_triviaEndB _ (by decide))).1 4 (by decide)

/-- the same text, eight calls: the three values, then end of input five times; the depth budget
    is 128 after every call -/
example (ryu : Nat → List UInt8) :
    runHistory cfg0 (List.replicate 8 .nextValue)
        (initSt .slice (concatText Print.Options.default ryu exItems ++ asc " ; end")) =
      [.value (.cons (.symbol (asc "a")) (.cons (.number (.pos 1)) .null)),
       .value (.string (asc "s;x")), .value (.symbol (asc "foo")),
       .none_, .none_, .none_, .none_, .none_] ∧
    ((runStates cfg0 (List.replicate 8 .nextValue)
        (initSt .slice (concatText Print.Options.default ryu exItems ++ asc " ; end"))).map obs).map
          Prod.snd = List.replicate 8 128 := by
  have h := C12_concat Print.Options.default cfg0 ryu (by decide) .nextValue (.inl rfl) exItems
    (asc " ; end") exItems_plain (exItems_seps ryu) (triviaEnd_of_triviaEndB _ (by decide))
  refine ⟨?_, ?_⟩
  · have := h.2.1 4
    simp only [valueItems, exItems, C02_fold_default, cfg0, List.map_cons, List.map_nil,
      List.length_cons, List.length_nil] at this
    exact this
  · have := h.2.2 4
    rw [show exItems.length + (4 + 1) = 8 from rfl] at this
    rw [this]
    simp [rests, exItems]

/-- Emacs Lisp on both sides, no separators where none is needed: `(a)[1]x(b)` then a form feed,
    `nil`, a space and `t`; `Nil` is read back as the empty list and `true` as the symbol `t`. -/
def exElisp : List (List UInt8 × Value) :=
  [ ([], .cons (.symbol (asc "a")) .null),
    ([], .vector [.number (.pos 1)]),
    ([], .symbol (asc "x")),
    ([], .cons (.symbol (asc "b")) .null),
    (asc "\x0c", .nil),
    (asc " ", .bool true) ]

example (ryu : Nat → List UInt8) :
    concatText Print.Options.elisp ryu exElisp = asc "(a)[1]x(b)\x0cnil t" := by rfl

example (ryu : Nat → List UInt8) :
    iterate elCfg .valueIterNext 7 (initSt .slice (concatText Print.Options.elisp ryu exElisp ++ [])) =
      [.value (.cons (.symbol (asc "a")) .null), .value (.vector [.number (.pos 1)]),
       .value (.symbol (asc "x")), .value (.cons (.symbol (asc "b")) .null),
       .value .null, .value (.symbol (asc "t")), .none_] := by
  have h := (C12_concat Print.Options.elisp elCfg ryu (by decide) .valueIterNext (.inr (.inl rfl))
    exElisp [] ?_ ?_ TriviaEnd.nil).1 7 (by decide)
  · exact h
  · intro it hit
    simp only [exElisp, List.mem_cons, List.not_mem_nil, or_false] at hit
    rcases hit with rfl | rfl | rfl | rfl | rfl | rfl <;>
      refine ⟨?_, by simp [nestingP, nestingTailP, nestingSeqP, Print.Options.elisp]⟩ <;>
      simp only [AllPlainFor, AllPlainForSeq, LeafPlainFor, AtomPlainFor, dotOkP] <;> decide
  · exact ⟨.nil, .inl rfl, .nil, .inr (.inr (startsFollow_vector_brackets _ _ _ rfl)), .nil, .inl rfl,
      .nil, .inr (.inr (startsFollow_cons _ _ _ _)),
      trivia_of_triviaB _ (by decide), .inl rfl, trivia_of_triviaB _ (by decide), .inr (.inl (by decide)),
      trivial⟩

example : Trivia (asc " \t\r\n\x0c;c (\n") := trivia_of_triviaB _ (by decide)
example : TriviaEnd (asc "\x0c; last") := triviaEnd_of_triviaEndB _ (by decide)
example : ¬ Trivia (asc " ; last") := by rw [trivia_iff]; decide

/-! ## Witnesses: what the hypotheses exclude (all confirmed on the Rust code) -/

def ryu0 : Nat → List UInt8 := fun _ => []

/-- iterating `next_value` on a text returns exactly the expected items -/
def reads (bytes : List UInt8) (expected : List (Option Value)) : Bool :=
  itemsAre (iterate cfg0 .nextValue 10 (initSt .slice bytes)) expected

/-- `reads` is a genuine equality of item lists (`itemsAre_sound` of `ConcatBase.lean`) -/
theorem reads_sound (bytes : List UInt8) (expected : List (Option Value))
    (h : reads bytes expected = true) :
    iterate cfg0 .nextValue 10 (initSt .slice bytes) = expected.map expItem :=
  itemsAre_sound _ _ h

/-- Two symbols with an empty separator merge into one: `a` `b` ↦ `ab`. -/
theorem empty_separator_merges :
    reads (text po ryu0 (.symbol (asc "a")) ++ text po ryu0 (.symbol (asc "b")))
      [some (.symbol (asc "ab")), none] = true := by decide

/-- An atom followed without separator by a vector written `#(1)`: the `#` is swallowed by the
    symbol, what comes back is the symbol `a#` and the *list* `(1)`.  So "the next text starts with
    an opening delimiter" allows an empty separator only for `(` and `[`, not for `#(`. -/
theorem octothorpe_vector_needs_separator :
    reads (text po ryu0 (.symbol (asc "a")) ++ text po ryu0 (.vector [.number (.pos 1)]))
      [some (.symbol (asc "a#")), some (.cons (.number (.pos 1)) .null), none] = true := by
  decide +kernel

/-- A symbol followed without separator by a string: one symbol `x"s"`. -/
theorem string_after_symbol_needs_separator :
    reads (text po ryu0 (.symbol (asc "x")) ++ text po ryu0 (.string (asc "s")))
      [some (.symbol (asc "x\"s\"")), none] = true := by decide

/-- A separator that ends in a comment without line feed swallows the next value
    (`a ;c b` ↦ `a`): such a separator is not `Trivia`. -/
theorem open_comment_swallows :
    reads (text po ryu0 (.symbol (asc "a")) ++ asc " ;c " ++ text po ryu0 (.symbol (asc "b")))
      [some (.symbol (asc "a")), none] = true ∧ ¬ Trivia (asc " ;c ") := by
  refine ⟨by decide, ?_⟩
  rw [trivia_iff]; decide

/-- A carriage return does not end a comment: `a;c⏎(CR)b` ↦ `a`. -/
theorem cr_does_not_end_comment :
    reads (text po ryu0 (.symbol (asc "a")) ++ asc ";c\r" ++ text po ryu0 (.symbol (asc "b")))
      [some (.symbol (asc "a")), none] = true ∧ ¬ Trivia (asc ";c\r") := by
  refine ⟨by decide, ?_⟩
  rw [trivia_iff]; decide

/-- A vertical tab is not trivia: `a␋b` is one symbol. -/
theorem vt_is_not_trivia :
    reads (text po ryu0 (.symbol (asc "a")) ++ [11] ++ text po ryu0 (.symbol (asc "b")))
      [some (.symbol [97, 11, 98]), none] = true ∧ ¬ Trivia [11] := by
  refine ⟨by decide, ?_⟩
  rw [trivia_iff]; decide

/-- Not needed, not covered: after a string, `#t`, a number or a character the model (and the
    Rust code) reads the next value correctly even with an empty separator. `SepsOK` demands a
    separator there all the same (only pairs, vectors and `()` count as self-closing). -/
example :
    reads (asc "\"s\"x") [some (.string (asc "s")), some (.symbol (asc "x")), none] = true ∧
    reads (asc "#t#f") [some (.bool true), some (.bool false), none] = true ∧
    reads (asc "1\"s\"") [some (.number (.pos 1)), some (.string (asc "s")), none] = true := by
  refine ⟨by decide, by decide, by decide⟩

/-- a comment only, or nothing at all: end of input at once -/
example : reads (asc ";only") [none] = true ∧ reads [] [none] = true := by
  constructor <;> decide

#print axioms C12_concat_general
#print axioms C12_concat
#print axioms C12_concat_simple
#print axioms C12_concat_default
#print axioms trivia_iff
#print axioms empty_separator_merges
#print axioms octothorpe_vector_needs_separator

end Concat
end Parse
end Lexpr
