/-
  Utf8Input — C17, the clause "input that is not valid UTF-8 inside a string is rejected":
  what the model can carry of it for the Emacs Lisp string syntax.

  * `elisp_escape_continuation_rejected` (all states): a backslash followed by a UTF-8 continuation
    byte (0x80..0xBF) is an error — the arm added by repair 29 (/repo c74523a).  Before it the byte
    was pushed as it was and could complete an ill-formed sequence in front of the backslash.
  * `ex_backslash_continuation_rejected`: the input that exposed the defect, `"` f3 9f bb `\` 96 `"`,
    is rejected by the whole reader (kernel-evaluated).
  * `numeric_escape_completes_sequence` (the recorded finding, NOT repaired): a numeric escape with
    a value of 0x80..0xFF pushes that byte as well; `"` c3 `\xa9"` is not valid UTF-8 and is read
    as the string `é`.  The same text with the escape written raw is the valid text the value
    stands for.  The full clause is therefore false of the model and of the code, and it is decided
    by the direct oracle only (known finding `[numeric escape completes a sequence]`).
-/
import LexprModel.Proofs.ImageExamples
import LexprModel.Proofs.ReparseCore
namespace Lexpr
namespace Parse
open Utf8 Image Reparse

/-- a backslash followed by a continuation byte is rejected, whatever has been read so far -/
theorem elisp_escape_continuation_rejected (fuel : Nat) (acc : List UInt8) (S : St) (c : UInt8)
    (t : List UInt8) (h : S.rd.rest = c :: t) (hc : 128 ≤ c ∧ c ≤ 191) :
    ∃ l k S', parseElispEscape fuel acc S = .err (.syntax .invalidUnicodeCodePoint l k) S' := by
  have hk : ∀ k : UInt8, k < 128 → (c == k) = false := by
    intro k hk
    rw [beq_eq_false_iff_ne]
    intro e; subst e
    have h1 := UInt8.le_iff_toNat_le.mp hc.1
    have h2 := UInt8.lt_iff_toNat_lt.mp hk
    simp at h1 h2; omega
  have h55 : (48 ≤ c && c ≤ 55) = false := by
    have h1 := UInt8.le_iff_toNat_le.mp hc.1
    simp only [Bool.and_eq_false_iff, decide_eq_false_iff_not]
    right
    intro h2
    have h2 := UInt8.le_iff_toNat_le.mp h2
    simp at h1 h2; omega
  have hr : (128 ≤ c && c ≤ 191) = true := by simp [hc.1, hc.2]
  refine ⟨(adv1 S).rd.position.line, (adv1 S).rd.position.col, adv1 S, ?_⟩
  have hn : nextOrEof S = .ok c (adv1 S) := by
    unfold nextOrEof
    rw [bind_ok_eq (next_cons h)]
    rfl
  unfold parseElispEscape
  rw [bind_ok_eq hn]
  simp only [hk 34 (by decide), hk 92 (by decide), hk 32 (by decide), hk 97 (by decide),
    hk 98 (by decide), hk 116 (by decide), hk 110 (by decide), hk 118 (by decide),
    hk 102 (by decide), hk 114 (by decide), hk 101 (by decide), hk 115 (by decide),
    hk 100 (by decide), hk 94 (by decide), hk 78 (by decide), hk 117 (by decide),
    hk 85 (by decide), hk 120 (by decide), h55, hr]
  rfl

/-- the input of repair 29 -/
theorem ex_backslash_continuation_rejected :
    rejectsWith cfgEl [0x22, 0xF3, 0x9F, 0xBB, 0x5C, 0x96, 0x22] .invalidUnicodeCodePoint = true := by
  decide +kernel

/-- the recorded finding: a truncated sequence completed by a numeric escape is accepted -/
theorem numeric_escape_completes_sequence :
    Utf8.valid [0x22, 0xC3, 0x5C, 0x78, 0x61, 0x39, 0x22] = false ∧
    parsesTo cfgEl [0x22, 0xC3, 0x5C, 0x78, 0x61, 0x39, 0x22] (.string [0xC3, 0xA9]) = true ∧
    parsesTo cfgEl [0x22, 0xC3, 0xA9, 0x22] (.string [0xC3, 0xA9]) = true := by
  decide +kernel

end Parse
end Lexpr
