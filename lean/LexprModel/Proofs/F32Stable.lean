/-
  F32Stable — `f64 as f32` (the model's `roundToF32`) undoes a perturbation within `floatClose`.

  An `f32` value is serialized as the double `x` it widens to (`roundToF32 x = x`).  The default
  build reads the printed text back as a double `g` with `floatClose x g` (`2^-50` relative plus
  `2^-1073` absolute).  Neighbouring binary32 values are `2^-24` relative (or `2^-149` absolute)
  apart, so `g` is far from every binary32 rounding boundary:

  * `roundToF32_stable : x < 2^64 → roundToF32 x = x → floatClose x g → roundToF32 g = x`.

  * `ofF32Bits_fixed`: the widening of every finite binary32 bit pattern is such an `x`
    (a fixed point of `roundToF32`, below `2^64`); `roundToF32_stable_widen` combines the two.

  The proof works on magnitudes scaled by `2^1074` (every finite double is a natural multiple of
  `2^-1074`): `a = |x|·2^1074 = r·2^s` with `r < 2^24`, `925 ≤ s`, `b = |g|·2^1074`, and
  `floatClose` reads `2^50·|b - a| ≤ a + 2^51`.  The last place `2^t` of the binary32 rounding of
  `b` satisfies `t ≤ s` and `2·|b - a| < 2^t` (`near_core`), so the rounded mantissa is
  `r·2^(s-t)`.  No case split on normal / subnormal / binade boundary / `f32::MAX` is needed.
-/
import LexprModel.Proofs.F32Idem
import LexprModel.Proofs.FloatApprox
namespace Lexpr
namespace Serde
open F64 FloatApprox

/-! ## 1. Helpers over `Nat` -/

/-- `rne` depends only on the rational `n / d` -/
theorem rne_cross {n d n' d' : Nat} (hd : 0 < d) (hd' : 0 < d') (h : n * d' = n' * d) :
    rne n d = rne n' d' := by
  rw [← Numbers.rne_scale (n := n) (d := d) hd', ← Numbers.rne_scale (n := n') (d := d') hd, h,
    Nat.mul_comm d d']

/-- a quotient less than one half away from an integer rounds to it -/
theorem rne_near {n d A : Nat} (hd : 0 < d) (h1 : 2 * n < 2 * (A * d) + d)
    (h2 : 2 * (A * d) < 2 * n + d) : rne n d = A := by
  obtain ⟨e1, e2⟩ := Accuracy.rne_err (n := n) hd
  generalize rne n d = K at *
  by_cases hlt : K < A
  · have := Nat.mul_le_mul_left d (show K + 1 ≤ A by omega)
    rw [Nat.mul_add, Nat.mul_one, Nat.mul_comm d A] at this
    omega
  · by_cases hgt : A < K
    · have := Nat.mul_le_mul_left d (show A + 1 ≤ K by omega)
      rw [Nat.mul_add, Nat.mul_one, Nat.mul_comm d A] at this
      omega
    · omega

theorem two_pow_mul (m A B C D : Nat) (h : A + B = C + D) :
    m * 2 ^ A * 2 ^ B = m * 2 ^ C * 2 ^ D := by
  rw [Nat.mul_assoc, Nat.mul_assoc, ← Nat.pow_add, ← Nat.pow_add, h]

/-- `rnScaled` depends only on the value `m * 2^p` -/
theorem rnScaled_shift (r k : Nat) (q : Int) : rnScaled (r * 2 ^ k) q = rnScaled r (q + k) := by
  unfold rnScaled
  by_cases hq : q ≥ 0
  · have hq' : q + (k : Int) ≥ 0 := by omega
    simp only [hq, hq', if_true]
    congr 1
    rw [Nat.mul_assoc, ← Nat.pow_add]; congr 2; omega
  · simp only [hq, if_false]
    by_cases hq' : q + (k : Int) ≥ 0
    · simp only [hq', if_true]
      apply Numbers.rn_cross (Nat.two_pow_pos _) (by omega)
      rw [Nat.mul_one, Nat.mul_assoc, ← Nat.pow_add]; congr 2; omega
    · simp only [hq', if_false]
      apply Numbers.rn_cross (Nat.two_pow_pos _) (Nat.two_pow_pos _)
      rw [Nat.mul_assoc, ← Nat.pow_add]; congr 2; omega

/-- the binary32 mantissa rounding of `roundToF32`, on the magnitude scaled by `2^1074` -/
theorem coreR_common (m : Nat) (p q : Int) (hp : -1074 ≤ p) (hq : -1074 ≤ q) :
    coreR (nOf m p) (dOf p) q = rne (m * 2 ^ (p + 1074).toNat) (2 ^ (q + 1074).toNat) := by
  unfold coreR nOf dOf
  by_cases hp0 : p ≥ 0 <;> by_cases hq0 : q ≥ 0 <;> simp only [hp0, hq0, if_true, if_false]
  · apply rne_cross (by rw [Nat.one_mul]; exact Nat.two_pow_pos _) (Nat.two_pow_pos _)
    rw [Nat.one_mul]; exact two_pow_mul _ _ _ _ _ (by omega)
  · apply rne_cross (by omega) (Nat.two_pow_pos _)
    rw [Nat.mul_one, Nat.mul_assoc m, ← Nat.pow_add, Nat.mul_assoc, ← Nat.pow_add]; congr 2; omega
  · apply rne_cross (Nat.mul_pos (Nat.two_pow_pos _) (Nat.two_pow_pos _)) (Nat.two_pow_pos _)
    rw [← Nat.pow_add, Nat.mul_assoc, ← Nat.pow_add]; congr 2; omega
  · apply rne_cross (Nat.two_pow_pos _) (Nat.two_pow_pos _)
    exact two_pow_mul _ _ _ _ _ (by omega)

/-! ## 2. The numeric core -/

theorem lin_pos (a S b : Nat) (hS : 2 ^ 100 ≤ S) (lo : 1 * S ≤ a)
    (h1 : a * 2 ^ 50 ≤ b * 2 ^ 50 + a + 2 ^ 51) : b ≠ 0 := by omega

theorem lin_hi (a S b : Nat) (hS : 2 ^ 100 ≤ S) (hi : a ≤ (2 ^ 24 - 1) * S)
    (h2 : b * 2 ^ 50 ≤ a * 2 ^ 50 + a + 2 ^ 51) : b < 2 ^ 24 * S := by omega

theorem lin_near (a T b : Nat) (hT : 2 ^ 100 ≤ T) (hbT : b < 2 ^ 24 * T)
    (h1 : a * 2 ^ 50 ≤ b * 2 ^ 50 + a + 2 ^ 51) (h2 : b * 2 ^ 50 ≤ a * 2 ^ 50 + a + 2 ^ 51) :
    2 * b < 2 * a + T ∧ 2 * a < 2 * b + T := by omega

/-- **near_core.**  `a = R·2^s` a binary32 magnitude (scaled by `2^1074`: `925 ≤ s`), `b` within
    `2^-50·a + 2`.  Then `b ≠ 0`, and for the last place `2^t` of the binary32 rounding of `b`
    (`t + 23 = max (log2 b) 948`): `t ≤ s` and `b / 2^t` rounds to `R·2^(s-t)`. -/
theorem near_core (R s b : Nat) (hR0 : 0 < R) (hR : R < 2 ^ 24) (hs : 925 ≤ s)
    (h1 : R * 2 ^ s * 2 ^ 50 ≤ b * 2 ^ 50 + R * 2 ^ s + 2 ^ 51)
    (h2 : b * 2 ^ 50 ≤ R * 2 ^ s * 2 ^ 50 + R * 2 ^ s + 2 ^ 51) :
    b ≠ 0 ∧ ∀ t, t + 23 = max b.log2 948 → t ≤ s ∧ rne b (2 ^ t) = R * 2 ^ (s - t) := by
  have hS : 2 ^ 100 ≤ 2 ^ s := Nat.pow_le_pow_right (by omega) (by omega)
  have ha_lo : 1 * 2 ^ s ≤ R * 2 ^ s := Nat.mul_le_mul_right _ hR0
  have ha_hi : R * 2 ^ s ≤ (2 ^ 24 - 1) * 2 ^ s := Nat.mul_le_mul_right _ (by omega)
  have hb0 : b ≠ 0 := lin_pos _ _ _ hS ha_lo h1
  refine ⟨hb0, fun t ht => ?_⟩
  have hb_hi : b < 2 ^ (24 + s) := by
    rw [Nat.pow_add]; exact lin_hi _ _ _ hS ha_hi h2
  have hL : b.log2 < 24 + s := (Nat.log2_lt hb0).mpr hb_hi
  have hts : t ≤ s := by omega
  refine ⟨hts, ?_⟩
  have hT : 2 ^ 100 ≤ 2 ^ t := Nat.pow_le_pow_right (by omega) (by omega)
  have hbT : b < 2 ^ 24 * 2 ^ t := by
    rw [← Nat.pow_add]
    exact Nat.lt_of_lt_of_le Nat.lt_log2_self (Nat.pow_le_pow_right (by omega) (by omega))
  have hAT : R * 2 ^ (s - t) * 2 ^ t = R * 2 ^ s := by
    rw [Nat.mul_assoc, ← Nat.pow_add]; congr 2; omega
  obtain ⟨k1, k2⟩ := lin_near _ _ _ hT hbT h1 h2
  apply rne_near (Nat.two_pow_pos _)
  · rw [hAT]; exact k1
  · rw [hAT]; exact k2

/-! ## 3. Decoding -/

theorem decode_snd_ge (b : Nat) : -1074 ≤ (decode b).2 := by
  unfold decode
  simp only []
  generalize (b % signBit) / two52 = k
  split
  · simp
  · simp only []; omega

theorem decode_fst_zero {b : Nat} (h : (decode b).1 = 0) : b % signBit = 0 := by
  unfold decode at h
  simp only [] at h
  have := Nat.div_add_mod (b % signBit) two52
  split at h
  · next h0 => simp only [] at h; rw [h0, h] at this; omega
  · simp only [two52] at h; omega

theorem finite_flags {b : Nat} (h : isFinite b = true) : isNaN b = false ∧ isInf b = false := by
  have := finite_mod h
  unfold isNaN isInf
  constructor
  · exact decide_eq_false (by omega)
  · simp only [beq_eq_false_iff_ne, ne_eq]; omega

theorem sign_cases (b : Nat) :
    (if b ≥ signBit then signBit else 0) = 0 ∨ (if b ≥ signBit then signBit else 0) = signBit := by
  split <;> simp

/-- a zero of either sign, as a 64-bit pattern -/
theorem zero_bits {b : Nat} (hb : b < 2 ^ 64) (h : b % signBit = 0) :
    b = if b ≥ signBit then signBit else 0 := by
  by_cases hge : b ≥ signBit
  · rw [if_pos hge]; simp only [signBit] at *; omega
  · rw [if_neg hge]; simp only [signBit] at *; omega

/-- **f32_repr.**  A finite non-zero fixed point of `roundToF32` is `± r·2^q` with `r < 2^24`,
    `-149 ≤ q`, below `2^128`; its magnitude scaled by `2^1074` is `r·2^(q+1074)`. -/
theorem f32_repr (x m : Nat) (p : Int) (hfix : roundToF32 x = x) (hnan : isNaN x = false)
    (hinf : isInf x = false) (hdec : decode x = (m, p)) (hm : m ≠ 0) :
    ∃ r q, r ≠ 0 ∧ r < 2 ^ 24 ∧ -149 ≤ q ∧ (q ≥ 0 → r * 2 ^ q.toNat < 2 ^ 128) ∧
      x = (if x ≥ signBit then signBit else 0) + rnScaled r q ∧
      m * 2 ^ (p + 1074).toNat = r * 2 ^ (q + 1074).toNat := by
  rw [roundToF32_finite x m p hnan hinf hdec hm] at hfix
  have hs := sign_cases x
  obtain ⟨hr, hq⟩ := coreR_le m p
  generalize (if x ≥ signBit then signBit else 0) = sign at hs hfix ⊢
  generalize coreR (nOf m p) (dOf p) (qOf m p) = r at hr hfix
  generalize qOf m p = q at hq hfix
  unfold coreOut at hfix
  by_cases hov : (if q ≥ 0 then r * 2 ^ q.toNat ≥ 2 ^ 128 else false = true)
  · rw [if_pos hov] at hfix
    exfalso
    have : isInf x = true := by
      rw [← hfix]; unfold isInf
      rcases hs with rfl | rfl <;> decide
    rw [this] at hinf; exact Bool.noConfusion hinf
  rw [if_neg hov] at hfix
  have hov' : q ≥ 0 → r * 2 ^ q.toNat < 2 ^ 128 := by
    intro hq0; simp only [hq0, if_true] at hov; omega
  have hr0 : r ≠ 0 := by
    intro h0; subst h0
    rw [rnScaled_zero, Nat.add_zero] at hfix
    have : decode x = (0, -1074) := by
      rw [← hfix]; rcases hs with rfl | rfl <;> decide
    rw [this] at hdec
    exact hm (congrArg Prod.fst hdec).symm
  -- normalise `r = 2^24`
  have key : ∀ (r : Nat) (q : Int), r ≠ 0 → r < 2 ^ 24 → -149 ≤ q →
      (q ≥ 0 → r * 2 ^ q.toNat < 2 ^ 128) → sign + rnScaled r q = x →
      m * 2 ^ (p + 1074).toNat = r * 2 ^ (q + 1074).toNat := by
    intro r q hr0 hr24 hq hov hx
    have hL : r.log2 ≤ 23 := by have := (Nat.log2_lt (k := 24) hr0).mpr hr24; omega
    have hE : (r.log2 : Int) + q ≤ 127 := by
      by_cases hq0 : q ≥ 0
      · have h1 : 2 ^ (r.log2 + q.toNat) < 2 ^ 128 :=
          calc 2 ^ (r.log2 + q.toNat) = 2 ^ r.log2 * 2 ^ q.toNat := Nat.pow_add _ _ _
            _ ≤ r * 2 ^ q.toNat := Nat.mul_le_mul_right _ (Nat.log2_self_le hr0)
            _ < 2 ^ 128 := hov hq0
        have := (Nat.pow_lt_pow_iff_right (by omega : 1 < 2)).mp h1
        omega
      · omega
    obtain ⟨hM1, hM2⟩ := mant_bounds r hr0 (by omega)
    have hB := rnScaled_exact r q hr0 (by omega) (by omega) (by omega)
    obtain ⟨hd, -, -, -⟩ :=
      decode_bits ((r.log2 : Int) + q) (r * 2 ^ (52 - r.log2)) sign (by omega) (by omega) hM1 hM2 hs
    rw [← hB, hx, hdec] at hd
    injection hd with e1 e2
    subst e1 e2
    rw [Nat.mul_assoc, ← Nat.pow_add]; congr 2; omega
  by_cases hr24 : r = 2 ^ 24
  · subst hr24
    have hq103 : q ≤ 103 := by
      by_cases hq0 : q ≥ 0
      · have h1 := hov' hq0
        rw [← Nat.pow_add] at h1
        have := (Nat.pow_lt_pow_iff_right (by omega : 1 < 2)).mp h1
        omega
      · omega
    rw [rnScaled_pow24 q hq hq103] at hfix
    have hov2 : q + 1 ≥ 0 → 2 ^ 23 * 2 ^ (q + 1).toNat < 2 ^ 128 := by
      intro _
      rw [← Nat.pow_add]
      exact Nat.pow_lt_pow_right (by omega) (by omega)
    exact ⟨2 ^ 23, q + 1, by decide, by decide, by omega, hov2, hfix.symm,
      key _ _ (by decide) (by decide) (by omega) hov2 hfix⟩
  · exact ⟨r, q, hr0, by omega, hq, hov', hfix.symm, key _ _ hr0 (by omega) hq hov' hfix⟩

/-! ## 4. `closeMag` over `Nat` -/

theorem mag_rat (m : Nat) (p : Int) (hp : -1074 ≤ p) :
    (m : Rat) * (2 : Rat) ^ p =
      ((m * 2 ^ (p + 1074).toNat : Nat) : Rat) * (2 : Rat) ^ (-1074 : Int) := by
  have h2c : ((2 : Nat) : Rat) = 2 := rfl
  rw [Rat.natCast_mul, Rat.natCast_pow, h2c, ← Rat.zpow_natCast, Int.toNat_of_nonneg (by omega),
    Rat.mul_assoc, ← Rat.zpow_add Accuracy.two_ne]
  congr 2; omega

theorem closeMag_nat (a b : Nat)
    (h : closeMag ((a : Rat) * (2 : Rat) ^ (-1074 : Int)) ((b : Rat) * (2 : Rat) ^ (-1074 : Int))) :
    a * 2 ^ 50 ≤ b * 2 ^ 50 + a + 2 ^ 51 ∧ b * 2 ^ 50 ≤ a * 2 ^ 50 + a + 2 ^ 51 := by
  obtain ⟨h1, h2⟩ := h
  have hu := Accuracy.two_zpow_pos (-1074)
  have hc : cAbs = 2 * (2 : Rat) ^ (-1074 : Int) := by
    unfold cAbs
    rw [show (-1073 : Int) = -1074 + 1 by decide, Rat.zpow_add_one Accuracy.two_ne, Rat.mul_comm]
  have hr : cRel = 1 / 2 ^ 50 := rfl
  rw [hc, hr] at h1 h2
  have h2c : ((2 : Nat) : Rat) = 2 := rfl
  generalize (2 : Rat) ^ (-1074 : Int) = u at *
  constructor
  · apply Rat.natCast_le_natCast.mp
    apply Rat.le_of_mul_le_mul_right _ hu
    simp only [Rat.natCast_add, Rat.natCast_mul, Rat.natCast_pow, h2c]
    grind
  · apply Rat.natCast_le_natCast.mp
    apply Rat.le_of_mul_le_mul_right _ hu
    simp only [Rat.natCast_add, Rat.natCast_mul, Rat.natCast_pow, h2c]
    grind

/-! ## 5. Stability -/

/-- `roundToF32` on a finite non-zero double, through the scaled magnitude `b = m·2^(p+1074)` -/
theorem roundToF32_scaled (g m : Nat) (p : Int) (h1 : isNaN g = false) (h2 : isInf g = false)
    (hdec : decode g = (m, p)) (hm : m ≠ 0) :
    -1074 ≤ p ∧ -149 ≤ qOf m p ∧
    (((qOf m p + 1074).toNat + 23 = max (m * 2 ^ (p + 1074).toNat).log2 948)) ∧
    roundToF32 g = coreOut (if g ≥ signBit then signBit else 0)
      (rne (m * 2 ^ (p + 1074).toNat) (2 ^ (qOf m p + 1074).toNat)) (qOf m p) := by
  have hp : -1074 ≤ p := by have := decode_snd_ge g; rw [hdec] at this; exact this
  have hq := (coreR_le m p).2
  refine ⟨hp, hq, ?_, ?_⟩
  · rw [log2_mul_pow m _ hm]
    unfold qOf
    split <;> omega
  · rw [roundToF32_finite g m p h1 h2 hdec hm, coreR_common m p _ hp (by omega)]

/-- **roundToF32_stable.**  A binary32 value `x` (a 64-bit pattern fixed by `roundToF32`) and a
    double `g` with `floatClose x g` (both finite, same sign, magnitudes within
    `2^-50·|x| + 2^-1073`): narrowing `g` to `f32` gives `x` back exactly.  Covers `±0`,
    binary32 subnormals, binade boundaries and `f32::MAX`. -/
theorem roundToF32_stable (x g : Nat) (hx : x < 2 ^ 64) (hfix : roundToF32 x = x)
    (hc : floatClose x g) : roundToF32 g = x := by
  obtain ⟨hfx, hfg, hneg, hg64, hcm⟩ := hc
  obtain ⟨hnx, hix⟩ := finite_flags hfx
  obtain ⟨hng, hig⟩ := finite_flags hfg
  have hsign : (if g ≥ signBit then signBit else 0) = (if x ≥ signBit then signBit else 0) := by
    unfold isNeg at hneg
    by_cases h : x ≥ signBit
    · have : g ≥ signBit := by simpa [h] using hneg
      rw [if_pos h, if_pos this]
    · have : ¬ g ≥ signBit := by simpa [h] using hneg
      rw [if_neg h, if_neg this]
  cases hdx : decode x with
  | mk mx px =>
  cases hdg : decode g with
  | mk mg pg =>
  have hpx : -1074 ≤ px := by have := decode_snd_ge x; rw [hdx] at this; exact this
  have hpg : -1074 ≤ pg := by have := decode_snd_ge g; rw [hdg] at this; exact this
  unfold Accuracy.val at hcm
  rw [hdx, hdg] at hcm
  simp only [] at hcm
  rw [mag_rat mx px hpx, mag_rat mg pg hpg] at hcm
  obtain ⟨N1, N2⟩ := closeMag_nat _ _ hcm
  by_cases hmx : mx = 0
  · -- `x = ±0`
    subst hmx
    have hx0 : x = if x ≥ signBit then signBit else 0 :=
      zero_bits hx (decode_fst_zero (by rw [hdx]))
    rw [Nat.zero_mul] at N2
    by_cases hmg : mg = 0
    · subst hmg
      have hg0 : g = if g ≥ signBit then signBit else 0 :=
        zero_bits hg64 (decode_fst_zero (by rw [hdg]))
      have : roundToF32 g = g := by unfold roundToF32; simp [hdg, hng, hig]
      rw [this, hg0, hsign, ← hx0]
    · obtain ⟨-, hq, ht, hround⟩ := roundToF32_scaled g mg pg hng hig hdg hmg
      rw [hround, hsign]
      have hT : 2 ^ 3 ≤ 2 ^ (qOf mg pg + 1074).toNat := Nat.pow_le_pow_right (by omega) (by omega)
      rw [Decimals.rne_zero (by omega)]
      unfold coreOut
      have : ¬ (if qOf mg pg ≥ 0 then 0 * 2 ^ (qOf mg pg).toNat ≥ 2 ^ 128 else false = true) := by
        split <;> simp
      rw [if_neg this, rnScaled_zero, Nat.add_zero]
      exact hx0.symm
  · obtain ⟨r, q, hr0, hr24, hq, hov, hxeq, hmag⟩ := f32_repr x mx px hfix hnx hix hdx hmx
    rw [hmag] at N1 N2
    obtain ⟨hb0, hcore⟩ := near_core r (q + 1074).toNat _ (by omega) hr24 (by omega) N1 N2
    have hmg : mg ≠ 0 := by intro h0; subst h0; exact hb0 (Nat.zero_mul _)
    obtain ⟨-, hqg, ht, hround⟩ := roundToF32_scaled g mg pg hng hig hdg hmg
    obtain ⟨hts, hr⟩ := hcore _ ht
    rw [hround, hr, hsign]
    generalize qOf mg pg = qg at *
    have hk : qg + (((q + 1074).toNat - (qg + 1074).toNat : Nat) : Int) = q := by omega
    unfold coreOut
    have hnov : ¬ (if qg ≥ 0 then
        r * 2 ^ ((q + 1074).toNat - (qg + 1074).toNat) * 2 ^ qg.toNat ≥ 2 ^ 128 else false = true) := by
      by_cases hq0 : qg ≥ 0
      · simp only [hq0, if_true]
        rw [Nat.mul_assoc, ← Nat.pow_add,
          show (q + 1074).toNat - (qg + 1074).toNat + qg.toNat = q.toNat by omega]
        have := hov (by omega); omega
      · simp [hq0]
    rw [if_neg hnov, rnScaled_shift, hk]
    exact hxeq.symm

/-- the bound `x < 2^64` cannot be dropped: `2·signBit` is a "zero" for `decode` but not a 64-bit
    pattern; `roundToF32` fixes it, `signBit` (`-0.0`) is `floatClose` to it, and narrowing
    `-0.0` gives `-0.0`.  (An artefact of bit patterns being `Nat`; no Rust value is involved.) -/
example : roundToF32 (2 * signBit) = 2 * signBit ∧ floatClose (2 * signBit) signBit ∧
    roundToF32 signBit ≠ 2 * signBit := by
  refine ⟨by decide +kernel, ⟨by decide, by decide, by decide, by decide, ?_⟩, by decide +kernel⟩
  have e1 : Accuracy.val (2 * signBit) = 0 := by decide +kernel
  have e2 : Accuracy.val signBit = 0 := by decide +kernel
  rw [e1, e2]
  exact closeMag_refl Rat.le_refl

/-! ## 6. Every finite binary32 value, widened, is such an `x` -/

theorem rnScaled_lt (r : Nat) (q : Int) (hr : r < 2 ^ 24) (hq1 : -149 ≤ q) (hq2 : q ≤ 104) :
    rnScaled r q < 2 ^ 63 := by
  by_cases hr0 : r = 0
  · subst hr0; rw [rnScaled_zero]; decide
  have hL : r.log2 ≤ 23 := by have := (Nat.log2_lt (k := 24) hr0).mpr hr; omega
  obtain ⟨-, hM2⟩ := mant_bounds r hr0 (by omega)
  rw [rnScaled_exact r q hr0 (by omega) (by omega) (by omega)]
  have hE : ((r.log2 : Int) + q + 1022).toNat ≤ 1149 := by omega
  have := Nat.mul_le_mul_right two52 hE
  simp only [two52] at *
  omega

/-- **ofF32Bits_fixed.**  The widening of every finite binary32 bit pattern is a fixed point of
    `roundToF32` and a 64-bit pattern: the hypotheses of `roundToF32_stable` on `x` hold of every
    finite `f32`. -/
theorem ofF32Bits_fixed (b : Nat) (hfin : b % 2147483648 / 8388608 ≠ 255) :
    roundToF32 (ofF32Bits b) = ofF32Bits b ∧ ofF32Bits b < 2 ^ 64 := by
  have hmag : b % 2147483648 / 8388608 ≤ 254 := by omega
  have hfrac : b % 2147483648 % 8388608 < 2 ^ 23 := Nat.mod_lt _ (by decide)
  have hs : (if b ≥ 2147483648 then signBit else 0) = 0 ∨
      (if b ≥ 2147483648 then signBit else 0) = signBit := by split <;> simp
  unfold ofF32Bits
  simp only [hfin, if_false]
  generalize (if b ≥ 2147483648 then signBit else 0) = sign at hs
  generalize b % 2147483648 / 8388608 = biased at *
  generalize b % 2147483648 % 8388608 = frac at *
  have hsb : sign ≤ 2 ^ 63 := by rcases hs with rfl | rfl <;> decide
  by_cases hb0 : biased = 0
  · simp only [hb0, if_true]
    refine ⟨?_, by have := rnScaled_lt frac (-149) (by omega) (by omega) (by omega); omega⟩
    by_cases hf0 : frac = 0
    · subst hf0
      rw [rnScaled_zero, Nat.add_zero]
      rcases hs with rfl | rfl
      · exact fixed_zero_pos
      · exact fixed_zero_neg
    · exact fixed_repr sign frac (-149) hs hf0 (by omega) (by omega) (fun h => by omega)
  · simp only [hb0, if_false]
    refine ⟨?_, by
      have := rnScaled_lt (frac + 8388608) ((biased : Int) - 150) (by omega) (by omega) (by omega)
      omega⟩
    apply fixed_repr sign (frac + 8388608) ((biased : Int) - 150) hs (by omega) (by omega) (by omega)
    intro _
    calc (frac + 8388608) * 2 ^ ((biased : Int) - 150).toNat
        < 2 ^ 24 * 2 ^ ((biased : Int) - 150).toNat :=
          Nat.mul_lt_mul_of_pos_right (by omega) (Nat.two_pow_pos _)
      _ = 2 ^ (24 + ((biased : Int) - 150).toNat) := (Nat.pow_add 2 24 _).symm
      _ ≤ 2 ^ 128 := Nat.pow_le_pow_right (by omega) (by omega)

/-- **roundToF32_stable_widen.**  `(widen x as f64 ≈ g) as f32 = x` for every finite `f32` bit
    pattern `b`. -/
theorem roundToF32_stable_widen (b g : Nat) (hfin : b % 2147483648 / 8388608 ≠ 255)
    (hc : floatClose (ofF32Bits b) g) : roundToF32 g = ofF32Bits b :=
  roundToF32_stable _ g (ofF32Bits_fixed b hfin).2 (ofF32Bits_fixed b hfin).1 hc

/-- `f32::MAX` (`0x7F7FFFFF`) and the double one ulp above its widening -/
example : roundToF32 0x47EFFFFFE0000001 = ofF32Bits 0x7F7FFFFF :=
  roundToF32_stable_widen _ _ (by decide)
    ⟨by decide, by decide, by decide, by decide, by unfold closeMag; decide +kernel⟩

/-! ## 7. Instances -/

/-- `0.1f32` widened (`0x3FB99999A0000000`) and the double four ulps above it -/
example : roundToF32 0x3FB99999A0000004 = 0x3FB99999A0000000 :=
  roundToF32_stable _ _ (by decide) (by decide +kernel)
    ⟨by decide, by decide, by decide, by decide, by unfold closeMag; decide +kernel⟩

/-- `f32::MAX` widened (`0x47EFFFFFE0000000`): a double slightly above it still narrows to
    `f32::MAX`, not to infinity -/
example : roundToF32 0x47EFFFFFE0000004 = 0x47EFFFFFE0000000 :=
  roundToF32_stable _ _ (by decide) (by decide +kernel)
    ⟨by decide, by decide, by decide, by decide, by unfold closeMag; decide +kernel⟩

/-- the smallest binary32 subnormal `2^-149` (`0x36A0000000000000`), perturbed downwards -/
example : roundToF32 0x369FFFFFFFFFFFFD = 0x36A0000000000000 :=
  roundToF32_stable _ _ (by decide) (by decide +kernel)
    ⟨by decide, by decide, by decide, by decide, by unfold closeMag; decide +kernel⟩

/-- `-0.0` and the negative double `-2^-1073` -/
example : roundToF32 (signBit + 2) = signBit :=
  roundToF32_stable _ _ (by decide) (by decide +kernel)
    ⟨by decide, by decide, by decide, by decide, by unfold closeMag; decide +kernel⟩

#print axioms near_core
#print axioms f32_repr
#print axioms roundToF32_stable
#print axioms ofF32Bits_fixed

end Serde
end Lexpr
