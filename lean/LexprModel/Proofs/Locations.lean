/-
  Error locations lie inside the input; EOF-category errors are raised at the end of the input.

  Contents
   * positions of prefixes: `posOf`, `lines`, `lineLen`, `posOf_bounds`;
   * the ghost invariant `At input s` (generalised to a text starting at any position, `AtG`);
   * a small Hoare calculus `LSpec o input K m s s0 Q` on top of `Progress.Sat`, with a tactic `lwp`
     that follows the `do` blocks: every function of Lex.lean / Parse.lean keeps the invariant, and
     every syntax error it raises carries the position of a prefix of the input (`LocG`) and
     satisfies a requirement `K` on its code and state (`KLex` for the lexer, `KParse` for the
     parser; captured errors that are re-raised later are handled by resetting the reference
     state `s0`);
   * main theorems (end of file): `posOf_bounds'`, `peekPosition_bounds`, `C19_location(_strong,
     _api, _history)`, `C19_eof_only_at_end(_false)`, `C19_eof_lexer(_number)`,
     `C19_syntax_at_end`, `C19_prefix_det(_scanners, _ok)` (proved in PrefixDet.lean),
     `C19_truncation_reads_all`, `C19_truncation_u8_hash`.
-/
import LexprModel.Proofs.Progress
import LexprModel.Proofs.PrefixDet
namespace Lexpr
namespace Parse
namespace Locations
open Progress (Sat)
open PrefixDet (Sim ext Scanner digitsLen)

/-! ### positions of prefixes -/

/-- one byte further -/
def step (p : Pos) (b : UInt8) : Pos := ⟨(advance p.line p.col b).1, (advance p.line p.col b).2⟩

/-- position reached from `p` after the bytes `bs` -/
def posFrom (p : Pos) (bs : List UInt8) : Pos := bs.foldl step p

/-- position after the bytes `bs`, counted from the start of the input (line 1, column 0) -/
def posOf (bs : List UInt8) : Pos := posFrom ⟨1, 0⟩ bs

/-- number of lines: one more than the number of line feeds -/
def lines (input : List UInt8) : Nat := 1 + input.count 10

/-- number of bytes of the `l`-th line (1-based), without its line feed; 0 if there is no such line -/
def lineLen : List UInt8 → Nat → Nat
  | [], _ => 0
  | _ :: _, 0 => 0
  | b :: bs, 1 => if b == 10 then 0 else lineLen bs 1 + 1
  | b :: bs, l + 2 => if b == 10 then lineLen bs (l + 1) else lineLen bs (l + 2)

theorem step_lf (p : Pos) : step p 10 = ⟨p.line + 1, 0⟩ := by simp [step, advance]

theorem step_other (p : Pos) {b : UInt8} (h : (b == 10) = false) : step p b = ⟨p.line, p.col + 1⟩ := by
  simp [step, advance, h]

theorem posFrom_nil (p : Pos) : posFrom p [] = p := rfl
theorem posFrom_cons (p : Pos) (b : UInt8) (bs : List UInt8) :
    posFrom p (b :: bs) = posFrom (step p b) bs := rfl

theorem posFrom_append (p : Pos) (xs ys : List UInt8) :
    posFrom p (xs ++ ys) = posFrom (posFrom p xs) ys := by
  simp [posFrom, List.foldl_append]

theorem posOf_snoc (pre : List UInt8) (b : UInt8) : posOf (pre ++ [b]) = step (posOf pre) b := by
  simp [posOf, posFrom]

theorem posFrom_snoc (o : Pos) (pre : List UInt8) (b : UInt8) :
    posFrom o (pre ++ [b]) = step (posFrom o pre) b := by
  simp [posFrom]

theorem posFrom_line (p : Pos) (bs : List UInt8) : (posFrom p bs).line = p.line + bs.count 10 := by
  induction bs generalizing p with
  | nil => simp [posFrom]
  | cons b bs ih =>
    rw [posFrom_cons, ih]
    by_cases hb : (b == 10) = true
    · have : b = 10 := by simpa using hb
      subst this
      simp [step_lf]; omega
    · have hb' : (b == 10) = false := by simpa using hb
      rw [step_other p hb']
      simp [List.count_cons, hb']

theorem count_le_of_prefix {pre input : List UInt8} (h : pre <+: input) :
    pre.count 10 ≤ input.count 10 := h.sublist.count_le 10

/-- the column reached from `(l, c)` after `pre`, compared with the line lengths of `pre ++ suf`
    (lines numbered relative to `l`) -/
theorem posFrom_col (pre suf : List UInt8) : ∀ (p : Pos),
    (posFrom p pre).col ≤
      (if (posFrom p pre).line = p.line then p.col else 0) +
        lineLen (pre ++ suf) ((posFrom p pre).line - p.line + 1) := by
  induction pre with
  | nil => intro p; simp [posFrom]
  | cons b pre ih =>
    intro p
    rw [posFrom_cons]
    have hl := posFrom_line (step p b) pre
    by_cases hb : (b == 10) = true
    · have : b = 10 := by simpa using hb
      subst this
      have ih' := ih (step p 10)
      rw [step_lf] at ih' hl ⊢
      simp only at ih' hl
      generalize posFrom ⟨p.line + 1, 0⟩ pre = q at ih' hl ⊢
      have hne : q.line ≠ p.line := by omega
      obtain ⟨k, hk⟩ : ∃ k, q.line - p.line + 1 = k + 2 := ⟨q.line - p.line - 1, by omega⟩
      have hk' : q.line - (p.line + 1) + 1 = k + 1 := by omega
      rw [hk'] at ih'
      simp only [hne, if_false, hk, List.cons_append, lineLen]
      simp only [show ((10 : UInt8) == 10) = true from rfl, if_true]
      split at ih' <;> omega
    · have hb' : (b == 10) = false := by simpa using hb
      have ih' := ih (step p b)
      rw [step_other p hb'] at ih' hl ⊢
      simp only at ih' hl
      generalize posFrom ⟨p.line, p.col + 1⟩ pre = q at ih' hl ⊢
      by_cases hq : q.line = p.line
      · simp only [hq, if_true, Nat.sub_self, Nat.zero_add, List.cons_append, lineLen, hb'] at ih' ⊢
        simp only [Bool.false_eq_true, if_false]
        omega
      · obtain ⟨k, hk⟩ : ∃ k, q.line - p.line + 1 = k + 2 := ⟨q.line - p.line - 1, by omega⟩
        simp only [hq, if_false, hk, List.cons_append, lineLen, hb'] at ih' ⊢
        simpa using ih'

/-- **posOf_bounds**: the position after any prefix of the input lies inside the input. -/
theorem posOf_bounds {pre input : List UInt8} (h : pre <+: input) :
    1 ≤ (posOf pre).line ∧ (posOf pre).line ≤ lines input ∧
    (posOf pre).col ≤ lineLen input (posOf pre).line := by
  obtain ⟨suf, rfl⟩ := h
  have hl := posFrom_line ⟨1, 0⟩ pre
  have hc := posFrom_col pre suf ⟨1, 0⟩
  have hcount := count_le_of_prefix (List.prefix_append pre suf)
  unfold posOf lines
  simp only at hl hc
  refine ⟨by omega, by omega, ?_⟩
  rw [show (posFrom ⟨1, 0⟩ pre).line - 1 + 1 = (posFrom ⟨1, 0⟩ pre).line by omega] at hc
  split at hc <;> omega

/-! ### the ghost invariant -/

/-- The reader is somewhere inside `input`: what it has consumed is a prefix `pre`, what is left is
    the rest, and its line/column counters are the position after `pre`. -/
def AtR (o : Pos) (input : List UInt8) (rd : Rd) : Prop :=
  ∃ pre, pre ++ rd.rest = input ∧ rd.position = posFrom o pre

/-- The ghost invariant on parser states, for a text that starts at position `o`. -/
def AtG (o : Pos) (input : List UInt8) (s : St) : Prop :=
  ∃ pre, pre ++ s.rd.rest = input ∧ s.rd.position = posFrom o pre

/-- The ghost invariant on parser states (the text starts at line 1, column 0). -/
def At (input : List UInt8) (s : St) : Prop :=
  ∃ pre, pre ++ s.rd.rest = input ∧ s.rd.position = posOf pre

/-- `(l, k)` is the position after some prefix of the input (which starts at `o`) -/
def LocG (o : Pos) (input : List UInt8) (l k : Nat) : Prop :=
  ∃ pre, pre <+: input ∧ (⟨l, k⟩ : Pos) = posFrom o pre

/-- `(l, k)` is the position after some prefix of the input -/
def LocOK (input : List UInt8) (l k : Nat) : Prop :=
  ∃ pre, pre <+: input ∧ (⟨l, k⟩ : Pos) = posOf pre

theorem At.initSt (mode : Mode) (bytes : List UInt8) (faulty : Bool) :
    At bytes (initSt mode bytes faulty) := ⟨[], rfl, rfl⟩

/-- every state is at the start of its own unread input -/
theorem AtG.self (s : St) : AtG s.rd.position s.rd.rest s := ⟨[], rfl, rfl⟩

theorem consume_at {o : Pos} {input : List UInt8} (n : Nat) : ∀ rd : Rd, AtR o input rd → AtR o input (rd.consume n) := by
  induction n with
  | zero => intro rd h; simpa [Rd.consume, AtR, Rd.position] using h
  | succ n ih =>
    intro rd h
    cases hr : rd.rest with
    | nil => simpa [Rd.consume, hr, AtR, Rd.position] using h
    | cons b bs =>
      simp only [Rd.consume, hr]
      apply ih
      obtain ⟨pre, hpre, hpos⟩ := h
      refine ⟨pre ++ [b], by simp [← hpre, hr], ?_⟩
      rw [posFrom_snoc, ← hpos]
      rfl

theorem AtG.consume {o : Pos} {input : List UInt8} {s : St} (h : AtG o input s) (n : Nat) :
    AtG o input { s with rd := s.rd.consume n } := consume_at n s.rd h

theorem AtG.position {o : Pos} {input : List UInt8} {s : St} (h : AtG o input s) :
    LocG o input s.rd.position.line s.rd.position.col := by
  obtain ⟨pre, hpre, hpos⟩ := h
  exact ⟨pre, ⟨_, hpre⟩, hpos⟩

/-- `peek_position()` is the position after the consumed prefix, or after that prefix and the next
    byte. -/
theorem AtG.peekPosition_cases {o : Pos} {input : List UInt8} {s : St} (h : AtG o input s) :
    ∃ pre, pre ++ s.rd.rest = input ∧
      (s.rd.peekPosition = posFrom o pre ∨
        ∃ b t, s.rd.rest = b :: t ∧ s.rd.peekPosition = posFrom o (pre ++ [b])) := by
  obtain ⟨pre, hpre, hpos⟩ := h
  refine ⟨pre, hpre, ?_⟩
  unfold Rd.peekPosition
  cases hr : s.rd.rest with
  | nil => exact Or.inl hpos
  | cons b t =>
    dsimp only
    split
    · exact Or.inl hpos
    · refine Or.inr ⟨b, t, rfl, ?_⟩
      rw [posFrom_snoc, ← hpos]
      rfl

theorem AtG.peekPosition {o : Pos} {input : List UInt8} {s : St} (h : AtG o input s) :
    LocG o input s.rd.peekPosition.line s.rd.peekPosition.col := by
  obtain ⟨pre, hpre, hc⟩ := h.peekPosition_cases
  rcases hc with hc | ⟨b, t, hr, hc⟩
  · exact ⟨pre, ⟨_, hpre⟩, hc⟩
  · refine ⟨pre ++ [b], ⟨t, ?_⟩, hc⟩
    rw [← hpre, hr]; simp

/-- **LocOK.bounds**: a position after a prefix of the input has a line between 1 and the number of
    lines and a column inside that line. -/
theorem LocOK.bounds {input : List UInt8} {l k : Nat} (h : LocOK input l k) :
    1 ≤ l ∧ l ≤ lines input ∧ k ≤ lineLen input l := by
  obtain ⟨pre, hpre, hpos⟩ := h
  have := posOf_bounds hpre
  rw [← hpos] at this
  exact this

/-! ### the calculus

  `LSpec o input K m s s0 Q`: if the state `s` is inside `input` (and came from the reference state
  `s0` without un-consuming), then so is every state in which `m` stops; a result `a` satisfies
  `Q a s'`; a syntax error `(c, l, k)` raised in `s'` has `LocG o input l k` and `K c s'`. -/

structure Inv (o : Pos) (input : List UInt8) (s0 s : St) : Prop where
  at_ : AtG o input s
  mono : s0.rd.rest = [] → s.rd.rest = []

theorem Inv.refl {o : Pos} {input : List UInt8} {s0 s : St} (h : Inv o input s0 s) : Inv o input s s :=
  ⟨h.at_, id⟩

theorem Inv.trans {o : Pos} {input : List UInt8} {s0 s s' : St} (h : Inv o input s0 s) (h' : Inv o input s s') :
    Inv o input s0 s' :=
  ⟨h'.at_, fun h0 => h'.mono (h.mono h0)⟩

theorem Inv.ofAt {o : Pos} {input : List UInt8} {s : St} (h : AtG o input s) : Inv o input s s := ⟨h, id⟩

/-- what is required of an error -/
def EK (o : Pos) (input : List UInt8) (K : Code → St → Prop) : Err → St → Prop
  | .io, _ => True
  | .syntax c l k, s => LocG o input l k ∧ K c s

def LSpec {α : Type} (o : Pos) (input : List UInt8) (K : Code → St → Prop) (m : P α) (s s0 : St)
    (Q : α → St → Prop) : Prop :=
  Inv o input s0 s →
    Sat (m s) (fun a s' => Inv o input s0 s' ∧ Q a s') (fun e s' => Inv o input s0 s' ∧ EK o input K e s') True

/-- the trivial post-condition -/
def QT {α : Type} : α → St → Prop := fun _ _ => True
/-- `none` only at the end of the input -/
def NoneNil {α : Type} : Option α → St → Prop := fun a s => a = none → s.rd.rest = []
/-- the result is the next unread byte -/
def HeadIs : Option UInt8 → St → Prop := fun a s => a = s.rd.rest.head?
/-- `b` is the byte consumed last -/
def LastIs (input : List UInt8) : UInt8 → St → Prop := fun b s => ∃ pre, pre ++ b :: s.rd.rest = input
/-- post-condition of `next` -/
def NextQ (input : List UInt8) : Option UInt8 → St → Prop := fun a s =>
  (a = none → s.rd.rest = []) ∧ (∀ b, a = some b → LastIs input b s)

theorem NoneNil.nil {α : Type} {s : St} (h : NoneNil (none : Option α) s) : s.rd.rest = [] := h rfl
theorem NoneNil.some {α : Type} {a : α} {s : St} : NoneNil (some a) s := fun h => nomatch h
theorem HeadIs.nil {s : St} (h : HeadIs none s) : s.rd.rest = [] := by
  unfold HeadIs at h
  cases hr : s.rd.rest with
  | nil => rfl
  | cons b t => rw [hr] at h; cases h
theorem HeadIs.cons {s : St} {b : UInt8} (h : HeadIs (some b) s) : ∃ t, s.rd.rest = b :: t := by
  unfold HeadIs at h
  cases hr : s.rd.rest with
  | nil => rw [hr] at h; cases h
  | cons c t => rw [hr] at h; cases h; exact ⟨t, rfl⟩
theorem HeadIs.nil_and_r {s : St} {a : Option UInt8} {x : Bool} (h : HeadIs a s)
    (hx : (x && a.isNone) = true) : s.rd.rest = [] := by
  cases a with
  | none => exact h.nil
  | some b => simp at hx
theorem HeadIs.nil_and_l {s : St} {a : Option UInt8} {x : Bool} (h : HeadIs a s)
    (hx : (a.isNone && x) = true) : s.rd.rest = [] := by
  cases a with
  | none => exact h.nil
  | some b => simp at hx
theorem NextQ.nil {input : List UInt8} {s : St} (h : NextQ input none s) : s.rd.rest = [] := h.1 rfl
theorem NextQ.last {input : List UInt8} {s : St} {b : UInt8} (h : NextQ input (some b) s) :
    LastIs input b s := h.2 b rfl

section rules
variable {α β : Type} {o : Pos} {input : List UInt8} {K : Code → St → Prop} {s0 s : St} {Q : β → St → Prop}

theorem LSpec.bind {m : P α} {f : α → P β} {Q1 : α → St → Prop}
    (hm : LSpec o input K m s s Q1) (hf : ∀ a s', Q1 a s' → LSpec o input K (f a) s' s0 Q) :
    LSpec o input K (m >>= f) s s0 Q := by
  intro h
  exact Sat.bind (hm h.refl) (fun a s' hq => hf a s' hq.2 (h.trans hq.1))
    (fun e s' he => ⟨h.trans he.1, he.2⟩) id

theorem LSpec.tail {m : P β} {Q1 : β → St → Prop}
    (hm : LSpec o input K m s s Q1) (hq : ∀ a s', Q1 a s' → Q a s') :
    LSpec o input K m s s0 Q := by
  intro h
  exact Sat.imp (hm h.refl) (fun a s' hq' => ⟨h.trans hq'.1, hq a s' hq'.2⟩)
    (fun e s' he => ⟨h.trans he.1, he.2⟩) id

/-- weaken the requirement on errors -/
theorem LSpec.weakenK {K' : Code → St → Prop} {m : P β}
    (hm : LSpec o input K m s s0 Q) (hk : ∀ c s', AtG o input s' → K c s' → K' c s') :
    LSpec o input K' m s s0 Q := by
  intro h
  refine Sat.imp (hm h) (fun a s' hq' => hq') (fun e s' he => ⟨he.1, ?_⟩) id
  cases e with
  | io => trivial
  | «syntax» c l k => exact ⟨he.2.1, hk c s' he.1.at_ he.2.2⟩

theorem LSpec.pure {a : β} (h : Q a s) : LSpec o input K (pure a : P β) s s0 Q :=
  fun hi => ⟨hi, h⟩

theorem LSpec.ite {c : Prop} [Decidable c] {A B : P β}
    (hA : c → LSpec o input K A s s0 Q) (hB : ¬c → LSpec o input K B s s0 Q) :
    LSpec o input K (if c then A else B) s s0 Q := by
  split
  · exact hA ‹_›
  · exact hB ‹_›

theorem LSpec.errAt {c : Code} (hk : K c s) : LSpec o input K (errAt c : P β) s s0 Q :=
  fun hi => ⟨hi, hi.at_.position, hk⟩

theorem LSpec.peekErr {c : Code} (hk : K c s) : LSpec o input K (peekErr c : P β) s s0 Q :=
  fun hi => ⟨hi, hi.at_.peekPosition, hk⟩

theorem LSpec.panicAt {p : Site} : LSpec o input K (panicAt p : P β) s s0 Q := fun _ => trivial

theorem LSpec.outOfFuel : LSpec o input K (outOfFuel : P β) s s0 Q := fun _ => trivial

theorem LSpec.errAt_bind {c : Code} {f : α → P β} (hk : K c s) :
    LSpec o input K ((Parse.errAt c : P α) >>= f) s s0 Q :=
  fun hi => ⟨hi, hi.at_.position, hk⟩

theorem LSpec.peekErr_bind {c : Code} {f : α → P β} (hk : K c s) :
    LSpec o input K ((Parse.peekErr c : P α) >>= f) s s0 Q :=
  fun hi => ⟨hi, hi.at_.peekPosition, hk⟩

theorem LSpec.bind_getRest {f : List UInt8 → P β} (hf : LSpec o input K (f s.rd.rest) s s0 Q) :
    LSpec o input K (getRest >>= f) s s0 Q := hf

theorem LSpec.bind_getMode {f : Mode → P β} (hf : LSpec o input K (f s.rd.mode) s s0 Q) :
    LSpec o input K (getMode >>= f) s s0 Q := hf

theorem LSpec.bind_getPos {f : Pos → P β} (hf : LSpec o input K (f s.rd.position) s s0 Q) :
    LSpec o input K (getPos >>= f) s s0 Q := hf

theorem LSpec.bind_tokenFuel {f : Nat → P β} (hf : LSpec o input K (f (s.rd.rest.length + 1)) s s0 Q) :
    LSpec o input K (tokenFuel >>= f) s s0 Q := hf

theorem LSpec.bind_apiFuel {f : Nat → P β} (hf : LSpec o input K (f (2 * s.rd.rest.length + 4)) s s0 Q) :
    LSpec o input K (apiFuel >>= f) s s0 Q := hf

theorem LSpec.bind_getSt {f : St → P β} (hf : AtG o input s → LSpec o input K (f s) s s0 Q) :
    LSpec o input K ((fun s => Res.ok s s : P St) >>= f) s s0 Q := fun hi => hf hi.at_ hi

theorem LSpec.rawErr {c : Code} {l k : Nat} (hl : LocG o input l k) (hk : K c s) :
    LSpec o input K (fun s' => Res.err (.syntax c l k) s' : P β) s s0 Q :=
  fun hi => ⟨hi, hl, hk⟩

theorem LSpec.pure_bind {a : α} {f : α → P β} (hf : LSpec o input K (f a) s s0 Q) :
    LSpec o input K ((Pure.pure a : P α) >>= f) s s0 Q := hf

theorem LSpec.bind_assoc {γ : Type} {m : P α} {g : α → P γ} {f : γ → P β}
    (h : LSpec o input K (m >>= fun a => g a >>= f) s s0 Q) :
    LSpec o input K ((m >>= g) >>= f) s s0 Q := by
  intro hi
  have := h hi
  revert this
  show Sat (P.bind m (fun a => P.bind (g a) f) s) _ _ _ → Sat (P.bind (P.bind m g) f s) _ _ _
  unfold P.bind
  cases m s <;> exact id

/-- `leave` only touches the depth counter -/
theorem LSpec.bind_leave {f : Unit → P β}
    (hf : LSpec o input K (f ()) { s with depth := s.depth + 1 } s0 Q) :
    LSpec o input K (leave >>= f) s s0 Q :=
  fun hi => hf ⟨hi.at_, hi.mono⟩

/-- `attempt m`: the error becomes a value; the continuation is verified from the same reference. -/
theorem LSpec.bind_attempt {m : P α} {f : Except Err α → P β} {Q1 : α → St → Prop}
    (hm : LSpec o input K m s s Q1)
    (hok : ∀ a s', Q1 a s' → LSpec o input K (f (.ok a)) s' s0 Q)
    (herr : ∀ e s', EK o input K e s' → LSpec o input K (f (.error e)) s' s0 Q) :
    LSpec o input K (attempt m >>= f) s s0 Q := by
  intro hi
  have hm' := hm hi.refl
  show Sat (P.bind (attempt m) f s) _ _ _
  unfold P.bind attempt
  cases hms : m s with
  | ok a s' => rw [hms] at hm'; exact hok a s' hm'.2 (hi.trans hm'.1)
  | err e s' => rw [hms] at hm'; exact herr e s' hm'.2 (hi.trans hm'.1)
  | panic p => trivial
  | fuel => trivial

/-- `attempt m`: after an error the state in which it was raised becomes the reference state. -/
theorem LSpec.bind_attempt_reset {m : P α} {f : Except Err α → P β} {Q1 : α → St → Prop}
    (hm : LSpec o input K m s s Q1)
    (hok : ∀ a s', Q1 a s' → LSpec o input K (f (.ok a)) s' s0 Q)
    (herr : ∀ e s', EK o input K e s' → LSpec o input K (f (.error e)) s' s' Q) :
    LSpec o input K (attempt m >>= f) s s0 Q := by
  intro hi
  have hm' := hm hi.refl
  show Sat (P.bind (attempt m) f s) _ _ _
  unfold P.bind attempt
  cases hms : m s with
  | ok a s' => rw [hms] at hm'; exact hok a s' hm'.2 (hi.trans hm'.1)
  | err e s' =>
    rw [hms] at hm'
    have hi' := hi.trans hm'.1
    exact Sat.imp (herr e s' hm'.2 hi'.refl) (fun a s'' h => ⟨hi'.trans h.1, h.2⟩)
      (fun e s'' h => ⟨hi'.trans h.1, h.2⟩) id
  | panic p => trivial
  | fuel => trivial

/-- re-raising an error in the state in which it was caught -/
theorem LSpec.liftErr_here {e : Err} (he : EK o input K e s) :
    LSpec o input K (liftExcept (.error e) : P β) s s0 Q :=
  fun hi => ⟨hi, he⟩

/-- re-raising, later on, an error that was caught in the reference state -/
theorem LSpec.liftErr_ref {e : Err}
    (hstab : ∀ c s s', K c s → (s.rd.rest = [] → s'.rd.rest = []) → K c s')
    (he : EK o input K e s0) :
    LSpec o input K (liftExcept (.error e) : P β) s s0 Q := by
  intro hi
  refine ⟨hi, ?_⟩
  cases e with
  | io => trivial
  | «syntax» c l k => exact ⟨he.1, hstab c s0 s he.2 hi.mono⟩

theorem LSpec.start {m : P β} (h : AtG o input s → LSpec o input K m s s0 Q) : LSpec o input K m s s0 Q :=
  fun hi => h hi.at_ hi

/-- reading off a result -/
theorem LSpec.ok {m : P β} {a : β} {s' : St} (h : LSpec o input K m s s Q) (hs : AtG o input s)
    (hr : m s = .ok a s') : AtG o input s' ∧ Q a s' := by
  have := h (Inv.ofAt hs); rw [hr] at this; exact ⟨this.1.at_, this.2⟩

theorem LSpec.err {m : P β} {c : Code} {l k : Nat} {s' : St} (h : LSpec o input K m s s Q)
    (hs : AtG o input s) (hr : m s = .err (.syntax c l k) s') :
    AtG o input s' ∧ LocG o input l k ∧ K c s' := by
  have := h (Inv.ofAt hs); rw [hr] at this; exact ⟨this.1.at_, this.2⟩

end rules

/-! ### the reader primitives -/

section prims
variable {o : Pos} {input : List UInt8} {K : Code → St → Prop} {s : St}

theorem peek_l : LSpec o input K peek s s HeadIs := by
  intro h
  unfold peek
  cases hr : s.rd.rest with
  | nil =>
    dsimp only
    split
    · exact ⟨h, trivial⟩
    · exact ⟨h, by simp [HeadIs, hr]⟩
  | cons b t => exact ⟨⟨h.at_, fun h0 => h.mono h0⟩, by simp [HeadIs, hr]⟩

theorem Inv.consume (h : Inv o input s s) (n : Nat) : Inv o input s { s with rd := s.rd.consume n } :=
  ⟨h.at_.consume n, fun h0 => by simp [Progress.consume_rest, h0]⟩

theorem consume_last {b : UInt8} {t : List UInt8} (h : AtG o input s) (hr : s.rd.rest = b :: t) :
    LastIs input b { s with rd := s.rd.consume 1 } := by
  obtain ⟨pre, hpre, _⟩ := h
  refine ⟨pre, ?_⟩
  simp [Progress.consume_rest, hr, ← hpre]

theorem next_l : LSpec o input K next s s (NextQ input) := by
  intro h
  unfold next
  cases hr : s.rd.rest with
  | nil =>
    dsimp only
    split
    · exact ⟨h, trivial⟩
    · exact ⟨h, fun _ => hr, fun b hb => by cases hb⟩
  | cons b t =>
    refine ⟨h.consume 1, (fun hb => nomatch hb), fun b' hb => ?_⟩
    cases hb
    exact consume_last h.at_ hr

/-- post-condition of `discard`: exactly the first unread byte has been consumed -/
def DiscQ (input : List UInt8) (s : St) : Unit → St → Prop := fun _ s' =>
  ∃ b, s.rd.rest = b :: s'.rd.rest ∧ LastIs input b s'

theorem discard_l : LSpec o input K discard s s (DiscQ input s) := by
  intro h
  unfold discard
  cases hr : s.rd.rest with
  | nil => trivial
  | cons b t =>
    refine ⟨h.consume 1, b, ?_, consume_last h.at_ hr⟩
    simp [Progress.consume_rest, hr]

theorem DiscQ.last {s1 s2 : St} {c : UInt8} {u : Unit} (h : HeadIs (some c) s1)
    (hd : DiscQ input s1 u s2) : LastIs input c s2 := by
  obtain ⟨t, ht⟩ := h.cons
  obtain ⟨b, hb, hl⟩ := hd
  rw [ht] at hb
  cases hb
  exact hl

theorem consumeN_l {n : Nat} : LSpec o input K (consumeN n) s s QT :=
  fun h => ⟨h.consume n, trivial⟩

theorem enter_l (hk : ∀ s, K .recursionLimitExceeded s) : LSpec o input K enter s s QT := by
  intro h
  unfold enter
  split
  · trivial
  · split
    · exact ⟨h, h.at_.peekPosition, hk s⟩
    · exact ⟨⟨h.at_, h.mono⟩, trivial⟩

end prims

/-! ### what is required of the error codes -/

/-- the EOF codes that are raised only when the input is exhausted -/
def strictEof : Code → Bool
  | .eofList | .eofVector | .eofValue => true
  | _ => false

/-- the codes the lexer (`parse_token` and below, `parse_number`) can raise -/
def lexCode : Code → Bool
  | .eofValue | .eofString | .eofChar | .expectedSomeIdent | .expectedSomeValue | .invalidEscape
  | .invalidNumber | .invalidSymbol | .numberOutOfRange | .invalidUnicodeCodePoint
  | .invalidCharacterConstant => true
  | _ => false

/-- lexer codes without a side condition -/
def plainCode : Code → Bool
  | .expectedSomeIdent | .expectedSomeValue | .invalidEscape | .invalidNumber | .numberOutOfRange
  | .invalidUnicodeCodePoint | .invalidCharacterConstant => true
  | _ => false

/-- EOF codes of the lexer -/
def eofLex : Code → Bool
  | .eofValue | .eofString | .eofChar => true
  | _ => false

/-- Lexer errors: the code is one of the eleven lexer codes; `eofValue` is raised only with no input
    left, `invalidSymbol` only with input left; `eofString` / `eofChar` are raised with no input
    left or right after a byte that is not a hex digit (the two hex-escape scanners). -/
def KLex (input : List UInt8) (c : Code) (s : St) : Prop :=
  lexCode c = true ∧
  (c = .eofValue → s.rd.rest = []) ∧
  (c = .invalidSymbol → s.rd.rest ≠ []) ∧
  (c = .eofString ∨ c = .eofChar → s.rd.rest = [] ∨ ∃ b, LastIs input b s ∧ hexVal b = none)

/-- Parser errors: `eofList`, `eofVector`, `eofValue` only with no input left. -/
def KParse (c : Code) (s : St) : Prop := strictEof c = true → s.rd.rest = []

theorem KLex.plain {input : List UInt8} {c : Code} {s : St} (h : plainCode c = true) : KLex input c s := by
  cases c <;> simp_all [KLex, lexCode, plainCode]

theorem KLex.atEnd {input : List UInt8} {c : Code} {s : St} (h : eofLex c = true)
    (hr : s.rd.rest = []) : KLex input c s := by
  cases c <;> simp_all [KLex, lexCode, eofLex]

theorem KLex.badHex {input : List UInt8} {c : Code} {s : St} {b : UInt8}
    (h : c = .eofString ∨ c = .eofChar) (hl : LastIs input b s) (hb : hexVal b = none) :
    KLex input c s := by
  rcases h with rfl | rfl
  · exact ⟨rfl, nofun, nofun, fun _ => Or.inr ⟨b, hl, hb⟩⟩
  · exact ⟨rfl, nofun, nofun, fun _ => Or.inr ⟨b, hl, hb⟩⟩

theorem KParse.plain {c : Code} {s : St} (h : strictEof c = false) : KParse c s :=
  fun h' => by rw [h] at h'; cases h'

theorem KParse.atEnd {c : Code} {s : St} (hr : s.rd.rest = []) : KParse c s := fun _ => hr

theorem KLex.toParse {input : List UInt8} {c : Code} {s : St} (h : KLex input c s) : KParse c s := by
  intro hs
  cases c <;> simp_all [KLex, lexCode, strictEof]

theorem KParse.stable : ∀ c s s', KParse c s → (s.rd.rest = [] → s'.rd.rest = []) → KParse c s' :=
  fun _ _ _ h hm hs => hm (h hs)

/-! ### the tactic -/

open Lean Elab Tactic Meta in
/-- succeed iff the goal is `LSpec _ _ (c ..) ..` with head constant `c` -/
elab "lguard_head " id:ident : tactic => do
  let g := (← instantiateMVars (← getMainTarget)).cleanupAnnotations
  unless g.getAppFn.isConstOf ``LSpec do throwError "not an LSpec goal"
  let r := g.getAppArgs[4]!
  unless r.getAppFn.isConstOf id.getId.eraseMacroScopes do throwError "head mismatch"

open Lean Elab Tactic Meta in
/-- succeed iff the goal is `LSpec _ _ (c .. >>= f) ..` with head constant `c` -/
elab "lguard_bind_head " id:ident : tactic => do
  let g := (← instantiateMVars (← getMainTarget)).cleanupAnnotations
  unless g.getAppFn.isConstOf ``LSpec do throwError "not an LSpec goal"
  let r := g.getAppArgs[4]!
  unless r.getAppFn.isConstOf ``Bind.bind && r.getAppNumArgs == 6 do throwError "not a bind"
  let m := r.getAppArgs[4]!
  unless m.getAppFn.isConstOf id.getId.eraseMacroScopes do throwError "head mismatch"

open Lean Elab Tactic Meta in
/-- succeed iff the goal is `LSpec _ _ prog ..` where `prog` is an application of a constant that
    is not structural -/
elab "lguard_call" : tactic => do
  let g := (← instantiateMVars (← getMainTarget)).cleanupAnnotations
  unless g.getAppFn.isConstOf ``LSpec do throwError "not an LSpec goal"
  let r := g.getAppArgs[4]!
  match r.getAppFn with
  | .const n _ =>
    if n == ``Bind.bind || n == ``ite || n == ``Pure.pure then throwError "structural"
    if (← isMatcher n) then throwError "matcher"
  | _ => throwError "not a constant application"

open Lean Elab Tactic Meta in
/-- succeed iff the goal is syntactically a `∀` / `→` -/
elab "lguard_pi" : tactic => do
  let g := (← instantiateMVars (← getMainTarget)).cleanupAnnotations
  unless g.isForall do throwError "not a pi"

/-- prove `s.rd.rest = []` from a post-condition in the context -/
macro "nil_close" : tactic => `(tactic| first
  | assumption
  | exact NoneNil.nil (by assumption)
  | exact HeadIs.nil (by assumption)
  | exact NextQ.nil (by assumption)
  | exact HeadIs.nil_and_r (by assumption) (by assumption)
  | exact HeadIs.nil_and_l (by assumption) (by assumption)
  | (simp only [Except.ok.injEq] at *; subst_vars; exact NoneNil.nil (by assumption)))

/-- prove the requirement on a concrete error code -/
macro "kclose" : tactic => `(tactic| first
  | exact KLex.plain (by decide)
  | exact KLex.atEnd (by decide) (by nil_close)
  | exact KLex.badHex (by decide) (by assumption) (by assumption)
  | exact KLex.badHex (by decide) (DiscQ.last (by assumption) (by assumption)) (by assumption)
  | exact KParse.plain (by decide)
  | exact KParse.atEnd (by nil_close))

/-- prove a post-condition at `pure` -/
macro "qclose" : tactic => `(tactic| first
  | exact True.intro
  | assumption
  | exact NoneNil.some
  | exact (fun _ => by nil_close)
  | exact NextQ.last (by assumption))

/-- prove that the post-condition of a tail call implies the one wanted -/
macro "cclose" : tactic => `(tactic| first
  | exact fun _ _ _ => True.intro
  | exact fun _ _ h => h)

syntax "lwpa" "[" term,* "]" "[" term,* "]" : tactic
macro_rules
  | `(tactic| lwpa [$ts,*] [$us,*]) => `(tactic| repeat' (first
      | (lguard_pi; intro _)
      | (lguard_head Pure.pure; refine LSpec.pure ?_; qclose)
      | (lguard_head Lexpr.Parse.errAt; refine LSpec.errAt ?_; kclose)
      | (lguard_head Lexpr.Parse.peekErr; refine LSpec.peekErr ?_; kclose)
      | (lguard_head Lexpr.Parse.panicAt; exact LSpec.panicAt)
      | (lguard_head Lexpr.Parse.outOfFuel; exact LSpec.outOfFuel)
      | (lguard_head Lexpr.Parse.liftExcept; first
          | contradiction
          | (refine LSpec.liftErr_here ?_; assumption)
          | (refine LSpec.liftErr_ref KParse.stable ?_; assumption)
          | (simp only [Except.error.injEq] at *; subst_vars; first
              | (refine LSpec.liftErr_here ?_; assumption)
              | (refine LSpec.liftErr_ref KParse.stable ?_; assumption)))
      | (lguard_head ite; refine LSpec.ite ?_ ?_)
      | (lguard_head Bind.bind; first
          | (lguard_bind_head Pure.pure; refine LSpec.pure_bind ?_)
          | (lguard_bind_head Bind.bind; refine LSpec.bind_assoc ?_)
          | (lguard_bind_head Lexpr.Parse.getRest; refine LSpec.bind_getRest ?_)
          | (lguard_bind_head Lexpr.Parse.getMode; refine LSpec.bind_getMode ?_)
          | (lguard_bind_head Lexpr.Parse.getPos; refine LSpec.bind_getPos ?_)
          | (lguard_bind_head Lexpr.Parse.tokenFuel; refine LSpec.bind_tokenFuel ?_)
          | (lguard_bind_head Lexpr.Parse.apiFuel; refine LSpec.bind_apiFuel ?_)
          | (lguard_bind_head Lexpr.Parse.errAt; refine LSpec.errAt_bind ?_; kclose)
          | (lguard_bind_head Lexpr.Parse.peekErr; refine LSpec.peekErr_bind ?_; kclose)
          | (lguard_bind_head Lexpr.Parse.leave; refine LSpec.bind_leave ?_)
          | (lguard_bind_head Lexpr.Parse.peek; refine LSpec.bind peek_l ?_)
          | (lguard_bind_head Lexpr.Parse.next; refine LSpec.bind next_l ?_)
          | (lguard_bind_head Lexpr.Parse.discard; refine LSpec.bind discard_l ?_)
          | (lguard_bind_head Lexpr.Parse.consumeN; refine LSpec.bind consumeN_l ?_)
          | (lguard_bind_head Lexpr.Parse.attempt; first
              | fail
              $[| (refine LSpec.bind_attempt $us ?_ ?_)]*
              $[| (refine LSpec.bind_attempt_reset $ts ?_ ?_)]*)
          $[| (refine LSpec.bind $ts ?_)]*)
      | (lguard_call; first
          | (refine LSpec.tail discard_l ?_; cclose)
          | (refine LSpec.tail peek_l ?_; cclose)
          | (refine LSpec.tail next_l ?_; cclose)
          $[| (refine LSpec.tail $ts ?_; cclose)]*)
      | dsimp only
      | split))

/-- `lwp [lemmas]`: follow the structure of the program, using `lemmas` for the calls. -/
syntax "lwp" "[" term,* "]" : tactic
macro_rules
  | `(tactic| lwp [$ts,*]) => `(tactic| lwpa [$ts,*] [])

/-! ### Lex.lean -/

section lex
variable {o : Pos} {input : List UInt8} {s : St}

theorem nextOrEof_l : LSpec o input (KLex input) nextOrEof s s (LastIs input) := by
  unfold nextOrEof
  lwp []

theorem nextOrEofChar_l : LSpec o input (KLex input) nextOrEofChar s s (LastIs input) := by
  unfold nextOrEofChar
  lwp []

theorem peekOrNull_l {K : Code → St → Prop} : LSpec o input K peekOrNull s s QT := by
  unfold peekOrNull
  lwp []

theorem nextOrNull_l {K : Code → St → Prop} : LSpec o input K nextOrNull s s QT := by
  unfold nextOrNull
  lwp []

theorem readCont_l {n : Nat} {acc : List UInt8} : LSpec o input (KLex input) (readCont n acc) s s QT := by
  induction n generalizing acc s with
  | zero => unfold readCont; lwp []
  | succ n ih => unfold readCont; lwp [ih]

theorem decodeUtf8Sequence_l {b : UInt8} : LSpec o input (KLex input) (decodeUtf8Sequence b) s s QT := by
  unfold decodeUtf8Sequence
  lwp [readCont_l]

theorem decodeR6rsHexEscape_l {fuel n : Nat} :
    LSpec o input (KLex input) (decodeR6rsHexEscape fuel n) s s QT := by
  induction fuel generalizing n s with
  | zero => unfold decodeR6rsHexEscape; lwp []
  | succ f ih =>
    unfold decodeR6rsHexEscape
    lwp [nextOrEof_l, ih]

theorem parseR6rsEscape_l {fuel : Nat} {acc : List UInt8} :
    LSpec o input (KLex input) (parseR6rsEscape fuel acc) s s QT := by
  unfold parseR6rsEscape
  lwp [nextOrEof_l, decodeR6rsHexEscape_l]

theorem finishStr_l {c : Bool} {bs : List UInt8} : LSpec o input (KLex input) (finishStr c bs) s s QT := by
  unfold finishStr
  lwp []

theorem parseR6rsStr_l {fuel : Nat} {acc : List UInt8} :
    LSpec o input (KLex input) (parseR6rsStr fuel acc) s s QT := by
  induction fuel generalizing acc s with
  | zero => unfold parseR6rsStr; lwp []
  | succ f ih => unfold parseR6rsStr; lwp [nextOrEof_l, finishStr_l, parseR6rsEscape_l, ih]

theorem decodeElispHexEscape_l {fuel n : Nat} :
    LSpec o input (KLex input) (decodeElispHexEscape fuel n) s s QT := by
  induction fuel generalizing n s with
  | zero => unfold decodeElispHexEscape; lwp []
  | succ f ih => unfold decodeElispHexEscape; lwp [ih]

theorem decodeElispUniEscape_l {count n : Nat} :
    LSpec o input (KLex input) (decodeElispUniEscape count n) s s QT := by
  induction count generalizing n s with
  | zero => unfold decodeElispUniEscape; lwp []
  | succ f ih => unfold decodeElispUniEscape; lwp [nextOrEof_l, ih]

theorem decodeElispOctalEscape_l {fuel n : Nat} :
    LSpec o input (KLex input) (decodeElispOctalEscape fuel n) s s QT := by
  induction fuel generalizing n s with
  | zero => unfold decodeElispOctalEscape; lwp []
  | succ f ih => unfold decodeElispOctalEscape; lwp [ih]

theorem elispCharEscape_l {acc : List UInt8} {n : Nat} :
    LSpec o input (KLex input) (elispCharEscape acc n) s s QT := by
  unfold elispCharEscape
  lwp []

theorem elispUniCharEscape_l {acc : List UInt8} {n : Nat} :
    LSpec o input (KLex input) (elispUniCharEscape acc n) s s QT := by
  unfold elispUniCharEscape
  lwp []

theorem parseElispEscape_l {fuel : Nat} {acc : List UInt8} :
    LSpec o input (KLex input) (parseElispEscape fuel acc) s s QT := by
  unfold parseElispEscape
  lwp [nextOrEof_l, decodeElispHexEscape_l, decodeElispUniEscape_l,
    decodeElispOctalEscape_l, elispCharEscape_l, elispUniCharEscape_l]

theorem parseElispStr_l {fuel : Nat} {acc : List UInt8} {ub mb na : Bool} :
    LSpec o input (KLex input) (parseElispStr fuel acc ub mb na) s s QT := by
  induction fuel generalizing acc ub mb na s with
  | zero => unfold parseElispStr; lwp []
  | succ f ih => unfold parseElispStr; lwp [nextOrEof_l, finishStr_l, parseElispEscape_l, ih]

theorem decodeR6rsCharHexEscape_l {fuel n : Nat} {first : Bool} :
    LSpec o input (KLex input) (decodeR6rsCharHexEscape fuel n first) s s QT := by
  induction fuel generalizing n first s with
  | zero => unfold decodeR6rsCharHexEscape; lwp []
  | succ f ih =>
    unfold decodeR6rsCharHexEscape
    lwp [ih]

theorem parseR6rsChar_l {fuel : Nat} : LSpec o input (KLex input) (parseR6rsChar fuel) s s QT := by
  unfold parseR6rsChar
  lwp [nextOrEofChar_l, decodeR6rsCharHexEscape_l, decodeUtf8Sequence_l]

theorem asChar_l {n : Nat} : LSpec o input (KLex input) (asChar n) s s QT := by
  unfold asChar
  lwp []

theorem asEscapedChar_l {n : Nat} : LSpec o input (KLex input) (asEscapedChar n) s s QT := by
  unfold asEscapedChar
  lwp [asChar_l]

theorem decodeElispCharEscape_l {fuel : Nat} :
    LSpec o input (KLex input) (decodeElispCharEscape fuel) s s QT := by
  unfold decodeElispCharEscape
  lwp [nextOrEofChar_l, nextOrEof_l, decodeElispHexEscape_l, decodeElispUniEscape_l,
    decodeElispOctalEscape_l, asChar_l, asEscapedChar_l, decodeUtf8Sequence_l]

theorem parseElispChar_l {fuel : Nat} : LSpec o input (KLex input) (parseElispChar fuel) s s QT := by
  unfold parseElispChar
  lwp [decodeElispCharEscape_l, decodeUtf8Sequence_l]

theorem f64FromParts_l {cfg : Cfg} {pos : Bool} {sig : Nat} {e : Int} :
    LSpec o input (KLex input) (f64FromParts cfg pos sig e) s s QT := by
  unfold f64FromParts
  lwp []

theorem skipDigits_l : LSpec o input (KLex input) skipDigits s s QT := by
  unfold skipDigits
  lwp []

theorem parseExponentOverflow_l {pos : Bool} {sig : Nat} {posExp : Bool} :
    LSpec o input (KLex input) (parseExponentOverflow pos sig posExp) s s QT := by
  unfold parseExponentOverflow
  lwp [skipDigits_l]

theorem exponentLoop_l {cfg : Cfg} {pos : Bool} {sig : Nat} {startExp : Int} {posExp : Bool}
    {fuel exp : Nat} :
    LSpec o input (KLex input) (exponentLoop cfg pos sig startExp posExp fuel exp) s s QT := by
  induction fuel generalizing exp s with
  | zero => unfold exponentLoop; lwp []
  | succ f ih =>
    unfold exponentLoop
    lwp [peekOrNull_l, parseExponentOverflow_l, f64FromParts_l, ih]

theorem parseExponent_l {cfg : Cfg} {fuel : Nat} {pos : Bool} {sig : Nat} {startExp : Int} :
    LSpec o input (KLex input) (parseExponent cfg fuel pos sig startExp) s s QT := by
  unfold parseExponent
  lwp [peekOrNull_l, exponentLoop_l]

theorem decimalLoop_l {fuel sig : Nat} {exp : Int} {zeros : Nat} {any : Bool} :
    LSpec o input (KLex input) (decimalLoop fuel sig exp zeros any) s s QT := by
  induction fuel generalizing sig exp zeros any s with
  | zero => unfold decimalLoop; lwp []
  | succ f ih => unfold decimalLoop; lwp [peekOrNull_l, skipDigits_l, ih]

theorem parseDecimal_l {cfg : Cfg} {fuel : Nat} {pos : Bool} {sig : Nat} {exp : Int} :
    LSpec o input (KLex input) (parseDecimal cfg fuel pos sig exp) s s QT := by
  unfold parseDecimal
  lwp [peekOrNull_l, decimalLoop_l, parseExponent_l, f64FromParts_l]

theorem parseLongInteger_l {cfg : Cfg} {radix : Nat} {pos : Bool} {sig fuel exp : Nat} :
    LSpec o input (KLex input) (parseLongInteger cfg radix pos sig fuel exp) s s QT := by
  induction fuel generalizing exp s with
  | zero => unfold parseLongInteger; lwp []
  | succ f ih =>
    unfold parseLongInteger
    generalize (2 : Nat) ^ 1024 = big
    lwp [peekOrNull_l, parseDecimal_l, parseExponent_l, f64FromParts_l, ih]

theorem parseNumTail_l {cfg : Cfg} {fuel radix : Nat} {pos : Bool} {sig : Nat} :
    LSpec o input (KLex input) (parseNumTail cfg fuel radix pos sig) s s QT := by
  unfold parseNumTail
  lwp [peekOrNull_l, parseDecimal_l, parseExponent_l]

theorem numLoop_l {cfg : Cfg} {radix : Nat} {pos : Bool} {fuel res : Nat} :
    LSpec o input (KLex input) (numLoop cfg radix pos fuel res) s s QT := by
  induction fuel generalizing res s with
  | zero => unfold numLoop; lwp []
  | succ f ih =>
    unfold numLoop
    lwp [peekOrNull_l, parseNumTail_l, parseLongInteger_l, ih]

theorem parseNumLiteral_l {cfg : Cfg} {fuel radix : Nat} {pos : Bool} :
    LSpec o input (KLex input) (parseNumLiteral cfg fuel radix pos) s s QT := by
  unfold parseNumLiteral
  lwp [numLoop_l]

theorem parseRadixLiteral_l {cfg : Cfg} {fuel radix : Nat} :
    LSpec o input (KLex input) (parseRadixLiteral cfg fuel radix) s s QT := by
  unfold parseRadixLiteral
  lwp [peekOrNull_l, parseNumLiteral_l]

theorem expectNumberEnd_l {n : Number} : LSpec o input (KLex input) (expectNumberEnd n) s s QT := by
  unfold expectNumberEnd
  lwp []

theorem parseNumToken_l {cfg : Cfg} {fuel : Nat} {pos : Bool} :
    LSpec o input (KLex input) (parseNumToken cfg fuel pos) s s QT := by
  unfold parseNumToken
  lwp [parseNumLiteral_l, expectNumberEnd_l]

theorem parseRadixToken_l {cfg : Cfg} {fuel radix : Nat} :
    LSpec o input (KLex input) (parseRadixToken cfg fuel radix) s s QT := by
  unfold parseRadixToken
  lwp [parseRadixLiteral_l, expectNumberEnd_l]

theorem parseNumber_l {cfg : Cfg} {fuel : Nat} :
    LSpec o input (KLex input) (parseNumber cfg fuel) s s QT := by
  unfold parseNumber
  lwp [peekOrNull_l, nextOrNull_l, parseRadixLiteral_l]

theorem expectIdent_l {cs : List UInt8} : LSpec o input (KLex input) (expectIdent cs) s s QT := by
  induction cs generalizing s with
  | nil => unfold expectIdent; lwp []
  | cons c cs ih => unfold expectIdent; lwp [ih]

theorem parseSymbolBytes_l {scratch : List UInt8} :
    LSpec o input (KLex input) (parseSymbolBytes scratch) s s QT := by
  unfold parseSymbolBytes
  lwp []
  rename_i nxt s' hh _
  cases nxt with
  | none => exact LSpec.errAt (KLex.atEnd rfl hh.nil)
  | some b =>
    obtain ⟨t, ht⟩ := hh.cons
    exact LSpec.errAt ⟨rfl, nofun, fun _ => by simp [ht], nofun⟩

theorem parseSignDotSymbol_l {cfg : Cfg} {pfx : List UInt8} :
    LSpec o input (KLex input) (parseSignDotSymbol cfg pfx) s s QT := by
  unfold parseSignDotSymbol
  lwp [peekOrNull_l, parseSymbolBytes_l]

theorem parseSignToken_l {cfg : Cfg} {fuel : Nat} {sign : UInt8} {pos : Bool} :
    LSpec o input (KLex input) (parseSignToken cfg fuel sign pos) s s QT := by
  unfold parseSignToken
  lwp [peekOrNull_l, parseSymbolBytes_l, parseSignDotSymbol_l, parseNumToken_l]

theorem parseToken_l {cfg : Cfg} {fuel : Nat} {pk : UInt8} :
    LSpec o input (KLex input) (parseToken cfg fuel pk) s s QT := by
  unfold parseToken
  lwp [peekOrNull_l, expectIdent_l, parseSymbolBytes_l, parseRadixToken_l,
    parseR6rsChar_l, parseSignToken_l, parseNumToken_l, parseR6rsStr_l,
    parseElispStr_l, parseElispChar_l, decodeUtf8Sequence_l]
  refine LSpec.bind_getSt fun hat => ?_
  refine LSpec.bind discard_l fun _ s' _ => ?_
  exact LSpec.rawErr hat.peekPosition (KLex.plain rfl)

end lex

/-! ### Parse.lean -/

section parse
variable {o : Pos} {input : List UInt8} {s : St}

theorem parseWhitespace_l {K : Code → St → Prop} : LSpec o input K parseWhitespace s s HeadIs := by
  unfold parseWhitespace
  lwp []

theorem toParse {α : Type} {m : P α} {s0 : St} {Q : α → St → Prop}
    (h : LSpec o input (KLex input) m s s0 Q) : LSpec o input KParse m s s0 Q :=
  h.weakenK fun _ _ _ hk => hk.toParse

theorem endSeq_p {close : UInt8} : LSpec o input KParse (endSeq close) s s QT := by
  unfold endSeq
  lwp [parseWhitespace_l]

theorem byteListLoop_p {cfg : Cfg} {close : UInt8} {fuel : Nat} {acc : List UInt8} :
    LSpec o input KParse (byteListLoop cfg close fuel acc) s s QT := by
  induction fuel generalizing acc s with
  | zero => unfold byteListLoop; lwp []
  | succ f ih =>
    unfold byteListLoop
    lwp [parseWhitespace_l, toParse parseNumber_l, toParse expectNumberEnd_l, ih]

theorem parseByteList_p {cfg : Cfg} {close : UInt8} {fuel : Nat} :
    LSpec o input KParse (parseByteList cfg fuel close) s s QT := by
  unfold parseByteList
  lwp [parseWhitespace_l, byteListLoop_p]

theorem enter_p : LSpec o input KParse enter s s QT := enter_l fun _ => KParse.plain rfl

theorem value_ls (cfg : Cfg) (o : Pos) (input : List UInt8) : ∀ fuel : Nat,
    (∀ s, LSpec o input KParse (nextValue cfg fuel) s s NoneNil) ∧
    (∀ term acc s, LSpec o input KParse (parseList cfg fuel term acc) s s QT) ∧
    (∀ term acc s, LSpec o input KParse (parseVector cfg fuel term acc) s s QT) := by
  intro fuel
  induction fuel with
  | zero =>
    refine ⟨?_, ?_, ?_⟩
    · intro s; unfold nextValue; lwp []
    · intro term acc s; unfold parseList; lwp []
    · intro term acc s; unfold parseVector; lwp []
  | succ f ih =>
    refine ⟨?_, ?_, ?_⟩
    · intro s
      unfold nextValue
      lwpa [parseWhitespace_l, toParse parseToken_l, parseByteList_p, enter_p,
        ih.1 _, ih.2.1 _ _ _, ih.2.2 _ _ _] [endSeq_p]
    · intro term acc s
      unfold parseList
      lwp [parseWhitespace_l, peekOrNull_l, toParse parseSymbolBytes_l, ih.1 _, ih.2.1 _ _ _]
    · intro term acc s
      unfold parseVector
      lwp [parseWhitespace_l, ih.1 _, ih.2.2 _ _ _]

theorem datum_ls (cfg : Cfg) (o : Pos) (input : List UInt8) : ∀ fuel : Nat,
    (∀ s, LSpec o input KParse (nextDatum cfg fuel) s s NoneNil) ∧
    (∀ term acc ms s, LSpec o input KParse (parseListMeta cfg fuel term acc ms) s s QT) ∧
    (∀ term acc ms s, LSpec o input KParse (parseVectorMeta cfg fuel term acc ms) s s QT) := by
  intro fuel
  induction fuel with
  | zero =>
    refine ⟨?_, ?_, ?_⟩
    · intro s; unfold nextDatum; lwp []
    · intro term acc ms s; unfold parseListMeta; lwp []
    · intro term acc ms s; unfold parseVectorMeta; lwp []
  | succ f ih =>
    refine ⟨?_, ?_, ?_⟩
    · intro s
      unfold nextDatum
      lwpa [parseWhitespace_l, toParse parseToken_l, parseByteList_p, enter_p,
        ih.1 _, ih.2.1 _ _ _ _, ih.2.2 _ _ _ _] [endSeq_p]
    · intro term acc ms s
      unfold parseListMeta
      lwp [parseWhitespace_l, peekOrNull_l, toParse parseSymbolBytes_l, ih.1 _, ih.2.1 _ _ _ _]
    · intro term acc ms s
      unfold parseVectorMeta
      lwp [parseWhitespace_l, ih.1 _, ih.2.2 _ _ _ _]

theorem nextValue_p {cfg : Cfg} {fuel : Nat} : LSpec o input KParse (nextValue cfg fuel) s s NoneNil :=
  (value_ls cfg o input fuel).1 s

theorem nextDatum_p {cfg : Cfg} {fuel : Nat} : LSpec o input KParse (nextDatum cfg fuel) s s NoneNil :=
  (datum_ls cfg o input fuel).1 s

theorem nextValueTop_p {cfg : Cfg} : LSpec o input KParse (nextValueTop cfg) s s NoneNil := by
  unfold nextValueTop
  lwp [nextValue_p]

theorem nextDatumTop_p {cfg : Cfg} : LSpec o input KParse (nextDatumTop cfg) s s NoneNil := by
  unfold nextDatumTop
  lwp [nextDatum_p]

theorem expectValue_p {cfg : Cfg} : LSpec o input KParse (expectValue cfg) s s QT := by
  unfold expectValue
  lwp [nextValueTop_p]

theorem expectDatum_p {cfg : Cfg} : LSpec o input KParse (expectDatum cfg) s s QT := by
  unfold expectDatum
  lwp [nextDatumTop_p]

theorem expectEnd_p : LSpec o input KParse expectEnd s s QT := by
  unfold expectEnd
  lwp [parseWhitespace_l]

theorem fromTrait_p {cfg : Cfg} : LSpec o input KParse (fromTrait cfg) s s QT := by
  unfold fromTrait
  lwp [expectValue_p, expectEnd_p]

theorem fromTraitDatum_p {cfg : Cfg} : LSpec o input KParse (fromTraitDatum cfg) s s QT := by
  unfold fromTraitDatum
  lwp [expectDatum_p, expectEnd_p]

end parse

/-! ### reading the results off -/

/-- Some entry point, run in state `s`, stopped with the error `e` in state `s'`.  (`nextValue` and
    `nextDatum` with any amount of fuel; the others compute their own fuel.) -/
def Raises (cfg : Cfg) (s : St) (e : Err) (s' : St) : Prop :=
  (∃ fuel, nextValue cfg fuel s = .err e s') ∨ (∃ fuel, nextDatum cfg fuel s = .err e s') ∨
  nextValueTop cfg s = .err e s' ∨ nextDatumTop cfg s = .err e s' ∨
  expectValue cfg s = .err e s' ∨ expectDatum cfg s = .err e s' ∨ expectEnd s = .err e s' ∨
  fromTrait cfg s = .err e s' ∨ fromTraitDatum cfg s = .err e s'

theorem raises_spec {o : Pos} {input : List UInt8} {cfg : Cfg} {s s' : St} {c : Code} {l k : Nat}
    (h : AtG o input s) (hr : Raises cfg s (.syntax c l k) s') :
    AtG o input s' ∧ LocG o input l k ∧ KParse c s' := by
  rcases hr with ⟨f, hr⟩ | ⟨f, hr⟩ | hr | hr | hr | hr | hr | hr | hr
  · exact nextValue_p.err h hr
  · exact nextDatum_p.err h hr
  · exact nextValueTop_p.err h hr
  · exact nextDatumTop_p.err h hr
  · exact expectValue_p.err h hr
  · exact expectDatum_p.err h hr
  · exact expectEnd_p.err h hr
  · exact fromTrait_p.err h hr
  · exact fromTraitDatum_p.err h hr

theorem AtG.toAt {input : List UInt8} {s : St} (h : AtG ⟨1, 0⟩ input s) : At input s := h
theorem At.toG {input : List UInt8} {s : St} (h : At input s) : AtG ⟨1, 0⟩ input s := h
theorem LocG.toLoc {input : List UInt8} {l k : Nat} (h : LocG ⟨1, 0⟩ input l k) : LocOK input l k := h

/-- the position after a text that ends in a line feed: last line, column 0 -/
theorem posOf_final_lf (xs : List UInt8) : posOf (xs ++ [10]) = ⟨lines (xs ++ [10]), 0⟩ := by
  rw [posOf_snoc, step_lf]
  have := posFrom_line ⟨1, 0⟩ xs
  simp only [posOf, lines, List.count_append, List.count_singleton_self] at this ⊢
  rw [this, Nat.add_assoc]

/-- a result keeps the invariant and, if it is a syntax error, has its location inside the input -/
def ResOK {α : Type} (input : List UInt8) : Res α → Prop
  | .ok _ s' => At input s'
  | .err e s' => At input s' ∧ ∀ c l k, e = .syntax c l k → LocOK input l k
  | _ => True

theorem LSpec.res {α : Type} {input : List UInt8} {K : Code → St → Prop} {m : P α} {s : St}
    {Q : α → St → Prop} (h : LSpec ⟨1, 0⟩ input K m s s Q) (hs : At input s) : ResOK input (m s) := by
  have := h (Inv.ofAt hs)
  revert this
  cases m s with
  | ok a s' => exact fun h => h.1.at_
  | err e s' =>
    intro h
    refine ⟨h.1.at_, fun c l k he => ?_⟩
    subst he
    exact h.2.1
  | panic p => exact fun _ => trivial
  | fuel => exact fun _ => trivial

/-- one call of an operation keeps the invariant and reports in-bounds locations -/
theorem stepOp_at {input : List UInt8} (cfg : Cfg) (op : Op) {s : St} (h : At input s) :
    (∀ c l k, (stepOp cfg op s).1 = .err (.syntax c l k) → LocOK input l k) ∧
    (∀ s', (stepOp cfg op s).2 = some s' → At input s') := by
  have hv : ResOK input (nextValueTop cfg s) := nextValueTop_p.res h
  have hd : ResOK input (nextDatumTop cfg s) := nextDatumTop_p.res h
  have hev : ResOK input (expectValue cfg s) := expectValue_p.res h
  have hed : ResOK input (expectDatum cfg s) := expectDatum_p.res h
  have hee : ResOK input (expectEnd s) := expectEnd_p.res h
  cases op <;> simp only [stepOp]
  case nextValue | valueIterNext | parserNext =>
    clear hd hev hed hee
    generalize nextValueTop cfg s = r at hv
    rcases r with ⟨_ | v, s'⟩ | ⟨e, s'⟩ | p | _ <;> simp_all [ResOK]
  case nextDatum | datumIterNext =>
    clear hv hev hed hee
    generalize nextDatumTop cfg s = r at hd
    rcases r with ⟨_ | v, s'⟩ | ⟨e, s'⟩ | p | _ <;> simp_all [ResOK]
  case expectValue =>
    clear hv hd hed hee
    generalize expectValue cfg s = r at hev
    rcases r with ⟨v, s'⟩ | ⟨e, s'⟩ | p | _ <;> simp_all [ResOK]
  case expectDatum =>
    clear hv hd hev hee
    generalize expectDatum cfg s = r at hed
    rcases r with ⟨v, s'⟩ | ⟨e, s'⟩ | p | _ <;> simp_all [ResOK]
  case expectEnd =>
    clear hv hd hev hed
    generalize expectEnd s = r at hee
    rcases r with ⟨v, s'⟩ | ⟨e, s'⟩ | p | _ <;> simp_all [ResOK]

theorem runHistory_at {input : List UInt8} (cfg : Cfg) :
    ∀ (ops : List Op) (s : St), At input s →
      ∀ it ∈ runHistory cfg ops s, ∀ c l k, it = .err (.syntax c l k) → LocOK input l k
  | [], s, _ => by simp [runHistory]
  | op :: ops, s, h => by
    have h1 := stepOp_at cfg op h
    have ih := runHistory_at (input := input) cfg ops
    simp only [runHistory]
    split
    · rename_i it s' heq
      rw [heq] at h1
      intro x hx
      rcases List.mem_cons.mp hx with rfl | hx
      · exact h1.1
      · exact ih s' (h1.2 s' rfl) x hx
    · rename_i it heq
      rw [heq] at h1
      intro x hx
      rcases List.mem_cons.mp hx with rfl | hx
      · exact h1.1
      · cases hx

/-! helpers for the concrete examples (evaluated by the kernel) -/

/-- an EOF-category error with unread input left -/
def eofWithRest {α : Type} : Res α → Bool
  | .err (.syntax c _ _) s' => c.category == .eof && !s'.rd.rest.isEmpty
  | _ => false

theorem eofWithRest_elim {α : Type} {r : Res α} (h : eofWithRest r = true) :
    ∃ c l k s', r = .err (.syntax c l k) s' ∧ c.category = .eof ∧ s'.rd.rest ≠ [] := by
  rcases r with _ | ⟨_ | _, s'⟩ | _ | _ <;> try cases h
  rename_i c l k
  simp only [eofWithRest, Bool.and_eq_true, beq_iff_eq, Bool.not_eq_true', List.isEmpty_eq_false_iff] at h
  exact ⟨c, l, k, s', rfl, h.1, h.2⟩

/-- the error code `c` with nothing left to read -/
def errAtEnd {α : Type} (c : Code) : Res α → Bool
  | .err (.syntax c' _ _) s' => c' == c && s'.rd.rest.isEmpty
  | _ => false

/-- the error `(c, l, k)` with exactly `rest` left to read -/
def errIs {α : Type} (c : Code) (l k : Nat) (rest : List UInt8) : Res α → Bool
  | .err (.syntax c' l' k') s' => c' == c && l' == l && k' == k && s'.rd.rest == rest
  | _ => false

theorem errIs_elim {α : Type} {c : Code} {l k : Nat} {rest : List UInt8} {r : Res α}
    (h : errIs c l k rest r = true) : ∃ s', r = .err (.syntax c l k) s' ∧ s'.rd.rest = rest := by
  rcases r with _ | ⟨_ | _, s'⟩ | _ | _ <;> try cases h
  rename_i c' l' k'
  simp only [errIs, Bool.and_eq_true, beq_iff_eq] at h
  obtain ⟨⟨⟨rfl, rfl⟩, rfl⟩, hr⟩ := h
  exact ⟨s', rfl, hr⟩

/-- a value was returned and there is unread input left -/
def okWithRest {α : Type} : Res (Option α) → Bool
  | .ok (some _) s' => !s'.rd.rest.isEmpty
  | _ => false

open Progress (exCfg)

/-! ## Main theorems -/

/-- **posOf_bounds'** (`posOf_bounds` above): for every prefix `pre` of `input` the position
    `posOf pre` has a line between 1 and `lines input` and a column of at most the length of that
    line. -/
theorem posOf_bounds' (pre input : List UInt8) (h : pre <+: input) :
    1 ≤ (posOf pre).line ∧ (posOf pre).line ≤ lines input ∧
    (posOf pre).col ≤ lineLen input (posOf pre).line := posOf_bounds h

example : posOf (asc "ab\ncd") = ⟨2, 2⟩ ∧ lines (asc "ab\ncd\n") = 3 ∧
    lineLen (asc "ab\ncd\n") 2 = 2 ∧ lineLen (asc "ab\ncd\n") 3 = 0 ∧
    asc "ab\ncd" <+: asc "ab\ncd\n" := by decide

/-- **peekPosition_bounds**: in a state inside `input`, `peek_position()` is the position after the
    consumed prefix or after that prefix and the next byte; either way it is the position after a
    prefix of the input, so it obeys the same bounds as `posOf_bounds` (no `+ 1` is needed: after a
    final line feed the position is line `lines input`, column 0, see `posOf_final_lf`). -/
theorem peekPosition_bounds (input : List UInt8) (s : St) (h : At input s) :
    (∃ pre, pre ++ s.rd.rest = input ∧
      (s.rd.peekPosition = posOf pre ∨
        ∃ b t, s.rd.rest = b :: t ∧ s.rd.peekPosition = posOf (pre ++ [b]))) ∧
    1 ≤ s.rd.peekPosition.line ∧ s.rd.peekPosition.line ≤ lines input ∧
    s.rd.peekPosition.col ≤ lineLen input s.rd.peekPosition.line :=
  ⟨h.toG.peekPosition_cases, LocOK.bounds h.toG.peekPosition.toLoc⟩

example : At (asc "a\n") (initSt .slice (asc "a\n")) ∧ posOf (asc "a\n") = ⟨lines (asc "a\n"), 0⟩ :=
  ⟨At.initSt _ _ _, by decide⟩

/-- **C19_location_strong**: a syntax (or EOF) error reported by any entry point, run in a state
    inside `input`, carries the position after some prefix of the input; hence its line is between
    1 and the number of lines and its column is at most the length of that line.  The state in
    which the parser stops is again inside `input`. -/
theorem C19_location_strong (cfg : Cfg) (input : List UInt8) (s s' : St) (c : Code) (l k : Nat)
    (h : At input s) (hr : Raises cfg s (.syntax c l k) s') :
    LocOK input l k ∧ 1 ≤ l ∧ l ≤ lines input ∧ k ≤ lineLen input l ∧ At input s' := by
  have := raises_spec h.toG hr
  exact ⟨this.2.1, (LocOK.bounds this.2.1.toLoc).1, (LocOK.bounds this.2.1.toLoc).2.1,
    (LocOK.bounds this.2.1.toLoc).2.2, this.1⟩

/-- **C19_location**: the bound of the property: line between 1 and `lines input + 1`, column at
    most the length of the line plus one. -/
theorem C19_location (cfg : Cfg) (input : List UInt8) (s s' : St) (c : Code) (l k : Nat)
    (h : At input s) (hr : Raises cfg s (.syntax c l k) s') :
    1 ≤ l ∧ l ≤ lines input + 1 ∧ k ≤ lineLen input l + 1 := by
  have := C19_location_strong cfg input s s' c l k h hr
  omega

example : At (asc "(a\n b]") (initSt .str (asc "(a\n b]")) ∧
    errIs .mismatchedParenthesis 2 3 (asc "]") (nextValueTop exCfg (initSt .str (asc "(a\n b]"))) = true :=
  ⟨At.initSt _ _ _, by decide +kernel⟩

/-- **C19_location_api**: the public functions (`from_str`, `from_slice`, `from_reader` and their
    datum variants, and the first call on a fresh parser) report locations inside their input. -/
theorem C19_location_api (cfg : Cfg) (mode : Mode) (input : List UInt8) (faulty : Bool) (s' : St)
    (c : Code) (l k : Nat)
    (hr : fromTrait cfg (initSt mode input faulty) = .err (.syntax c l k) s' ∨
      fromTraitDatum cfg (initSt mode input faulty) = .err (.syntax c l k) s' ∨
      nextValueTop cfg (initSt mode input faulty) = .err (.syntax c l k) s' ∨
      nextDatumTop cfg (initSt mode input faulty) = .err (.syntax c l k) s') :
    1 ≤ l ∧ l ≤ lines input ∧ k ≤ lineLen input l := by
  have h := At.initSt mode input faulty
  have key : Raises cfg (initSt mode input faulty) (.syntax c l k) s' := by
    rcases hr with hr | hr | hr | hr
    · exact Or.inr (Or.inr (Or.inr (Or.inr (Or.inr (Or.inr (Or.inr (Or.inl hr)))))))
    · exact Or.inr (Or.inr (Or.inr (Or.inr (Or.inr (Or.inr (Or.inr (Or.inr hr)))))))
    · exact Or.inr (Or.inr (Or.inl hr))
    · exact Or.inr (Or.inr (Or.inr (Or.inl hr)))
  exact (C19_location_strong cfg input _ s' c l k h key).2.1 |> fun h1 =>
    ⟨h1, (C19_location_strong cfg input _ s' c l k h key).2.2.1,
      (C19_location_strong cfg input _ s' c l k h key).2.2.2.1⟩

example : errIs .trailingCharacters 2 2 (asc "b") (fromTrait exCfg (initSt .io (asc "a\n b"))) = true := by
  decide +kernel

/-- **C19_location_history**: every syntax error reported anywhere in a sequence of calls on one
    parser over `input` (all three sources, faulty or not) has its location inside the input. -/
theorem C19_location_history (cfg : Cfg) (mode : Mode) (input : List UInt8) (faulty : Bool)
    (ops : List Op) (c : Code) (l k : Nat)
    (h : Item.err (.syntax c l k) ∈ runHistory cfg ops (initSt mode input faulty)) :
    1 ≤ l ∧ l ≤ lines input ∧ k ≤ lineLen input l :=
  LocOK.bounds (runHistory_at cfg ops _ (At.initSt mode input faulty) _ h c l k rfl)

example : (runHistory exCfg [.nextValue, .nextDatum, .expectEnd] (initSt .io (asc "a ) b"))).length = 3 := by
  decide +kernel

/-- **C19_eof_only_at_end_false**: the statement "every EOF-category error is raised with nothing
    left to read" is false: `"\xZ" 1` fails with `eofString` (the non-hex byte `Z` in an `\x`
    escape is reported by `decode_r6rs_hex_escape` as `EofWhileParsingString`) although `" 1` is
    still unread.  `#\xZ1` does the same with `eofChar`. -/
theorem C19_eof_only_at_end_false :
    ¬ (∀ (cfg : Cfg) (s s' : St) (c : Code) (l k : Nat),
        nextValueTop cfg s = .err (.syntax c l k) s' → c.category = .eof → s'.rd.rest = []) := by
  intro hall
  obtain ⟨c, l, k, s', hr, hc, hne⟩ :=
    eofWithRest_elim (r := nextValueTop exCfg (initSt .str (asc "\"\\xZ\" 1"))) (by decide +kernel)
  exact hne (hall _ _ _ _ _ _ hr hc)

example : errIs .eofString 1 4 (asc "\" 1") (nextValueTop exCfg (initSt .str (asc "\"\\xZ\" 1"))) = true := by
  decide +kernel
example : errIs .eofChar 1 4 (asc "1") (nextValueTop exCfg (initSt .str (asc "#\\xZ1"))) = true := by
  decide +kernel

/-- **C19_eof_only_at_end**: the true variant, for every state `s` (no invariant needed) and every
    entry point: `eofList`, `eofVector` and `eofValue` are reported only in a state with no unread
    input.  (For `eofString` / `eofChar` see `C19_eof_lexer`.) -/
theorem C19_eof_only_at_end (cfg : Cfg) (s s' : St) (c : Code) (l k : Nat)
    (hr : Raises cfg s (.syntax c l k) s') :
    (c.category = .eof → s'.rd.rest = [] ∨ c = .eofString ∨ c = .eofChar) ∧
    (c = .eofList ∨ c = .eofVector ∨ c = .eofValue → s'.rd.rest = []) := by
  have hk : KParse c s' := (raises_spec (AtG.self s) hr).2.2
  refine ⟨fun hc => ?_, fun hc => ?_⟩
  · cases c <;>
      first | exact Or.inl (hk rfl) | exact Or.inr (Or.inl rfl) | exact Or.inr (Or.inr rfl) | cases hc
  · rcases hc with rfl | rfl | rfl <;> exact hk rfl

example : errAtEnd .eofList (fromTrait exCfg (initSt .slice (asc "(a b "))) = true := by decide +kernel

/-- **C19_eof_lexer**: what `parse_token` (any fuel, any state `s`) can report.  The code is one of
    the eleven lexer codes; `eofValue` only with no unread input; `invalidSymbol` only with unread
    input; `eofString` / `eofChar` with no unread input or immediately after a consumed byte `b`
    that is not a hex digit (the two hex-escape scanners). -/
theorem C19_eof_lexer (cfg : Cfg) (fuel : Nat) (pk : UInt8) (s s' : St) (c : Code) (l k : Nat)
    (hr : parseToken cfg fuel pk s = .err (.syntax c l k) s') :
    lexCode c = true ∧
    (c = .eofValue → s'.rd.rest = []) ∧
    (c = .invalidSymbol → s'.rd.rest ≠ []) ∧
    (c = .eofString ∨ c = .eofChar → s'.rd.rest = [] ∨
      ∃ pre b, pre ++ b :: s'.rd.rest = s.rd.rest ∧ hexVal b = none) := by
  have hk := (parseToken_l.err (AtG.self s) hr).2.2
  refine ⟨hk.1, hk.2.1, hk.2.2.1, fun hc => ?_⟩
  rcases hk.2.2.2 hc with h | ⟨b, ⟨pre, hpre⟩, hb⟩
  · exact Or.inl h
  · exact Or.inr ⟨pre, b, hpre, hb⟩

/-- **C19_syntax_at_end**: the syntax-category codes that `parse_token` can report in a state with
    no unread input (the candidates for "a truncated text is reported as malformed instead of
    EOF") are these seven; each of them does occur (examples below). -/
theorem C19_syntax_at_end (cfg : Cfg) (fuel : Nat) (pk : UInt8) (s s' : St) (c : Code) (l k : Nat)
    (hr : parseToken cfg fuel pk s = .err (.syntax c l k) s') (hend : s'.rd.rest = [])
    (hc : c.category = .syntax) :
    c = .expectedSomeIdent ∨ c = .expectedSomeValue ∨ c = .invalidEscape ∨ c = .invalidNumber ∨
    c = .numberOutOfRange ∨ c = .invalidUnicodeCodePoint ∨ c = .invalidCharacterConstant := by
  have h := C19_eof_lexer cfg fuel pk s s' c l k hr
  have h3 := h.2.2.1
  cases c <;> simp_all [lexCode, Code.category]

example : errAtEnd .expectedSomeIdent (parseToken exCfg 9 35 (initSt .str (asc "#z"))) = true := by
  decide +kernel
example : errAtEnd .expectedSomeValue (parseToken exCfg 9 125 (initSt .str (asc "}"))) = true := by
  decide +kernel
example : errAtEnd .invalidEscape (parseToken exCfg 9 34 (initSt .str (asc "\"\\q"))) = true := by
  decide +kernel
example : errAtEnd .invalidNumber (parseToken exCfg 9 49 (initSt .str (asc "1ex"))) = true := by
  decide +kernel
example : errAtEnd .numberOutOfRange (parseToken exCfg 9 49 (initSt .str (asc "1e999"))) = true := by
  decide +kernel
example : errAtEnd .invalidUnicodeCodePoint (parseToken exCfg 12 35 (initSt .str (asc "#\\x1100000"))) = true := by
  decide +kernel
example : errAtEnd .invalidCharacterConstant (parseToken exCfg 9 35 (initSt .str (asc "#\\foo"))) = true := by
  decide +kernel

/-- **C19_eof_lexer_number**: the same classification for `parse_number` (byte-vector elements). -/
theorem C19_eof_lexer_number (cfg : Cfg) (fuel : Nat) (s s' : St) (c : Code) (l k : Nat)
    (hr : parseNumber cfg fuel s = .err (.syntax c l k) s') :
    lexCode c = true ∧
    (c = .eofValue → s'.rd.rest = []) ∧
    (c = .invalidSymbol → s'.rd.rest ≠ []) ∧
    (c = .eofString ∨ c = .eofChar → s'.rd.rest = [] ∨
      ∃ pre b, pre ++ b :: s'.rd.rest = s.rd.rest ∧ hexVal b = none) := by
  have hk := (parseNumber_l.err (AtG.self s) hr).2.2
  refine ⟨hk.1, hk.2.1, hk.2.2.1, fun hc => ?_⟩
  rcases hk.2.2.2 hc with h | ⟨b, ⟨pre, hpre⟩, hb⟩
  · exact Or.inl h
  · exact Or.inr ⟨pre, b, hpre, hb⟩

example : errAtEnd .eofValue (parseNumber exCfg 9 (initSt .str (asc "#x"))) = true := by decide +kernel

/-- **C19_prefix_det_scanners**: the structural scanners stop independently of what follows, if they
    stop before the end (`Scanner g`: `g p ≤ p.length` and `g p < p.length → g (p ++ q) = g p`);
    the reader primitives, `parse_whitespace`, `parse_symbol` and `parse_token` (with any larger
    amount of fuel on the longer input) are prefix-deterministic (`Sim`, see PrefixDet.lean). -/
theorem C19_prefix_det_scanners (cfg : Cfg) (m : Mode) (scratch : List UInt8) (pk : UInt8)
    (f f' : Nat) (hf : f ≤ f') :
    Scanner wsLen ∧ Scanner (symLen m) ∧ Scanner charNameLen ∧ Scanner digitsLen ∧
    Sim peek peek ∧ Sim next next ∧ Sim discard discard ∧ Sim parseWhitespace parseWhitespace ∧
    Sim (parseSymbolBytes scratch) (parseSymbolBytes scratch) ∧
    Sim (parseToken cfg f pk) (parseToken cfg f' pk) :=
  ⟨PrefixDet.wsLen_scanner, PrefixDet.symLen_scanner m, PrefixDet.charNameLen_scanner,
   PrefixDet.digits_scanner, PrefixDet.peek_s, PrefixDet.next_s, PrefixDet.discard_s,
   PrefixDet.parseWhitespace_s, PrefixDet.parseSymbolBytes_s, PrefixDet.parseToken_s hf⟩

example : wsLen (asc " ;c\n x") = 5 ∧ wsLen (asc " ;c\n x" ++ asc "yz") = 5 := by decide

/-- **C19_prefix_det**: if a run of an entry point on a state `s` ends in an error `e` in a state
    `s'` that still has unread input (it never looked at the end of the input), then the run on
    `s` with any `q` appended to the unread input (`ext q s`) ends in the same error, with `q`
    appended to what is left.  For `nextValue` / `nextDatum` any larger amount of fuel may be
    used on the longer input; the other entry points compute their own fuel. -/
theorem C19_prefix_det (cfg : Cfg) (s s' : St) (e : Err) (q : List UInt8) (hne : s'.rd.rest ≠ []) :
    (∀ f f', f ≤ f' → nextValue cfg f s = .err e s' → nextValue cfg f' (ext q s) = .err e (ext q s')) ∧
    (∀ f f', f ≤ f' → nextDatum cfg f s = .err e s' → nextDatum cfg f' (ext q s) = .err e (ext q s')) ∧
    (nextValueTop cfg s = .err e s' → nextValueTop cfg (ext q s) = .err e (ext q s')) ∧
    (nextDatumTop cfg s = .err e s' → nextDatumTop cfg (ext q s) = .err e (ext q s')) ∧
    (expectValue cfg s = .err e s' → expectValue cfg (ext q s) = .err e (ext q s')) ∧
    (expectDatum cfg s = .err e s' → expectDatum cfg (ext q s) = .err e (ext q s')) ∧
    (expectEnd s = .err e s' → expectEnd (ext q s) = .err e (ext q s')) ∧
    (fromTrait cfg s = .err e s' → fromTrait cfg (ext q s) = .err e (ext q s')) ∧
    (fromTraitDatum cfg s = .err e s' → fromTraitDatum cfg (ext q s) = .err e (ext q s')) :=
  ⟨fun _ _ h hr => (PrefixDet.nextValue_s h).err q hr hne,
   fun _ _ h hr => (PrefixDet.nextDatum_s h).err q hr hne,
   fun hr => PrefixDet.nextValueTop_s.err q hr hne, fun hr => PrefixDet.nextDatumTop_s.err q hr hne,
   fun hr => PrefixDet.expectValue_s.err q hr hne, fun hr => PrefixDet.expectDatum_s.err q hr hne,
   fun hr => PrefixDet.expectEnd_s.err q hr hne, fun hr => PrefixDet.fromTrait_s.err q hr hne,
   fun hr => PrefixDet.fromTraitDatum_s.err q hr hne⟩

example : errIs .invalidNumber 1 3 (asc "x 2)") (nextValueTop exCfg (initSt .str (asc "(1x 2)"))) = true ∧
    errIs .invalidNumber 1 3 (asc "x 2) 3") (nextValueTop exCfg (initSt .str (asc "(1x 2) 3"))) = true := by
  decide +kernel

/-- **C19_prefix_det_ok**: the same for successful results of `next_value` / `next_datum` that
    leave unread input. -/
theorem C19_prefix_det_ok (cfg : Cfg) (s s' : St) (q : List UInt8) (hne : s'.rd.rest ≠ []) :
    (∀ f f' v, f ≤ f' → nextValue cfg f s = .ok v s' → nextValue cfg f' (ext q s) = .ok v (ext q s')) ∧
    (∀ f f' d, f ≤ f' → nextDatum cfg f s = .ok d s' → nextDatum cfg f' (ext q s) = .ok d (ext q s')) ∧
    (∀ v, nextValueTop cfg s = .ok v s' → nextValueTop cfg (ext q s) = .ok v (ext q s')) ∧
    (∀ d, nextDatumTop cfg s = .ok d s' → nextDatumTop cfg (ext q s) = .ok d (ext q s')) :=
  ⟨fun _ _ _ h hr => (PrefixDet.nextValue_s h).ok q hr hne,
   fun _ _ _ h hr => (PrefixDet.nextDatum_s h).ok q hr hne,
   fun _ hr => PrefixDet.nextValueTop_s.ok q hr hne, fun _ hr => PrefixDet.nextDatumTop_s.ok q hr hne⟩

example : okWithRest (nextValueTop exCfg (initSt .str (asc "(a) b"))) = true := by decide +kernel

/-- **C19_truncation_reads_all** (towards the truncation clause): if the text `p ++ q` parses as a
    single datum (`from_str` / `from_slice` / `from_reader` succeed), then a failing parse of the
    truncated text `p` has consumed all of `p` when it reports its error: the error state has no
    unread input.  (By `C19_eof_only_at_end` and `C19_syntax_at_end` the only non-EOF codes that
    `parse_token` can report in such a state are the seven listed there.) -/
theorem C19_truncation_reads_all (cfg : Cfg) (mode : Mode) (faulty : Bool) (p q : List UInt8)
    (e : Err) (s' : St) :
    ((∃ v s1, fromTrait cfg (initSt mode (p ++ q) faulty) = .ok v s1) →
      fromTrait cfg (initSt mode p faulty) = .err e s' → s'.rd.rest = []) ∧
    ((∃ d s1, fromTraitDatum cfg (initSt mode (p ++ q) faulty) = .ok d s1) →
      fromTraitDatum cfg (initSt mode p faulty) = .err e s' → s'.rd.rest = []) := by
  refine ⟨fun ⟨v, s1, hok⟩ hr => ?_, fun ⟨d, s1, hok⟩ hr => ?_⟩
  · apply Classical.byContradiction
    intro hne
    have := PrefixDet.fromTrait_s.err q hr hne
    rw [PrefixDet.ext_initSt, hok] at this
    cases this
  · apply Classical.byContradiction
    intro hne
    have := PrefixDet.fromTraitDatum_s.err q hr hne
    rw [PrefixDet.ext_initSt, hok] at this
    cases this

example : (∃ v s1, fromTrait exCfg (initSt .str (asc "(a \"bc\")")) = .ok v s1) ∧
    errAtEnd .eofString (fromTrait exCfg (initSt .str (asc "(a \"b"))) = true :=
  ⟨Progress.okAny_elim (by decide +kernel), by decide +kernel⟩

/-- **C19_truncation_u8_hash**: the site at which the truncation clause failed on the pinned tree
    (found by this development: `parse_number` took the end of the input after `#` for an unknown
    radix letter, so `#u8(#` was reported as `invalidNumber`).  After the repair in /repo the model
    follows the code: `#u8(#xFF)` parses as a single datum and its proper prefix `#u8(#` is reported
    as `eofValue` (EOF category) with all input consumed. -/
theorem C19_truncation_u8_hash :
    (∃ v s1, fromTrait exCfg (initSt .str (asc "#u8(#xFF)")) = .ok v s1) ∧
    (∃ s', fromTrait exCfg (initSt .str (asc "#u8(#")) = .err (.syntax .eofValue 1 5) s' ∧
      s'.rd.rest = []) ∧
    Code.eofValue.category = .eof ∧ asc "#u8(#" <+: asc "#u8(#xFF)" :=
  ⟨Progress.okAny_elim (by decide +kernel), errIs_elim (by decide +kernel), rfl, by decide⟩

example : errIs .eofValue 1 7 [] (fromTrait exCfg (initSt .io (asc "#u8(1 #"))) = true := by
  decide +kernel

/-- a wrong radix letter is still a syntax error -/
example : errIs .invalidNumber 1 6 [] (fromTrait exCfg (initSt .io (asc "#u8(#q"))) = true := by
  decide +kernel

end Locations
end Parse
end Lexpr
