/-
  Generic: the public entry points, and call histories on related parsers give related items.
-/
import LexprModel.Proofs.Rel
namespace Lexpr
namespace Parse

/-- The two recursive entry points respect the relation (this is what the public functions and
    the call histories need). -/
class PrimsTop (S : St → St → Prop) (E : Err → Err → Prop) : Prop extends Prims S E where
  nextValue : ∀ cfg f, PRel S E Eq (nextValue cfg f) (nextValue cfg f)
  nextDatum : ∀ cfg f, PRel S E Eq (nextDatum cfg f) (nextDatum cfg f)

instance {S : St → St → Prop} {E : Err → Err → Prop} [PrimsFull S E] : PrimsTop S E where
  nextValue := Gen.nextValue
  nextDatum := Gen.nextDatum

macro_rules | `(tactic| psim_lemma) => `(tactic| with_reducible exact PrimsTop.nextValue ..)
macro_rules | `(tactic| psim_lemma) => `(tactic| with_reducible exact PrimsTop.nextDatum ..)

section hist
variable {S : St → St → Prop} {E : Err → Err → Prop}

theorem Gen.nextValueTop [PrimsTop S E] (cfg : Cfg) : PRel S E Eq (nextValueTop cfg) (nextValueTop cfg) := by
  unfold Parse.nextValueTop; psim
macro_rules | `(tactic| psim_lemma) => `(tactic| with_reducible exact Gen.nextValueTop ..)
theorem Gen.nextDatumTop [PrimsTop S E] (cfg : Cfg) : PRel S E Eq (nextDatumTop cfg) (nextDatumTop cfg) := by
  unfold Parse.nextDatumTop; psim
macro_rules | `(tactic| psim_lemma) => `(tactic| with_reducible exact Gen.nextDatumTop ..)
theorem Gen.expectValue [PrimsTop S E] (cfg : Cfg) : PRel S E Eq (expectValue cfg) (expectValue cfg) := by
  unfold Parse.expectValue; psim
macro_rules | `(tactic| psim_lemma) => `(tactic| with_reducible exact Gen.expectValue ..)
theorem Gen.expectDatum [PrimsTop S E] (cfg : Cfg) : PRel S E Eq (expectDatum cfg) (expectDatum cfg) := by
  unfold Parse.expectDatum; psim
macro_rules | `(tactic| psim_lemma) => `(tactic| with_reducible exact Gen.expectDatum ..)
theorem Gen.fromTrait [PrimsTop S E] (cfg : Cfg) : PRel S E Eq (fromTrait cfg) (fromTrait cfg) := by
  unfold Parse.fromTrait; psim
theorem Gen.fromTraitDatum [PrimsTop S E] (cfg : Cfg) : PRel S E Eq (fromTraitDatum cfg) (fromTraitDatum cfg) := by
  unfold Parse.fromTraitDatum; psim



/-! ### call histories -/

/-- Items of two histories agree up to error positions. -/
def ItemRel (E : Err → Err → Prop) : Item → Item → Prop
  | .value v, .value w => v = w
  | .datum d, .datum d' => d = d'
  | .none_, .none_ => True
  | .unit, .unit => True
  | .err e, .err e' => E e e'
  | .panic p, .panic q => p = q
  | .fuel, .fuel => True
  | _, _ => False

/-- outcome of one call: similar items, and similar parser states if the parser survives -/
def StepRel (S : St → St → Prop) (E : Err → Err → Prop) :
    Item × Option St → Item × Option St → Prop
  | (i, some s), (j, some t) => ItemRel E i j ∧ S s t
  | (i, none), (j, none) => ItemRel E i j
  | _, _ => False

theorem stepOp_rel [PrimsTop S E] (cfg : Cfg) (op : Op) {s t : St} (h : S s t) :
    StepRel S E (stepOp cfg op s) (stepOp cfg op t) := by
  cases op <;> simp only [stepOp]
  case nextValue | valueIterNext | parserNext =>
    have hV := (Gen.nextValueTop (S := S) (E := E) cfg).app s t h
    generalize nextValueTop cfg s = r₁ at hV ⊢; generalize nextValueTop cfg t = r₂ at hV ⊢
    rcases r₁ with ⟨_ | _, _⟩ | _ | _ | _ <;> rcases r₂ with ⟨_ | _, _⟩ | _ | _ | _ <;>
      simp_all [ResRel, StepRel, ItemRel]
  case nextDatum | datumIterNext =>
    have hD := (Gen.nextDatumTop (S := S) (E := E) cfg).app s t h
    generalize nextDatumTop cfg s = r₁ at hD ⊢; generalize nextDatumTop cfg t = r₂ at hD ⊢
    rcases r₁ with ⟨_ | _, _⟩ | _ | _ | _ <;> rcases r₂ with ⟨_ | _, _⟩ | _ | _ | _ <;>
      simp_all [ResRel, StepRel, ItemRel]
  case expectValue =>
    have hEV := (Gen.expectValue (S := S) (E := E) cfg).app s t h
    generalize expectValue cfg s = r₁ at hEV ⊢; generalize expectValue cfg t = r₂ at hEV ⊢
    cases r₁ <;> cases r₂ <;> simp_all [ResRel, StepRel, ItemRel]
  case expectDatum =>
    have hED := (Gen.expectDatum (S := S) (E := E) cfg).app s t h
    generalize expectDatum cfg s = r₁ at hED ⊢; generalize expectDatum cfg t = r₂ at hED ⊢
    cases r₁ <;> cases r₂ <;> simp_all [ResRel, StepRel, ItemRel]
  case expectEnd =>
    have hEE := (Gen.expectEnd (S := S) (E := E)).app s t h
    generalize expectEnd s = r₁ at hEE ⊢; generalize expectEnd t = r₂ at hEE ⊢
    cases r₁ <;> cases r₂ <;> simp_all [ResRel, StepRel, ItemRel]

/-- two histories agree item by item -/
inductive HistRel (E : Err → Err → Prop) : List Item → List Item → Prop
  | nil : HistRel E [] []
  | cons {i j : Item} {is js : List Item} : ItemRel E i j → HistRel E is js →
      HistRel E (i :: is) (j :: js)

theorem runHistory_rel [PrimsTop S E] (cfg : Cfg) (ops : List Op) {s t : St} (h : S s t) :
    HistRel E (runHistory cfg ops s) (runHistory cfg ops t) := by
  induction ops generalizing s t with
  | nil => exact .nil
  | cons op ops ih =>
    have := stepOp_rel (S := S) (E := E) cfg op h
    unfold runHistory
    revert this
    rcases stepOp cfg op s with ⟨i, _ | s'⟩ <;> rcases stepOp cfg op t with ⟨j, _ | t'⟩ <;>
      simp only [StepRel] <;> intro h'
    · exact .cons h' .nil
    · exact h'.elim
    · exact h'.elim
    · exact .cons h'.1 (ih h'.2)


end hist

end Parse
end Lexpr
