/-
  Prefix determinism: a run that stops before the end of its input does not depend on what follows.
  (Support file for Locations.lean, theorem `C19_prefix_det`.)
-/
import LexprModel.Proofs.Progress
namespace Lexpr
namespace Parse
namespace PrefixDet

/-! ### prefix determinism

  `Sim m m'`: whenever `m`, run on a state `s`, stops (with a result or an error) in a state that
  still has unread input, `m'` run on `s` with any `q` appended to the unread input stops in the same
  way, with `q` appended to what is left.  (`m'` is `m` with at least as much fuel.) -/

/-- the reader with `q` appended to its unread input -/
def _root_.Lexpr.Parse.Rd.ext (q : List UInt8) (rd : Rd) : Rd := { rd with rest := rd.rest ++ q }

/-- the state with `q` appended to its unread input -/
def ext (q : List UInt8) (s : St) : St := { s with rd := s.rd.ext q }

def Sim {α : Type} (m m' : P α) : Prop := ∀ (s : St) (q : List UInt8),
  match m s with
  | .ok a s' => s'.rd.rest <:+ s.rd.rest ∧ (s'.rd.rest ≠ [] → m' (ext q s) = .ok a (ext q s'))
  | .err e s' => s'.rd.rest <:+ s.rd.rest ∧ (s'.rd.rest ≠ [] → m' (ext q s) = .err e (ext q s'))
  | .panic _ => True
  | .fuel => True

theorem consume_ext (q : List UInt8) : ∀ (n : Nat) (rd : Rd), n ≤ rd.rest.length →
    (rd.ext q).consume n = (rd.consume n).ext q := by
  intro n
  induction n with
  | zero => intro rd _; rfl
  | succ n ih =>
    intro rd h
    cases hr : rd.rest with
    | nil => simp [hr] at h
    | cons b bs =>
      have hx : (rd.ext q).rest = b :: (bs ++ q) := by simp [Rd.ext, hr]
      simp only [Rd.consume, hx, hr]
      exact ih { rd with rest := bs, line := (advance rd.line rd.col b).1,
                         col := (advance rd.line rd.col b).2, peeked := false }
        (by simp [hr] at h; simpa using h)

theorem ext_rest (q : List UInt8) (s : St) : (ext q s).rd.rest = s.rd.rest ++ q := rfl

theorem ext_consume (q : List UInt8) (s : St) (n : Nat) (h : n ≤ s.rd.rest.length) :
    ({ ext q s with rd := (ext q s).rd.consume n } : St) = ext q { s with rd := s.rd.consume n } := by
  simp only [ext]
  rw [consume_ext q n s.rd h]

theorem peekPosition_ext (q : List UInt8) (s : St) (h : s.rd.rest ≠ []) :
    (ext q s).rd.peekPosition = s.rd.peekPosition := by
  cases hr : s.rd.rest with
  | nil => exact absurd hr h
  | cons b t => simp [Rd.peekPosition, ext, Rd.ext, hr]

section simrules
variable {α β : Type}

theorem Sim.bind {m m' : P α} {f f' : α → P β} (h1 : Sim m m') (h2 : ∀ a, Sim (f a) (f' a)) :
    Sim (m >>= f) (m' >>= f') := by
  intro s q
  have h1' := h1 s q
  show match P.bind m f s with
    | .ok a s' => _ ∧ (_ → P.bind m' f' (ext q s) = _)
    | .err e s' => _ ∧ (_ → P.bind m' f' (ext q s) = _)
    | .panic _ => True
    | .fuel => True
  unfold P.bind
  cases hm : m s with
  | ok a s1 =>
    rw [hm] at h1'
    have h2' := h2 a s1 q
    dsimp only
    cases hf : f a s1 with
    | ok b s2 =>
      rw [hf] at h2'
      refine ⟨h2'.1.trans h1'.1, fun hne => ?_⟩
      have hne1 : s1.rd.rest ≠ [] := fun h0 => hne (by simpa [h0] using h2'.1)
      rw [h1'.2 hne1]
      exact h2'.2 hne
    | err e s2 =>
      rw [hf] at h2'
      refine ⟨h2'.1.trans h1'.1, fun hne => ?_⟩
      have hne1 : s1.rd.rest ≠ [] := fun h0 => hne (by simpa [h0] using h2'.1)
      rw [h1'.2 hne1]
      exact h2'.2 hne
    | panic p => trivial
    | fuel => trivial
  | err e s1 =>
    rw [hm] at h1'
    refine ⟨h1'.1, fun hne => ?_⟩
    rw [h1'.2 hne]
  | panic p => trivial
  | fuel => trivial

theorem Sim.pure {a : α} : Sim (pure a : P α) (pure a) :=
  fun _ _ => ⟨List.suffix_refl _, fun _ => rfl⟩

theorem Sim.errAt {c : Code} : Sim (errAt c : P α) (errAt c) :=
  fun _ _ => ⟨List.suffix_refl _, fun _ => rfl⟩

theorem Sim.peekErr {c : Code} : Sim (peekErr c : P α) (peekErr c) := by
  intro s q
  refine ⟨List.suffix_refl _, fun hne => ?_⟩
  show Res.err _ _ = _
  rw [peekPosition_ext q s hne]

theorem Sim.panicAt {p : Site} {m' : P α} : Sim (panicAt p : P α) m' := fun _ _ => trivial

theorem Sim.outOfFuel {m' : P α} : Sim (outOfFuel : P α) m' := fun _ _ => trivial

/-- the left program is out of fuel -/
theorem Sim.fuel0 {m m' : P α} (h : m = Parse.outOfFuel) : Sim m m' := h ▸ Sim.outOfFuel

theorem Sim.ite {c : Prop} [Decidable c] {A A' B B' : P α} (hA : c → Sim A A') (hB : ¬c → Sim B B') :
    Sim (if c then A else B) (if c then A' else B') := by
  split
  · exact hA ‹_›
  · exact hB ‹_›

theorem Sim.liftExcept {x : Except Err α} : Sim (liftExcept x) (liftExcept x) := by
  cases x with
  | ok a => exact Sim.pure
  | error e => exact fun s _ => ⟨List.suffix_refl _, fun _ => rfl⟩

theorem Sim.bind_attempt {m m' : P α} {f f' : Except Err α → P β} (h : Sim m m')
    (hok : ∀ a, Sim (f (.ok a)) (f' (.ok a))) (herr : ∀ e, Sim (f (.error e)) (f' (.error e))) :
    Sim (attempt m >>= f) (attempt m' >>= f') := by
  refine Sim.bind ?_ (fun x => by cases x <;> first | exact hok _ | exact herr _)
  intro s q
  have h' := h s q
  unfold attempt
  cases hm : m s with
  | ok a s1 => rw [hm] at h'; exact ⟨h'.1, fun hne => by simp only [h'.2 hne]⟩
  | err e s1 => rw [hm] at h'; exact ⟨h'.1, fun hne => by simp only [h'.2 hne]⟩
  | panic p => trivial
  | fuel => trivial

theorem Sim.bind_tokenFuel {f f' : Nat → P β} (h : ∀ n n', n ≤ n' → Sim (f n) (f' n')) :
    Sim (tokenFuel >>= f) (tokenFuel >>= f') := by
  intro s q
  exact h (s.rd.rest.length + 1) ((ext q s).rd.rest.length + 1) (by simp [ext_rest]) s q

theorem Sim.bind_apiFuel {f f' : Nat → P β} (h : ∀ n n', n ≤ n' → Sim (f n) (f' n')) :
    Sim (apiFuel >>= f) (apiFuel >>= f') := by
  intro s q
  exact h (2 * s.rd.rest.length + 4) (2 * (ext q s).rd.rest.length + 4) (by simp [ext_rest]; omega) s q

end simrules

theorem peek_s : Sim peek peek := by
  intro s q
  unfold peek
  cases hr : s.rd.rest with
  | nil =>
    by_cases hf : s.rd.faulty = true <;> simp [hf, hr]
  | cons b t =>
    refine ⟨by simp [hr], fun _ => ?_⟩
    simp only [ext_rest, hr, List.cons_append]
    rfl

theorem next_s : Sim next next := by
  intro s q
  unfold next
  cases hr : s.rd.rest with
  | nil =>
    by_cases hf : s.rd.faulty = true <;> simp [hf, hr]
  | cons b t =>
    refine ⟨by simp [Progress.consume_rest, hr], fun _ => ?_⟩
    simp only [ext_rest, hr, List.cons_append]
    rw [ext_consume q s 1 (by simp [hr])]

theorem discard_s : Sim discard discard := by
  intro s q
  unfold discard
  cases hr : s.rd.rest with
  | nil => trivial
  | cons b t =>
    refine ⟨by simp [Progress.consume_rest, hr], fun _ => ?_⟩
    simp only [ext_rest, hr, List.cons_append]
    rw [ext_consume q s 1 (by simp [hr])]

theorem getMode_s : Sim getMode getMode := fun _ _ => ⟨List.suffix_refl _, fun _ => rfl⟩
theorem getPos_s : Sim getPos getPos := fun _ _ => ⟨List.suffix_refl _, fun _ => rfl⟩
theorem leave_s : Sim leave leave := fun _ _ => ⟨List.suffix_refl _, fun _ => rfl⟩

theorem enter_s : Sim enter enter := by
  intro s q
  unfold enter
  have hd : (ext q s).depth = s.depth := rfl
  by_cases h0 : (s.depth == 0) = true
  · simp only [h0, ↓reduceIte]
  · by_cases h1 : (s.depth - 1 == 0) = true
    · simp only [hd, h0, h1, ↓reduceIte]
      refine ⟨List.suffix_refl _, fun hne => ?_⟩
      rw [peekPosition_ext q s hne]
      simp
    · simp only [hd, h0, h1]
      exact ⟨List.suffix_refl _, fun _ => by simp; rfl⟩


/-! ### scanners -/

/-- `g` measures a prefix of its argument and, if it stops before the end, does not depend on what
    follows -/
def Scanner (g : List UInt8 → Nat) : Prop :=
  ∀ p q, g p ≤ p.length ∧ (g p < p.length → g (p ++ q) = g p)

/-- consume the bytes measured by `g` and return them -/
def scan (g : List UInt8 → Nat) : P (List UInt8) := fun s =>
  .ok (s.rd.rest.take (g s.rd.rest)) { s with rd := s.rd.consume (g s.rd.rest) }

theorem scan_s {g : List UInt8 → Nat} (hg : Scanner g) : Sim (scan g) (scan g) := by
  intro s q
  unfold scan
  refine ⟨by simp [Progress.consume_rest, List.drop_suffix], fun hne => ?_⟩
  have hlen := (hg s.rd.rest q).1
  have hlt : g s.rd.rest < s.rd.rest.length := by
    rcases Nat.lt_or_ge (g s.rd.rest) s.rd.rest.length with h | h
    · exact h
    · exact absurd (by simp [Progress.consume_rest, List.drop_eq_nil_of_le h]) hne
  have hg' := (hg s.rd.rest q).2 hlt
  simp only [ext_rest, hg']
  rw [ext_consume q s _ hlen, List.take_append_of_le_length hlen]

theorem ws_scan (p q : List UInt8) :
    (wsLen p ≤ p.length ∧ (wsLen p < p.length → wsLen (p ++ q) = wsLen p)) ∧
    (commentLen p ≤ p.length ∧ (commentLen p < p.length → commentLen (p ++ q) = commentLen p)) := by
  induction p with
  | nil => simp [wsLen, commentLen]
  | cons b t ih =>
    simp only [List.cons_append, wsLen, commentLen, List.length_cons]
    refine ⟨?_, ?_⟩
    · split
      · exact ⟨by omega, fun h => by rw [ih.2.2 (by omega)]⟩
      · split
        · exact ⟨by omega, fun h => by rw [ih.1.2 (by omega)]⟩
        · exact ⟨by omega, fun _ => rfl⟩
    · split
      · exact ⟨by omega, fun h => by rw [ih.1.2 (by omega)]⟩
      · exact ⟨by omega, fun h => by rw [ih.2.2 (by omega)]⟩

theorem wsLen_scanner : Scanner wsLen := fun p q => (ws_scan p q).1

theorem symLen_scanner (m : Mode) : Scanner (symLen m) := by
  intro p q
  induction p with
  | nil => simp [symLen]
  | cons b t ih =>
    simp only [List.cons_append, symLen, List.length_cons]
    split
    · exact ⟨by omega, fun _ => rfl⟩
    · exact ⟨by omega, fun h => by rw [ih.2 (by omega)]⟩

theorem charNameLen_scanner : Scanner charNameLen := by
  intro p q
  induction p with
  | nil => simp [charNameLen]
  | cons b t ih =>
    simp only [List.cons_append, charNameLen, List.length_cons]
    split
    · exact ⟨by omega, fun _ => rfl⟩
    · exact ⟨by omega, fun h => by rw [ih.2 (by omega)]⟩

/-- number of leading digits -/
def digitsLen (r : List UInt8) : Nat := (r.takeWhile isDigit).length

theorem digits_scanner : Scanner digitsLen := by
  intro p q
  induction p with
  | nil => simp [digitsLen]
  | cons b t ih =>
    unfold digitsLen at ih ⊢
    simp only [List.cons_append, List.takeWhile_cons, List.length_cons]
    split
    · simp only [List.length_cons]
      exact ⟨by omega, fun h => by rw [ih.2 (by omega)]⟩
    · exact ⟨by simp, fun _ => rfl⟩

/-! ### the tactic -/

open Lean Elab Tactic Meta in
/-- succeed iff the goal is syntactically a `∀` / `→` -/
elab "sguard_pi" : tactic => do
  let g := (← instantiateMVars (← getMainTarget)).cleanupAnnotations
  unless g.isForall do throwError "not a pi"

open Lean Elab Tactic Meta in
/-- succeed iff the goal is `Sim (c .. >>= f) _` with head constant `c` -/
elab "sguard_bind_head " id:ident : tactic => do
  let g := (← instantiateMVars (← getMainTarget)).cleanupAnnotations
  unless g.getAppFn.isConstOf ``Sim do throwError "not a Sim goal"
  let r := g.getAppArgs[1]!
  unless r.getAppFn.isConstOf ``Bind.bind && r.getAppNumArgs == 6 do throwError "not a bind"
  let m := r.getAppArgs[4]!
  unless m.getAppFn.isConstOf id.getId.eraseMacroScopes do throwError "head mismatch"

syntax "sim" "[" term,* "]" : tactic
macro_rules
  | `(tactic| sim [$ts,*]) => `(tactic| repeat' (first
      | (sguard_pi; intro _)
      | exact Sim.pure
      | exact Sim.errAt
      | exact Sim.peekErr
      | exact Sim.panicAt
      | exact Sim.outOfFuel
      | exact Sim.liftExcept
      | exact peek_s
      | exact next_s
      | exact discard_s
      | exact getMode_s
      | exact getPos_s
      | exact enter_s
      | exact leave_s
      $[| exact $ts]*
      $[| exact $ts (by omega)]*
      | (sguard_bind_head Lexpr.Parse.attempt; refine Sim.bind_attempt ?_ ?_ ?_)
      | (refine Sim.ite ?_ ?_)
      | (sguard_bind_head Lexpr.Parse.tokenFuel; refine Sim.bind_tokenFuel ?_)
      | (sguard_bind_head Lexpr.Parse.apiFuel; refine Sim.bind_apiFuel ?_)
      | (refine Sim.bind ?_ ?_)
      | dsimp only
      | (simp only [Except.ok.injEq, Except.error.injEq, reduceCtorEq] at *; subst_vars)
      | split))

/-! ### Lex.lean -/

theorem parseWhitespace_eq : parseWhitespace = (scan wsLen >>= fun _ => peek) := rfl

theorem parseWhitespace_s : Sim parseWhitespace parseWhitespace := by
  rw [parseWhitespace_eq]
  sim [scan_s wsLen_scanner]

theorem nextOrEof_s : Sim nextOrEof nextOrEof := by
  unfold nextOrEof
  sim []

theorem nextOrEofChar_s : Sim nextOrEofChar nextOrEofChar := by
  unfold nextOrEofChar
  sim []

theorem peekOrNull_s : Sim peekOrNull peekOrNull := by
  unfold peekOrNull
  sim []

theorem nextOrNull_s : Sim nextOrNull nextOrNull := by
  unfold nextOrNull
  sim []

theorem readCont_s {n : Nat} {acc : List UInt8} : Sim (readCont n acc) (readCont n acc) := by
  induction n generalizing acc with
  | zero => unfold readCont; sim []
  | succ n ih => unfold readCont; sim [ih]

theorem decodeUtf8Sequence_s {b : UInt8} : Sim (decodeUtf8Sequence b) (decodeUtf8Sequence b) := by
  unfold decodeUtf8Sequence
  sim [readCont_s]

theorem decodeR6rsHexEscape_s {f f' n : Nat} (h : f ≤ f') :
    Sim (decodeR6rsHexEscape f n) (decodeR6rsHexEscape f' n) := by
  induction f generalizing f' n with
  | zero => exact Sim.fuel0 rfl
  | succ f ih =>
    obtain ⟨g, rfl⟩ : ∃ g, f' = g + 1 := ⟨f' - 1, by omega⟩
    unfold decodeR6rsHexEscape
    sim [nextOrEof_s, ih]

theorem parseR6rsEscape_s {f f' : Nat} {acc : List UInt8} (h : f ≤ f') :
    Sim (parseR6rsEscape f acc) (parseR6rsEscape f' acc) := by
  unfold parseR6rsEscape
  sim [nextOrEof_s, decodeR6rsHexEscape_s]

theorem finishStr_s {c : Bool} {bs : List UInt8} : Sim (finishStr c bs) (finishStr c bs) := by
  unfold finishStr
  sim []

theorem parseR6rsStr_s {f f' : Nat} {acc : List UInt8} (h : f ≤ f') :
    Sim (parseR6rsStr f acc) (parseR6rsStr f' acc) := by
  induction f generalizing f' acc with
  | zero => exact Sim.fuel0 rfl
  | succ f ih =>
    obtain ⟨g, rfl⟩ : ∃ g, f' = g + 1 := ⟨f' - 1, by omega⟩
    unfold parseR6rsStr
    sim [nextOrEof_s, finishStr_s, parseR6rsEscape_s, ih]

theorem decodeElispHexEscape_s {f f' n : Nat} (h : f ≤ f') :
    Sim (decodeElispHexEscape f n) (decodeElispHexEscape f' n) := by
  induction f generalizing f' n with
  | zero => exact Sim.fuel0 rfl
  | succ f ih =>
    obtain ⟨g, rfl⟩ : ∃ g, f' = g + 1 := ⟨f' - 1, by omega⟩
    unfold decodeElispHexEscape
    sim [ih]

theorem decodeElispUniEscape_s {count n : Nat} :
    Sim (decodeElispUniEscape count n) (decodeElispUniEscape count n) := by
  induction count generalizing n with
  | zero => unfold decodeElispUniEscape; sim []
  | succ f ih => unfold decodeElispUniEscape; sim [nextOrEof_s, ih]

theorem decodeElispOctalEscape_s {f f' n : Nat} (h : f ≤ f') :
    Sim (decodeElispOctalEscape f n) (decodeElispOctalEscape f' n) := by
  induction f generalizing f' n with
  | zero => exact Sim.fuel0 rfl
  | succ f ih =>
    obtain ⟨g, rfl⟩ : ∃ g, f' = g + 1 := ⟨f' - 1, by omega⟩
    unfold decodeElispOctalEscape
    sim [ih]

theorem elispCharEscape_s {acc : List UInt8} {n : Nat} :
    Sim (elispCharEscape acc n) (elispCharEscape acc n) := by
  unfold elispCharEscape
  sim []

theorem elispUniCharEscape_s {acc : List UInt8} {n : Nat} :
    Sim (elispUniCharEscape acc n) (elispUniCharEscape acc n) := by
  unfold elispUniCharEscape
  sim []

theorem parseElispEscape_s {f f' : Nat} {acc : List UInt8} (h : f ≤ f') :
    Sim (parseElispEscape f acc) (parseElispEscape f' acc) := by
  unfold parseElispEscape
  sim [nextOrEof_s, decodeElispHexEscape_s, decodeElispUniEscape_s, decodeElispOctalEscape_s,
    elispCharEscape_s, elispUniCharEscape_s]

theorem parseElispStr_s {f f' : Nat} {acc : List UInt8} {ub mb na : Bool} (h : f ≤ f') :
    Sim (parseElispStr f acc ub mb na) (parseElispStr f' acc ub mb na) := by
  induction f generalizing f' acc ub mb na with
  | zero => exact Sim.fuel0 rfl
  | succ f ih =>
    obtain ⟨g, rfl⟩ : ∃ g, f' = g + 1 := ⟨f' - 1, by omega⟩
    unfold parseElispStr
    sim [nextOrEof_s, finishStr_s, parseElispEscape_s, ih]

theorem decodeR6rsCharHexEscape_s {f f' n : Nat} {first : Bool} (h : f ≤ f') :
    Sim (decodeR6rsCharHexEscape f n first) (decodeR6rsCharHexEscape f' n first) := by
  induction f generalizing f' n first with
  | zero => exact Sim.fuel0 rfl
  | succ f ih =>
    obtain ⟨g, rfl⟩ : ∃ g, f' = g + 1 := ⟨f' - 1, by omega⟩
    unfold decodeR6rsCharHexEscape
    sim [ih]

/-- the character-name branch of `parse_r6rs_char` -/
def charNameTail (initial : UInt8) : P Nat := do
  let rest ← getRest
  let n := charNameLen rest
  consumeN n
  let nxt' ← peek
  match charName (initial :: rest.take n) with
  | some c => pure c
  | none =>
    if nxt'.isNone && isCharNamePrefix (initial :: rest.take n) then errAt .eofChar
    else errAt .invalidCharacterConstant

theorem charNameTail_eq (initial : UInt8) : charNameTail initial =
    (scan charNameLen >>= fun tk => peek >>= fun nxt' =>
      match charName (initial :: tk) with
      | some c => pure c
      | none =>
        if nxt'.isNone && isCharNamePrefix (initial :: tk) then errAt .eofChar
        else errAt .invalidCharacterConstant) := rfl

theorem charNameTail_s {initial : UInt8} : Sim (charNameTail initial) (charNameTail initial) := by
  rw [charNameTail_eq]
  sim [scan_s charNameLen_scanner]

theorem parseR6rsChar_s {f f' : Nat} (h : f ≤ f') : Sim (parseR6rsChar f) (parseR6rsChar f') := by
  unfold parseR6rsChar
  sim [nextOrEofChar_s, decodeR6rsCharHexEscape_s, decodeUtf8Sequence_s, charNameTail_s]

theorem asChar_s {n : Nat} : Sim (asChar n) (asChar n) := by
  unfold asChar
  sim []

theorem asEscapedChar_s {n : Nat} : Sim (asEscapedChar n) (asEscapedChar n) := by
  unfold asEscapedChar
  sim [asChar_s]

theorem decodeElispCharEscape_s {f f' : Nat} (h : f ≤ f') :
    Sim (decodeElispCharEscape f) (decodeElispCharEscape f') := by
  unfold decodeElispCharEscape
  sim [nextOrEofChar_s, nextOrEof_s, decodeElispHexEscape_s, decodeElispUniEscape_s,
    decodeElispOctalEscape_s, asChar_s, asEscapedChar_s, decodeUtf8Sequence_s]

theorem parseElispChar_s {f f' : Nat} (h : f ≤ f') : Sim (parseElispChar f) (parseElispChar f') := by
  unfold parseElispChar
  sim [decodeElispCharEscape_s, decodeUtf8Sequence_s]

theorem f64FromParts_s {cfg : Cfg} {pos : Bool} {sig : Nat} {e : Int} :
    Sim (f64FromParts cfg pos sig e) (f64FromParts cfg pos sig e) := by
  unfold f64FromParts
  sim []

theorem skipDigits_eq : skipDigits = (scan digitsLen >>= fun _ => peek >>= fun _ => pure ()) := rfl

theorem skipDigits_s : Sim skipDigits skipDigits := by
  rw [skipDigits_eq]
  sim [scan_s digits_scanner]

theorem parseExponentOverflow_s {pos : Bool} {sig : Nat} {posExp : Bool} :
    Sim (parseExponentOverflow pos sig posExp) (parseExponentOverflow pos sig posExp) := by
  unfold parseExponentOverflow
  sim [skipDigits_s]

theorem exponentLoop_s {cfg : Cfg} {pos : Bool} {sig : Nat} {startExp : Int} {posExp : Bool}
    {f f' exp : Nat} (h : f ≤ f') :
    Sim (exponentLoop cfg pos sig startExp posExp f exp)
      (exponentLoop cfg pos sig startExp posExp f' exp) := by
  induction f generalizing f' exp with
  | zero => exact Sim.fuel0 rfl
  | succ f ih =>
    obtain ⟨g, rfl⟩ : ∃ g, f' = g + 1 := ⟨f' - 1, by omega⟩
    unfold exponentLoop
    sim [peekOrNull_s, parseExponentOverflow_s, f64FromParts_s, ih]

theorem parseExponent_s {cfg : Cfg} {f f' : Nat} {pos : Bool} {sig : Nat} {startExp : Int}
    (h : f ≤ f') :
    Sim (parseExponent cfg f pos sig startExp) (parseExponent cfg f' pos sig startExp) := by
  unfold parseExponent
  sim [peekOrNull_s, exponentLoop_s]

theorem decimalLoop_s {f f' sig : Nat} {exp : Int} {zeros : Nat} {any : Bool} (h : f ≤ f') :
    Sim (decimalLoop f sig exp zeros any) (decimalLoop f' sig exp zeros any) := by
  induction f generalizing f' sig exp zeros any with
  | zero => exact Sim.fuel0 rfl
  | succ f ih =>
    obtain ⟨g, rfl⟩ : ∃ g, f' = g + 1 := ⟨f' - 1, by omega⟩
    unfold decimalLoop
    sim [peekOrNull_s, skipDigits_s, ih]

theorem parseDecimal_s {cfg : Cfg} {f f' : Nat} {pos : Bool} {sig : Nat} {exp : Int} (h : f ≤ f') :
    Sim (parseDecimal cfg f pos sig exp) (parseDecimal cfg f' pos sig exp) := by
  unfold parseDecimal
  sim [peekOrNull_s, decimalLoop_s, parseExponent_s, f64FromParts_s]

theorem parseLongInteger_s {cfg : Cfg} {radix : Nat} {pos : Bool} {sig f f' exp : Nat} (h : f ≤ f') :
    Sim (parseLongInteger cfg radix pos sig f exp) (parseLongInteger cfg radix pos sig f' exp) := by
  induction f generalizing f' exp with
  | zero => exact Sim.fuel0 rfl
  | succ f ih =>
    obtain ⟨g, rfl⟩ : ∃ g, f' = g + 1 := ⟨f' - 1, by omega⟩
    unfold parseLongInteger
    generalize (2 : Nat) ^ 1024 = big
    sim [peekOrNull_s, parseDecimal_s, parseExponent_s, f64FromParts_s, ih]

theorem parseNumTail_s {cfg : Cfg} {f f' radix : Nat} {pos : Bool} {sig : Nat} (h : f ≤ f') :
    Sim (parseNumTail cfg f radix pos sig) (parseNumTail cfg f' radix pos sig) := by
  unfold parseNumTail
  sim [peekOrNull_s, parseDecimal_s, parseExponent_s]

theorem numLoop_s {cfg : Cfg} {radix : Nat} {pos : Bool} {f f' res : Nat} (h : f ≤ f') :
    Sim (numLoop cfg radix pos f res) (numLoop cfg radix pos f' res) := by
  induction f generalizing f' res with
  | zero => exact Sim.fuel0 rfl
  | succ f ih =>
    obtain ⟨g, rfl⟩ : ∃ g, f' = g + 1 := ⟨f' - 1, by omega⟩
    unfold numLoop
    sim [peekOrNull_s, parseNumTail_s, parseLongInteger_s, ih]

theorem parseNumLiteral_s {cfg : Cfg} {f f' radix : Nat} {pos : Bool} (h : f ≤ f') :
    Sim (parseNumLiteral cfg f radix pos) (parseNumLiteral cfg f' radix pos) := by
  unfold parseNumLiteral
  sim [numLoop_s]

theorem parseRadixLiteral_s {cfg : Cfg} {f f' radix : Nat} (h : f ≤ f') :
    Sim (parseRadixLiteral cfg f radix) (parseRadixLiteral cfg f' radix) := by
  unfold parseRadixLiteral
  sim [peekOrNull_s, parseNumLiteral_s]

theorem expectNumberEnd_s {n : Number} : Sim (expectNumberEnd n) (expectNumberEnd n) := by
  unfold expectNumberEnd
  sim []

theorem parseNumToken_s {cfg : Cfg} {f f' : Nat} {pos : Bool} (h : f ≤ f') :
    Sim (parseNumToken cfg f pos) (parseNumToken cfg f' pos) := by
  unfold parseNumToken
  sim [parseNumLiteral_s, expectNumberEnd_s]

theorem parseRadixToken_s {cfg : Cfg} {f f' radix : Nat} (h : f ≤ f') :
    Sim (parseRadixToken cfg f radix) (parseRadixToken cfg f' radix) := by
  unfold parseRadixToken
  sim [parseRadixLiteral_s, expectNumberEnd_s]

theorem parseNumber_s {cfg : Cfg} {f f' : Nat} (h : f ≤ f') :
    Sim (parseNumber cfg f) (parseNumber cfg f') := by
  unfold parseNumber
  sim [peekOrNull_s, nextOrNull_s, parseRadixLiteral_s]

theorem expectIdent_s {cs : List UInt8} : Sim (expectIdent cs) (expectIdent cs) := by
  induction cs with
  | nil => unfold expectIdent; sim []
  | cons c cs ih => unfold expectIdent; sim [ih]

theorem parseSymbolBytes_eq (scratch : List UInt8) : parseSymbolBytes scratch =
    (getMode >>= fun mode => scan (symLen mode) >>= fun tk => peek >>= fun nxt =>
      if (scratch ++ tk) == [46] then errAt (invalidDot nxt.isNone)
      else if mode == .str then pure (scratch ++ tk)
      else if Utf8.valid (scratch ++ tk) then pure (scratch ++ tk)
      else if Utf8.incomplete (scratch ++ tk) && nxt.isNone then errAt .eofValue
      else errAt .invalidUnicodeCodePoint) := rfl

theorem parseSymbolBytes_s {scratch : List UInt8} :
    Sim (parseSymbolBytes scratch) (parseSymbolBytes scratch) := by
  rw [parseSymbolBytes_eq]
  sim [scan_s (symLen_scanner _)]

theorem parseSignDotSymbol_s {cfg : Cfg} {pfx : List UInt8} :
    Sim (parseSignDotSymbol cfg pfx) (parseSignDotSymbol cfg pfx) := by
  unfold parseSignDotSymbol
  sim [peekOrNull_s, parseSymbolBytes_s]

theorem parseSignToken_s {cfg : Cfg} {f f' : Nat} {sign : UInt8} {pos : Bool} (h : f ≤ f') :
    Sim (parseSignToken cfg f sign pos) (parseSignToken cfg f' sign pos) := by
  unfold parseSignToken
  sim [peekOrNull_s, parseSymbolBytes_s, parseSignDotSymbol_s, parseNumToken_s]

/-- the last arm of `parse_token`: report at `peek_position()`, skip the offending byte -/
def badByte : P Token := do
  let s ← (fun s => Res.ok s s : P St)
  let pp := s.rd.peekPosition
  discard
  (fun s' => Res.err (.syntax .expectedSomeValue pp.line pp.col) s' : P Token)

theorem badByte_eq (s : St) : badByte s =
    match s.rd.rest with
    | _ :: _ => .err (.syntax .expectedSomeValue s.rd.peekPosition.line s.rd.peekPosition.col)
        { s with rd := s.rd.consume 1 }
    | [] => .panic .discardAtEof := by
  show P.bind _ _ s = _
  simp only [P.bind, discard]
  cases s.rd.rest <;> rfl

theorem badByte_s : Sim badByte badByte := by
  intro s q
  rw [badByte_eq s, badByte_eq (ext q s)]
  cases hr : s.rd.rest with
  | nil => trivial
  | cons b t =>
    have hne : s.rd.rest ≠ [] := by simp [hr]
    refine ⟨by simp [Progress.consume_rest, hr], fun _ => ?_⟩
    simp only [ext_rest, hr, List.cons_append]
    rw [ext_consume q s 1 (by simp [hr]), peekPosition_ext q s hne]

theorem parseToken_s {cfg : Cfg} {f f' : Nat} {pk : UInt8} (h : f ≤ f') :
    Sim (parseToken cfg f pk) (parseToken cfg f' pk) := by
  unfold parseToken
  sim [peekOrNull_s, expectIdent_s, parseSymbolBytes_s, parseRadixToken_s, parseR6rsChar_s,
    parseSignToken_s, parseNumToken_s, parseR6rsStr_s, parseElispStr_s, parseElispChar_s,
    decodeUtf8Sequence_s, badByte_s]

/-! ### Parse.lean -/

theorem endSeq_s {close : UInt8} : Sim (endSeq close) (endSeq close) := by
  unfold endSeq
  sim [parseWhitespace_s]

theorem byteListLoop_s {cfg : Cfg} {close : UInt8} {f f' : Nat} {acc : List UInt8} (h : f ≤ f') :
    Sim (byteListLoop cfg close f acc) (byteListLoop cfg close f' acc) := by
  induction f generalizing f' acc with
  | zero => exact Sim.fuel0 rfl
  | succ f ih =>
    obtain ⟨g, rfl⟩ : ∃ g, f' = g + 1 := ⟨f' - 1, by omega⟩
    unfold byteListLoop
    sim [parseWhitespace_s, parseNumber_s, expectNumberEnd_s, ih]

theorem parseByteList_s {cfg : Cfg} {close : UInt8} {f f' : Nat} (h : f ≤ f') :
    Sim (parseByteList cfg f close) (parseByteList cfg f' close) := by
  unfold parseByteList
  sim [parseWhitespace_s, byteListLoop_s]

theorem value_ss (cfg : Cfg) : ∀ f f' : Nat, f ≤ f' →
    Sim (nextValue cfg f) (nextValue cfg f') ∧
    (∀ term acc, Sim (parseList cfg f term acc) (parseList cfg f' term acc)) ∧
    (∀ term acc, Sim (parseVector cfg f term acc) (parseVector cfg f' term acc)) := by
  intro f
  induction f with
  | zero => intro f' _; exact ⟨Sim.fuel0 rfl, fun _ _ => Sim.fuel0 rfl, fun _ _ => Sim.fuel0 rfl⟩
  | succ f ih =>
    intro f' h
    obtain ⟨g, rfl⟩ : ∃ g, f' = g + 1 := ⟨f' - 1, by omega⟩
    have ih' := ih g (by omega)
    refine ⟨?_, ?_, ?_⟩
    · unfold nextValue
      refine Sim.bind parseWhitespace_s fun o => ?_
      cases o with
      | none => exact Sim.pure
      | some pk =>
        dsimp only
        refine Sim.bind_tokenFuel fun n n' hn => ?_
        refine Sim.bind (parseToken_s hn) fun tok => ?_
        cases tok <;> dsimp only <;>
          sim [parseByteList_s, ih'.1, ih'.2.1 _ _, ih'.2.2 _ _, endSeq_s]
    · intro term acc
      unfold parseList
      sim [parseWhitespace_s, peekOrNull_s, parseSymbolBytes_s, ih'.1, ih'.2.1 _ _]
    · intro term acc
      unfold parseVector
      sim [parseWhitespace_s, ih'.1, ih'.2.2 _ _]

theorem datum_ss (cfg : Cfg) : ∀ f f' : Nat, f ≤ f' →
    Sim (nextDatum cfg f) (nextDatum cfg f') ∧
    (∀ term acc ms, Sim (parseListMeta cfg f term acc ms) (parseListMeta cfg f' term acc ms)) ∧
    (∀ term acc ms, Sim (parseVectorMeta cfg f term acc ms) (parseVectorMeta cfg f' term acc ms)) := by
  intro f
  induction f with
  | zero =>
    intro f' _
    exact ⟨Sim.fuel0 rfl, fun _ _ _ => Sim.fuel0 rfl, fun _ _ _ => Sim.fuel0 rfl⟩
  | succ f ih =>
    intro f' h
    obtain ⟨g, rfl⟩ : ∃ g, f' = g + 1 := ⟨f' - 1, by omega⟩
    have ih' := ih g (by omega)
    refine ⟨?_, ?_, ?_⟩
    · unfold nextDatum
      refine Sim.bind parseWhitespace_s fun o => ?_
      cases o with
      | none => exact Sim.pure
      | some pk =>
        dsimp only
        refine Sim.bind getPos_s fun start => ?_
        refine Sim.bind_tokenFuel fun n n' hn => ?_
        refine Sim.bind (parseToken_s hn) fun tok => ?_
        cases tok <;> dsimp only <;>
          sim [parseByteList_s, ih'.1, ih'.2.1 _ _ _, ih'.2.2 _ _ _, endSeq_s]
    · intro term acc ms
      unfold parseListMeta
      sim [parseWhitespace_s, peekOrNull_s, parseSymbolBytes_s, ih'.1, ih'.2.1 _ _ _]
    · intro term acc ms
      unfold parseVectorMeta
      sim [parseWhitespace_s, ih'.1, ih'.2.2 _ _ _]

theorem nextValue_s {cfg : Cfg} {f f' : Nat} (h : f ≤ f') : Sim (nextValue cfg f) (nextValue cfg f') :=
  (value_ss cfg f f' h).1

theorem nextDatum_s {cfg : Cfg} {f f' : Nat} (h : f ≤ f') : Sim (nextDatum cfg f) (nextDatum cfg f') :=
  (datum_ss cfg f f' h).1

theorem nextValueTop_s {cfg : Cfg} : Sim (nextValueTop cfg) (nextValueTop cfg) := by
  unfold nextValueTop
  sim [nextValue_s]

theorem nextDatumTop_s {cfg : Cfg} : Sim (nextDatumTop cfg) (nextDatumTop cfg) := by
  unfold nextDatumTop
  sim [nextDatum_s]

theorem expectValue_s {cfg : Cfg} : Sim (expectValue cfg) (expectValue cfg) := by
  unfold expectValue
  sim [nextValueTop_s]

theorem expectDatum_s {cfg : Cfg} : Sim (expectDatum cfg) (expectDatum cfg) := by
  unfold expectDatum
  sim [nextDatumTop_s]

theorem expectEnd_s : Sim expectEnd expectEnd := by
  unfold expectEnd
  sim [parseWhitespace_s]

theorem fromTrait_s {cfg : Cfg} : Sim (fromTrait cfg) (fromTrait cfg) := by
  unfold fromTrait
  sim [expectValue_s, expectEnd_s]

theorem fromTraitDatum_s {cfg : Cfg} : Sim (fromTraitDatum cfg) (fromTraitDatum cfg) := by
  unfold fromTraitDatum
  sim [expectDatum_s, expectEnd_s]

/-- reading a `Sim` statement off for an error result -/
theorem Sim.err {α : Type} {m m' : P α} (h : Sim m m') {s s' : St} {e : Err} (q : List UInt8)
    (hr : m s = .err e s') (hne : s'.rd.rest ≠ []) : m' (ext q s) = .err e (ext q s') := by
  have := h s q
  rw [hr] at this
  exact this.2 hne

/-- reading a `Sim` statement off for a successful result -/
theorem Sim.ok {α : Type} {m m' : P α} (h : Sim m m') {s s' : St} {a : α} (q : List UInt8)
    (hr : m s = .ok a s') (hne : s'.rd.rest ≠ []) : m' (ext q s) = .ok a (ext q s') := by
  have := h s q
  rw [hr] at this
  exact this.2 hne

theorem ext_initSt (mode : Mode) (p q : List UInt8) (faulty : Bool) :
    ext q (initSt mode p faulty) = initSt mode (p ++ q) faulty := rfl

end PrefixDet
end Parse
end Lexpr
