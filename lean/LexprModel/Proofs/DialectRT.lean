/-
  DialectRT — token-level round trip of atoms for every compatible printer / parser option pair.

  `AtomRT.lean` treats the default printer options against the default parser options.  Here the
  printer options `p` and the parser options `cfg.opts` are arbitrary, related only by
  `Spec.Compatible p cfg.opts = true`; the text `atomTextP p ryu v` the customised formatter writes
  for the atom `v`, followed by a token-ending context, is lexed back to the token of
  `Spec.fold p cfg.opts v`.  All three sources (slice, str, stream) are covered; result states are
  given exactly as `adv s n p` like in `AtomRT.lean`.
-/
import LexprModel.Proofs.AtomRT
import LexprModel.Spec.Dialect
namespace Lexpr
namespace Parse
open Spec

/-- The text `Printer::print` writes for an atom with the printer options `p`. -/
def atomTextP (p : Print.Options) (ryu : Nat → List UInt8) (v : Value) : List UInt8 :=
  Print.flatten (Print.atomEmits p ryu v)

/-! ## Names: the arms of `parse_token` that end in `parse_symbol` -/

/-- Closed form of what a letter-initial name reads as (all option sets). -/
def letterTok (o : Options) (name : List UInt8) : Token :=
  if o.kwPostfix = true ∧ name.getLast? = some 58 then .keyword name.dropLast
  else if o.nil ≠ .default ∧ name = asc "nil" then
    (match o.nil with | .emptyList => .null | _ => .nil)
  else if o.t ≠ .default ∧ name = asc "t" then .bool true
  else .symbol name

theorem alpha_facts2 : ∀ b : UInt8, isAsciiAlpha b = true →
    (b == 35) = false ∧ (b == 45) = false ∧ (b == 43) = false ∧ isDigit b = false ∧
    (b == 34) = false ∧ (b == 40) = false ∧ (b == 91) = false ∧ (b == 58) = false ∧
    b ≠ 46 := by
  apply forall_u8; decide +kernel

theorem letter_arm (cfg : Cfg) (fuel : Nat) (pk : UInt8) (tl rest : List UInt8) (s : St)
    (hrest : s.rd.rest = (pk :: tl) ++ rest) (hF : Follow rest)
    (hf : rest = [] → s.rd.faulty = false)
    (hn : ∀ b ∈ pk :: tl, symTermSlice b = false)
    (hv : s.rd.mode = .str ∨ Utf8.valid (pk :: tl) = true)
    (hl : isAsciiAlpha pk = true) :
    parseToken cfg fuel pk s =
      .ok (letterTok cfg.opts (pk :: tl)) (adv s (tl.length + 1) (endPeek s rest)) := by
  obtain ⟨h35, h45, h43, hd, h34, h40, h91, h58, h46⟩ := alpha_facts2 pk hl
  have hdot : [] ++ (pk :: tl) ≠ [46] := by
    intro h
    simp only [List.nil_append, List.cons.injEq] at h
    exact h46 h.1
  unfold parseToken
  simp only [h35, h45, h43, hd, h34, h40, h91, h58, hl, Bool.false_eq_true, ↓reduceIte]
  simp only [bind_apply,
    parseSymbolBytes_ok [] (pk :: tl) rest s hrest hF hf hn hdot (by simpa using hv)]
  simp only [List.nil_append, letterTok, List.length_cons]
  generalize pk :: tl = name
  cases hn : cfg.opts.nil <;> cases htt : cfg.opts.t <;> cases hk : cfg.opts.kwPostfix <;>
    by_cases h1 : name.getLast? = some 58 <;> by_cases h2 : name = asc "nil" <;>
    by_cases h3 : name = asc "t" <;> simp [h1, h2, h3] <;> (split <;> rfl)

/-! ### the `:` arm -/

theorem colon_prefix_arm (cfg : Cfg) (fuel : Nat) (tl rest : List UInt8) (s : St)
    (hk : cfg.opts.kwPrefix = true)
    (hrest : s.rd.rest = 58 :: (tl ++ rest)) (hF : Follow rest)
    (hf : rest = [] → s.rd.faulty = false)
    (hn : ∀ b ∈ tl, symTermSlice b = false) (hdot : tl ≠ [46])
    (hv : s.rd.mode = .str ∨ Utf8.valid tl = true) :
    parseToken cfg fuel 58 s = .ok (.keyword tl) (adv s (tl.length + 1) (endPeek s rest)) := by
  have h := parseSymbolBytes_ok [] tl rest (adv s 1 false) (by simp [hrest]) hF (by simpa using hf)
    hn (by simpa using hdot) (by simpa using hv)
  unfold parseToken
  simp [hk, isDigit, discard_eq, hrest]
  rw [h]; simp [Nat.add_comm]

theorem colon_noprefix_arm (cfg : Cfg) (fuel : Nat) (tl rest : List UInt8) (s : St)
    (hk : cfg.opts.kwPrefix = false)
    (hrest : s.rd.rest = (58 :: tl) ++ rest) (hF : Follow rest)
    (hf : rest = [] → s.rd.faulty = false)
    (hn : ∀ b ∈ tl, symTermSlice b = false)
    (hv : s.rd.mode = .str ∨ Utf8.valid (58 :: tl) = true) :
    parseToken cfg fuel 58 s =
      .ok (symbolToken cfg.opts (58 :: tl)) (adv s (tl.length + 1) (endPeek s rest)) := by
  have hn' : ∀ b ∈ 58 :: tl, symTermSlice b = false := by
    intro b hb
    rcases List.mem_cons.mp hb with rfl | hb
    · decide
    · exact hn b hb
  have h := parseSymbolBytes_ok [] (58 :: tl) rest s hrest hF hf hn' (by simp) (by simpa using hv)
  unfold parseToken
  simp [hk, isDigit]
  rw [h]; simp

/-! ### the `!$%&*./<=>?@^_~` arm -/

theorem ext_facts2 : ∀ b : UInt8, isSymbolExtended b = true →
    (b == 35) = false ∧ (b == 45) = false ∧ (b == 43) = false ∧ isDigit b = false ∧
    (b == 34) = false ∧ (b == 40) = false ∧ (b == 91) = false ∧ isAsciiAlpha b = false ∧
    (b == 39) = false ∧ (b == 96) = false ∧ (b == 44) = false ∧ ¬ (b > 127) := by
  apply forall_u8; decide +kernel

theorem extended_arm (cfg : Cfg) (fuel : Nat) (pk : UInt8) (tl rest : List UInt8) (s : St)
    (he : isSymbolExtended pk = true) (h58 : pk ≠ 58)
    (hq : pk = 63 → cfg.opts.char ≠ .elisp)
    (hrest : s.rd.rest = (pk :: tl) ++ rest) (hF : Follow rest)
    (hf : rest = [] → s.rd.faulty = false)
    (hn : ∀ b ∈ pk :: tl, symTermSlice b = false) (hdot : pk :: tl ≠ [46])
    (hv : s.rd.mode = .str ∨ Utf8.valid (pk :: tl) = true) :
    parseToken cfg fuel pk s =
      .ok (symbolToken cfg.opts (pk :: tl)) (adv s (tl.length + 1) (endPeek s rest)) := by
  obtain ⟨h35, h45, h43, hd, h34, h40, h91, ha, h39, h96, h44, h127⟩ := ext_facts2 pk he
  have hq' : (pk == 63 && cfg.opts.char == CharSyntax.elisp) = false := by
    by_cases h : pk = 63
    · have := hq h
      simp [h, this]
    · simp [h]
  unfold parseToken
  simp only [h35, h45, h43, hd, h34, h40, h91, ha, h39, h96, h44, h127, hq', he, h58,
    beq_iff_eq, Bool.false_eq_true, ↓reduceIte]
  simp only [bind_apply,
    parseSymbolBytes_ok [] (pk :: tl) rest s hrest hF hf hn (by simpa using hdot) (by simpa using hv)]
  simp

/-! ### the `+` / `-` arms -/

theorem sign_arm (cfg : Cfg) (fuel : Nat) (sign : UInt8) (pos : Bool)
    (tl rest : List UInt8) (s : St) (hsign : sign ≠ 46)
    (hrest : s.rd.rest = sign :: (tl ++ rest)) (hF : Follow rest)
    (hf : rest = [] → s.rd.faulty = false)
    (hn : ∀ b ∈ tl, symTermSlice b = false)
    (hs : signTailOk tl = true)
    (hv : s.rd.mode = .str ∨ Utf8.valid (sign :: tl) = true) :
    parseSignToken cfg fuel sign pos s =
      .ok (symbolToken cfg.opts (sign :: tl)) (adv s (tl.length + 1) (endPeek s rest)) := by
  unfold parseSignToken
  have hf' : tl ++ rest = [] → (adv s 1 false).rd.faulty = false := by
    intro h; simp at h; simpa using hf h.2
  simp only [bind_apply, discard_eq, hrest,
    peekOrNull_at (adv s 1 false) (tl ++ rest) (by simp [hrest]) hf']
  generalize hnxt : (tl ++ rest).head?.getD 0 = nxt
  by_cases h1 : (nxt == 0 || isDelimiter nxt || isSignSubsequent nxt) = true
  · simp only [h1, if_true, bind_apply]
    have h := parseSymbolBytes_ok [sign] tl rest (adv (adv s 1 false) 0
      ((adv s 1 false).rd.peeked || endPeek (adv s 1 false) (tl ++ rest))) (by simp [hrest]) hF
      (by simpa using hf) hn (by cases tl <;> simp [hsign]) (by simpa using hv)
    rw [h]
    simp [Nat.add_comm]
  · cases tl with
    | nil =>
      exfalso; apply h1
      have := (follow_facts _ hF.headD).1
      simp only [List.nil_append] at hnxt
      rw [hnxt] at this
      simp [this]
    | cons c tl' =>
      simp only [List.cons_append, List.head?_cons, Option.getD_some] at hnxt
      subst hnxt
      simp only [signTailOk, Bool.or_eq_true, Bool.and_eq_true] at hs
      have hs' : c = 46 ∧ dotTailOk tl' = true := by
        rcases hs with hs | hs
        · simp only [Bool.or_eq_true] at h1; exact absurd hs h1
        · simpa using hs
      obtain ⟨hc, hd⟩ := hs'
      subst hc
      simp only [h1]
      simp only [Bool.false_eq_true, if_false, beq_self_eq_true, if_true]
      unfold parseSignDotSymbol
      simp only [bind_apply, discard_eq, adv_rest, hrest, List.drop_succ_cons, List.drop_zero,
        List.cons_append, adv_adv]
      have hf'' : tl' ++ rest = [] → s.rd.faulty = false := by
        intro h; simp at h; exact hf h.2
      rw [peekOrNull_at _ (tl' ++ rest) (by simp [hrest]) (by simpa using hf'')]
      have hnd : isDigit ((tl' ++ rest).head?.getD 0) = false := by
        cases tl' with
        | nil => simpa using (follow_facts _ hF.headD).2.1
        | cons d tl'' => simpa [dotTailOk] using hd
      simp only [hnd, Bool.false_eq_true, if_false, bind_apply]
      have h := parseSymbolBytes_ok [sign, 46] tl' rest (adv (adv s (1 + 0 + 1) false) 0
        ((adv s (1 + 0 + 1) false).rd.peeked || endPeek (adv s (1 + 0 + 1) false) (tl' ++ rest)))
        (by simp [hrest]) hF
        (by simpa using hf) (fun b hb => hn b (by simp [hb])) (by simp) (by simpa using hv)
      rw [h]
      simp
      congr 1; omega

theorem parseToken_plus (cfg : Cfg) (fuel : Nat) :
    parseToken cfg fuel 43 = parseSignToken cfg fuel 43 true := by
  unfold parseToken; simp

theorem parseToken_minus (cfg : Cfg) (fuel : Nat) :
    parseToken cfg fuel 45 = parseSignToken cfg fuel 45 false := by
  unfold parseToken; simp

/-! ### the non-ASCII arm -/

theorem unicode_arm (cfg : Cfg) (fuel : Nat) (pk : UInt8) (tl rest : List UInt8) (s : St)
    (c : Nat) (tl' : List UInt8) (hpk : pk > 127)
    (hdec : Utf8.decodeFirst (pk :: tl) = some (c, tl'))
    (halpha : cfg.isAlphabetic c = true)
    (hn : ∀ b ∈ tl', symTermSlice b = false)
    (hv : Utf8.valid (pk :: tl) = true)
    (hrest : s.rd.rest = (pk :: tl) ++ rest) (hF : Follow rest)
    (hf : rest = [] → s.rd.faulty = false) :
    parseToken cfg fuel pk s =
      .ok (symbolToken cfg.opts (pk :: tl)) (adv s (tl.length + 1) (endPeek s rest)) := by
  obtain ⟨g1, g2, g3, g4, g5, g6, g7, g8⟩ := hi_facts1 pk hpk
  obtain ⟨g9, g10, g11, g12, g13, g14, g15⟩ := hi_facts2 pk hpk
  obtain ⟨cont, rfl, hlen, hd⟩ := decodeFirst_split pk tl c tl' g14 hdec
  have hvp : Utf8.valid (pk :: cont) = true := valid_prefix pk cont tl' g14 hlen hv
  have hdisp : parseToken cfg fuel pk = (do
      discard
      let (c, bytes) ← decodeUtf8Sequence pk
      if !cfg.isAlphabetic c then peekErr .expectedSomeValue
      else do
        let name ← parseSymbolBytes bytes
        pure (symbolToken cfg.opts name)) := by
    unfold parseToken
    simp [g1, g2, g3, g4, g5, g6, g7, g8, g9, g10, g11, g12, g13, hpk]
  rw [hdisp]
  simp only [bind_apply, discard_eq, hrest, List.cons_append]
  rw [decodeUtf8Sequence_ok pk cont (tl' ++ rest) c (adv s 1 false) hlen (by simp [hrest]) (by simp)
    hvp hd]
  simp only [halpha, Bool.not_true, Bool.false_eq_true, if_false, bind_apply, adv_adv]
  rw [parseSymbolBytes_ok (pk :: cont) tl' rest _
    (by rw [adv_rest]; exact drop_add_left (by simp [hrest])) hF (by simpa using hf) hn
    (by intro h; simp at h; exact g15 h.1) (Or.inr (by simpa using hv))]
  simp only [pure_apply, adv_adv, endPeek_adv, List.cons_append, List.length_append]
  rw [show 1 + cont.length + tl'.length = cont.length + tl'.length + 1 by omega]

/-! ### all name arms at once -/

/-- The texts that one of the name arms of `parse_token` reads in full: no byte is a symbol
    terminator, and the first byte is an ASCII letter; or `:` (with prefix keywords the rest must
    not be the lone dot); or one of `!$%&*./<=>?@^_~` (`?` only without Emacs Lisp characters; not
    the lone dot); or `+` / `-` starting a peculiar identifier; or a non-ASCII scalar that the
    reader classifies as alphabetic. -/
def nameShape (cfg : Cfg) : List UInt8 → Bool
  | [] => false
  | b :: tl =>
    (b :: tl).all (fun x => !symTermSlice x) &&
    (isAsciiAlpha b
      || (b == 58 && (!cfg.opts.kwPrefix || tl != [46]))
      || (isSymbolExtended b && b != 58 && !(b == 63 && cfg.opts.char == .elisp) &&
            (b :: tl) != [46])
      || ((b == 43 || b == 45) && signTailOk tl)
      || (decide (b > 127) &&
            match Utf8.decodeFirst (b :: tl) with
            | some (c, _) => cfg.isAlphabetic c
            | none => false))

/-- Closed form of the token a name-shaped text reads as. -/
def nameTok (o : Options) : List UInt8 → Token
  | [] => .symbol []
  | b :: tl =>
    if isAsciiAlpha b = true then letterTok o (b :: tl)
    else if b = 58 ∧ o.kwPrefix = true then .keyword tl
    else symbolToken o (b :: tl)

theorem valid_tail58 (tl : List UInt8) (h : Utf8.valid (58 :: tl) = true) : Utf8.valid tl = true := by
  simpa [Utf8.valid, Utf8.run, Utf8.step] using h

theorem sign_not_misc : ∀ b : UInt8, (b == 43 || b == 45) = true →
    isAsciiAlpha b = false ∧ b ≠ 58 ∧ b ≠ 46 := by
  apply forall_u8; decide +kernel

theorem hi_not_misc : ∀ b : UInt8, b > 127 → isAsciiAlpha b = false ∧ b ≠ 58 := by
  apply forall_u8; decide +kernel

/-- **name_token**: every name-shaped, valid UTF-8 text in a `Follow` context is consumed in full
    by `parse_token` and yields `nameTok` (all option sets, all sources). -/
theorem name_token (cfg : Cfg) (fuel : Nat) (pk : UInt8) (tl rest : List UInt8) (s : St)
    (hshape : nameShape cfg (pk :: tl) = true) (hv : Utf8.valid (pk :: tl) = true)
    (hrest : s.rd.rest = (pk :: tl) ++ rest) (hF : Follow rest)
    (hf : rest = [] → s.rd.faulty = false) :
    parseToken cfg fuel pk s =
      .ok (nameTok cfg.opts (pk :: tl)) (adv s (tl.length + 1) (endPeek s rest)) := by
  simp only [nameShape, Bool.and_eq_true, Bool.or_eq_true, List.all_eq_true,
    Bool.not_eq_true', bne_iff_ne, ne_eq, beq_iff_eq, decide_eq_true_eq,
    Bool.and_eq_false_iff] at hshape
  obtain ⟨hn, hcls⟩ := hshape
  have hn' : ∀ b ∈ tl, symTermSlice b = false := fun b hb => hn b (by simp [hb])
  rcases hcls with (((ha | ⟨h58, hd⟩) | ⟨⟨⟨he, h58⟩, hq⟩, hdot⟩) | ⟨hsign, hs⟩) | ⟨hhi, hal⟩
  · rw [letter_arm cfg fuel pk tl rest s hrest hF hf hn (Or.inr hv) ha]
    simp [nameTok, ha]
  · subst h58
    have hna : isAsciiAlpha 58 = false := by decide
    cases hk : cfg.opts.kwPrefix
    · rw [colon_noprefix_arm cfg fuel tl rest s hk hrest hF hf hn' (Or.inr hv)]
      simp [nameTok, hna, hk]
    · have hd' : tl ≠ [46] := by
        rcases hd with hd | hd
        · rw [hk] at hd; simp at hd
        · exact hd
      rw [colon_prefix_arm cfg fuel tl rest s hk (by simpa using hrest) hF hf hn' hd'
        (Or.inr (valid_tail58 tl hv))]
      simp [nameTok, hna, hk]
  · have hna := (ext_facts2 pk he).2.2.2.2.2.2.2.1
    have hq' : pk = 63 → cfg.opts.char ≠ .elisp := by
      intro h63 hc
      rcases hq with hq | hq
      · simp [h63] at hq
      · rw [hc] at hq; simp at hq
    rw [extended_arm cfg fuel pk tl rest s he h58 hq' hrest hF hf hn hdot (Or.inr hv)]
    simp [nameTok, hna, h58]
  · obtain ⟨hna, h58, h46⟩ := sign_not_misc pk (by simpa using hsign)
    have htok : nameTok cfg.opts (pk :: tl) = symbolToken cfg.opts (pk :: tl) := by
      simp [nameTok, hna, h58]
    rw [htok]
    rcases hsign with h | h
    · subst h
      rw [parseToken_plus]
      exact sign_arm cfg fuel 43 true tl rest s (by decide) (by simpa using hrest) hF hf hn' hs
        (Or.inr hv)
    · subst h
      rw [parseToken_minus]
      exact sign_arm cfg fuel 45 false tl rest s (by decide) (by simpa using hrest) hF hf hn' hs
        (Or.inr hv)
  · obtain ⟨hna, h58⟩ := hi_not_misc pk hhi
    have htok : nameTok cfg.opts (pk :: tl) = symbolToken cfg.opts (pk :: tl) := by
      simp [nameTok, hna, h58]
    rw [htok]
    cases hdec : Utf8.decodeFirst (pk :: tl) with
    | none => rw [hdec] at hal; simp at hal
    | some ct =>
      obtain ⟨c, tl'⟩ := ct
      rw [hdec] at hal
      obtain ⟨cont, hsplit, -, -⟩ := decodeFirst_split pk tl c tl' (hi_facts2 pk hhi).2.2.2.2.2.1 hdec
      exact unicode_arm cfg fuel pk tl rest s c tl' hhi hdec hal
        (fun b hb => hn' b (by rw [hsplit]; simp [hb])) hv hrest hF hf

/-! ### when a name reads as a symbol, and when `name:` reads as a keyword -/

theorem alpha_last (b : UInt8) (tl : List UInt8) (ha : isAsciiAlpha b = true)
    (h : (b :: tl).getLast? = some 58) : (b :: tl).length > 1 := by
  cases tl with
  | nil =>
    simp at h; subst h; simp [isAsciiAlpha] at ha
  | cons c tl => simp

theorem nameTok_symbol (o : Options) (name : List UInt8)
    (h1 : ¬ (o.kwPostfix = true ∧ name.length > 1 ∧ name.getLast? = some 58))
    (h2 : ¬ (o.kwPrefix = true ∧ name.head? = some 58))
    (h3 : ¬ (o.nil ≠ .default ∧ name = asc "nil"))
    (h4 : ¬ (o.t ≠ .default ∧ name = asc "t")) :
    nameTok o name = .symbol name := by
  cases name with
  | nil => rfl
  | cons b tl =>
    unfold nameTok
    by_cases ha : isAsciiAlpha b = true
    · have h1' : ¬ (o.kwPostfix = true ∧ (b :: tl).getLast? = some 58) :=
        fun ⟨x, y⟩ => h1 ⟨x, alpha_last b tl ha y, y⟩
      simp only [ha, if_true, letterTok, h1', h3, h4, if_false]
    · have h2' : ¬ (b = 58 ∧ o.kwPrefix = true) := fun ⟨x, y⟩ => h2 ⟨y, by simp [x]⟩
      have h1' : (o.kwPostfix && decide ((b :: tl).length > 1) &&
          ((b :: tl).getLast? == some 58)) = false := by
        apply Bool.eq_false_iff.mpr
        intro h
        simp only [Bool.and_eq_true, decide_eq_true_eq, beq_iff_eq] at h
        exact h1 ⟨h.1.1, h.1.2, h.2⟩
      simp only [ha, Bool.false_eq_true, if_false, h2', symbolToken, h1']

theorem nameTok_postfix (o : Options) (name : List UInt8) (hk : o.kwPostfix = true)
    (hne : name ≠ []) (h2 : ¬ (o.kwPrefix = true ∧ name.head? = some 58)) :
    nameTok o (name ++ [58]) = .keyword name := by
  cases name with
  | nil => exact absurd rfl hne
  | cons b tl =>
    show nameTok o (b :: (tl ++ [58])) = _
    unfold nameTok
    have hl : (b :: (tl ++ [58])).getLast? = some 58 := List.getLast?_concat (l := b :: tl)
    have hd : (b :: (tl ++ [58])).dropLast = b :: tl := List.dropLast_concat (l₁ := b :: tl)
    by_cases ha : isAsciiAlpha b = true
    · simp only [ha, if_true, letterTok, hk, hl, and_self, hd]
    · have h2' : ¬ (b = 58 ∧ o.kwPrefix = true) := fun ⟨x, y⟩ => h2 ⟨y, by simp [x]⟩
      have h1' : (o.kwPostfix && decide ((b :: (tl ++ [58])).length > 1) &&
          ((b :: (tl ++ [58])).getLast? == some 58)) = true := by
        simp [hk, hl]
      simp only [ha, Bool.false_eq_true, if_false, h2', symbolToken, h1', if_true, hd]

theorem valid_snoc58 (name : List UInt8) (h : Utf8.valid name = true) :
    Utf8.valid (name ++ [58]) = true := by
  simp only [Utf8.valid, beq_iff_eq] at h ⊢
  rw [run_append, h]
  rfl

/-! ## Characters in the Emacs Lisp syntax -/

theorem qmark_arm (cfg : Cfg) (fuel : Nat) (h : cfg.opts.char = .elisp) :
    parseToken cfg fuel 63 = (do discard; let c ← parseElispChar fuel; pure (.char c)) := by
  unfold parseToken
  simp [isDigit, isAsciiAlpha, h]

/-- bytes that `decode_elisp_char_escape` returns unchanged -/
def escPlain (b : UInt8) : Bool :=
  b != 97 && b != 98 && b != 116 && b != 110 && b != 118 && b != 102 && b != 114 && b != 101 &&
  b != 115 && b != 100 && b != 94 && b != 78 && b != 117 && b != 85 && b != 120 &&
  !(48 ≤ b && b ≤ 55) && !(decide (b > 127))

theorem elispCharEscape_plain (fuel : Nat) (b : UInt8) (r : List UInt8) (s : St)
    (hb : escPlain b = true) (hrest : s.rd.rest = b :: r) :
    decodeElispCharEscape fuel s = .ok b.toNat (adv s 1 false) := by
  simp only [escPlain, Bool.and_eq_true, bne_iff_ne, ne_eq, Bool.not_eq_true',
    decide_eq_false_iff_not] at hb
  obtain ⟨⟨⟨⟨⟨⟨⟨⟨⟨⟨⟨⟨⟨⟨⟨⟨h1, h2⟩, h3⟩, h4⟩, h5⟩, h6⟩, h7⟩, h8⟩, h9⟩, h10⟩, h11⟩, h12⟩, h13⟩, h14⟩,
    h15⟩, h16⟩, h17⟩ := hb
  unfold decodeElispCharEscape
  simp only [bind_apply, nextOrEofChar, next_eq, hrest, pure_apply, beq_iff_eq, h1, h2, h3, h4, h5,
    h6, h7, h8, h9, h10, h11, h12, h13, h14, h15, h16, h17, if_false, Bool.false_eq_true]
  by_cases h92 : b = 92
  · subst h92; simp
  · simp [h92]

theorem elisp_printable_facts : ∀ c, c < 127 → 32 ≤ c →
    (Print.elispEscapeChars.contains (UInt8.ofNat c) = true → escPlain (UInt8.ofNat c) = true) ∧
    (Print.elispEscapeChars.contains (UInt8.ofNat c) = false →
      ¬ (UInt8.ofNat c > 0x7F) ∧
      (UInt8.ofNat c == 40 || UInt8.ofNat c == 41 || UInt8.ofNat c == 91 || UInt8.ofNat c == 93 ||
        UInt8.ofNat c == 59) = false ∧ (UInt8.ofNat c == 92) = false) ∧
    (UInt8.ofNat c).toNat = c := by
  decide

theorem elispChar_plain (f c : Nat) (s : St) (rest : List UInt8) (hp : 32 ≤ c ∧ c < 127)
    (he : Print.elispEscapeChars.contains (UInt8.ofNat c) = false)
    (hrest : s.rd.rest = UInt8.ofNat c :: rest) :
    parseElispChar f s = .ok c (adv s 1 false) := by
  obtain ⟨-, p2, p3⟩ := elisp_printable_facts c hp.2 hp.1
  obtain ⟨q1, q2, q3⟩ := p2 he
  unfold parseElispChar
  simp only [bind_apply, next_eq, hrest, q1, q2, q3, if_false, Bool.false_eq_true, p3, pure_apply]

theorem elispChar_escaped (f c : Nat) (s : St) (rest : List UInt8) (hp : 32 ≤ c ∧ c < 127)
    (he : Print.elispEscapeChars.contains (UInt8.ofNat c) = true)
    (hrest : s.rd.rest = 92 :: UInt8.ofNat c :: rest) :
    parseElispChar f s = .ok c (adv s 2 false) := by
  obtain ⟨p1, -, p3⟩ := elisp_printable_facts c hp.2 hp.1
  unfold parseElispChar
  simp only [bind_apply, next_eq, hrest]
  have h92 : ¬ ((92 : UInt8) > 0x7F) := by decide
  simp only [h92, if_false]
  simp only [show ((92 : UInt8) == 40 || (92 : UInt8) == 41 || (92 : UInt8) == 91 ||
    (92 : UInt8) == 93 || (92 : UInt8) == 59) = false by decide, Bool.false_eq_true, if_false,
    beq_self_eq_true, if_true]
  rw [elispCharEscape_plain f (UInt8.ofNat c) rest (adv s 1 false) (p1 he) (by simp [hrest])]
  simp [p3]

/-! ### `?\x<hex>` -/

/-- The digit loop of `decode_elisp_hex_escape` over the hexadecimal digits of `c`. -/
theorem elispHex_digits (c : Nat) (hc : c < maxCp) :
    ∀ (f : Nat) (s : St) (rest : List UInt8), s.rd.rest = natHexLower c ++ rest →
      decodeElispHexEscape (f + (natHexLower c).length) 0 s =
        decodeElispHexEscape f c (adv s (natHexLower c).length false) := by
  induction c using Nat.strongRecOn with
  | _ c ih =>
    intro f s rest hrest
    by_cases h : c < 16
    · rw [natHexLower_lt h] at hrest ⊢
      obtain ⟨h1, -⟩ := hexDigit_facts c h
      simp only [List.length_cons, List.length_nil, Nat.zero_add]
      rw [decodeElispHexEscape]
      simp only [bind_apply, peek_eq, hrest, List.cons_append, h1,
        discard_eq, adv_rest, List.drop_zero, adv_adv]
      simp [maxCp]
    · have h16 : c % 16 < 16 := Nat.mod_lt _ (by omega)
      have hge := natHexLower_ge (Nat.not_lt.mp h)
      obtain ⟨h1, -⟩ := hexDigit_facts (c % 16) h16
      have hlen : (natHexLower c).length = (natHexLower (c / 16)).length + 1 := by simp [hge]
      have hr' : s.rd.rest = natHexLower (c / 16) ++ (hexDigitLower (c % 16) :: rest) := by
        rw [hrest, hge]; simp
      have := ih (c / 16) (by omega) (by omega) (f + 1) s _ hr'
      rw [hlen, show f + ((natHexLower (c / 16)).length + 1) =
        f + 1 + (natHexLower (c / 16)).length by omega, this]
      rw [decodeElispHexEscape]
      have hpk : (adv s (natHexLower (c / 16)).length false).rd.rest =
          hexDigitLower (c % 16) :: rest := by simp [hr']
      have hlt : ¬ (c / 16 ≥ maxCp) := by omega
      simp only [bind_apply, peek_eq, hpk,
        discard_eq, adv_rest, adv_adv, h1, hlt]
      simp [hr', Nat.div_add_mod']

theorem follow_not_hex : ∀ b : UInt8, isFollow b = true → hexVal b = none ∧ octVal b = none := by
  apply forall_u8; decide +kernel

theorem elispHex_end (f c : Nat) (s : St) (rest : List UInt8)
    (h : s.rd.rest = rest) (hF : Follow rest) (hf : rest = [] → s.rd.faulty = false) :
    decodeElispHexEscape (f + 1) c s = .ok c (adv s 0 (s.rd.peeked || endPeek s rest)) := by
  rw [decodeElispHexEscape]
  simp only [bind_apply, peek_at s rest h hf]
  cases hh : rest.head? with
  | none => simp
  | some b => simp [(follow_not_hex b (hF.head b hh)).1]

theorem elispChar_hex (f c : Nat) (s : St) (rest : List UInt8) (hc : isScalar c = true)
    (hrest : s.rd.rest = 92 :: 120 :: (natHexLower c ++ rest))
    (hF : Follow rest) (hf : rest = [] → s.rd.faulty = false) :
    parseElispChar (f + 1 + (natHexLower c).length) s =
      .ok c (adv s (2 + (natHexLower c).length) (endPeek s rest)) := by
  unfold parseElispChar
  simp only [bind_apply, next_eq, hrest]
  have h92 : ¬ ((92 : UInt8) > 0x7F) := by decide
  simp only [h92, if_false]
  simp only [show ((92 : UInt8) == 40 || (92 : UInt8) == 41 || (92 : UInt8) == 91 ||
    (92 : UInt8) == 93 || (92 : UInt8) == 59) = false by decide, Bool.false_eq_true, if_false,
    beq_self_eq_true, if_true]
  unfold decodeElispCharEscape
  simp only [bind_apply, nextOrEofChar, next_eq, adv_rest, hrest, List.drop_succ_cons,
    List.drop_zero, pure_apply, adv_adv]
  simp only [show ((120 : UInt8) == 97) = false by decide, show ((120 : UInt8) == 98) = false by decide,
    show ((120 : UInt8) == 116) = false by decide, show ((120 : UInt8) == 110) = false by decide,
    show ((120 : UInt8) == 118) = false by decide, show ((120 : UInt8) == 102) = false by decide,
    show ((120 : UInt8) == 114) = false by decide, show ((120 : UInt8) == 101) = false by decide,
    show ((120 : UInt8) == 115) = false by decide, show ((120 : UInt8) == 92) = false by decide,
    show ((120 : UInt8) == 100) = false by decide, show ((120 : UInt8) == 94) = false by decide,
    show ((120 : UInt8) == 78) = false by decide, show ((120 : UInt8) == 117) = false by decide,
    show ((120 : UInt8) == 85) = false by decide, Bool.false_eq_true, if_false,
    beq_self_eq_true, if_true, bind_apply]
  rw [elispHex_digits c (isScalar_lt hc) (f + 1) _ rest (by simp [hrest])]
  rw [elispHex_end f c _ rest (by rw [adv_adv, adv_rest]; exact drop_add_left (by simp [hrest]))
    hF (by simpa using hf)]
  have hsur : Utf8.isSurrogate c = false := by
    unfold isScalar at hc
    simp only [Bool.and_eq_true, Bool.not_eq_true'] at hc
    exact hc.2
  simp [asEscapedChar, asChar, hc, hsur]

theorem elispChar_aux (cfg : Cfg) (fuel : Nat) (c : Nat) (rest : List UInt8) (s : St)
    (ho : cfg.opts.char = .elisp) (hc : isScalar c = true)
    (hrest : s.rd.rest = Print.elispChar c ++ rest)
    (hfuel : (Print.elispChar c).length ≤ fuel + 2)
    (hF : Follow rest) (hf : rest = [] → s.rd.faulty = false) :
    ∃ p, parseToken cfg fuel 63 s = .ok (.char c) (adv s (Print.elispChar c).length p) := by
  rw [qmark_arm cfg fuel ho]
  unfold Print.elispChar at hrest hfuel ⊢
  by_cases hp : 32 ≤ c ∧ c < 127
  · rw [if_pos hp] at hrest hfuel ⊢
    cases he : Print.elispEscapeChars.contains (UInt8.ofNat c)
    · simp only [he, Bool.false_eq_true, if_false] at hrest ⊢
      have hrest' : s.rd.rest = 63 :: UInt8.ofNat c :: rest := by rw [hrest]; rfl
      refine ⟨false, ?_⟩
      simp only [bind_apply, discard_eq, hrest']
      rw [elispChar_plain fuel c _ rest hp he (by simp [hrest'])]
      simp
    · simp only [he, if_true] at hrest ⊢
      have hrest' : s.rd.rest = 63 :: 92 :: UInt8.ofNat c :: rest := by rw [hrest]; rfl
      refine ⟨false, ?_⟩
      simp only [bind_apply, discard_eq, hrest']
      rw [elispChar_escaped fuel c _ rest hp he (by simp [hrest'])]
      simp
  · rw [if_neg hp] at hrest hfuel ⊢
    have hrest' : s.rd.rest = 63 :: 92 :: 120 :: (natHexLower c ++ rest) := by rw [hrest]; rfl
    have hl : (asc "?\\x" ++ natHexLower c).length = (natHexLower c).length + 3 := by
      simp [asc]
    rw [hl] at hfuel ⊢
    obtain ⟨f, rfl⟩ : ∃ f, fuel = f + 1 + (natHexLower c).length :=
      ⟨fuel - 1 - (natHexLower c).length, by omega⟩
    refine ⟨endPeek s rest, ?_⟩
    simp only [bind_apply, discard_eq, hrest']
    rw [elispChar_hex f c _ rest hc (by simp [hrest']) hF (by simpa using hf)]
    simp only [pure_apply, adv_adv, endPeek_adv]
    rw [show 1 + (2 + (natHexLower c).length) = (natHexLower c).length + 3 by omega]

/-! ## Strings -/

theorem string_r6rs_aux (cfg : Cfg) (fuel : Nat) (bytes rest : List UInt8) (s : St)
    (ho : cfg.opts.string = .r6rs)
    (hrest : s.rd.rest = 34 :: (Print.escapeStr .r6rs bytes ++ 34 :: rest))
    (hfuel : (Print.escapeStr .r6rs bytes).length + 1 ≤ fuel)
    (hv : s.rd.mode = .str ∨ Utf8.valid bytes = true) :
    parseToken cfg fuel 34 s =
      .ok (.string bytes) (adv s ((Print.escapeStr .r6rs bytes).length + 2) false) := by
  have hd : parseToken cfg fuel 34 = (do discard; let s ← parseR6rsStr fuel []; pure (.string s)) := by
    unfold parseToken; simp [ho, isDigit]
  rw [hd]
  simp only [bind_apply, discard_eq, hrest]
  rw [r6rsStr_loop bytes [] fuel _ rest (by simp [hrest]) hfuel]
  simp only [finishStr, bind_apply, getMode_eq, adv_mode, List.nil_append, adv_adv]
  rcases hv with hm | hv
  · simp [hm]; congr 1; omega
  · simp [hv]; congr 1; omega

theorem escTexts2 : ch 'u' = 117 ∧ ch '0' = 48 := by decide

open Print in
theorem escClass_inv5 : ∀ b : UInt8, escClass b = .none → b ≠ 34 ∧ b ≠ 92 := by
  apply forall_u8; decide +kernel

open Print in
/-- One source byte: `parse_elisp_str` reads back what `format_escaped_str_contents` wrote with
    the Emacs Lisp escapes; the unibyte flag stays clear. -/
theorem elispStr_step (b : UInt8) (f : Nat) (acc r : List UInt8) (mb na : Bool) (s : St)
    (hrest : s.rd.rest = escapeText .elisp b (escClass b) ++ r) :
    ∃ mb' na', parseElispStr (f + 1) acc false mb na s =
      parseElispStr f (acc ++ [b]) false mb' na'
        (adv s (escapeText .elisp b (escClass b)).length false) := by
  obtain ⟨i1, i2, i3, i4⟩ := escClass_inv1 b
  obtain ⟨i5, i6, i7, i8⟩ := escClass_inv2 b
  obtain ⟨t1, t2, t3, t4, t5, t6, t7, t8, t9, t10⟩ := escTexts
  obtain ⟨t11, t12⟩ := escTexts2
  rw [parseElispStr]
  cases hcls : escClass b <;> rw [hcls] at hrest
  case none =>
    obtain ⟨h34, h92⟩ := i8 hcls
    simp only [escapeText, List.cons_append, List.nil_append] at hrest
    exact ⟨mb, na || decide (b > 127), by simp [nextOrEof, next_eq, hrest, h34, h92, escapeText]⟩
  case control =>
    obtain ⟨h1, h2, h3, h4⟩ := escClass_inv3 b hcls
    obtain ⟨h5, h6⟩ := escClass_inv4 b hcls
    simp only [escapeText, List.cons_append, List.nil_append, t8, t11, t12] at hrest
    have hb := UInt8.toNat_lt b
    have hq1 : ¬ 16777216 ≤ b.toNat / 16 := by omega
    have hq2 : ¬ 16777216 ≤ b.toNat := by omega
    have hz : hexVal 48 = some 0 := by decide
    refine ⟨true, na, ?_⟩
    simp [nextOrEof, next_eq, hrest, parseElispEscape, decodeElispUniEscape, elispUniCharEscape,
      h1, h3, h5, h6, hq1, maxCp, escapeText, Nat.div_add_mod', t8, t11, t12, hz]
  case alert =>
    have := i1 hcls; subst this
    simp only [escapeText, t3] at hrest
    exact ⟨mb, na, by simp [nextOrEof, next_eq, hrest, parseElispEscape, escapeText, t3]⟩
  case backspace =>
    have := i2 hcls; subst this
    simp only [escapeText, t4] at hrest
    exact ⟨mb, na, by simp [nextOrEof, next_eq, hrest, parseElispEscape, escapeText, t4]⟩
  case tab =>
    have := i3 hcls; subst this
    simp only [escapeText, t7] at hrest
    exact ⟨mb, na, by simp [nextOrEof, next_eq, hrest, parseElispEscape, escapeText, t7]⟩
  case lineFeed =>
    have := i4 hcls; subst this
    simp only [escapeText, t5] at hrest
    exact ⟨mb, na, by simp [nextOrEof, next_eq, hrest, parseElispEscape, escapeText, t5]⟩
  case carriageReturn =>
    have := i5 hcls; subst this
    simp only [escapeText, t6] at hrest
    exact ⟨mb, na, by simp [nextOrEof, next_eq, hrest, parseElispEscape, escapeText, t6]⟩
  case quote =>
    have := i6 hcls; subst this
    simp only [escapeText, t1] at hrest
    exact ⟨mb, na, by simp [nextOrEof, next_eq, hrest, parseElispEscape, escapeText, t1]⟩
  case reverseSolidus =>
    have := i7 hcls; subst this
    simp only [escapeText, t2] at hrest
    exact ⟨mb, na, by simp [nextOrEof, next_eq, hrest, parseElispEscape, escapeText, t2]⟩

open Print in
/-- The loop of `parse_elisp_str` over the escaped text of `bytes` and the closing quote: no
    unibyte escape occurs, so the result is the multibyte string that `as_str` validates. -/
theorem elispStr_loop (bytes : List UInt8) :
    ∀ (acc : List UInt8) (mb na : Bool) (fuel : Nat) (s : St) (rest : List UInt8),
      s.rd.rest = escapeStr .elisp bytes ++ 34 :: rest →
      bytes.length + 1 ≤ fuel →
      parseElispStr fuel acc false mb na s =
        (finishStr true (acc ++ bytes) >>= fun x => pure (ElispStr.multibyte x))
          (adv s ((escapeStr .elisp bytes).length + 1) false) := by
  induction bytes with
  | nil =>
    intro acc mb na fuel s rest hrest hfuel
    obtain ⟨f, rfl⟩ : ∃ f, fuel = f + 1 := ⟨fuel - 1, by omega⟩
    simp only [escapeStr, List.flatMap_nil, List.nil_append] at hrest
    rw [parseElispStr]
    simp [nextOrEof, next_eq, hrest, escapeStr]
  | cons b bs ih =>
    intro acc mb na fuel s rest hrest hfuel
    have hcons : escapeStr .elisp (b :: bs) =
        escapeText .elisp b (escClass b) ++ escapeStr .elisp bs := by
      simp [escapeStr]
    rw [hcons] at hrest ⊢
    simp only [List.length_cons] at hfuel
    obtain ⟨f, rfl⟩ : ∃ f, fuel = f + 1 := ⟨fuel - 1, by omega⟩
    obtain ⟨mb', na', hstep⟩ := elispStr_step b f acc (escapeStr .elisp bs ++ 34 :: rest) mb na s
      (by rw [hrest]; simp)
    rw [hstep]
    rw [ih (acc ++ [b]) mb' na' f _ rest (by rw [adv_rest, hrest]; simp) (by omega)]
    simp [Nat.add_assoc]

theorem string_elisp_aux (cfg : Cfg) (fuel : Nat) (bytes rest : List UInt8) (s : St)
    (ho : cfg.opts.string = .elisp)
    (hrest : s.rd.rest = 34 :: (Print.escapeStr .elisp bytes ++ 34 :: rest))
    (hfuel : bytes.length + 1 ≤ fuel)
    (hv : Utf8.valid bytes = true) :
    parseToken cfg fuel 34 s =
      .ok (.string bytes) (adv s ((Print.escapeStr .elisp bytes).length + 2) false) := by
  unfold parseToken
  simp [ho, isDigit, discard_eq, hrest]
  rw [elispStr_loop bytes [] false false fuel _ rest (by simp [hrest]) hfuel]
  simp only [finishStr, bind_apply, getMode_eq, adv_mode, List.nil_append, adv_adv]
  simp [hv]; congr 1; omega

/-! ## Byte vectors -/

theorem vu8open_aux (cfg : Cfg) (fuel : Nat) (s : St) (rest : List UInt8)
    (h : s.rd.rest = 35 :: 118 :: 117 :: 56 :: rest) :
    parseToken cfg fuel 35 s = .ok (.byteVecOpen 41) (adv s 4 false) := by
  simp [parseToken, discard_eq, next_eq, h, expectIdent, asc, ch]

/-! ### the Emacs unibyte string `"\ooo…"` -/

theorem octal_head_facts1 : ∀ c : UInt8, (48 ≤ c && c ≤ 55) = true →
    (c == 34) = false ∧ (c == 92) = false ∧ (c == 32) = false ∧ (c == 97) = false ∧
    (c == 98) = false ∧ (c == 116) = false ∧ (c == 110) = false ∧ (c == 118) = false ∧
    (c == 102) = false := by
  apply forall_u8; decide +kernel

theorem octal_head_facts2 : ∀ c : UInt8, (48 ≤ c && c ≤ 55) = true →
    (c == 114) = false ∧ (c == 101) = false ∧ (c == 115) = false ∧
    (c == 100) = false ∧ (c == 94) = false ∧ (c == 78) = false ∧ (c == 117) = false ∧
    (c == 85) = false ∧ (c == 120) = false := by
  apply forall_u8; decide +kernel

open Print in
theorem octal_facts : ∀ b : UInt8,
    (48 ≤ octalDigit (b.toNat / 64 % 8) && octalDigit (b.toNat / 64 % 8) ≤ 55) = true ∧
    octVal (octalDigit (b.toNat / 8 % 8)) = some (b.toNat / 8 % 8) ∧
    octVal (octalDigit (b.toNat % 8)) = some (b.toNat % 8) ∧
    (((octalDigit (b.toNat / 64 % 8)).toNat - 48) * 8 + b.toNat / 8 % 8) * 8 + b.toNat % 8
      = b.toNat := by
  apply forall_u8; decide +kernel

open Print in
/-- One `\ooo` escape followed by a byte that is not an octal digit: one byte is appended and
    the unibyte flag is set. -/
theorem elispBytes_step (b : UInt8) (f : Nat) (acc : List UInt8) (ub : Bool) (x : UInt8)
    (r : List UInt8) (s : St)
    (hrest : s.rd.rest = 92 :: octalDigit (b.toNat / 64 % 8) :: octalDigit (b.toNat / 8 % 8) ::
      octalDigit (b.toNat % 8) :: x :: r)
    (hx : octVal x = none) :
    parseElispStr (f + 3) acc ub false false s =
      parseElispStr (f + 2) (acc ++ [b]) true false false (adv s 4 (s.rd.mode == .io)) := by
  obtain ⟨o1, o2, o3, o4⟩ := octal_facts b
  generalize octalDigit (b.toNat / 64 % 8) = d1 at hrest o1 o4
  obtain ⟨g1, g2, g3, g4, g5, g6, g7, g8, g9⟩ := octal_head_facts1 d1 o1
  obtain ⟨g10, g11, g12, g13, g14, g15, g16, g17, g18⟩ := octal_head_facts2 d1 o1
  generalize octalDigit (b.toNat / 8 % 8) = d2 at hrest o2
  generalize octalDigit (b.toNat % 8) = d3 at hrest o3
  have hd1 : d1.toNat - 48 < 8 := by
    simp only [Bool.and_eq_true, decide_eq_true_eq] at o1
    have h2 : d1.toNat ≤ 55 := by simpa using UInt8.le_iff_toNat_le.mp o1.2
    omega
  have hb := UInt8.toNat_lt b
  have hm1 : ¬ (d1.toNat - 48 ≥ maxCp) := by unfold maxCp; omega
  have hm2 : ¬ ((d1.toNat - 48) * 8 + b.toNat / 8 % 8 ≥ maxCp) := by unfold maxCp; omega
  have hsc : isScalar b.toNat = true := by
    simp [isScalar, Utf8.isSurrogate]; omega
  have h255 : ¬ (b.toNat > 255) := by omega
  rw [parseElispStr]
  simp only [bind_apply, nextOrEof, next_eq, hrest, pure_apply,
    show ((92 : UInt8) == 34) = false by decide, Bool.false_eq_true, if_false,
    beq_self_eq_true, if_true]
  unfold parseElispEscape
  simp only [bind_apply, nextOrEof, next_eq, adv_rest, hrest, List.drop_succ_cons, List.drop_zero,
    pure_apply, g1, g2, g3, g4, g5, g6, g7, g8, g9, g10, g11, g12, g13, g14, g15, g16, g17, g18,
    Bool.false_eq_true, if_false, o1, if_true, adv_adv]
  simp only [decodeElispOctalEscape, bind_apply, peek_eq, adv_rest, hrest, List.drop_succ_cons,
    List.drop_zero, o2, o3, hx, discard_eq, adv_adv, hm1, hm2, if_false, pure_apply, o4,
    elispCharEscape, hsc, if_true, h255]
  simp

open Print in
theorem elispBytesText_cons (b : UInt8) (bs : List UInt8) :
    elispBytesText (b :: bs) = 92 :: octalDigit (b.toNat / 64 % 8) ::
      octalDigit (b.toNat / 8 % 8) :: octalDigit (b.toNat % 8) :: elispBytesText bs := by
  simp [elispBytesText, ch]

open Print in
theorem elispBytesText_head (bs rest : List UInt8) :
    ∃ x r, elispBytesText bs ++ 34 :: rest = x :: r ∧ octVal x = none := by
  cases bs with
  | nil => exact ⟨34, rest, rfl, by decide⟩
  | cons b bs => exact ⟨92, _, by rw [elispBytesText_cons]; rfl, by decide⟩

open Print in
/-- The loop of `parse_elisp_str` over `\ooo` escapes and the closing quote, once the unibyte
    flag is set. -/
theorem elispBytes_loop (bs : List UInt8) :
    ∀ (acc : List UInt8) (fuel : Nat) (s : St) (rest : List UInt8),
      s.rd.rest = elispBytesText bs ++ 34 :: rest →
      bs.length + 2 ≤ fuel →
      parseElispStr fuel acc true false false s =
        .ok (.unibyte (acc ++ bs)) (adv s ((elispBytesText bs).length + 1) false) := by
  induction bs with
  | nil =>
    intro acc fuel s rest hrest hfuel
    obtain ⟨f, rfl⟩ : ∃ f, fuel = f + 1 := ⟨fuel - 1, by omega⟩
    simp only [elispBytesText, List.flatMap_nil, List.nil_append] at hrest
    rw [parseElispStr]
    simp [nextOrEof, next_eq, hrest, elispBytesText]
  | cons b bs ih =>
    intro acc fuel s rest hrest hfuel
    simp only [List.length_cons] at hfuel
    obtain ⟨f, rfl⟩ : ∃ f, fuel = f + 3 := ⟨fuel - 3, by omega⟩
    obtain ⟨x, r, hxr, hx⟩ := elispBytesText_head bs rest
    rw [elispBytesText_cons] at hrest ⊢
    rw [elispBytes_step b f acc true x r s (by rw [hrest]; simp [hxr]) hx]
    rw [ih (acc ++ [b]) (f + 2) _ rest (by rw [adv_rest, hrest]; simp) (by omega)]
    simp only [adv_adv, List.append_assoc, List.cons_append, List.nil_append, List.length_cons]
    congr 2; omega

open Print in
theorem bytes_elisp_aux (cfg : Cfg) (fuel : Nat) (bs rest : List UInt8) (s : St)
    (ho : cfg.opts.string = .elisp)
    (hrest : s.rd.rest = 34 :: (elispBytesText bs ++ 34 :: rest))
    (hfuel : bs.length + 2 ≤ fuel) :
    parseToken cfg fuel 34 s =
      .ok (if bs.isEmpty then .string [] else .bytes bs)
        (adv s ((elispBytesText bs).length + 2) false) := by
  unfold parseToken
  simp [ho, isDigit, discard_eq, hrest]
  cases bs with
  | nil =>
    obtain ⟨f, rfl⟩ : ∃ f, fuel = f + 1 := ⟨fuel - 1, by omega⟩
    rw [parseElispStr]
    simp [nextOrEof, next_eq, hrest, elispBytesText, finishStr, Utf8.valid, Utf8.run]
  | cons b bs =>
    simp only [List.length_cons] at hfuel
    obtain ⟨f, rfl⟩ : ∃ f, fuel = f + 3 := ⟨fuel - 3, by omega⟩
    obtain ⟨x, r, hxr, hx⟩ := elispBytesText_head bs rest
    rw [elispBytesText_cons] at hrest ⊢
    rw [elispBytes_step b f [] false x r _ (by rw [adv_rest, hrest]; simp [hxr]) hx]
    rw [elispBytes_loop bs ([] ++ [b]) (f + 2) _ rest (by rw [adv_rest, adv_rest, hrest]; simp)
      (by omega)]
    simp only [adv_adv, List.nil_append, List.cons_append, List.length_cons, pure_apply,
      reduceCtorEq, if_false]
    rw [show 1 + 4 + ((elispBytesText bs).length + 1) =
      (elispBytesText bs).length + 1 + 1 + 1 + 1 + 2 by omega]

/-! ## Non-negative integers under both settings of the leading-digit option -/

theorem natDigits_isDigit (n : Nat) : ∀ b ∈ natDigits n, isDigit b = true := by
  induction n using Nat.strongRecOn with
  | _ n ih =>
    by_cases h : n < 10
    · rw [natDigits_lt h]
      intro b hb
      simp only [List.mem_singleton] at hb
      subst hb
      exact (digit_facts n h).2.1
    · rw [natDigits_ge (by omega)]
      intro b hb
      rcases List.mem_append.mp hb with hb | hb
      · exact ih (n / 10) (by omega) b hb
      · simp only [List.mem_singleton] at hb
        subst hb
        exact (digit_facts (n % 10) (Nat.mod_lt _ (by omega))).2.1

theorem isDigit_facts2 : ∀ b : UInt8, isDigit b = true →
    symTermSlice b = false ∧ b < 0x80 ∧ b ≠ 46 := by
  apply forall_u8; decide +kernel

theorem wholeNumber_digits (cfg : Cfg) (n : Nat) (hn : n ≤ u64Max) :
    wholeNumber cfg (natDigits n) = some (.pos n) := by
  unfold wholeNumber
  simp only
  rw [parseNumLiteral_ok cfg true n hn ((natDigits n).length + 1)
    { rd := { mode := .slice, rest := natDigits n } } [] (by simp) (by omega) Follow.nil
    (fun _ => rfl)]
  simp [numTailVal_pos]

theorem posint_any (cfg : Cfg) (fuel : Nat) (pk : UInt8) (n : Nat) (rest : List UInt8) (s : St)
    (hn : n ≤ u64Max)
    (hrest : s.rd.rest = natDigits n ++ rest) (hpk : (natDigits n).head? = some pk)
    (hfuel : (natDigits n).length ≤ fuel)
    (hF : Follow rest) (hf : rest = [] → s.rd.faulty = false) :
    parseToken cfg fuel pk s =
      .ok (.number (.pos n)) (adv s (natDigits n).length (endPeek s rest)) := by
  obtain ⟨d, tl, hd, he⟩ := natDigits_head n
  have : pk = UInt8.ofNat (48 + d) := by rw [he] at hpk; simpa using hpk.symm
  subst this
  have hdig := (digit_facts d hd).2.1
  obtain ⟨h1, h2, h3⟩ := isDigit_facts _ hdig
  generalize UInt8.ofNat (48 + d) = c at he hpk hdig h1 h2 h3
  cases hl : cfg.opts.leadingDigit
  · have hdisp : parseToken cfg fuel c =
        (do let n ← parseNumToken cfg fuel true; pure (.number n)) := by
      simp only [beq_eq_false_iff_ne, ne_eq] at h1 h2 h3
      unfold parseToken
      simp [h1, h2, h3, hdig, hl]
    rw [hdisp]
    simp only [bind_apply, parseNumToken_digits cfg true n hn fuel s rest hrest hfuel hF hf,
      numTailVal_pos, pure_apply]
  · have hnt : ∀ b ∈ natDigits n, symTermSlice b = false :=
      fun b hb => (isDigit_facts2 b (natDigits_isDigit n b hb)).1
    have hval : Utf8.valid (natDigits n) = true :=
      ascii_valid _ (fun b hb => (isDigit_facts2 b (natDigits_isDigit n b hb)).2.1)
    have hdot : [] ++ natDigits n ≠ [46] := by
      intro h
      have : (46 : UInt8) ∈ natDigits n := by simp at h; rw [h]; simp
      exact (isDigit_facts2 46 (natDigits_isDigit n 46 this)).2.2 rfl
    have hsym := parseSymbolBytes_ok [] (natDigits n) rest s hrest hF hf hnt hdot
      (Or.inr (by simpa using hval))
    unfold parseToken
    simp only [h1, h2, h3, hdig, hl, Bool.false_eq_true, if_false, if_true, bind_apply, hsym,
      List.nil_append, wholeNumber_digits cfg n hn, pure_apply]

/-! ## `#:name` -/

theorem kw_octothorpe_aux (cfg : Cfg) (fuel : Nat) (name rest : List UInt8) (s : St)
    (ho : cfg.opts.kwOctothorpe = true)
    (hrest : s.rd.rest = 35 :: 58 :: (name ++ rest)) (hF : Follow rest)
    (hf : rest = [] → s.rd.faulty = false)
    (hn : ∀ b ∈ name, symTermSlice b = false)
    (hdot : name ≠ [46])
    (hv : s.rd.mode = .str ∨ Utf8.valid name = true) :
    parseToken cfg fuel 35 s = .ok (.keyword name) (adv s (name.length + 2) (endPeek s rest)) := by
  have h := parseSymbolBytes_ok [] name rest (adv s 2 false) (by simp [hrest]) hF (by simpa using hf)
    hn (by simpa using hdot) (by simpa using hv)
  simp [parseToken, discard_eq, next_eq, hrest, ho]
  rw [h]; simp [Nat.add_comm]

/-! ## The printed text of each atom kind -/

theorem asc_consts :
    asc "nil" = [110, 105, 108] ∧ asc "t" = [116] ∧ asc "#nil" = [35, 110, 105, 108] ∧
    asc "#t" = [35, 116] ∧ asc "#f" = [35, 102] ∧ asc "()" = [40, 41] ∧ asc ":" = [58] ∧
    asc "#:" = [35, 58] ∧ asc "\"" = [34] ∧ asc "#vu8(" = [35, 118, 117, 56, 40] ∧
    asc "#u8(" = [35, 117, 56, 40] ∧ asc ")" = [41] := by decide

theorem atomTextP_nil (p ryu) : atomTextP p ryu .nil = Print.nilText p := by
  simp [atomTextP, Print.atomEmits, Print.flatten, Print.Emit.bytes]
theorem atomTextP_null (p ryu) : atomTextP p ryu .null = [40, 41] := by
  simp [atomTextP, Print.atomEmits, Print.flatten, Print.Emit.bytes, asc_consts]
theorem atomTextP_bool (p ryu) (b : Bool) : atomTextP p ryu (.bool b) = Print.boolText p b := by
  simp [atomTextP, Print.atomEmits, Print.flatten, Print.Emit.bytes]
theorem atomTextP_char (p ryu) (c : Nat) : atomTextP p ryu (.char c) = Print.charText p c := by
  simp [atomTextP, Print.atomEmits, Print.flatten, Print.Emit.bytes]
theorem atomTextP_symbol (p ryu) (n : List UInt8) : atomTextP p ryu (.symbol n) = n := by
  simp [atomTextP, Print.atomEmits, Print.flatten, Print.Emit.bytes]
theorem atomTextP_pos (p ryu) (n : Nat) : atomTextP p ryu (.number (.pos n)) = natDigits n := by
  simp [atomTextP, Print.atomEmits, Print.flatten, Print.Emit.bytes, Print.numberText]
theorem atomTextP_neg (p ryu) (i : Int) : atomTextP p ryu (.number (.neg i)) = intDigits i := by
  simp [atomTextP, Print.atomEmits, Print.flatten, Print.Emit.bytes, Print.numberText]
theorem atomTextP_string (p ryu) (b : List UInt8) :
    atomTextP p ryu (.string b) = 34 :: (Print.escapeStr p.string b ++ [34]) := by
  simp [atomTextP, Print.atomEmits, Print.flatten, Print.Emit.bytes, asc_consts]
theorem atomTextP_keyword (p : Print.Options) (ryu) (n : List UInt8) :
    atomTextP p ryu (.keyword n) =
      match p.keyword with
      | .colonPostfix => n ++ [58]
      | .colonPrefix => 58 :: n
      | .octothorpe => 35 :: 58 :: n := by
  cases h : p.keyword <;>
    simp [atomTextP, Print.atomEmits, Print.flatten, Print.Emit.bytes, Print.keywordEmits, h,
      asc_consts]
theorem atomTextP_bytes (p : Print.Options) (ryu) (b : List UInt8) :
    atomTextP p ryu (.bytes b) =
      match p.bytes with
      | .r6rs => 35 :: 118 :: 117 :: 56 :: 40 :: (Print.octetsText b ++ [41])
      | .r7rs => 35 :: 117 :: 56 :: 40 :: (Print.octetsText b ++ [41])
      | .elisp => 34 :: (Print.elispBytesText b ++ [34]) := by
  cases h : p.bytes <;>
    simp [atomTextP, Print.atomEmits, Print.flatten, Print.Emit.bytes, Print.bytesEmits, h,
      asc_consts]

/-! ## The symbols `nil` and `t` -/

/-- the token `nil` reads as -/
def nilTok (o : Options) : Token :=
  match o.nil with | .default => .symbol (asc "nil") | .emptyList => .null | .special => .nil
/-- the token `t` reads as -/
def tTok (o : Options) : Token :=
  match o.t with | .default => .symbol (asc "t") | .true_ => .bool true

theorem nilTok_atom (o : Options) : (nilTok o).atom = some (readNil o) := by
  unfold nilTok readNil; cases o.nil <;> rfl
theorem tTok_atom (o : Options) : (tTok o).atom = some (readT o) := by
  unfold tTok readT; cases o.t <;> rfl

theorem letterTok_nil (o : Options) : letterTok o [110, 105, 108] = nilTok o := by
  have e : asc "nil" = [110, 105, 108] := asc_consts.1
  have h1 : (asc "nil").getLast? ≠ some 58 := by decide
  have h2 : asc "nil" ≠ asc "t" := by decide
  rw [← e]
  unfold letterTok nilTok
  cases h : o.nil <;> simp [h1, h2]

theorem letterTok_t (o : Options) : letterTok o [116] = tTok o := by
  have e : asc "t" = [116] := asc_consts.2.1
  have h1 : (asc "t").getLast? ≠ some 58 := by decide
  have h2 : asc "t" ≠ asc "nil" := by decide
  rw [← e]
  unfold letterTok tTok
  cases h : o.t <;> simp [h1, h2]

theorem nil_symbol_aux (cfg : Cfg) (fuel : Nat) (rest : List UInt8) (s : St)
    (hrest : s.rd.rest = [110, 105, 108] ++ rest) (hF : Follow rest)
    (hf : rest = [] → s.rd.faulty = false) :
    parseToken cfg fuel 110 s = .ok (nilTok cfg.opts) (adv s 3 (endPeek s rest)) := by
  rw [letter_arm cfg fuel 110 [105, 108] rest s hrest hF hf (by decide) (Or.inr (by decide))
    (by decide), letterTok_nil]
  rfl

theorem t_symbol_aux (cfg : Cfg) (fuel : Nat) (rest : List UInt8) (s : St)
    (hrest : s.rd.rest = [116] ++ rest) (hF : Follow rest)
    (hf : rest = [] → s.rd.faulty = false) :
    parseToken cfg fuel 116 s = .ok (tTok cfg.opts) (adv s 1 (endPeek s rest)) := by
  rw [letter_arm cfg fuel 116 [] rest s hrest hF hf (by decide) (Or.inr (by decide))
    (by decide), letterTok_t]
  rfl

/-! ## Statement vocabulary -/

/-- From the state `s`, whose unread input starts with `text`, the lexer reads exactly `text` as
    the single token `tok`: `text` starts with a byte `pk` at which `parse_whitespace` stops, and
    `parse_token` at `pk` returns `tok` in the state `s` advanced by exactly `text.length` bytes
    (with some peek flag; mode, fault flag, depth unchanged, position as counted by `Rd.consume`). -/
def LexesAs (cfg : Cfg) (fuel : Nat) (s : St) (text : List UInt8) (tok : Token) : Prop :=
  ∃ pk q, text.head? = some pk ∧ isTrivia pk = false ∧ pk ≠ 59 ∧
    parseToken cfg fuel pk s = .ok tok (adv s text.length q)

/-- Names `n` such that the text `n` reads back as the symbol `n` under the parser options of
    `cfg`: name-shaped (`nameShape`: in particular no leading `?` with Emacs Lisp characters, no
    leading digit, `#`, quote characters), valid UTF-8, and not claimed by an enabled keyword
    syntax (`n` ends in `:` with postfix keywords, starts with `:` with prefix keywords) nor by
    the special treatment of `nil` / `t`. -/
def symbolPlainFor (cfg : Cfg) (name : List UInt8) : Bool :=
  nameShape cfg name && Utf8.valid name &&
  !(cfg.opts.kwPostfix && decide (name.length > 1) && name.getLast? == some 58) &&
  !(cfg.opts.kwPrefix && name.head? == some 58) &&
  !(cfg.opts.nil != .default && name == asc "nil") &&
  !(cfg.opts.t != .default && name == asc "t")

/-- Names `n` such that the spelling of the keyword `n` chosen by the printer options `p` reads
    back as the keyword `n`.  For `#:n` and `:n`: no symbol terminator in `n`, not the lone dot.
    For `n:`: `n` is not empty, `n:` is name-shaped (so `n` does not start with a digit, `#`, a
    quote character, or `?` under Emacs Lisp characters) and `n` does not start with `:` when
    prefix keywords are enabled as well.  Always: valid UTF-8. -/
def keywordPlainFor (p : Print.Options) (cfg : Cfg) (name : List UInt8) : Bool :=
  Utf8.valid name &&
  match p.keyword with
  | .colonPostfix =>
    !name.isEmpty && nameShape cfg (name ++ [58]) &&
      !(cfg.opts.kwPrefix && name.head? == some 58)
  | _ => name.all (fun b => !symTermSlice b) && name != [46]

theorem nonterm_start2 (b : UInt8) (tl : List UInt8)
    (h : (b :: tl).all (fun x => !symTermSlice x) = true) : isTrivia b = false ∧ b ≠ 59 := by
  simp only [List.all_eq_true, Bool.not_eq_true'] at h
  exact nonterm_start b (h b (by simp))

theorem nameShape_start (cfg : Cfg) (b : UInt8) (tl : List UInt8)
    (h : nameShape cfg (b :: tl) = true) : isTrivia b = false ∧ b ≠ 59 := by
  simp only [nameShape, Bool.and_eq_true] at h
  exact nonterm_start2 b tl h.1

/-! ## From tokens to `next_value` -/

theorem adv_setDepth (s : St) (d n : Nat) (q : Bool) :
    adv { s with depth := d } n q = { adv s n q with depth := d } := rfl

theorem setDepth_restore (s : St) (n : Nat) (q : Bool) (hd : 1 ≤ s.depth) :
    ({ adv s n q with depth := s.depth - 1 + 1 } : St) = adv s n q := by
  have : s.depth - 1 + 1 = s.depth := by omega
  simp [adv, this]

theorem lparen_arm (cfg : Cfg) (fuel : Nat) (s : St) (x : List UInt8) (hs : s.rd.rest = 40 :: x) :
    parseToken cfg fuel 40 s = .ok (.listOpen 41) (adv s 1 false) := by
  unfold parseToken
  simp [isDigit, discard_eq, hs]

/-- `next_value` on a text that lexes as one self-contained token. -/
theorem nextValue_of_lexes (cfg : Cfg) (f : Nat) (s : St) (text rest : List UInt8) (tok : Token)
    (v : Value) (hrest : s.rd.rest = text ++ rest)
    (hl : LexesAs cfg ((text ++ rest).length + 1) (adv s 0 (s.rd.mode == .io)) text tok)
    (ha : tok.atom = some v) :
    ∃ q, nextValue cfg (f + 1) s = .ok (some v) (adv s text.length q) := by
  obtain ⟨pk, q, hh, t1, t2, hp⟩ := hl
  cases text with
  | nil => simp at hh
  | cons b tl =>
    have hb : b = pk := by simpa using hh
    subst hb
    refine ⟨q, ?_⟩
    rw [nextValue]
    simp only [bind_apply, parseWhitespace_token s b (tl ++ rest) (by rw [hrest]; rfl) t1 t2,
      tokenFuel, adv_rest, List.drop_zero, hrest, hp, adv_adv, Nat.zero_add]
    cases tok <;> simp [Token.atom] at ha <;> subst ha <;> rfl

theorem enter_ok (s : St) (hd : 2 ≤ s.depth) :
    enter s = .ok () { s with depth := s.depth - 1 } := by
  have hd1 : (s.depth == 0) = false := by simp; omega
  have hd2 : (s.depth - 1 == 0) = false := by simp; omega
  simp [enter, hd1, hd2]

theorem parseList_close_empty (cfg : Cfg) (f : Nat) (s : St) (rest : List UInt8)
    (hrest : s.rd.rest = 41 :: rest) :
    parseList cfg (f + 1) 41 [] s = .ok .null (adv s 0 (s.rd.mode == .io)) := by
  rw [parseList]
  simp only [bind_apply, parseWhitespace_token s 41 rest hrest (by decide) (by decide)]
  simp [Value.list, Value.append]

theorem endSeq_close (s : St) (rest : List UInt8) (hrest : s.rd.rest = 41 :: rest) :
    endSeq 41 s = .ok () (adv s 1 false) := by
  unfold endSeq
  simp only [bind_apply, parseWhitespace_token s 41 rest hrest (by decide) (by decide)]
  simp [discard_eq, hrest]

/-- `next_value` on `(` `)`: the empty list (needs one level of recursion budget). -/
theorem nextValue_unit (cfg : Cfg) (f : Nat) (s : St) (rest : List UInt8)
    (hrest : s.rd.rest = 40 :: 41 :: rest) (hd : 2 ≤ s.depth) :
    nextValue cfg (f + 2) s = .ok (some .null) (adv s 2 false) := by
  rw [nextValue]
  simp only [bind_apply, parseWhitespace_token s 40 (41 :: rest) hrest (by decide) (by decide),
    tokenFuel]
  rw [lparen_arm cfg _ (adv s 0 (s.rd.mode == .io)) (41 :: rest) (by simp [hrest])]
  simp only [adv_adv, Nat.zero_add, bind_apply]
  rw [enter_ok (adv s 1 false) (by simpa using hd)]
  simp only [attempt]
  rw [parseList_close_empty cfg f _ rest (by simp [hrest])]
  simp only [leave]
  rw [endSeq_close _ rest (by simp [hrest])]
  simp only [pure_apply, adv_setDepth, adv_adv, adv_depth]
  congr 1
  exact setDepth_restore s 2 false (by omega)

/-- `next_value` on a byte vector written with a `#u8(` / `#vu8(` prefix. -/
theorem nextValue_byteVec (cfg : Cfg) (f : Nat) (s : St) (text rest : List UInt8)
    (bs : List UInt8) (k : Nat)
    (hrest : s.rd.rest = text ++ rest) (hh : text.head? = some 35)
    (ht : parseToken cfg ((text ++ rest).length + 1) 35 (adv s 0 (s.rd.mode == .io)) =
      .ok (.byteVecOpen 41) (adv (adv s 0 (s.rd.mode == .io)) k false))
    (hb : parseByteList cfg ((text ++ rest).length + 1) 41
        (adv (adv s 0 (s.rd.mode == .io)) k false) =
      .ok bs (adv (adv s 0 (s.rd.mode == .io)) text.length false)) :
    nextValue cfg (f + 1) s = .ok (some (.bytes bs)) (adv s text.length false) := by
  cases text with
  | nil => simp at hh
  | cons b tl =>
    have hb' : b = 35 := by simpa using hh
    subst hb'
    rw [nextValue]
    simp only [bind_apply, parseWhitespace_token s 35 (tl ++ rest) (by rw [hrest]; rfl)
      (by decide) (by decide), tokenFuel, adv_rest, List.drop_zero, hrest, ht]
    simp only [adv_adv, Nat.zero_add] at hb ⊢
    simp only [hb, pure_apply]

/-- The atoms covered by `dialectRT_atom` for the pair `p`, `cfg`: everything but floats
    (pairs and vectors are not atoms). -/
def AtomPlainFor (p : Print.Options) (cfg : Cfg) : Value → Prop
  | .nil => True
  | .null => True
  | .bool _ => True
  | .char c => isScalar c = true
  | .string b => Utf8.valid b = true
  | .symbol n => symbolPlainFor cfg n = true
  | .keyword n => keywordPlainFor p cfg n = true
  | .number (.pos n) => n ≤ u64Max
  | .number (.neg i) => i64Min ≤ i ∧ i < 0
  | .bytes _ => True
  | _ => False

/-! ## Main theorems

Conventions as in `AtomRT.lean`: `s` is any parser state (any source, position, peek flag),
`cfg.opts` any parser option set, `p` any printer option set.  `atomTextP p ryu v` is what the
printer writes for the atom `v`.  `Follow rest`: the input after the text is empty or starts with
whitespace, a parenthesis, a bracket or `;`; `hf` excludes a failing stream read at the very end.
`LexesAs cfg fuel s text tok` says `parse_token` reads exactly `text` as `tok`.
`Spec.Compatible p cfg.opts` is only assumed where the kind depends on it (keywords, characters,
strings, byte vectors); nil, booleans, symbols and integers need no compatibility at all. -/

/-- **dialectRT_nil**: the four spellings of `Nil` (`#nil`; the symbol `nil`; `#f` / `nil` for
    `NilSyntax::False`; `()` is `dialectRT_nil_emptyList`) against every parser option set: the
    token read is the token of `fold p cfg.opts .nil`. -/
theorem dialectRT_nil (cfg : Cfg) (p : Print.Options) (ryu : Nat → List UInt8) (fuel : Nat)
    (s : St) (rest : List UInt8) (hp : p.nil ≠ .emptyList)
    (hrest : s.rd.rest = atomTextP p ryu .nil ++ rest)
    (hF : Follow rest) (hf : rest = [] → s.rd.faulty = false) :
    ∃ tok, LexesAs cfg fuel s (atomTextP p ryu .nil) tok ∧
      tok.atom = some (fold p cfg.opts .nil) := by
  obtain ⟨c1, c2, c3, c4, c5, -⟩ := asc_consts
  rw [atomTextP_nil] at hrest ⊢
  unfold Print.nilText at hrest ⊢
  cases hn : p.nil
  · -- the symbol `nil`
    simp only [hn, c1] at hrest ⊢
    exact ⟨nilTok cfg.opts, ⟨110, _, rfl, by decide, by decide,
      nil_symbol_aux cfg fuel rest s hrest hF hf⟩, by simp [fold, hn, nilTok_atom]⟩
  · -- `#nil`
    simp only [hn, c3] at hrest ⊢
    exact ⟨.nil, ⟨35, false, rfl, by decide, by decide, nil_aux cfg fuel s rest hrest⟩,
      by simp [fold, hn, Token.atom]⟩
  · exact absurd hn hp
  · -- as `false`
    simp only [hn] at hrest ⊢
    unfold Print.boolText at hrest ⊢
    cases hb : p.bool
    · simp only [hb, c5, Bool.false_eq_true, if_false] at hrest ⊢
      exact ⟨.bool false, ⟨35, false, rfl, by decide, by decide, false_aux cfg fuel s rest hrest⟩,
        by simp [fold, hn, hb, Token.atom]⟩
    · simp only [hb, c1, Bool.false_eq_true, if_false] at hrest ⊢
      exact ⟨nilTok cfg.opts, ⟨110, _, rfl, by decide, by decide,
        nil_symbol_aux cfg fuel rest s hrest hF hf⟩, by simp [fold, hn, hb, nilTok_atom]⟩

/-- **dialectRT_nil_emptyList**: `Nil` written `()` (`NilSyntax::EmptyList`, also how the empty
    list itself is written) goes through the list path under every parser option set: the token
    at `(` is `listOpen`, and `next_value` — given one level of recursion budget — returns the
    empty list, which is `fold p cfg.opts .nil`, consuming exactly the two bytes.  No condition on
    what follows. -/
theorem dialectRT_nil_emptyList (cfg : Cfg) (p : Print.Options) (ryu : Nat → List UInt8)
    (fuel f : Nat) (s : St) (rest : List UInt8) (hp : p.nil = .emptyList)
    (hrest : s.rd.rest = atomTextP p ryu .nil ++ rest) (hd : 2 ≤ s.depth) :
    (atomTextP p ryu .nil).head? = some 40 ∧
    parseToken cfg fuel 40 s = .ok (.listOpen 41) (adv s 1 false) ∧
    nextValue cfg (f + 2) s =
      .ok (some (fold p cfg.opts .nil)) (adv s (atomTextP p ryu .nil).length false) ∧
    fold p cfg.opts .nil = .null := by
  have ht : atomTextP p ryu .nil = [40, 41] := by
    rw [atomTextP_nil]; simp [Print.nilText, hp, asc_consts]
  have hfo : fold p cfg.opts .nil = .null := by simp [fold, hp]
  rw [ht] at hrest ⊢
  rw [hfo]
  exact ⟨rfl, lparen_arm cfg fuel s (41 :: rest) hrest, nextValue_unit cfg f s rest hrest hd, rfl⟩

/-- **dialectRT_bool**: `#t` / `#f`, or the symbols `t` / `nil`, against every parser option set:
    the token read is the token of `fold p cfg.opts (.bool b)` (`readT` / `readNil` for the symbol
    spellings). -/
theorem dialectRT_bool (cfg : Cfg) (p : Print.Options) (ryu : Nat → List UInt8) (fuel : Nat)
    (s : St) (rest : List UInt8) (b : Bool)
    (hrest : s.rd.rest = atomTextP p ryu (.bool b) ++ rest)
    (hF : Follow rest) (hf : rest = [] → s.rd.faulty = false) :
    ∃ tok, LexesAs cfg fuel s (atomTextP p ryu (.bool b)) tok ∧
      tok.atom = some (fold p cfg.opts (.bool b)) := by
  obtain ⟨c1, c2, c3, c4, c5, -⟩ := asc_consts
  rw [atomTextP_bool] at hrest ⊢
  unfold Print.boolText at hrest ⊢
  cases hb : p.bool <;> cases b
  · simp only [hb, c5, Bool.false_eq_true, if_false] at hrest ⊢
    exact ⟨.bool false, ⟨35, false, rfl, by decide, by decide, false_aux cfg fuel s rest hrest⟩,
      by simp [fold, hb, Token.atom]⟩
  · simp only [hb, c4, if_true] at hrest ⊢
    exact ⟨.bool true, ⟨35, false, rfl, by decide, by decide, true_aux cfg fuel s rest hrest⟩,
      by simp [fold, hb, Token.atom]⟩
  · simp only [hb, c1, Bool.false_eq_true, if_false] at hrest ⊢
    exact ⟨nilTok cfg.opts, ⟨110, _, rfl, by decide, by decide,
      nil_symbol_aux cfg fuel rest s hrest hF hf⟩, by simp [fold, hb, nilTok_atom]⟩
  · simp only [hb, c2, if_true] at hrest ⊢
    exact ⟨tTok cfg.opts, ⟨116, _, rfl, by decide, by decide,
      t_symbol_aux cfg fuel rest s hrest hF hf⟩, by simp [fold, hb, tTok_atom]⟩

/-- **dialectRT_keyword**: the spelling of a keyword chosen by the printer (`#:name`, `:name` or
    `name:`) reads back as the keyword `name` under every compatible parser option set — the
    corresponding keyword flag is on, the other two flags are arbitrary — for the names that are
    plain for the pair (`keywordPlainFor`). -/
theorem dialectRT_keyword (cfg : Cfg) (p : Print.Options) (ryu : Nat → List UInt8) (fuel : Nat)
    (s : St) (rest : List UInt8) (name : List UInt8)
    (hc : Compatible p cfg.opts = true) (hid : keywordPlainFor p cfg name = true)
    (hrest : s.rd.rest = atomTextP p ryu (.keyword name) ++ rest)
    (hF : Follow rest) (hf : rest = [] → s.rd.faulty = false) :
    LexesAs cfg fuel s (atomTextP p ryu (.keyword name)) (.keyword name) ∧
      fold p cfg.opts (.keyword name) = .keyword name := by
  refine ⟨?_, by simp [fold]⟩
  have hkw : cfg.opts.keyword p.keyword = true := by
    simp only [Compatible, Bool.and_eq_true] at hc
    exact hc.1.1.1.1
  rw [atomTextP_keyword] at hrest ⊢
  simp only [keywordPlainFor, Bool.and_eq_true] at hid
  obtain ⟨hval, hid⟩ := hid
  cases hk : p.keyword
  · -- `:name`
    simp only [hk, Options.keyword] at hrest hkw hid ⊢
    simp only [Bool.and_eq_true, List.all_eq_true, Bool.not_eq_true', bne_iff_ne, ne_eq] at hid
    refine ⟨58, endPeek s rest, rfl, by decide, by decide, ?_⟩
    rw [colon_prefix_arm cfg fuel name rest s hkw (by simpa using hrest) hF hf hid.1 hid.2
      (Or.inr hval)]
    simp
  · -- `name:`
    simp only [hk, Options.keyword] at hrest hkw hid ⊢
    simp only [Bool.and_eq_true, Bool.not_eq_true', Bool.and_eq_false_iff, beq_eq_false_iff_ne,
      ne_eq, List.isEmpty_eq_false_iff] at hid
    obtain ⟨⟨hne, hshape⟩, hpre⟩ := hid
    have hpre' : ¬ (cfg.opts.kwPrefix = true ∧ name.head? = some 58) := by
      rintro ⟨h1, h2⟩
      rcases hpre with h | h
      · rw [h1] at h; exact Bool.noConfusion h
      · exact h h2
    cases name with
    | nil => exact absurd rfl hne
    | cons b tl =>
      obtain ⟨t1, t2⟩ := nameShape_start cfg b (tl ++ [58]) (by simpa using hshape)
      refine ⟨b, endPeek s rest, rfl, t1, t2, ?_⟩
      rw [name_token cfg fuel b (tl ++ [58]) rest s (by simpa using hshape)
        (by simpa using valid_snoc58 _ hval) (by simpa using hrest) hF hf]
      rw [show b :: (tl ++ [58]) = (b :: tl) ++ [58] from rfl,
        nameTok_postfix cfg.opts (b :: tl) hkw hne hpre']
      simp
  · -- `#:name`
    simp only [hk, Options.keyword] at hrest hkw hid ⊢
    simp only [Bool.and_eq_true, List.all_eq_true, Bool.not_eq_true', bne_iff_ne, ne_eq] at hid
    refine ⟨35, endPeek s rest, rfl, by decide, by decide, ?_⟩
    rw [kw_octothorpe_aux cfg fuel name rest s hkw (by simpa using hrest) hF hf hid.1 hid.2
      (Or.inr hval)]
    simp

/-- **dialectRT_char**: for every Unicode scalar value, `write_scheme_char` (`#\c`, `#\x<hex>`;
    read by the `#\` path of every parser option set) and `write_elisp_char` (`?c`, `?\c`,
    `?\x<hex>`; read under `char = elisp`, which compatibility guarantees) read back as the same
    character. -/
theorem dialectRT_char (cfg : Cfg) (p : Print.Options) (ryu : Nat → List UInt8) (fuel : Nat)
    (s : St) (rest : List UInt8) (c : Nat)
    (hc : Compatible p cfg.opts = true) (hsc : isScalar c = true)
    (hrest : s.rd.rest = atomTextP p ryu (.char c) ++ rest)
    (hfuel : (atomTextP p ryu (.char c)).length ≤ fuel)
    (hF : Follow rest) (hf : rest = [] → s.rd.faulty = false) :
    LexesAs cfg fuel s (atomTextP p ryu (.char c)) (.char c) ∧
      fold p cfg.opts (.char c) = .char c := by
  refine ⟨?_, by simp [fold]⟩
  rw [atomTextP_char] at hrest hfuel ⊢
  unfold Print.charText at hrest hfuel ⊢
  cases hp : p.char
  · simp only [hp] at hrest hfuel ⊢
    refine ⟨35, _, ?_, by decide, by decide,
      char_aux cfg fuel c rest s hsc hrest (by omega) hF hf⟩
    unfold Print.schemeChar; split <;> rfl
  · simp only [hp] at hrest hfuel ⊢
    have hr : cfg.opts.char = .elisp := by
      simp only [Compatible, Bool.and_eq_true, Bool.or_eq_true, hp, bne_self_eq_false,
        Bool.false_eq_true, false_or, beq_iff_eq] at hc
      exact hc.2
    obtain ⟨q, h⟩ := elispChar_aux cfg fuel c rest s hr hsc hrest (by omega) hF hf
    refine ⟨63, q, ?_, by decide, by decide, h⟩
    unfold Print.elispChar; split
    · split <;> rfl
    · rfl

/-- **dialectRT_string**: the quoted text with R6RS escapes against `parse_r6rs_str`, and with
    Emacs Lisp escapes against `parse_elisp_str`, read back as the same string (a `Value::String`;
    in particular the `\u00NN` escapes of control characters keep the Emacs Lisp string multibyte,
    and a string without escapes or non-ASCII bytes is still a string, never a byte vector).
    The bytes must be valid UTF-8; for R6RS syntax on the `str` source that is not needed.  No
    condition on what follows the closing quote. -/
theorem dialectRT_string (cfg : Cfg) (p : Print.Options) (ryu : Nat → List UInt8) (fuel : Nat)
    (s : St) (rest : List UInt8) (bytes : List UInt8)
    (hc : Compatible p cfg.opts = true)
    (hv : Utf8.valid bytes = true ∨ (s.rd.mode = .str ∧ p.string = .r6rs))
    (hrest : s.rd.rest = atomTextP p ryu (.string bytes) ++ rest)
    (hfuel : (atomTextP p ryu (.string bytes)).length ≤ fuel) :
    LexesAs cfg fuel s (atomTextP p ryu (.string bytes)) (.string bytes) ∧
      fold p cfg.opts (.string bytes) = .string bytes := by
  refine ⟨?_, by simp [fold]⟩
  have hs : cfg.opts.string = p.string := by
    simp only [Compatible, Bool.and_eq_true, beq_iff_eq] at hc
    exact hc.1.1.2
  rw [atomTextP_string] at hrest hfuel ⊢
  refine ⟨34, false, rfl, by decide, by decide, ?_⟩
  cases hp : p.string
  · rw [hp] at hrest hfuel hs
    have hv' : s.rd.mode = .str ∨ Utf8.valid bytes = true := by
      rcases hv with h | h
      · exact Or.inr h
      · exact Or.inl h.1
    rw [string_r6rs_aux cfg fuel bytes rest s hs (by rw [hrest]; simp)
      (by simp at hfuel; omega) hv']
    simp
  · rw [hp] at hrest hfuel hs
    have hv' : Utf8.valid bytes = true := by
      rcases hv with h | h
      · exact h
      · rw [hp] at h; exact absurd h.2 (by decide)
    have hlen : bytes.length ≤ (Print.escapeStr .elisp bytes).length := by
      clear hrest hfuel hv hv'
      induction bytes with
      | nil => simp
      | cons b bs ih =>
        have hcons : Print.escapeStr .elisp (b :: bs) =
            Print.escapeText .elisp b (Print.escClass b) ++ Print.escapeStr .elisp bs := by
          simp [Print.escapeStr]
        have hpos : 1 ≤ (Print.escapeText .elisp b (Print.escClass b)).length := by
          obtain ⟨t1, t2, t3, t4, t5, t6, t7, -⟩ := escTexts
          cases Print.escClass b <;> simp [Print.escapeText, t1, t2, t3, t4, t5, t6, t7]
        rw [hcons]; simp only [List.length_cons, List.length_append]; omega
    rw [string_elisp_aux cfg fuel bytes rest s hs (by rw [hrest]; simp)
      (by simp at hfuel; omega) hv']
    simp

/-- **dialectRT_bytes**: the three spellings of a byte vector.  `#vu8(…)` and `#u8(…)` (accepted
    by every parser option set): `parse_token` returns `byteVecOpen` after the prefix and
    `parse_byte_list` then returns exactly the bytes and stops after the closing parenthesis.
    The Emacs unibyte string `"\ooo…"` (read under `string = elisp`, which compatibility
    guarantees) is a single token: the byte vector for non-empty `bs`, the empty *string* for the
    empty one — the documented folding `fold`. No condition on what follows the text. -/
theorem dialectRT_bytes (cfg : Cfg) (p : Print.Options) (ryu : Nat → List UInt8) (fuel : Nat)
    (s : St) (rest : List UInt8) (bs : List UInt8)
    (hc : Compatible p cfg.opts = true)
    (hrest : s.rd.rest = atomTextP p ryu (.bytes bs) ++ rest)
    (hfuel : (atomTextP p ryu (.bytes bs)).length ≤ fuel) :
    (p.bytes ≠ .elisp →
      fold p cfg.opts (.bytes bs) = .bytes bs ∧
      (atomTextP p ryu (.bytes bs)).head? = some 35 ∧
      ∃ k, parseToken cfg fuel 35 s = .ok (.byteVecOpen 41) (adv s k false) ∧
        parseByteList cfg fuel 41 (adv s k false) =
          .ok bs (adv s (atomTextP p ryu (.bytes bs)).length false)) ∧
    (p.bytes = .elisp →
      ∃ tok, LexesAs cfg fuel s (atomTextP p ryu (.bytes bs)) tok ∧
        tok.atom = some (fold p cfg.opts (.bytes bs))) := by
  rw [atomTextP_bytes] at hrest hfuel ⊢
  cases hp : p.bytes
  · -- `#vu8(`
    rw [hp] at hrest hfuel
    simp only at hrest hfuel ⊢
    refine ⟨fun _ => ⟨by simp [fold, hp], rfl, 4,
      vu8open_aux cfg fuel s _ (by rw [hrest]; rfl), ?_⟩, fun h => absurd h (by decide)⟩
    have := parseByteList_ok cfg fuel bs rest (adv s 4 false) (by simp [hrest])
      (by simp at hfuel; omega)
    have hl : (35 :: 118 :: 117 :: 56 :: 40 :: (Print.octetsText bs ++ [41])).length =
        4 + ((Print.octetsText bs).length + 2) := by simp; omega
    rw [this, adv_adv, hl]
  · -- `#u8(`
    rw [hp] at hrest hfuel
    simp only at hrest hfuel ⊢
    refine ⟨fun _ => ⟨by simp [fold, hp], rfl, 3,
      u8open_aux cfg fuel s _ (by rw [hrest]; rfl), ?_⟩, fun h => absurd h (by decide)⟩
    have := parseByteList_ok cfg fuel bs rest (adv s 3 false) (by simp [hrest])
      (by simp at hfuel; omega)
    have hl : (35 :: 117 :: 56 :: 40 :: (Print.octetsText bs ++ [41])).length =
        3 + ((Print.octetsText bs).length + 2) := by simp; omega
    rw [this, adv_adv, hl]
  · -- `"\ooo…"`
    rw [hp] at hrest hfuel
    simp only at hrest hfuel ⊢
    have hr : cfg.opts.string = .elisp := by
      simp only [Compatible, Bool.and_eq_true, Bool.or_eq_true, hp, bne_self_eq_false,
        Bool.false_eq_true, false_or, beq_iff_eq] at hc
      exact hc.1.2
    refine ⟨fun h => absurd rfl h, fun _ => ?_⟩
    have hlen : (Print.elispBytesText bs).length = 4 * bs.length := by
      clear hrest hfuel
      induction bs with
      | nil => rfl
      | cons b bs ih => rw [elispBytesText_cons]; simp only [List.length_cons, ih]; omega
    have hfuel' : bs.length + 2 ≤ fuel := by
      simp only [List.length_cons, List.length_append, List.length_nil, hlen] at hfuel; omega
    refine ⟨if bs.isEmpty then .string [] else .bytes bs, ⟨34, false, rfl, by decide, by decide, ?_⟩,
      ?_⟩
    · rw [bytes_elisp_aux cfg fuel bs rest s hr (by rw [hrest]; simp) hfuel']
      simp
    · cases bs <;> simp [fold, hp, Token.atom]

/-- **dialectRT_symbol**: under every parser option set (whatever the printer options: symbols
    are written verbatim) a name that is plain for the parser (`symbolPlainFor`) reads back as
    the symbol with that name.  The leading-digit and Racket options are irrelevant for these
    names. -/
theorem dialectRT_symbol (cfg : Cfg) (p : Print.Options) (ryu : Nat → List UInt8) (fuel : Nat)
    (s : St) (rest : List UInt8) (name : List UInt8)
    (hid : symbolPlainFor cfg name = true)
    (hrest : s.rd.rest = atomTextP p ryu (.symbol name) ++ rest)
    (hF : Follow rest) (hf : rest = [] → s.rd.faulty = false) :
    LexesAs cfg fuel s (atomTextP p ryu (.symbol name)) (.symbol name) ∧
      fold p cfg.opts (.symbol name) = .symbol name := by
  refine ⟨?_, by simp [fold]⟩
  rw [atomTextP_symbol] at hrest ⊢
  simp only [symbolPlainFor, Bool.and_eq_true, Bool.not_eq_true', Bool.and_eq_false_iff,
    beq_eq_false_iff_ne, ne_eq, decide_eq_false_iff_not, bne_eq_false_iff_eq] at hid
  obtain ⟨⟨⟨⟨⟨hshape, hval⟩, h1⟩, h2⟩, h3⟩, h4⟩ := hid
  cases name with
  | nil => simp [nameShape] at hshape
  | cons b tl =>
    obtain ⟨t1, t2⟩ := nameShape_start cfg b tl hshape
    refine ⟨b, endPeek s rest, rfl, t1, t2, ?_⟩
    rw [name_token cfg fuel b tl rest s hshape hval hrest hF hf]
    rw [nameTok_symbol cfg.opts (b :: tl)]
    · simp
    · rintro ⟨x, y, z⟩
      rcases h1 with (h | h) | h
      · rw [x] at h; exact Bool.noConfusion h
      · exact h y
      · exact h z
    · rintro ⟨x, y⟩
      rcases h2 with h | h
      · rw [x] at h; exact Bool.noConfusion h
      · exact h y
    · rintro ⟨x, y⟩
      rcases h3 with h | h
      · exact x h
      · exact h y
    · rintro ⟨x, y⟩
      rcases h4 with h | h
      · exact x h
      · exact h y

/-- **dialectRT_posint**: the decimal digits of `n ≤ u64::MAX` read back as `PosInt(n)` under
    every parser option set — with the leading-digit option the whole token is first read as a
    symbol and then recognised as a number by the sub-parser. -/
theorem dialectRT_posint (cfg : Cfg) (p : Print.Options) (ryu : Nat → List UInt8) (fuel : Nat)
    (s : St) (rest : List UInt8) (n : Nat) (hn : n ≤ u64Max)
    (hrest : s.rd.rest = atomTextP p ryu (.number (.pos n)) ++ rest)
    (hfuel : (atomTextP p ryu (.number (.pos n))).length ≤ fuel)
    (hF : Follow rest) (hf : rest = [] → s.rd.faulty = false) :
    LexesAs cfg fuel s (atomTextP p ryu (.number (.pos n))) (.number (.pos n)) ∧
      fold p cfg.opts (.number (.pos n)) = .number (.pos n) := by
  refine ⟨?_, by simp [fold]⟩
  rw [atomTextP_pos] at hrest hfuel ⊢
  obtain ⟨d, tl, hd, he⟩ := natDigits_head n
  obtain ⟨t1, t2, -⟩ := digit_facts2 d hd
  exact ⟨UInt8.ofNat (48 + d), endPeek s rest, by rw [he]; rfl, t1, by simpa using t2,
    posint_any cfg fuel _ n rest s hn hrest (by rw [he]; rfl) hfuel hF hf⟩

/-- **dialectRT_negint**: what `itoa` prints for `i64::MIN ≤ i < 0` reads back as `NegInt(i)`
    under every parser option set. -/
theorem dialectRT_negint (cfg : Cfg) (p : Print.Options) (ryu : Nat → List UInt8) (fuel : Nat)
    (s : St) (rest : List UInt8) (i : Int) (h1 : i64Min ≤ i) (h2 : i < 0)
    (hrest : s.rd.rest = atomTextP p ryu (.number (.neg i)) ++ rest)
    (hfuel : (atomTextP p ryu (.number (.neg i))).length ≤ fuel)
    (hF : Follow rest) (hf : rest = [] → s.rd.faulty = false) :
    LexesAs cfg fuel s (atomTextP p ryu (.number (.neg i))) (.number (.neg i)) ∧
      fold p cfg.opts (.number (.neg i)) = .number (.neg i) := by
  refine ⟨?_, by simp [fold]⟩
  rw [atomTextP_neg] at hrest hfuel ⊢
  have hh : (intDigits i).head? = some 45 := by
    simp only [intDigits, h2, if_true]; rfl
  exact ⟨45, endPeek s rest, hh, by decide, by decide,
    negint_aux cfg fuel i rest s h1 h2 hrest (by omega) hF hf⟩

/-- **dialectRT_atom**: for every compatible pair and every atom that is plain for the pair,
    `next_value` on the printed text (in a `Follow` context) returns `fold p cfg.opts v` and
    consumes exactly the text.  The recursion budget matters only for `()` (the empty list, or
    `Nil` written as `()`). -/
theorem dialectRT_atom (cfg : Cfg) (p : Print.Options) (ryu : Nat → List UInt8) (f : Nat)
    (s : St) (rest : List UInt8) (v : Value)
    (hc : Compatible p cfg.opts = true) (hsup : AtomPlainFor p cfg v)
    (hrest : s.rd.rest = atomTextP p ryu v ++ rest)
    (hd : v = .null ∨ (v = .nil ∧ p.nil = .emptyList) → 2 ≤ s.depth)
    (hF : Follow rest) (hf : rest = [] → s.rd.faulty = false) :
    ∃ q, nextValue cfg (f + 2) s =
      .ok (some (fold p cfg.opts v)) (adv s (atomTextP p ryu v).length q) := by
  have hr1 : (adv s 0 (s.rd.mode == .io)).rd.rest = atomTextP p ryu v ++ rest := by simp [hrest]
  have hf1 : rest = [] → (adv s 0 (s.rd.mode == .io)).rd.faulty = false := by simpa using hf
  have hfu : (atomTextP p ryu v).length ≤ (atomTextP p ryu v ++ rest).length + 1 := by
    simp; omega
  cases v with
  | nil =>
    by_cases hp : p.nil = .emptyList
    · have ht : atomTextP p ryu .nil = [40, 41] := by
        rw [atomTextP_nil]; simp [Print.nilText, hp, asc_consts]
      rw [ht] at hrest ⊢
      exact ⟨false, by simpa [fold, hp] using nextValue_unit cfg f s rest hrest (hd (Or.inr ⟨rfl, hp⟩))⟩
    · obtain ⟨tok, hl, ha⟩ := dialectRT_nil cfg p ryu _ _ rest hp hr1 hF hf1
      exact nextValue_of_lexes cfg (f + 1) s _ rest tok _ hrest hl ha
  | null =>
    rw [atomTextP_null] at hrest ⊢
    exact ⟨false, by simpa [fold] using nextValue_unit cfg f s rest hrest (hd (Or.inl rfl))⟩
  | bool b =>
    obtain ⟨tok, hl, ha⟩ := dialectRT_bool cfg p ryu _ _ rest b hr1 hF hf1
    exact nextValue_of_lexes cfg (f + 1) s _ rest tok _ hrest hl ha
  | char c =>
    obtain ⟨hl, hfo⟩ := dialectRT_char cfg p ryu _ _ rest c hc hsup hr1 hfu hF hf1
    rw [hfo]
    exact nextValue_of_lexes cfg (f + 1) s _ rest _ _ hrest hl rfl
  | string b =>
    obtain ⟨hl, hfo⟩ := dialectRT_string cfg p ryu _ _ rest b hc (Or.inl hsup) hr1 hfu
    rw [hfo]
    exact nextValue_of_lexes cfg (f + 1) s _ rest _ _ hrest hl rfl
  | symbol n =>
    obtain ⟨hl, hfo⟩ := dialectRT_symbol cfg p ryu _ _ rest n hsup hr1 hF hf1
    rw [hfo]
    exact nextValue_of_lexes cfg (f + 1) s _ rest _ _ hrest hl rfl
  | keyword n =>
    obtain ⟨hl, hfo⟩ := dialectRT_keyword cfg p ryu _ _ rest n hc hsup hr1 hF hf1
    rw [hfo]
    exact nextValue_of_lexes cfg (f + 1) s _ rest _ _ hrest hl rfl
  | number num =>
    cases num with
    | pos n =>
      obtain ⟨hl, hfo⟩ := dialectRT_posint cfg p ryu _ _ rest n hsup hr1 hfu hF hf1
      rw [hfo]
      exact nextValue_of_lexes cfg (f + 1) s _ rest _ _ hrest hl rfl
    | neg i =>
      obtain ⟨hl, hfo⟩ := dialectRT_negint cfg p ryu _ _ rest i hsup.1 hsup.2 hr1 hfu hF hf1
      rw [hfo]
      exact nextValue_of_lexes cfg (f + 1) s _ rest _ _ hrest hl rfl
    | flt b => exact absurd hsup id
  | bytes bs =>
    obtain ⟨h1, h2⟩ := dialectRT_bytes cfg p ryu _ _ rest bs hc hr1 hfu
    by_cases hp : p.bytes = .elisp
    · obtain ⟨tok, hl, ha⟩ := h2 hp
      exact nextValue_of_lexes cfg (f + 1) s _ rest tok _ hrest hl ha
    · obtain ⟨hfo, hh, k, ht, hb⟩ := h1 hp
      rw [hfo]
      exact ⟨false, nextValue_byteVec cfg (f + 1) s _ rest bs k hrest hh ht hb⟩
  | cons a d => exact absurd hsup id
  | vector xs => exact absurd hsup id

/-! ### Instances: every main theorem applies to a non-trivial input -/

/-- the Emacs Lisp reader; only U+03BB is "alphabetic" -/
def elCfg : Cfg := { opts := Options.elisp, isAlphabetic := fun c => c == 955, pow10 := fun _ => 0 }

/-- a reader with all three keyword syntaxes, special `nil`, `t` as true, Emacs Lisp characters,
    R6RS strings, leading-digit symbols -/
def mixOpts : Options :=
  { kwPrefix := true, kwPostfix := true, kwOctothorpe := true, nil := .special, t := .true_,
    brackets := .vector, string := .r6rs, char := .elisp, racket := true, leadingDigit := true }
def mixCfg : Cfg := { opts := mixOpts, isAlphabetic := fun c => c == 955, pow10 := fun _ => 0 }
/-- a printer that is compatible with `mixOpts`: `name:` keywords, symbols for nil and booleans -/
def mixP : Print.Options :=
  { keyword := .colonPostfix, nil := .symbol, bool := .symbol, vector := .brackets, bytes := .r6rs,
    string := .r6rs, char := .elisp }

example : Compatible mixP mixOpts = true ∧ Compatible Print.Options.elisp Options.elisp = true ∧
    Compatible Print.Options.default mixOpts = true := by decide

-- `nil` under the Emacs Lisp pair is the empty list; under `mixOpts` it is `Nil`
example := dialectRT_nil elCfg Print.Options.elisp ryu0 0
  (exSt (atomTextP Print.Options.elisp ryu0 .nil ++ asc ")")) (asc ")") (by decide) rfl
  (Follow.cons (by decide)) (fun _ => rfl)
example := dialectRT_nil_emptyList mixCfg { mixP with nil := .emptyList } ryu0 5 0
  (exSt (atomTextP { mixP with nil := .emptyList } ryu0 .nil ++ asc "x")) (asc "x") rfl rfl
  (by decide)
example : fold Print.Options.elisp Options.elisp .nil = .null ∧ fold mixP mixOpts .nil = .nil ∧
    fold mixP mixOpts (.bool true) = .bool true ∧ fold mixP mixOpts (.bool false) = .nil := by
  refine ⟨rfl, rfl, rfl, rfl⟩
example := dialectRT_bool mixCfg mixP ryu0 0 (exSt (atomTextP mixP ryu0 (.bool true) ++ asc " x"))
  (asc " x") true rfl (Follow.cons (by decide)) (fun _ => rfl)
-- `key:` , `+:` and `a::` under `mixOpts`; `:key` under the Emacs Lisp pair; `#:a:` by default
example : keywordPlainFor mixP mixCfg (asc "key") = true ∧
    keywordPlainFor mixP mixCfg (asc "+") = true ∧ keywordPlainFor mixP mixCfg (asc "a:") = true ∧
    keywordPlainFor mixP mixCfg (asc ":a") = false ∧ keywordPlainFor mixP mixCfg (asc "?a") = false ∧
    keywordPlainFor mixP mixCfg (asc "1") = false ∧ keywordPlainFor mixP mixCfg [] = false ∧
    keywordPlainFor Print.Options.elisp elCfg (asc "a:") = true ∧
    keywordPlainFor Print.Options.elisp elCfg [] = true ∧
    keywordPlainFor Print.Options.default mixCfg (asc "a:") = true := by decide
example := dialectRT_keyword mixCfg mixP ryu0 0 (exSt (atomTextP mixP ryu0 (.keyword (asc "key")) ++ []))
  [] (asc "key") (by decide) (by decide) rfl Follow.nil (fun _ => rfl)
example := dialectRT_keyword elCfg Print.Options.elisp ryu0 0
  (exSt (atomTextP Print.Options.elisp ryu0 (.keyword (asc "a:")) ++ asc ")")) (asc ")") (asc "a:")
  (by decide) (by decide) rfl (Follow.cons (by decide)) (fun _ => rfl)
-- `?a`, `?\(`, `?\x3bb`, `?\x0`
example := dialectRT_char elCfg Print.Options.elisp ryu0 8
  (exSt (atomTextP Print.Options.elisp ryu0 (.char 955) ++ asc " x")) (asc " x") 955
  (by decide) (by decide) rfl (by decide) (Follow.cons (by decide)) (fun _ => rfl)
example := dialectRT_char mixCfg mixP ryu0 8
  (exSt (atomTextP mixP ryu0 (.char 40) ++ asc ")")) (asc ")") 40
  (by decide) (by decide) rfl (by decide) (Follow.cons (by decide)) (fun _ => rfl)
-- quote, backslash, newline, a control byte (written `\u0001`) and a two-byte scalar
example := dialectRT_string elCfg Print.Options.elisp ryu0 30
  (exSt (atomTextP Print.Options.elisp ryu0 (.string [97, 34, 92, 10, 1, 0xC3, 0xA9]) ++ asc "tail"))
  (asc "tail") [97, 34, 92, 10, 1, 0xC3, 0xA9] (by decide) (Or.inl (by decide)) rfl (by decide)
example := dialectRT_bytes elCfg Print.Options.elisp ryu0 30
  (exSt (atomTextP Print.Options.elisp ryu0 (.bytes [0, 255, 7]) ++ asc "x")) (asc "x") [0, 255, 7]
  (by decide) rfl (by decide)
example := dialectRT_bytes mixCfg mixP ryu0 30
  (exSt (atomTextP mixP ryu0 (.bytes [0, 255, 7]) ++ asc "x")) (asc "x") [0, 255, 7]
  (by decide) rfl (by decide)
example : symbolPlainFor mixCfg (asc "set-car!") = true ∧ symbolPlainFor mixCfg (asc "-.e") = true ∧
    symbolPlainFor mixCfg [0xCE, 0xBB, 120] = true ∧ symbolPlainFor mixCfg (asc "a:b") = true ∧
    symbolPlainFor mixCfg (asc "a:") = false ∧ symbolPlainFor mixCfg (asc ":a") = false ∧
    symbolPlainFor mixCfg (asc "nil") = false ∧ symbolPlainFor mixCfg (asc "t") = false ∧
    symbolPlainFor mixCfg (asc "?a") = false ∧ symbolPlainFor mixCfg (asc "1+") = false ∧
    symbolPlainFor exCfg (asc "a:") = true ∧ symbolPlainFor exCfg (asc ":a") = true ∧
    symbolPlainFor exCfg (asc "nil") = true ∧ symbolPlainFor exCfg (asc "?a") = true := by decide
example := dialectRT_symbol mixCfg mixP ryu0 0
  (exSt (atomTextP mixP ryu0 (.symbol [0xCE, 0xBB, 120]) ++ asc ")")) (asc ")") [0xCE, 0xBB, 120]
  (by decide) rfl (Follow.cons (by decide)) (fun _ => rfl)
example := dialectRT_posint mixCfg mixP ryu0 20
  (exSt (atomTextP mixP ryu0 (.number (.pos u64Max)) ++ asc ")")) (asc ")") u64Max
  (Nat.le_refl _) rfl (by decide) (Follow.cons (by decide)) (fun _ => rfl)
example := dialectRT_negint mixCfg mixP ryu0 20
  (exSt (atomTextP mixP ryu0 (.number (.neg i64Min)) ++ asc " ")) (asc " ") i64Min
  (Int.le_refl _) (by decide) rfl (by decide) (Follow.cons (by decide)) (fun _ => rfl)
example := dialectRT_atom elCfg Print.Options.elisp ryu0 0
  (exSt (atomTextP Print.Options.elisp ryu0 (.bytes []) ++ asc ")")) (asc ")") (.bytes [])
  (by decide) trivial rfl (fun _ => by decide) (Follow.cons (by decide)) (fun _ => rfl)
example := dialectRT_atom mixCfg { mixP with nil := .emptyList } ryu0 0
  (exSt (atomTextP { mixP with nil := .emptyList } ryu0 .nil ++ asc " ")) (asc " ") .nil
  (by decide) trivial rfl (fun _ => by decide) (Follow.cons (by decide)) (fun _ => rfl)

/-! ### Witnesses: the side conditions matter -/

-- `name:` for a name that starts with `:` reads as the prefix keyword `a:` when both are enabled
example : tokIs (fun t => match t with | .keyword k => k == asc "a:" | _ => false)
    (parseToken mixCfg 10 58 (exSt (asc ":a:"))) = true := by decide
-- the keyword with the empty name, written `:`, is the symbol `:` for a postfix-only reader
example : tokIs (fun t => match t with | .symbol k => k == asc ":" | _ => false)
    (parseToken { mixCfg with opts := { mixOpts with kwPrefix := false } } 10 58 (exSt (asc ":")))
      = true := by decide
-- `1:` : the leading-digit reader makes it the keyword `1`, the plain one rejects it
example : tokIs (fun t => match t with | .keyword k => k == asc "1" | _ => false)
    (parseToken mixCfg 10 49 (exSt (asc "1:"))) = true := by decide
example : isErr (parseToken { mixCfg with opts := { mixOpts with leadingDigit := false } } 10 49
    (exSt (asc "1:"))) = true := by decide
-- the symbols `a:`, `:a`, `nil`, `t`, `?a` are claimed by the options of `mixOpts`
example : tokIs (fun t => match t with | .keyword k => k == asc "a" | _ => false)
    (parseToken mixCfg 10 97 (exSt (asc "a:"))) = true := by decide
example : tokIs (fun t => match t with | .nil => true | _ => false)
    (parseToken mixCfg 10 110 (exSt (asc "nil"))) = true := by decide
example : tokIs (fun t => match t with | .char 97 => true | _ => false)
    (parseToken mixCfg 10 63 (exSt (asc "?a"))) = true := by decide
-- an Emacs Lisp string is validated even on the `str` source (`finishStr true`)
example : isErr (parseToken elCfg 10 34 { rd := { mode := .str, rest := [34, 0xFF, 34] } }) = true := by
  decide
-- the empty byte vector written as `""` is the empty string
example : tokIs (fun t => match t with | .string [] => true | _ => false)
    (parseToken elCfg 10 34 (exSt (atomTextP Print.Options.elisp ryu0 (.bytes [])))) = true := by decide
-- `?\x41` followed by a hex digit runs on: `Follow` is needed for the hexadecimal spelling
example : tokIs (fun t => match t with | .char 0x41f => true | _ => false)
    (parseToken elCfg 10 63 (exSt (asc "?\\x41f"))) = true := by decide

#print axioms dialectRT_nil
#print axioms dialectRT_nil_emptyList
#print axioms dialectRT_bool
#print axioms dialectRT_keyword
#print axioms dialectRT_char
#print axioms dialectRT_string
#print axioms dialectRT_bytes
#print axioms dialectRT_symbol
#print axioms dialectRT_posint
#print axioms dialectRT_negint
#print axioms dialectRT_atom
#print axioms name_token

end Parse
end Lexpr
