/-
  C09 — the unquote clause: "An unquoted Rust expression contributes exactly `Value::from(expr)` at
  its position, including as a dotted tail."

  `C09_expand` (MacroSpec) already covers a tree with `,expr` at ANY position and depth, because
  `unq` is a constructor of `Doc` and `valueOf env (.unq t) = env t`.  This file makes the clause
  explicit and ties it to the text side:
   * `valueOf_plug`, `C09_unquote_plug` — replacing every `,expr` by a documented tree that denotes
     `Value::from(expr)` does not change the value: the macro's result is that of the plugged tree
     (contexts of any shape and depth, the dotted tail included, where a list value is merged);
   * `C09_unquote_agree` — hence `sexp!(… ,expr …)` equals what the parser reads from the text in
     which each `,expr` is replaced by a text of its value (`(a . ,tail)` with `tail = (1 2)`
     against `(a 1 2)`);
   * `C09_unquote_tail_list`, `C09_unquote_tail_improper`, `C09_unquote_tail_atom`,
     `C09_unquote_tail_nested` — the dotted-tail cases spelled out: the elements are consed onto
     `Value::from(expr)` as `Value::append` does, so a list value continues the list, a dotted
     value continues it with its own tail, anything else becomes the tail; the literal nesting
     `(a . (b . ,e))` is flattened first.
  Nothing was found missing or false.
-/
import LexprModel.Proofs.MacroText
namespace Lexpr
namespace Macro
open Print
open Parse.ListRT

/-! ## Plugging trees for the unquoted expressions -/

mutual
/-- replace every `,expr` by the tree `σ expr` -/
def plug (σ : Tok → Doc) : Doc → Doc
  | .unq t => σ t
  | .list xs => .list (plugL σ xs)
  | .dotted xs t => .dotted (plugL σ xs) (plug σ t)
  | .vec xs => .vec (plugL σ xs)
  | .int n => .int n
  | .negInt n => .negInt n
  | .float s e => .float s e
  | .negFloat s e => .negFloat s e
  | .str src val => .str src val
  | .chr c => .chr c
  | .tru => .tru
  | .fls => .fls
  | .nil => .nil
  | .sym name => .sym name
  | .psym cs => .psym cs
  | .qsym src val => .qsym src val
  | .kw name => .kw name
  | .ckw name => .ckw name
  | .qkw src val => .qkw src val
  | .cqkw src val => .cqkw src val
  | .pkw cs => .pkw cs
def plugL (σ : Tok → Doc) : List Doc → List Doc
  | [] => []
  | x :: xs => plug σ x :: plugL σ xs
end

mutual
theorem valueOf_plug (env : Tok → Value) (σ : Tok → Doc) (hσ : ∀ t, env t = valueOf env (σ t)) :
    ∀ d : Doc, valueOf env (plug σ d) = valueOf env d
  | .unq t => by simp only [plug, valueOf, hσ t]
  | .list xs => by simp only [plug, valueOf, valueOfL_plug env σ hσ xs]
  | .dotted xs t => by
    simp only [plug, valueOf, valueOfL_plug env σ hσ xs, valueOf_plug env σ hσ t]
  | .vec xs => by simp only [plug, valueOf, valueOfL_plug env σ hσ xs]
  | .int _ | .negInt _ | .float _ _ | .negFloat _ _ | .str _ _ | .chr _ | .tru | .fls | .nil
  | .sym _ | .psym _ | .qsym _ _ | .kw _ | .ckw _ | .qkw _ _ | .cqkw _ _ | .pkw _ => by
    simp only [plug]
theorem valueOfL_plug (env : Tok → Value) (σ : Tok → Doc) (hσ : ∀ t, env t = valueOf env (σ t)) :
    ∀ xs : List Doc, valueOfL env (plugL σ xs) = valueOfL env xs
  | [] => by simp only [plugL]
  | x :: xs => by
    simp only [plugL, valueOfL, valueOf_plug env σ hσ x, valueOfL_plug env σ hσ xs]
end

/-- **C09_unquote_plug.** `sexp!` on a well-formed tree with unquotes at any positions (list and
    vector elements, dotted tails, any depth) builds the value of the tree in which every `,expr`
    is replaced by a tree denoting `Value::from(expr)`: each unquote contributes exactly
    `Value::from(expr)` at its position. -/
theorem C09_unquote_plug (env : Tok → Value) (σ : Tok → Doc)
    (hσ : ∀ t, env t = valueOf env (σ t)) (d : Doc) (hwf : WF d)
    (hfuel : need d ≤ 2 * (toks d).length + 1000) :
    expand env (toks d) = some (valueOf env (plug σ d)) := by
  rw [valueOf_plug env σ hσ d]
  exact C09_expand env d hwf hfuel

/-- **C09_unquote_agree.** The macro on a tree with unquotes and the parser on the text of the
    plugged tree agree: `sexp!(… ,expr …)` is what `from_slice` reads from the S-expression text
    in which each `,expr` is replaced by a text of `Value::from(expr)`; a list value in dotted-tail
    position appears merged in that text, as `stext` writes it. -/
theorem C09_unquote_agree (env : Tok → Value) (cfg : Parse.Cfg)
    (ho : cfg.opts = Parse.Options.default) (σ : Tok → Doc)
    (hσ : ∀ t, env t = valueOf env (σ t)) (d : Doc) (hwf : WF d) (hok : TextOK (plug σ d))
    (hn : dnest (plug σ d) ≤ 127) (hfuel : need d ≤ 2 * (toks d).length + 1000) :
    expand env (toks d) = some (valueOf env d) ∧
      ∃ s', Parse.fromTrait cfg (Parse.initSt .slice (stext (plug σ d))) = .ok (valueOf env d) s' ∧
        s'.rd.rest = [] ∧ s'.depth = 128 := by
  refine ⟨C09_expand env d hwf hfuel, ?_⟩
  rw [← valueOf_plug env σ hσ d]
  exact C09_text env cfg ho (plug σ d) hok hn

/-! ## The dotted tail, case by case -/

theorem append_list (xs ys : List Value) : Value.append xs (Value.list ys) = Value.list (xs ++ ys) := by
  simp only [Value.list, Value.C15_append_merge]

/-- `(x₁ … xₙ . ,expr)` where `expr` evaluates to the list `(y₁ … yₘ)`: the proper list
    `(x₁ … xₙ y₁ … yₘ)` -/
theorem C09_unquote_tail_list (env : Tok → Value) (xs : List Doc) (t : Tok) (ys : List Value)
    (ht : env t = Value.list ys) (hwf : wfSeq true xs = true) (hfuel : needSeq xs 2 ≤ 1001) :
    expand env (toks (.dotted xs (.unq t))) = some (Value.list (xs.map (valueOf env) ++ ys)) := by
  rw [C09_unquote_expand env xs t hwf hfuel, ht, append_list]

/-- … to the dotted list `(y₁ … yₘ . r)`: the dotted list `(x₁ … xₙ y₁ … yₘ . r)` -/
theorem C09_unquote_tail_improper (env : Tok → Value) (xs : List Doc) (t : Tok) (ys : List Value)
    (r : Value) (ht : env t = Value.append ys r) (hwf : wfSeq true xs = true)
    (hfuel : needSeq xs 2 ≤ 1001) :
    expand env (toks (.dotted xs (.unq t))) =
      some (Value.append (xs.map (valueOf env) ++ ys) r) := by
  rw [C09_unquote_expand env xs t hwf hfuel, ht, Value.C15_append_merge]

/-- … to anything: the elements consed onto it (for a value that is not a list this is the dotted
    list with that tail) -/
theorem C09_unquote_tail_atom (env : Tok → Value) (xs : List Doc) (t : Tok)
    (hwf : wfSeq true xs = true) (hfuel : needSeq xs 2 ≤ 1001) :
    expand env (toks (.dotted xs (.unq t))) = some (Value.append (xs.map (valueOf env)) (env t)) :=
  C09_unquote_expand env xs t hwf hfuel

/-- the literal nesting `(x₁ … . (y₁ … . ,expr))` is flattened by `parse_list` before the
    generated code conses onto `Value::from(expr)`: same value as `(x₁ … y₁ … . ,expr)` -/
theorem C09_unquote_tail_nested (env : Tok → Value) (xs ys : List Doc) (t : Tok) :
    mv (.dotted xs (.dotted ys (.unq t))) = .improper (mvL xs ++ mvL ys) (.unquoted t) ∧
    valueOf env (.dotted xs (.dotted ys (.unq t))) =
      Value.append (valueOfL env xs ++ valueOfL env ys) (env t) := by
  constructor
  · simp only [mv, flattenTail]
  · simp only [valueOf, Value.C15_append_merge]

/-! ### Instances -/

/-- `(a . ,tail)` with `tail = (1 2)`: the macro gives `(a 1 2)`, the text of the plugged tree is
    `(a 1 2)`, and the parser reads it as the same value -/
example (env : Tok → Value) (cfg : Parse.Cfg) (ho : cfg.opts = Parse.Options.default) (tail : Tok)
    (h : env tail = Value.list [.number (.pos 1), .number (.pos 2)]) :
    expand env (toks (.dotted [.sym (asc "a")] (.unq tail))) =
      some (Value.list [.symbol (asc "a"), .number (.pos 1), .number (.pos 2)]) ∧
    ∃ s', Parse.fromTrait cfg (Parse.initSt .slice (asc "(a 1 2)")) =
        .ok (Value.list [.symbol (asc "a"), .number (.pos 1), .number (.pos 2)]) s' ∧
      s'.rd.rest = [] ∧ s'.depth = 128 := by
  have e1 := C09_unquote_tail_list env [.sym (asc "a")] tail _ h (by decide) (by decide)
  refine ⟨by simpa [valueOf] using e1, ?_⟩
  have := C09_text env cfg ho (.list [.sym (asc "a"), .int 1, .int 2]) (by decide) (by decide)
  have ht : stext (.list [.sym (asc "a"), .int 1, .int 2]) = asc "(a 1 2)" := by decide
  rw [ht] at this
  simpa [valueOf, valueOfL, Number.ofSigned] using this

/-- two unquoted identifiers -/
def tokX : Tok := .ident (asc "x")
def tokY : Tok := .ident (asc "y")
theorem tokX_ne_tokY : tokX ≠ tokY := by
  intro h; injection h with h; exact absurd h (by decide)

/-- unquotes nested in a vector and as the tail of an inner list:
    `(a #(b ,x) (c . ,y))` is the plugged tree's value whatever `x` and `y` denote -/
example (env : Tok → Value) :
    expand env (toks (.list [.sym (asc "a"), .vec [.sym (asc "b"), .unq tokX],
        .dotted [.sym (asc "c")] (.unq tokY)])) =
      some (Value.list [.symbol (asc "a"), .vector [.symbol (asc "b"), env tokX],
        .cons (.symbol (asc "c")) (env tokY)]) := by
  rw [C09_expand env _ (by decide) (by decide)]
  simp [valueOf, valueOfL, Value.list, Value.append]

/-- `C09_unquote_agree` on `(a #(b ,x) (c . ,y))` with `x = 5` and `y = (d)`:
    the text is `(a #(b 5) (c d))` -/
example (cfg : Parse.Cfg) (ho : cfg.opts = Parse.Options.default)
    (env : Tok → Value) (hx : env tokX = .number (.pos 5))
    (hy : env tokY = Value.list [.symbol (asc "d")])
    (hother : ∀ t, t ≠ tokX → t ≠ tokY → env t = .nil) :
    let d : Doc := .list [.sym (asc "a"), .vec [.sym (asc "b"), .unq tokX],
        .dotted [.sym (asc "c")] (.unq tokY)]
    expand env (toks d) = some (valueOf env d) ∧
      ∃ s', Parse.fromTrait cfg (Parse.initSt .slice (asc "(a #(b 5) (c d))")) =
          .ok (valueOf env d) s' ∧ s'.rd.rest = [] ∧ s'.depth = 128 := by
  intro d
  classical
  let σ : Tok → Doc := fun t =>
    if t = tokX then .int 5 else if t = tokY then .list [.sym (asc "d")] else .nil
  have hσ : ∀ t, env t = valueOf env (σ t) := by
    intro t
    by_cases h1 : t = tokX
    · subst h1; simp [σ, hx, valueOf, Number.ofSigned]
    · by_cases h2 : t = tokY
      · subst h2; simp [σ, h1, hy, valueOf, valueOfL]
      · simp [σ, h1, h2, hother t h1 h2, valueOf]
  have hp : plug σ d = .list [.sym (asc "a"), .vec [.sym (asc "b"), .int 5],
      .dotted [.sym (asc "c")] (.list [.sym (asc "d")])] := by
    simp [d, plug, plugL, σ, tokX_ne_tokY.symm]
  have ht : stext (plug σ d) = asc "(a #(b 5) (c d))" := by rw [hp]; decide
  have := C09_unquote_agree env cfg ho σ hσ d (by decide) (by rw [hp]; decide)
    (by rw [hp]; decide) (by decide)
  rw [ht] at this
  exact this

#print axioms C09_unquote_plug
#print axioms C09_unquote_agree
#print axioms C09_unquote_tail_list
#print axioms C09_unquote_tail_improper
#print axioms C09_unquote_tail_nested

end Macro
end Lexpr
