/-
  Accuracy of decimal literals (property C05), part 5: literals with more significant digits than
  fit `u64`.  The scanners keep a prefix of the digits (`Decimals.C05_scan_any`, `DecLit.scanT`);
  this file bounds the truncation error and combines it with the rounding analysis.
-/
import LexprModel.Proofs.AccuracyLit
namespace Lexpr
namespace Accuracy
open Parse F64 Numbers Decimals

/-! ## 1. Digit strings -/

theorem dv_lt : ∀ ds : List UInt8, AllDigits ds → dv 0 ds < 10 ^ ds.length
  | [], _ => by simp
  | c :: cs, h => by
    have ih := dv_lt cs h.tail
    have hc := (isDigit_val c h.head).1
    rw [dv_cons, dv_acc]
    simp only [List.length_cons, Nat.pow_succ, Nat.zero_mul, Nat.zero_add]
    generalize 10 ^ cs.length = p at *
    generalize c.toNat - 48 = d at *
    have : d * p ≤ 9 * p := Nat.mul_le_mul_right p (by omega)
    omega

/-! ## 2. `shiftIn` when it raises the flag: the progress made is kept -/

theorem shiftIn_flag : ∀ (z sig : Nat) (exp : Int) (d : Nat), d < 10 →
    (shiftIn sig exp z d).2.2 = true →
    ∃ j, j ≤ z ∧ (shiftIn sig exp z d).1 = sig * 10 ^ j ∧
      (shiftIn sig exp z d).2.1 = exp - (j : Int) ∧ u64Max < sig * 10 ^ j * 10 + 9 := by
  intro z
  induction z with
  | zero =>
    intro sig exp d hd h
    rw [shiftIn] at h ⊢
    cases hov : overflow sig 10 d u64Max with
    | true =>
      simp only [if_true]
      have := overflow_true_imp (by decide) hov
      exact ⟨0, Nat.le_refl _, by simp, by simp, by simp only [Nat.pow_zero, Nat.mul_one]; omega⟩
    | false => rw [hov] at h; simp at h
  | succ z ih =>
    intro sig exp d hd h
    rw [shiftIn] at h ⊢
    cases hov : overflow sig 10 0 u64Max with
    | true =>
      simp only [if_true]
      have := overflow_true_imp (by decide) hov
      exact ⟨0, Nat.zero_le _, by simp, by simp, by simp only [Nat.pow_zero, Nat.mul_one]; omega⟩
    | false =>
      rw [hov] at h
      simp only [Bool.false_eq_true, if_false] at h ⊢
      obtain ⟨j, hj, h1, h2, h3⟩ := ih (sig * 10) (exp - 1) d hd h
      have e1 : sig * 10 * 10 ^ j = sig * 10 ^ (j + 1) := by
        rw [Nat.pow_succ]; generalize 10 ^ j = p; grind
      refine ⟨j + 1, by omega, by rw [h1, e1], by rw [h2]; omega, by rw [← e1]; exact h3⟩

/-- without the flag the digit has been shifted in -/
theorem shiftIn_noflag (z sig : Nat) (exp : Int) (d : Nat) (hd : d < 10)
    (h : (shiftIn sig exp z d).2.2 = false) :
    shiftIn sig exp z d = (sig * 10 ^ (z + 1) + d, exp - ((z : Int) + 1), false) := by
  apply shiftIn_ok z sig exp d hd
  apply Nat.not_lt.mp
  intro hov
  have := shiftIn_overflow z sig exp d hd hov
  rw [this] at h; cases h

/-! ## 3. The fraction loop with its overflow exit -/

theorem hN_aux (sig p q d r : Nat) :
    (sig * p + d) * q + r = sig * (p * q) + ((0 * 10 + d) * q + r) := by grind

theorem pow_split (a j k : Nat) : a * 10 ^ (j + k) = a * 10 ^ j * 10 ^ k := by
  rw [Nat.pow_add, Nat.mul_assoc]

/-- `fracScan ds sig exp z = (S, exp - j)`: `j` digit positions were shifted in, `k` were not
    (`j + k = z + |ds|`); in units of the last written digit, the true value
    `N = sig * 10^(j+k) + dv 0 ds` lies in `[S * 10^k, (S + 1) * 10^k)`, the kept value `S * 10^k`
    is at least the starting value, and either nothing was lost or `S` is within a factor ten of
    `u64::MAX`. -/
theorem fracScan_inv : ∀ (ds : List UInt8) (sig : Nat) (exp : Int) (z : Nat), AllDigits ds →
    ∃ j k : Nat, j + k = z + ds.length ∧ (fracScan ds sig exp z).2 = exp - (j : Int) ∧
      sig * 10 ^ (j + k) ≤ (fracScan ds sig exp z).1 * 10 ^ k ∧
      (fracScan ds sig exp z).1 * 10 ^ k ≤ sig * 10 ^ (j + k) + dv 0 ds ∧
      sig * 10 ^ (j + k) + dv 0 ds < ((fracScan ds sig exp z).1 + 1) * 10 ^ k ∧
      ((fracScan ds sig exp z).1 * 10 ^ k = sig * 10 ^ (j + k) + dv 0 ds ∨
        u64Max < (fracScan ds sig exp z).1 * 10 + 9) := by
  intro ds
  induction ds with
  | nil =>
    intro sig exp z _
    refine ⟨0, z, by simp, by simp [fracScan], ?_, ?_, ?_, Or.inl ?_⟩ <;>
      simp only [fracScan, Nat.zero_add, dv_nil, Nat.add_zero, Nat.le_refl]
    rw [Nat.succ_mul]
    have := Nat.pow_pos (a := 10) (n := z) (by decide)
    omega
  | cons c cs ih =>
    intro sig exp z hd
    rw [fracScan]
    by_cases hc : (c == 48) = true
    · simp only [hc, if_true]
      obtain ⟨j, k, h0, h1, h2, h3, h4, h5⟩ := ih sig exp (z + 1) hd.tail
      have hz : c.toNat - 48 = 0 := (isDigit_val c hd.head).2.2.2.2.2 hc
      have hdv : dv 0 (c :: cs) = dv 0 cs := by rw [dv_cons, hz]
      refine ⟨j, k, by simp only [List.length_cons]; omega, h1, h2, ?_, ?_, ?_⟩
      · rw [hdv]; exact h3
      · rw [hdv]; exact h4
      · rw [hdv]; exact h5
    · simp only [hc, if_false, Bool.false_eq_true]
      have hdig := (isDigit_val c hd.head).1
      cases hfl : (shiftIn sig exp z (c.toNat - 48)).2.2 with
      | true =>
        obtain ⟨j, hj, h1, h2, h3⟩ := shiftIn_flag z sig exp _ hdig hfl
        have hsh : shiftIn sig exp z (c.toNat - 48) = (sig * 10 ^ j, exp - (j : Int), true) := by
          rw [← h1, ← h2, ← hfl]
        rw [hsh]
        simp only []
        obtain ⟨k, hk⟩ : ∃ k, j + k = z + (c :: cs).length := ⟨z + (c :: cs).length - j, by omega⟩
        have hlt := dv_lt (c :: cs) hd
        have hpow : 10 ^ (c :: cs).length ≤ 10 ^ k :=
          Nat.pow_le_pow_right (by decide) (by omega)
        refine ⟨j, k, hk, rfl, ?_, ?_, ?_, Or.inr h3⟩
        · rw [pow_split]; exact Nat.le_refl _
        · rw [pow_split]; omega
        · rw [pow_split, Nat.succ_mul]; omega
      | false =>
        rw [shiftIn_noflag z sig exp _ hdig hfl]
        simp only []
        obtain ⟨j, k, h0, h1, h2, h3, h4, h5⟩ :=
          ih (sig * 10 ^ (z + 1) + (c.toNat - 48)) (exp - ((z : Int) + 1)) 0 hd.tail
        generalize (fracScan cs (sig * 10 ^ (z + 1) + (c.toNat - 48)) (exp - ((z : Int) + 1)) 0).1
          = S' at *
        have hN : (sig * 10 ^ (z + 1) + (c.toNat - 48)) * 10 ^ (j + k) + dv 0 cs =
            sig * 10 ^ (z + 1 + j + k) + dv 0 (c :: cs) := by
          rw [dv_cons, dv_acc cs (0 * 10 + (c.toNat - 48))]
          have hjk : j + k = cs.length := by omega
          have e : 10 ^ (z + 1 + j + k) = 10 ^ (z + 1) * 10 ^ cs.length := by
            rw [← Nat.pow_add]; congr 1; omega
          rw [e, hjk]
          exact hN_aux _ _ _ _ _
        have hge : sig * 10 ^ (z + 1 + j + k) ≤
            (sig * 10 ^ (z + 1) + (c.toNat - 48)) * 10 ^ (j + k) := by
          rw [show z + 1 + j + k = (z + 1) + (j + k) by omega, pow_split]
          exact Nat.mul_le_mul_right _ (Nat.le_add_right _ _)
        refine ⟨z + 1 + j, k, by simp only [List.length_cons]; omega,
          by rw [h1]; omega, ?_, ?_, ?_, ?_⟩
        · omega
        · rw [← hN]; exact h3
        · rw [← hN]; exact h4
        · rw [← hN]; exact h5

/-! ## 4. Kept value and exact value lie in one interval of relative width `2^-60` -/

/-- `|Vn - Pn| * 2^60 ≤ Vn` (truncated subtraction, both orders) -/
def Close (Pn Vn : Nat) : Prop := (Vn - Pn) * 2 ^ 60 ≤ Vn ∧ (Pn - Vn) * 2 ^ 60 ≤ Vn

theorem close_refl (n : Nat) : Close n n := by
  unfold Close; simp

theorem close_of_interval {B W Pn Vn S0 : Nat} (hP1 : B ≤ Pn) (hP2 : Pn < B + W) (hV1 : B ≤ Vn)
    (hV2 : Vn < B + W) (hB : W * S0 = B) (hK : 2 ^ 60 ≤ S0) : Close Pn Vn := by
  have h1 : W * 2 ^ 60 ≤ W * S0 := Nat.mul_le_mul_left W hK
  unfold Close
  generalize 2 ^ 60 = T at *
  constructor
  · have : (Vn - Pn) * T ≤ W * T := Nat.mul_le_mul_right _ (by omega)
    omega
  · have : (Pn - Vn) * T ≤ W * T := Nat.mul_le_mul_right _ (by omega)
    omega

theorem two60_le_of_ovf {S d : Nat} (hd : d < 10) (h : u64Max < S * 10 + d) : 2 ^ 60 ≤ S := by
  unfold u64Max at h; omega

/-- interval arithmetic for the case "integer part overflowed, fraction follows" -/
theorem interval_B2 {S0 S pt pf pk dd F : Nat} (hpt : 0 < pt) (hdd : dd < pt) (hF : F < pf)
    (h2 : S0 * pf ≤ S * pk) (h3 : S * pk ≤ S0 * pf + F) :
    S0 * pt * pf ≤ S * pk * pt ∧ S * pk * pt < S0 * pt * pf + pt * pf ∧
    S0 * pt * pf ≤ (S0 * pt + dd) * pf + F ∧ (S0 * pt + dd) * pf + F < S0 * pt * pf + pt * pf := by
  have a1 := Nat.mul_le_mul_right pt h2
  have a2 : (S * pk + 1) * pt ≤ (S0 * pf + pf) * pt := Nat.mul_le_mul_right pt (by omega)
  have a3 : (S0 * pt + dd + 1) * pf ≤ (S0 * pt + pt) * pf := Nat.mul_le_mul_right pf (by omega)
  have e1 : S0 * pf * pt = S0 * pt * pf := by grind
  have e2 : (S * pk + 1) * pt = S * pk * pt + pt := by grind
  have e3 : (S0 * pf + pf) * pt = S0 * pt * pf + pt * pf := by grind
  have e4 : (S0 * pt + dd + 1) * pf = (S0 * pt + dd) * pf + pf := by grind
  have e5 : (S0 * pt + pt) * pf = S0 * pt * pf + pt * pf := by grind
  have e6 : (S0 * pt + dd) * pf = S0 * pt * pf + dd * pf := by grind
  refine ⟨by omega, by omega, by omega, by omega⟩

/-- What the scanners keep of the digits after the integer part (`scanTail`), against the exact
    value: integer part `I = S0 * 10^t + dd` of which `S0` was kept and `t` digits (value `dd`)
    were dropped; `t = 0` if nothing was dropped, else `S0 ≥ 2^60`. -/
theorem tail_close (fp : Option (List UInt8)) (ex : Option ExpPart) (S0 t dd : Nat)
    (hfp : ∀ g, fp = some g → AllDigits g) (hdd : dd < 10 ^ t) (hS : t = 0 ∨ 2 ^ 60 ≤ S0)
    (hsm : t + (fp.getD []).length + exAbs ex ≤ i32Max) :
    ∃ Pn Vn : Nat, ∃ q : Int,
      dec (scanTail fp ex S0 (t : Int)).1 (scanTail fp ex S0 (t : Int)).2 = dec Pn q ∧
      dec (dv (S0 * 10 ^ t + dd) (fp.getD [])) (exVal ex - ((fp.getD []).length : Int)) = dec Vn q ∧
      Close Pn Vn := by
  have hpt : 0 < 10 ^ t := Nat.pow_pos (by decide)
  cases fp with
  | none =>
    simp only [scanTail, Option.getD_none, List.length_nil, dv_nil, Int.natCast_zero, Int.sub_zero,
      Nat.add_zero] at hsm ⊢
    rw [finExp_gen (t : Int) ex (by omega)]
    refine ⟨S0 * 10 ^ t, S0 * 10 ^ t + dd, exVal ex, ?_, rfl, ?_⟩
    · rw [dec_shift]; congr 1; omega
    · rcases hS with h0 | hK
      · subst h0
        have : dd = 0 := by simpa using hdd
        subst this
        exact close_refl _
      · exact close_of_interval (B := S0 * 10 ^ t) (W := 10 ^ t) (Nat.le_refl _) (by omega)
          (by omega) (by omega) (Nat.mul_comm _ _) hK
  | some f =>
    have hf := hfp f rfl
    simp only [scanTail, Option.getD_some] at hsm ⊢
    obtain ⟨j, k, h0, h1, h2, h3, h4, h5⟩ := fracScan_inv f S0 (t : Int) 0 hf
    have hjk : j + k = f.length := by omega
    have hF := dv_lt f hf
    rw [h1, finExp_gen _ ex (by omega)]
    generalize (fracScan f S0 (t : Int) 0).1 = S at *
    rw [dv_acc f (S0 * 10 ^ t + dd), ← hjk]
    rw [← hjk] at hF
    refine ⟨S * 10 ^ k * 10 ^ t, (S0 * 10 ^ t + dd) * 10 ^ (j + k) + dv 0 f,
      exVal ex - ((j + k : Nat) : Int), ?_, rfl, ?_⟩
    · rw [← pow_split, dec_shift]; congr 1; omega
    · rcases hS with h0 | hK
      · subst h0
        have : dd = 0 := by simpa using hdd
        subst this
        simp only [Nat.pow_zero, Nat.mul_one, Nat.add_zero]
        rcases h5 with heq | hov
        · rw [heq]; exact close_refl _
        · have hK : 2 ^ 60 ≤ S := two60_le_of_ovf (d := 9) (by decide) hov
          rw [Nat.succ_mul] at h4
          exact close_of_interval (B := S * 10 ^ k) (W := 10 ^ k) (Nat.le_refl _)
            (by have := Nat.pow_pos (a := 10) (n := k) (by decide); omega) h3 h4
            (Nat.mul_comm _ _) hK
      · obtain ⟨b1, b2, b3, b4⟩ := interval_B2 (S0 := S0) (S := S) (pt := 10 ^ t)
          (pf := 10 ^ (j + k)) (pk := 10 ^ k) (dd := dd) (F := dv 0 f) hpt hdd hF h2 h3
        exact close_of_interval (B := S0 * 10 ^ t * 10 ^ (j + k)) (W := 10 ^ t * 10 ^ (j + k))
          b1 b2 b3 b4 (by grind) hK

/-- the pair the scanners hand to `f64_from_parts` for an arbitrary literal, against the exact
    value of the literal -/
theorem scanT_close (L : DecLit) (hipd : AllDigits L.ip)
    (hfp : ∀ g, L.fp = some g → AllDigits g)
    (hsm : L.ip.length + (L.fp.getD []).length + exAbs L.ex ≤ i32Max) :
    ∃ Pn Vn : Nat, ∃ q : Int,
      dec L.scanT.1 L.scanT.2 = dec Pn q ∧ litValue L = dec Vn q ∧ Close Pn Vn := by
  obtain ⟨ip, fp, ex⟩ := L
  simp only [] at hipd hfp hsm
  unfold litValue DecLit.scanT DecLit.rawSig DecLit.rawExp DecLit.expVal
  simp only []
  rw [dv_append]
  rcases int_split ip 0 (by decide) with hfit | ⟨pre, d, more, rfl, hpre, hov⟩
  · rw [intScan_fits ip 0 hipd hfit]
    have := tail_close fp ex (dv 0 ip) 0 0 hfp (by decide) (Or.inl rfl) (by omega)
    simpa using this
  · rw [intScan_split pre 0 d more hipd hpre hov]
    have hdm : AllDigits (d :: more) := fun x hx => hipd x (by simp at hx ⊢; exact Or.inr hx)
    have hd10 := (isDigit_val d hdm.head).1
    have hK := two60_le_of_ovf hd10 hov
    have hdd := dv_lt (d :: more) hdm
    have hI : dv 0 (pre ++ d :: more) =
        dv 0 pre * 10 ^ (more.length + 1) + dv 0 (d :: more) := by
      rw [dv_append, dv_acc (d :: more) (dv 0 pre)]; rfl
    have hlen : (pre ++ d :: more).length = pre.length + (more.length + 1) := by simp
    rw [hI]
    exact tail_close fp ex (dv 0 pre) (more.length + 1) (dv 0 (d :: more)) hfp hdd (Or.inr hK)
      (by omega)

/-! ## 5. From `Nat` to `Rat` -/

/-- `2^-60` -/
def d60 : Rat := 1 / 2 ^ 60

theorem close_rat {Pn Vn : Nat} (q : Int) (h : Close Pn Vn) :
    dec Vn q * (1 - d60) ≤ dec Pn q ∧ dec Pn q ≤ dec Vn q * (1 + d60) := by
  obtain ⟨h1, h2⟩ := h
  have ht := ten_zpow_pos q
  have hT : ((2 ^ 60 : Nat) : Rat) * d60 = 1 := by decide +kernel
  have key : (Vn : Rat) * (1 - d60) ≤ (Pn : Rat) ∧ (Pn : Rat) ≤ (Vn : Rat) * (1 + d60) := by
    rcases Nat.le_total Pn Vn with hle | hle
    · obtain ⟨m, rfl⟩ := Nat.exists_eq_add_of_le hle
      have e : Pn + m - Pn = m := by omega
      rw [e] at h1
      have c1 := Rat.natCast_le_natCast.mpr h1
      rw [Rat.natCast_mul, Rat.natCast_add] at c1
      rw [Rat.natCast_add]
      have hm : (0 : Rat) ≤ (m : Rat) := by
        have := Rat.natCast_le_natCast.mpr (Nat.zero_le m); simpa using this
      have hd : (0 : Rat) ≤ d60 := by decide +kernel
      have c2 := Rat.mul_le_mul_of_nonneg_right c1 hd
      have e2 : (m : Rat) * ((2 ^ 60 : Nat) : Rat) * d60 = (m : Rat) := by
        rw [Rat.mul_assoc, hT, Rat.mul_one]
      rw [e2] at c2
      have hp : (0 : Rat) ≤ (Pn : Rat) := by
        have := Rat.natCast_le_natCast.mpr (Nat.zero_le Pn); simpa using this
      have := Rat.mul_nonneg (Rat.add_nonneg hp hm) hd
      constructor <;> grind
    · obtain ⟨m, rfl⟩ := Nat.exists_eq_add_of_le hle
      have e : Vn + m - Vn = m := by omega
      rw [e] at h2
      have c1 := Rat.natCast_le_natCast.mpr h2
      rw [Rat.natCast_mul] at c1
      rw [Rat.natCast_add]
      have hm : (0 : Rat) ≤ (m : Rat) := by
        have := Rat.natCast_le_natCast.mpr (Nat.zero_le m); simpa using this
      have hd : (0 : Rat) ≤ d60 := by decide +kernel
      have c2 := Rat.mul_le_mul_of_nonneg_right c1 hd
      have e2 : (m : Rat) * ((2 ^ 60 : Nat) : Rat) * d60 = (m : Rat) := by
        rw [Rat.mul_assoc, hT, Rat.mul_one]
      rw [e2] at c2
      have hv : (0 : Rat) ≤ (Vn : Rat) := by
        have := Rat.natCast_le_natCast.mpr (Nat.zero_le Vn); simpa using this
      have := Rat.mul_nonneg hv hd
      constructor <;> grind
  unfold dec
  have a := Rat.mul_le_mul_of_nonneg_right key.1 (Rat.le_of_lt ht)
  have b := Rat.mul_le_mul_of_nonneg_right key.2 (Rat.le_of_lt ht)
  constructor <;> grind

/-! ## 6. Every float literal -/

theorem comb_hi : (1 + d60) * (1 + cTight) ≤ 1 + c50 := by decide +kernel
theorem comb_lo : 1 - c50 ≤ (1 - d60) * (1 - cTight) := by decide +kernel
theorem one_sub_cTight_nonneg : 0 ≤ 1 - cTight := by decide +kernel
theorem one_add_cTight_nonneg : 0 ≤ 1 + cTight := by decide +kernel

/-- rounding bound relative to the kept value `P`, truncation bound of `P` relative to the exact
    value `V`: together within `2^-50` and `2^-1074` of `V` -/
theorem combine {P V v : Rat} (hV : 0 ≤ V) (hP1 : V * (1 - d60) ≤ P) (hP2 : P ≤ V * (1 + d60))
    (h1 : P * (1 - cTight) - aTight ≤ v) (h2 : v ≤ P * (1 + cTight) + aTight) :
    V * (1 - c50) - a1074 ≤ v ∧ v ≤ V * (1 + c50) + a1074 := by
  have a1 := Rat.mul_le_mul_of_nonneg_right hP1 one_sub_cTight_nonneg
  have a2 := Rat.mul_le_mul_of_nonneg_right hP2 one_add_cTight_nonneg
  have b1 := Rat.mul_le_mul_of_nonneg_left comb_lo hV
  have b2 := Rat.mul_le_mul_of_nonneg_left comb_hi hV
  have := aTight_le
  constructor <;> grind

/-- **C05_accuracy_any_literal.**  Every decimal float literal, of any length (hypotheses of
    `Decimals.C05_scan_any`, with the exponent arithmetic inside `i32` including the fraction
    digits): consumed entirely, and either rejected with `NumberOutOfRange` or read as `±g`, `g` a
    finite double with

      `|g - value| ≤ 2^-50 * value + 2^-1074`,

    `value = litValue L` the exact value of all written digits.  This includes the truncation
    error of the scanners, which keep a `u64` prefix of the digits (relative error below
    `2^-60`: the kept significand is at least `(u64::MAX - 8) / 10`) — and, after an integer part
    that overflowed, shift fraction digits into the place of dropped integer digits. -/
theorem C05_accuracy_any_literal (cfg : Cfg) (fuel : Nat) (pos : Bool) (L : DecLit)
    (rest : List UInt8) (s : St)
    (hipne : L.ip ≠ []) (hipd : AllDigits L.ip)
    (hfp : ∀ g, L.fp = some g → g ≠ [] ∧ AllDigits g) (hex : ∀ e, L.ex = some e → e.WF)
    (hfloat : L.fp.isSome = true ∨ L.ex.isSome = true ∨ u64Max < dv 0 L.ip)
    (hrest : s.rd.rest = L.text ++ rest) (hstop : ScanStop rest)
    (hdot : L.fp = none → L.ex = none → (rest.head?.getD 0 == 46) = false)
    (hf : rest = [] → s.rd.faulty = false)
    (hsmall : L.ip.length + (L.fp.getD []).length + exAbs L.ex ≤ i32Max)
    (hfuel : L.text.length + 1 ≤ fuel)
    (hp : cfg.fast = true → ∀ k, k ≤ 308 → cfg.pow10 k = rn (10 ^ k) 1) :
    (∃ g, parseNumLiteral cfg fuel 10 pos s =
        .ok (Number.flt (signed pos g)) (adv s L.text.length (endPeek s rest)) ∧
      g < infBits ∧
      litValue L * (1 - c50) - a1074 ≤ val g ∧ val g ≤ litValue L * (1 + c50) + a1074) ∨
    parseNumLiteral cfg fuel 10 pos s =
      errAt .numberOutOfRange (adv s L.text.length (endPeek s rest)) := by
  obtain ⟨h1, h2, -⟩ := C05_scan_any cfg fuel pos L rest s hipne hipd hfp hex hfloat hrest hstop hdot
    hf (by omega) hfuel
  rw [h1]
  rcases f64FromParts_cases cfg pos L.scanT.1 L.scanT.2 (adv s L.text.length (endPeek s rest)) with
    ⟨r, hr⟩ | he
  · obtain ⟨g, e1, _, e3, ⟨e4, e5⟩, _⟩ :=
      C05_accuracy_parts_tight cfg pos L.scanT.1 L.scanT.2 _ _ r h2 hp hr
    obtain ⟨Pn, Vn, q, c1, c2, c3⟩ := scanT_close L hipd (fun g hg => (hfp g hg).2) hsmall
    obtain ⟨t1, t2⟩ := close_rat q c3
    rw [← c1, ← c2] at t1 t2
    have hV : 0 ≤ litValue L := by rw [c2]; exact dec_nonneg _ _
    subst e1
    exact Or.inl ⟨g, by simp only [bind_apply, hr, pure_apply], e3, combine hV t1 t2 e4 e5⟩
  · exact Or.inr (by simp only [bind_apply, he, errAt])

#print axioms C05_accuracy_any_literal

end Accuracy
end Lexpr
