/-
  Utf8InputAllOptsBase — C17, input clause, for EVERY option set: the tools.

  The Emacs Lisp string syntax has two ways of accepting a string whose text is not valid UTF-8
  when the result is a string (`Utf8InputLoop`: flags `hi`, `bl`) and one more when the result is a
  byte string (`nc`).  All three need a backslash that is directly followed by a blank, by `x`, or by
  an octal digit (a byte string exists only after a numeric escape).  `NoByteEsc l` says that `l`
  has no such backslash; it is a SYNTACTIC condition on the input, closed under taking infixes.

  * `parseElispEscape_unibyte_head`: an escape of kind `Unibyte` was dispatched on `x` or on an
    octal digit;
  * `parseElispStrT_clean`: over a body that satisfies `NoByteEsc`, the instrumented loop entered
    with `ub = false` and the flags `hi`, `bl` down ends with a string (never a byte string) and
    with `hi`, `bl` down;
  * `parseElispStr_vc`: so the body consumed is valid UTF-8;
  * after the repair of the escaped blank (`parse_elisp_escape` rejects a continuation byte behind
    `\ `): `NoNumEsc` (only `x` and octal digits are excluded), `parseElispStrT_clean_num`,
    `parseElispStr_vc_num`, and the `_num` versions of the theorems below; the `NoByteEsc`
    statements are corollaries (`NoByteEsc.toNum`);
  * `parseToken_vc_all`: every token, every option set (the proof of `InTok.parseToken_vc` with
    the string arm split on the string syntax).
-/
import LexprModel.Proofs.Utf8InputTok
namespace Lexpr
namespace Parse
namespace InAllOpts
open Utf8 Utf8.U8 Parse.U8 InLoop InTok Image

/-! ### the syntactic condition -/

/-- no backslash of `l` is directly followed by a blank, by `x`, or by an octal digit -/
def NoByteEsc (l : List UInt8) : Prop :=
  ∀ pre c post, l = pre ++ 92 :: c :: post → c ≠ 32 ∧ c ≠ 120 ∧ ¬ (48 ≤ c ∧ c ≤ 55)

theorem NoByteEsc.suffix {p l : List UInt8} (h : NoByteEsc (p ++ l)) : NoByteEsc l := by
  intro pre c post hl
  exact h (p ++ pre) c post (by rw [hl, List.append_assoc])

theorem NoByteEsc.prefix {l q : List UInt8} (h : NoByteEsc (l ++ q)) : NoByteEsc l := by
  intro pre c post hl
  exact h pre c (post ++ q) (by rw [hl]; simp)

/-- closed under taking infixes -/
theorem NoByteEsc.infix {p l q : List UInt8} (h : NoByteEsc (p ++ l ++ q)) : NoByteEsc l :=
  (NoByteEsc.prefix h).suffix

theorem NoByteEsc.of_suffix {l l' : List UInt8} (h : NoByteEsc l) (hs : l' <:+ l) :
    NoByteEsc l' := by
  obtain ⟨p, rfl⟩ := hs
  exact h.suffix

theorem NoByteEsc.nil : NoByteEsc [] := by
  intro pre c post h
  cases pre <;> cases h

/-- the byte allowed after a backslash -/
def okAfter (c : UInt8) : Bool := c != 32 && c != 120 && !(decide (48 ≤ c) && decide (c ≤ 55))

/-- the condition, as a program -/
def noByteEscB : List UInt8 → Bool
  | [] => true
  | b :: t => (b != 92 || (match t with | [] => true | c :: _ => okAfter c)) && noByteEscB t

theorem okAfter_spec {c : UInt8} (h : okAfter c = true) :
    c ≠ 32 ∧ c ≠ 120 ∧ ¬ (48 ≤ c ∧ c ≤ 55) := by
  simp only [okAfter, Bool.and_eq_true, bne_iff_ne, ne_eq, Bool.not_eq_true',
    Bool.and_eq_false_iff, decide_eq_false_iff_not] at h
  refine ⟨h.1.1, h.1.2, fun hc => ?_⟩
  rcases h.2 with h2 | h2
  · exact h2 hc.1
  · exact h2 hc.2

theorem noByteEscB_spec : ∀ {l : List UInt8}, noByteEscB l = true → NoByteEsc l
  | [], _ => NoByteEsc.nil
  | b :: t, h => by
    simp only [noByteEscB, Bool.and_eq_true, Bool.or_eq_true, bne_iff_ne, ne_eq] at h
    obtain ⟨h1, h2⟩ := h
    intro pre c post hl
    cases pre with
    | nil =>
      simp only [List.nil_append, List.cons.injEq] at hl
      obtain ⟨rfl, rfl⟩ := hl
      rcases h1 with h1 | h1
      · exact absurd rfl h1
      · exact okAfter_spec h1
    | cons x pre' =>
      simp only [List.cons_append, List.cons.injEq] at hl
      exact noByteEscB_spec h2 pre' c post hl.2

/-- a text without backslash satisfies the condition -/
theorem NoByteEsc.of_no92 {l : List UInt8} (h : ∀ b ∈ l, b ≠ 92) : NoByteEsc l := by
  intro pre c post hl
  exact absurd rfl (h 92 (by rw [hl]; simp))

/-! ### the condition after the repair of the escaped blank

  With the check behind an escaped blank (`parse_elisp_escape`, the arm `b' '`) the blank no longer
  joins a sequence, and the condition only has to exclude the NUMERIC escapes. -/

/-- no backslash of `l` is directly followed by `x` or by an octal digit -/
def NoNumEsc (l : List UInt8) : Prop :=
  ∀ pre c post, l = pre ++ 92 :: c :: post → c ≠ 120 ∧ ¬ (48 ≤ c ∧ c ≤ 55)

theorem NoByteEsc.toNum {l : List UInt8} (h : NoByteEsc l) : NoNumEsc l :=
  fun pre c post hl => (h pre c post hl).2

theorem NoNumEsc.suffix {p l : List UInt8} (h : NoNumEsc (p ++ l)) : NoNumEsc l := by
  intro pre c post hl
  exact h (p ++ pre) c post (by rw [hl, List.append_assoc])

theorem NoNumEsc.prefix {l q : List UInt8} (h : NoNumEsc (l ++ q)) : NoNumEsc l := by
  intro pre c post hl
  exact h pre c (post ++ q) (by rw [hl]; simp)

theorem NoNumEsc.nil : NoNumEsc [] := by
  intro pre c post h
  cases pre <;> cases h

/-- the byte allowed after a backslash -/
def okAfterNum (c : UInt8) : Bool := c != 120 && !(decide (48 ≤ c) && decide (c ≤ 55))

/-- the condition, as a program -/
def noNumEscB : List UInt8 → Bool
  | [] => true
  | b :: t => (b != 92 || (match t with | [] => true | c :: _ => okAfterNum c)) && noNumEscB t

theorem okAfterNum_spec {c : UInt8} (h : okAfterNum c = true) :
    c ≠ 120 ∧ ¬ (48 ≤ c ∧ c ≤ 55) := by
  simp only [okAfterNum, Bool.and_eq_true, bne_iff_ne, ne_eq, Bool.not_eq_true',
    Bool.and_eq_false_iff, decide_eq_false_iff_not] at h
  refine ⟨h.1, fun hc => ?_⟩
  rcases h.2 with h2 | h2
  · exact h2 hc.1
  · exact h2 hc.2

theorem noNumEscB_spec : ∀ {l : List UInt8}, noNumEscB l = true → NoNumEsc l
  | [], _ => NoNumEsc.nil
  | b :: t, h => by
    simp only [noNumEscB, Bool.and_eq_true, Bool.or_eq_true, bne_iff_ne, ne_eq] at h
    obtain ⟨h1, h2⟩ := h
    intro pre c post hl
    cases pre with
    | nil =>
      simp only [List.nil_append, List.cons.injEq] at hl
      obtain ⟨rfl, rfl⟩ := hl
      rcases h1 with h1 | h1
      · exact absurd rfl h1
      · exact okAfterNum_spec h1
    | cons x pre' =>
      simp only [List.cons_append, List.cons.injEq] at hl
      exact noNumEscB_spec h2 pre' c post hl.2

/-! ### which escapes report `Unibyte` -/

set_option hygiene false in
local macro "uni_one" : tactic => `(tactic| (
  rcases ite_ok h with ⟨_, h⟩ | ⟨_, h⟩
  · obtain ⟨h1, _⟩ := pure_ok h
    cases h1))

/-- **An escape of kind `Unibyte` was dispatched on `x` or on an octal digit.** -/
theorem parseElispEscape_unibyte_head {fuel : Nat} {acc acc' : List UInt8} {s s' : St}
    (h : parseElispEscape fuel acc s = .ok (acc', .unibyte) s') :
    ∃ c tl, s.rd.rest = c :: tl ∧ (c = 120 ∨ (48 ≤ c ∧ c ≤ 55)) := by
  unfold parseElispEscape at h
  obtain ⟨c, s1, hn, h⟩ := bind_ok h
  obtain ⟨_, hr1⟩ := nextOrEof_ok hn
  refine ⟨c, s1.rd.rest, hr1, ?_⟩
  uni_one; uni_one
  -- the escaped blank
  rcases ite_ok h with ⟨_, h⟩ | ⟨_, h⟩
  · obtain ⟨h1, _⟩ := blank_arm_ok h
    cases h1
  uni_one; uni_one; uni_one; uni_one; uni_one; uni_one; uni_one
  uni_one; uni_one; uni_one
  -- `^`
  rcases ite_ok h with ⟨_, h⟩ | ⟨_, h⟩
  · obtain ⟨k0, s2, _, h⟩ := bind_ok h
    rcases ite_ok h with ⟨_, h⟩ | ⟨_, h⟩
    · obtain ⟨h1, _⟩ := pure_ok h
      cases h1
    · simp [errAt] at h
  -- `N{U+…}`
  rcases ite_ok h with ⟨_, h⟩ | ⟨_, h⟩
  · exfalso
    obtain ⟨b1, s2, _, h⟩ := bind_ok h
    rcases ite_ok h with ⟨_, h⟩ | ⟨_, h⟩
    · simp [errAt] at h
    obtain ⟨b2, s3, _, h⟩ := bind_ok h
    rcases ite_ok h with ⟨_, h⟩ | ⟨_, h⟩
    · simp [errAt] at h
    obtain ⟨b3, s4, _, h⟩ := bind_ok h
    rcases ite_ok h with ⟨_, h⟩ | ⟨_, h⟩
    · simp [errAt] at h
    obtain ⟨n, s5, _, h⟩ := bind_ok h
    have tail : ∀ {s6 : St},
        (do let r ← elispUniCharEscape acc n
            let b4 ← nextOrEof
            if b4 != 125 then errAt .invalidEscape else pure r : P _) s6 = .ok (acc', .unibyte) s' →
        False := by
      intro s6 h
      obtain ⟨⟨a1, k1⟩, s7, hu, h⟩ := bind_ok h
      obtain ⟨_, hk, _, _⟩ := elispUniCharEscape_ok hu
      obtain ⟨b4, s8, _, h⟩ := bind_ok h
      rcases ite_ok h with ⟨_, h⟩ | ⟨_, h⟩
      · simp [errAt] at h
      obtain ⟨h1, _⟩ := pure_ok h
      cases h1
      cases hk
    rcases ite_ok h with ⟨_, h⟩ | ⟨_, h⟩
    · obtain ⟨o, s6, _, h⟩ := bind_ok h
      cases o with
      | none => simp [errAt] at h
      | some x => exact tail h
    · exact tail h
  -- `u`
  rcases ite_ok h with ⟨_, h⟩ | ⟨_, h⟩
  · obtain ⟨n, s2, _, h⟩ := bind_ok h
    obtain ⟨_, hk, _, _⟩ := elispUniCharEscape_ok h
    cases hk
  -- `U`
  rcases ite_ok h with ⟨_, h⟩ | ⟨_, h⟩
  · obtain ⟨n, s2, _, h⟩ := bind_ok h
    obtain ⟨_, hk, _, _⟩ := elispUniCharEscape_ok h
    cases hk
  -- `x`
  rcases ite_ok h with ⟨hc, h⟩ | ⟨_, h⟩
  · exact Or.inl (eq_of_beq hc)
  -- octal
  rcases ite_ok h with ⟨hc, h⟩ | ⟨_, h⟩
  · simp only [Bool.and_eq_true, decide_eq_true_eq] at hc
    exact Or.inr hc
  rcases ite_ok h with ⟨_, h⟩ | ⟨_, h⟩
  · simp [errAt] at h
  · obtain ⟨h1, _⟩ := pure_ok h
    cases h1

/-! ### the loop over a body that satisfies the condition -/

/-- **Over a body without byte escapes and escaped blanks the loop never leaves the clean
    case**: entered with `ub = false` and `hi`, `bl` down, it ends with a string — never a byte
    string — and with `hi`, `bl` down.  `w` is the body consumed in front of the closing quote. -/
theorem parseElispStrT_clean (f : Nat) : ∀ {acc : List UInt8} {ub mb na : Bool} {fl0 fl : Flags}
    {S S' : St} {r : ElispStr}, parseElispStrT f acc ub mb na fl0 S = .ok (r, fl) S' →
    ∃ w, S.rd.rest = w ++ 34 :: S'.rd.rest ∧
      (NoByteEsc w → ub = false → fl0.hi = false → fl0.bl = false →
        fl.hi = false ∧ fl.bl = false ∧ ∃ s, r = .multibyte s) := by
  induction f with
  | zero => intro acc ub mb na fl0 fl S S' r h; simp [parseElispStrT, outOfFuel] at h
  | succ f ih =>
    intro acc ub mb na fl0 fl S S' r h
    simp only [parseElispStrT] at h
    obtain ⟨c, s1, hn, h⟩ := bind_ok h
    obtain ⟨_, hr⟩ := nextOrEof_ok hn
    rcases ite_ok h with ⟨h34, h⟩ | ⟨_, h⟩
    · -- the closing quote
      rw [eq_of_beq h34] at hr
      rcases ite_ok h with ⟨hu, h⟩ | ⟨_, h⟩
      · obtain ⟨h1, h2⟩ := pure_ok h
        cases h1; subst h2
        refine ⟨[], hr, fun _ hub _ _ => ?_⟩
        subst hub
        simp at hu
      · obtain ⟨o, s2, hf, h⟩ := bind_ok h
        obtain ⟨h1, h2⟩ := pure_ok h
        cases h1; subst h2
        have hs2 := finishStr_state hf
        subst hs2
        exact ⟨[], hr, fun _ _ hhi hbl => ⟨hhi, hbl, _, rfl⟩⟩
    rcases ite_ok h with ⟨h92, h⟩ | ⟨_, h⟩
    · -- an escape
      rw [eq_of_beq h92] at hr
      obtain ⟨rest, s1', hg, h⟩ := bind_ok h
      have hg' : s1.rd.rest = rest ∧ s1 = s1' := by
        simp only [getRest, Res.ok.injEq] at hg
        exact ⟨hg.1, hg.2⟩
      obtain ⟨rfl, rfl⟩ := hg'
      obtain ⟨⟨acc', k⟩, s2, he, h⟩ := bind_ok h
      obtain ⟨c', t, out, hr1, rfl, hsh⟩ := parseElispEscape_shape he
      have hrec : ∃ ub' mb', parseElispStrT f (acc ++ out) ub' mb' na
          (fl0.or (escFlags acc s1.rd.rest (acc ++ out) k)) s2 = .ok (r, fl) S' ∧
          (k ≠ .unibyte → ub' = ub) := by
        cases k
        · exact ⟨_, _, h, fun hk => absurd rfl hk⟩
        · exact ⟨_, _, h, fun _ => rfl⟩
        · exact ⟨_, _, h, fun _ => rfl⟩
      obtain ⟨ub', mb', hrec, hub'⟩ := hrec
      obtain ⟨w2, hr2, himp⟩ := ih hrec
      refine ⟨92 :: c' :: t ++ w2, by rw [hr, hr1, hr2]; simp, fun hnb hub hhi hbl => ?_⟩
      obtain ⟨hc32, hc120, hcoct⟩ := hnb [] c' (t ++ w2) (by simp)
      have hk : k ≠ .unibyte := by
        intro hk
        subst hk
        obtain ⟨c2, tl, hr3, hc2⟩ := parseElispEscape_unibyte_head he
        have : c2 = c' := by rw [hr1] at hr3; cases hr3; rfl
        subst this
        rcases hc2 with hc2 | hc2
        · exact hc120 hc2
        · exact hcoct hc2
      have hnb2 : NoByteEsc w2 := by
        have : 92 :: c' :: t ++ w2 = (92 :: c' :: t) ++ w2 := rfl
        rw [this] at hnb
        exact hnb.suffix
      have hhead : s1.rd.rest.head? = some c' := by rw [hr1]; rfl
      have hhi' : (fl0.or (escFlags acc s1.rd.rest (acc ++ out) k)).hi = false := by
        cases k
        · exact absurd rfl hk
        · simp only [Flags.or, escFlags, hhi, Bool.false_or]
        · simp only [Flags.or, escFlags, hhi, Bool.false_or]
      have hbl' : (fl0.or (escFlags acc s1.rd.rest (acc ++ out) k)).bl = false := by
        simp only [Flags.or, escFlags, hbl, Bool.false_or, hhead, Bool.and_eq_false_iff]
        left
        simp only [beq_eq_false_iff_ne, ne_eq, Option.some.injEq]
        exact hc32
      exact himp hnb2 ((hub' hk).trans hub) hhi' hbl'
    · -- a raw byte
      obtain ⟨w2, hr2, himp⟩ := ih h
      refine ⟨c :: w2, by rw [hr, hr2]; rfl, fun hnb hub hhi hbl => ?_⟩
      exact himp (NoByteEsc.suffix (p := [c]) hnb) hub hhi hbl

/-- **Emacs Lisp strings over a body that satisfies the condition**: the result is a string and
    the body consumed — up to and including the closing quote — is valid UTF-8. -/
theorem parseElispStr_vc {fuel : Nat} {S S' : St} {r : ElispStr}
    (h : parseElispStr fuel [] false false false S = .ok r S')
    (hnb : ∀ w, S.rd.rest = w ++ S'.rd.rest → NoByteEsc w) :
    VC S S' ∧ ∃ s, r = .multibyte s := by
  obtain ⟨fl, ht⟩ := parseElispStrT_of_ok {} h
  obtain ⟨w0, hr0, himp⟩ := parseElispStrT_clean fuel ht
  have hw : S.rd.rest = (w0 ++ [34]) ++ S'.rd.rest := by rw [hr0]; simp
  have hnb0 : NoByteEsc w0 := (hnb _ hw).prefix
  obtain ⟨hhi, hbl, s, rfl⟩ := himp hnb0 rfl rfl rfl
  have hm := ((SufP.parseElispStr fuel [] false false false).ok _ _ _ h).1
  exact ⟨⟨hm, w0 ++ [34], C17_elisp_input_valid ht valid_nil hw hhi hbl, hw⟩, s, rfl⟩

/-- **Over a body without numeric escapes the loop never leaves the clean case** (after the
    repair of the escaped blank, which may now occur): entered with `ub = false` and `hi` down, it
    ends with a string — never a byte string — and with `hi` down. -/
theorem parseElispStrT_clean_num (f : Nat) : ∀ {acc : List UInt8} {ub mb na : Bool}
    {fl0 fl : Flags} {S S' : St} {r : ElispStr},
    parseElispStrT f acc ub mb na fl0 S = .ok (r, fl) S' →
    ∃ w, S.rd.rest = w ++ 34 :: S'.rd.rest ∧
      (NoNumEsc w → ub = false → fl0.hi = false → fl.hi = false ∧ ∃ s, r = .multibyte s) := by
  induction f with
  | zero => intro acc ub mb na fl0 fl S S' r h; simp [parseElispStrT, outOfFuel] at h
  | succ f ih =>
    intro acc ub mb na fl0 fl S S' r h
    simp only [parseElispStrT] at h
    obtain ⟨c, s1, hn, h⟩ := bind_ok h
    obtain ⟨_, hr⟩ := nextOrEof_ok hn
    rcases ite_ok h with ⟨h34, h⟩ | ⟨_, h⟩
    · -- the closing quote
      rw [eq_of_beq h34] at hr
      rcases ite_ok h with ⟨hu, h⟩ | ⟨_, h⟩
      · obtain ⟨h1, h2⟩ := pure_ok h
        cases h1; subst h2
        refine ⟨[], hr, fun _ hub _ => ?_⟩
        subst hub
        simp at hu
      · obtain ⟨o, s2, hf, h⟩ := bind_ok h
        obtain ⟨h1, h2⟩ := pure_ok h
        cases h1; subst h2
        have hs2 := finishStr_state hf
        subst hs2
        exact ⟨[], hr, fun _ _ hhi => ⟨hhi, _, rfl⟩⟩
    rcases ite_ok h with ⟨h92, h⟩ | ⟨_, h⟩
    · -- an escape
      rw [eq_of_beq h92] at hr
      obtain ⟨rest, s1', hg, h⟩ := bind_ok h
      have hg' : s1.rd.rest = rest ∧ s1 = s1' := by
        simp only [getRest, Res.ok.injEq] at hg
        exact ⟨hg.1, hg.2⟩
      obtain ⟨rfl, rfl⟩ := hg'
      obtain ⟨⟨acc', k⟩, s2, he, h⟩ := bind_ok h
      obtain ⟨c', t, out, hr1, rfl, hsh⟩ := parseElispEscape_shape he
      have hrec : ∃ ub' mb', parseElispStrT f (acc ++ out) ub' mb' na
          (fl0.or (escFlags acc s1.rd.rest (acc ++ out) k)) s2 = .ok (r, fl) S' ∧
          (k ≠ .unibyte → ub' = ub) := by
        cases k
        · exact ⟨_, _, h, fun hk => absurd rfl hk⟩
        · exact ⟨_, _, h, fun _ => rfl⟩
        · exact ⟨_, _, h, fun _ => rfl⟩
      obtain ⟨ub', mb', hrec, hub'⟩ := hrec
      obtain ⟨w2, hr2, himp⟩ := ih hrec
      refine ⟨92 :: c' :: t ++ w2, by rw [hr, hr1, hr2]; simp, fun hnb hub hhi => ?_⟩
      obtain ⟨hc120, hcoct⟩ := hnb [] c' (t ++ w2) (by simp)
      have hk : k ≠ .unibyte := by
        intro hk
        subst hk
        obtain ⟨c2, tl, hr3, hc2⟩ := parseElispEscape_unibyte_head he
        have : c2 = c' := by rw [hr1] at hr3; cases hr3; rfl
        subst this
        rcases hc2 with hc2 | hc2
        · exact hc120 hc2
        · exact hcoct hc2
      have hnb2 : NoNumEsc w2 := by
        have : 92 :: c' :: t ++ w2 = (92 :: c' :: t) ++ w2 := rfl
        rw [this] at hnb
        exact hnb.suffix
      have hhi' : (fl0.or (escFlags acc s1.rd.rest (acc ++ out) k)).hi = false := by
        cases k
        · exact absurd rfl hk
        · simp only [Flags.or, escFlags, hhi, Bool.false_or]
        · simp only [Flags.or, escFlags, hhi, Bool.false_or]
      exact himp hnb2 ((hub' hk).trans hub) hhi'
    · -- a raw byte
      obtain ⟨w2, hr2, himp⟩ := ih h
      refine ⟨c :: w2, by rw [hr, hr2]; rfl, fun hnb hub hhi => ?_⟩
      exact himp (NoNumEsc.suffix (p := [c]) hnb) hub hhi

/-- **Emacs Lisp strings over a body without numeric escapes**: the result is a string and the
    body consumed — up to and including the closing quote — is valid UTF-8
    (`C17_elisp_input_valid_noblank`). -/
theorem parseElispStr_vc_num {fuel : Nat} {S S' : St} {r : ElispStr}
    (h : parseElispStr fuel [] false false false S = .ok r S')
    (hnb : ∀ w, S.rd.rest = w ++ S'.rd.rest → NoNumEsc w) :
    VC S S' ∧ ∃ s, r = .multibyte s := by
  obtain ⟨fl, ht⟩ := parseElispStrT_of_ok {} h
  obtain ⟨w0, hr0, himp⟩ := parseElispStrT_clean_num fuel ht
  have hw : S.rd.rest = (w0 ++ [34]) ++ S'.rd.rest := by rw [hr0]; simp
  have hnb0 : NoNumEsc w0 := (hnb _ hw).prefix
  obtain ⟨hhi, s, rfl⟩ := himp hnb0 rfl rfl
  have hm := ((SufP.parseElispStr fuel [] false false false).ok _ _ _ h).1
  exact ⟨⟨hm, w0 ++ [34], C17_elisp_input_valid_noblank ht valid_nil hw hhi, hw⟩, s, rfl⟩

/-! ### every token, every option set -/

/-- close a branch `pure tok0` at a state known to be fine -/
local macro "tok_done" h:ident hs:ident : tactic => `(tactic| (
  rw [← (pure_ok $h).2]; exact $hs))

/-- **Every token consumes a valid chunk, for every option set** (slice and stream sources).
    Under the Emacs Lisp string syntax the text of the token must satisfy `NoNumEsc`. -/
theorem parseToken_vc_all_num {cfg : Cfg} {fuel : Nat} {pk : UInt8} {s s' : St} {tok : Token}
    (h : parseToken cfg fuel pk s = .ok tok s') (hpk : s.rd.rest.head? = some pk)
    (hm : s.rd.mode ≠ .str)
    (hnb : cfg.opts.string = .elisp → ∀ w, s.rd.rest = w ++ s'.rd.rest → NoNumEsc w) :
    VC s s' := by
  have hs : VC s s := VC.refl s
  have hhead : pk < 0x80 → HeadA s := by
    intro hp b hb; rw [hpk] at hb; cases hb; exact hp
  unfold parseToken at h
  simp only [] at h
  -- '#'
  rcases ite_ok h with ⟨hc, h⟩ | ⟨_, h⟩
  · have hpka : pk < 0x80 := by rw [eq_of_beq hc]; decide
    obtain ⟨_, s1, hd, h⟩ := bind_ok h
    have hs1 : VC s s1 := hs.asuf (discard_asuf hd (hhead hpka))
    obtain ⟨a, s2, hn, h⟩ := bind_ok h
    obtain ⟨hm2, hr2⟩ := next_ok hn
    cases a with
    | none => simp [peekErr] at h
    | some c =>
      rcases hr2 with ⟨h0, _⟩ | ⟨c', hc', hr2⟩
      · cases h0
      cases hc'
      have step : ∀ k : UInt8, k < 0x80 → (c == k) = true → VC s s2 := by
        intro k hk hck; exact hs1.tail hm2 hr2 (by rw [eq_of_beq hck]; exact hk)
      rcases ite_ok h with ⟨hc, h⟩ | ⟨_, h⟩
      · have hs2 := step _ (by decide) hc; tok_done h hs2
      rcases ite_ok h with ⟨hc, h⟩ | ⟨_, h⟩
      · have hs2 := step _ (by decide) hc; tok_done h hs2
      rcases ite_ok h with ⟨hc, h⟩ | ⟨_, h⟩
      · have hs2 := step _ (by decide) hc
        obtain ⟨_, s3, hid, h⟩ := bind_ok h
        have hs3 := hs2.asuf (expectIdent_asuf _ hid (by decide))
        tok_done h hs3
      rcases ite_ok h with ⟨hc, h⟩ | ⟨_, h⟩
      · have hs2 := step _ (by decide) hc; tok_done h hs2
      rcases ite_ok h with ⟨hc, h⟩ | ⟨_, h⟩
      · simp only [Bool.and_eq_true] at hc
        have hs2 := step _ (by decide) hc.1
        obtain ⟨name, s3, hsym, h⟩ := bind_ok h
        obtain ⟨_, rfl⟩ := pure_ok h
        exact hs2.trans (parseSymbolBytes_vc hsym (hs2.ne_str hm) valid_nil)
      rcases ite_ok h with ⟨hc, h⟩ | ⟨_, h⟩
      · have hs2 := step _ (by decide) hc
        obtain ⟨_, s3, hid, h⟩ := bind_ok h
        have hs3 := hs2.asuf (expectIdent_asuf _ hid (by decide))
        tok_done h hs3
      rcases ite_ok h with ⟨hc, h⟩ | ⟨_, h⟩
      · have hs2 := step _ (by decide) hc
        obtain ⟨_, s3, hid, h⟩ := bind_ok h
        have hs3 := hs2.asuf (expectIdent_asuf _ hid (by decide))
        tok_done h hs3
      rcases ite_ok h with ⟨hc, h⟩ | ⟨_, h⟩
      · have hs2 := step _ (by decide) hc
        obtain ⟨n, s3, hnum, h⟩ := bind_ok h
        have hs3 := hs2.asuf (parseRadixToken_asuf hnum)
        tok_done h hs3
      rcases ite_ok h with ⟨hc, h⟩ | ⟨_, h⟩
      · have hs2 := step _ (by decide) hc
        obtain ⟨n, s3, hnum, h⟩ := bind_ok h
        have hs3 := hs2.asuf (parseRadixToken_asuf hnum)
        tok_done h hs3
      rcases ite_ok h with ⟨hc, h⟩ | ⟨_, h⟩
      · have hs2 := step _ (by decide) hc
        obtain ⟨n, s3, hnum, h⟩ := bind_ok h
        have hs3 := hs2.asuf (parseRadixToken_asuf hnum)
        tok_done h hs3
      rcases ite_ok h with ⟨hc, h⟩ | ⟨_, h⟩
      · have hs2 := step _ (by decide) hc
        obtain ⟨n, s3, hnum, h⟩ := bind_ok h
        have hs3 := hs2.asuf (parseRadixToken_asuf hnum)
        tok_done h hs3
      rcases ite_ok h with ⟨hc, h⟩ | ⟨_, h⟩
      · have hs2 := step _ (by decide) hc
        obtain ⟨ch, s3, hch, h⟩ := bind_ok h
        have hs3 := hs2.trans (parseR6rsChar_vc hch)
        tok_done h hs3
      rcases ite_ok h with ⟨hc, h⟩ | ⟨_, h⟩
      · simp only [Bool.and_eq_true] at hc
        have hs2 := step _ (by decide) hc.1
        obtain ⟨name, s3, hsym, h⟩ := bind_ok h
        obtain ⟨_, rfl⟩ := pure_ok h
        exact hs2.trans (parseSymbolBytes_vc hsym (hs2.ne_str hm) (by decide))
      · simp [peekErr] at h
  -- '-'
  rcases ite_ok h with ⟨hc, h⟩ | ⟨_, h⟩
  · have hpka : pk < 0x80 := by rw [eq_of_beq hc]; decide
    exact parseSignToken_vc h (by decide) hs hm (hhead hpka)
  -- '+'
  rcases ite_ok h with ⟨hc, h⟩ | ⟨_, h⟩
  · have hpka : pk < 0x80 := by rw [eq_of_beq hc]; decide
    exact parseSignToken_vc h (by decide) hs hm (hhead hpka)
  -- digits
  rcases ite_ok h with ⟨_, h⟩ | ⟨_, h⟩
  · rcases ite_ok h with ⟨_, h⟩ | ⟨_, h⟩
    · obtain ⟨sym, s1, hsym, h⟩ := bind_ok h
      have hs1 := parseSymbolBytes_vc hsym hm valid_nil
      cases hw : wholeNumber cfg sym with
      | some n => rw [hw] at h; tok_done h hs1
      | none => rw [hw] at h; tok_done h hs1
    · obtain ⟨n, s1, hnum, h⟩ := bind_ok h
      have hs1 := hs.asuf (parseNumToken_asuf hnum)
      tok_done h hs1
  -- '"'
  rcases ite_ok h with ⟨hc, h⟩ | ⟨_, h⟩
  · have hpka : pk < 0x80 := by rw [eq_of_beq hc]; decide
    obtain ⟨_, s1, hd, h⟩ := bind_ok h
    have hs1 : VC s s1 := hs.asuf (discard_asuf hd (hhead hpka))
    cases hstr : cfg.opts.string with
    | r6rs =>
      rw [hstr] at h
      obtain ⟨out, s2, hp, h⟩ := bind_ok h
      obtain ⟨_, rfl⟩ := pure_ok h
      exact hs1.trans (parseR6rsStr_vc hp (hs1.ne_str hm) valid_nil)
    | elisp =>
      rw [hstr] at h
      obtain ⟨r, s2, hp, h⟩ := bind_ok h
      have hs2 : s2 = s' := by
        cases r with
        | unibyte b => exact (pure_ok h).2
        | multibyte b => exact (pure_ok h).2
      subst hs2
      obtain ⟨_, b, hr1⟩ := discard_ok hd
      refine hs1.trans (parseElispStr_vc_num hp (fun w hw => ?_)).1
      have := hnb hstr (b :: w) (by rw [hr1, hw]; rfl)
      exact NoNumEsc.suffix (p := [b]) this
  -- '('
  rcases ite_ok h with ⟨hc, h⟩ | ⟨_, h⟩
  · have hpka : pk < 0x80 := by rw [eq_of_beq hc]; decide
    obtain ⟨_, s1, hd, h⟩ := bind_ok h
    have hs1 : VC s s1 := hs.asuf (discard_asuf hd (hhead hpka))
    tok_done h hs1
  -- '['
  rcases ite_ok h with ⟨hc, h⟩ | ⟨_, h⟩
  · have hpka : pk < 0x80 := by rw [eq_of_beq hc]; decide
    obtain ⟨_, s1, hd, h⟩ := bind_ok h
    have hs1 : VC s s1 := hs.asuf (discard_asuf hd (hhead hpka))
    cases hb : cfg.opts.brackets <;> rw [hb] at h <;> tok_done h hs1
  -- ':'
  rcases ite_ok h with ⟨hc, h⟩ | ⟨_, h⟩
  · have hpka : pk < 0x80 := by rw [eq_of_beq hc]; decide
    rcases ite_ok h with ⟨_, h⟩ | ⟨_, h⟩
    · obtain ⟨_, s1, hd, h⟩ := bind_ok h
      have hs1 : VC s s1 := hs.asuf (discard_asuf hd (hhead hpka))
      obtain ⟨name, s2, hsym, h⟩ := bind_ok h
      obtain ⟨_, rfl⟩ := pure_ok h
      exact hs1.trans (parseSymbolBytes_vc hsym (hs1.ne_str hm) valid_nil)
    · obtain ⟨name, s2, hsym, h⟩ := bind_ok h
      obtain ⟨_, rfl⟩ := pure_ok h
      exact parseSymbolBytes_vc hsym hm valid_nil
  -- letters
  rcases ite_ok h with ⟨_, h⟩ | ⟨_, h⟩
  · obtain ⟨name, s1, hsym, h⟩ := bind_ok h
    have hs1 := parseSymbolBytes_vc hsym hm valid_nil
    rcases ite_ok h with ⟨hc, h⟩ | ⟨_, h⟩
    · tok_done h hs1
    rcases ite_ok h with ⟨_, h⟩ | ⟨_, h⟩
    · cases hn : cfg.opts.nil <;> rw [hn] at h
      · tok_done h hs1
      · simp [panicAt] at h
      · tok_done h hs1
    rcases ite_ok h with ⟨_, h⟩ | ⟨_, h⟩
    · cases ht : cfg.opts.t <;> rw [ht] at h
      · tok_done h hs1
      · simp [panicAt] at h
    · tok_done h hs1
  -- '?'
  rcases ite_ok h with ⟨hc, h⟩ | ⟨_, h⟩
  · simp only [Bool.and_eq_true] at hc
    have hpka : pk < 0x80 := by rw [eq_of_beq hc.1]; decide
    obtain ⟨_, s1, hd, h⟩ := bind_ok h
    have hs1 : VC s s1 := hs.asuf (discard_asuf hd (hhead hpka))
    obtain ⟨ch, s2, hch, h⟩ := bind_ok h
    have hs2 := hs1.trans (parseElispChar_vc hch)
    tok_done h hs2
  -- quote
  rcases ite_ok h with ⟨hc, h⟩ | ⟨_, h⟩
  · have hpka : pk < 0x80 := by rw [eq_of_beq hc]; decide
    obtain ⟨_, s1, hd, h⟩ := bind_ok h
    have hs1 : VC s s1 := hs.asuf (discard_asuf hd (hhead hpka))
    tok_done h hs1
  rcases ite_ok h with ⟨hc, h⟩ | ⟨_, h⟩
  · have hpka : pk < 0x80 := by rw [eq_of_beq hc]; decide
    obtain ⟨_, s1, hd, h⟩ := bind_ok h
    have hs1 : VC s s1 := hs.asuf (discard_asuf hd (hhead hpka))
    tok_done h hs1
  -- ','
  rcases ite_ok h with ⟨hc, h⟩ | ⟨_, h⟩
  · have hpka : pk < 0x80 := by rw [eq_of_beq hc]; decide
    obtain ⟨_, s1, hd, h⟩ := bind_ok h
    have hs1 : VC s s1 := hs.asuf (discard_asuf hd (hhead hpka))
    obtain ⟨c, s2, hp, h⟩ := bind_ok h
    have hs2 : VC s s2 := hs1.asuf (peekOrNull_same hp)
    rcases ite_ok h with ⟨h64, h⟩ | ⟨_, h⟩
    · obtain ⟨_, s3, hd3, h⟩ := bind_ok h
      have hs3 : VC s s3 :=
        hs2.asuf (discard_asuf hd3 (headA_of_peek hp (eq_ascii h64 (by decide))))
      tok_done h hs3
    · tok_done h hs2
  -- a non-ASCII symbol initial
  rcases ite_ok h with ⟨_, h⟩ | ⟨hnot, h⟩
  · obtain ⟨_, s1, hd, h⟩ := bind_ok h
    obtain ⟨hm1, b, hr1⟩ := discard_ok hd
    have hb : b = pk := by rw [hr1] at hpk; cases hpk; rfl
    subst hb
    obtain ⟨⟨c, bytes⟩, s2, hseq, h⟩ := bind_ok h
    obtain ⟨hbv, hm2, hr2⟩ := Parse.U8.decodeUtf8Sequence_ok hseq
    have hs2 : VC s s2 := VC.chunk (hm2.trans hm1) (by rw [hr1, hr2]) hbv
    rcases ite_ok h with ⟨_, h⟩ | ⟨_, h⟩
    · simp [peekErr] at h
    · obtain ⟨name, s3, hsym, h⟩ := bind_ok h
      obtain ⟨_, rfl⟩ := pure_ok h
      exact hs2.trans (parseSymbolBytes_vc hsym (hs2.ne_str hm) hbv)
  -- extended symbol characters
  rcases ite_ok h with ⟨_, h⟩ | ⟨_, h⟩
  · obtain ⟨name, s2, hsym, h⟩ := bind_ok h
    obtain ⟨_, rfl⟩ := pure_ok h
    exact parseSymbolBytes_vc hsym hm valid_nil
  -- anything else is an error
  · obtain ⟨_, s1, _, h⟩ := bind_ok h
    obtain ⟨_, s2, _, h⟩ := bind_ok h
    cases h

/-- the statement with `NoByteEsc`, a corollary of `parseToken_vc_all_num` -/
theorem parseToken_vc_all {cfg : Cfg} {fuel : Nat} {pk : UInt8} {s s' : St} {tok : Token}
    (h : parseToken cfg fuel pk s = .ok tok s') (hpk : s.rd.rest.head? = some pk)
    (hm : s.rd.mode ≠ .str)
    (hnb : cfg.opts.string = .elisp → ∀ w, s.rd.rest = w ++ s'.rd.rest → NoByteEsc w) :
    VC s s' :=
  parseToken_vc_all_num h hpk hm (fun hel w hw => (hnb hel w hw).toNum)

/-- **C17, input clause, every token, EVERY option set** (slice and stream sources): if
    `parse_token` accepts and — only needed under the Emacs Lisp string syntax — the text `w` of
    the token has no backslash directly followed by `x` or an octal digit, then `w` is
    valid UTF-8. -/
theorem C17_token_input_valid_all_num {cfg : Cfg} {fuel : Nat} {pk : UInt8} {S S' : St} {tok : Token}
    {w : List UInt8} (h : parseToken cfg fuel pk S = .ok tok S')
    (hpk : S.rd.rest.head? = some pk) (hm : S.rd.mode ≠ .str)
    (hw : S.rd.rest = w ++ S'.rd.rest) (hnb : cfg.opts.string = .elisp → NoNumEsc w) :
    Utf8.valid w = true := by
  refine (parseToken_vc_all_num h hpk hm (fun hel w' hw' => ?_)).valid_of hw
  have : w' = w := List.append_cancel_right (hw'.symm.trans hw)
  rw [this]
  exact hnb hel

/-- the statement with `NoByteEsc`, a corollary of `C17_token_input_valid_all_num` -/
theorem C17_token_input_valid_all {cfg : Cfg} {fuel : Nat} {pk : UInt8} {S S' : St} {tok : Token}
    {w : List UInt8} (h : parseToken cfg fuel pk S = .ok tok S')
    (hpk : S.rd.rest.head? = some pk) (hm : S.rd.mode ≠ .str)
    (hw : S.rd.rest = w ++ S'.rd.rest) (hnb : cfg.opts.string = .elisp → NoByteEsc w) :
    Utf8.valid w = true :=
  C17_token_input_valid_all_num h hpk hm hw (fun hel => (hnb hel).toNum)

/-- under the condition, the Emacs Lisp string syntax never yields a byte string -/
theorem elisp_token_not_bytes_num {cfg : Cfg} {fuel : Nat} {S S' : St} {tok : Token}
    {w : List UInt8} (h : parseToken cfg fuel 34 S = .ok tok S')
    (hel : cfg.opts.string = .elisp) (hpk : ∃ tl, S.rd.rest = 34 :: tl)
    (hw : S.rd.rest = w ++ S'.rd.rest) (hnb : NoNumEsc w) : ∃ s, tok = .string s := by
  obtain ⟨S1, r, fl, hr1, ht, htok, _, _⟩ := C17_elisp_token_input_valid h hel hpk hw
  have hp := parseElispStrT_ok ht
  obtain ⟨_, s, rfl⟩ := parseElispStr_vc_num hp (fun w' hw' => by
    have : w = 34 :: w' := by
      have : w ++ S'.rd.rest = (34 :: w') ++ S'.rd.rest := by rw [← hw, hr1, hw']; rfl
      exact List.append_cancel_right this
    rw [this] at hnb
    exact NoNumEsc.suffix (p := [34]) hnb)
  exact ⟨s, htok⟩

/-- the statement with `NoByteEsc`, a corollary of `elisp_token_not_bytes_num` -/
theorem elisp_token_not_bytes {cfg : Cfg} {fuel : Nat} {S S' : St} {tok : Token}
    {w : List UInt8} (h : parseToken cfg fuel 34 S = .ok tok S')
    (hel : cfg.opts.string = .elisp) (hpk : ∃ tl, S.rd.rest = 34 :: tl)
    (hw : S.rd.rest = w ++ S'.rd.rest) (hnb : NoByteEsc w) : ∃ s, tok = .string s :=
  elisp_token_not_bytes_num h hel hpk hw hnb.toNum

end InAllOpts
end Parse
end Lexpr
