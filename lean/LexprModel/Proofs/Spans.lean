/-
  C11 — source spans of datums.

  Built on SpansPos.lean (positions as a function of the consumed bytes, the ghost invariants
  `At input` / `Reach s0`), SpansInv.lean (every function keeps every stable state predicate),
  SpansRel.lean (runs from states with the same unread input and position agree when both succeed)
  and SpansTwin.lean (the byte-slice and the stream source have the same outcomes).
  This file defines what it means for a span tree to be well nested (`Inside`), proves it together
  with the span bounds for every datum returned by `nextDatum`, and states the main theorems.
-/
import LexprModel.Proofs.SpansTwin
namespace Lexpr
namespace Parse
namespace Spans
open Progress

/-! ### well-nested span trees -/

mutual
/-- `Inside outer info`: the element spans of `info` — the car infos along a list, the info of a
    dotted tail, the entries of a vector; not the spans of inner cons cells — are non-empty, lie
    within `outer`, follow each other without overlap, and each element is well nested in its own
    span. -/
def Inside (outer : Span) : SpanInfo → Prop
  | .prim _ => True
  | .cons _ car cdr =>
    (outer.start ≤ car.span.start ∧ car.span.start < car.span.stop ∧ car.span.stop ≤ outer.stop ∧
      Inside car.span car) ∧ Tail outer car.span.stop cdr
  | .vec _ xs => Elems outer outer.start xs
/-- the rest of a list after an element that stopped at `lo`: another cell (its car is the next
    element), or the final cdr: the `Span.empty` placeholder of a proper list (a degenerate or
    real span between `lo` and the end of `outer` is also accepted: `'x` and `(a . ())` put one
    there), or a dotted vector -/
def Tail (outer : Span) (lo : Pos) : SpanInfo → Prop
  | .prim sp => sp = Span.empty ∨ (lo ≤ sp.start ∧ sp.start ≤ sp.stop ∧ sp.stop ≤ outer.stop)
  | .cons _ car cdr =>
    (lo ≤ car.span.start ∧ car.span.start < car.span.stop ∧ car.span.stop ≤ outer.stop ∧
      Inside car.span car) ∧ Tail outer car.span.stop cdr
  | .vec sp xs => lo ≤ sp.start ∧ sp.start < sp.stop ∧ sp.stop ≤ outer.stop ∧ Elems sp sp.start xs
/-- the entries of a vector, from `lo` on -/
def Elems (outer : Span) (lo : Pos) : List SpanInfo → Prop
  | [] => True
  | x :: xs =>
    (lo ≤ x.span.start ∧ x.span.start < x.span.stop ∧ x.span.stop ≤ outer.stop ∧
      Inside x.span x) ∧ Elems outer x.span.stop xs
end

/-- `x` is an element after `lo` that ends within `outer` and is well nested in itself -/
def Elem (outer : Span) (lo : Pos) (x : SpanInfo) : Prop :=
  lo ≤ x.span.start ∧ x.span.start < x.span.stop ∧ x.span.stop ≤ outer.stop ∧ Inside x.span x

theorem inside_prim (o sp : Span) : Inside o (.prim sp) := by simp [Inside]
theorem inside_cons (o sp : Span) (car cdr : SpanInfo) :
    Inside o (.cons sp car cdr) ↔ Elem o o.start car ∧ Tail o car.span.stop cdr := by
  simp [Inside, Elem]
theorem inside_vec (o sp : Span) (xs : List SpanInfo) :
    Inside o (.vec sp xs) ↔ Elems o o.start xs := by simp [Inside]
theorem tail_prim (o : Span) (lo : Pos) (sp : Span) :
    Tail o lo (.prim sp) ↔ sp = Span.empty ∨ (lo ≤ sp.start ∧ sp.start ≤ sp.stop ∧ sp.stop ≤ o.stop) := by
  simp [Tail]
theorem tail_cons (o : Span) (lo : Pos) (sp : Span) (car cdr : SpanInfo) :
    Tail o lo (.cons sp car cdr) ↔ Elem o lo car ∧ Tail o car.span.stop cdr := by
  simp [Tail, Elem]
theorem tail_vec (o : Span) (lo : Pos) (sp : Span) (xs : List SpanInfo) :
    Tail o lo (.vec sp xs) ↔
      lo ≤ sp.start ∧ sp.start < sp.stop ∧ sp.stop ≤ o.stop ∧ Elems sp sp.start xs := by
  simp [Tail]
theorem elems_nil (o : Span) (lo : Pos) : Elems o lo [] := by simp [Elems]
theorem elems_cons (o : Span) (lo : Pos) (x : SpanInfo) (xs : List SpanInfo) :
    Elems o lo (x :: xs) ↔ Elem o lo x ∧ Elems o x.span.stop xs := by
  simp [Elems, Elem]

theorem Elem.mono {o o' : Span} {lo lo' : Pos} {x : SpanInfo} (h : Elem o lo x)
    (hs : o.stop ≤ o'.stop) (hl : lo' ≤ lo) : Elem o' lo' x :=
  ⟨Pos.le_trans hl h.1, h.2.1, Pos.le_trans h.2.2.1 hs, h.2.2.2⟩

theorem Elem.start_le_stop {o : Span} {lo : Pos} {x : SpanInfo} (h : Elem o lo x) :
    lo ≤ x.span.stop := Pos.le_trans h.1 (Pos.le_of_lt h.2.1)

theorem Tail.mono {o o' : Span} (hs : o.stop ≤ o'.stop) :
    ∀ {lo lo' : Pos} (t : SpanInfo), Tail o lo t → lo' ≤ lo → Tail o' lo' t
  | lo, lo', .prim sp, h, hl => by
    rw [tail_prim] at *
    rcases h with h | ⟨h1, h2, h3⟩
    · exact Or.inl h
    · exact Or.inr ⟨Pos.le_trans hl h1, h2, Pos.le_trans h3 hs⟩
  | lo, lo', .cons sp car cdr, h, hl => by
    rw [tail_cons] at *
    exact ⟨h.1.mono hs hl, Tail.mono hs cdr h.2 (Pos.le_refl _)⟩
  | lo, lo', .vec sp xs, h, hl => by
    rw [tail_vec] at *
    exact ⟨Pos.le_trans hl h.1, h.2.1, Pos.le_trans h.2.2.1 hs, h.2.2.2⟩

theorem Elems.mono {o o' : Span} (hs : o.stop ≤ o'.stop) :
    ∀ {lo lo' : Pos} (xs : List SpanInfo), Elems o lo xs → lo' ≤ lo → Elems o' lo' xs
  | _, _, [], _, _ => elems_nil _ _
  | lo, lo', x :: xs, h, hl => by
    rw [elems_cons] at *
    exact ⟨h.1.mono hs hl, Elems.mono hs xs h.2 (Pos.le_refl _)⟩

/-- a whole datum with info `t`, standing after `lo` and ending within `o`, is a legal dotted tail -/
theorem Tail.of_datum {o : Span} {lo : Pos} (t : SpanInfo) (h1 : lo ≤ t.span.start)
    (h2 : t.span.start < t.span.stop) (h3 : t.span.stop ≤ o.stop) (hi : Inside t.span t) :
    Tail o lo t := by
  cases t with
  | prim sp => rw [tail_prim]; exact Or.inr ⟨h1, Pos.le_of_lt h2, h3⟩
  | cons sp car cdr =>
    rw [inside_cons] at hi
    rw [tail_cons]
    exact ⟨hi.1.mono h3 h1, Tail.mono h3 cdr hi.2 (Pos.le_refl _)⟩
  | vec sp xs =>
    rw [inside_vec] at hi
    rw [tail_vec]
    exact ⟨h1, h2, h3, hi⟩

/-! ### well-nested datums: the same, following the value alongside the span tree

`Datum.listIter` decides by the *value* whether the final cdr of a list is the end of a proper
list (`Null`: nothing more is yielded) or a dotted tail (yielded as the last element), so the
exact statement about what the iterators yield needs the value: a final cdr that is not `Null`
carries a real, non-empty span.  The predicates also take a property `R` of spans that every
element span has to satisfy (`Real input` below: "is `⟨posOf p, posOf q⟩` for prefixes `p ≤ q` of
the input"; or `fun _ => True`). -/

variable {R : Span → Prop}

mutual
/-- `InsideV R outer v info`: `Inside outer info`, where moreover the value `v` has the shape of
    `info` along the way and a final cdr other than `Null` is an element with a non-empty span -/
def InsideV (R : Span → Prop) (outer : Span) : Value → SpanInfo → Prop
  | _, .prim _ => True
  | v, .cons _ car cdr =>
    match v with
    | .cons a b =>
      (outer.start ≤ car.span.start ∧ car.span.start < car.span.stop ∧
        car.span.stop ≤ outer.stop ∧ R car.span ∧ InsideV R car.span a car) ∧
      TailV R outer car.span.stop b cdr
    | _ => False
  | v, .vec _ xs =>
    match v with
    | .vector vs => ElemsV R outer outer.start vs xs
    | _ => False
/-- the rest of a list (value `v`, info given) after an element that stopped at `lo` -/
def TailV (R : Span → Prop) (outer : Span) (lo : Pos) : Value → SpanInfo → Prop
  | v, .prim sp =>
    (v = .null ∧
      (sp = Span.empty ∨ (lo ≤ sp.start ∧ sp.start ≤ sp.stop ∧ sp.stop ≤ outer.stop))) ∨
    (lo ≤ sp.start ∧ sp.start < sp.stop ∧ sp.stop ≤ outer.stop ∧ R sp)
  | v, .cons _ car cdr =>
    match v with
    | .cons a b =>
      (lo ≤ car.span.start ∧ car.span.start < car.span.stop ∧
        car.span.stop ≤ outer.stop ∧ R car.span ∧ InsideV R car.span a car) ∧
      TailV R outer car.span.stop b cdr
    | _ => False
  | v, .vec sp xs =>
    lo ≤ sp.start ∧ sp.start < sp.stop ∧ sp.stop ≤ outer.stop ∧ R sp ∧
      match v with
      | .vector vs => ElemsV R sp sp.start vs xs
      | _ => False
/-- the entries of a vector (values and infos), from `lo` on -/
def ElemsV (R : Span → Prop) (outer : Span) (lo : Pos) : List Value → List SpanInfo → Prop
  | vs, [] => vs = []
  | vs, x :: xs =>
    match vs with
    | v :: vs' =>
      (lo ≤ x.span.start ∧ x.span.start < x.span.stop ∧ x.span.stop ≤ outer.stop ∧
        R x.span ∧ InsideV R x.span v x) ∧ ElemsV R outer x.span.stop vs' xs
    | [] => False
end

/-- the datum `⟨v, x⟩` is an element after `lo` that ends within `outer`, well nested in itself -/
def ElemV (R : Span → Prop) (outer : Span) (lo : Pos) (v : Value) (x : SpanInfo) : Prop :=
  lo ≤ x.span.start ∧ x.span.start < x.span.stop ∧ x.span.stop ≤ outer.stop ∧ R x.span ∧
    InsideV R x.span v x

/-- a list cell with value `v` whose car and cdr infos are `car`, `cdr`: the car is an element
    after `lo`, the cdr is the rest of the list -/
def CellV (R : Span → Prop) (outer : Span) (lo : Pos) (v : Value) (car cdr : SpanInfo) : Prop :=
  match v with
  | .cons a b => ElemV R outer lo a car ∧ TailV R outer car.span.stop b cdr
  | _ => False

theorem insideV_prim (o sp : Span) (v : Value) : InsideV R o v (.prim sp) := by simp [InsideV]
theorem insideV_cons (o sp : Span) (v : Value) (car cdr : SpanInfo) :
    InsideV R o v (.cons sp car cdr) ↔ CellV R o o.start v car cdr := by
  cases v <;> simp [InsideV, CellV, ElemV]
theorem insideV_vec (o sp : Span) (v : Value) (xs : List SpanInfo) :
    InsideV R o v (.vec sp xs) ↔ ∃ vs, v = .vector vs ∧ ElemsV R o o.start vs xs := by
  cases v <;> simp [InsideV]
theorem tailV_prim (o : Span) (lo : Pos) (v : Value) (sp : Span) :
    TailV R o lo v (.prim sp) ↔
      (v = .null ∧ (sp = Span.empty ∨ (lo ≤ sp.start ∧ sp.start ≤ sp.stop ∧ sp.stop ≤ o.stop))) ∨
      (lo ≤ sp.start ∧ sp.start < sp.stop ∧ sp.stop ≤ o.stop ∧ R sp) := by
  simp [TailV]
theorem tailV_cons (o : Span) (lo : Pos) (v : Value) (sp : Span) (car cdr : SpanInfo) :
    TailV R o lo v (.cons sp car cdr) ↔ CellV R o lo v car cdr := by
  cases v <;> simp [TailV, CellV, ElemV]
theorem tailV_vec (o : Span) (lo : Pos) (v : Value) (sp : Span) (xs : List SpanInfo) :
    TailV R o lo v (.vec sp xs) ↔ lo ≤ sp.start ∧ sp.start < sp.stop ∧ sp.stop ≤ o.stop ∧ R sp ∧
      ∃ vs, v = .vector vs ∧ ElemsV R sp sp.start vs xs := by
  cases v <;> simp [TailV]
theorem elemsV_nil (o : Span) (lo : Pos) (vs : List Value) : ElemsV R o lo vs [] ↔ vs = [] := by
  simp [ElemsV]
theorem elemsV_cons (o : Span) (lo : Pos) (vs : List Value) (x : SpanInfo) (xs : List SpanInfo) :
    ElemsV R o lo vs (x :: xs) ↔
      ∃ v vs', vs = v :: vs' ∧ ElemV R o lo v x ∧ ElemsV R o x.span.stop vs' xs := by
  cases vs with
  | nil => simp [ElemsV]
  | cons v vs' =>
    simp only [ElemsV, ElemV]
    constructor
    · intro h; exact ⟨v, vs', rfl, h⟩
    · rintro ⟨_, _, h, h'⟩; cases h; exact h'
theorem cellV_cons (o : Span) (lo : Pos) (a b : Value) (car cdr : SpanInfo) :
    CellV R o lo (.cons a b) car cdr ↔ ElemV R o lo a car ∧ TailV R o car.span.stop b cdr := Iff.rfl

theorem ElemV.mono {o o' : Span} {lo lo' : Pos} {v : Value} {x : SpanInfo} (h : ElemV R o lo v x)
    (hs : o.stop ≤ o'.stop) (hl : lo' ≤ lo) : ElemV R o' lo' v x :=
  ⟨Pos.le_trans hl h.1, h.2.1, Pos.le_trans h.2.2.1 hs, h.2.2.2⟩

theorem TailV.mono {o o' : Span} (hs : o.stop ≤ o'.stop) :
    ∀ {lo lo' : Pos} (v : Value) (t : SpanInfo), TailV R o lo v t → lo' ≤ lo → TailV R o' lo' v t
  | lo, lo', v, .prim sp, h, hl => by
    rw [tailV_prim] at *
    rcases h with ⟨hv, h | ⟨h1, h2, h3⟩⟩ | ⟨h1, h2, h3, h4⟩
    · exact Or.inl ⟨hv, Or.inl h⟩
    · exact Or.inl ⟨hv, Or.inr ⟨Pos.le_trans hl h1, h2, Pos.le_trans h3 hs⟩⟩
    · exact Or.inr ⟨Pos.le_trans hl h1, h2, Pos.le_trans h3 hs, h4⟩
  | lo, lo', v, .cons sp car cdr, h, hl => by
    rw [tailV_cons] at *
    cases v with
    | cons a b =>
      rw [cellV_cons] at *
      exact ⟨h.1.mono hs hl, TailV.mono hs b cdr h.2 (Pos.le_refl _)⟩
    | _ => exact h.elim
  | lo, lo', v, .vec sp xs, h, hl => by
    rw [tailV_vec] at *
    exact ⟨Pos.le_trans hl h.1, h.2.1, Pos.le_trans h.2.2.1 hs, h.2.2.2⟩

theorem CellV.mono {o o' : Span} {lo lo' : Pos} {v : Value} {c d : SpanInfo}
    (h : CellV R o lo v c d) (hs : o.stop ≤ o'.stop) (hl : lo' ≤ lo) : CellV R o' lo' v c d := by
  cases v with
  | cons a b =>
    rw [cellV_cons] at *
    exact ⟨h.1.mono hs hl, TailV.mono hs b d h.2 (Pos.le_refl _)⟩
  | _ => exact h.elim

/-- a whole datum `⟨v, t⟩` standing after `lo` and ending within `o` is a legal dotted tail -/
theorem TailV.of_datum {o : Span} {lo : Pos} (v : Value) (t : SpanInfo) (h1 : lo ≤ t.span.start)
    (h2 : t.span.start < t.span.stop) (h3 : t.span.stop ≤ o.stop) (hR : R t.span)
    (hi : InsideV R t.span v t) : TailV R o lo v t := by
  cases t with
  | prim sp => rw [tailV_prim]; exact Or.inr ⟨h1, h2, h3, hR⟩
  | cons sp car cdr =>
    rw [insideV_cons] at hi
    rw [tailV_cons]
    exact hi.mono h3 h1
  | vec sp xs =>
    rw [insideV_vec] at hi
    rw [tailV_vec]
    exact ⟨h1, h2, h3, hR, hi⟩

/-- forgetting the values -/
theorem ElemV.forget_aux {o : Span} {lo : Pos} {v : Value} {x : SpanInfo}
    (ih : InsideV R x.span v x → Inside x.span x) (h : ElemV R o lo v x) : Elem o lo x :=
  ⟨h.1, h.2.1, h.2.2.1, ih h.2.2.2.2⟩

mutual
theorem InsideV.forget {o : Span} : ∀ (v : Value) (t : SpanInfo), InsideV R o v t → Inside o t
  | _, .prim _, _ => inside_prim _ _
  | v, .cons sp car cdr, h => by
    rw [insideV_cons] at h
    rw [inside_cons]
    cases v with
    | cons a b =>
      rw [cellV_cons] at h
      exact ⟨ElemV.forget_aux (InsideV.forget a car) h.1, TailV.forget b cdr h.2⟩
    | _ => exact h.elim
  | v, .vec sp xs, h => by
    rw [insideV_vec] at h
    obtain ⟨vs, _, h⟩ := h
    rw [inside_vec]
    exact ElemsV.forget vs xs h
theorem TailV.forget {o : Span} {lo : Pos} :
    ∀ (v : Value) (t : SpanInfo), TailV R o lo v t → Tail o lo t
  | v, .prim sp, h => by
    rw [tailV_prim] at h
    rw [tail_prim]
    rcases h with ⟨_, h⟩ | ⟨h1, h2, h3, _⟩
    · exact h
    · exact Or.inr ⟨h1, Pos.le_of_lt h2, h3⟩
  | v, .cons sp car cdr, h => by
    rw [tailV_cons] at h
    rw [tail_cons]
    cases v with
    | cons a b =>
      rw [cellV_cons] at h
      exact ⟨ElemV.forget_aux (InsideV.forget a car) h.1, TailV.forget b cdr h.2⟩
    | _ => exact h.elim
  | v, .vec sp xs, h => by
    rw [tailV_vec] at h
    obtain ⟨h1, h2, h3, _, vs, _, h⟩ := h
    rw [tail_vec]
    exact ⟨h1, h2, h3, ElemsV.forget vs xs h⟩
theorem ElemsV.forget {o : Span} {lo : Pos} :
    ∀ (vs : List Value) (xs : List SpanInfo), ElemsV R o lo vs xs → Elems o lo xs
  | _, [], _ => elems_nil _ _
  | vs, x :: xs, h => by
    rw [elemsV_cons] at h
    obtain ⟨v, vs', _, h1, h2⟩ := h
    rw [elems_cons]
    exact ⟨ElemV.forget_aux (InsideV.forget v x) h1, ElemsV.forget vs' xs h2⟩
end

/-! ### the accumulators of the list and vector loops -/

/-- `SeqV R lo acc ms cur`: the values and infos collected so far are elements in order, the first
    after `lo`, the last ending at or before `cur` -/
def SeqV (R : Span → Prop) (lo : Pos) : List Value → List SpanInfo → Pos → Prop
  | [], [], cur => lo ≤ cur
  | a :: acc, m :: ms, cur =>
    lo ≤ m.span.start ∧ m.span.start < m.span.stop ∧ (R m.span ∧ InsideV R m.span a m) ∧
      SeqV R m.span.stop acc ms cur
  | _, _, _ => False

theorem SeqV.le {lo : Pos} {acc : List Value} {ms : List SpanInfo} {cur : Pos}
    (h : SeqV R lo acc ms cur) : lo ≤ cur := by
  induction acc generalizing lo ms with
  | nil => cases ms <;> simp only [SeqV] at h; exact h
  | cons a acc ih =>
    cases ms with
    | nil => simp only [SeqV] at h
    | cons m ms =>
      simp only [SeqV] at h
      exact Pos.le_trans h.1 (Pos.le_trans (Pos.le_of_lt h.2.1) (ih h.2.2.2))

theorem SeqV.nil_iff {lo : Pos} {acc : List Value} {ms : List SpanInfo} {cur : Pos}
    (h : SeqV R lo acc ms cur) : acc = [] ↔ ms = [] := by
  cases acc <;> cases ms <;> simp_all [SeqV]

theorem SeqV.weaken {lo : Pos} {acc : List Value} {ms : List SpanInfo} {cur cur' : Pos}
    (h : SeqV R lo acc ms cur) (hc : cur ≤ cur') : SeqV R lo acc ms cur' := by
  induction acc generalizing lo ms with
  | nil => cases ms <;> simp only [SeqV] at h ⊢; exact Pos.le_trans h hc
  | cons a acc ih =>
    cases ms with
    | nil => simp only [SeqV] at h
    | cons m ms =>
      simp only [SeqV] at h ⊢
      exact ⟨h.1, h.2.1, h.2.2.1, ih h.2.2.2⟩

theorem SeqV.snoc {lo : Pos} {acc : List Value} {ms : List SpanInfo} {cur : Pos} {a : Value}
    {m : SpanInfo} (h : SeqV R lo acc ms cur) (h1 : cur ≤ m.span.start)
    (h2 : m.span.start < m.span.stop) (hi : R m.span ∧ InsideV R m.span a m) :
    SeqV R lo (acc ++ [a]) (ms ++ [m]) m.span.stop := by
  induction acc generalizing lo ms with
  | nil =>
    cases ms <;> simp only [SeqV] at h
    simp only [List.nil_append, SeqV]
    exact ⟨Pos.le_trans h h1, h2, hi, Pos.le_refl _⟩
  | cons x xs ih =>
    cases ms with
    | nil => simp only [SeqV] at h
    | cons y ys =>
      simp only [SeqV] at h
      simp only [List.cons_append, SeqV]
      exact ⟨h.1, h.2.1, h.2.2.1, ih h.2.2.2⟩

theorem SeqV.elems {lo lo' : Pos} {acc : List Value} {ms : List SpanInfo} {cur : Pos} {o : Span}
    (h : SeqV R lo acc ms cur) (hl : lo' ≤ lo) (hc : cur ≤ o.stop) : ElemsV R o lo' acc ms := by
  induction acc generalizing lo lo' ms with
  | nil => cases ms <;> simp only [SeqV] at h; exact (elemsV_nil _ _ _).mpr rfl
  | cons a acc ih =>
    cases ms with
    | nil => simp only [SeqV] at h
    | cons m ms =>
      simp only [SeqV] at h
      rw [elemsV_cons]
      exact ⟨a, acc, rfl, ⟨Pos.le_trans hl h.1, h.2.1, Pos.le_trans h.2.2.2.le hc, h.2.2.1⟩,
        ih h.2.2.2 (Pos.le_refl _)⟩

/-- the elements `acc`/`ms` followed by the final cdr `tv`/`t`, as one chain -/
def ChainV (R : Span → Prop) (o : Span) : Pos → List Value → List SpanInfo → Value → SpanInfo → Prop
  | lo, [], [], tv, t => TailV R o lo tv t
  | lo, a :: acc, m :: ms, tv, t => ElemV R o lo a m ∧ ChainV R o m.span.stop acc ms tv t
  | _, _, _, _, _ => False

theorem SeqV.chain {lo : Pos} {acc : List Value} {ms : List SpanInfo} {cur : Pos} {o : Span}
    {tv : Value} {t : SpanInfo} (h : SeqV R lo acc ms cur) (hc : cur ≤ o.stop)
    (ht : TailV R o cur tv t) : ChainV R o lo acc ms tv t := by
  induction acc generalizing lo ms with
  | nil =>
    cases ms <;> simp only [SeqV] at h
    simp only [ChainV]
    exact TailV.mono (Pos.le_refl _) tv t ht h
  | cons a acc ih =>
    cases ms with
    | nil => simp only [SeqV] at h
    | cons m ms =>
      simp only [SeqV] at h
      simp only [ChainV]
      exact ⟨⟨h.1, h.2.1, Pos.le_trans h.2.2.2.le hc, h.2.2.1⟩, ih h.2.2.2⟩

/-- `buildMeta` lays a chain out as the car and cdr infos of the first cell of
    `Value.append acc tv` -/
theorem chainV_buildMeta (o : Span) : ∀ (lo : Pos) (acc : List Value) (ms : List SpanInfo)
    (tv : Value) (t : SpanInfo), acc ≠ [] → ChainV R o lo acc ms tv t →
    CellV R o lo (Value.append acc tv) (buildMeta ms t).1 (buildMeta ms t).2
  | _, [], _, _, _, h, _ => absurd rfl h
  | _, _ :: _, [], _, _, _, hc => by simp [ChainV] at hc
  | lo, [a], [m], tv, t, _, hc => by
    simp only [ChainV] at hc
    simp only [buildMeta, Value.append]
    exact hc
  | lo, [a], m :: m' :: ms, tv, t, _, hc => by simp [ChainV] at hc
  | lo, a :: b :: acc, [m], tv, t, _, hc => by simp [ChainV] at hc
  | lo, a :: b :: acc, m :: m' :: ms, tv, t, _, hc => by
    have hc' : ElemV R o lo a m ∧ ChainV R o m.span.stop (b :: acc) (m' :: ms) tv t := by
      simpa only [ChainV] using hc
    have ih := chainV_buildMeta o m.span.stop (b :: acc) (m' :: ms) tv t (by simp) hc'.2
    simp only [buildMeta]
    show CellV R o lo (Value.cons a (Value.append (b :: acc) tv)) _ _
    rw [cellV_cons, tailV_cons]
    exact ⟨hc'.1, ih⟩

/-! ### moving through the input -/

/-- `s'` is `s` after consuming at least `k` bytes, position included -/
structure Mv (k : Nat) (s s' : St) : Prop where
  reach : Reach s s'
  len : s'.rd.rest.length + k ≤ s.rd.rest.length

theorem Mv.refl (s : St) : Mv 0 s s := ⟨Reach.refl s, by omega⟩

theorem Mv.trans {a b : Nat} {s0 s1 s2 : St} (h1 : Mv a s0 s1) (h2 : Mv b s1 s2) :
    Mv (a + b) s0 s2 :=
  ⟨h1.reach.trans h2.reach, by have := h1.len; have := h2.len; omega⟩

theorem Mv.mono {a b : Nat} {s0 s1 : St} (h : Mv a s0 s1) (hb : b ≤ a) : Mv b s0 s1 :=
  ⟨h.reach, by have := h.len; omega⟩

theorem Mv.pos_le {k : Nat} {s s' : St} (h : Mv k s s') : s.rd.position ≤ s'.rd.position :=
  h.reach.pos_le

theorem Mv.pos_lt {k : Nat} {s s' : St} (h : Mv k s s') (hk : 1 ≤ k) :
    s.rd.position < s'.rd.position :=
  h.reach.pos_lt (by have := h.len; omega)

/-- total-correctness-free Hoare triple: only the `ok` outcome is constrained -/
def Tri {α : Type} (m : P α) (s : St) (Q : α → St → Prop) : Prop :=
  Sat (m s) Q (fun _ _ => True) True

section tri
variable {α β : Type} {s : St}

theorem Tri.bind {m : P α} {f : α → P β} {Q1 : α → St → Prop} {Q : β → St → Prop}
    (hm : Tri m s Q1) (hf : ∀ a s', Q1 a s' → Tri (f a) s' Q) : Tri (m >>= f) s Q :=
  Sat.bind hm hf (fun _ _ _ => trivial) id

theorem Tri.pure {a : α} {Q : α → St → Prop} (h : Q a s) : Tri (Pure.pure a : P α) s Q := h

theorem Tri.conseq {m : P α} {Q Q' : α → St → Prop} (h : Tri m s Q)
    (hq : ∀ a s', Q a s' → Q' a s') : Tri m s Q' :=
  Sat.imp h hq (fun _ _ h => h) id

theorem Tri.of_neverOk {m : P α} {Q : α → St → Prop} (h : NeverOk m) : Tri m s Q := by
  unfold Tri
  cases hm : m s with
  | ok a s' => exact absurd hm (h s a s')
  | err e s' => trivial
  | panic p => trivial
  | fuel => trivial

theorem Tri.peekErr {c : Code} {Q : α → St → Prop} : Tri (peekErr c : P α) s Q := trivial
theorem Tri.panicAt {p : Site} {Q : α → St → Prop} : Tri (panicAt p : P α) s Q := trivial
theorem Tri.outOfFuel {Q : α → St → Prop} : Tri (outOfFuel : P α) s Q := trivial

theorem Tri.bind_getPos {f : Pos → P β} {Q : β → St → Prop} (h : Tri (f s.rd.position) s Q) :
    Tri (getPos >>= f) s Q := h

theorem Tri.bind_tokenFuel {f : Nat → P β} {Q : β → St → Prop}
    (h : Tri (f (s.rd.rest.length + 1)) s Q) : Tri (tokenFuel >>= f) s Q := h

theorem Tri.ite {c : Prop} [Decidable c] {A B : P α} {Q : α → St → Prop}
    (hA : c → Tri A s Q) (hB : ¬ c → Tri B s Q) : Tri (if c then A else B) s Q := by
  split
  · exact hA ‹_›
  · exact hB ‹_›

theorem Tri.bind_attempt {m : P α} {f : Except Err α → P β} {Q1 : α → St → Prop}
    {Q : β → St → Prop} (hm : Tri m s Q1) (hok : ∀ a s', Q1 a s' → Tri (f (.ok a)) s' Q)
    (herr : ∀ e, NeverOk (f (.error e))) : Tri (attempt m >>= f) s Q := by
  show Sat (P.bind (attempt m) f s) _ _ _
  unfold P.bind attempt
  unfold Tri at hm
  cases hms : m s with
  | ok a s' => rw [hms] at hm; exact hok a s' hm
  | err e s' => exact Tri.of_neverOk (herr e)
  | panic p => trivial
  | fuel => trivial

/-- a function that keeps stable predicates and satisfies a `Spec` moves through the input -/
theorem tri_of {m : P α} {ko : α → Nat} {ke : Err → Nat} {F : Prop}
    (hI : Inv (Reach s) m) (hS : Spec m s s ko ke F) : Tri m s (fun a s' => Mv (ko a) s s') := by
  have h1 := hI s (Reach.refl s)
  unfold Spec at hS
  unfold Tri
  cases hm : m s with
  | ok a s' =>
    rw [hm] at h1 hS
    exact ⟨h1, hS.len⟩
  | err e s' => trivial
  | panic p => trivial
  | fuel => trivial

end tri

/-! ### trivia -/

/-- what is left after the leading trivia starts with a byte that is neither whitespace nor `;` -/
theorem wsLen_drop_head : ∀ l : List UInt8,
    (∀ b t, l.drop (wsLen l) = b :: t → isTrivia b = false ∧ b ≠ 59) ∧
    (∀ b t, l.drop (commentLen l) = b :: t → isTrivia b = false ∧ b ≠ 59) := by
  intro l
  induction l with
  | nil => simp [wsLen, commentLen]
  | cons c cs ih =>
    constructor
    · intro b t h
      by_cases h59 : c = 59
      · simp only [wsLen, h59, beq_self_eq_true, if_true, List.drop_succ_cons] at h
        exact ih.2 b t h
      · by_cases ht : isTrivia c = true
        · simp only [wsLen, beq_iff_eq, h59, if_false, ht, if_true, List.drop_succ_cons] at h
          exact ih.1 b t h
        · simp only [wsLen, beq_iff_eq, h59, if_false, ht] at h
          obtain ⟨rfl, _⟩ := h
          exact ⟨by simpa using ht, h59⟩
    · intro b t h
      by_cases h10 : c = 10
      · simp only [commentLen, h10, beq_self_eq_true, if_true, List.drop_succ_cons] at h
        exact ih.1 b t h
      · simp only [commentLen, beq_iff_eq, h10, if_false, List.drop_succ_cons] at h
        exact ih.2 b t h

/-- `parse_whitespace` moves over exactly the leading trivia and reports the byte it stops at -/
theorem parseWhitespace_tri (s : St) :
    Tri parseWhitespace s (fun o s1 => Mv 0 s s1 ∧
      s1.rd.rest = s.rd.rest.drop (wsLen s.rd.rest) ∧ o = s1.rd.rest.head?) := by
  have hcons : Reach s { s with rd := s.rd.consume (wsLen s.rd.rest) } :=
    Stable.consume s _ (Reach.refl s)
  have hrest : (s.rd.consume (wsLen s.rd.rest)).rest = s.rd.rest.drop (wsLen s.rd.rest) :=
    consume_rest _ _
  unfold parseWhitespace
  show Sat (P.bind getRest (fun rest => P.bind (consumeN (wsLen rest)) fun _ => peek) s) _ _ _
  simp only [P.bind, getRest, consumeN, peek]
  split
  · rename_i b t hb
    refine ⟨⟨Stable.peeked _ _ hcons, ?_⟩, hrest, ?_⟩
    · show (s.rd.consume (wsLen s.rd.rest)).rest.length + 0 ≤ _
      rw [hrest, List.length_drop]; omega
    · show some b = (s.rd.consume (wsLen s.rd.rest)).rest.head?
      rw [hb]; rfl
  · rename_i hb
    split
    · trivial
    · refine ⟨⟨hcons, ?_⟩, hrest, ?_⟩
      · show (s.rd.consume (wsLen s.rd.rest)).rest.length + 0 ≤ _
        rw [hrest, List.length_drop]; omega
      · show none = (s.rd.consume (wsLen s.rd.rest)).rest.head?
        rw [hb]; rfl

/-! ### what `nextDatum` guarantees -/

/-- the datum `d` returned by a run of `nextDatum` from `s` to `s'`: the run first moved over
    the leading trivia to a state `s1`, then over at least one byte to `s'`; the span of `d` is
    (position of `s1`, position of `s'`) and its info is well nested in that span -/
def DatumOK (R : Span → Prop) (s s' : St) (d : Datum) : Prop :=
  ∃ s1, Mv 0 s s1 ∧ s1.rd.rest = s.rd.rest.drop (wsLen s.rd.rest) ∧ Mv 1 s1 s' ∧
    d.info.span = ⟨s1.rd.position, s'.rd.position⟩ ∧ R d.info.span ∧
      InsideV R d.info.span d.value d.info

theorem DatumOK.mv {s s' : St} {d : Datum} (h : DatumOK R s s' d) : Mv 1 s s' := by
  obtain ⟨s1, h1, _, h2, _⟩ := h
  exact (h1.trans h2).mono (by omega)

/-- post-condition of `parseListMeta` started with element infos `ms` (first one after `lo`) -/
def ListPost (R : Span → Prop) (lo : Pos) (s : St) (r : Option (Value × SpanInfo × SpanInfo)) (s' : St) : Prop :=
  Mv 0 s s' ∧ ∀ v c d, r = some (v, c, d) → ∀ outer : Span, s'.rd.position ≤ outer.stop →
    CellV R outer lo v c d

theorem leave_tri (s : St) : Tri leave s (fun _ s' => s'.rd = s.rd) := rfl

theorem Mv.of_rd_eq {s s' : St} (h : s'.rd = s.rd) : Mv 0 s s' :=
  ⟨⟨[], by rw [h]; rfl, by rw [h]; rfl⟩, by rw [h]; omega⟩

theorem never_peek_err {c1 c2 : Code} {α : Type} :
    NeverOk (do
      match (← peek) with
        | some _ => peekErr c1
        | none => (peekErr c2 : P α)) := by
  rel_wp []

/-- The central induction.  `Track base whole` is the ghost invariant of SpansPos.lean (its
    instances are `At input` and `Reach s0`); `R` is any property that the span between two states
    on one track has. -/
theorem spans_all (cfg : Cfg) (base : Pos) (whole : List UInt8)
    (hR : ∀ s1 s2, Track base whole s1 → Reach s1 s2 → R ⟨s1.rd.position, s2.rd.position⟩) :
    ∀ fuel : Nat,
    (∀ s, Track base whole s →
      Tri (nextDatum cfg fuel) s (fun od s' => ∀ d, od = some d → DatumOK R s s' d)) ∧
    (∀ term acc ms s lo, Track base whole s → SeqV R lo acc ms s.rd.position →
      Tri (parseListMeta cfg fuel term acc ms) s (ListPost R lo s)) ∧
    (∀ term acc ms s lo, Track base whole s → SeqV R lo acc ms s.rd.position →
      Tri (parseVectorMeta cfg fuel term acc ms) s
        (fun r s' => Mv 0 s s' ∧ SeqV R lo r.1 r.2 s'.rd.position)) := by
  intro fuel
  induction fuel with
  | zero =>
    refine ⟨?_, ?_, ?_⟩
    · intro s _; rw [nextDatum]; exact Tri.outOfFuel
    · intro term acc ms s lo _ _; rw [parseListMeta]; exact Tri.outOfFuel
    · intro term acc ms s lo _ _; rw [parseVectorMeta]; exact Tri.outOfFuel
  | succ f ih =>
    obtain ⟨ihD, ihL, ihV⟩ := ih
    refine ⟨?_, ?_, ?_⟩
    · intro s htr
      rw [nextDatum]
      refine Tri.bind (parseWhitespace_tri s) ?_
      rintro o s1 ⟨hm1, hrest, ho⟩
      have htr1 : Track base whole s1 := htr.reach hm1.reach
      cases o with
      | none => exact Tri.pure (fun d hd => by cases hd)
      | some pk =>
        dsimp only
        refine Tri.bind_getPos ?_
        refine Tri.bind_tokenFuel ?_
        refine Tri.bind (tri_of parseToken_inv (parseToken_spec ho.symm)) ?_
        intro tok s2 hm2
        have atomCase : ∀ t : Token, Tri
            (match t.atom with
              | some v => do
                let stop ← getPos
                pure (some (Datum.mk v (SpanInfo.prim { start := s1.rd.position, stop := stop })))
              | none => panicAt Site.unreachable) s2
            (fun od s' => ∀ d, od = some d → DatumOK R s s' d) := by
          intro t
          cases ht : t.atom with
          | none => exact Tri.panicAt
          | some v =>
            refine Tri.bind_getPos (Tri.pure ?_)
            intro d hd; cases hd
            exact ⟨s1, hm1, hrest, hm2, rfl, hR s1 s2 htr1 hm2.reach, insideV_prim _ _ _⟩
        cases tok with
        | byteVecOpen close =>
          dsimp only
          refine Tri.bind (tri_of parseByteList_inv parseByteList_spec) ?_
          intro bs s3 hm3
          refine Tri.bind_getPos (Tri.pure ?_)
          intro d hd; cases hd
          exact ⟨s1, hm1, hrest, (hm2.trans hm3).mono (by omega), rfl,
            hR s1 s3 htr1 (hm2.trans hm3).reach, insideV_prim _ _ _⟩
        | vecOpen close =>
          dsimp only
          refine Tri.bind (tri_of Inv.enter enter_spec) ?_
          intro _ s3 hm3
          have htr3 : Track base whole s3 := htr1.reach (hm2.trans hm3).reach
          refine Tri.bind_attempt
            (ihV close [] [] s3 s3.rd.position htr3 (by rw [SeqV]; exact Pos.le_refl _)) ?_ ?_
          · rintro ⟨xs, ms⟩ s4 ⟨hm4, hseq⟩
            refine Tri.bind (tri_of Inv.leave leave_spec) ?_
            intro _ s5 hm5
            refine Tri.bind_attempt (tri_of endSeq_inv endSeq_spec) ?_ ?_
            · rintro ⟨⟩ s6 hm6
              dsimp only
              refine Tri.bind_getPos (Tri.pure ?_)
              intro d hd; cases hd
              have hmv : Mv 1 s1 s6 :=
                (hm2.trans (((hm3.trans hm4).trans hm5).trans hm6)).mono (by omega)
              refine ⟨s1, hm1, hrest, hmv, rfl, hR s1 s6 htr1 hmv.reach, ?_⟩
              show InsideV R _ (.vector xs) (.vec _ ms)
              rw [insideV_vec]
              exact ⟨xs, rfl, hseq.elems (hm2.trans hm3).pos_le (hm5.trans hm6).pos_le⟩
            · intro e; rel_wp []
          · intro e; rel_wp []
        | listOpen close =>
          dsimp only
          refine Tri.bind (tri_of Inv.enter enter_spec) ?_
          intro _ s3 hm3
          have htr3 : Track base whole s3 := htr1.reach (hm2.trans hm3).reach
          refine Tri.bind_attempt
            (ihL close [] [] s3 s3.rd.position htr3 (by rw [SeqV]; exact Pos.le_refl _)) ?_ ?_
          · rintro r s4 ⟨hm4, hr⟩
            refine Tri.bind (tri_of Inv.leave leave_spec) ?_
            intro _ s5 hm5
            refine Tri.bind_attempt (tri_of endSeq_inv endSeq_spec) ?_ ?_
            · rintro ⟨⟩ s6 hm6
              have hmv : Mv 1 s1 s6 :=
                (hm2.trans (((hm3.trans hm4).trans hm5).trans hm6)).mono (by omega)
              rcases r with _ | ⟨v, c, d⟩
              · dsimp only
                refine Tri.bind_getPos (Tri.pure ?_)
                intro d hd; cases hd
                exact ⟨s1, hm1, hrest, hmv, rfl, hR s1 s6 htr1 hmv.reach, insideV_prim _ _ _⟩
              · dsimp only
                refine Tri.bind_getPos (Tri.pure ?_)
                intro d' hd; cases hd
                refine ⟨s1, hm1, hrest, hmv, rfl, hR s1 s6 htr1 hmv.reach, ?_⟩
                show InsideV R _ v (.cons _ c d)
                rw [insideV_cons]
                have := hr v c d rfl ⟨s1.rd.position, s6.rd.position⟩ (hm5.trans hm6).pos_le
                exact this.mono (Pos.le_refl _) (hm2.trans hm3).pos_le
            · intro e; rel_wp []
          · intro e; rel_wp []
        | quotation q =>
          dsimp only
          refine Tri.bind_getPos ?_
          refine Tri.bind (tri_of Inv.enter enter_spec) ?_
          intro _ s3 hm3
          refine Tri.bind_attempt (ihD s3 (htr1.reach (hm2.trans hm3).reach)) ?_ ?_
          · intro od s4 hod
            refine Tri.bind (leave_tri s4) ?_
            intro _ s5 hrd
            cases od with
            | none => exact Tri.peekErr
            | some d =>
              dsimp only
              refine Tri.pure ?_
              intro d' hd; cases hd
              obtain ⟨t1, ht1, _, ht2, hspan, hRd, hin⟩ := hod d rfl
              have hq : d.info.span.stop = s4.rd.position := by rw [hspan]
              have hstart : d.info.span.start = t1.rd.position := by rw [hspan]
              have hpos5 : s5.rd.position = s4.rd.position := by rw [hrd]
              have hm5 : Mv 0 s4 s5 := Mv.of_rd_eq hrd
              have hmv : Mv 1 s1 s5 :=
                (hm2.trans (hm3.trans ((ht1.trans ht2).trans hm5))).mono (by omega)
              have hsp : (⟨s1.rd.position, d.info.span.stop⟩ : Span) =
                  ⟨s1.rd.position, s5.rd.position⟩ := by rw [hq, hpos5]
              refine ⟨s1, hm1, hrest, hmv, hsp, ?_, ?_⟩
              · show R (⟨s1.rd.position, d.info.span.stop⟩ : Span)
                rw [hsp]; exact hR s1 s5 htr1 hmv.reach
              · show InsideV R ⟨s1.rd.position, d.info.span.stop⟩
                  (.cons (.symbol q.name) (.cons d.value .null))
                  (.cons _ (.prim ⟨s1.rd.position, s2.rd.position⟩)
                    (.cons d.info.span d.info (.prim ⟨d.info.span.stop, d.info.span.stop⟩)))
                rw [insideV_cons, cellV_cons, tailV_cons, cellV_cons, tailV_prim]
                have h2t : s2.rd.position ≤ t1.rd.position := (hm3.trans ht1).pos_le
                have hlt : t1.rd.position < s4.rd.position := ht2.pos_lt (Nat.le_refl _)
                refine ⟨⟨Pos.le_refl _, hm2.pos_lt (Nat.le_refl _), ?_,
                    hR s1 s2 htr1 hm2.reach, insideV_prim _ _ _⟩,
                  ⟨?_, ?_, Pos.le_refl _, hRd, hin⟩,
                  Or.inl ⟨rfl, Or.inr ⟨Pos.le_refl _, Pos.le_refl _, Pos.le_refl _⟩⟩⟩
                · show s2.rd.position ≤ d.info.span.stop
                  rw [hq]; exact Pos.le_trans h2t (Pos.le_of_lt hlt)
                · show s2.rd.position ≤ d.info.span.start
                  rw [hstart]; exact h2t
                · rw [hstart, hq]; exact hlt
          · intro e; rel_wp []
        | null => exact atomCase Token.null
        | nil => exact atomCase Token.nil
        | bool b => exact atomCase (Token.bool b)
        | char c => exact atomCase (Token.char c)
        | number n => exact atomCase (Token.number n)
        | symbol s => exact atomCase (Token.symbol s)
        | keyword s => exact atomCase (Token.keyword s)
        | string s => exact atomCase (Token.string s)
        | bytes b => exact atomCase (Token.bytes b)
    · intro term acc ms s lo htr hseq
      rw [parseListMeta]
      refine Tri.bind (parseWhitespace_tri s) ?_
      rintro o s1 ⟨hm1, -, -⟩
      have htr1 : Track base whole s1 := htr.reach hm1.reach
      cases o with
      | none => exact Tri.peekErr
      | some c =>
        dsimp only
        refine Tri.ite
          (fun _ => Tri.ite (fun _ => Tri.peekErr) (fun _ => Tri.ite (fun _ => ?_) (fun hne => ?_)))
          (fun _ => Tri.ite (fun _ => ?_) (fun _ => ?_))
        · exact Tri.pure ⟨hm1, fun v c d h => by cases h⟩
        · have hacc : acc ≠ [] := by
            intro h; subst h; simp at hne
          refine Tri.pure ⟨hm1, ?_⟩
          intro v c d h outer ho
          cases h
          refine chainV_buildMeta outer lo acc ms Value.null _ hacc ?_
          exact hseq.chain (Pos.le_trans hm1.pos_le ho)
            (by rw [tailV_prim]; exact Or.inl ⟨rfl, Or.inl rfl⟩)
        · refine Tri.bind_getPos ?_
          refine Tri.bind (tri_of Inv.discard discard_spec) ?_
          intro _ s2 hm2
          refine Tri.bind (tri_of peekOrNull_inv peekOrNull_spec) ?_
          intro nxt s3 hm3
          refine Tri.ite
            (fun _ => Tri.ite (fun _ => Tri.of_neverOk never_peek_err) (fun hne => ?_)) (fun _ => ?_)
          · have hacc : acc ≠ [] := by
              intro h; subst h; simp at hne
            refine Tri.bind (Q1 := fun (tail : Datum) s4 => DatumOK R s3 s4 tail) ?_ ?_
            · refine Tri.bind (ihD s3 (htr1.reach (hm2.trans hm3).reach)) ?_
              intro od s4 hod
              cases od with
              | none => exact Tri.peekErr
              | some d => exact Tri.pure (hod d rfl)
            · intro tail s4 htail
              refine Tri.bind (parseWhitespace_tri s4) ?_
              rintro o s5 ⟨hm5, -, -⟩
              cases o with
              | none => exact Tri.peekErr
              | some c' =>
                dsimp only
                refine Tri.ite (fun _ => ?_) (fun _ => Tri.peekErr)
                have h13 : Mv 1 s1 s3 := (hm2.trans hm3).mono (by omega)
                refine Tri.pure ⟨(hm1.trans (h13.trans (htail.mv.trans hm5))).mono (by omega), ?_⟩
                intro v c d h outer ho
                cases h
                refine chainV_buildMeta outer lo acc ms tail.value _ hacc ?_
                obtain ⟨t1, ht1, _, ht2, hspan, hRt, hin⟩ := htail
                have hq : tail.info.span.stop = s4.rd.position := by rw [hspan]
                have hstart : tail.info.span.start = t1.rd.position := by rw [hspan]
                have hstop : s4.rd.position ≤ outer.stop := Pos.le_trans hm5.pos_le ho
                have hlt : t1.rd.position < s4.rd.position := ht2.pos_lt (Nat.le_refl _)
                have hst : s.rd.position ≤ t1.rd.position :=
                  (hm1.trans (h13.trans ht1)).pos_le
                refine hseq.chain ?_ (TailV.of_datum tail.value tail.info ?_ ?_ ?_ hRt hin)
                · exact Pos.le_trans hst (Pos.le_trans (Pos.le_of_lt hlt) hstop)
                · rw [hstart]; exact hst
                · rw [hstart, hq]; exact hlt
                · rw [hq]; exact hstop
          · refine Tri.bind (tri_of parseSymbolBytes_inv parseSymbolBytes_spec) ?_
            intro name s4 hm4
            refine Tri.bind_getPos ?_
            have h14 : Mv 1 s1 s4 := ((hm2.trans hm3).trans hm4).mono (by omega)
            have hs : SeqV R lo (acc ++ [symbolValue cfg.opts name])
                (ms ++ [SpanInfo.prim ⟨s1.rd.position, s4.rd.position⟩]) s4.rd.position :=
              hseq.snoc (m := SpanInfo.prim ⟨s1.rd.position, s4.rd.position⟩) hm1.pos_le
                (h14.pos_lt (Nat.le_refl _)) ⟨hR s1 s4 htr1 h14.reach, insideV_prim _ _ _⟩
            refine Tri.conseq (ihL term _ _ s4 lo (htr1.reach h14.reach) hs) ?_
            rintro r s' ⟨hmv, hr⟩
            exact ⟨(hm1.trans (h14.trans hmv)).mono (by omega), hr⟩
        · refine Tri.bind (ihD s1 htr1) ?_
          intro od s2 hod
          cases od with
          | none => exact Tri.peekErr
          | some d =>
            dsimp only
            have hd := hod d rfl
            obtain ⟨t1, ht1, _, ht2, hspan, hRd, hin⟩ := hd
            have hq : d.info.span.stop = s2.rd.position := by rw [hspan]
            have hstart : d.info.span.start = t1.rd.position := by rw [hspan]
            have hs : SeqV R lo (acc ++ [d.value]) (ms ++ [d.info]) s2.rd.position := by
              rw [← hq]
              refine hseq.snoc ?_ ?_ ⟨hRd, hin⟩
              · rw [hstart]; exact (hm1.trans ht1).pos_le
              · rw [hstart, hq]; exact ht2.pos_lt (Nat.le_refl _)
            refine Tri.conseq (ihL term _ _ s2 lo (htr1.reach (ht1.trans ht2).reach) hs) ?_
            rintro r s' ⟨hmv, hr⟩
            exact ⟨(hm1.trans ((ht1.trans ht2).trans hmv)).mono (by omega), hr⟩
    · intro term acc ms s lo htr hseq
      rw [parseVectorMeta]
      refine Tri.bind (parseWhitespace_tri s) ?_
      rintro o s1 ⟨hm1, -, -⟩
      have htr1 : Track base whole s1 := htr.reach hm1.reach
      cases o with
      | none => exact Tri.peekErr
      | some c =>
        dsimp only
        refine Tri.ite (fun _ => Tri.ite (fun _ => Tri.peekErr) (fun _ => ?_)) (fun _ => ?_)
        · exact Tri.pure ⟨hm1, hseq.weaken hm1.pos_le⟩
        · refine Tri.bind (ihD s1 htr1) ?_
          intro od s2 hod
          cases od with
          | none => exact Tri.peekErr
          | some d =>
            dsimp only
            have hd := hod d rfl
            obtain ⟨t1, ht1, _, ht2, hspan, hRd, hin⟩ := hd
            have hq : d.info.span.stop = s2.rd.position := by rw [hspan]
            have hstart : d.info.span.start = t1.rd.position := by rw [hspan]
            have hs : SeqV R lo (acc ++ [d.value]) (ms ++ [d.info]) s2.rd.position := by
              rw [← hq]
              refine hseq.snoc ?_ ?_ ⟨hRd, hin⟩
              · rw [hstart]; exact (hm1.trans ht1).pos_le
              · rw [hstart, hq]; exact ht2.pos_lt (Nat.le_refl _)
            refine Tri.conseq (ihV term _ _ s2 lo (htr1.reach (ht1.trans ht2).reach) hs) ?_
            rintro r s' ⟨hmv, hr⟩
            exact ⟨(hm1.trans ((ht1.trans ht2).trans hmv)).mono (by omega), hr⟩

/-! ### consequences -/

theorem Inv.endsIn {α : Type} {I : St → Prop} {m : P α} (hm : Inv I m) {s s' : St} (hs : I s)
    (hr : (m s).endsIn s') : I s' := by
  have := hm s hs
  rcases hr with ⟨a, hr⟩ | ⟨e, hr⟩ <;> rw [hr] at this <;> exact this

/-- an element span is real in `input`: it is `⟨posOf p, posOf q⟩` for prefixes `p ≤ q` of it -/
def Real (input : List UInt8) (sp : Span) : Prop :=
  ∃ p q, p <+: q ∧ q <+: input ∧ sp = ⟨posOf p, posOf q⟩

theorem real_of_at {input : List UInt8} {s1 s2 : St} (h1 : At input s1) (hr : Reach s1 s2) :
    Real input ⟨s1.rd.position, s2.rd.position⟩ := by
  obtain ⟨pre, e, p⟩ := h1
  obtain ⟨mid, e2, p2⟩ := hr
  exact ⟨pre, pre ++ mid, List.prefix_append _ _,
    ⟨s2.rd.rest, by rw [List.append_assoc, e2, e]⟩, by rw [p2, p, posOf_append]⟩

/-- without any assumption on the starting state (take `s` itself as the start of the track) -/
theorem datumOK_of_ok {cfg : Cfg} {fuel : Nat} {s s' : St} {d : Datum}
    (h : nextDatum cfg fuel s = .ok (some d) s') : DatumOK (fun _ => True) s s' d := by
  have := (spans_all (R := fun _ => True) cfg s.rd.position s.rd.rest (fun _ _ _ _ => trivial)
    fuel).1 s (Reach.refl s)
  unfold Tri at this
  rw [h] at this
  exact this d rfl

/-- from a state that is `At input`: all element spans are real in `input` -/
theorem datumOK_real {cfg : Cfg} {fuel : Nat} {s s' : St} {d : Datum} {input : List UInt8}
    (hat : At input s) (h : nextDatum cfg fuel s = .ok (some d) s') :
    DatumOK (Real input) s s' d := by
  have := (spans_all (R := Real input) cfg ⟨1, 0⟩ input (fun _ _ h1 hr => real_of_at h1 hr)
    fuel).1 s hat
  unfold Tri at this
  rw [h] at this
  exact this d rfl

/-- the first part of a split list is determined by its length -/
theorem append_drop_eq {α : Type} {mid l : List α} {n : Nat} (h : mid ++ l.drop n = l)
    (hn : n ≤ l.length) : mid = l.take n := by
  have h2 : l.take n ++ l.drop n = l := List.take_append_drop n l
  have hl : mid.length = (l.take n).length := by
    have := congrArg List.length h
    simp only [List.length_append, List.length_drop, List.length_take] at this ⊢
    omega
  exact (List.append_inj (h.trans h2.symm) hl).1

theorem wsLen_le : ∀ l : List UInt8, wsLen l ≤ l.length ∧ commentLen l ≤ l.length := by
  intro l
  induction l with
  | nil => simp [wsLen, commentLen]
  | cons c cs ih =>
    constructor
    · simp only [wsLen, List.length_cons]
      split
      · omega
      · split <;> omega
    · simp only [commentLen, List.length_cons]
      split <;> omega

/-- the span of a datum in terms of prefixes of the input -/
theorem span_bounds_pre {cfg : Cfg} {fuel : Nat} {s s' : St} {d : Datum} {input pre : List UInt8}
    (h : nextDatum cfg fuel s = .ok (some d) s') (hin : pre ++ s.rd.rest = input)
    (hpos : s.rd.position = posOf pre) :
    ∃ b mid, (pre ++ s.rd.rest.take (wsLen s.rd.rest) ++ b :: mid) ++ s'.rd.rest = input ∧
      isTrivia b = false ∧ b ≠ 59 ∧
      d.info.span = ⟨posOf (pre ++ s.rd.rest.take (wsLen s.rd.rest)),
        posOf (pre ++ s.rd.rest.take (wsLen s.rd.rest) ++ b :: mid)⟩ := by
  obtain ⟨s1, hm1, hrest, hm2, hspan, _⟩ := datumOK_of_ok h
  obtain ⟨mid1, e1, p1⟩ := hm1.reach
  obtain ⟨mid2, e2, p2⟩ := hm2.reach
  have hmid1 : mid1 = s.rd.rest.take (wsLen s.rd.rest) := by
    rw [hrest] at e1
    exact append_drop_eq e1 (wsLen_le _).1
  cases mid2 with
  | nil =>
    have := hm2.len
    rw [← e2] at this
    simp only [List.nil_append] at this
    omega
  | cons b mid =>
    have hhead : s.rd.rest.drop (wsLen s.rd.rest) = b :: (mid ++ s'.rd.rest) := by
      rw [← hrest, ← e2]; rfl
    obtain ⟨hb1, hb2⟩ := (wsLen_drop_head s.rd.rest).1 b _ hhead
    refine ⟨b, mid, ?_, hb1, hb2, ?_⟩
    · rw [← hmid1, List.append_assoc, e2, List.append_assoc, e1, hin]
    · rw [hspan, p2, p1, hpos, ← hmid1, posOf_append, posOf_append, posOf_append]

/-- the span of the first datum found in `input`, as a decidable check for the examples -/
def topSpan : Res (Option Datum) → Option Span
  | .ok (some d) _ => some d.info.span
  | _ => none

/-- the spans of the elements of a list datum (cars, then a dotted tail), for the examples -/
def carSpans : SpanInfo → List Span
  | .cons _ car cdr => car.span :: carSpans cdr
  | .prim sp => if sp = Span.empty then [] else [sp]
  | .vec sp _ => [sp]

def topCarSpans : Res (Option Datum) → List Span
  | .ok (some d) _ => carSpans d.info
  | _ => []

/-! ### what the datum iterators yield -/

/-- a datum whose span tree is well nested in its own span, following its value -/
def WellNested (R : Span → Prop) (d : Datum) : Prop := InsideV R d.info.span d.value d.info

/-- `Siblings R outer lo es`: the datums `es` are non-empty, lie between `lo` and the end of
    `outer`, follow one another without overlap, and each is well nested -/
def Siblings (R : Span → Prop) (outer : Span) : Pos → List Datum → Prop
  | _, [] => True
  | lo, e :: es =>
    lo ≤ e.info.span.start ∧ e.info.span.start < e.info.span.stop ∧
      e.info.span.stop ≤ outer.stop ∧ R e.info.span ∧ WellNested R e ∧
      Siblings R outer e.info.span.stop es

/-- the first `n` results of calling `ListIter::next` repeatedly (`none` if its `expect` fires);
    the same function as `DCursor.take` of DatumValue.lean -/
def takeN : Nat → DCursor → Option (List (Option Datum))
  | 0, _ => some []
  | n + 1, c =>
    match c.next with
    | none => none
    | some (x, c') => (takeN n c').map (x :: ·)

/-- what is left to iterate is a well-nested rest of a list after `lo` -/
def CurOK (R : Span → Prop) (outer : Span) (lo : Pos) : DCursor → Prop
  | .cons car cdr cm dm => ElemV R outer lo car cm ∧ TailV R outer cm.span.stop cdr dm
  | .dot v m => ElemV R outer lo v m
  | .rest v m => ElemV R outer lo v m
  | .exhausted => True

theorem CurOK.next {outer : Span} {lo : Pos} {c : DCursor} (h : CurOK R outer lo c) :
    ∃ item c', c.next = some (item, c') ∧
      match item with
      | some e => ElemV R outer lo e.value e.info ∧ CurOK R outer e.info.span.stop c'
      | none => CurOK R outer lo c' := by
  cases c with
  | cons car cdr cm dm =>
    obtain ⟨h1, h2⟩ := h
    cases dm with
    | cons sp c d =>
      rw [tailV_cons] at h2
      cases cdr with
      | cons a b => exact ⟨_, _, rfl, h1, h2⟩
      | _ => exact h2.elim
    | prim sp =>
      rw [tailV_prim] at h2
      by_cases hn : cdr.isNull = true
      · refine ⟨some ⟨car, cm⟩, .exhausted, ?_, h1, trivial⟩
        simp [DCursor.next, hn]
      · refine ⟨some ⟨car, cm⟩, .dot cdr (.prim sp), ?_, h1, ?_⟩
        · simp [DCursor.next, hn]
        · rcases h2 with ⟨hv, _⟩ | h2
          · subst hv; exact absurd rfl hn
          · exact ⟨h2.1, h2.2.1, h2.2.2.1, h2.2.2.2, insideV_prim _ _ _⟩
    | vec sp xs =>
      rw [tailV_vec] at h2
      refine ⟨some ⟨car, cm⟩, .dot cdr (.vec sp xs), rfl, h1, h2.1, h2.2.1, h2.2.2.1, h2.2.2.2.1, ?_⟩
      show InsideV R sp cdr (.vec sp xs)
      rw [insideV_vec]
      exact h2.2.2.2.2
  | dot v m => exact ⟨none, .rest v m, rfl, h⟩
  | rest v m => exact ⟨some ⟨v, m⟩, .exhausted, rfl, h, trivial⟩
  | exhausted => exact ⟨none, .exhausted, rfl, trivial⟩

theorem CurOK.take {outer : Span} : ∀ (n : Nat) (lo : Pos) (c : DCursor), CurOK R outer lo c →
    ∃ l, takeN n c = some l ∧ Siblings R outer lo (l.filterMap id) := by
  intro n
  induction n with
  | zero => intro lo c _; exact ⟨[], rfl, trivial⟩
  | succ n ih =>
    intro lo c h
    obtain ⟨item, c', hn, hi⟩ := h.next
    cases item with
    | none =>
      obtain ⟨l, hl, hs⟩ := ih lo c' hi
      exact ⟨none :: l, by simp [takeN, hn, hl], by simpa using hs⟩
    | some e =>
      obtain ⟨l, hl, hs⟩ := ih _ c' hi.2
      refine ⟨some e :: l, by simp [takeN, hn, hl], ?_⟩
      simp only [List.filterMap_cons, id]
      exact ⟨hi.1.1, hi.1.2.1, hi.1.2.2.1, hi.1.2.2.2.1, hi.1.2.2.2.2, hs⟩

theorem listIter_curOK {d : Datum} (h : WellNested R d) {c : DCursor} (hc : d.listIter = some c) :
    CurOK R d.info.span d.info.span.start c := by
  rcases d with ⟨v, i⟩
  unfold WellNested at h
  cases v <;> cases i <;> simp [Datum.listIter] at hc <;> subst hc <;> first | trivial | exact h

theorem elemsV_siblings {outer : Span} : ∀ (lo : Pos) (vs : List Value) (ms : List SpanInfo),
    ElemsV R outer lo vs ms →
    Siblings R outer lo ((vs.zip ms).map fun (v, m) => (⟨v, m⟩ : Datum)) ∧ vs.length = ms.length
  | lo, vs, [], h => by
    rw [elemsV_nil] at h
    subst h
    exact ⟨trivial, rfl⟩
  | lo, vs, m :: ms, h => by
    rw [elemsV_cons] at h
    obtain ⟨v, vs', rfl, h1, h2⟩ := h
    obtain ⟨ih1, ih2⟩ := elemsV_siblings m.span.stop vs' ms h2
    refine ⟨?_, by simp [ih2]⟩
    simp only [List.zip_cons_cons, List.map_cons]
    exact ⟨h1.1, h1.2.1, h1.2.2.1, h1.2.2.2.1, h1.2.2.2.2, ih1⟩

/-- number of `next` results (out of 5 calls) of the list iterator of a parsed datum, for the
    examples -/
def iterLen : Res (Option Datum) → Option Nat
  | .ok (some d) _ => (d.listIter.bind (takeN 5)).map List.length
  | _ => none

/-! ### quote shorthands -/

theorem parseToken_39 (cfg : Cfg) (fuel : Nat) :
    parseToken cfg fuel 39 = (do discard; pure (.quotation .quote)) := by
  unfold parseToken
  simp [isDigit, isAsciiAlpha]

theorem parseToken_96 (cfg : Cfg) (fuel : Nat) :
    parseToken cfg fuel 96 = (do discard; pure (.quotation .quasiquote)) := by
  unfold parseToken
  simp [isDigit, isAsciiAlpha]

theorem parseToken_44 (cfg : Cfg) (fuel : Nat) :
    parseToken cfg fuel 44 = (do
      discard
      let c ← peekOrNull
      if c == 64 then do discard; pure (.quotation .unquoteSplicing)
      else pure (.quotation .unquote)) := by
  unfold parseToken
  simp [isDigit, isAsciiAlpha]

/-- the characters of a quote shorthand -/
def _root_.Lexpr.Parse.Quote.shorthand : Quote → List UInt8
  | .quote => [39]
  | .quasiquote => [96]
  | .unquote => [44]
  | .unquoteSplicing => [44, 64]

theorem discard_tri (s : St) :
    Tri discard s (fun _ s' => ∃ b, s.rd.rest = b :: s'.rd.rest) := by
  unfold Tri discard
  cases hr : s.rd.rest with
  | nil => trivial
  | cons b bs =>
    refine ⟨b, ?_⟩
    show b :: bs = b :: (s.rd.consume 1).rest
    rw [consume_rest, hr]; rfl

theorem peekOrNull_tri (s : St) :
    Tri peekOrNull s (fun c s' => s'.rd.rest = s.rd.rest ∧ c = s.rd.rest.head?.getD 0) := by
  unfold peekOrNull
  show Sat (P.bind peek (fun b => pure (b.getD 0)) s) _ _ _
  unfold P.bind peek
  cases hr : s.rd.rest with
  | nil =>
    by_cases hf : s.rd.faulty = true
    · simp only [hf, if_true]; trivial
    · simp only [hf]; exact ⟨hr, rfl⟩
  | cons b bs => exact ⟨hr, rfl⟩

/-- the token read at a quote shorthand, and what it consumes -/
theorem quote_token_tri (cfg : Cfg) (fuel : Nat) (q : Quote) (x : List UInt8) (s : St)
    (hs : s.rd.rest = q.shorthand ++ x) (hq : q = .unquote → x.head? ≠ some 64) :
    Tri (parseToken cfg fuel ((q.shorthand ++ x).head?.getD 0)) s
      (fun tok s' => tok = .quotation q ∧ s'.rd.rest = x) := by
  cases q with
  | quote =>
    show Tri (parseToken cfg fuel 39) s _
    rw [parseToken_39]
    refine Tri.bind (discard_tri s) ?_
    rintro _ s1 ⟨b, hb⟩
    refine Tri.pure ⟨rfl, ?_⟩
    rw [hs] at hb
    exact (List.cons.inj hb).2.symm
  | quasiquote =>
    show Tri (parseToken cfg fuel 96) s _
    rw [parseToken_96]
    refine Tri.bind (discard_tri s) ?_
    rintro _ s1 ⟨b, hb⟩
    refine Tri.pure ⟨rfl, ?_⟩
    rw [hs] at hb
    exact (List.cons.inj hb).2.symm
  | unquote =>
    show Tri (parseToken cfg fuel 44) s _
    rw [parseToken_44]
    refine Tri.bind (discard_tri s) ?_
    rintro _ s1 ⟨b, hb⟩
    rw [hs] at hb
    have h1 : s1.rd.rest = x := (List.cons.inj hb).2.symm
    refine Tri.bind (peekOrNull_tri s1) ?_
    rintro c s2 ⟨h2, hc⟩
    have hne : (c == 64) = false := by
      rw [hc, h1]
      have := hq rfl
      cases x with
      | nil => decide
      | cons y ys =>
        simp only [List.head?_cons, ne_eq, Option.some.injEq] at this
        simpa using this
    simp only [hne]
    exact Tri.pure ⟨rfl, h2.trans h1⟩
  | unquoteSplicing =>
    show Tri (parseToken cfg fuel 44) s _
    rw [parseToken_44]
    refine Tri.bind (discard_tri s) ?_
    rintro _ s1 ⟨b, hb⟩
    rw [hs] at hb
    have h1 : s1.rd.rest = 64 :: x := (List.cons.inj hb).2.symm
    refine Tri.bind (peekOrNull_tri s1) ?_
    rintro c s2 ⟨h2, hc⟩
    have hc64 : (c == 64) = true := by rw [hc, h1]; rfl
    simp only [hc64, if_true]
    refine Tri.bind (discard_tri s2) ?_
    rintro _ s3 ⟨b', hb'⟩
    refine Tri.pure ⟨rfl, ?_⟩
    rw [h2, h1] at hb'
    exact (List.cons.inj hb').2.symm

/-- the run of `nextDatum` up to the token, and the datum it builds at a quote shorthand -/
theorem quotation_inv {cfg : Cfg} {fuel : Nat} {s s' : St} {d : Datum}
    (h : nextDatum cfg fuel s = .ok (some d) s') :
    ∃ s1 pk tok s2, Mv 0 s s1 ∧ s1.rd.rest = s.rd.rest.drop (wsLen s.rd.rest) ∧
      s1.rd.rest.head? = some pk ∧
      parseToken cfg (s1.rd.rest.length + 1) pk s1 = .ok tok s2 ∧
      ∀ q, tok = .quotation q →
        ∃ dq, d = Datum.quotation q dq ⟨s1.rd.position, s2.rd.position⟩ := by
  cases fuel with
  | zero => rw [nextDatum] at h; cases h
  | succ f =>
    rw [nextDatum] at h
    obtain ⟨o, s1, hws, h⟩ := bind_ok h
    have hw := parseWhitespace_tri s
    unfold Tri at hw
    rw [hws] at hw
    obtain ⟨hm1, hrest, ho⟩ := hw
    cases o with
    | none => cases h
    | some pk =>
      dsimp only at h
      obtain ⟨start, s1a, hgp, h⟩ := bind_ok h
      cases hgp
      obtain ⟨tf, s1b, htf, h⟩ := bind_ok h
      cases htf
      obtain ⟨tok, s2, htok, h⟩ := bind_ok h
      refine ⟨s1, pk, tok, s2, hm1, hrest, ho.symm, htok, ?_⟩
      intro q hq
      subst hq
      dsimp only at h
      obtain ⟨tokenEnd, s2a, hgp2, h⟩ := bind_ok h
      cases hgp2
      obtain ⟨_, s3, _, h⟩ := bind_ok h
      obtain ⟨ret, s4, hret, h⟩ := bind_ok h
      obtain ⟨_, s5, _, h⟩ := bind_ok h
      rcases ret with e | _ | dq <;> dsimp only at h
      · cases h
      · cases h
      · cases h; exact ⟨dq, rfl⟩

/-! ## Main theorems -/

/-- **C11_posOf_mono**: on prefixes, positions grow with the prefix, strictly for a proper prefix
    (every consumed byte strictly advances (line, column) in lexicographic order).  Hence a span
    `⟨posOf p, posOf q⟩` with `p` a proper prefix of `q` is non-empty. -/
theorem C11_posOf_mono {p q : List UInt8} (h : p <+: q) :
    posOf p ≤ posOf q ∧ (p ≠ q → posOf p < posOf q) :=
  ⟨posOf_mono h, posOf_strict h⟩

example : posOf (asc "a\nb") < posOf (asc "a\nbc") ∧ posOf (asc "a\nbc") = ⟨2, 2⟩ := by decide

/-- **C11_posOf_inj**: on the prefixes of one input the position determines the prefix, and the
    order of positions is the order of byte offsets: a reported (line, column) converts back to a
    byte offset uniquely. -/
theorem C11_posOf_inj {p q input : List UInt8} (hp : p <+: input) (hq : q <+: input) :
    (posOf p = posOf q → p = q) ∧ (posOf p ≤ posOf q ↔ p.length ≤ q.length) :=
  ⟨posOf_inj hp hq, posOf_le_iff hp hq⟩

example : asc "ab" <+: asc "ab\ncd" ∧ asc "ab\nc" <+: asc "ab\ncd" := by decide

/-- **C11_at_preserved**: the ghost invariant `At input` ("the reader has consumed a prefix `pre`
    of `input` and its position is `posOf pre`") is kept by every entry point, whether it ends with
    a result or with an error, for every amount of fuel.  So every position the parser records is
    `posOf` of a prefix of the input. -/
theorem C11_at_preserved (cfg : Cfg) (input : List UInt8) (s s' : St) (h : At input s) :
    (∀ fuel, (nextDatum cfg fuel s).endsIn s' → At input s') ∧
    (∀ fuel, (nextValue cfg fuel s).endsIn s' → At input s') ∧
    ((nextDatumTop cfg s).endsIn s' → At input s') ∧
    ((nextValueTop cfg s).endsIn s' → At input s') ∧
    ((expectDatum cfg s).endsIn s' → At input s') ∧
    ((expectValue cfg s).endsIn s' → At input s') ∧
    ((expectEnd s).endsIn s' → At input s') ∧
    ((fromTraitDatum cfg s).endsIn s' → At input s') ∧
    ((fromTrait cfg s).endsIn s' → At input s') :=
  ⟨fun fuel => (datum_invs cfg fuel).1.endsIn h, fun fuel => (value_invs cfg fuel).1.endsIn h,
   nextDatumTop_inv.endsIn h, nextValueTop_inv.endsIn h, expectDatum_inv.endsIn h,
   expectValue_inv.endsIn h, expectEnd_inv.endsIn h, fromTraitDatum_inv.endsIn h,
   fromTrait_inv.endsIn h⟩

/-- a freshly initialised parser is `At` its input -/
theorem at_initSt (mode : Mode) (input : List UInt8) (faulty : Bool) :
    At input (initSt mode input faulty) := ⟨[], rfl, rfl⟩

example : ∃ c l k s', nextDatum exCfg 9 (initSt .io (asc "(a\n . )")) = .err (.syntax c l k) s' :=
  syntaxErr_elim (by decide +kernel)

/-- **C11_at_history**: the invariant holds along every call history on one parser. -/
theorem C11_at_history (cfg : Cfg) (input : List UInt8) (op : Op) (s s' : St) (it : Item)
    (h : At input s) (hstep : stepOp cfg op s = (it, some s')) : At input s' := by
  have hd := @nextDatumTop_inv (At input) _ cfg s h
  have hv := @nextValueTop_inv (At input) _ cfg s h
  have hed := @expectDatum_inv (At input) _ cfg s h
  have hev := @expectValue_inv (At input) _ cfg s h
  have hee := @expectEnd_inv (At input) _ s h
  cases op <;> simp only [stepOp] at hstep <;> split at hstep <;>
    simp only [Prod.mk.injEq, Option.some.injEq, reduceCtorEq, and_false] at hstep <;>
    (obtain ⟨_, rfl⟩ := hstep) <;> simp_all [Sat]

example : (runHistory exCfg [.nextDatum, .expectEnd] (initSt .str (asc "a )"))).length = 2 := by
  decide +kernel

/-- **C11_span_bounds**: the span of a datum returned by `next_datum` is
    `⟨posOf p, posOf q⟩` for two prefixes `p`, `q` of the input, where `p` is where the reader
    stood after skipping the leading trivia, `q = p ++ b :: mid` is a strictly longer prefix
    that ends exactly where the parser stopped (`q ++ s'.rd.rest = input`), and the text
    `b :: mid` of the datum starts with a byte that is neither whitespace nor `;`. -/
theorem C11_span_bounds (cfg : Cfg) (fuel : Nat) (s s' : St) (d : Datum) (input : List UInt8)
    (h : nextDatum cfg fuel s = .ok (some d) s') (hat : At input s) :
    ∃ p b mid, p <+: input ∧ (p ++ b :: mid) ++ s'.rd.rest = input ∧
      isTrivia b = false ∧ b ≠ 59 ∧
      d.info.span = ⟨posOf p, posOf (p ++ b :: mid)⟩ ∧
      (∃ pre, pre ++ s.rd.rest = input ∧ p = pre ++ s.rd.rest.take (wsLen s.rd.rest)) := by
  obtain ⟨pre, hin, hpos⟩ := hat
  obtain ⟨b, mid, h1, h2, h3, h4⟩ := span_bounds_pre h hin hpos
  refine ⟨_, b, mid, ?_, h1, h2, h3, h4, pre, hin, rfl⟩
  exact ⟨(b :: mid) ++ s'.rd.rest, by rw [← h1]; simp⟩

example : topSpan (nextDatum exCfg 20
      (initSt .io (asc " ; c\n  (a \"" ++ [0xCE, 0xBB] ++ asc "\")\n"))) =
    some ⟨⟨2, 2⟩, ⟨2, 10⟩⟩ := by decide +kernel

/-- **C11_span_nonempty**: consequently a datum's span is non-empty, starts at or after the
    position the call started from, and stops at the position of the state the call returns. -/
theorem C11_span_nonempty (cfg : Cfg) (fuel : Nat) (s s' : St) (d : Datum)
    (h : nextDatum cfg fuel s = .ok (some d) s') :
    s.rd.position ≤ d.info.span.start ∧ d.info.span.start < d.info.span.stop ∧
      d.info.span.stop = s'.rd.position := by
  obtain ⟨s1, hm1, _, hm2, hspan, _⟩ := datumOK_of_ok h
  rw [hspan]
  exact ⟨hm1.pos_le, hm2.pos_lt (Nat.le_refl _), rfl⟩

example : ∃ d s', nextDatum exCfg 9 (initSt .slice (asc "\n#(1)")) = .ok (some d) s' :=
  okSome_elim (by decide +kernel)

/-- **C11_children_inside**: every datum returned by `next_datum` is well nested: the spans of
    its elements (cars along the list, a dotted tail, vector entries) are non-empty, lie within
    the datum's own span, follow one another without overlap, and recursively so for each element.
    For a quote shorthand the elements are the head, whose span is that of the shorthand token,
    and the quoted datum. -/
theorem C11_children_inside (cfg : Cfg) (fuel : Nat) (s s' : St) (d : Datum)
    (h : nextDatum cfg fuel s = .ok (some d) s') : Inside d.info.span d.info := by
  obtain ⟨_, _, _, _, _, _, hin⟩ := datumOK_of_ok h
  exact InsideV.forget _ _ hin

example : topCarSpans (nextDatum exCfg 30 (initSt .str (asc "(a 'b\n . #(c))"))) =
    [⟨⟨1, 1⟩, ⟨1, 2⟩⟩, ⟨⟨1, 3⟩, ⟨1, 5⟩⟩, ⟨⟨2, 3⟩, ⟨2, 7⟩⟩] := by decide +kernel

/-- **C11_sources**: spans do not depend on the kind of source.  Two parsers over the same unread
    input at the same position (whatever their modes, `peeked` flags, `faulty` flags and depths)
    that both return a datum return the same datum — value and the whole span tree — and stop at
    the same place.  The same holds for the public entry points. -/
theorem C11_sources (cfg : Cfg) (s1 s2 s1' s2' : St) (hs : Same s1 s2) :
    (∀ fuel d1 d2, nextDatum cfg fuel s1 = .ok d1 s1' → nextDatum cfg fuel s2 = .ok d2 s2' →
      d1 = d2 ∧ Same s1' s2') ∧
    (∀ d1 d2, nextDatumTop cfg s1 = .ok d1 s1' → nextDatumTop cfg s2 = .ok d2 s2' →
      d1 = d2 ∧ Same s1' s2') ∧
    (∀ d1 d2, expectDatum cfg s1 = .ok d1 s1' → expectDatum cfg s2 = .ok d2 s2' →
      d1 = d2 ∧ Same s1' s2') ∧
    (∀ d1 d2, fromTraitDatum cfg s1 = .ok d1 s1' → fromTraitDatum cfg s2 = .ok d2 s2' →
      d1 = d2 ∧ Same s1' s2') :=
  ⟨fun fuel _ _ h1 h2 => (datum_rels cfg fuel).1 s1 s2 hs _ _ _ _ h1 h2,
   fun _ _ h1 h2 => nextDatumTop_rel s1 s2 hs _ _ _ _ h1 h2,
   fun _ _ h1 h2 => expectDatum_rel s1 s2 hs _ _ _ _ h1 h2,
   fun _ _ h1 h2 => fromTraitDatum_rel s1 s2 hs _ _ _ _ h1 h2⟩

/-- parsers initialised on the same bytes from different kinds of source are `Same` -/
theorem same_initSt (m1 m2 : Mode) (input : List UInt8) (f1 f2 : Bool) :
    Same (initSt m1 input f1) (initSt m2 input f2) := ⟨rfl, rfl, rfl⟩

example :
    topSpan (nextDatum exCfg 20 (initSt .io (asc "\n '\"" ++ [0xCE, 0xBB] ++ asc "\" x"))) =
      some ⟨⟨2, 1⟩, ⟨2, 6⟩⟩ ∧
    topSpan (nextDatum exCfg 20 (initSt .str (asc "\n '\"" ++ [0xCE, 0xBB] ++ asc "\" x"))) =
      some ⟨⟨2, 1⟩, ⟨2, 6⟩⟩ := by
  decide +kernel

/-- **C11_well_nested**: the value-aware form of `C11_children_inside`, with the input: every
    datum returned by `next_datum` from a state that is `At input` is `WellNested (Real input)` —
    its value has the shape of its span tree; a final cdr other than `Null` (a dotted tail)
    carries a non-empty span after the last element and within the list; and the span of the datum
    and of every element, at every depth, is real in `input`: it is `⟨posOf p, posOf q⟩` for two
    prefixes `p ≤ q` of `input` (so it lies inside the input and converts back to byte offsets).
    This is what the statements about the iterators below start from. -/
theorem C11_well_nested (cfg : Cfg) (fuel : Nat) (s s' : St) (d : Datum) (input : List UInt8)
    (h : nextDatum cfg fuel s = .ok (some d) s') (hat : At input s) :
    Real input d.info.span ∧ WellNested (Real input) d := by
  obtain ⟨_, _, _, _, _, hR, hin⟩ := datumOK_real hat h
  exact ⟨hR, hin⟩

example : ∃ d s', nextDatum exCfg 30 (initSt .io (asc "(a . b)")) = .ok (some d) s' :=
  okSome_elim (by decide +kernel)

/-- **C11_list_iter_spans**: iterating `Datum::list_iter` over a well-nested datum never hits the
    "badly shaped list span information" `expect`, and the datums it yields (the elements, and a
    dotted tail as the last one) have non-empty spans inside the datum's span, each starting at or
    after the stop of the one before, each satisfies `R` (with `R = Real input`: is a pair of
    positions of prefixes of the input) and each is well nested again (so the statement applies
    recursively to every reachable sub-datum). -/
theorem C11_list_iter_spans (R : Span → Prop) (d : Datum) (h : WellNested R d) (c : DCursor)
    (hc : d.listIter = some c) (n : Nat) :
    ∃ l, takeN n c = some l ∧ Siblings R d.info.span d.info.span.start (l.filterMap id) :=
  CurOK.take n _ c (listIter_curOK h hc)

example : iterLen (nextDatum exCfg 30 (initSt .io (asc "(a 'b . c)"))) = some 5 := by
  decide +kernel

/-- **C11_vector_iter_spans**: the same for `Datum::vector_iter`: the datums it yields have
    non-empty, ordered, non-overlapping spans inside the vector's span, and each is well nested. -/
theorem C11_vector_iter_spans (R : Span → Prop) (d : Datum) (h : WellNested R d) (l : List Datum)
    (hv : d.vectorIter = some l) : Siblings R d.info.span d.info.span.start l := by
  rcases d with ⟨v, i⟩
  unfold WellNested at h
  cases v <;> cases i <;> simp [Datum.vectorIter] at hv
  subst hv
  simp only at h ⊢
  rw [insideV_vec] at h
  obtain ⟨vs, hvs, h⟩ := h
  cases hvs
  exact (elemsV_siblings _ _ _ h).1

example : ∃ d s', nextDatum exCfg 30 (initSt .slice (asc "#(a (b) \"c\")")) = .ok (some d) s' :=
  okSome_elim (by decide +kernel)

/-- **C11_quote_head_span**: when the text of a datum starts with a quote shorthand (`'`, `` ` ``, `,@`,
    or `,` not followed by `@`), `next_datum` returns `Datum::quotation` of the quoted datum with
    the head span covering exactly the shorthand characters: it runs from `posOf p` (where the
    datum starts) to `posOf (p ++ shorthand)`.  (By `C11_quote_head`/`C11_quote_span` of
    Props/C11.lean the whole datum then runs from `posOf p` to the end of the quoted datum, which
    keeps its own span tree.) -/
theorem C11_quote_head_span (cfg : Cfg) (fuel : Nat) (s s' : St) (d : Datum) (input : List UInt8)
    (h : nextDatum cfg fuel s = .ok (some d) s') (hat : At input s) (q : Quote) (x : List UInt8)
    (htext : s.rd.rest.drop (wsLen s.rd.rest) = q.shorthand ++ x)
    (hq : q = .unquote → x.head? ≠ some 64) :
    ∃ p dq, p <+: input ∧
      (∃ pre, pre ++ s.rd.rest = input ∧ p = pre ++ s.rd.rest.take (wsLen s.rd.rest)) ∧
      d = Datum.quotation q dq ⟨posOf p, posOf (p ++ q.shorthand)⟩ := by
  obtain ⟨s1, pk, tok, s2, hm1, hrest, hpk, htok, hd⟩ := quotation_inv h
  have hs1 : s1.rd.rest = q.shorthand ++ x := hrest.trans htext
  have hpk' : pk = (q.shorthand ++ x).head?.getD 0 := by rw [← hs1, hpk]; rfl
  have ht := quote_token_tri cfg (s1.rd.rest.length + 1) q x s1 hs1 hq
  unfold Tri at ht
  rw [← hpk', htok] at ht
  obtain ⟨htq, hx⟩ := ht
  obtain ⟨dq, hdq⟩ := hd q htq
  obtain ⟨pre, hin, hpos⟩ := hat
  obtain ⟨mid1, e1, p1⟩ := hm1.reach
  have hmid1 : mid1 = s.rd.rest.take (wsLen s.rd.rest) := by
    rw [hrest] at e1
    exact append_drop_eq e1 (wsLen_le _).1
  have hr2 : Reach s1 s2 := by
    have := parseToken_inv (I := Reach s1) (cfg := cfg) (fuel := s1.rd.rest.length + 1) (pk := pk)
      s1 (Reach.refl s1)
    rw [htok] at this
    exact this
  obtain ⟨mid2, e2, p2⟩ := hr2
  have hmid2 : mid2 = q.shorthand := by
    rw [hs1, hx] at e2
    exact List.append_cancel_right e2
  have hp1 : s1.rd.position = posOf (pre ++ mid1) := by rw [p1, hpos, posOf_append]
  have hp2 : s2.rd.position = posOf (pre ++ mid1 ++ q.shorthand) := by
    rw [p2, hp1, hmid2]
    exact (posOf_append _ _).symm
  refine ⟨pre ++ mid1, dq, ⟨s1.rd.rest, by rw [List.append_assoc, e1, hin]⟩,
    ⟨pre, hin, by rw [hmid1]⟩, ?_⟩
  rw [hdq, hp1, hp2]

example : (initSt .io (asc " ,@x")).rd.rest.drop (wsLen (initSt .io (asc " ,@x")).rd.rest) =
    Quote.unquoteSplicing.shorthand ++ asc "x" := by decide
example : topCarSpans (nextDatum exCfg 9 (initSt .io (asc " ,@x"))) =
    [⟨⟨1, 1⟩, ⟨1, 3⟩⟩, ⟨⟨1, 3⟩, ⟨1, 4⟩⟩, ⟨⟨1, 4⟩, ⟨1, 4⟩⟩] := by decide +kernel

/-- a byte-slice parser and a stream parser (or two `&str` parsers) on the same bytes are twins -/
theorem twin_initSt (m1 m2 : Mode) (input : List UInt8) (faulty : Bool)
    (h : m1 = .str ↔ m2 = .str) : Twin (initSt m1 input faulty) (initSt m2 input faulty) :=
  ⟨rfl, rfl, rfl, rfl, rfl, h⟩

/-- **C11_sources_slice_io**: the byte-slice source and the stream source are interchangeable.
    From twin states (same unread input, position, `faulty`, depth; neither source a `&str`, or
    both) `next_datum` and the public entry points have the same outcome on both sides: the same
    datum — value and the whole span tree — and twin final states; or errors with the same code
    (only the line/column attached to an error may differ) and twin final states; or the same
    panic.  In particular one side returns a datum exactly when the other does, with identical
    spans.  (Between `&str` and the other two sources, which differ in UTF-8 validation,
    `C11_sources` gives the same conclusion whenever both sides succeed.) -/
theorem C11_sources_slice_io (cfg : Cfg) (s1 s2 : St) (h : Twin s1 s2) :
    (∀ fuel, ResSim Eq (nextDatum cfg fuel s1) (nextDatum cfg fuel s2)) ∧
    ResSim Eq (nextDatumTop cfg s1) (nextDatumTop cfg s2) ∧
    ResSim Eq (expectDatum cfg s1) (expectDatum cfg s2) ∧
    ResSim Eq (fromTraitDatum cfg s1) (fromTraitDatum cfg s2) ∧
    (∀ fuel d s1', nextDatum cfg fuel s1 = .ok d s1' →
      ∃ s2', nextDatum cfg fuel s2 = .ok d s2' ∧ Twin s1' s2') := by
  refine ⟨fun fuel => (datum_srels cfg fuel).1 s1 s2 h, nextDatumTop_srel s1 s2 h,
    expectDatum_srel s1 s2 h, fromTraitDatum_srel s1 s2 h, ?_⟩
  intro fuel d s1' h1
  have := (datum_srels cfg fuel).1 s1 s2 h
  rw [h1] at this
  cases h2 : nextDatum cfg fuel s2 <;> rw [h2] at this <;> simp only [ResSim] at this
  obtain ⟨rfl, ht⟩ := this
  exact ⟨_, rfl, ht⟩

example : Twin (initSt .slice (asc "(a . b)")) (initSt .io (asc "(a . b)")) :=
  twin_initSt _ _ _ _ (by decide)

end Spans
end Parse
end Lexpr
