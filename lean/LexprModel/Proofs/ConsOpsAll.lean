/-
  One module that builds everything about the hand-written `Clone` / `PartialEq` / `Drop` of `Cons` and
  `SpanInfo` and the mutators / accessors of cons.rs, with the headline statements under C15 / C16 names.

    lake build LexprModel.Proofs.ConsOpsAll
-/
import LexprModel.Proofs.ConsOps
import LexprModel.Proofs.ConsOpsMut
import LexprModel.Proofs.ConsOpsDepth
import LexprModel.Proofs.ConsOpsDatum
namespace Lexpr
namespace ConsOps
open Value Parse

/-- C15/C16 common ground: the loop-implemented clone returns the value itself — for every value. -/
theorem C15_clone_identical (v : Value) : cloneV v = .ok v := clone_eq v

/-- the loop-implemented `==` is the derived structural comparison — for every pair of values. -/
theorem C15_eq_structural (a b : Value) : eqV a b = Value.beq a b := eqLoop_iff a b

/-- `Value::append` as written (with `set_car` / `set_cdr` / `cdr_mut` / `as_cons_mut`) builds the
    reference list. -/
theorem C15_append_impl (xs : List Value) (t : Value) : appendImpl xs t = .ok (append xs t) :=
  appendImpl_eq xs t

/-- the same for a datum: value and span tree. -/
theorem C15_datum_clone_identical (d : Datum) : cloneDatum d = .ok d := cloneDatum_eq d

/-- C16, from the loops themselves: clone and `==` stay within `nesting + 1` levels, drop within
    `2 * nesting + 2`, whatever the number of elements. -/
theorem C16_cons_loops_depth (v w : Value) :
    (cloneVI v).2 ≤ Spec.nesting v + 1 ∧ (eqVI v w).2 ≤ Spec.nesting v + 1 ∧
      dropD v ≤ 2 * Spec.nesting v + 2 :=
  ⟨clone_depth_le v, (eq_depth_le v w).1, drop_depth_le v⟩

end ConsOps
end Lexpr
