/-
  C09 (text half, second part) — instances, witnesses and the names clause.

  * `fullSx`: `(a "x\ny" #\x1 1.5 -2e3 . #(#:k))`, in both builds (`C09_agree_full` is not vacuous);
  * `C09_float_window_needed`, `C09_float_window_needed_8_5em30`: in the default build the window
    hypothesis of `C09_agree_float_default` cannot be dropped — `sexp!(1e-23)` is the correctly
    rounded double `0x3B282DB34012B251` and `from_str("1e-23")` its upper neighbour (confirmed on
    the Rust code; a known finding); the same for `8.5e-30`; with a minus sign as well; in the build
    without fast-float-parsing the two agree;
  * `C09_float_digits_needed`: the hypothesis that the significant digits fit `u64` is needed in
    BOTH builds — `sexp!(18446744073709553665.0)` and `from_str` of the same text differ by one ulp
    (the scanner truncates the twentieth digit); confirmed on the Rust code, a new finding;
  * `C09_float_range_needed`: the finiteness hypothesis of `C09_agree_float_nofast` is needed for
    the model (`1e999`: the model's macro side is infinity, the parser rejects; rustc rejects the
    literal too, so this one is not a behaviour of the real macro);
  * names: `C09_symbol_image`, `C09_keyword_image` — every symbol / keyword in a value the parser
    returns, from ANY text and under ANY options, is well-formed UTF-8 without a symbol-terminator
    byte (space, tab, newline, CR, FF, parentheses, brackets, `;`); hence
    `C09_space_symbol_no_text`: the value of `sexp!(#"a b")`, the symbol `a b`, is not the value
    of any S-expression text; `C09_keyword_names_exact`: for keywords `kwOk` is exactly the set of
    names the default parser can return — the keyword clause of `TextOK` / `TextOK2` is complete;
  * `C09_symbol_names_necessary`, `symOk2_of_symOk`, `C09_dot_head_needed`: the symbol clause
    `symOk2` (`SymImg` and `dotHeadOk`) asks what is necessary (`SymImg`) plus the known dot-head
    restriction, which is needed inside lists (`(.|a b)`); the old clause `symOk` is a special case;
  * `qsym_source_text_witness`: `#"…"` / `#:"…"` take the SOURCE text of the string literal as the
    name (`sexp!(#"a\"b")` is the four-character symbol `a\"b`, confirmed on the Rust code).
-/
import LexprModel.Proofs.MacroText2
namespace Lexpr
namespace Macro
open Print
open Parse.ListRT
open Parse (PlainIdent symTermSlice)
open Decimals

/-! ## Float side conditions for the two example configurations -/

theorem fltOK_fast (L : DecLit) (hc : L.check = true) (hs : L.Small) (hS : L.sig < 2 ^ 53)
    (hlo : -22 ≤ L.exp10) (hhi : L.exp10 ≤ 22) : FltOK exCfgFast L :=
  ⟨L.wf_of_check hc, hs, Or.inl ⟨rfl, exTable, hS, hlo, hhi⟩⟩

theorem fltOK_slow (L : DecLit) (hc : L.check = true) (hs : L.Small) (hS : L.sig ≤ u64Max)
    (hfin : decRn L.sig L.exp10 < F64.infBits) : FltOK exCfgSlow L :=
  ⟨L.wf_of_check hc, hs, Or.inr ⟨rfl, hS, hfin⟩⟩

/-! ## The example of the task: `(a "x\ny" #\x1 1.5 -2e3 . #(#:k))` -/

/-- `1.5` -/
def lit1_5 : DecLit := ⟨asc "1", some (asc "5"), none⟩
/-- `2e3` -/
def lit2e3 : DecLit := ⟨asc "2", none, some ⟨101, [], asc "3"⟩⟩

/-- the Rust invocation `sexp!((a "x\ny" '\u{1}' 1.5 -2e3 . #(#:k)))`: the string literal has the
    six-byte source text `x\ny` and the three-byte value `x`, LF, `y` -/
def fullSx : Sx :=
  .dotted [.leaf (.sym (asc "a")), .leaf (.str (asc "x\\ny") [120, 10, 121]), .leaf (.chr 1),
      .flt false lit1_5, .flt true lit2e3]
    (.vec [.leaf (.kw (asc "k"))])

theorem fullSx_text : stext2 fullSx = asc "(a \"x\\ny\" #\\x1 1.5 -2e3 . #(#:k))" := by decide

theorem fullSx_wf : WF (erase fullSx) := by decide

theorem fullSx_ok_fast : TextOK2 exCfgFast fullSx := by
  simp only [TextOK2, fullSx, textOk2, textOkL2, textOkTail2, LeafOK]
  exact ⟨Or.inl (by decide), ⟨by decide, by decide,
    fltOK_fast _ (by decide) (by decide) (by decide) (by decide) (by decide),
    fltOK_fast _ (by decide) (by decide) (by decide) (by decide) (by decide), trivial⟩, by decide,
    trivial⟩

theorem fullSx_ok_slow : TextOK2 exCfgSlow fullSx := by
  simp only [TextOK2, fullSx, textOk2, textOkL2, textOkTail2, LeafOK]
  exact ⟨Or.inl (by decide), ⟨by decide, by decide,
    fltOK_slow _ (by decide) (by decide) (by decide) (by decide +kernel),
    fltOK_slow _ (by decide) (by decide) (by decide) (by decide +kernel), trivial⟩, by decide,
    trivial⟩

theorem fullSx_value (env : Tok → Value) : valueOf env (erase fullSx) =
    .cons (.symbol (asc "a")) (.cons (.string [120, 10, 121]) (.cons (.char 1)
      (.cons (.number (.flt 0x3FF8000000000000)) (.cons (.number (.flt 0xC09F400000000000))
        (.vector [.keyword (asc "k")]))))) := by
  have h1 : F64.rnDec lit1_5.sig lit1_5.exp10 = 0x3FF8000000000000 := by decide +kernel
  have h2 : F64.neg (F64.rnDec lit2e3.sig lit2e3.exp10) = 0xC09F400000000000 := by decide +kernel
  simp only [fullSx, erase, eraseL, valueOf, valueOfL, Value.append, if_true, Bool.false_eq_true,
    if_false, h1, h2]

/-- **Non-vacuity of `C09_agree_full`**, default build (regenerated `POW10` table): macro and
    parser both give the value `fullSx_value` for `(a "x\ny" #\x1 1.5 -2e3 . #(#:k))`. -/
example (env : Tok → Value) :
    expand env (toks (erase fullSx)) = some (valueOf env (erase fullSx)) ∧
      ∃ s', Parse.fromTrait exCfgFast (Parse.initSt .slice
          (asc "(a \"x\\ny\" #\\x1 1.5 -2e3 . #(#:k))")) = .ok (valueOf env (erase fullSx)) s' ∧
        s'.rd.rest = [] ∧ s'.depth = 128 :=
  fullSx_text ▸ C09_agree_full env exCfgFast rfl fullSx fullSx_wf fullSx_ok_fast (by decide)
    (by decide)

/-- … and in the build without fast-float-parsing -/
example (env : Tok → Value) :
    expand env (toks (erase fullSx)) = some (valueOf env (erase fullSx)) ∧
      ∃ s', Parse.fromTrait exCfgSlow (Parse.initSt .slice (stext2 fullSx)) =
          .ok (valueOf env (erase fullSx)) s' ∧ s'.rd.rest = [] ∧ s'.depth = 128 :=
  C09_agree_full_small env exCfgSlow rfl fullSx fullSx_wf fullSx_ok_slow (by decide) (by decide)

/-- a string with every kind of escape: `"`, `\`, BEL, TAB, DEL and a two-byte scalar -/
example (env : Tok → Value) (cfg : Parse.Cfg) (ho : cfg.opts = Parse.Options.default) :
    stext2 (.leaf (.str [] [34, 92, 7, 9, 127, 195, 169])) = asc "\"\\\"\\\\\\a\\t\\x7F;" ++ [195, 169, 34] ∧
    ∃ s', Parse.fromTrait cfg (Parse.initSt .slice (stext2 (.leaf (.str [] [34, 92, 7, 9, 127, 195, 169])))) =
        .ok (.string [34, 92, 7, 9, 127, 195, 169]) s' ∧ s'.rd.rest = [] ∧ s'.depth = 128 :=
  ⟨by decide, C09_text2 env cfg ho _ (by simp only [TextOK2, textOk2, LeafOK]; decide) (by decide)⟩

/-- floats at top level, positive and negative, in a list and in a vector -/
example (env : Tok → Value) :=
  C09_agree_float_default env exCfgFast rfl true lit1_5 (lit1_5.wf_of_check (by decide)) (by decide)
    rfl exTable (by decide) (by decide) (by decide)
example (env : Tok → Value) :=
  C09_agree_float_nofast env exCfgSlow rfl false lit2e3 (lit2e3.wf_of_check (by decide)) (by decide)
    rfl (by decide) (by decide +kernel)
example (env : Tok → Value) :
    ∃ s', Parse.fromTrait exCfgFast (Parse.initSt .slice (asc "(-1.5 #(2e3 1.5))")) =
        .ok (valueOf env (erase (.list [.flt true lit1_5, .vec [.flt false lit2e3, .flt false lit1_5]]))) s' ∧
      s'.rd.rest = [] ∧ s'.depth = 128 := by
  have : stext2 (.list [.flt true lit1_5, .vec [.flt false lit2e3, .flt false lit1_5]]) =
      asc "(-1.5 #(2e3 1.5))" := by decide
  rw [← this]
  refine C09_text2 env exCfgFast rfl _ ?_ (by decide)
  simp only [TextOK2, textOk2, textOkL2]
  exact ⟨fltOK_fast _ (by decide) (by decide) (by decide) (by decide) (by decide),
    ⟨fltOK_fast _ (by decide) (by decide) (by decide) (by decide) (by decide),
     fltOK_fast _ (by decide) (by decide) (by decide) (by decide) (by decide), trivial⟩, trivial⟩

/-! ## The window hypothesis is needed in the default build -/

/-- `1e-23` -/
def lit1em23 : DecLit := ⟨asc "1", none, some ⟨101, asc "-", asc "23"⟩⟩
/-- `8.5e-30` -/
def lit8_5em30 : DecLit := ⟨asc "8", some (asc "5"), some ⟨101, asc "-", asc "30"⟩⟩

theorem fast_85em31 : Parse.fastParts Numbers.pow10Tab ((-31 : Int).natAbs / 308 + 2) (F64.ofNat 85) (-31) =
    some 0x39E58CD0BEDA7ECA ∧ decRn 85 (-31) = 0x39E58CD0BEDA7EC9 := by decide +kernel

/-- what the default build makes of a literal outside the window, given the value of the fast
    path on the scanned pair -/
theorem fast_reads (neg : Bool) (L : DecLit) (g : Nat) (hc : L.check = true)
    (hs : L.Small) (hS : L.sig ≤ u64Max)
    (hfp : Parse.fastParts Numbers.pow10Tab (L.exp10.natAbs / 308 + 2) (F64.ofNat L.sig) L.exp10 = some g) :
    ∃ s', Parse.fromTrait exCfgFast (Parse.initSt .slice (fltText neg L)) =
      .ok (.number (.flt (if neg then F64.neg g else g))) s' := by
  have hparts : ∀ u, Parse.f64FromParts exCfgFast (!neg) L.sig L.exp10 u =
      .ok (if neg then F64.neg g else g) u := by
    intro u
    unfold Parse.f64FromParts
    simp only [exCfgFast]
    rw [hfp]
    cases neg <;> rfl
  have hr := (float_reads_parts exCfgFast rfl neg L _ (L.wf_of_check hc) hs hS hparts).1
  have hv := hr (Parse.initSt .slice (fltText neg L)) []
    (2 * (Parse.initSt .slice (fltText neg L)).rd.rest.length + 4) (Or.inl rfl) ⟨rfl, rfl⟩
    (by simp [Parse.initSt]) (by omega) (by simp [Parse.initSt])
  obtain ⟨s', e, _⟩ := fromTrait_of_nextValue exCfgFast _ _ hv
  exact ⟨s', e⟩

/-- **C09_float_window_needed.** In the default build (fast-float-parsing, the regenerated `POW10`
    table) the window hypothesis `|scanned exponent| ≤ 22` of `C09_agree_float_default` cannot be
    dropped: the literal `1e-23` (one digit, scanned exponent -23) is well formed, `sexp!(1e-23)`
    is the correctly rounded double `0x3B282DB34012B251` = 4262707295203537489, and the default
    parser reads the text `1e-23` as the next double up, …490; likewise with a minus sign.  The
    build without fast-float-parsing reads …489 (`C09_agree_float_nofast`).  Confirmed on the Rust
    code (known finding): macro and parser differ by one ulp, which C05 allows but C09 does not. -/
theorem C09_float_window_needed (env : Tok → Value) :
    lit1em23.WF ∧ lit1em23.Small ∧ lit1em23.sig = 1 ∧ lit1em23.exp10 = -23 ∧
    fltText false lit1em23 = asc "1e-23" ∧ fltText true lit1em23 = asc "-1e-23" ∧
    expand env (toks (erase (.flt false lit1em23))) = some (.number (.flt 4262707295203537489)) ∧
    (∃ s', Parse.fromTrait exCfgFast (Parse.initSt .slice (asc "1e-23")) =
      .ok (.number (.flt 4262707295203537490)) s') ∧
    expand env (toks (erase (.flt true lit1em23))) =
      some (.number (.flt (F64.neg 4262707295203537489))) ∧
    (∃ s', Parse.fromTrait exCfgFast (Parse.initSt .slice (asc "-1e-23")) =
      .ok (.number (.flt (F64.neg 4262707295203537490))) s') ∧
    (∃ s', Parse.fromTrait exCfgSlow (Parse.initSt .slice (asc "1e-23")) =
      .ok (.number (.flt 4262707295203537489)) s') := by
  have hwf : lit1em23.WF := lit1em23.wf_of_check (by decide)
  have hb : fltBits false lit1em23 = 4262707295203537489 := by decide +kernel
  have hbn : fltBits true lit1em23 = F64.neg 4262707295203537489 := by decide +kernel
  have ht : fltText false lit1em23 = asc "1e-23" := by decide
  have htn : fltText true lit1em23 = asc "-1e-23" := by decide
  have hfp := fast_1em23.1
  refine ⟨hwf, by decide, by decide, by decide, ht, htn, ?_, ?_, ?_, ?_, ?_⟩
  · rw [expand_flt, hb]
  · simpa [ht] using fast_reads false lit1em23 _ (by decide) (by decide) (by decide) hfp
  · rw [expand_flt, hbn]
  · simpa [htn] using fast_reads true lit1em23 _ (by decide) (by decide) (by decide) hfp
  · obtain ⟨_, ⟨s', h, _⟩, _⟩ := C09_agree_float_nofast env exCfgSlow rfl false lit1em23 hwf
      (by decide) rfl (by decide) (by decide +kernel)
    rw [ht, hb] at h
    exact ⟨s', h⟩

/-- **C09_float_window_needed**, second literal: `8.5e-30` (two digits, scanned exponent -31).
    `sexp!(8.5e-30)` is `0x39E58CD0BEDA7EC9`, the default parser reads `0x39E58CD0BEDA7ECA`
    (printed `8.500000000000001e-30`).  Confirmed on the Rust code. -/
theorem C09_float_window_needed_8_5em30 (env : Tok → Value) :
    lit8_5em30.WF ∧ lit8_5em30.Small ∧ lit8_5em30.sig = 85 ∧ lit8_5em30.exp10 = -31 ∧
    fltText false lit8_5em30 = asc "8.5e-30" ∧
    expand env (toks (erase (.flt false lit8_5em30))) = some (.number (.flt 0x39E58CD0BEDA7EC9)) ∧
    (∃ s', Parse.fromTrait exCfgFast (Parse.initSt .slice (asc "8.5e-30")) =
      .ok (.number (.flt 0x39E58CD0BEDA7ECA)) s') ∧
    (∃ s', Parse.fromTrait exCfgSlow (Parse.initSt .slice (asc "8.5e-30")) =
      .ok (.number (.flt 0x39E58CD0BEDA7EC9)) s') := by
  have hwf : lit8_5em30.WF := lit8_5em30.wf_of_check (by decide)
  have hb : fltBits false lit8_5em30 = 0x39E58CD0BEDA7EC9 := by decide +kernel
  have ht : fltText false lit8_5em30 = asc "8.5e-30" := by decide
  refine ⟨hwf, by decide, by decide, by decide, ht, ?_, ?_, ?_⟩
  · rw [expand_flt, hb]
  · simpa [ht] using
      fast_reads false lit8_5em30 _ (by decide) (by decide) (by decide) fast_85em31.1
  · obtain ⟨_, ⟨s', h, _⟩, _⟩ := C09_agree_float_nofast env exCfgSlow rfl false lit8_5em30 hwf
      (by decide) rfl (by decide) (by decide +kernel)
    rw [ht, hb] at h
    exact ⟨s', h⟩

/-- `18446744073709553665.0`: twenty significant digits, `2^64 + 2049` -/
def litLong : DecLit := ⟨asc "18446744073709553665", some (asc "0"), none⟩

/-- the float a parse returned -/
def fltVal : Parse.Res Value → Option Nat
  | .ok (.number (.flt b)) _ => some b
  | _ => none

/-- **C09_float_digits_needed.** The hypothesis "the significant digits fit `u64`" of
    `C09_agree_float_nofast` cannot be dropped, in either build: the literal
    `18446744073709553665.0` (= `2^64 + 2049`, twenty digits) lies just above the midpoint
    `2^64 + 2048` of two doubles, so `sexp!` (rustc) rounds it up to `2^64 + 4096`
    (bits 4895412794951729153); the parser's scanner drops the twentieth digit (`overflow!` of the
    `u64` significand), reads `1844674407370955366e1`, which is below the midpoint, and returns
    `2^64` (bits …152) — with and without fast-float-parsing.  Confirmed on the Rust code in both
    builds: macro and parser differ by one ulp (allowed by the accuracy clause of C05, not by C09).
    NEW finding. -/
theorem C09_float_digits_needed (env : Tok → Value) :
    litLong.WF ∧ litLong.Small ∧ litLong.sig = 2 ^ 64 + 2049 ∧ u64Max < litLong.sig ∧
    fltText false litLong = asc "18446744073709553665.0" ∧
    expand env (toks (erase (.flt false litLong))) = some (.number (.flt 4895412794951729153)) ∧
    F64.rn (2 ^ 64 + 2049) 1 = 4895412794951729153 ∧
    fltVal (Parse.fromTrait exCfgSlow (Parse.initSt .slice (asc "18446744073709553665.0"))) =
      some 4895412794951729152 ∧
    fltVal (Parse.fromTrait exCfgFast (Parse.initSt .slice (asc "18446744073709553665.0"))) =
      some 4895412794951729152 := by
  refine ⟨litLong.wf_of_check (by decide), by decide, by decide, by decide, by decide, ?_,
    by decide +kernel, by decide +kernel, by decide +kernel⟩
  rw [expand_flt]
  have : fltBits false litLong = 4895412794951729153 := by decide +kernel
  rw [this]

/-- `1e999` -/
def lit1e999 : DecLit := ⟨asc "1", none, some ⟨101, [], asc "999"⟩⟩

/-- **C09_float_range_needed.** The finiteness hypothesis of `C09_agree_float_nofast` is needed for
    the model: for `1e999` the model's macro side is `+∞` (`F64.rnDec`), while the parser (either
    build) rejects the text with `NumberOutOfRange`.  Not a behaviour of the real macro: rustc
    rejects the literal `1e999` (`overflowing_literals` is deny-by-default), so `sexp!(1e999)` does
    not compile. -/
theorem C09_float_range_needed (env : Tok → Value) :
    lit1e999.WF ∧ lit1e999.Small ∧ lit1e999.sig ≤ u64Max ∧
    expand env (toks (erase (.flt false lit1e999))) = some (.number (.flt F64.infBits)) ∧
    errCode (Parse.fromTrait exCfgSlow (Parse.initSt .slice (asc "1e999"))) =
      some .numberOutOfRange ∧
    errCode (Parse.fromTrait exCfgFast (Parse.initSt .slice (asc "1e999"))) =
      some .numberOutOfRange := by
  refine ⟨lit1e999.wf_of_check (by decide), by decide, by decide, ?_, by decide +kernel,
    by decide +kernel⟩
  rw [expand_flt]
  have : fltBits false lit1e999 = F64.infBits := by decide +kernel
  rw [this]

/-! ## Names -/

/-- **C09_symbol_image / C09_keyword_image.** Whatever the text and the parser options: every
    symbol and every keyword occurring (as an atom, at any depth) in a value the parser returns is
    well-formed UTF-8 and contains no symbol-terminator byte. -/
theorem C09_name_image (cfg : Parse.Cfg) (bytes : List UInt8) (v : Value) (s' : Parse.St)
    (h : Parse.fromTrait cfg (Parse.initSt .slice bytes) = .ok v s') :
    Parse.Image.AllAtoms (fun a => ∀ n, a = .symbol n ∨ a = .keyword n →
      Utf8.valid n = true ∧ ∀ b ∈ n, symTermSlice b = false) v := by
  obtain ⟨f, s1, hnv⟩ := Parse.Image.fromTrait_inv h
  have himg := Parse.Image.C13_image_shape cfg f _ s1 v (by simp [Parse.initSt]) hnv
  refine Parse.Image.AllAtoms.impAtom ?_ v himg
  intro a _ ha n hn
  rcases hn with rfl | rfl
  · exact ⟨ha.1, ha.2.1⟩
  · exact ⟨ha.1, ha.2.1⟩

theorem C09_symbol_image (cfg : Parse.Cfg) (bytes name : List UInt8) (s' : Parse.St)
    (h : Parse.fromTrait cfg (Parse.initSt .slice bytes) = .ok (.symbol name) s') :
    Utf8.valid name = true ∧ ∀ b ∈ name, symTermSlice b = false := by
  have := C09_name_image cfg bytes _ s' h
  simp only [Parse.Image.AllAtoms] at this
  exact this name (Or.inl rfl)

theorem C09_keyword_image (cfg : Parse.Cfg) (bytes name : List UInt8) (s' : Parse.St)
    (h : Parse.fromTrait cfg (Parse.initSt .slice bytes) = .ok (.keyword name) s') :
    Utf8.valid name = true ∧ ∀ b ∈ name, symTermSlice b = false := by
  have := C09_name_image cfg bytes _ s' h
  simp only [Parse.Image.AllAtoms] at this
  exact this name (Or.inr rfl)

/-- **C09_space_symbol_no_text.** `sexp!(#"a b")` is the symbol named `a b` (a well-formed tree,
    the macro accepts it), and NO S-expression text is read as that value, under any parser
    options: the name clause of `TextOK` / `TextOK2` cannot be dropped, and a name with a symbol
    terminator is outside every possible version of the theorem.  (The only candidate, the text
    `a b` the printer writes for it, is rejected with `TrailingCharacters` — on the Rust code
    too.) -/
theorem C09_space_symbol_no_text (env : Tok → Value) :
    WF (.qsym (asc "a b") (asc "a b")) ∧
    expand env (toks (.qsym (asc "a b") (asc "a b"))) = some (.symbol (asc "a b")) ∧
    (∀ (cfg : Parse.Cfg) (bytes : List UInt8) (s' : Parse.St),
      Parse.fromTrait cfg (Parse.initSt .slice bytes) ≠ .ok (.symbol (asc "a b")) s') ∧
    Print.text Print.Options.default (fun _ => []) (.symbol (asc "a b")) = asc "a b" ∧
    errCode (Parse.fromTrait cfg0 (Parse.initSt .slice (asc "a b"))) = some .trailingCharacters := by
  refine ⟨by decide, ?_, ?_, by decide, by decide +kernel⟩
  · rw [C09_expand env _ (by decide) (by decide)]; rfl
  · intro cfg bytes s' h
    have := (C09_symbol_image cfg bytes _ s' h).2 32 (by decide)
    exact absurd this (by decide)

/-- the same for a keyword: `sexp!(#:"a b")` -/
theorem C09_space_keyword_no_text (env : Tok → Value) :
    WF (.qkw (asc "a b") (asc "a b")) ∧
    expand env (toks (.qkw (asc "a b") (asc "a b"))) = some (.keyword (asc "a b")) ∧
    (∀ (cfg : Parse.Cfg) (bytes : List UInt8) (s' : Parse.St),
      Parse.fromTrait cfg (Parse.initSt .slice bytes) ≠ .ok (.keyword (asc "a b")) s') := by
  refine ⟨by decide, ?_, ?_⟩
  · rw [C09_expand env _ (by decide) (by decide)]; rfl
  · intro cfg bytes s' h
    have := (C09_keyword_image cfg bytes _ s' h).2 32 (by decide)
    exact absurd this (by decide)

/-- **C09_keyword_names_exact.** Under the default options the keyword names the theorems cover
    (`kwOk`: no terminator byte, not the lone `.`, well-formed UTF-8) are exactly the names of the
    keywords the parser can return (`KwImg`): the keyword clause is complete. -/
theorem C09_keyword_names_exact (cfg : Parse.Cfg) (ho : cfg.opts = Parse.Options.default)
    (name : List UInt8) : kwOk name = true ↔ Parse.Image.KwImg cfg name := by
  rw [kwOk_iff]
  unfold Parse.Image.KwImg Parse.Image.NonTerm
  rw [ho]
  constructor
  · rintro ⟨h1, h2, h3⟩
    exact ⟨h3, h1, Or.inl ⟨Or.inl rfl, h2⟩⟩
  · rintro ⟨h3, h1, h | h⟩
    · exact ⟨h1, h.2, h3⟩
    · exact absurd h.1 (by decide)

/-- **C09_symbol_names_necessary.** A symbol the parser returns (any text, any options) has a
    name in `SymImg`: the second alternative of `symOk2` asks, beyond `dotHeadOk`, only what is
    necessary. -/
theorem C09_symbol_names_necessary (cfg : Parse.Cfg) (bytes name : List UInt8) (s' : Parse.St)
    (h : Parse.fromTrait cfg (Parse.initSt .slice bytes) = .ok (.symbol name) s') :
    Parse.Image.SymImg cfg name := by
  obtain ⟨f, s1, hnv⟩ := Parse.Image.fromTrait_inv h
  have himg := Parse.Image.C13_image_shape cfg f _ s1 _ (by simp [Parse.initSt]) hnv
  simpa only [Parse.Image.AllAtoms, Parse.Image.AtomImg] using himg

/-- under the default options the symbol names of `TextOK` are in the image of the parser: the
    first alternative of `symOk2` is a special case of the second -/
theorem symOk2_of_symOk (cfg : Parse.Cfg) (ho : cfg.opts = Parse.Options.default)
    (n : List UInt8) (h : symOk n = true) :
    Parse.Image.SymImg cfg n ∧ dotHeadOk n = true := by
  rw [symOk_iff] at h
  obtain ⟨⟨hshape, hvalid⟩, hdot⟩ := h
  refine ⟨⟨hvalid, ?_, Or.inl ⟨?_, ?_⟩⟩, hdot⟩
  · cases n with
    | nil => simp [Parse.plainShape] at hshape
    | cons b tl =>
      simp only [Parse.plainShape, Bool.and_eq_true, List.all_eq_true, Bool.not_eq_true'] at hshape
      exact hshape.1
  · cases n with
    | nil => simp [Parse.plainShape] at hshape
    | cons b tl =>
      simp only [Parse.plainShape, Bool.and_eq_true, Bool.or_eq_true] at hshape
      obtain ⟨hall, hcase⟩ := hshape
      simp only [Parse.nameShape, ho, Parse.Options.default, Bool.and_eq_true, Bool.or_eq_true,
        hall, true_and, Bool.not_false, Bool.true_or, Bool.and_true]
      rcases hcase with ⟨hae, hne⟩ | hsign
      · rcases hae with ha | he
        · exact Or.inl (Or.inl (Or.inl (Or.inl ha)))
        · by_cases h58 : b = 58
          · subst h58; exact Or.inl (Or.inl (Or.inl (Or.inr (by decide))))
          · refine Or.inl (Or.inl (Or.inr ?_))
            simp [he, h58, hne]
      · exact Or.inl (Or.inr hsign)
  · rw [ho]
    exact Parse.nameTok_symbol _ _ (by simp [Parse.Options.default])
      (by simp [Parse.Options.default]) (by simp [Parse.Options.default])
      (by simp [Parse.Options.default])

/-- the name of the symbol a parse returned -/
def symName : Parse.Res Value → Option (List UInt8)
  | .ok (.symbol n) _ => some n
  | _ => none

/-- **C09_dot_head_needed.** The clause `dotHeadOk` of the symbol names cannot be dropped inside a
    list: `.|a` is a symbol the parser returns (from the text `.|a`), `sexp!((#".|a" b))` is the
    list of the symbols `.|a` and `b`, the printer writes `(.|a b)` for it, and the parser rejects
    that text (`.` followed by a delimiter is taken for the dotted-pair marker).  This is the
    known finding of C01 / C13 about such names; confirmed on the Rust code for the macro. -/
theorem C09_dot_head_needed (env : Tok → Value) :
    symName (Parse.fromTrait cfg0 (Parse.initSt .slice (asc ".|a"))) = some (asc ".|a") ∧
    dotHeadOk (asc ".|a") = false ∧
    WF (.list [.qsym (asc ".|a") (asc ".|a"), .sym (asc "b")]) ∧
    expand env (toks (.list [.qsym (asc ".|a") (asc ".|a"), .sym (asc "b")])) =
      some (Value.list [.symbol (asc ".|a"), .symbol (asc "b")]) ∧
    Print.text Print.Options.default (fun _ => [])
      (Value.list [.symbol (asc ".|a"), .symbol (asc "b")]) = asc "(.|a b)" ∧
    errCode (Parse.fromTrait cfg0 (Parse.initSt .slice (asc "(.|a b)"))) =
      some .expectedSomeValue := by
  refine ⟨by decide +kernel, by decide, by decide, ?_, by decide, by decide +kernel⟩
  rw [C09_expand env _ (by decide) (by decide)]; rfl

/-- a parser configuration whose `char::is_alphabetic` knows the letter lambda (U+03BB) -/
def lamCfg : Parse.Cfg := { exCfgFast with isAlphabetic := fun c => c == 955 }

/-- `(λx 1.5)`: a symbol that starts with a non-ASCII letter, outside `TextOK`, inside `TextOK2` -/
example (env : Tok → Value) :
    symOk [206, 187, 120] = false ∧
    ∃ s', Parse.fromTrait lamCfg (Parse.initSt .slice ([40, 206, 187, 120] ++ asc " 1.5)")) =
        .ok (Value.list [.symbol [206, 187, 120], .number (.flt 0x3FF8000000000000)]) s' ∧
      s'.rd.rest = [] ∧ s'.depth = 128 := by
  refine ⟨by decide, ?_⟩
  have hok : TextOK2 lamCfg (.list [.leaf (.sym [206, 187, 120]), .flt false lit1_5]) := by
    simp only [TextOK2, textOk2, textOkL2, LeafOK]
    refine ⟨Or.inr ⟨⟨by decide, by decide, Or.inl ⟨by decide, ?_⟩⟩, by decide⟩,
      ⟨lit1_5.wf_of_check (by decide), by decide,
        Or.inl ⟨rfl, exTable, by decide, by decide, by decide⟩⟩, trivial⟩
    exact Parse.nameTok_symbol _ _ (by simp [lamCfg, exCfgFast, Parse.Options.default])
      (by simp [lamCfg, exCfgFast, Parse.Options.default])
      (by simp [lamCfg, exCfgFast, Parse.Options.default])
      (by simp [lamCfg, exCfgFast, Parse.Options.default])
  have ht : stext2 (.list [.leaf (.sym [206, 187, 120]), .flt false lit1_5]) =
      [40, 206, 187, 120] ++ asc " 1.5)" := by decide
  have h1 : F64.rnDec lit1_5.sig lit1_5.exp10 = 0x3FF8000000000000 := by decide +kernel
  have := C09_text2 env lamCfg rfl _ hok (by decide)
  rw [ht] at this
  simpa [erase, eraseL, valueOf, valueOfL, h1] using this

/-- `#"…"` and `#:"…"` take the source text of the string literal, not its value, as the name:
    the Rust invocation `sexp!(#"a\"b")` (source text `a\"b`, value `a"b`) is the symbol with the
    four-byte name `a\"b`.  (`string_literal` in parser.rs strips the quotes of
    `Literal::to_string()`; confirmed on the Rust code.)  The theorems therefore speak of the
    source text `src` for these two spellings. -/
theorem qsym_source_text_witness (env : Tok → Value) :
    expand env (toks (.qsym (asc "a\\\"b") (asc "a\"b"))) = some (.symbol [97, 92, 34, 98]) ∧
    expand env (toks (.qkw (asc "a\\nb") [97, 10, 98])) = some (.keyword [97, 92, 110, 98]) := by
  constructor
  · rw [C09_expand env _ (by decide) (by decide)]; rfl
  · rw [C09_expand env _ (by decide) (by decide)]; rfl

#print axioms str_reads
#print axioms float_reads
#print axioms reads2
#print axioms C09_text2
#print axioms C09_agree_full
#print axioms C09_agree_full_small
#print axioms C09_agree_float_default
#print axioms C09_agree_float_nofast
#print axioms fullSx_ok_fast
#print axioms fullSx_ok_slow
#print axioms fullSx_value
#print axioms C09_float_window_needed
#print axioms C09_float_window_needed_8_5em30
#print axioms C09_float_digits_needed
#print axioms C09_float_range_needed
#print axioms C09_name_image
#print axioms C09_space_symbol_no_text
#print axioms C09_space_keyword_no_text
#print axioms C09_keyword_names_exact
#print axioms C09_symbol_names_necessary
#print axioms symOk2_of_symOk
#print axioms C09_dot_head_needed
#print axioms qsym_source_text_witness

end Macro
end Lexpr
