/-
  Utf8InputTokNum — C17, input clause: the number scanners consume ASCII bytes only.

  Every `discard` of the number scanners follows a `peek` that found a digit, a sign, `.` or an
  exponent letter; `HeadA s` ("the next byte, if any, is ASCII") carries that fact from the caller
  that peeked to the callee that discards (`parse_decimal`, `parse_exponent`).  Main results:
  `parseNumToken_asuf`, `parseRadixToken_asuf`, `parseNumber_asuf`, `expectNumberEnd_asuf`.
-/
import LexprModel.Proofs.Utf8InputTokBase
namespace Lexpr
namespace Parse
namespace InTok
open Utf8 Utf8.U8 Parse.U8 InLoop

/-- the next byte, if there is one, is ASCII -/
def HeadA (s : St) : Prop := ∀ b, s.rd.rest.head? = some b → b < 0x80

theorem peekOrNull_same {s s1 : St} {c : UInt8} (hp : peekOrNull s = .ok c s1) : ASuf s s1 := by
  obtain ⟨hm, hr, _⟩ := peekOrNull_ok hp
  exact ASuf.same hm hr

theorem headA_of_peek {s s1 : St} {c : UInt8} (hp : peekOrNull s = .ok c s1) (hc : c < 0x80) :
    HeadA s1 := by
  obtain ⟨_, hr, hcd⟩ := peekOrNull_ok hp
  intro b hb
  rw [hr] at hb
  rw [hb] at hcd
  simp only [Option.getD_some] at hcd
  rw [← hcd]; exact hc

theorem discard_asuf {s s' : St} {u : Unit} (hd : discard s = .ok u s') (hh : HeadA s) :
    ASuf s s' := by
  obtain ⟨hm, b, hr⟩ := discard_ok hd
  exact ASuf.one hm hr (hh b (by rw [hr]; rfl))

theorem peekOrNull_discard {s s1 s2 : St} {c : UInt8} {u : Unit} (hp : peekOrNull s = .ok c s1)
    (hd : discard s1 = .ok u s2) (hc : c < 0x80) : ASuf s s2 :=
  (peekOrNull_same hp).trans (discard_asuf hd (headA_of_peek hp hc))

theorem isDigit_ascii {c : UInt8} (h : isDigit c = true) : c < 0x80 := by
  simp only [isDigit, Bool.and_eq_true, decide_eq_true_eq, UInt8.le_iff_toNat_le] at h
  rw [UInt8.lt_iff_toNat_lt]
  have := h.2
  simp at this ⊢
  omega

theorem digit_ranges_nonascii : ∀ n < 256, 128 ≤ n →
    (decide (48 ≤ UInt8.ofNat n) && decide (UInt8.ofNat n ≤ 57)) = false ∧
    (decide (97 ≤ UInt8.ofNat n) && decide (UInt8.ofNat n ≤ 102)) = false ∧
    (decide (65 ≤ UInt8.ofNat n) && decide (UInt8.ofNat n ≤ 70)) = false := by
  decide +kernel

theorem digitVal_ascii {radix : Nat} {c : UInt8} {d : Nat} (h : digitVal radix c = some d) :
    c < 0x80 := by
  by_cases hb : c < 0x80
  · exact hb
  · have := digit_ranges_nonascii c.toNat (UInt8.toNat_lt c)
      (by rw [UInt8.lt_iff_toNat_lt] at hb; simpa using hb)
    rw [UInt8.ofNat_toNat] at this
    obtain ⟨h1, h2, h3⟩ := this
    simp [digitVal, h1, h2, h3] at h

theorem eq_ascii {c k : UInt8} (h : (c == k) = true) (hk : k < 0x80) : c < 0x80 := by
  rw [eq_of_beq h]; exact hk

theorem exp_letter_ascii {c : UInt8} (h : (c == 101 || c == 69) = true) : c < 0x80 := by
  simp only [Bool.or_eq_true] at h
  rcases h with h | h
  · exact eq_ascii h (by decide)
  · exact eq_ascii h (by decide)

/-! ### the scanners -/

theorem take_takeWhile_length (p : UInt8 → Bool) : ∀ l : List UInt8,
    l.take (l.takeWhile p).length = l.takeWhile p
  | [] => rfl
  | x :: xs => by
    simp only [List.takeWhile]
    cases p x with
    | true => simp [take_takeWhile_length p xs]
    | false => simp

theorem takeWhile_all (p : UInt8 → Bool) : ∀ l : List UInt8, ∀ b ∈ l.takeWhile p, p b = true
  | [], b, h => by simp at h
  | x :: xs, b, h => by
    simp only [List.takeWhile] at h
    cases hx : p x with
    | true =>
      rw [hx] at h
      simp only [List.mem_cons] at h
      rcases h with rfl | h
      · exact hx
      · exact takeWhile_all p xs b h
    | false => rw [hx] at h; simp at h

theorem skipDigits_asuf {s s' : St} {u : Unit} (h : skipDigits s = .ok u s') : ASuf s s' := by
  unfold skipDigits at h
  obtain ⟨rest, s1, h1, h⟩ := bind_ok h
  obtain ⟨rfl, rfl⟩ := getRest_ok h1
  try simp only [] at h
  obtain ⟨_, s2, h2, h⟩ := bind_ok h
  obtain ⟨hm2, hr2⟩ := consumeN_ok h2
  obtain ⟨a, s3, h3, h⟩ := bind_ok h
  obtain ⟨hm3, hr3, _⟩ := peek_ok h3
  obtain ⟨_, rfl⟩ := pure_ok h
  refine ⟨hm3.trans hm2, s1.rd.rest.takeWhile isDigit, ?_, ?_⟩
  · intro b hb
    exact isDigit_ascii (takeWhile_all isDigit _ b hb)
  · have := List.take_append_drop (s1.rd.rest.takeWhile isDigit).length s1.rd.rest
    rw [take_takeWhile_length] at this
    rw [hr3, hr2]; exact this.symm

theorem f64FromParts_ok {cfg : Cfg} {pos : Bool} {sig : Nat} {e : Int} {s s' : St} {r : Nat}
    (h : f64FromParts cfg pos sig e s = .ok r s') : s' = s := by
  unfold f64FromParts at h
  rcases ite_ok h with ⟨_, h⟩ | ⟨_, h⟩
  · generalize fastParts _ _ _ _ = fp at h
    cases fp with
    | some g => exact (pure_ok h).2.symm
    | none => simp [errAt] at h
  · try simp only [] at h
    rcases ite_ok h with ⟨_, h⟩ | ⟨_, h⟩
    · simp [errAt] at h
    · exact (pure_ok h).2.symm

theorem parseExponentOverflow_asuf {pos : Bool} {sig : Nat} {posExp : Bool} {s s' : St} {r : Nat}
    (h : parseExponentOverflow pos sig posExp s = .ok r s') : ASuf s s' := by
  unfold parseExponentOverflow at h
  rcases ite_ok h with ⟨_, h⟩ | ⟨_, h⟩
  · simp [errAt] at h
  · obtain ⟨_, s1, h1, h⟩ := bind_ok h
    obtain ⟨_, rfl⟩ := pure_ok h
    exact skipDigits_asuf h1

theorem exponentLoop_asuf {cfg : Cfg} {pos : Bool} {sig : Nat} {se : Int} {pe : Bool} (f : Nat) :
    ∀ {exp : Nat} {s s' : St} {r : Nat},
      exponentLoop cfg pos sig se pe f exp s = .ok r s' → ASuf s s' := by
  induction f with
  | zero => intro exp s s' r h; simp [exponentLoop, outOfFuel] at h
  | succ f ih =>
    intro exp s s' r h
    simp only [exponentLoop] at h
    obtain ⟨c, s1, hp, h⟩ := bind_ok h
    rcases ite_ok h with ⟨hd, h⟩ | ⟨_, h⟩
    · obtain ⟨_, s2, hdis, h⟩ := bind_ok h
      have h2 := peekOrNull_discard hp hdis (isDigit_ascii hd)
      try simp only [] at h
      rcases ite_ok h with ⟨_, h⟩ | ⟨_, h⟩
      · exact h2.trans (parseExponentOverflow_asuf h)
      · exact h2.trans (ih h)
    · try simp only [] at h
      rw [f64FromParts_ok h]
      exact peekOrNull_same hp

theorem parseExponent_asuf {cfg : Cfg} {f : Nat} {pos : Bool} {sig : Nat} {se : Int} {s s' : St}
    {r : Nat} (h : parseExponent cfg f pos sig se s = .ok r s') (hh : HeadA s) : ASuf s s' := by
  unfold parseExponent at h
  obtain ⟨_, s1, hd, h⟩ := bind_ok h
  have h1 := discard_asuf hd hh
  obtain ⟨c, s2, hp, h⟩ := bind_ok h
  obtain ⟨pe, s3, hsgn, h⟩ := bind_ok h
  have h3 : ASuf s2 s3 := by
    rcases ite_ok hsgn with ⟨hc, hsgn⟩ | ⟨_, hsgn⟩
    · obtain ⟨_, s4, hd4, hsgn⟩ := bind_ok hsgn
      obtain ⟨_, rfl⟩ := pure_ok hsgn
      exact discard_asuf hd4 (headA_of_peek hp (eq_ascii hc (by decide)))
    rcases ite_ok hsgn with ⟨hc, hsgn⟩ | ⟨_, hsgn⟩
    · obtain ⟨_, s4, hd4, hsgn⟩ := bind_ok hsgn
      obtain ⟨_, rfl⟩ := pure_ok hsgn
      exact discard_asuf hd4 (headA_of_peek hp (eq_ascii hc (by decide)))
    · obtain ⟨_, rfl⟩ := pure_ok hsgn
      exact ASuf.refl _
  have h03 := (h1.trans (peekOrNull_same hp)).trans h3
  obtain ⟨a, s4, hn, h⟩ := bind_ok h
  obtain ⟨hm4, hr4⟩ := next_ok hn
  cases a with
  | none => simp [errAt] at h
  | some d =>
    rcases hr4 with ⟨h0, _⟩ | ⟨b', hb', hr4⟩
    · cases h0
    cases hb'
    rcases ite_ok h with ⟨hd', h⟩ | ⟨_, h⟩
    · exact (h03.trans (ASuf.one hm4 hr4 (isDigit_ascii hd'))).trans (exponentLoop_asuf _ h)
    · simp [errAt] at h

theorem decimalLoop_asuf (f : Nat) : ∀ {sig : Nat} {exp : Int} {zeros : Nat} {any : Bool}
    {s s' : St} {r : Nat × Int × Bool}, decimalLoop f sig exp zeros any s = .ok r s' → ASuf s s' := by
  induction f with
  | zero => intro sig exp zeros any s s' r h; simp [decimalLoop, outOfFuel] at h
  | succ f ih =>
    intro sig exp zeros any s s' r h
    simp only [decimalLoop] at h
    obtain ⟨c, s1, hp, h⟩ := bind_ok h
    rcases ite_ok h with ⟨hd, h⟩ | ⟨_, h⟩
    · obtain ⟨_, s2, hdis, h⟩ := bind_ok h
      have h2 := peekOrNull_discard hp hdis (isDigit_ascii hd)
      rcases ite_ok h with ⟨_, h⟩ | ⟨_, h⟩
      · exact h2.trans (ih h)
      · generalize shiftIn sig exp zeros (c.toNat - 48) = sh at h
        obtain ⟨a, b, fl⟩ := sh
        cases fl with
        | true =>
          try simp only [] at h
          obtain ⟨_, s3, h3, h⟩ := bind_ok h
          obtain ⟨_, rfl⟩ := pure_ok h
          exact h2.trans (skipDigits_asuf h3)
        | false =>
          try simp only [] at h
          exact h2.trans (ih h)
    · obtain ⟨_, rfl⟩ := pure_ok h
      exact peekOrNull_same hp

theorem parseDecimal_asuf {cfg : Cfg} {f : Nat} {pos : Bool} {sig : Nat} {e : Int} {s s' : St}
    {r : Nat} (h : parseDecimal cfg f pos sig e s = .ok r s') (hh : HeadA s) : ASuf s s' := by
  unfold parseDecimal at h
  obtain ⟨_, s1, hd, h⟩ := bind_ok h
  have h1 := discard_asuf hd hh
  obtain ⟨⟨sig', exp', any⟩, s2, hl, h⟩ := bind_ok h
  have h2 := h1.trans (decimalLoop_asuf _ hl)
  try simp only [] at h
  rcases ite_ok h with ⟨_, h⟩ | ⟨_, h⟩
  · obtain ⟨a, s3, _, h⟩ := bind_ok h
    cases a <;> simp [peekErr] at h
  · obtain ⟨c, s3, hp, h⟩ := bind_ok h
    have h3 := h2.trans (peekOrNull_same hp)
    rcases ite_ok h with ⟨hc, h⟩ | ⟨_, h⟩
    · exact h3.trans (parseExponent_asuf h (headA_of_peek hp (exp_letter_ascii hc)))
    · rw [f64FromParts_ok h]; exact h3

theorem parseLongInteger_asuf {cfg : Cfg} {radix : Nat} {pos : Bool} {sig : Nat} (f : Nat) :
    ∀ {exp : Nat} {s s' : St} {r : Nat},
      parseLongInteger cfg radix pos sig f exp s = .ok r s' → ASuf s s' := by
  induction f with
  | zero => intro exp s s' r h; simp [parseLongInteger, outOfFuel] at h
  | succ f ih =>
    intro exp s s' r h
    simp only [parseLongInteger] at h
    obtain ⟨c, s1, hp, h⟩ := bind_ok h
    have h1 := peekOrNull_same hp
    cases hv : digitVal radix c with
    | some d =>
      rw [hv] at h
      try simp only [] at h
      rcases ite_ok h with ⟨_, h⟩ | ⟨_, h⟩
      · simp [peekErr] at h
      · obtain ⟨_, s2, hdis, h⟩ := bind_ok h
        have h2 := peekOrNull_discard hp hdis (digitVal_ascii hv)
        rcases ite_ok h with ⟨_, h⟩ | ⟨_, h⟩
        · simp [panicAt] at h
        · exact h2.trans (ih h)
    | none =>
      rw [hv] at h
      try simp only [] at h
      rcases ite_ok h with ⟨hc, h⟩ | ⟨_, h⟩
      · rcases ite_ok h with ⟨_, h⟩ | ⟨_, h⟩
        · simp [peekErr] at h
        · exact h1.trans (parseDecimal_asuf h (headA_of_peek hp (eq_ascii hc (by decide))))
      rcases ite_ok h with ⟨hc, h⟩ | ⟨_, h⟩
      · rcases ite_ok h with ⟨_, h⟩ | ⟨_, h⟩
        · simp [peekErr] at h
        · exact h1.trans (parseExponent_asuf h (headA_of_peek hp (exp_letter_ascii hc)))
      rcases ite_ok h with ⟨_, h⟩ | ⟨_, h⟩
      · try simp only [] at h
        rcases ite_ok h with ⟨_, h⟩ | ⟨_, h⟩
        · simp [errAt] at h
        · rw [← (pure_ok h).2]; exact h1
      · rw [f64FromParts_ok h]; exact h1

theorem parseNumTail_asuf {cfg : Cfg} {f radix : Nat} {pos : Bool} {sig : Nat} {s s' : St}
    {r : Number} (h : parseNumTail cfg f radix pos sig s = .ok r s') : ASuf s s' := by
  unfold parseNumTail at h
  obtain ⟨c, s1, hp, h⟩ := bind_ok h
  have h1 := peekOrNull_same hp
  rcases ite_ok h with ⟨hc, h⟩ | ⟨_, h⟩
  · rcases ite_ok h with ⟨_, h⟩ | ⟨_, h⟩
    · simp [peekErr] at h
    · obtain ⟨g, s2, hd, h⟩ := bind_ok h
      obtain ⟨_, rfl⟩ := pure_ok h
      exact h1.trans (parseDecimal_asuf hd (headA_of_peek hp (eq_ascii hc (by decide))))
  rcases ite_ok h with ⟨hc, h⟩ | ⟨_, h⟩
  · rcases ite_ok h with ⟨_, h⟩ | ⟨_, h⟩
    · simp [peekErr] at h
    · obtain ⟨g, s2, hd, h⟩ := bind_ok h
      obtain ⟨_, rfl⟩ := pure_ok h
      exact h1.trans (parseExponent_asuf hd (headA_of_peek hp (exp_letter_ascii hc)))
  rcases ite_ok h with ⟨_, h⟩ | ⟨_, h⟩
  · rw [← (pure_ok h).2]; exact h1
  · try simp only [] at h
    rcases ite_ok h with ⟨_, h⟩ | ⟨_, h⟩
    · rw [← (pure_ok h).2]; exact h1
    · rw [← (pure_ok h).2]; exact h1

theorem numLoop_asuf {cfg : Cfg} {radix : Nat} {pos : Bool} (f : Nat) :
    ∀ {res : Nat} {s s' : St} {r : Number}, numLoop cfg radix pos f res s = .ok r s' → ASuf s s' := by
  induction f with
  | zero => intro res s s' r h; simp [numLoop, outOfFuel] at h
  | succ f ih =>
    intro res s s' r h
    simp only [numLoop] at h
    obtain ⟨c, s1, hp, h⟩ := bind_ok h
    have h1 := peekOrNull_same hp
    cases hv : digitVal radix c with
    | none =>
      rw [hv] at h
      exact h1.trans (parseNumTail_asuf h)
    | some d =>
      rw [hv] at h
      try simp only [] at h
      rcases ite_ok h with ⟨_, h⟩ | ⟨_, h⟩
      · simp [peekErr] at h
      · obtain ⟨_, s2, hdis, h⟩ := bind_ok h
        have h2 := peekOrNull_discard hp hdis (digitVal_ascii hv)
        rcases ite_ok h with ⟨_, h⟩ | ⟨_, h⟩
        · obtain ⟨g, s3, hl, h⟩ := bind_ok h
          obtain ⟨_, rfl⟩ := pure_ok h
          exact h2.trans (parseLongInteger_asuf _ hl)
        · exact h2.trans (ih h)

theorem parseNumLiteral_asuf {cfg : Cfg} {f radix : Nat} {pos : Bool} {s s' : St} {r : Number}
    (h : parseNumLiteral cfg f radix pos s = .ok r s') : ASuf s s' := by
  unfold parseNumLiteral at h
  obtain ⟨a, s1, hn, h⟩ := bind_ok h
  obtain ⟨hm1, hr1⟩ := next_ok hn
  cases a with
  | none => simp [peekErr] at h
  | some c =>
    rcases hr1 with ⟨h0, _⟩ | ⟨b', hb', hr1⟩
    · cases h0
    cases hb'
    try simp only [] at h
    cases hv : digitVal radix c with
    | none => rw [hv] at h; simp [peekErr] at h
    | some d =>
      rw [hv] at h
      try simp only [] at h
      rcases ite_ok h with ⟨_, h⟩ | ⟨_, h⟩
      · simp [peekErr] at h
      · exact (ASuf.one hm1 hr1 (digitVal_ascii hv)).trans (numLoop_asuf _ h)

theorem parseRadixLiteral_asuf {cfg : Cfg} {f radix : Nat} {s s' : St} {r : Number}
    (h : parseRadixLiteral cfg f radix s = .ok r s') : ASuf s s' := by
  unfold parseRadixLiteral at h
  obtain ⟨c, s1, hp, h⟩ := bind_ok h
  rcases ite_ok h with ⟨hc, h⟩ | ⟨_, h⟩
  · obtain ⟨_, s2, hd, h⟩ := bind_ok h
    exact (peekOrNull_discard hp hd (eq_ascii hc (by decide))).trans (parseNumLiteral_asuf h)
  rcases ite_ok h with ⟨hc, h⟩ | ⟨_, h⟩
  · obtain ⟨_, s2, hd, h⟩ := bind_ok h
    exact (peekOrNull_discard hp hd (eq_ascii hc (by decide))).trans (parseNumLiteral_asuf h)
  · exact (peekOrNull_same hp).trans (parseNumLiteral_asuf h)

theorem expectNumberEnd_asuf {n m : Number} {s s' : St} (h : expectNumberEnd n s = .ok m s') :
    ASuf s s' := by
  unfold expectNumberEnd at h
  obtain ⟨a, s1, hp, h⟩ := bind_ok h
  cases a with
  | none => rw [← (pure_ok h).2]; exact peek_same hp
  | some c =>
    try simp only [] at h
    rcases ite_ok h with ⟨_, h⟩ | ⟨_, h⟩
    · simp [peekErr] at h
    · rw [← (pure_ok h).2]; exact peek_same hp

/-- a decimal number token is ASCII text -/
theorem parseNumToken_asuf {cfg : Cfg} {f : Nat} {pos : Bool} {s s' : St} {r : Number}
    (h : parseNumToken cfg f pos s = .ok r s') : ASuf s s' := by
  unfold parseNumToken at h
  obtain ⟨n, s1, h1, h⟩ := bind_ok h
  exact (parseNumLiteral_asuf h1).trans (expectNumberEnd_asuf h)

/-- the digits of a `#b` / `#o` / `#d` / `#x` token are ASCII text -/
theorem parseRadixToken_asuf {cfg : Cfg} {f radix : Nat} {s s' : St} {r : Number}
    (h : parseRadixToken cfg f radix s = .ok r s') : ASuf s s' := by
  unfold parseRadixToken at h
  obtain ⟨n, s1, h1, h⟩ := bind_ok h
  exact (parseRadixLiteral_asuf h1).trans (expectNumberEnd_asuf h)

/-- a byte-vector element is ASCII text -/
theorem parseNumber_asuf {cfg : Cfg} {f : Nat} {s s' : St} {r : Number}
    (h : parseNumber cfg f s = .ok r s') : ASuf s s' := by
  unfold parseNumber at h
  obtain ⟨c, s1, hp, h⟩ := bind_ok h
  rcases ite_ok h with ⟨hc, h⟩ | ⟨_, h⟩
  · obtain ⟨_, s2, hd, h⟩ := bind_ok h
    have h2 := peekOrNull_discard hp hd (eq_ascii hc (by decide))
    obtain ⟨a, s3, hn, h⟩ := bind_ok h
    obtain ⟨hm3, hr3⟩ := next_ok hn
    cases a with
    | none => simp [peekErr] at h
    | some x =>
      rcases hr3 with ⟨h0, _⟩ | ⟨b', hb', hr3⟩
      · cases h0
      cases hb'
      try simp only [] at h
      rcases ite_ok h with ⟨hx, h⟩ | ⟨_, h⟩
      · exact (h2.trans (ASuf.one hm3 hr3 (eq_ascii hx (by decide)))).trans (parseRadixLiteral_asuf h)
      rcases ite_ok h with ⟨hx, h⟩ | ⟨_, h⟩
      · exact (h2.trans (ASuf.one hm3 hr3 (eq_ascii hx (by decide)))).trans (parseRadixLiteral_asuf h)
      rcases ite_ok h with ⟨hx, h⟩ | ⟨_, h⟩
      · exact (h2.trans (ASuf.one hm3 hr3 (eq_ascii hx (by decide)))).trans (parseRadixLiteral_asuf h)
      rcases ite_ok h with ⟨hx, h⟩ | ⟨_, h⟩
      · exact (h2.trans (ASuf.one hm3 hr3 (eq_ascii hx (by decide)))).trans (parseRadixLiteral_asuf h)
      · simp [peekErr] at h
  · exact (peekOrNull_same hp).trans (parseRadixLiteral_asuf h)

end InTok
end Parse
end Lexpr
