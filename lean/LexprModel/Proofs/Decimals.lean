/-
  Decimal literals with a fraction and / or an exponent (property C05, second part), and the
  float leaves of the C01 round trip.

  `Numbers.lean` has the arithmetic core (`rn` theory, the fast path of `f64_from_parts`) and the
  integer literals.  This file adds the scanners `parse_decimal` / `parse_exponent` and their
  loops, ties them to `f64_from_parts`, and reads back the text `ryu` prints for a double.
-/
import LexprModel.Proofs.Numbers
import LexprModel.Proofs.AtomRT
import LexprModel.Proofs.ListRTGlue
namespace Lexpr
namespace Decimals
open Parse F64 Numbers

/-- closes `F (adv s n p) = F (adv s n' p)` up to arithmetic on `n` -/
macro "adv_arith" : tactic =>
  `(tactic| first
    | rfl
    | (simp only [Nat.add_comm, Nat.add_left_comm, Nat.add_assoc]; done)
    | (congr 1 <;> first | rfl | omega)
    | (congr 2 <;> first | rfl | omega)
    | (congr 3 <;> first | rfl | omega))

/-! ## 1. Digit strings -/

/-- Horner value of a string of ASCII digits, starting from `acc`. -/
def dv (acc : Nat) (ds : List UInt8) : Nat := ds.foldl (fun a c => a * 10 + (c.toNat - 48)) acc

theorem decVal_eq_dv (ds : List UInt8) : decVal ds = dv 0 ds := rfl

@[simp] theorem dv_nil (acc : Nat) : dv acc [] = acc := by unfold dv; rw [List.foldl_nil]
@[simp] theorem dv_cons (acc : Nat) (c : UInt8) (ds : List UInt8) :
    dv acc (c :: ds) = dv (acc * 10 + (c.toNat - 48)) ds := by
  unfold dv; rw [List.foldl_cons]

theorem dv_append (acc : Nat) (a b : List UInt8) : dv acc (a ++ b) = dv (dv acc a) b := by
  simp [dv, List.foldl_append]

theorem dv_acc (ds : List UInt8) : ∀ acc, dv acc ds = acc * 10 ^ ds.length + dv 0 ds := by
  induction ds with
  | nil => intro acc; simp
  | cons c ds ih =>
    intro acc
    rw [dv_cons, dv_cons, ih (acc * 10 + (c.toNat - 48)), ih (0 * 10 + (c.toNat - 48))]
    simp only [List.length_cons, Nat.pow_succ]
    generalize 10 ^ ds.length = p
    generalize c.toNat - 48 = d
    grind

theorem dv_ge (ds : List UInt8) (acc : Nat) : acc ≤ dv acc ds := by
  rw [dv_acc]
  have : acc * 1 ≤ acc * 10 ^ ds.length := Nat.mul_le_mul_left _ (Nat.pow_pos (by decide))
  omega

/-- every byte is an ASCII digit -/
def AllDigits (ds : List UInt8) : Prop := ∀ c ∈ ds, isDigit c = true

instance (ds : List UInt8) : Decidable (AllDigits ds) := by unfold AllDigits; exact inferInstance

theorem AllDigits.tail {c : UInt8} {ds : List UInt8} (h : AllDigits (c :: ds)) : AllDigits ds :=
  fun x hx => h x (List.mem_cons_of_mem _ hx)

theorem AllDigits.head {c : UInt8} {ds : List UInt8} (h : AllDigits (c :: ds)) : isDigit c = true :=
  h c List.mem_cons_self

theorem isDigit_val : ∀ c : UInt8, isDigit c = true →
    c.toNat - 48 < 10 ∧ digitVal 10 c = some (c.toNat - 48) ∧ (c == 46) = false ∧
    (c == 101 || c == 69) = false ∧ ((c == 48) = false → 1 ≤ c.toNat - 48) ∧
    ((c == 48) = true → c.toNat - 48 = 0) := by
  apply forall_u8; decide +kernel

/-! ## 2. `shiftIn` and a pure model of the fraction loop -/

theorem shiftIn_ok : ∀ (z sig : Nat) (exp : Int) (d : Nat), d < 10 →
    sig * 10 ^ (z + 1) + d ≤ u64Max →
    shiftIn sig exp z d = (sig * 10 ^ (z + 1) + d, exp - ((z : Int) + 1), false) := by
  intro z
  induction z with
  | zero =>
    intro sig exp d hd h
    have hov : overflow sig 10 d u64Max = false := by
      rw [overflow_false_iff (by decide) hd]; simpa using h
    simp [shiftIn, hov]
  | succ z ih =>
    intro sig exp d hd h
    have e1 : sig * 10 ^ (z + 1 + 1) = sig * 10 * 10 ^ (z + 1) := by
      rw [Nat.pow_succ (m := z + 1)]; generalize 10 ^ (z + 1) = p; grind
    have hle : sig * 10 ≤ sig * 10 * 10 ^ (z + 1) :=
      Nat.le_mul_of_pos_right _ (Nat.pow_pos (by decide))
    have hov : overflow sig 10 0 u64Max = false := by
      rw [overflow_false_iff (by decide) (by decide)]; omega
    rw [shiftIn, hov]
    simp only [Bool.false_eq_true, if_false]
    rw [ih (sig * 10) (exp - 1) d hd (by omega), e1]
    simp only [Prod.mk.injEq, and_true, true_and]
    omega

/-- when the flag is raised, nothing more is known than that the shift would have overflowed -/
theorem shiftIn_overflow : ∀ (z sig : Nat) (exp : Int) (d : Nat), d < 10 →
    u64Max < sig * 10 ^ (z + 1) + d → (shiftIn sig exp z d).2.2 = true := by
  intro z
  induction z with
  | zero =>
    intro sig exp d hd h
    have hov : overflow sig 10 d u64Max = true := by
      rw [overflow_spec (by decide) hd]; simpa using h
    simp [shiftIn, hov]
  | succ z ih =>
    intro sig exp d hd h
    have e1 : sig * 10 ^ (z + 1 + 1) = sig * 10 * 10 ^ (z + 1) := by
      rw [Nat.pow_succ (m := z + 1)]; generalize 10 ^ (z + 1) = p; grind
    rw [shiftIn]
    cases hov : overflow sig 10 0 u64Max with
    | true => simp
    | false =>
      simp only [Bool.false_eq_true, if_false]
      exact ih (sig * 10) (exp - 1) d hd (by omega)

/-- The fraction loop without the overflow exits: `z` zeros are pending. -/
def fracModel : List UInt8 → Nat → Int → Nat → Nat × Int
  | [], sig, exp, _ => (sig, exp)
  | c :: cs, sig, exp, z =>
    if c == 48 then fracModel cs sig exp (z + 1)
    else fracModel cs (sig * 10 ^ (z + 1) + (c.toNat - 48)) (exp - ((z : Int) + 1)) 0

theorem fracModel_ge : ∀ (ds : List UInt8) (sig : Nat) (exp : Int) (z : Nat),
    sig ≤ (fracModel ds sig exp z).1 := by
  intro ds
  induction ds with
  | nil => intro sig exp z; exact Nat.le_refl _
  | cons c cs ih =>
    intro sig exp z
    rw [fracModel]
    split
    · exact ih _ _ _
    · have h1 := ih (sig * 10 ^ (z + 1) + (c.toNat - 48)) (exp - ((z : Int) + 1)) 0
      have h2 : sig ≤ sig * 10 ^ (z + 1) := Nat.le_mul_of_pos_right _ (Nat.pow_pos (by decide))
      omega

/-- a fraction with its trailing zeros removed -/
def stripZ : List UInt8 → List UInt8
  | [] => []
  | c :: cs => if c == 48 && (stripZ cs).isEmpty then [] else c :: stripZ cs

theorem stripZ_replicate (z : Nat) : stripZ (List.replicate z 48) = [] := by
  induction z with
  | zero => rfl
  | succ z ih => simp [List.replicate_succ, stripZ, ih]

theorem stripZ_replicate_cons (c : UInt8) (hc : (c == 48) = false) (ds : List UInt8) (z : Nat) :
    stripZ (List.replicate z 48 ++ c :: ds) = List.replicate z 48 ++ c :: stripZ ds := by
  induction z with
  | zero => simp [stripZ, hc]
  | succ z ih => simp [List.replicate_succ, stripZ, ih]

theorem stripZ_spec (ds : List UInt8) : ∃ t, ds = stripZ ds ++ List.replicate t 48 := by
  induction ds with
  | nil => exact ⟨0, rfl⟩
  | cons c cs ih =>
    obtain ⟨t, ht⟩ := ih
    rw [stripZ]
    split
    · next h =>
      simp only [Bool.and_eq_true, beq_iff_eq, List.isEmpty_iff] at h
      refine ⟨t + 1, ?_⟩
      rw [h.2] at ht
      rw [ht, h.1]; simp [List.replicate_succ]
    · exact ⟨t, by rw [List.cons_append, ← ht]⟩

theorem stripZ_sublist_digits {ds : List UInt8} (h : AllDigits ds) : AllDigits (stripZ ds) := by
  obtain ⟨t, ht⟩ := stripZ_spec ds
  intro c hc
  apply h c
  rw [ht]; exact List.mem_append_left _ hc

theorem stripZ_length_le (ds : List UInt8) : (stripZ ds).length ≤ ds.length := by
  obtain ⟨t, ht⟩ := stripZ_spec ds
  have := congrArg List.length ht
  simp at this; omega

theorem dv_replicate_zero (z : Nat) : dv 0 (List.replicate z 48) = 0 := by
  induction z with
  | zero => rfl
  | succ z ih => rw [List.replicate_succ, dv_cons]; simpa using ih

theorem dv_trailing_zeros (acc : Nat) (t : Nat) : dv acc (List.replicate t 48) = acc * 10 ^ t := by
  rw [dv_acc, dv_replicate_zero]; simp

/-- Closed form of the model: the pending zeros and the digits, stripped of trailing zeros, are
    appended to the significand. -/
theorem fracModel_closed : ∀ (ds : List UInt8) (sig : Nat) (exp : Int) (z : Nat),
    fracModel ds sig exp z =
      (dv sig (stripZ (List.replicate z 48 ++ ds)),
       exp - ((stripZ (List.replicate z 48 ++ ds)).length : Int)) := by
  intro ds
  induction ds with
  | nil =>
    intro sig exp z
    simp [fracModel, stripZ_replicate]
  | cons c cs ih =>
    intro sig exp z
    rw [fracModel]
    split
    · next h =>
      have hc : c = 48 := by simpa using h
      subst hc
      rw [ih]
      have : List.replicate (z + 1) (48 : UInt8) ++ cs = List.replicate z 48 ++ 48 :: cs := by
        rw [List.replicate_succ']; simp
      rw [this]
    · next h =>
      have hc : (c == 48) = false := by simpa using h
      rw [ih, stripZ_replicate_cons c hc]
      simp only [List.replicate_zero, List.nil_append, List.length_append, List.length_replicate,
        List.length_cons]
      rw [dv_append, dv_trailing_zeros, dv_cons]
      simp only [Prod.mk.injEq]
      constructor
      · congr 1
        rw [Nat.pow_succ]; generalize 10 ^ z = p; grind
      · omega

/-! ## 3. Reader steps on an exact state -/

theorem pk_cons (t : St) (b : UInt8) (tl : List UInt8) (h : t.rd.rest = b :: tl) :
    peekOrNull t = .ok b (adv t 0 (t.rd.peeked || t.rd.mode == .io)) := by
  unfold peekOrNull
  simp only [bind_apply, peek_eq, h, pure_apply, Option.getD_some]

theorem dc_cons (t : St) (b : UInt8) (tl : List UInt8) (h : t.rd.rest = b :: tl) :
    discard t = .ok () (adv t 1 false) := by
  rw [discard_eq, h]

theorem nx_cons (t : St) (b : UInt8) (tl : List UInt8) (h : t.rd.rest = b :: tl) :
    next t = .ok (some b) (adv t 1 false) := by
  rw [next_eq, h]

/-- the byte after a run of digits is not a digit (or the input ends) -/
def StopDigit (rest : List UInt8) : Prop := isDigit (rest.head?.getD 0) = false

/-! ## 4. The fraction loop -/

theorem decimalLoop_ok (rest : List UInt8) (hstop : StopDigit rest) :
    ∀ (ds : List UInt8) (f sig : Nat) (exp : Int) (z : Nat) (any : Bool) (t : St),
      AllDigits ds → t.rd.rest = ds ++ rest → t.rd.peeked = false →
      (rest = [] → t.rd.faulty = false) → (fracModel ds sig exp z).1 ≤ u64Max →
      ds.length + 1 ≤ f →
      decimalLoop f sig exp z any t =
        .ok ((fracModel ds sig exp z).1, (fracModel ds sig exp z).2, any || !ds.isEmpty)
          (adv t ds.length (endPeek t rest)) := by
  intro ds
  induction ds with
  | nil =>
    intro f sig exp z any t _ hrest hpk hf _ hfuel
    obtain ⟨f, rfl⟩ : ∃ f', f = f' + 1 := ⟨f - 1, by omega⟩
    rw [decimalLoop]
    simp only [bind_apply, peekOrNull_at t rest (by simpa using hrest) hf]
    unfold StopDigit at hstop
    simp [hstop, hpk, fracModel]
  | cons c cs ih =>
    intro f sig exp z any t hd hrest hpk hf hle hfuel
    obtain ⟨f, rfl⟩ : ∃ f', f = f' + 1 := ⟨f - 1, by omega⟩
    simp only [List.length_cons] at hfuel
    simp only [List.cons_append] at hrest
    obtain ⟨hlt, -, -, -, hnz, -⟩ := isDigit_val c hd.head
    have hr0 : (adv t 0 (t.rd.peeked || t.rd.mode == .io)).rd.rest = c :: (cs ++ rest) := by
      simp [hrest]
    have hr1 : (adv t 1 false).rd.rest = cs ++ rest := by simp [hrest]
    rw [decimalLoop]
    simp only [bind_apply, pk_cons t c _ hrest, hd.head, if_true, dc_cons _ c _ hr0, adv_adv]
    rw [fracModel] at hle ⊢
    by_cases hc : (c == 48) = true
    · simp only [hc, if_true] at hle ⊢
      rw [ih f sig exp (z + 1) true (adv t 1 false) hd.tail hr1 (by simp) (by simpa using hf) hle
        (by omega)]
      simp only [adv_adv, endPeek_adv, Bool.true_or, List.isEmpty_cons, Bool.not_false, Bool.or_true,
        List.length_cons]
      rw [Nat.add_comm 1 cs.length]
    · simp only [hc, if_false, Bool.false_eq_true] at hle ⊢
      have hsh := shiftIn_ok z sig exp (c.toNat - 48) hlt
        (Nat.le_trans (fracModel_ge cs _ _ _) hle)
      rw [hsh]
      simp only []
      rw [ih f _ _ 0 true (adv t 1 false) hd.tail hr1 (by simp) (by simpa using hf) hle
        (by omega)]
      simp only [adv_adv, endPeek_adv, Bool.true_or, List.isEmpty_cons, Bool.not_false, Bool.or_true,
        List.length_cons]
      rw [Nat.add_comm 1 cs.length]

/-! ## 5. The exponent -/

/-- the final exponent, with `saturating_add` / `saturating_sub` on `i32` -/
def expFin (startExp : Int) (posExp : Bool) (x : Nat) : Int :=
  if posExp then min (startExp + x) (i32Max : Int) else max (startExp - x) (-(i32Max : Int) - 1)

theorem exponentLoop_ok (cfg : Cfg) (pos : Bool) (sig : Nat) (startExp : Int) (posExp : Bool)
    (rest : List UInt8) (hstop : StopDigit rest) :
    ∀ (ds : List UInt8) (f x : Nat) (t : St),
      AllDigits ds → t.rd.rest = ds ++ rest → t.rd.peeked = false →
      (rest = [] → t.rd.faulty = false) → dv x ds ≤ i32Max → ds.length + 1 ≤ f →
      exponentLoop cfg pos sig startExp posExp f x t =
        f64FromParts cfg pos sig (expFin startExp posExp (dv x ds))
          (adv t ds.length (endPeek t rest)) := by
  intro ds
  induction ds with
  | nil =>
    intro f x t _ hrest hpk hf _ hfuel
    obtain ⟨f, rfl⟩ : ∃ f', f = f' + 1 := ⟨f - 1, by omega⟩
    rw [exponentLoop]
    simp only [bind_apply, peekOrNull_at t rest (by simpa using hrest) hf]
    unfold StopDigit at hstop
    simp [hstop, hpk, expFin]
  | cons c cs ih =>
    intro f x t hd hrest hpk hf hle hfuel
    obtain ⟨f, rfl⟩ : ∃ f', f = f' + 1 := ⟨f - 1, by omega⟩
    simp only [List.length_cons] at hfuel
    simp only [List.cons_append] at hrest
    obtain ⟨hlt, -⟩ := isDigit_val c hd.head
    have hr0 : (adv t 0 (t.rd.peeked || t.rd.mode == .io)).rd.rest = c :: (cs ++ rest) := by
      simp [hrest]
    have hr1 : (adv t 1 false).rd.rest = cs ++ rest := by simp [hrest]
    rw [dv_cons] at hle
    have hov : overflow x 10 (c.toNat - 48) i32Max = false := by
      rw [overflow_false_iff (by decide) hlt]
      exact Nat.le_trans (dv_ge cs _) hle
    rw [exponentLoop]
    simp only [bind_apply, pk_cons t c _ hrest, hd.head, if_true, dc_cons _ c _ hr0, adv_adv, hov,
      Bool.false_eq_true, if_false]
    rw [ih f _ (adv t 1 false) hd.tail hr1 (by simp) (by simpa using hf) hle (by omega)]
    simp only [adv_adv, endPeek_adv, List.length_cons, dv_cons]
    rw [Nat.add_comm 1 cs.length]

/-- the sign of a written exponent: `e`, `e+` or `e-` -/
def expSignPos (sign : List UInt8) : Bool := sign != [45]

theorem parseExponent_ok (cfg : Cfg) (pos : Bool) (sig : Nat) (startExp : Int)
    (mark : UInt8) (sign xs rest : List UInt8) (f : Nat) (t : St)
    (hsign : sign = [] ∨ sign = [43] ∨ sign = [45]) (hne : xs ≠ []) (hd : AllDigits xs)
    (hrest : t.rd.rest = mark :: (sign ++ (xs ++ rest))) (hstop : StopDigit rest)
    (hf : rest = [] → t.rd.faulty = false) (hle : dv 0 xs ≤ i32Max) (hfuel : xs.length ≤ f) :
    parseExponent cfg f pos sig startExp t =
      f64FromParts cfg pos sig (expFin startExp (expSignPos sign) (dv 0 xs))
        (adv t (1 + sign.length + xs.length) (endPeek t rest)) := by
  cases xs with
  | nil => exact absurd rfl hne
  | cons d0 ds =>
    obtain ⟨h45, h43⟩ := (isDigit_facts d0 hd.head).2
    have hloop : ∀ (n : Nat) (p : Bool), (adv t n false).rd.rest = ds ++ rest →
        exponentLoop cfg pos sig startExp p f (d0.toNat - 48) (adv t n false) =
          f64FromParts cfg pos sig (expFin startExp p (dv 0 (d0 :: ds)))
            (adv t (n + ds.length) (endPeek t rest)) := by
      intro n p hr
      rw [exponentLoop_ok cfg pos sig startExp p rest hstop ds f _ (adv t n false) hd.tail hr
        (by simp) (by simpa using hf) (by simpa using hle) (by simpa using hfuel)]
      simp only [adv_adv, endPeek_adv, dv_cons, Nat.zero_mul, Nat.zero_add]
    have hr1 : (adv t 1 false).rd.rest = sign ++ (d0 :: ds ++ rest) := by simp [hrest]
    unfold parseExponent
    rcases hsign with rfl | rfl | rfl
    · simp only [List.nil_append, List.cons_append] at hr1 hrest
      have hr1' : (adv t (1 + 0) ((adv t 1 false).rd.peeked || (adv t 1 false).rd.mode == .io)).rd.rest
          = d0 :: (ds ++ rest) := by simp [hrest]
      simp only [bind_apply, dc_cons t _ _ hrest, pk_cons _ _ _ hr1, adv_adv, h43, h45,
        Bool.false_eq_true, if_false, pure_apply, nx_cons _ _ _ hr1', hd.head, if_true]
      rw [hloop _ true (by simp [hrest])]
      simp only [expSignPos, List.length_cons, List.length_nil]
      first
        | rfl
        | (congr 2; first | rfl | omega | decide)
        | (congr 1; first | rfl | omega | decide)
    · simp only [List.cons_append, List.nil_append] at hr1 hrest
      have hr1' : (adv t (1 + 0) ((adv t 1 false).rd.peeked || (adv t 1 false).rd.mode == .io)).rd.rest
          = 43 :: d0 :: (ds ++ rest) := by simp [hrest]
      have hr2 : (adv t (1 + 0 + 1) false).rd.rest = d0 :: (ds ++ rest) := by simp [hrest]
      simp only [bind_apply, dc_cons t _ _ hrest, pk_cons _ _ _ hr1, adv_adv, beq_self_eq_true,
        if_true, dc_cons _ _ _ hr1', pure_apply, nx_cons _ _ _ hr2, hd.head]
      rw [hloop _ true (by simp [hrest])]
      simp only [expSignPos, List.length_cons, List.length_nil]
      first
        | rfl
        | (congr 2; first | rfl | omega | decide)
        | (congr 1; first | rfl | omega | decide)
    · simp only [List.cons_append, List.nil_append] at hr1 hrest
      have hr1' : (adv t (1 + 0) ((adv t 1 false).rd.peeked || (adv t 1 false).rd.mode == .io)).rd.rest
          = 45 :: d0 :: (ds ++ rest) := by simp [hrest]
      have hr2 : (adv t (1 + 0 + 1) false).rd.rest = d0 :: (ds ++ rest) := by simp [hrest]
      have e1 : ((45 : UInt8) == 43) = false := by decide
      simp only [bind_apply, dc_cons t _ _ hrest, pk_cons _ _ _ hr1, adv_adv, beq_self_eq_true, e1,
        Bool.false_eq_true, if_false,
        if_true, dc_cons _ _ _ hr1', pure_apply, nx_cons _ _ _ hr2, hd.head]
      rw [hloop _ false (by simp [hrest])]
      simp only [expSignPos, List.length_cons, List.length_nil]
      first
        | rfl
        | (congr 2; first | rfl | omega | decide)
        | (congr 1; first | rfl | omega | decide)

/-! ## 6. Literals -/

/-- the exponent part of a literal: `e` or `E`, an optional sign, digits -/
structure ExpPart where
  mark : UInt8
  sign : List UInt8
  digits : List UInt8

def ExpPart.text (e : ExpPart) : List UInt8 := e.mark :: (e.sign ++ e.digits)

def ExpPart.WF (e : ExpPart) : Prop :=
  (e.mark = 101 ∨ e.mark = 69) ∧ (e.sign = [] ∨ e.sign = [43] ∨ e.sign = [45]) ∧
  e.digits ≠ [] ∧ AllDigits e.digits

/-- the written exponent without its sign -/
def ExpPart.abs (e : ExpPart) : Nat := dv 0 e.digits
/-- the written exponent -/
def ExpPart.val (e : ExpPart) : Int := if expSignPos e.sign then (e.abs : Int) else -(e.abs : Int)

def expText : Option ExpPart → List UInt8
  | none => []
  | some e => e.text

def fracText : Option (List UInt8) → List UInt8
  | none => []
  | some f => 46 :: f

/-- the written exponent (0 if there is none) -/
def exVal : Option ExpPart → Int
  | none => 0
  | some e => e.val

def exAbs : Option ExpPart → Nat
  | none => 0
  | some e => e.abs

/-- the exponent handed to `f64_from_parts` when the scan of the significand ended with `se` -/
def finExp (se : Int) : Option ExpPart → Int
  | none => se
  | some e => expFin se (expSignPos e.sign) e.abs

/-- What follows a literal: end of input, or a byte that is neither a digit nor `e` / `E`. -/
def ScanStop (rest : List UInt8) : Prop :=
  isDigit (rest.head?.getD 0) = false ∧ (rest.head?.getD 0 == 101 || rest.head?.getD 0 == 69) = false

theorem mark_facts (m : UInt8) (h : m = 101 ∨ m = 69) :
    (m == 101 || m == 69) = true ∧ isDigit m = false ∧ digitVal 10 m = none ∧ (m == 46) = false := by
  rcases h with rfl | rfl <;> decide

/-- the step shared by `parse_decimal` and `parse_num_tail`: look for an exponent -/
theorem tailExp_ok (cfg : Cfg) (pos : Bool) (sig : Nat) (se : Int) (ex : Option ExpPart)
    (rest : List UInt8) (f : Nat) (u : St)
    (hwf : ∀ e, ex = some e → e.WF ∧ e.abs ≤ i32Max ∧ e.digits.length ≤ f)
    (hrest : u.rd.rest = expText ex ++ rest)
    (hpk : ex = none → (u.rd.peeked || endPeek u rest) = endPeek u rest) (hstop : ScanStop rest)
    (hf : rest = [] → u.rd.faulty = false) :
    (do let c ← peekOrNull
        if c == 101 || c == 69 then parseExponent cfg f pos sig se
        else f64FromParts cfg pos sig se : P Nat) u =
      f64FromParts cfg pos sig (finExp se ex) (adv u (expText ex).length (endPeek u rest)) := by
  cases ex with
  | none =>
    simp only [expText, List.nil_append] at hrest
    simp only [bind_apply, peekOrNull_at u rest hrest hf, hstop.2, Bool.false_eq_true, if_false,
      finExp, expText, List.length_nil, hpk rfl]
  | some e =>
    obtain ⟨⟨hm, hs, hne, hd⟩, hle, hfu⟩ := hwf e rfl
    simp only [expText, ExpPart.text, List.cons_append, List.append_assoc] at hrest
    simp only [bind_apply, pk_cons u _ _ hrest, (mark_facts e.mark hm).1, if_true]
    rw [parseExponent_ok cfg pos sig se e.mark e.sign e.digits rest f _ hs hne hd
      (by simpa using hrest) hstop.1 (by simpa using hf) hle hfu]
    simp only [adv_adv, endPeek_adv, finExp, expText, ExpPart.text, List.length_cons,
      List.length_append, ExpPart.abs]
    congr 2; omega

theorem expText_stop (ex : Option ExpPart) (rest : List UInt8) (hwf : ∀ e, ex = some e → e.WF)
    (hstop : ScanStop rest) : StopDigit (expText ex ++ rest) := by
  cases ex with
  | none => exact hstop.1
  | some e =>
    have := (mark_facts e.mark (hwf e rfl).1).2.1
    simpa [StopDigit, expText, ExpPart.text] using this

theorem parseDecimal_ok (cfg : Cfg) (pos : Bool) (sig : Nat) (exp : Int) (fp : List UInt8)
    (ex : Option ExpPart) (rest : List UInt8) (f : Nat) (t : St)
    (hne : fp ≠ []) (hd : AllDigits fp)
    (hwf : ∀ e, ex = some e → e.WF ∧ e.abs ≤ i32Max ∧ e.digits.length ≤ f)
    (hrest : t.rd.rest = 46 :: (fp ++ (expText ex ++ rest))) (hstop : ScanStop rest)
    (hf : rest = [] → t.rd.faulty = false)
    (hle : (fracModel fp sig exp 0).1 ≤ u64Max) (hfuel : fp.length + 1 ≤ f) :
    parseDecimal cfg f pos sig exp t =
      f64FromParts cfg pos (fracModel fp sig exp 0).1 (finExp (fracModel fp sig exp 0).2 ex)
        (adv t (1 + fp.length + (expText ex).length) (endPeek t rest)) := by
  have hf' : expText ex ++ rest = [] → (adv t 1 false).rd.faulty = false := by
    intro h
    simp only [List.append_eq_nil_iff] at h
    simpa using hf h.2
  have hloop := decimalLoop_ok (expText ex ++ rest)
    (expText_stop ex rest (fun e he => (hwf e he).1) hstop) fp f sig exp 0 false (adv t 1 false) hd
    (by simp [hrest]) (by simp) hf' hle hfuel
  have hany : (false || !fp.isEmpty) = true := by
    cases fp with
    | nil => exact absurd rfl hne
    | cons => rfl
  rw [hany] at hloop
  unfold parseDecimal
  simp only [bind_apply, dc_cons t _ _ hrest, hloop, Bool.not_true, Bool.false_eq_true, if_false]
  have := tailExp_ok cfg pos (fracModel fp sig exp 0).1 (fracModel fp sig exp 0).2 ex rest f
    (adv (adv t 1 false) fp.length (endPeek (adv t 1 false) (expText ex ++ rest))) hwf
    (by simp [hrest, Nat.add_comm 1 fp.length]) (by intro h; subst h; simp [expText]) hstop
    (by simpa using hf)
  simp only [bind_apply] at this
  rw [this]
  simp only [adv_adv, endPeek_adv]

/-! ## 7. The integer part, and the whole literal -/

/-- the digit loop of `parse_num_literal` over the integer part, up to a `.` or an `e` -/
theorem numLoop_run (cfg : Cfg) (pos : Bool) (c0 : UInt8) (tl : List UInt8)
    (hc0 : digitVal 10 c0 = none) :
    ∀ (ds : List UInt8) (acc f : Nat) (t : St),
      AllDigits ds → t.rd.rest = ds ++ c0 :: tl → t.rd.peeked = false → dv acc ds ≤ u64Max →
      numLoop cfg 10 pos (f + ds.length + 1) acc t =
        parseNumTail cfg (f + 1) 10 pos (dv acc ds) (adv t ds.length (t.rd.mode == .io)) := by
  intro ds
  induction ds with
  | nil =>
    intro acc f t _ hrest hpk _
    simp only [List.nil_append] at hrest
    rw [numLoop]
    simp only [bind_apply, pk_cons t _ _ hrest, hc0, hpk, Bool.false_or, List.length_nil, dv_nil,
      Nat.add_zero]
  | cons c cs ih =>
    intro acc f t hd hrest hpk hle
    simp only [List.cons_append] at hrest
    obtain ⟨hlt, hdv, -⟩ := isDigit_val c hd.head
    have hr0 : (adv t 0 (t.rd.peeked || t.rd.mode == .io)).rd.rest = c :: (cs ++ c0 :: tl) := by
      simp [hrest]
    rw [dv_cons] at hle
    have hov : overflow acc 10 (c.toNat - 48) u64Max = false := by
      rw [overflow_false_iff (by decide) hlt]
      exact Nat.le_trans (dv_ge cs _) hle
    have e1 : f + (c :: cs).length + 1 = (f + cs.length + 1) + 1 := by
      simp only [List.length_cons]; omega
    rw [e1, numLoop]
    simp only [bind_apply, pk_cons t c _ hrest, hdv, dc_cons _ c _ hr0, adv_adv,
      Nat.not_le.mpr hlt, ge_iff_le, if_false, hov, Bool.false_eq_true]
    rw [ih _ f (adv t 1 false) hd.tail (by simp [hrest]) (by simp) hle]
    simp only [adv_adv, adv_mode, dv_cons, List.length_cons]
    rw [Nat.add_comm 1 cs.length]

/-- A decimal literal `digits [. digits] [(e|E) [+|-] digits]`. -/
structure DecLit where
  ip : List UInt8
  fp : Option (List UInt8)
  ex : Option ExpPart

namespace DecLit

def text (L : DecLit) : List UInt8 := L.ip ++ (fracText L.fp ++ expText L.ex)

/-- at least one digit before and, if there is a `.`, after it; a fraction or an exponent -/
def WF (L : DecLit) : Prop :=
  L.ip ≠ [] ∧ AllDigits L.ip ∧
  (∀ f, L.fp = some f → f ≠ [] ∧ AllDigits f) ∧
  (∀ e, L.ex = some e → e.WF) ∧
  (L.fp.isSome = true ∨ L.ex.isSome = true)

/-- the fraction digits that reach the significand: trailing zeros removed -/
def kept (L : DecLit) : List UInt8 :=
  match L.fp with
  | none => []
  | some f => stripZ f

/-- the written exponent (0 if there is none) -/
def expVal (L : DecLit) : Int := exVal L.ex

def expAbs (L : DecLit) : Nat := exAbs L.ex

/-- significand handed to `f64_from_parts` -/
def sig (L : DecLit) : Nat := dv 0 (L.ip ++ L.kept)
/-- exponent handed to `f64_from_parts` -/
def exp10 (L : DecLit) : Int := L.expVal - (L.kept.length : Int)

/-- all written digits as one integer -/
def rawSig (L : DecLit) : Nat := dv 0 (L.ip ++ (L.fp.getD []))
/-- the exponent that goes with `rawSig` -/
def rawExp (L : DecLit) : Int := L.expVal - ((L.fp.getD []).length : Int)

/-- the exponent arithmetic stays inside `i32` -/
def Small (L : DecLit) : Prop := L.kept.length + L.expAbs ≤ i32Max

end DecLit

theorem finExp_small (k : Nat) (ex : Option ExpPart) (h : k + exAbs ex ≤ i32Max) :
    finExp (-(k : Int)) ex = exVal ex - (k : Int) := by
  cases ex with
  | none => simp [finExp, exVal]
  | some e =>
    simp only [finExp, expFin, ExpPart.val, exVal, exAbs] at h ⊢
    unfold i32Max at h ⊢
    cases expSignPos e.sign
    · simp only [Bool.false_eq_true, if_false]; omega
    · simp only [if_true]; omega

/-- `parse_num_tail` at the `.` -/
theorem numTail_frac (cfg : Cfg) (pos : Bool) (I : Nat) (fp : List UInt8)
    (ex : Option ExpPart) (rest : List UInt8) (f : Nat) (u : St)
    (hne : fp ≠ []) (hd : AllDigits fp)
    (hwf : ∀ e, ex = some e → e.WF ∧ e.abs ≤ i32Max ∧ e.digits.length ≤ f)
    (hrest : u.rd.rest = 46 :: (fp ++ (expText ex ++ rest))) (hstop : ScanStop rest)
    (hf : rest = [] → u.rd.faulty = false)
    (hle : dv I (stripZ fp) ≤ u64Max) (hfuel : fp.length + 1 ≤ f) :
    parseNumTail cfg f 10 pos I u =
      (f64FromParts cfg pos (dv I (stripZ fp)) (finExp (-((stripZ fp).length : Int)) ex) >>=
        fun g => pure (Number.ofF64 g))
        (adv u (1 + fp.length + (expText ex).length) (endPeek u rest)) := by
  have hm := fracModel_closed fp I 0 0
  simp only [List.replicate_zero, List.nil_append, Int.zero_sub] at hm
  have hr0 : (adv u 0 (u.rd.peeked || u.rd.mode == .io)).rd.rest = 46 :: (fp ++ (expText ex ++ rest)) := by
    simp [hrest]
  have hd := parseDecimal_ok cfg pos I 0 fp ex rest f (adv u 0 (u.rd.peeked || u.rd.mode == .io))
    hne hd hwf hr0 hstop (by simpa using hf) (by rw [hm]; exact hle) hfuel
  rw [hm] at hd
  simp only [adv_adv, endPeek_adv, Nat.zero_add] at hd
  unfold parseNumTail
  have e10 : ((10 : Nat) != 10) = false := by decide
  simp only [bind_apply, pk_cons u _ _ hrest, beq_self_eq_true, if_true, e10, Bool.false_eq_true,
    if_false, hd]

/-- `parse_num_tail` at the `e` of a literal without fraction -/
theorem numTail_exp (cfg : Cfg) (pos : Bool) (I : Nat) (e : ExpPart) (rest : List UInt8)
    (f : Nat) (u : St) (hwf : e.WF) (hle : e.abs ≤ i32Max) (hfu : e.digits.length ≤ f)
    (hrest : u.rd.rest = e.text ++ rest) (hstop : ScanStop rest)
    (hf : rest = [] → u.rd.faulty = false) :
    parseNumTail cfg f 10 pos I u =
      (f64FromParts cfg pos I (finExp 0 (some e)) >>= fun g => pure (Number.ofF64 g))
        (adv u e.text.length (endPeek u rest)) := by
  obtain ⟨hm, hs, hne, hd⟩ := hwf
  obtain ⟨m1, -, -, m4⟩ := mark_facts e.mark hm
  simp only [ExpPart.text, List.cons_append, List.append_assoc] at hrest
  have hr0 : (adv u 0 (u.rd.peeked || u.rd.mode == .io)).rd.rest =
      e.mark :: (e.sign ++ (e.digits ++ rest)) := by simp [hrest]
  have hp := parseExponent_ok cfg pos I 0 e.mark e.sign e.digits rest f
    (adv u 0 (u.rd.peeked || u.rd.mode == .io)) hs hne hd hr0 hstop.1 (by simpa using hf) hle hfu
  simp only [adv_adv, endPeek_adv, Nat.zero_add] at hp
  unfold parseNumTail
  have e10 : ((10 : Nat) != 10) = false := by decide
  simp only [bind_apply, pk_cons u _ _ hrest, m4, m1, if_true, e10, Bool.false_eq_true,
    if_false, hp, finExp, ExpPart.abs, ExpPart.text, List.length_cons, List.length_append]
  adv_arith

/-- first digit and integer part of a literal -/
theorem numLiteral_run (cfg : Cfg) (pos : Bool) (c : UInt8) (cs : List UInt8) (c0 : UInt8)
    (tl : List UInt8) (f0 : Nat) (s : St) (hd : AllDigits (c :: cs))
    (hc0 : digitVal 10 c0 = none) (hrest : s.rd.rest = c :: (cs ++ c0 :: tl))
    (hle : dv 0 (c :: cs) ≤ u64Max) :
    parseNumLiteral cfg (f0 + cs.length + 1) 10 pos s =
      parseNumTail cfg (f0 + 1) 10 pos (dv 0 (c :: cs)) (adv s (cs.length + 1) (s.rd.mode == .io)) := by
  obtain ⟨hlt, hdv, -⟩ := isDigit_val c hd.head
  have hI : dv (c.toNat - 48) cs = dv 0 (c :: cs) := by simp
  unfold parseNumLiteral
  simp only [bind_apply, nx_cons s _ _ hrest, hdv, Nat.not_le.mpr hlt, ge_iff_le, if_false]
  rw [numLoop_run cfg pos c0 tl hc0 cs _ f0 (adv s 1 false) hd.tail (by simp [hrest])
    (by simp) (by rw [hI]; exact hle), hI]
  simp only [adv_adv, adv_mode]
  rw [Nat.add_comm 1 cs.length]

theorem scan_lit_frac (cfg : Cfg) (fuel : Nat) (pos : Bool) (ip f : List UInt8)
    (ex : Option ExpPart) (rest : List UInt8) (s : St)
    (hwf : DecLit.WF ⟨ip, some f, ex⟩) (hrest : s.rd.rest = DecLit.text ⟨ip, some f, ex⟩ ++ rest)
    (hstop : ScanStop rest) (hf : rest = [] → s.rd.faulty = false)
    (hS : DecLit.sig ⟨ip, some f, ex⟩ ≤ u64Max) (hsmall : DecLit.Small ⟨ip, some f, ex⟩)
    (hfuel : (DecLit.text ⟨ip, some f, ex⟩).length + 1 ≤ fuel) :
    parseNumLiteral cfg fuel 10 pos s =
      (f64FromParts cfg pos (DecLit.sig ⟨ip, some f, ex⟩) (DecLit.exp10 ⟨ip, some f, ex⟩) >>=
        fun g => pure (Number.ofF64 g))
        (adv s (DecLit.text ⟨ip, some f, ex⟩).length (endPeek s rest)) := by
  obtain ⟨hipne, hipd, hfp, hex, -⟩ := hwf
  simp only [DecLit.text, DecLit.sig, DecLit.exp10, DecLit.kept, DecLit.expVal, DecLit.Small,
    DecLit.expAbs, fracText] at *
  obtain ⟨hfne, hfd⟩ := hfp f rfl
  cases ip with
  | nil => exact absurd rfl hipne
  | cons c cs =>
    simp only [List.cons_append, List.append_assoc, List.length_cons, List.length_append] at hrest hfuel
    obtain ⟨f0, rfl⟩ : ∃ f0, fuel = f0 + cs.length + 1 := ⟨fuel - cs.length - 1, by omega⟩
    rw [dv_append] at hS
    rw [numLiteral_run cfg pos c cs 46 _ f0 s hipd (by decide) hrest
      (Nat.le_trans (dv_ge _ _) hS)]
    rw [numTail_frac cfg pos _ f ex rest (f0 + 1) _ hfne hfd
      (fun e he => ⟨hex e he, by subst he; simp only [exAbs] at hsmall; omega, by
        subst he
        simp only [expText, ExpPart.text, List.length_cons, List.length_append] at hfuel
        omega⟩)
      (by simp [hrest]) hstop (by simpa using hf) hS (by omega)]
    rw [finExp_small _ ex hsmall, dv_append]
    simp only [adv_adv, endPeek_adv, List.length_cons, List.length_append]
    adv_arith

theorem scan_lit_exp (cfg : Cfg) (fuel : Nat) (pos : Bool) (ip : List UInt8)
    (e : ExpPart) (rest : List UInt8) (s : St)
    (hwf : DecLit.WF ⟨ip, none, some e⟩) (hrest : s.rd.rest = DecLit.text ⟨ip, none, some e⟩ ++ rest)
    (hstop : ScanStop rest) (hf : rest = [] → s.rd.faulty = false)
    (hS : DecLit.sig ⟨ip, none, some e⟩ ≤ u64Max) (hsmall : DecLit.Small ⟨ip, none, some e⟩)
    (hfuel : (DecLit.text ⟨ip, none, some e⟩).length + 1 ≤ fuel) :
    parseNumLiteral cfg fuel 10 pos s =
      (f64FromParts cfg pos (DecLit.sig ⟨ip, none, some e⟩) (DecLit.exp10 ⟨ip, none, some e⟩) >>=
        fun g => pure (Number.ofF64 g))
        (adv s (DecLit.text ⟨ip, none, some e⟩).length (endPeek s rest)) := by
  obtain ⟨hipne, hipd, -, hex, -⟩ := hwf
  simp only [DecLit.text, DecLit.sig, DecLit.exp10, DecLit.kept, DecLit.expVal, DecLit.Small,
    DecLit.expAbs, fracText, expText, List.nil_append, List.append_nil, List.length_nil,
    Nat.zero_add, Int.natCast_zero, Int.sub_zero, exAbs, exVal] at *
  have hew := hex e rfl
  cases ip with
  | nil => exact absurd rfl hipne
  | cons c cs =>
    have hte : e.text = e.mark :: (e.sign ++ e.digits) := rfl
    have hrest' := hrest
    rw [hte] at hrest'
    simp only [List.cons_append, List.append_assoc, List.length_cons, List.length_append] at hrest hrest' hfuel
    obtain ⟨f0, rfl⟩ : ∃ f0, fuel = f0 + cs.length + 1 := ⟨fuel - cs.length - 1, by omega⟩
    rw [numLiteral_run cfg pos c cs e.mark _ f0 s hipd (mark_facts e.mark hew.1).2.2.1 hrest' hS]
    have hfs := finExp_small 0 (some e) (by simpa [exAbs] using hsmall)
    simp only [Int.natCast_zero, Int.neg_zero, Int.sub_zero, exVal] at hfs
    rw [numTail_exp cfg pos _ e rest (f0 + 1) _ hew hsmall
      (by
        simp only [hte, List.length_cons, List.length_append] at hfuel
        omega)
      (by simp [hrest]) hstop (by simpa using hf), hfs]
    simp only [adv_adv, endPeek_adv, List.length_cons, List.length_append]
    skip

/-- The scan of a whole literal by `parse_num_literal` (radix 10). -/
theorem scan_lit (cfg : Cfg) (fuel : Nat) (pos : Bool) (L : DecLit) (rest : List UInt8) (s : St)
    (hwf : L.WF) (hrest : s.rd.rest = L.text ++ rest) (hstop : ScanStop rest)
    (hf : rest = [] → s.rd.faulty = false) (hS : L.sig ≤ u64Max) (hsmall : L.Small)
    (hfuel : L.text.length + 1 ≤ fuel) :
    parseNumLiteral cfg fuel 10 pos s =
      (f64FromParts cfg pos L.sig L.exp10 >>= fun g => pure (Number.ofF64 g))
        (adv s L.text.length (endPeek s rest)) := by
  obtain ⟨ip, fp, ex⟩ := L
  cases fp with
  | some f => exact scan_lit_frac cfg fuel pos ip f ex rest s hwf hrest hstop hf hS hsmall hfuel
  | none =>
    cases ex with
    | none => exact absurd hwf.2.2.2.2 (by simp)
    | some e => exact scan_lit_exp cfg fuel pos ip e rest s hwf hrest hstop hf hS hsmall hfuel

/-! ## 8. The value of a literal -/

/-- The pair handed to `f64_from_parts` denotes the same number as all written digits with the
    written exponent: `sig * 10^exp10 = rawSig * 10^rawExp`, stated over `Nat`. -/
theorem DecLit.value_eq (L : DecLit) :
    L.rawExp ≤ L.exp10 ∧ L.sig * 10 ^ (L.exp10 - L.rawExp).toNat = L.rawSig := by
  obtain ⟨ip, fp, ex⟩ := L
  cases fp with
  | none =>
    simp [DecLit.rawExp, DecLit.exp10, DecLit.kept, DecLit.sig, DecLit.rawSig]
  | some f =>
    obtain ⟨t, ht⟩ := stripZ_spec f
    have hl : f.length = (stripZ f).length + t := by
      have := congrArg List.length ht
      simpa using this
    simp only [DecLit.rawExp, DecLit.exp10, DecLit.kept, DecLit.sig, DecLit.rawSig, Option.getD_some]
    constructor
    · omega
    · have e1 : (DecLit.expVal ⟨ip, some f, ex⟩ - ((stripZ f).length : Int) -
          (DecLit.expVal ⟨ip, some f, ex⟩ - (f.length : Int))).toNat = t := by omega
      rw [e1]
      conv => rhs; rw [ht, ← List.append_assoc, dv_append, dv_trailing_zeros]

/-! ## 9. Correct rounding of a decimal -/

/-- the double nearest to `S * 10^E` (magnitude bits) -/
def decRn (S : Nat) (E : Int) : Nat := rn (S * 10 ^ E.toNat) (10 ^ (-E).toNat)

theorem decRn_cases (S : Nat) (E : Int) :
    decRn S E = if E ≥ 0 then rn (S * 10 ^ E.toNat) 1 else rn S (10 ^ (-E).toNat) := by
  unfold decRn
  by_cases h : E ≥ 0
  · have : (-E).toNat = 0 := by omega
    simp [h, this]
  · have : E.toNat = 0 := by omega
    simp [h, this]

theorem ten_pow_pos (k : Nat) : 0 < 10 ^ k := Nat.pow_pos (by decide)

/-- `decRn` depends only on the number denoted -/
theorem decRn_congr {S S' : Nat} {E E' : Int}
    (h : S * 10 ^ E.toNat * 10 ^ (-E').toNat = S' * 10 ^ E'.toNat * 10 ^ (-E).toNat) :
    decRn S E = decRn S' E' :=
  rn_cross (ten_pow_pos _) (ten_pow_pos _) h

theorem decRn_shift (S t : Nat) (E : Int) : decRn (S * 10 ^ t) E = decRn S (E + t) := by
  apply decRn_congr
  have key : t + E.toNat + (-(E + (t : Int))).toNat = (E + (t : Int)).toNat + (-E).toNat := by omega
  have : 10 ^ t * 10 ^ E.toNat * 10 ^ (-(E + (t : Int))).toNat =
      10 ^ (E + (t : Int)).toNat * 10 ^ (-E).toNat := by
    rw [← Nat.pow_add, ← Nat.pow_add, ← Nat.pow_add, key]
  generalize 10 ^ t = a at *
  generalize 10 ^ E.toNat = b at *
  generalize 10 ^ (-(E + (t : Int))).toNat = c at *
  generalize 10 ^ (E + (t : Int)).toNat = d at *
  generalize 10 ^ (-E).toNat = e at *
  calc S * a * b * c = S * (a * b * c) := by grind
    _ = S * (d * e) := by rw [this]
    _ = S * d * e := by grind

/-- the scanned pair and the written digits round to the same double -/
theorem DecLit.decRn_eq (L : DecLit) : decRn L.sig L.exp10 = decRn L.rawSig L.rawExp := by
  obtain ⟨h1, h2⟩ := L.value_eq
  rw [← h2, decRn_shift]
  congr 1; omega

/-- the sign is applied by flipping the sign bit -/
def signed (pos : Bool) (f : Nat) : Nat := if pos then f else F64.neg f

theorem rn_zero_left (d : Nat) : rn 0 d = 0 := by simp [rn]

/-- `rnDec` is the correctly rounded value in the range where it calls `rn`. -/
theorem rnDec_eq (s : Nat) (e : Int) (hlo : -420 ≤ e) (hhi : e ≤ 400) : rnDec s e = decRn s e := by
  unfold rnDec
  by_cases hs : s = 0
  · subst hs; simp [decRn, rn_zero_left]
  · have h1 : ¬ e > 400 := by omega
    have h2 : ¬ e < -420 := by omega
    simp only [hs, h1, h2, if_false]
    rw [decRn_cases]

theorem f64FromParts_fast (cfg : Cfg) (pos : Bool) {sig : Nat} {e : Int} (s : St)
    (hfast : cfg.fast = true) (hp : ∀ k, k ≤ 22 → Exact (cfg.pow10 k) (10 ^ k))
    (hs : sig < 2 ^ 53) (hlo : -22 ≤ e) (hhi : e ≤ 22) :
    f64FromParts cfg pos sig e s = .ok (signed pos (decRn sig e)) s := by
  rw [C05_f64FromParts_fast cfg pos s hfast hp hs hlo hhi, decRn_cases]
  rfl

theorem f64FromParts_slow (cfg : Cfg) (pos : Bool) (sig : Nat) (e : Int) (s : St)
    (hfast : cfg.fast = false) :
    f64FromParts cfg pos sig e s =
      if isInf (rnDec sig e) then errAt .numberOutOfRange s
      else .ok (signed pos (rnDec sig e)) s := by
  unfold f64FromParts
  simp only [hfast, Bool.false_eq_true, if_false]
  split <;> rfl

/-! ## 10. From the literal to the token -/

/-- What may follow a number token: end of input or a delimiter (`expect_number_end`). -/
def DelimStop (rest : List UInt8) : Prop := ∀ b, rest.head? = some b → isDelimiter b = true

theorem delim_facts : ∀ b : UInt8, isDelimiter b = true →
    isDigit b = false ∧ (b == 101 || b == 69) = false := by
  apply forall_u8; decide +kernel

theorem DelimStop.scanStop {rest : List UInt8} (h : DelimStop rest) : ScanStop rest := by
  cases rest with
  | nil => exact ⟨by decide, by decide⟩
  | cons b tl => exact delim_facts b (h b rfl)

theorem delimStop_of_follow {rest : List UInt8} (h : Follow rest) : DelimStop rest :=
  fun b hb => isFollow_isDelimiter b (h.head b hb)

theorem expectNumberEnd_ok' (n : Number) (u : St) (rest : List UInt8) (h : u.rd.rest = rest)
    (hd : DelimStop rest) (hf : rest = [] → u.rd.faulty = false)
    (hpk : (u.rd.peeked || endPeek u rest) = u.rd.peeked) :
    expectNumberEnd n u = .ok n u := by
  unfold expectNumberEnd
  simp only [bind_apply, peek_at u rest h hf, hpk, adv_zero_self]
  cases hh : rest.head? with
  | none => simp
  | some c => simp [hd c hh]

/-- `parse_num_token` on a literal for which `f64_from_parts` succeeds -/
theorem numToken_lit (cfg : Cfg) (fuel : Nat) (pos : Bool) (L : DecLit) (rest : List UInt8)
    (s : St) (g : Nat)
    (hwf : L.WF) (hrest : s.rd.rest = L.text ++ rest) (hd : DelimStop rest)
    (hf : rest = [] → s.rd.faulty = false) (hS : L.sig ≤ u64Max) (hsmall : L.Small)
    (hfuel : L.text.length + 1 ≤ fuel)
    (hparts : ∀ u, f64FromParts cfg pos L.sig L.exp10 u = .ok g u) :
    parseNumToken cfg fuel pos s =
      .ok (.flt g) (adv s L.text.length (endPeek s rest)) := by
  unfold parseNumToken
  simp only [bind_apply, scan_lit cfg fuel pos L rest s hwf hrest hd.scanStop hf hS hsmall hfuel,
    hparts, pure_apply, Number.ofF64]
  exact expectNumberEnd_ok' _ _ rest (by simp [hrest]) hd (by simpa using hf) (by simp)

/-- … and when it fails -/
theorem numToken_lit_err (cfg : Cfg) (fuel : Nat) (pos : Bool) (L : DecLit) (rest : List UInt8)
    (s : St) (c : Code)
    (hwf : L.WF) (hrest : s.rd.rest = L.text ++ rest) (hd : ScanStop rest)
    (hf : rest = [] → s.rd.faulty = false) (hS : L.sig ≤ u64Max) (hsmall : L.Small)
    (hfuel : L.text.length + 1 ≤ fuel)
    (hparts : ∀ u, f64FromParts cfg pos L.sig L.exp10 u = errAt c u) :
    parseNumToken cfg fuel pos s = errAt c (adv s L.text.length (endPeek s rest)) ∧
    parseNumLiteral cfg fuel 10 pos s = errAt c (adv s L.text.length (endPeek s rest)) := by
  unfold parseNumToken
  simp only [bind_apply, scan_lit cfg fuel pos L rest s hwf hrest hd hf hS hsmall hfuel,
    hparts, errAt, and_self]

theorem digit_start_facts : ∀ c : UInt8, isDigit c = true →
    (c == 0 || isDelimiter c || isSignSubsequent c) = false ∧ (c == 46) = false := by
  apply forall_u8; decide +kernel

theorem DecLit.text_head (L : DecLit) (hwf : L.WF) :
    ∃ c tl, L.text = c :: tl ∧ isDigit c = true := by
  obtain ⟨ip, fp, ex⟩ := L
  obtain ⟨hne, hd, -⟩ := hwf
  cases ip with
  | nil => exact absurd rfl hne
  | cons c cs => exact ⟨c, _, rfl, hd.head⟩

/-- an unsigned literal as a token (default dialect) -/
theorem token_lit_pos (cfg : Cfg) (fuel : Nat) (L : DecLit) (rest : List UInt8)
    (s : St) (g : Nat) (pk : UInt8) (ho : cfg.opts = Options.default)
    (hwf : L.WF) (hrest : s.rd.rest = L.text ++ rest) (hpk : L.text.head? = some pk)
    (hd : DelimStop rest)
    (hf : rest = [] → s.rd.faulty = false) (hS : L.sig ≤ u64Max) (hsmall : L.Small)
    (hfuel : L.text.length + 1 ≤ fuel)
    (hparts : ∀ u, f64FromParts cfg true L.sig L.exp10 u = .ok g u) :
    parseToken cfg fuel pk s =
      .ok (.number (.flt g)) (adv s L.text.length (endPeek s rest)) := by
  obtain ⟨c, tl, htx, hc⟩ := L.text_head hwf
  have : pk = c := by rw [htx] at hpk; simpa using hpk.symm
  subst this
  rw [parseToken_digit cfg fuel _ ho hc]
  simp only [bind_apply, numToken_lit cfg fuel true L rest s g hwf hrest hd hf hS hsmall hfuel hparts,
    pure_apply]

/-- a literal after a minus sign as a token (any option set) -/
theorem token_lit_neg (cfg : Cfg) (fuel : Nat) (L : DecLit) (rest : List UInt8)
    (s : St) (g : Nat)
    (hwf : L.WF) (hrest : s.rd.rest = 45 :: (L.text ++ rest))
    (hd : DelimStop rest)
    (hf : rest = [] → s.rd.faulty = false) (hS : L.sig ≤ u64Max) (hsmall : L.Small)
    (hfuel : L.text.length + 1 ≤ fuel)
    (hparts : ∀ u, f64FromParts cfg false L.sig L.exp10 u = .ok g u) :
    parseToken cfg fuel 45 s =
      .ok (.number (.flt g)) (adv s (L.text.length + 1) (endPeek s rest)) := by
  obtain ⟨c, tl, htx, hc⟩ := L.text_head hwf
  obtain ⟨g1, g2⟩ := digit_start_facts c hc
  have hdsp : parseToken cfg fuel 45 = parseSignToken cfg fuel 45 false := by
    unfold parseToken; simp
  have hr1 : (adv s 1 false).rd.rest = c :: (tl ++ rest) := by simp [hrest, htx]
  have hr1' : (adv s 1 false).rd.rest = L.text ++ rest := by simp [hrest]
  rw [hdsp]
  unfold parseSignToken
  simp only [bind_apply, dc_cons s _ _ hrest, pk_cons _ _ _ hr1, g1, g2, Bool.false_eq_true,
    if_false, adv_adv]
  rw [numToken_lit cfg fuel false L rest _ g hwf (by simp [hrest]) hd (by simpa using hf) hS hsmall
    hfuel hparts]
  simp only [adv_adv, endPeek_adv, pure_apply]
  adv_arith

/-! ## 11. Overflow to infinity, underflow to zero -/

theorem rne_ge {n d K : Nat} (hd : 0 < d) (h : K * d ≤ n) : K ≤ rne n d := by
  have hq : K ≤ n / d := (Nat.le_div_iff_mul_le hd).mpr h
  unfold rne
  simp only []
  split
  · omega
  · split
    · split <;> omega
    · omega

theorem rne_zero {n d : Nat} (h : 2 * n < d) : rne n d = 0 := by
  have hq : n / d = 0 := Nat.div_eq_of_lt (by omega)
  have hr : n % d = n := Nat.mod_eq_of_lt (by omega)
  unfold rne
  simp only [hq, hr]
  have h1 : ¬ (2 * n > d) := by omega
  have h2 : ¬ (2 * n = d) := by omega
  simp [h1, h2]

set_option exponentiation.threshold 2048 in
/-- A quotient of at least `2^1024` rounds to infinity. -/
theorem rn_overflow {n d : Nat} (hd : 0 < d) (h : 2 ^ 1024 * d ≤ n) : rn n d = infBits := by
  have hn : 0 < n := Nat.lt_of_lt_of_le (Nat.mul_pos (Nat.two_pow_pos _) hd) h
  have he := ilog2_spec hn hd
  generalize ilog2 n d = e at he
  rw [rn_eq hn hd he]
  have he1024 : 1024 ≤ e := by
    apply Int.not_lt.mp
    intro hlt
    obtain ⟨_, h2⟩ := he
    have hA : e.toNat + 1 ≤ 1024 := by omega
    have s1 : 2 ^ (e.toNat + 1) ≤ 2 ^ 1024 := two_pow_mono hA
    have s2 : n ≤ n * 2 ^ (-e).toNat := Nat.le_mul_of_pos_right _ (Nat.two_pow_pos _)
    have e1 : 2 * (d * 2 ^ e.toNat) = 2 ^ (e.toNat + 1) * d := by rw [Nat.pow_succ]; grind
    have s3 := Nat.mul_le_mul_right d s1
    generalize (2 : Nat) ^ 1024 = T at *
    omega
  have hee : (if e < -1022 then (-1022 : Int) else e) = e := by
    have : ¬ e < -1022 := by omega
    simp [this]
  simp only [hee]
  obtain ⟨h1, _⟩ := he
  have hB : (-e).toNat = 0 := by omega
  have hB' : (-(e - 52)).toNat = 0 := by omega
  rw [hB, Nat.pow_zero, Nat.mul_one] at h1
  rw [hB', Nat.pow_zero, Nat.mul_one]
  have hsplit : 2 ^ e.toNat = two52 * 2 ^ (e - 52).toNat := by
    have : e.toNat = 52 + (e - 52).toNat := by omega
    rw [this, Nat.pow_add]; rfl
  have hm : two52 ≤ rne n (d * 2 ^ (e - 52).toNat) := by
    apply rne_ge (Nat.mul_pos hd (Nat.two_pow_pos _))
    have : two52 * (d * 2 ^ (e - 52).toNat) = d * 2 ^ e.toNat := by rw [hsplit]; grind
    omega
  have hE : 2046 ≤ (e + 1022).toNat := by omega
  have hE' := Nat.mul_le_mul_right two52 hE
  generalize rne n (d * 2 ^ (e - 52).toNat) = m at *
  generalize (e + 1022).toNat = E at *
  have : E * two52 + m ≥ infBits := by simp only [two52, infBits] at *; omega
  rw [if_pos this]

set_option exponentiation.threshold 2048 in
/-- A quotient below `2^-1075` (half the smallest subnormal) rounds to zero. -/
theorem rn_underflow {n d : Nat} (hd : 0 < d) (h : n * 2 ^ 1075 < d) : rn n d = 0 := by
  by_cases hn0 : n = 0
  · subst hn0; exact rn_zero_left d
  have hn : 0 < n := by omega
  have he := ilog2_spec hn hd
  generalize ilog2 n d = e at he
  rw [rn_eq hn hd he]
  have helt : e < -1022 := by
    apply Int.not_le.mp
    intro hge
    obtain ⟨h1, _⟩ := he
    have hB : (-e).toNat ≤ 1075 := by omega
    have s1 : 2 ^ (-e).toNat ≤ 2 ^ 1075 := two_pow_mono hB
    have s2 := Nat.mul_le_mul_left n s1
    have s3 : d ≤ d * 2 ^ e.toNat := Nat.le_mul_of_pos_right _ (Nat.two_pow_pos _)
    omega
  have hee : (if e < -1022 then (-1022 : Int) else e) = -1022 := by simp [helt]
  simp only [hee]
  have e1 : (-((-1022 : Int) - 52)).toNat = 1074 := by decide
  have e2 : ((-1022 : Int) - 52).toNat = 0 := by decide
  have e3 : ((-1022 : Int) + 1022).toNat = 0 := by decide
  rw [e1, e2, e3, Nat.pow_zero, Nat.mul_one, Nat.zero_mul, Nat.zero_add]
  have hz : rne (n * 2 ^ 1074) d = 0 := by
    apply rne_zero
    have : 2 * (n * 2 ^ 1074) = n * 2 ^ 1075 := by
      rw [Nat.pow_succ (m := 1074)]; grind
    omega
  rw [hz]
  decide

set_option exponentiation.threshold 2048 in
theorem two1024_le_ten401 : (2 : Nat) ^ 1024 ≤ 10 ^ 401 := by decide

set_option exponentiation.threshold 2048 in
theorem two1139_le_ten421 : (2 : Nat) ^ 1139 ≤ 10 ^ 421 := by decide

set_option exponentiation.threshold 2048 in
/-- `rnDec` is the correctly rounded value of `s * 10^e` for every exponent (`s` a `u64`):
    its two shortcuts agree with `rn`. -/
theorem rnDec_eq_all (s : Nat) (e : Int) (hs : s ≤ u64Max) : rnDec s e = decRn s e := by
  by_cases h0 : s = 0
  · subst h0; simp [rnDec, decRn, rn_zero_left]
  by_cases hhi : e > 400
  · have : rnDec s e = infBits := by simp [rnDec, h0, hhi]
    rw [this, decRn_cases, if_pos (by omega)]
    symm
    apply rn_overflow (by decide)
    have h1 : 10 ^ 401 ≤ 10 ^ e.toNat := Nat.pow_le_pow_right (by decide) (by omega)
    have h2 : 10 ^ e.toNat ≤ s * 10 ^ e.toNat := Nat.le_mul_of_pos_left _ (by omega)
    have h3 := two1024_le_ten401
    generalize (2 : Nat) ^ 1024 = T at *
    generalize (10 : Nat) ^ 401 = U at *
    omega
  by_cases hlo : e < -420
  · have : rnDec s e = 0 := by simp [rnDec, h0, hhi, hlo]
    rw [this, decRn_cases, if_neg (by omega)]
    symm
    apply rn_underflow (ten_pow_pos _)
    have h1 : 10 ^ 421 ≤ 10 ^ (-e).toNat := Nat.pow_le_pow_right (by decide) (by omega)
    have h2 : s * 2 ^ 1075 < 2 ^ 64 * 2 ^ 1075 :=
      Nat.mul_lt_mul_of_pos_right (by unfold u64Max at hs; omega) (Nat.two_pow_pos _)
    have h3 : (2 : Nat) ^ 64 * 2 ^ 1075 = 2 ^ 1139 := by rw [← Nat.pow_add]
    have h4 := two1139_le_ten421
    generalize (2 : Nat) ^ 1139 = T at *
    generalize (10 : Nat) ^ 421 = U at *
    omega
  · exact rnDec_eq s e (by omega) (by omega)

/-! ## 12. `f64_from_parts`: out of range -/

theorem isInf_infBits : isInf infBits = true := by decide

theorem out_of_range_slow (cfg : Cfg) (pos : Bool) (S : Nat) (E : Int) (hfast : cfg.fast = false)
    (hS : S ≤ u64Max) (hbig : 2 ^ 1024 * 10 ^ (-E).toNat ≤ S * 10 ^ E.toNat) (u : St) :
    f64FromParts cfg pos S E u = errAt .numberOutOfRange u := by
  rw [f64FromParts_slow cfg pos S E u hfast, rnDec_eq_all S E hS]
  have : decRn S E = infBits := rn_overflow (ten_pow_pos _) hbig
  rw [this, isInf_infBits]
  rfl

theorem rn_nat_pos {n : Nat} (hn : 0 < n) : 0 < rn n 1 ∧ rn n 1 ≤ infBits := by
  refine ⟨?_, rn_le_inf _ _⟩
  rw [rn_eq hn (by decide) (log2_bracket hn)]
  have h1 : ¬ ((Nat.log2 n : Int) < -1022) := by omega
  simp only [h1, if_false]
  have hE : 1022 ≤ ((Nat.log2 n : Int) + 1022).toNat := by omega
  have := Nat.mul_le_mul_right two52 hE
  generalize ((Nat.log2 n : Int) + 1022).toNat = E at *
  generalize rne _ _ = m
  split
  · decide
  · simp only [two52] at *; omega

theorem isZero_ofNat {n : Nat} (hn : 0 < n) : isZero (F64.ofNat n) = false := by
  obtain ⟨h1, h2⟩ := rn_nat_pos hn
  unfold isZero F64.ofNat
  simp only [infBits, signBit] at *
  have : rn n 1 % 9223372036854775808 = rn n 1 := by omega
  rw [this]
  simp; omega

/-- fast build: a decimal exponent above 308 with a non-zero significand is out of range -/
theorem out_of_range_fast (cfg : Cfg) (pos : Bool) (S : Nat) (E : Int) (hfast : cfg.fast = true)
    (hS : 0 < S) (hE : 308 < E) (u : St) :
    f64FromParts cfg pos S E u = errAt .numberOutOfRange u := by
  unfold f64FromParts
  simp only [hfast, if_true]
  have : fastParts cfg.pow10 (E.natAbs / 308 + 2) (F64.ofNat S) E = none := by
    rw [show E.natAbs / 308 + 2 = (E.natAbs / 308 + 1) + 1 from rfl, fastParts]
    have h1 : ¬ E.natAbs ≤ 308 := by omega
    have h2 : E ≥ 0 := by omega
    simp [h1, h2, isZero_ofNat hS]
  rw [this]

/-- `f64_from_parts` returns a finite double or `NumberOutOfRange`, nothing else -/
theorem f64FromParts_cases (cfg : Cfg) (pos : Bool) (S : Nat) (E : Int) (u : St) :
    (∃ g, f64FromParts cfg pos S E u = .ok g u) ∨
    f64FromParts cfg pos S E u = errAt .numberOutOfRange u := by
  unfold f64FromParts
  by_cases hfast : cfg.fast = true
  · rw [if_pos hfast]
    cases fastParts cfg.pow10 (E.natAbs / 308 + 2) (F64.ofNat S) E with
    | some f => exact Or.inl ⟨_, rfl⟩
    | none => exact Or.inr rfl
  · rw [if_neg hfast]
    cases isInf (rnDec S E) with
    | true => exact Or.inr rfl
    | false => exact Or.inl ⟨_, rfl⟩

/-! ## 13. The digits that `itoa` / `ryu` print -/

theorem ofNat_digit : ∀ d, d < 10 →
    isDigit (UInt8.ofNat (48 + d)) = true ∧ (UInt8.ofNat (48 + d)).toNat - 48 = d ∧
    ((UInt8.ofNat (48 + d) == 48) = (d == 0)) := by decide

theorem natDigits_snoc (n : Nat) : ∃ init, natDigits n = init ++ [UInt8.ofNat (48 + n % 10)] := by
  by_cases h : n < 10
  · exact ⟨[], by rw [natDigits_lt h, Nat.mod_eq_of_lt h]; rfl⟩
  · exact ⟨natDigits (n / 10), natDigits_ge (by omega)⟩

theorem natDigits_allDigits (n : Nat) : AllDigits (natDigits n) := by
  induction n using Nat.strongRecOn with
  | _ n ih =>
    by_cases h : n < 10
    · rw [natDigits_lt h]
      intro c hc
      simp only [List.mem_cons, List.not_mem_nil, or_false] at hc
      subst hc
      exact (ofNat_digit n h).1
    · rw [natDigits_ge (by omega)]
      intro c hc
      rcases List.mem_append.mp hc with hc | hc
      · exact ih (n / 10) (by omega) c hc
      · simp only [List.mem_cons, List.not_mem_nil, or_false] at hc
        subst hc
        exact (ofNat_digit (n % 10) (Nat.mod_lt _ (by decide))).1

theorem natDigits_ne_nil (n : Nat) : natDigits n ≠ [] := by
  obtain ⟨init, h⟩ := natDigits_snoc n
  rw [h]; simp

theorem dv_natDigits (n : Nat) : dv 0 (natDigits n) = n := by
  induction n using Nat.strongRecOn with
  | _ n ih =>
    by_cases h : n < 10
    · rw [natDigits_lt h, dv_cons, dv_nil, (ofNat_digit n h).2.1]; omega
    · rw [natDigits_ge (by omega), dv_append, ih (n / 10) (by omega), dv_cons, dv_nil,
        (ofNat_digit (n % 10) (Nat.mod_lt _ (by decide))).2.1]
      omega

theorem natDigits_len_le : ∀ (k n : Nat), n < 10 ^ (k + 1) → (natDigits n).length ≤ k + 1 := by
  intro k
  induction k with
  | zero => intro n h; rw [natDigits_lt (by simpa using h)]; simp
  | succ k ih =>
    intro n h
    by_cases h10 : n < 10
    · rw [natDigits_lt h10]; simp
    · rw [natDigits_ge (by omega)]
      have : n / 10 < 10 ^ (k + 1) := by
        apply Nat.div_lt_of_lt_mul
        rw [Nat.pow_succ (m := k + 1)] at h; omega
      have := ih (n / 10) this
      simp only [List.length_append, List.length_cons, List.length_nil]; omega

theorem lt_pow_len (n : Nat) : n < 10 ^ (natDigits n).length := by
  induction n using Nat.strongRecOn with
  | _ n ih =>
    by_cases h : n < 10
    · rw [natDigits_lt h]; simpa using h
    · rw [natDigits_ge (by omega)]
      have := ih (n / 10) (by omega)
      simp only [List.length_append, List.length_cons, List.length_nil, Nat.zero_add]
      rw [Nat.pow_succ]
      omega

theorem stripZ_snoc (xs : List UInt8) (c : UInt8) (hc : (c == 48) = false) :
    stripZ (xs ++ [c]) = xs ++ [c] := by
  induction xs with
  | nil => simp [stripZ, hc]
  | cons x xs ih => simp [stripZ, ih]

/-- digits of a number that does not end in `0`: nothing is stripped, from any position on -/
theorem stripZ_drop_natDigits (m k : Nat) (hm : m % 10 ≠ 0) (hk : k < (natDigits m).length)
    (pre : List UInt8) :
    stripZ (pre ++ (natDigits m).drop k) = pre ++ (natDigits m).drop k := by
  obtain ⟨init, h⟩ := natDigits_snoc m
  have hl : k ≤ init.length := by
    have := congrArg List.length h
    simp at this; omega
  have hc : (UInt8.ofNat (48 + m % 10) == 48) = false := by
    rw [(ofNat_digit (m % 10) (Nat.mod_lt _ (by decide))).2.2]
    simpa using hm
  rw [h, List.drop_append_of_le_length hl, ← List.append_assoc]
  exact stripZ_snoc _ _ hc

theorem allDigits_replicate (k : Nat) : AllDigits (List.replicate k 48) := by
  intro c hc
  rw [(List.mem_replicate.mp hc).2]; decide

theorem AllDigits.append {a b : List UInt8} (ha : AllDigits a) (hb : AllDigits b) :
    AllDigits (a ++ b) := by
  intro c hc
  rcases List.mem_append.mp hc with h | h
  · exact ha c h
  · exact hb c h

theorem AllDigits.take {a : List UInt8} (ha : AllDigits a) (k : Nat) : AllDigits (a.take k) :=
  fun c hc => ha c (List.mem_of_mem_take hc)

theorem AllDigits.drop {a : List UInt8} (ha : AllDigits a) (k : Nat) : AllDigits (a.drop k) :=
  fun c hc => ha c (List.mem_of_mem_drop hc)

/-! ## 14. The layouts of `ryu::Buffer::format` -/

/-- what the scan theorem needs to know about a literal -/
structure LitFacts (L : DecLit) (S : Nat) (E : Int) : Prop where
  wf : L.WF
  sig : L.sig = S
  exp : L.exp10 = E
  small : L.Small

/-- the exponent part `e<x>` as ryu writes it: `-` for a negative exponent, no `+`, no padding -/
def expPart (x : Int) : ExpPart := ⟨101, if x < 0 then [45] else [], natDigits x.natAbs⟩

theorem expPart_text (x : Int) : (expPart x).text = 101 :: intDigits x := by
  unfold expPart ExpPart.text intDigits
  by_cases h : x < 0
  · simp only [h, if_true]; rfl
  · have : x.natAbs = x.toNat := by omega
    simp [h, this]

theorem expPart_wf (x : Int) : (expPart x).WF := by
  refine ⟨Or.inl rfl, ?_, natDigits_ne_nil _, natDigits_allDigits _⟩
  unfold expPart
  by_cases h : x < 0 <;> simp [h]

theorem expPart_val (x : Int) : (expPart x).val = x ∧ (expPart x).abs = x.natAbs := by
  have habs : (expPart x).abs = x.natAbs := by
    unfold ExpPart.abs expPart
    simp only [dv_natDigits]
  refine ⟨?_, habs⟩
  unfold ExpPart.val
  rw [habs]
  unfold expPart expSignPos
  by_cases h : x < 0
  · simp only [h, if_true]
    have : (([45] : List UInt8) != [45]) = false := by decide
    simp only [this, Bool.false_eq_true, if_false]; omega
  · simp only [h, if_false]
    have : (([] : List UInt8) != [45]) = true := by decide
    simp only [this, if_true]; omega

/-- `d…d0…0.0` -/
theorem lit_intDot0 (m k : Nat) :
    LitFacts ⟨natDigits m ++ List.replicate k 48, some [48], none⟩ (m * 10 ^ k) 0 := by
  refine ⟨⟨?_, ?_, ?_, ?_, Or.inl rfl⟩, ?_, ?_, ?_⟩
  · simp [natDigits_ne_nil]
  · exact (natDigits_allDigits m).append (allDigits_replicate k)
  · intro f hf
    simp only [Option.some.injEq] at hf
    subst hf
    exact ⟨by simp, fun c hc => by simp at hc; subst hc; decide⟩
  · intro e he; cases he
  · have : stripZ [48] = [] := by decide
    simp only [DecLit.sig, DecLit.kept, this, List.append_nil]
    rw [dv_append, dv_natDigits, dv_trailing_zeros]
  · have : stripZ [48] = [] := by decide
    simp [DecLit.exp10, DecLit.kept, DecLit.expVal, exVal, this]
  · have : stripZ [48] = [] := by decide
    simp [DecLit.Small, DecLit.kept, DecLit.expAbs, exAbs, this]

/-- `d…d.d…d` (with `k = 1` and an exponent: `d.d…de±x`) -/
theorem lit_split (m k : Nat) (ex : Option ExpPart) (hm : m % 10 ≠ 0) (hk0 : 0 < k)
    (hk : k < (natDigits m).length) (hex : ∀ e, ex = some e → e.WF)
    (hsm : (natDigits m).length + exAbs ex ≤ i32Max) :
    LitFacts ⟨(natDigits m).take k, some ((natDigits m).drop k), ex⟩ m
      (exVal ex - (((natDigits m).length - k : Nat) : Int)) := by
  have hs := stripZ_drop_natDigits m k hm hk []
  simp only [List.nil_append] at hs
  refine ⟨⟨?_, ?_, ?_, hex, Or.inl rfl⟩, ?_, ?_, ?_⟩
  · intro h
    have := congrArg List.length h
    rw [List.length_take, List.length_nil] at this; omega
  · exact (natDigits_allDigits m).take k
  · intro f hf
    simp only [Option.some.injEq] at hf
    subst hf
    refine ⟨?_, (natDigits_allDigits m).drop k⟩
    intro h
    have := congrArg List.length h
    rw [List.length_drop, List.length_nil] at this; omega
  · simp only [DecLit.sig, DecLit.kept, hs, List.take_append_drop, dv_natDigits]
  · simp only [DecLit.exp10, DecLit.kept, hs, DecLit.expVal, List.length_drop]
  · simp only [DecLit.Small, DecLit.kept, hs, DecLit.expAbs, List.length_drop]
    omega

/-- `0.0…0d…d` -/
theorem lit_small (m j : Nat) (hm : m % 10 ≠ 0) (hj : j + (natDigits m).length ≤ i32Max) :
    LitFacts ⟨[48], some (List.replicate j 48 ++ natDigits m), none⟩ m
      (-((j + (natDigits m).length : Nat) : Int)) := by
  have hs := stripZ_drop_natDigits m 0 hm
    (by have := natDigits_ne_nil m; cases h : natDigits m <;> simp_all) (List.replicate j 48)
  simp only [List.drop_zero] at hs
  refine ⟨⟨by simp, fun c hc => by simp at hc; subst hc; decide, ?_, ?_, Or.inl rfl⟩, ?_, ?_, ?_⟩
  · intro f hf
    simp only [Option.some.injEq] at hf
    subst hf
    exact ⟨by simp [natDigits_ne_nil], (allDigits_replicate j).append (natDigits_allDigits m)⟩
  · intro e he; cases he
  · simp only [DecLit.sig, DecLit.kept, hs, List.cons_append, List.nil_append, dv_cons]
    rw [dv_append]
    have : dv (0 * 10 + ((48 : UInt8).toNat - 48)) (List.replicate j 48) = 0 := dv_replicate_zero j
    rw [this, dv_natDigits]
  · simp [DecLit.exp10, DecLit.kept, hs, DecLit.expVal, exVal]
  · simp only [DecLit.Small, DecLit.kept, hs, DecLit.expAbs, exAbs, List.length_append,
      List.length_replicate]
    omega

/-- `de±x` -/
theorem lit_sci1 (m : Nat) (x : Int) (hx : x.natAbs ≤ i32Max) :
    LitFacts ⟨natDigits m, none, some (expPart x)⟩ m x := by
  refine ⟨⟨natDigits_ne_nil m, natDigits_allDigits m, ?_, ?_, Or.inr rfl⟩, ?_, ?_, ?_⟩
  · intro f hf; cases hf
  · intro e he
    simp only [Option.some.injEq] at he
    subst he
    exact expPart_wf x
  · simp [DecLit.sig, DecLit.kept, dv_natDigits]
  · simp [DecLit.exp10, DecLit.kept, DecLit.expVal, exVal, (expPart_val x).1]
  · simp only [DecLit.Small, DecLit.kept, DecLit.expAbs, exAbs, (expPart_val x).2, List.length_nil]
    omega

/-- ryu's five ways to lay out the decimal `m * 10^e` (`len` digits in `m`, `kk = len + e`):
    `d…d0…0.0`, `d…d.d…d`, `0.0…0d…d`, `d.d…de±x`, `de±x`. -/
inductive Layout where
  | intDot0 | mid | small | sci | sci1
  deriving DecidableEq, Repr

/-- A decimal as ryu prints it: sign, digits `m` (printed as `natDigits m`), exponent, layout. -/
structure RyuDec where
  neg : Bool
  m : Nat
  e : Int
  layout : Layout

namespace RyuDec

def len (d : RyuDec) : Nat := (natDigits d.m).length
def kk (d : RyuDec) : Int := (d.len : Int) + d.e

/-- the printed text (without the sign) as a literal -/
def lit (d : RyuDec) : DecLit :=
  match d.layout with
  | .intDot0 => ⟨natDigits d.m ++ List.replicate d.e.toNat 48, some [48], none⟩
  | .mid => ⟨(natDigits d.m).take d.kk.toNat, some ((natDigits d.m).drop d.kk.toNat), none⟩
  | .small => ⟨[48], some (List.replicate (-d.kk).toNat 48 ++ natDigits d.m), none⟩
  | .sci => ⟨(natDigits d.m).take 1, some ((natDigits d.m).drop 1), some (expPart (d.kk - 1))⟩
  | .sci1 => ⟨natDigits d.m, none, some (expPart (d.kk - 1))⟩

def text (d : RyuDec) : List UInt8 := (if d.neg then [45] else []) ++ d.lit.text

/-- 1–17 digits, no trailing zero where a fraction is printed, and the side conditions under which
    ryu picks each layout (only what the proof needs of them for the two scientific ones). -/
def WF (d : RyuDec) : Prop :=
  d.m < 10 ^ 17 ∧ d.e.natAbs < 10 ^ 8 ∧
  match d.layout with
  | .intDot0 => 0 ≤ d.e ∧ d.kk ≤ 16
  | .mid => d.e < 0 ∧ 0 < d.kk ∧ d.kk ≤ 16 ∧ d.m % 10 ≠ 0
  | .small => -5 < d.kk ∧ d.kk ≤ 0 ∧ d.m % 10 ≠ 0
  | .sci => 2 ≤ d.len ∧ d.m % 10 ≠ 0
  | .sci1 => d.len = 1

/-- the significand the scanner hands to `f64_from_parts` -/
def S (d : RyuDec) : Nat :=
  match d.layout with
  | .intDot0 => d.m * 10 ^ d.e.toNat
  | _ => d.m

/-- the exponent the scanner hands to `f64_from_parts` -/
def E (d : RyuDec) : Int :=
  match d.layout with
  | .intDot0 => 0
  | _ => d.e

theorem litFacts (d : RyuDec) (h : d.WF) : LitFacts d.lit d.S d.E := by
  obtain ⟨neg, m, e, layout⟩ := d
  obtain ⟨hm17, he8, hl⟩ := h
  simp only [] at hm17 he8
  have hlen : (natDigits m).length ≤ 17 := natDigits_len_le 16 m hm17
  have h8 : (10 : Nat) ^ 8 = 100000000 := by decide
  cases layout with
  | intDot0 => exact lit_intDot0 m e.toNat
  | mid =>
    obtain ⟨h1, h2, _, h4⟩ := hl
    simp only [kk, len] at h1 h2
    have := lit_split m ((natDigits m).length + e).toNat none h4 (by omega) (by omega)
      (fun e he => by cases he) (by simp only [exAbs, i32Max]; omega)
    simp only [exVal, Int.zero_sub] at this
    have he : -((((natDigits m).length - (((natDigits m).length : Int) + e).toNat : Nat)) : Int) = e := by
      omega
    rw [he] at this
    exact this
  | small =>
    obtain ⟨h1, h2, h3⟩ := hl
    simp only [kk, len] at h1 h2
    have := lit_small m (-(((natDigits m).length : Int) + e)).toNat h3
      (by simp only [i32Max]; omega)
    have he : -(((-(((natDigits m).length : Int) + e)).toNat + (natDigits m).length : Nat) : Int) = e := by
      omega
    rw [he] at this
    exact this
  | sci =>
    obtain ⟨h1, h2⟩ := hl
    simp only [len] at h1
    have := lit_split m 1 (some (expPart (((natDigits m).length : Int) + e - 1))) h2 (by omega)
      (by omega)
      (fun x hx => by simp only [Option.some.injEq] at hx; subst hx; exact expPart_wf _)
      (by simp only [exAbs, (expPart_val _).2, i32Max]; omega)
    simp only [exVal, (expPart_val _).1] at this
    have he : ((natDigits m).length : Int) + e - 1 - (((natDigits m).length - 1 : Nat) : Int) = e := by
      omega
    rw [he] at this
    exact this
  | sci1 =>
    simp only [len] at hl
    have := lit_sci1 m (((natDigits m).length : Int) + e - 1) (by simp only [i32Max]; omega)
    have he : ((natDigits m).length : Int) + e - 1 = e := by omega
    simp only [lit, kk, len]
    rw [he] at this ⊢
    exact this

theorem S_lt (d : RyuDec) (h : d.WF) : d.S < 10 ^ 17 := by
  obtain ⟨neg, m, e, layout⟩ := d
  obtain ⟨hm17, he8, hl⟩ := h
  cases layout with
  | intDot0 =>
    obtain ⟨h1, h2⟩ := hl
    simp only [kk, len] at h1 h2
    simp only [S]
    have h3 := lt_pow_len m
    have h4 : m * 10 ^ e.toNat < 10 ^ (natDigits m).length * 10 ^ e.toNat :=
      Nat.mul_lt_mul_of_pos_right h3 (ten_pow_pos _)
    rw [← Nat.pow_add] at h4
    have h5 : 10 ^ ((natDigits m).length + e.toNat) ≤ 10 ^ 17 :=
      Nat.pow_le_pow_right (by decide) (by omega)
    omega
  | mid => exact hm17
  | small => exact hm17
  | sci => exact hm17
  | sci1 => exact hm17

/-- the scanned pair denotes `m * 10^e` -/
theorem decRn_SE (d : RyuDec) (h : d.WF) : decRn d.S d.E = decRn d.m d.e := by
  obtain ⟨neg, m, e, layout⟩ := d
  obtain ⟨hm17, he8, hl⟩ := h
  cases layout with
  | intDot0 =>
    simp only [S, E]
    rw [decRn_shift]
    congr 1
    have := hl.1
    simp only [] at this
    omega
  | mid => rfl
  | small => rfl
  | sci => rfl
  | sci1 => rfl

end RyuDec

/-! ## 15. Builds in which `f64_from_parts` is exact -/

/-- `f64_from_parts cfg · S E` returns the correctly rounded `S * 10^E`: the fast build inside its
    exact window (with a `POW10` table whose first 23 entries are exact), or the build without
    `fast-float-parsing` whenever the result is finite. -/
def ExactBuild (cfg : Cfg) (S : Nat) (E : Int) : Prop :=
  (cfg.fast = true ∧ (∀ k, k ≤ 22 → Exact (cfg.pow10 k) (10 ^ k)) ∧ S < 2 ^ 53 ∧ -22 ≤ E ∧ E ≤ 22) ∨
  (cfg.fast = false ∧ S ≤ u64Max ∧ decRn S E < infBits)

theorem ExactBuild.sig_le {cfg : Cfg} {S : Nat} {E : Int} (h : ExactBuild cfg S E) : S ≤ u64Max := by
  rcases h with ⟨_, _, h, _⟩ | ⟨_, h, _⟩
  · exact Nat.le_of_lt (Nat.lt_of_lt_of_le h (by decide))
  · exact h

theorem ExactBuild.parts {cfg : Cfg} {S : Nat} {E : Int} (h : ExactBuild cfg S E) (pos : Bool)
    (u : St) : f64FromParts cfg pos S E u = .ok (signed pos (decRn S E)) u := by
  rcases h with ⟨hfast, hp, hS, hlo, hhi⟩ | ⟨hfast, hS, hfin⟩
  · exact f64FromParts_fast cfg pos u hfast hp hS hlo hhi
  · rw [f64FromParts_slow cfg pos S E u hfast, rnDec_eq_all S E hS, isInf_false_of_lt hfin]
    rfl

/-- applying the sign to the magnitude gives the bits back -/
theorem signed_bits {b : Nat} (hb : b < 2 ^ 64) : signed (!isNeg b) (b % signBit) = b := by
  unfold signed isNeg F64.neg
  by_cases h : b ≥ signBit
  · simp only [h, decide_true, Bool.not_true, Bool.false_eq_true, if_false]
    unfold signBit at *
    split <;> omega
  · simp only [h, decide_false, Bool.not_false, if_true]
    unfold signBit at *
    omega

theorem isInf_mod (b : Nat) : isInf (b % signBit) = isInf b := by
  unfold isInf; rw [Nat.mod_mod]

instance (rest : List UInt8) : Decidable (ScanStop rest) := by unfold ScanStop; exact inferInstance
instance (L : DecLit) : Decidable L.Small := by unfold DecLit.Small; exact inferInstance

/-- a decidable form of `DecLit.WF` -/
def DecLit.check (L : DecLit) : Bool :=
  !L.ip.isEmpty && L.ip.all isDigit &&
  (match L.fp with | none => true | some f => !f.isEmpty && f.all isDigit) &&
  (match L.ex with
   | none => true
   | some e => (e.mark == 101 || e.mark == 69) && (e.sign == [] || e.sign == [43] || e.sign == [45]) &&
       !e.digits.isEmpty && e.digits.all isDigit) &&
  (L.fp.isSome || L.ex.isSome)

theorem DecLit.wf_of_check (L : DecLit) (h : L.check = true) : L.WF := by
  obtain ⟨ip, fp, ex⟩ := L
  simp only [DecLit.check, Bool.and_eq_true, Bool.or_eq_true, Bool.not_eq_true',
    List.isEmpty_eq_false_iff, List.all_eq_true] at h
  obtain ⟨⟨⟨⟨h1, h2⟩, h3⟩, h4⟩, h5⟩ := h
  refine ⟨h1, h2, ?_, ?_, h5⟩
  · intro f hf
    simp only [] at hf
    subst hf
    simp only [Bool.and_eq_true, Bool.not_eq_true', List.isEmpty_eq_false_iff, List.all_eq_true] at h3
    exact h3
  · intro e he
    simp only [] at he
    subst he
    simp only [Bool.and_eq_true, Bool.or_eq_true, beq_iff_eq, Bool.not_eq_true',
      List.isEmpty_eq_false_iff, List.all_eq_true] at h4
    obtain ⟨⟨⟨m, sg⟩, ne⟩, dg⟩ := h4
    exact ⟨m, by rcases sg with (sg | sg) | sg <;> simp [sg], ne, dg⟩

/-! ## 16. Literals that overflow `u64`: the truncating scan -/

theorem takeWhile_digits (ds rest : List UInt8) (hd : AllDigits ds) (hs : StopDigit rest) :
    ((ds ++ rest).takeWhile isDigit).length = ds.length := by
  induction ds with
  | nil =>
    cases rest with
    | nil => rfl
    | cons c tl =>
      have : isDigit c = false := hs
      simp [this]
  | cons c cs ih =>
    simp [hd.head, ih hd.tail]

theorem skipDigits_ok (t : St) (ds rest : List UInt8) (hrest : t.rd.rest = ds ++ rest)
    (hd : AllDigits ds) (hs : StopDigit rest) (hf : rest = [] → t.rd.faulty = false) :
    skipDigits t = .ok () (adv t ds.length (endPeek t rest)) := by
  unfold skipDigits
  simp only [bind_apply, getRest_eq, hrest, takeWhile_digits ds rest hd hs, consumeN_eq]
  rw [peek_at _ rest (by simp [hrest]) (by simpa using hf)]
  simp only [adv_adv, adv_peeked, Bool.false_or, endPeek_adv, Nat.add_zero, pure_apply]

/-- The fraction loop including its overflow exit: once `shiftIn` raises the flag the remaining
    digits are skipped. -/
def fracScan : List UInt8 → Nat → Int → Nat → Nat × Int
  | [], sig, exp, _ => (sig, exp)
  | c :: cs, sig, exp, z =>
    if c == 48 then fracScan cs sig exp (z + 1)
    else
      match shiftIn sig exp z (c.toNat - 48) with
      | (s', e', true) => (s', e')
      | (s', e', false) => fracScan cs s' e' 0

theorem decimalLoop_total (rest : List UInt8) (hstop : StopDigit rest) :
    ∀ (ds : List UInt8) (f sig : Nat) (exp : Int) (z : Nat) (any : Bool) (t : St),
      AllDigits ds → t.rd.rest = ds ++ rest → t.rd.peeked = false →
      (rest = [] → t.rd.faulty = false) → ds.length + 1 ≤ f →
      decimalLoop f sig exp z any t =
        .ok ((fracScan ds sig exp z).1, (fracScan ds sig exp z).2, any || !ds.isEmpty)
          (adv t ds.length (endPeek t rest)) := by
  intro ds
  induction ds with
  | nil =>
    intro f sig exp z any t _ hrest hpk hf hfuel
    obtain ⟨f, rfl⟩ : ∃ f', f = f' + 1 := ⟨f - 1, by omega⟩
    rw [decimalLoop]
    simp only [bind_apply, peekOrNull_at t rest (by simpa using hrest) hf]
    unfold StopDigit at hstop
    simp [hstop, hpk, fracScan]
  | cons c cs ih =>
    intro f sig exp z any t hd hrest hpk hf hfuel
    obtain ⟨f, rfl⟩ : ∃ f', f = f' + 1 := ⟨f - 1, by omega⟩
    simp only [List.length_cons] at hfuel
    simp only [List.cons_append] at hrest
    have hr0 : (adv t 0 (t.rd.peeked || t.rd.mode == .io)).rd.rest = c :: (cs ++ rest) := by
      simp [hrest]
    have hr1 : (adv t 1 false).rd.rest = cs ++ rest := by simp [hrest]
    rw [decimalLoop]
    simp only [bind_apply, pk_cons t c _ hrest, hd.head, if_true, dc_cons _ c _ hr0, adv_adv]
    rw [fracScan]
    by_cases hc : (c == 48) = true
    · simp only [hc, if_true]
      rw [ih f sig exp (z + 1) true (adv t 1 false) hd.tail hr1 (by simp) (by simpa using hf)
        (by omega)]
      simp only [adv_adv, endPeek_adv, Bool.true_or, List.isEmpty_cons, Bool.not_false, Bool.or_true,
        List.length_cons]
      rw [Nat.add_comm 1 cs.length]
    · simp only [hc, if_false, Bool.false_eq_true]
      cases hsh : shiftIn sig exp z (c.toNat - 48) with
      | mk s' r =>
        cases r with
        | mk e' b =>
          cases b with
          | true =>
            simp only [bind_apply, skipDigits_ok (adv t 1 false) cs rest hr1 hd.tail hstop
              (by simpa using hf), pure_apply, adv_adv, endPeek_adv, List.isEmpty_cons,
              Bool.not_false, Bool.or_true, List.length_cons]
            rw [Nat.add_comm 1 cs.length]
          | false =>
            simp only []
            rw [ih f _ _ 0 true (adv t 1 false) hd.tail hr1 (by simp) (by simpa using hf) (by omega)]
            simp only [adv_adv, endPeek_adv, Bool.true_or, List.isEmpty_cons, Bool.not_false,
              Bool.or_true, List.length_cons]
            rw [Nat.add_comm 1 cs.length]

/-- without overflow the truncating scan is the exact one -/
theorem fracScan_eq_model : ∀ (ds : List UInt8) (sig : Nat) (exp : Int) (z : Nat),
    AllDigits ds → (fracModel ds sig exp z).1 ≤ u64Max → fracScan ds sig exp z = fracModel ds sig exp z := by
  intro ds
  induction ds with
  | nil => intro sig exp z _ _; rfl
  | cons c cs ih =>
    intro sig exp z hd hle
    rw [fracModel] at hle ⊢
    rw [fracScan]
    by_cases hc : (c == 48) = true
    · simp only [hc, if_true] at hle ⊢
      exact ih _ _ _ hd.tail hle
    · simp only [hc, if_false, Bool.false_eq_true] at hle ⊢
      rw [shiftIn_ok z sig exp _ (isDigit_val c hd.head).1 (Nat.le_trans (fracModel_ge cs _ _ _) hle)]
      exact ih _ _ _ hd.tail hle

theorem shiftIn_bounds : ∀ (z sig : Nat) (exp : Int) (d : Nat), d < 10 → sig ≤ u64Max →
    (shiftIn sig exp z d).1 ≤ u64Max ∧ exp - ((z : Int) + 1) ≤ (shiftIn sig exp z d).2.1 ∧
    (shiftIn sig exp z d).2.1 ≤ exp := by
  intro z
  induction z with
  | zero =>
    intro sig exp d hd hs
    rw [shiftIn]
    cases hov : overflow sig 10 d u64Max with
    | true => simp only [if_true]; refine ⟨hs, by omega, by omega⟩
    | false =>
      simp only [Bool.false_eq_true, if_false]
      have := (overflow_false_iff (a := sig) (c := u64Max) (by decide) hd).mp hov
      exact ⟨this, by omega, by omega⟩
  | succ z ih =>
    intro sig exp d hd hs
    rw [shiftIn]
    cases hov : overflow sig 10 0 u64Max with
    | true => simp only [if_true]; exact ⟨hs, by omega, by omega⟩
    | false =>
      simp only [Bool.false_eq_true, if_false]
      have h10 := (overflow_false_iff (a := sig) (b := 0) (c := u64Max) (by decide) (by decide)).mp hov
      obtain ⟨a, b, c⟩ := ih (sig * 10) (exp - 1) d hd (by omega)
      exact ⟨a, by omega, by omega⟩

theorem fracScan_bounds : ∀ (ds : List UInt8) (sig : Nat) (exp : Int) (z : Nat), AllDigits ds →
    sig ≤ u64Max →
    (fracScan ds sig exp z).1 ≤ u64Max ∧
    exp - ((ds.length + z : Nat) : Int) ≤ (fracScan ds sig exp z).2 ∧ (fracScan ds sig exp z).2 ≤ exp := by
  intro ds
  induction ds with
  | nil => intro sig exp z _ hs; exact ⟨hs, by simp [fracScan]; omega, by simp [fracScan]⟩
  | cons c cs ih =>
    intro sig exp z hdg hs
    rw [fracScan]
    by_cases hc : (c == 48) = true
    · simp only [hc, if_true]
      obtain ⟨a, b, c'⟩ := ih sig exp (z + 1) hdg.tail hs
      refine ⟨a, ?_, c'⟩
      simp only [List.length_cons]; omega
    · simp only [hc, if_false, Bool.false_eq_true]
      obtain ⟨a, b, c'⟩ := shiftIn_bounds z sig exp (c.toNat - 48) (isDigit_val c hdg.head).1 hs
      cases hsh : shiftIn sig exp z (c.toNat - 48) with
      | mk s' r =>
        cases r with
        | mk e' fl =>
          rw [hsh] at a b c'
          simp only [] at a b c'
          cases fl with
          | true =>
            simp only [List.length_cons]
            exact ⟨a, by omega, c'⟩
          | false =>
            simp only []
            obtain ⟨a2, b2, c2⟩ := ih s' e' 0 hdg.tail a
            simp only [List.length_cons]
            exact ⟨a2, by omega, by omega⟩

theorem parseDecimal_total (cfg : Cfg) (pos : Bool) (sig : Nat) (exp : Int) (fp : List UInt8)
    (ex : Option ExpPart) (rest : List UInt8) (f : Nat) (t : St)
    (hne : fp ≠ []) (hd : AllDigits fp)
    (hwf : ∀ e, ex = some e → e.WF ∧ e.abs ≤ i32Max ∧ e.digits.length ≤ f)
    (hrest : t.rd.rest = 46 :: (fp ++ (expText ex ++ rest))) (hstop : ScanStop rest)
    (hf : rest = [] → t.rd.faulty = false) (hfuel : fp.length + 1 ≤ f) :
    parseDecimal cfg f pos sig exp t =
      f64FromParts cfg pos (fracScan fp sig exp 0).1 (finExp (fracScan fp sig exp 0).2 ex)
        (adv t (1 + fp.length + (expText ex).length) (endPeek t rest)) := by
  have hf' : expText ex ++ rest = [] → (adv t 1 false).rd.faulty = false := by
    intro h
    simp only [List.append_eq_nil_iff] at h
    simpa using hf h.2
  have hloop := decimalLoop_total (expText ex ++ rest)
    (expText_stop ex rest (fun e he => (hwf e he).1) hstop) fp f sig exp 0 false (adv t 1 false) hd
    (by simp [hrest]) (by simp) hf' hfuel
  have hany : (false || !fp.isEmpty) = true := by
    cases fp with
    | nil => exact absurd rfl hne
    | cons => rfl
  rw [hany] at hloop
  unfold parseDecimal
  simp only [bind_apply, dc_cons t _ _ hrest, hloop, Bool.not_true, Bool.false_eq_true, if_false]
  have := tailExp_ok cfg pos (fracScan fp sig exp 0).1 (fracScan fp sig exp 0).2 ex rest f
    (adv (adv t 1 false) fp.length (endPeek (adv t 1 false) (expText ex ++ rest))) hwf
    (by simp [hrest, Nat.add_comm 1 fp.length]) (by intro h; subst h; simp [expText]) hstop
    (by simpa using hf)
  simp only [bind_apply] at this
  rw [this]
  simp only [adv_adv, endPeek_adv]

theorem finExp_gen (se : Int) (ex : Option ExpPart) (h : se.natAbs + exAbs ex ≤ i32Max) :
    finExp se ex = se + exVal ex := by
  cases ex with
  | none => simp [finExp, exVal]
  | some e =>
    simp only [finExp, expFin, ExpPart.val, exVal, exAbs] at h ⊢
    unfold i32Max at h ⊢
    cases expSignPos e.sign
    · simp only [Bool.false_eq_true, if_false]; omega
    · simp only [if_true]; omega

/-- What the scanners hand to `f64_from_parts` once the integer part has left them with the
    significand `sig` and the exponent `se` (the number of integer digits dropped). -/
def scanTail (fp : Option (List UInt8)) (ex : Option ExpPart) (sig : Nat) (se : Int) : Nat × Int :=
  match fp with
  | none => (sig, finExp se ex)
  | some f => ((fracScan f sig se 0).1, finExp (fracScan f sig se 0).2 ex)

theorem digitVal_nondigit {c : UInt8} (h : isDigit c = false) : digitVal 10 c = none := by
  apply digitVal10_none
  simpa [isDigit] using h

/-- the arm of `parse_long_integer` that ends the integer digits -/
theorem longInt_tail (cfg : Cfg) (pos : Bool) (sig k : Nat) (fp : Option (List UInt8))
    (ex : Option ExpPart) (rest : List UInt8) (f : Nat) (u : St)
    (hfp : ∀ g, fp = some g → g ≠ [] ∧ AllDigits g ∧ g.length ≤ f)
    (hex : ∀ e, ex = some e → e.WF ∧ e.abs ≤ i32Max ∧ e.digits.length ≤ f + 1)
    (hrest : u.rd.rest = fracText fp ++ (expText ex ++ rest)) (hpk : u.rd.peeked = false)
    (hstop : ScanStop rest)
    (hdot : fp = none → ex = none → (rest.head?.getD 0 == 46) = false)
    (hf : rest = [] → u.rd.faulty = false) :
    parseLongInteger cfg 10 pos sig (f + 1) k u =
      f64FromParts cfg pos (scanTail fp ex sig k).1 (scanTail fp ex sig k).2
        (adv u ((fracText fp).length + (expText ex).length) (endPeek u rest)) := by
  have e10 : ((10 : Nat) != 10) = false := by decide
  rw [parseLongInteger]
  cases fp with
  | some g =>
    obtain ⟨hgne, hgd, hgl⟩ := hfp g rfl
    simp only [fracText, List.cons_append] at hrest
    have hr0 : (adv u 0 (u.rd.peeked || u.rd.mode == .io)).rd.rest = 46 :: (g ++ (expText ex ++ rest)) := by
      simp [hrest]
    have hdv : digitVal 10 46 = none := by decide
    simp only [bind_apply, pk_cons u _ _ hrest, hdv, beq_self_eq_true, if_true, e10,
      Bool.false_eq_true, if_false]
    rw [parseDecimal_total cfg pos sig k g ex rest (f + 1) _ hgne hgd hex hr0 hstop (by simpa using hf)
      (by omega)]
    simp only [adv_adv, endPeek_adv, scanTail, fracText, List.length_cons]
    adv_arith
  | none =>
    cases ex with
    | some e =>
      obtain ⟨hew, hle, hfu⟩ := hex e rfl
      obtain ⟨hm, hs, hne, hd⟩ := hew
      obtain ⟨m1, -, m3, m4⟩ := mark_facts e.mark hm
      simp only [fracText, List.nil_append, expText, ExpPart.text, List.cons_append,
        List.append_assoc] at hrest
      have hr0 : (adv u 0 (u.rd.peeked || u.rd.mode == .io)).rd.rest =
          e.mark :: (e.sign ++ (e.digits ++ rest)) := by simp [hrest]
      simp only [bind_apply, pk_cons u _ _ hrest, m3, m4, m1, if_true, e10, Bool.false_eq_true,
        if_false]
      rw [parseExponent_ok cfg pos sig k e.mark e.sign e.digits rest (f + 1) _ hs hne hd hr0 hstop.1
        (by simpa using hf) hle hfu]
      simp only [adv_adv, endPeek_adv, scanTail, finExp, ExpPart.abs, fracText, expText,
        ExpPart.text, List.length_nil, List.length_cons, List.length_append]
      adv_arith
    | none =>
      simp only [fracText, expText, List.nil_append] at hrest
      have hnd := digitVal_nondigit hstop.1
      simp only [bind_apply, peekOrNull_at u rest hrest hf, hnd, hdot rfl rfl, hstop.2, e10,
        Bool.false_eq_true, if_false, hpk, Bool.false_or, scanTail, finExp, fracText, expText,
        List.length_nil, Nat.add_zero]

/-- `parse_long_integer` over the remaining digits of the integer part -/
theorem longInt_run (cfg : Cfg) (pos : Bool) (sig : Nat) (fp : Option (List UInt8))
    (ex : Option ExpPart) (rest : List UInt8) (f : Nat)
    (hfp : ∀ g, fp = some g → g ≠ [] ∧ AllDigits g ∧ g.length ≤ f)
    (hex : ∀ e, ex = some e → e.WF ∧ e.abs ≤ i32Max ∧ e.digits.length ≤ f + 1)
    (hstop : ScanStop rest)
    (hdot : fp = none → ex = none → (rest.head?.getD 0 == 46) = false) :
    ∀ (ds : List UInt8) (k : Nat) (t : St), AllDigits ds →
      t.rd.rest = ds ++ (fracText fp ++ (expText ex ++ rest)) → t.rd.peeked = false →
      (rest = [] → t.rd.faulty = false) → k + ds.length ≤ i32Max →
      parseLongInteger cfg 10 pos sig (f + ds.length + 1) k t =
        f64FromParts cfg pos (scanTail fp ex sig ((k + ds.length : Nat) : Int)).1
          (scanTail fp ex sig ((k + ds.length : Nat) : Int)).2
          (adv t (ds.length + ((fracText fp).length + (expText ex).length)) (endPeek t rest)) := by
  intro ds
  induction ds with
  | nil =>
    intro k t _ hrest hpk hf _
    simp only [List.nil_append] at hrest
    rw [show f + ([] : List UInt8).length + 1 = f + 1 from rfl,
      longInt_tail cfg pos sig k fp ex rest f t hfp hex hrest hpk hstop hdot hf]
    simp only [List.length_nil, Nat.add_zero, Nat.zero_add]
  | cons c cs ih =>
    intro k t hd hrest hpk hf hk
    simp only [List.cons_append] at hrest
    simp only [List.length_cons] at hk
    obtain ⟨hlt, hdv, -⟩ := isDigit_val c hd.head
    have hr0 : (adv t 0 (t.rd.peeked || t.rd.mode == .io)).rd.rest =
        c :: (cs ++ (fracText fp ++ (expText ex ++ rest))) := by simp [hrest]
    have e1 : f + (c :: cs).length + 1 = (f + cs.length + 1) + 1 := by
      simp only [List.length_cons]; omega
    have hk' : ¬ (k + 1 > i32Max) := by omega
    rw [e1, parseLongInteger]
    simp only [bind_apply, pk_cons t c _ hrest, hdv, Nat.not_le.mpr hlt, ge_iff_le, if_false,
      dc_cons _ c _ hr0, adv_adv, hk']
    rw [ih (k + 1) (adv t 1 false) hd.tail (by simp [hrest]) (by simp) (by simpa using hf) (by omega)]
    simp only [adv_adv, endPeek_adv, List.length_cons]
    have e2 : k + 1 + cs.length = k + (cs.length + 1) := by omega
    rw [e2]
    adv_arith

/-- the digit loop of `parse_num_literal` up to the digit that overflows `u64` -/
theorem numLoop_ovf (cfg : Cfg) (pos : Bool) (d : UInt8) (tl : List UInt8) (hd : isDigit d = true) :
    ∀ (pre : List UInt8) (acc f : Nat) (t : St),
      AllDigits pre → t.rd.rest = pre ++ d :: tl → t.rd.peeked = false → dv acc pre ≤ u64Max →
      u64Max < dv acc pre * 10 + (d.toNat - 48) →
      numLoop cfg 10 pos (f + pre.length + 1) acc t =
        (parseLongInteger cfg 10 pos (dv acc pre) (f + 1) 1 >>= fun g => pure (Number.ofF64 g))
          (adv t (pre.length + 1) false) := by
  intro pre
  induction pre with
  | nil =>
    intro acc f t _ hrest hpk _ hov
    simp only [List.nil_append] at hrest
    obtain ⟨hlt, hdv, -⟩ := isDigit_val d hd
    have hr0 : (adv t 0 (t.rd.peeked || t.rd.mode == .io)).rd.rest = d :: tl := by simp [hrest]
    have hovf : overflow acc 10 (d.toNat - 48) u64Max = true := by
      rw [overflow_spec (by decide) hlt]; simpa using hov
    rw [show f + ([] : List UInt8).length + 1 = f + 1 from rfl, numLoop]
    simp only [bind_apply, pk_cons t d _ hrest, hdv, Nat.not_le.mpr hlt, ge_iff_le, if_false,
      dc_cons _ d _ hr0, adv_adv, hovf, if_true, dv_nil, List.length_nil, Nat.zero_add]
  | cons c cs ih =>
    intro acc f t hdg hrest hpk hle hov
    simp only [List.cons_append] at hrest
    obtain ⟨hlt, hdv, -⟩ := isDigit_val c hdg.head
    have hr0 : (adv t 0 (t.rd.peeked || t.rd.mode == .io)).rd.rest = c :: (cs ++ d :: tl) := by
      simp [hrest]
    rw [dv_cons] at hle hov
    have hovf : overflow acc 10 (c.toNat - 48) u64Max = false := by
      rw [overflow_false_iff (by decide) hlt]
      exact Nat.le_trans (dv_ge cs _) hle
    have e1 : f + (c :: cs).length + 1 = (f + cs.length + 1) + 1 := by
      simp only [List.length_cons]; omega
    rw [e1, numLoop]
    simp only [bind_apply, pk_cons t c _ hrest, hdv, dc_cons _ c _ hr0, adv_adv,
      Nat.not_le.mpr hlt, ge_iff_le, if_false, hovf, Bool.false_eq_true]
    have := ih _ f (adv t 1 false) hdg.tail (by simp [hrest]) (by simp) hle hov
    simp only [bind_apply] at this
    rw [this]
    simp only [adv_adv, dv_cons, List.length_cons]
    rw [Nat.add_comm 1 (cs.length + 1)]

/-- every digit string either fits `u64` or splits at the first digit that overflows -/
theorem int_split : ∀ (ds : List UInt8) (acc : Nat), acc ≤ u64Max →
    dv acc ds ≤ u64Max ∨
    ∃ pre d more, ds = pre ++ d :: more ∧ dv acc pre ≤ u64Max ∧
      u64Max < dv acc pre * 10 + (d.toNat - 48) := by
  intro ds
  induction ds with
  | nil => intro acc h; exact Or.inl (by simpa using h)
  | cons c cs ih =>
    intro acc hacc
    by_cases h : u64Max < acc * 10 + (c.toNat - 48)
    · exact Or.inr ⟨[], c, cs, rfl, by simpa using hacc, by simpa using h⟩
    · rcases ih (acc * 10 + (c.toNat - 48)) (by omega) with h1 | ⟨pre, d, more, h1, h2, h3⟩
      · exact Or.inl (by simpa using h1)
      · exact Or.inr ⟨c :: pre, d, more, by simp [h1], by simpa using h2, by simpa using h3⟩

theorem drop_cons_pre (c : UInt8) (pre : List UInt8) (d : UInt8) (X : List UInt8) :
    (c :: (pre ++ d :: X)).drop (1 + (pre.length + 1)) = X := by
  have : c :: (pre ++ d :: X) = (c :: pre ++ [d]) ++ X := by simp
  rw [this]
  exact List.drop_left' (by simp; omega)

/-- A literal whose integer part overflows `u64` at the digit `d`: `pre` is kept, `d` and `more`
    are dropped and counted in the exponent; a fraction and an exponent may follow or not. -/
theorem scan_long (cfg : Cfg) (fuel : Nat) (pos : Bool) (c : UInt8) (pre : List UInt8) (d : UInt8)
    (more : List UInt8) (fp : Option (List UInt8)) (ex : Option ExpPart) (rest : List UInt8)
    (s : St) (hip : AllDigits ((c :: pre) ++ d :: more))
    (hfp : ∀ g, fp = some g → g ≠ [] ∧ AllDigits g) (hex : ∀ e, ex = some e → e.WF)
    (hrest : s.rd.rest = ((c :: pre) ++ d :: more) ++ (fracText fp ++ (expText ex ++ rest)))
    (hstop : ScanStop rest)
    (hdot : fp = none → ex = none → (rest.head?.getD 0 == 46) = false)
    (hf : rest = [] → s.rd.faulty = false)
    (hpre : dv 0 (c :: pre) ≤ u64Max) (hov : u64Max < dv 0 (c :: pre) * 10 + (d.toNat - 48))
    (hsmall : more.length + 1 + exAbs ex ≤ i32Max)
    (hfuel : (((c :: pre) ++ d :: more) ++ (fracText fp ++ expText ex)).length + 1 ≤ fuel) :
    parseNumLiteral cfg fuel 10 pos s =
      (f64FromParts cfg pos (scanTail fp ex (dv 0 (c :: pre)) ((1 + more.length : Nat) : Int)).1
          (scanTail fp ex (dv 0 (c :: pre)) ((1 + more.length : Nat) : Int)).2 >>=
        fun g => pure (Number.ofF64 g))
        (adv s (((c :: pre) ++ d :: more) ++ (fracText fp ++ expText ex)).length (endPeek s rest)) := by
  have hdc : isDigit c = true := hip c (by simp)
  have hdd : isDigit d = true := hip d (by simp)
  have hdpre : AllDigits pre := fun x hx => hip x (by simp [hx])
  have hdmore : AllDigits more := fun x hx => hip x (by simp [hx])
  obtain ⟨hlt, hdv, -⟩ := isDigit_val c hdc
  have hI : dv (c.toNat - 48) pre = dv 0 (c :: pre) := by simp
  simp only [List.cons_append, List.append_assoc, List.length_cons, List.length_append] at hrest hfuel
  obtain ⟨f, rfl⟩ : ∃ f, fuel = (f + more.length + 1 - 1) + pre.length + 1 :=
    ⟨fuel - pre.length - 1 - more.length, by omega⟩
  unfold parseNumLiteral
  simp only [bind_apply, nx_cons s _ _ hrest, hdv, Nat.not_le.mpr hlt, ge_iff_le, if_false]
  have h1 := numLoop_ovf cfg pos d (more ++ (fracText fp ++ (expText ex ++ rest))) hdd pre
    (c.toNat - 48) (f + more.length + 1 - 1) (adv s 1 false) hdpre (by simp [hrest]) (by simp)
    (by rw [hI]; exact hpre) (by rw [hI]; exact hov)
  simp only [bind_apply] at h1
  rw [h1, hI]
  have e1 : f + more.length + 1 - 1 + 1 = f + more.length + 1 := by omega
  rw [e1]
  have hfl : (fracText fp).length + (expText ex).length + 2 ≤ f := by omega
  rw [longInt_run cfg pos (dv 0 (c :: pre)) fp ex rest f
    (fun g hg => ⟨(hfp g hg).1, (hfp g hg).2, by subst hg; simp only [fracText, List.length_cons] at hfl; omega⟩)
    (fun e he => ⟨hex e he, by subst he; simp only [exAbs] at hsmall; omega, by
      subst he
      simp only [expText, ExpPart.text, List.length_cons, List.length_append] at hfl
      omega⟩)
    hstop hdot more 1 _ hdmore (by rw [adv_adv, adv_rest, hrest]; exact drop_cons_pre _ _ _ _)
    (by simp) (by simpa using hf) (by unfold i32Max at *; omega)]
  simp only [adv_adv, endPeek_adv, List.length_cons, List.length_append]
  adv_arith

/-- A literal whose integer part fits `u64` (a fraction or an exponent present); the fraction may
    overflow, in which case its remaining digits are skipped. -/
theorem scan_fits (cfg : Cfg) (fuel : Nat) (pos : Bool) (L : DecLit) (rest : List UInt8) (s : St)
    (hwf : L.WF) (hrest : s.rd.rest = L.text ++ rest) (hstop : ScanStop rest)
    (hf : rest = [] → s.rd.faulty = false) (hI : dv 0 L.ip ≤ u64Max)
    (hsmall : exAbs L.ex ≤ i32Max) (hfuel : L.text.length + 1 ≤ fuel) :
    parseNumLiteral cfg fuel 10 pos s =
      (f64FromParts cfg pos (scanTail L.fp L.ex (dv 0 L.ip) 0).1 (scanTail L.fp L.ex (dv 0 L.ip) 0).2 >>=
        fun g => pure (Number.ofF64 g))
        (adv s L.text.length (endPeek s rest)) := by
  obtain ⟨ip, fp, ex⟩ := L
  obtain ⟨hipne, hipd, hfp, hex, hsome⟩ := hwf
  simp only [DecLit.text] at *
  cases ip with
  | nil => exact absurd rfl hipne
  | cons c cs =>
    simp only [List.cons_append, List.append_assoc, List.length_cons, List.length_append] at hrest hfuel
    obtain ⟨f0, rfl⟩ : ∃ f0, fuel = f0 + cs.length + 1 := ⟨fuel - cs.length - 1, by omega⟩
    have e10 : ((10 : Nat) != 10) = false := by decide
    cases fp with
    | some g =>
      obtain ⟨hgne, hgd⟩ := hfp g rfl
      simp only [fracText, List.cons_append, List.length_cons] at hrest hfuel
      rw [numLiteral_run cfg pos c cs 46 _ f0 s hipd (by decide) hrest hI]
      have hr1 : (adv s (cs.length + 1) (s.rd.mode == .io)).rd.rest = 46 :: (g ++ (expText ex ++ rest)) := by
        simp [hrest]
      have hr0 : (adv (adv s (cs.length + 1) (s.rd.mode == .io)) 0
          ((adv s (cs.length + 1) (s.rd.mode == .io)).rd.peeked ||
            (adv s (cs.length + 1) (s.rd.mode == .io)).rd.mode == .io)).rd.rest =
          46 :: (g ++ (expText ex ++ rest)) := by simp [hrest]
      unfold parseNumTail
      simp only [bind_apply, pk_cons _ _ _ hr1, beq_self_eq_true, if_true, e10, Bool.false_eq_true,
        if_false]
      rw [parseDecimal_total cfg pos _ 0 g ex rest (f0 + 1) _ hgne hgd
        (fun e he => ⟨hex e he, by subst he; simpa [exAbs] using hsmall, by
          subst he
          simp only [expText, ExpPart.text, List.length_cons, List.length_append] at hfuel
          omega⟩)
        hr0 hstop (by simpa using hf) (by omega)]
      simp only [adv_adv, endPeek_adv, scanTail, List.length_cons, List.length_append, fracText]
      adv_arith
    | none =>
      cases ex with
      | none => simp at hsome
      | some e =>
        have := scan_lit_exp cfg (f0 + cs.length + 1) pos (c :: cs) e rest s
          ⟨hipne, hipd, hfp, hex, hsome⟩ (by simpa [DecLit.text] using hrest) hstop hf
          (by simpa [DecLit.sig, DecLit.kept] using hI)
          (by simpa [DecLit.Small, DecLit.kept, DecLit.expAbs] using hsmall)
          (by simpa [DecLit.text] using hfuel)
        rw [this]
        have hfs := finExp_small 0 (some e) (by simpa using hsmall)
        simp only [DecLit.sig, DecLit.kept, DecLit.exp10, DecLit.expVal, List.append_nil,
          List.length_nil, Int.natCast_zero, Int.sub_zero, scanTail, DecLit.text] at hfs ⊢
        simp only [Int.neg_zero] at hfs
        rw [hfs]

/-- the integer part: significand kept and number of digits dropped -/
def intScan : List UInt8 → Nat → Nat × Nat
  | [], acc => (acc, 0)
  | c :: cs, acc =>
    if overflow acc 10 (c.toNat - 48) u64Max then (acc, cs.length + 1)
    else intScan cs (acc * 10 + (c.toNat - 48))

theorem intScan_fits : ∀ (ds : List UInt8) (acc : Nat), AllDigits ds → dv acc ds ≤ u64Max →
    intScan ds acc = (dv acc ds, 0) := by
  intro ds
  induction ds with
  | nil => intro acc _ _; rfl
  | cons c cs ih =>
    intro acc hd hle
    rw [dv_cons] at hle ⊢
    have hov : overflow acc 10 (c.toNat - 48) u64Max = false := by
      rw [overflow_false_iff (by decide) (isDigit_val c hd.head).1]
      exact Nat.le_trans (dv_ge cs _) hle
    rw [intScan, hov]
    exact ih _ hd.tail hle

theorem intScan_split : ∀ (pre : List UInt8) (acc : Nat) (d : UInt8) (more : List UInt8),
    AllDigits (pre ++ d :: more) → dv acc pre ≤ u64Max →
    u64Max < dv acc pre * 10 + (d.toNat - 48) →
    intScan (pre ++ d :: more) acc = (dv acc pre, more.length + 1) := by
  intro pre
  induction pre with
  | nil =>
    intro acc d more hd _ hov
    have hovf : overflow acc 10 (d.toNat - 48) u64Max = true := by
      rw [overflow_spec (by decide) (isDigit_val d (hd d (by simp))).1]; simpa using hov
    simp only [List.nil_append, dv_nil]
    rw [intScan, hovf]; rfl
  | cons c cs ih =>
    intro acc d more hd hle hov
    rw [dv_cons] at hle hov ⊢
    have hovf : overflow acc 10 (c.toNat - 48) u64Max = false := by
      rw [overflow_false_iff (by decide) (isDigit_val c (hd c (by simp))).1]
      exact Nat.le_trans (dv_ge cs _) hle
    rw [List.cons_append, intScan, hovf]
    exact ih _ d more (fun x hx => hd x (by simp at hx ⊢; exact Or.inr hx)) hle hov

/-- what `parse_num_literal` hands to `f64_from_parts` for an arbitrary literal -/
def DecLit.scanT (L : DecLit) : Nat × Int :=
  scanTail L.fp L.ex (intScan L.ip 0).1 ((intScan L.ip 0).2 : Int)

theorem scanTail_le (fp : Option (List UInt8)) (ex : Option ExpPart) (sig : Nat) (se : Int)
    (hfp : ∀ g, fp = some g → AllDigits g) (h : sig ≤ u64Max) : (scanTail fp ex sig se).1 ≤ u64Max := by
  cases fp with
  | none => exact h
  | some g => exact (fracScan_bounds g sig se 0 (hfp g rfl) h).1

/-- when nothing overflows the truncating scan returns `(L.sig, L.exp10)` -/
theorem DecLit.scanT_exact (L : DecLit) (hwf : L.WF) (hS : L.sig ≤ u64Max) (hsmall : L.Small) :
    L.scanT = (L.sig, L.exp10) := by
  obtain ⟨ip, fp, ex⟩ := L
  obtain ⟨_, hipd, hfp, _, _⟩ := hwf
  simp only [DecLit.scanT, DecLit.sig, DecLit.exp10, DecLit.kept, DecLit.Small, DecLit.expVal,
    DecLit.expAbs] at *
  cases fp with
  | none =>
    simp only [List.append_nil, List.length_nil, Nat.zero_add, Int.natCast_zero, Int.sub_zero] at *
    rw [intScan_fits ip 0 hipd hS]
    have := finExp_small 0 ex (by simpa using hsmall)
    simp only [Int.natCast_zero, Int.neg_zero, Int.sub_zero] at this
    simp only [scanTail, Int.natCast_zero, this]
  | some f =>
    simp only [] at hS hsmall ⊢
    rw [dv_append] at hS ⊢
    rw [intScan_fits ip 0 hipd (Nat.le_trans (dv_ge _ _) hS)]
    have hm := fracModel_closed f (dv 0 ip) 0 0
    simp only [List.replicate_zero, List.nil_append, Int.zero_sub] at hm
    simp only [scanTail, Int.natCast_zero]
    rw [fracScan_eq_model f _ 0 0 (hfp f rfl).2 (by rw [hm]; exact hS), hm]
    simp only [finExp_small _ ex hsmall]

/-- `ryu bits` is the text of the decimal `d` (digits, exponent, sign, layout), and `d` rounds to
    `bits`: the sign of `d` is the sign bit and the double nearest to `m * 10^e` has the magnitude
    bits of `bits`.  (ryu's shortest-digits property is not needed for reading back.) -/
structure RyuSpec (ryu : Nat → List UInt8) (bits : Nat) (d : RyuDec) : Prop where
  wf : d.WF
  text_eq : ryu bits = d.text
  sign_eq : d.neg = isNeg bits
  round_eq : decRn d.m d.e = bits % signBit

instance (d : RyuDec) : Decidable d.WF := by
  obtain ⟨n, m, e, l⟩ := d
  cases l <;> (simp only [RyuDec.WF]; exact inferInstance)

theorem atomText_flt (ryu : Nat → List UInt8) (b : Nat) : atomText ryu (.number (.flt b)) = ryu b := by
  simp [atomText, Print.atomEmits, Print.flatten, Print.Emit.bytes, Print.numberText]

/-- example configuration: default dialect, fast build with the regenerated `POW10` table -/
def exCfgFast : Cfg :=
  { opts := Options.default, fast := true, isAlphabetic := fun _ => false, pow10 := pow10Tab }
/-- the same without `fast-float-parsing` -/
def exCfgSlow : Cfg :=
  { opts := Options.default, fast := false, isAlphabetic := fun _ => false, pow10 := fun _ => 0 }

/-- `12.500e-3` -/
def exLit : DecLit := ⟨asc "12", some (asc "500"), some ⟨101, asc "-", asc "3"⟩⟩

/-! ## 17. Material for the statements and examples below -/

theorem fast_boundary : 2 ^ 1024 ≤ 179769313486231591 * 10 ^ 291 ∧
    fastParts pow10Tab (291 / 308 + 2) (F64.ofNat 179769313486231591) 291 =
      some 0x7FEFFFFFFFFFFFFF := by decide +kernel

/-- a stand-in for ryu on nine doubles, covering the five layouts -/
def ryuEx (b : Nat) : List UInt8 :=
  if b = 0x3FF8000000000000 then asc "1.5"
  else if b = 0xC059000000000000 then asc "-100.0"
  else if b = 0x3F50624DD2F1A9FC then asc "0.001"
  else if b = 0x3E8091B5AEFFDB8E then asc "1.2345e-7"
  else if b = 0x4480F0CF064DD592 then asc "1e22"
  else if b = 0x437B69B4BA630F35 then asc "1.2345678901234568e17"
  else if b = 0x7FEFFFFFFFFFFFFF then asc "1.7976931348623157e308"
  else if b = 0x0000000000000001 then asc "5e-324"
  else if b = 0x8000000000000000 then asc "-0.0"
  else []

theorem exTable : ∀ k, k ≤ 22 → Exact (exCfgFast.pow10 k) (10 ^ k) :=
  fun k hk => pow10Tab_exact k (by omega)

theorem fast_1em23 : fastParts pow10Tab ((-23 : Int).natAbs / 308 + 2) (F64.ofNat 1) (-23) =
    some 0x3B282DB34012B252 ∧ decRn 1 (-23) = 0x3B282DB34012B251 := by decide +kernel

/-- a double whose ryu text is read back exactly by the configuration `cfg` -/
def FloatOK (cfg : Cfg) (ryu : Nat → List UInt8) (b : Nat) : Prop :=
  b < 2 ^ 64 ∧ ∃ d : RyuDec, RyuSpec ryu b d ∧
    ((cfg.fast = true ∧ (∀ k, k ≤ 22 → Exact (cfg.pow10 k) (10 ^ k)) ∧
        d.S < 2 ^ 53 ∧ -22 ≤ d.E ∧ d.E ≤ 22) ∨
     (cfg.fast = false ∧ isInf b = false))

theorem digit_head_facts : ∀ c : UInt8, isDigit c = true → symTermSlice c = false ∧ c ≠ 46 := by
  apply forall_u8; decide +kernel

mutual
/-- every atom leaf is a supported atom of `ListRTGlue` or a float with `FloatOK` -/
def AllSupportedF (cfg : Cfg) (ryu : Nat → List UInt8) : Value → Prop
  | .cons a d => AllSupportedF cfg ryu a ∧ AllSupportedF cfg ryu d
  | .vector xs => AllSupportedFSeq cfg ryu xs
  | .null => True
  | .nil => True
  | .bool _ => True
  | .number (.flt b) => FloatOK cfg ryu b
  | .number (.pos n) => ListRT.SupportedAtom (.number (.pos n))
  | .number (.neg i) => ListRT.SupportedAtom (.number (.neg i))
  | .char c => ListRT.SupportedAtom (.char c)
  | .string x => ListRT.SupportedAtom (.string x)
  | .symbol x => ListRT.SupportedAtom (.symbol x)
  | .keyword x => ListRT.SupportedAtom (.keyword x)
  | .bytes _ => False
def AllSupportedFSeq (cfg : Cfg) (ryu : Nat → List UInt8) : List Value → Prop
  | [] => True
  | x :: xs => AllSupportedF cfg ryu x ∧ AllSupportedFSeq cfg ryu xs
end

/-! ## Main theorems -/

/-- **C05_scan_parts.**  A decimal literal `digits [. digits] [(e|E) [+|-] digits]` (`L.WF`: at
    least one digit before and, if there is a `.`, after it; a fraction or an exponent present),
    followed by end of input (not a failing read) or a byte that is neither a digit nor `e`/`E`,
    whose significant digits — integer part followed by the fraction with its trailing zeros
    removed — fit `u64` (`L.sig ≤ u64Max`: exactly the case where no `overflow!` fires), and whose
    exponent arithmetic stays inside `i32` (`L.Small`), is consumed entirely by
    `parse_num_literal`, for every source mode, and the result is that of
    `f64_from_parts(positive, L.sig, L.exp10)` run on the state after the literal.
    `L.exp10` is the written exponent minus the number of fraction digits kept, and
    `L.sig * 10^L.exp10` is the exact value of the literal: with `L.rawSig` all written digits and
    `L.rawExp` the written exponent minus the number of all fraction digits,
    `L.sig * 10^(L.exp10 - L.rawExp) = L.rawSig`. -/
theorem C05_scan_parts (cfg : Cfg) (fuel : Nat) (pos : Bool) (L : DecLit) (rest : List UInt8)
    (s : St) (hwf : L.WF) (hrest : s.rd.rest = L.text ++ rest) (hstop : ScanStop rest)
    (hf : rest = [] → s.rd.faulty = false) (hS : L.sig ≤ u64Max) (hsmall : L.Small)
    (hfuel : L.text.length + 1 ≤ fuel) :
    parseNumLiteral cfg fuel 10 pos s =
      (f64FromParts cfg pos L.sig L.exp10 >>= fun g => pure (Number.flt g))
        (adv s L.text.length (endPeek s rest)) ∧
    L.exp10 = L.expVal - (L.kept.length : Int) ∧
    L.rawExp ≤ L.exp10 ∧ L.sig * 10 ^ (L.exp10 - L.rawExp).toNat = L.rawSig :=
  ⟨scan_lit cfg fuel pos L rest s hwf hrest hstop hf hS hsmall hfuel, rfl, L.value_eq⟩

/-- `12.500e-3)`: scanned as `125e-4`, which is `12500e-6` -/
example : exLit.sig = 125 ∧ exLit.exp10 = -4 ∧ exLit.rawSig = 12500 ∧ exLit.rawExp = -6 ∧
    exLit.text = asc "12.500e-3" := by decide
example (cfg : Cfg) := C05_scan_parts cfg 11 true exLit (asc ")") (exSt (exLit.text ++ asc ")"))
  (exLit.wf_of_check (by decide)) rfl (by decide) (fun _ => rfl) (by decide) (by decide) (by decide)

/-- **C05_shiftIn** (complement of the hypothesis `L.sig ≤ u64Max`): `shiftIn` raises its
    flag exactly when appending `z` zeros and the digit `d` would exceed `u64`. -/
theorem C05_shiftIn (z sig : Nat) (exp : Int) (d : Nat) (hd : d < 10) :
    (sig * 10 ^ (z + 1) + d ≤ u64Max →
      shiftIn sig exp z d = (sig * 10 ^ (z + 1) + d, exp - ((z : Int) + 1), false)) ∧
    (u64Max < sig * 10 ^ (z + 1) + d → (shiftIn sig exp z d).2.2 = true) :=
  ⟨shiftIn_ok z sig exp d hd, shiftIn_overflow z sig exp d hd⟩

example : shiftIn 1844674407370955161 0 0 5 = (18446744073709551615, -1, false) ∧
    (shiftIn 1844674407370955161 0 0 6).2.2 = true ∧ (shiftIn 184467440737095517 0 1 1).2.2 = true :=
  ⟨(C05_shiftIn 0 _ 0 5 (by decide)).1 (by decide), (C05_shiftIn 0 _ 0 6 (by decide)).2 (by decide),
   (C05_shiftIn 1 _ 0 1 (by decide)).2 (by decide)⟩

/-- **rnDec_eq** (as asked: `|e| ≤ 400`).  `rnDec s e` is `rn` of the rational `s * 10^e`. -/
theorem C05_rnDec_eq (s : Nat) (e : Int) (hlo : -400 ≤ e) (hhi : e ≤ 400) :
    rnDec s e = rn (s * 10 ^ e.toNat) (10 ^ (-e).toNat) :=
  rnDec_eq s e (by omega) hhi

/-- **rnDec_eq_all.**  For a `u64` significand the two shortcuts of `rnDec` (infinity above
    `e = 400`, zero below `e = -420`) agree with correct rounding as well, so `rnDec` is the
    correctly rounded `s * 10^e` for every exponent. -/
theorem C05_rnDec_eq_all (s : Nat) (e : Int) (hs : s ≤ u64Max) :
    rnDec s e = rn (s * 10 ^ e.toNat) (10 ^ (-e).toNat) :=
  rnDec_eq_all s e hs

set_option exponentiation.threshold 2048 in
example : rnDec 15 (-1) = rn 15 10 ∧ rnDec 1 401 = rn (10 ^ 401) 1 ∧ rnDec 7 (-500) = rn 7 (10 ^ 500) :=
  ⟨C05_rnDec_eq 15 (-1) (by decide) (by decide), C05_rnDec_eq_all 1 401 (by decide),
   C05_rnDec_eq_all 7 (-500) (by decide)⟩

/-- **C05_decimal_exact**, build with `fast-float-parsing`.  If the scanned significand is below
    `2^53` and the scanned exponent within `±22` (and the first 23 `POW10` entries are exact, which
    holds for the regenerated table: `Numbers.pow10Tab_exact`), the literal reads as the double
    nearest to its exact value `rawSig * 10^rawExp`, with the sign applied by `F64.neg`. -/
theorem C05_decimal_exact (cfg : Cfg) (fuel : Nat) (pos : Bool) (L : DecLit) (rest : List UInt8)
    (s : St) (hwf : L.WF) (hrest : s.rd.rest = L.text ++ rest) (hstop : ScanStop rest)
    (hf : rest = [] → s.rd.faulty = false) (hsmall : L.Small) (hfuel : L.text.length + 1 ≤ fuel)
    (hfast : cfg.fast = true) (hp : ∀ k, k ≤ 22 → Exact (cfg.pow10 k) (10 ^ k))
    (hS : L.sig < 2 ^ 53) (hlo : -22 ≤ L.exp10) (hhi : L.exp10 ≤ 22) :
    parseNumLiteral cfg fuel 10 pos s =
      .ok (Number.flt (if pos then rn (L.rawSig * 10 ^ L.rawExp.toNat) (10 ^ (-L.rawExp).toNat)
                       else F64.neg (rn (L.rawSig * 10 ^ L.rawExp.toNat) (10 ^ (-L.rawExp).toNat))))
        (adv s L.text.length (endPeek s rest)) := by
  have hb : ExactBuild cfg L.sig L.exp10 := Or.inl ⟨hfast, hp, hS, hlo, hhi⟩
  rw [scan_lit cfg fuel pos L rest s hwf hrest hstop hf hb.sig_le hsmall hfuel]
  simp only [bind_apply, hb.parts, pure_apply, Number.ofF64, L.decRn_eq]
  rfl

/-- **C05_decimal_exact**, build without `fast-float-parsing`: every literal whose significant
    digits fit `u64` and whose correctly rounded value is finite reads as that value. -/
theorem C05_decimal_exact_nofast (cfg : Cfg) (fuel : Nat) (pos : Bool) (L : DecLit)
    (rest : List UInt8) (s : St) (hwf : L.WF) (hrest : s.rd.rest = L.text ++ rest)
    (hstop : ScanStop rest) (hf : rest = [] → s.rd.faulty = false) (hsmall : L.Small)
    (hfuel : L.text.length + 1 ≤ fuel) (hfast : cfg.fast = false) (hS : L.sig ≤ u64Max)
    (hfin : rn (L.rawSig * 10 ^ L.rawExp.toNat) (10 ^ (-L.rawExp).toNat) < infBits) :
    parseNumLiteral cfg fuel 10 pos s =
      .ok (Number.flt (if pos then rn (L.rawSig * 10 ^ L.rawExp.toNat) (10 ^ (-L.rawExp).toNat)
                       else F64.neg (rn (L.rawSig * 10 ^ L.rawExp.toNat) (10 ^ (-L.rawExp).toNat))))
        (adv s L.text.length (endPeek s rest)) := by
  have hb : ExactBuild cfg L.sig L.exp10 := Or.inr ⟨hfast, hS, by rw [L.decRn_eq]; exact hfin⟩
  rw [scan_lit cfg fuel pos L rest s hwf hrest hstop hf hS hsmall hfuel]
  simp only [bind_apply, hb.parts, pure_apply, Number.ofF64, L.decRn_eq]
  rfl

/-- `12.500e-3` is read as the double nearest to 12500 / 10^6 in both builds -/
example (pos : Bool) :=
  C05_decimal_exact exCfgFast 11 pos exLit (asc ")") (exSt (exLit.text ++ asc ")"))
    (exLit.wf_of_check (by decide)) rfl (by decide) (fun _ => rfl) (by decide) (by decide) rfl
    (fun k hk => pow10Tab_exact k (by omega)) (by decide) (by decide) (by decide)
example (pos : Bool) :=
  C05_decimal_exact_nofast exCfgSlow 11 pos exLit (asc ")") (exSt (exLit.text ++ asc ")"))
    (exLit.wf_of_check (by decide)) rfl (by decide) (fun _ => rfl) (by decide) (by decide) rfl
    (by decide) (by decide +kernel)

/-- **C05_decimal_token**: the same at the level of `parse_token`'s number path
    (`parse_num_token` = literal + `expect_number_end`), in either build (`ExactBuild`), when the
    literal is followed by a delimiter or the end of the input. -/
theorem C05_decimal_token (cfg : Cfg) (fuel : Nat) (pos : Bool) (L : DecLit) (rest : List UInt8)
    (s : St) (hwf : L.WF) (hrest : s.rd.rest = L.text ++ rest) (hd : DelimStop rest)
    (hf : rest = [] → s.rd.faulty = false) (hsmall : L.Small) (hfuel : L.text.length + 1 ≤ fuel)
    (hb : ExactBuild cfg L.sig L.exp10) :
    parseNumToken cfg fuel pos s =
      .ok (Number.flt (signed pos (decRn L.rawSig L.rawExp))) (adv s L.text.length (endPeek s rest)) := by
  rw [← L.decRn_eq]
  exact numToken_lit cfg fuel pos L rest s _ hwf hrest hd hf hb.sig_le hsmall hfuel (hb.parts pos)

example := C05_decimal_token exCfgFast 11 false exLit (asc " x") (exSt (exLit.text ++ asc " x"))
  (exLit.wf_of_check (by decide)) rfl (fun b hb => by simp [asc, ch] at hb; subst hb; decide)
  (fun h => by simp [asc] at h) (by decide) (by decide)
  (Or.inl ⟨rfl, fun k hk => pow10Tab_exact k (by omega), by decide, by decide, by decide⟩)

/-- **C05_out_of_range_literal.**  A literal (significant digits within `u64`) is rejected with
    `NumberOutOfRange`, reported at the end of the literal,
    * in the build without `fast-float-parsing`: whenever its exact value is at least `2^1024`;
    * in the build with `fast-float-parsing`: whenever the scanned exponent exceeds 308 and the
      significand is not zero.
    In the fast build the first criterion is false near the boundary, see
    `C05_out_of_range_fast_counterexample`. -/
theorem C05_out_of_range_literal (cfg : Cfg) (fuel : Nat) (pos : Bool) (L : DecLit)
    (rest : List UInt8) (s : St) (hwf : L.WF) (hrest : s.rd.rest = L.text ++ rest)
    (hstop : ScanStop rest) (hf : rest = [] → s.rd.faulty = false) (hS : L.sig ≤ u64Max)
    (hsmall : L.Small) (hfuel : L.text.length + 1 ≤ fuel)
    (hbig : (cfg.fast = false ∧ 2 ^ 1024 * 10 ^ (-L.rawExp).toNat ≤ L.rawSig * 10 ^ L.rawExp.toNat) ∨
            (cfg.fast = true ∧ 0 < L.sig ∧ 308 < L.exp10)) :
    parseNumLiteral cfg fuel 10 pos s =
      errAt .numberOutOfRange (adv s L.text.length (endPeek s rest)) := by
  have hparts : ∀ u, f64FromParts cfg pos L.sig L.exp10 u = errAt .numberOutOfRange u := by
    intro u
    rcases hbig with ⟨hfast, hb⟩ | ⟨hfast, h0, h308⟩
    · rw [f64FromParts_slow cfg pos _ _ u hfast, rnDec_eq_all _ _ hS, L.decRn_eq]
      have : decRn L.rawSig L.rawExp = infBits := rn_overflow (ten_pow_pos _) hb
      rw [this, isInf_infBits]; rfl
    · exact out_of_range_fast cfg pos _ _ hfast h0 h308 u
  exact (numToken_lit_err cfg fuel pos L rest s _ hwf hrest hstop hf hS hsmall hfuel hparts).2

/-- `2e308` and `1e309` -/
example := C05_out_of_range_literal exCfgSlow 7 true ⟨asc "2", none, some ⟨101, [], asc "308"⟩⟩
  (asc ")") (exSt (asc "2e308)")) (DecLit.wf_of_check _ (by decide)) rfl (by decide) (fun _ => rfl)
  (by decide) (by decide) (by decide) (Or.inl ⟨rfl, by decide +kernel⟩)
example := C05_out_of_range_literal exCfgFast 7 false ⟨asc "1", none, some ⟨69, asc "+", asc "309"⟩⟩
  [] (exSt (asc "1E+309")) (DecLit.wf_of_check _ (by decide)) rfl (by decide) (fun _ => rfl)
  (by decide) (by decide) (by decide) (Or.inr ⟨rfl, by decide, by decide⟩)

/-- **C05_literal_finite_or_range** (the literal-level form of `C05_never_inf` /
    `C05_out_of_range`): in both builds a scanned literal yields a finite double or the error
    `NumberOutOfRange` at the end of the literal — never an infinity or a NaN, never another
    error, a panic or fuel exhaustion.  (Fast build: every `POW10` entry a finite double `≥ 1.0`,
    true for the regenerated table: `Numbers.pow10Tab_ge_one`.) -/
theorem C05_literal_finite_or_range (cfg : Cfg) (fuel : Nat) (pos : Bool) (L : DecLit)
    (rest : List UInt8) (s : St) (hwf : L.WF) (hrest : s.rd.rest = L.text ++ rest)
    (hstop : ScanStop rest) (hf : rest = [] → s.rd.faulty = false) (hS : L.sig ≤ u64Max)
    (hsmall : L.Small) (hfuel : L.text.length + 1 ≤ fuel)
    (hp : cfg.fast = true → ∀ k, k ≤ 308 → oneBits ≤ cfg.pow10 k ∧ cfg.pow10 k < infBits) :
    (∃ g, parseNumLiteral cfg fuel 10 pos s =
        .ok (Number.flt g) (adv s L.text.length (endPeek s rest)) ∧
      isFinite g = true ∧ isInf g = false ∧ isNaN g = false) ∨
    parseNumLiteral cfg fuel 10 pos s =
      errAt .numberOutOfRange (adv s L.text.length (endPeek s rest)) := by
  rw [scan_lit cfg fuel pos L rest s hwf hrest hstop hf hS hsmall hfuel]
  rcases f64FromParts_cases cfg pos L.sig L.exp10 (adv s L.text.length (endPeek s rest)) with
    ⟨g, hg⟩ | he
  · obtain ⟨a, b, c, -⟩ := C05_never_inf cfg pos L.sig L.exp10 _ _ g hS hp hg
    exact Or.inl ⟨g, by simp only [bind_apply, hg, pure_apply, Number.ofF64], a, b, c⟩
  · exact Or.inr (by simp only [bind_apply, he, errAt])

example := C05_literal_finite_or_range exCfgFast 11 true exLit [] (exSt exLit.text)
  (exLit.wf_of_check (by decide)) (by simp [exSt]) (by decide) (fun _ => rfl) (by decide) (by decide)
  (by decide) (fun _ k hk => pow10Tab_ge_one k (by omega))

set_option exponentiation.threshold 2048 in
/-- **C05_out_of_range_fast_counterexample.**  With `fast-float-parsing` and the real `POW10`
    table, the literal `179769313486231591e291` (no overflow while scanning: 18 digits) has a
    value above `2^1024`, yet `f64_from_parts` does not report `NumberOutOfRange`: the product of
    the two rounded factors rounds to the largest finite double, `f64::MAX`.  So "value `≥ 2^1024`
    implies `NumberOutOfRange`" holds only for the build without `fast-float-parsing`. -/
theorem C05_out_of_range_fast_counterexample :
    let L : DecLit := ⟨natDigits 179769313486231591, none, some (expPart 291)⟩
    L.text = asc "179769313486231591e291" ∧
    2 ^ 1024 * 10 ^ (-L.rawExp).toNat ≤ L.rawSig * 10 ^ L.rawExp.toNat ∧
    parseNumLiteral exCfgFast 30 10 true (exSt L.text) =
      .ok (Number.flt 0x7FEFFFFFFFFFFFFF) (adv (exSt L.text) L.text.length false) ∧
    isFinite 0x7FEFFFFFFFFFFFFF = true := by
  intro L
  have hfacts : LitFacts L 179769313486231591 291 := lit_sci1 _ 291 (by decide)
  refine ⟨by decide, ?_, ?_, by decide⟩
  · have h1 : L.rawSig = 179769313486231591 := by
      simp only [L, DecLit.rawSig, Option.getD_none, List.append_nil, dv_natDigits]
    have h2 : L.rawExp = 291 := by
      simp [L, DecLit.rawExp, DecLit.expVal, exVal, (expPart_val 291).1]
    rw [h1, h2]
    have : (-(291 : Int)).toNat = 0 := by decide
    rw [this, Nat.pow_zero, Nat.mul_one]
    exact fast_boundary.1
  · rw [scan_lit exCfgFast 30 true L [] (exSt L.text) hfacts.wf (by simp [exSt]) (by decide)
      (fun _ => rfl) (by rw [hfacts.sig]; decide) hfacts.small (by decide), hfacts.sig, hfacts.exp]
    have : ∀ u, f64FromParts exCfgFast true 179769313486231591 291 u = .ok 0x7FEFFFFFFFFFFFFF u := by
      intro u
      unfold f64FromParts
      have hfp := fast_boundary.2
      simp only [exCfgFast, if_true]
      rw [show (291 : Int).natAbs / 308 + 2 = 291 / 308 + 2 from rfl, hfp]
      rfl
    simp only [bind_apply, this, pure_apply]
    rfl

/-- **C05_scan_any** (the overflow exits of the scanners).  Every decimal literal — any number of
    digits — that is a float literal (it has a fraction or an exponent, or its integer part alone
    exceeds `u64`) is consumed entirely, and `parse_num_literal` returns what
    `f64_from_parts(positive, S, E)` returns for `(S, E) = L.scanT`: the integer digits are
    accumulated until the first one that would overflow `u64`, that digit and the remaining
    integer digits are dropped and counted (`parse_long_integer`); the fraction is shifted in
    (zeros lazily, `shiftIn`) until the next step would overflow, after which its remaining digits
    are skipped; then the written exponent is added.  `S` is a `u64`, and when nothing overflows
    `(S, E)` is the exact pair `(L.sig, L.exp10)` of `C05_scan_parts`.  Hypotheses: digits where
    digits are expected; the exponent arithmetic stays inside `i32`; the literal is followed by
    the end of the input or by a byte that is neither a digit nor `e`/`E` — nor `.` in case the
    literal is a bare integer. -/
theorem C05_scan_any (cfg : Cfg) (fuel : Nat) (pos : Bool) (L : DecLit) (rest : List UInt8) (s : St)
    (hipne : L.ip ≠ []) (hipd : AllDigits L.ip)
    (hfp : ∀ g, L.fp = some g → g ≠ [] ∧ AllDigits g) (hex : ∀ e, L.ex = some e → e.WF)
    (hfloat : L.fp.isSome = true ∨ L.ex.isSome = true ∨ u64Max < dv 0 L.ip)
    (hrest : s.rd.rest = L.text ++ rest) (hstop : ScanStop rest)
    (hdot : L.fp = none → L.ex = none → (rest.head?.getD 0 == 46) = false)
    (hf : rest = [] → s.rd.faulty = false)
    (hsmall : L.ip.length + exAbs L.ex ≤ i32Max) (hfuel : L.text.length + 1 ≤ fuel) :
    parseNumLiteral cfg fuel 10 pos s =
      (f64FromParts cfg pos L.scanT.1 L.scanT.2 >>= fun g => pure (Number.flt g))
        (adv s L.text.length (endPeek s rest)) ∧
    L.scanT.1 ≤ u64Max ∧
    (L.WF → L.sig ≤ u64Max → L.Small → L.scanT = (L.sig, L.exp10)) := by
  refine ⟨?_, ?_, L.scanT_exact⟩
  · rcases int_split L.ip 0 (by decide) with hfit | ⟨pre, d, more, hsplit, hpre, hov⟩
    · have hwf : L.WF := by
        refine ⟨hipne, hipd, hfp, hex, ?_⟩
        rcases hfloat with h | h | h
        · exact Or.inl h
        · exact Or.inr h
        · omega
      have := scan_fits cfg fuel pos L rest s hwf hrest hstop hf hfit (by omega) hfuel
      rw [this]
      simp only [DecLit.scanT, intScan_fits L.ip 0 hipd hfit, Int.natCast_zero]
      rfl
    · obtain ⟨ip, fp, ex⟩ := L
      simp only [] at hsplit hipd hipne hfp hex hrest hdot hsmall hfuel
      subst hsplit
      cases pre with
      | nil =>
        exfalso
        have := (isDigit_val d (hipd d (by simp))).1
        simp only [dv_nil] at hov
        unfold u64Max at hov; omega
      | cons c pre =>
        simp only [DecLit.text, List.length_append, List.length_cons] at hrest hsmall hfuel ⊢
        have := scan_long cfg fuel pos c pre d more fp ex rest s hipd hfp hex
          (by simpa using hrest) hstop hdot hf hpre hov (by omega)
          (by simp only [List.length_append, List.length_cons] at hfuel ⊢; omega)
        rw [this]
        simp only [DecLit.scanT, intScan_split (c :: pre) 0 d more hipd hpre hov,
          List.length_append, List.length_cons]
        have e1 : ((1 + more.length : Nat) : Int) = ((more.length + 1 : Nat) : Int) := by omega
        rw [e1]
        rfl
  · apply scanTail_le _ _ _ _ (fun g hg => (hfp g hg).2)
    rcases int_split L.ip 0 (by decide) with hfit | ⟨pre, d, more, hsplit, hpre, hov⟩
    · rw [intScan_fits L.ip 0 hipd hfit]; exact hfit
    · rw [hsplit] at hipd ⊢
      rw [intScan_split pre 0 d more hipd hpre hov]; exact hpre

/-- `18446744073709551616` (2^64), `123456789012345678901234567890.5`,
    `0.00000000000000000000123456789012345678901234567890e5`: what the scanners keep -/
example :
    DecLit.scanT ⟨asc "18446744073709551616", none, none⟩ = (1844674407370955161, 1) ∧
    DecLit.scanT ⟨asc "123456789012345678901234567890", some (asc "5"), none⟩ =
      (12345678901234567890, 10) ∧
    DecLit.scanT ⟨asc "0", some (asc "00000000000000000000123456789012345678901234567890"),
      some ⟨101, [], asc "5"⟩⟩ = (12345678901234567890, -35) := by decide +kernel

example (cfg : Cfg) := C05_scan_any cfg 40 true ⟨asc "18446744073709551616", none, none⟩ (asc ")")
  (exSt (asc "18446744073709551616)")) (by decide) (by decide) (fun g hg => by cases hg)
  (fun e he => by cases he) (Or.inr (Or.inr (by decide))) rfl (by decide) (fun _ _ => by decide)
  (fun _ => rfl) (by decide) (by decide)

/-- **C05_any_literal_finite_or_range**: for every float literal, of any length, the result is a
    finite double or the error `NumberOutOfRange` reported at the end of the literal; in particular
    no panic (`exponent += 1` cannot overflow here), no fuel exhaustion, no infinity, no NaN. -/
theorem C05_any_literal_finite_or_range (cfg : Cfg) (fuel : Nat) (pos : Bool) (L : DecLit)
    (rest : List UInt8) (s : St)
    (hipne : L.ip ≠ []) (hipd : AllDigits L.ip)
    (hfp : ∀ g, L.fp = some g → g ≠ [] ∧ AllDigits g) (hex : ∀ e, L.ex = some e → e.WF)
    (hfloat : L.fp.isSome = true ∨ L.ex.isSome = true ∨ u64Max < dv 0 L.ip)
    (hrest : s.rd.rest = L.text ++ rest) (hstop : ScanStop rest)
    (hdot : L.fp = none → L.ex = none → (rest.head?.getD 0 == 46) = false)
    (hf : rest = [] → s.rd.faulty = false)
    (hsmall : L.ip.length + exAbs L.ex ≤ i32Max) (hfuel : L.text.length + 1 ≤ fuel)
    (hp : cfg.fast = true → ∀ k, k ≤ 308 → oneBits ≤ cfg.pow10 k ∧ cfg.pow10 k < infBits) :
    (∃ g, parseNumLiteral cfg fuel 10 pos s =
        .ok (Number.flt g) (adv s L.text.length (endPeek s rest)) ∧
      isFinite g = true ∧ isInf g = false ∧ isNaN g = false) ∨
    parseNumLiteral cfg fuel 10 pos s =
      errAt .numberOutOfRange (adv s L.text.length (endPeek s rest)) := by
  obtain ⟨h1, h2, -⟩ := C05_scan_any cfg fuel pos L rest s hipne hipd hfp hex hfloat hrest hstop hdot
    hf hsmall hfuel
  rw [h1]
  rcases f64FromParts_cases cfg pos L.scanT.1 L.scanT.2 (adv s L.text.length (endPeek s rest)) with
    ⟨g, hg⟩ | he
  · obtain ⟨a, b, c, -⟩ := C05_never_inf cfg pos L.scanT.1 L.scanT.2 _ _ g h2 hp hg
    exact Or.inl ⟨g, by simp only [bind_apply, hg, pure_apply], a, b, c⟩
  · exact Or.inr (by simp only [bind_apply, he, errAt])

/-- forty nines, a fraction and an exponent: finite or out of range, nothing else -/
example := C05_any_literal_finite_or_range exCfgFast 60 false
  ⟨List.replicate 40 57, some (asc "25"), some ⟨69, asc "-", asc "7"⟩⟩ (asc " ")
  (exSt (List.replicate 40 57 ++ asc ".25E-7 ")) (by decide) (by decide)
  (fun g hg => by cases hg; exact ⟨by decide, by decide⟩)
  (fun e he => by cases he; exact ⟨Or.inr rfl, Or.inr (Or.inr rfl), by decide, by decide⟩)
  (Or.inl rfl) rfl (by decide) (fun h => by cases h) (fun h => by cases h) (by decide) (by decide)
  (fun _ k hk => pow10Tab_ge_one k (by omega))

/-- **atomRT_float.**  Float leaves of the round trip.  If `ryu b` is one of ryu's five layouts
    of a decimal `d` that rounds to the double `b` (`RyuSpec`), and `f64_from_parts` is exact on
    the pair `(d.S, d.E)` the scanner extracts from that text — fast build: `d.S < 2^53` and
    `|d.E| ≤ 22`, where `(d.S, d.E) = (m, e)` except `(m * 10^e, 0)` for the layout `d…d0…0.0`;
    build without `fast-float-parsing`: always, for finite `b` — then `parse_token` on
    `ryu b ++ rest` (`Follow rest`) consumes exactly the text and returns `Float(b)`, bit for bit
    (the sign of zero included).  All source modes; default dialect. -/
theorem atomRT_float (cfg : Cfg) (ryu : Nat → List UInt8) (fuel : Nat) (s : St)
    (rest : List UInt8) (b : Nat) (d : RyuDec) (pk : UInt8)
    (ho : cfg.opts = Options.default) (hb : b < 2 ^ 64) (hspec : RyuSpec ryu b d)
    (hbuild : (cfg.fast = true ∧ (∀ k, k ≤ 22 → Exact (cfg.pow10 k) (10 ^ k)) ∧
                d.S < 2 ^ 53 ∧ -22 ≤ d.E ∧ d.E ≤ 22) ∨
              (cfg.fast = false ∧ isInf b = false))
    (hrest : s.rd.rest = atomText ryu (.number (.flt b)) ++ rest)
    (hpk : (atomText ryu (.number (.flt b))).head? = some pk)
    (hfuel : (atomText ryu (.number (.flt b))).length + 1 ≤ fuel)
    (hF : Follow rest) (hf : rest = [] → s.rd.faulty = false) :
    parseToken cfg fuel pk s =
      .ok (.number (.flt b))
        (adv s (atomText ryu (.number (.flt b))).length (endPeek s rest)) := by
  obtain ⟨hwf, htext, hsign, hround⟩ := hspec
  have hfacts := d.litFacts hwf
  have hS17 := d.S_lt hwf
  have hSle : d.S ≤ u64Max := Nat.le_of_lt (Nat.lt_of_lt_of_le hS17 (by decide))
  have hrn : decRn d.S d.E = b % signBit := by rw [d.decRn_SE hwf, hround]
  have hEB : ExactBuild cfg d.lit.sig d.lit.exp10 := by
    rw [hfacts.sig, hfacts.exp]
    rcases hbuild with h | ⟨hfast, hinf⟩
    · exact Or.inl h
    · refine Or.inr ⟨hfast, hSle, ?_⟩
      rw [hrn]
      exact lt_inf_of_not_isInf (by rw [← hrn]; exact rn_le_inf _ _) (by rw [isInf_mod]; exact hinf)
  have hparts : ∀ u, f64FromParts cfg (!d.neg) d.lit.sig d.lit.exp10 u = .ok b u := by
    intro u
    rw [hEB.parts, hfacts.sig, hfacts.exp, hrn, hsign, signed_bits hb]
  rw [atomText_flt, htext] at hrest hpk hfuel ⊢
  unfold RyuDec.text at hrest hpk hfuel ⊢
  cases hneg : d.neg with
  | false =>
    simp only [hneg, Bool.false_eq_true, if_false, List.nil_append, Bool.not_false] at hrest hpk hfuel hparts ⊢
    exact token_lit_pos cfg fuel d.lit rest s b pk ho hfacts.wf hrest hpk (delimStop_of_follow hF) hf
      (by rw [hfacts.sig]; exact hSle) hfacts.small hfuel hparts
  | true =>
    simp only [hneg, if_true, List.cons_append, List.nil_append, Bool.not_true, List.length_cons,
      List.head?_cons, Option.some.injEq] at hrest hpk hfuel hparts ⊢
    subst hpk
    exact token_lit_neg cfg fuel d.lit rest s b hfacts.wf hrest (delimStop_of_follow hF) hf
      (by rw [hfacts.sig]; exact hSle) hfacts.small (by omega) hparts

/-- fast build: `1.5`, `-100.0`, `0.001`, `1.2345e-7`, `1e22` read back bit for bit -/
example := atomRT_float exCfgFast ryuEx 9 (exSt (asc "1.5)")) (asc ")") 0x3FF8000000000000
  ⟨false, 15, -1, .mid⟩ 49 rfl (by decide)
  ⟨by decide, by decide, by decide, by decide +kernel⟩
  (Or.inl ⟨rfl, exTable, by decide, by decide, by decide⟩) rfl rfl (by decide)
  (Follow.cons (by decide)) (fun _ => rfl)
example := atomRT_float exCfgFast ryuEx 9 (exSt (asc "-100.0 1")) (asc " 1") 0xC059000000000000
  ⟨true, 1, 2, .intDot0⟩ 45 rfl (by decide)
  ⟨by decide, by decide, by decide, by decide +kernel⟩
  (Or.inl ⟨rfl, exTable, by decide, by decide, by decide⟩) rfl rfl (by decide)
  (Follow.cons (by decide)) (fun _ => rfl)
example := atomRT_float exCfgFast ryuEx 9 (exSt (asc "0.001")) [] 0x3F50624DD2F1A9FC
  ⟨false, 1, -3, .small⟩ 48 rfl (by decide)
  ⟨by decide, by decide, by decide, by decide +kernel⟩
  (Or.inl ⟨rfl, exTable, by decide, by decide, by decide⟩) rfl rfl (by decide)
  Follow.nil (fun _ => rfl)
example := atomRT_float exCfgFast ryuEx 12 (exSt (asc "1.2345e-7)")) (asc ")") 0x3E8091B5AEFFDB8E
  ⟨false, 12345, -11, .sci⟩ 49 rfl (by decide)
  ⟨by decide, by decide, by decide, by decide +kernel⟩
  (Or.inl ⟨rfl, exTable, by decide, by decide, by decide⟩) rfl rfl (by decide)
  (Follow.cons (by decide)) (fun _ => rfl)
example := atomRT_float exCfgFast ryuEx 9 (exSt (asc "1e22)")) (asc ")") 0x4480F0CF064DD592
  ⟨false, 1, 22, .sci1⟩ 49 rfl (by decide)
  ⟨by decide, by decide, by decide, by decide +kernel⟩
  (Or.inl ⟨rfl, exTable, by decide, by decide, by decide⟩) rfl rfl (by decide)
  (Follow.cons (by decide)) (fun _ => rfl)
/-- build without `fast-float-parsing`: 17 digits, `f64::MAX`, the smallest subnormal, `-0.0` -/
example := atomRT_float exCfgSlow ryuEx 30 (exSt (asc "1.2345678901234568e17)")) (asc ")")
  0x437B69B4BA630F35 ⟨false, 12345678901234568, 1, .sci⟩ 49 rfl (by decide)
  ⟨by decide, by decide, by decide, by decide +kernel⟩
  (Or.inr ⟨rfl, by decide⟩) rfl rfl (by decide) (Follow.cons (by decide)) (fun _ => rfl)
example := atomRT_float exCfgSlow ryuEx 30 (exSt (asc "1.7976931348623157e308)")) (asc ")")
  0x7FEFFFFFFFFFFFFF ⟨false, 17976931348623157, 292, .sci⟩ 49 rfl (by decide)
  ⟨by decide, by decide, by decide, by decide +kernel⟩
  (Or.inr ⟨rfl, by decide⟩) rfl rfl (by decide) (Follow.cons (by decide)) (fun _ => rfl)
example := atomRT_float exCfgSlow ryuEx 30 (exSt (asc "5e-324)")) (asc ")")
  0x0000000000000001 ⟨false, 5, -324, .sci1⟩ 53 rfl (by decide)
  ⟨by decide, by decide, by decide, by decide +kernel⟩
  (Or.inr ⟨rfl, by decide⟩) rfl rfl (by decide) (Follow.cons (by decide)) (fun _ => rfl)
example := atomRT_float exCfgSlow ryuEx 30 (exSt (asc "-0.0)")) (asc ")")
  0x8000000000000000 ⟨true, 0, 0, .intDot0⟩ 45 rfl (by decide)
  ⟨by decide, by decide, by decide, by decide +kernel⟩
  (Or.inr ⟨rfl, by decide⟩) rfl rfl (by decide) (Follow.cons (by decide)) (fun _ => rfl)
example : RyuSpec (fun _ => asc "1e-23") 0x3B282DB34012B251 ⟨false, 1, -23, .sci1⟩ :=
  ⟨by decide, by decide, by decide, fast_1em23.2⟩

/-- the hypothesis on the scanned pair matters in the fast build: outside the window the fast
    path is not correctly rounded (`3e23` and `1e-23` do not read as the nearest double) -/
example : fastParts pow10Tab 2 (F64.ofNat 3) 23 ≠ some (decRn 3 23) ∧
    fastParts pow10Tab 2 (F64.ofNat 1) (-23) ≠ some (decRn 1 (-23)) := by decide +kernel

/-- **atomRT_float_window_needed.**  The window hypothesis of `atomRT_float` cannot be dropped in
    the build with `fast-float-parsing`: the double `1e-23` (bits `0x3B282DB34012B251`) is printed
    by any ryu satisfying `RyuSpec` as `1e-23` (one digit, exponent -23: outside `|E| ≤ 22`), and
    that text is read back as the next double up, `0x3B282DB34012B252`, because `1.0 / POW10[23]`
    divides by an inexact power of ten.  So `from_str(to_string(v)) = v` fails for this float leaf
    in the fast build. -/
theorem atomRT_float_window_needed (ryu : Nat → List UInt8)
    (hspec : RyuSpec ryu 0x3B282DB34012B251 ⟨false, 1, -23, .sci1⟩) (rest : List UInt8)
    (hF : Follow rest) :
    ryu 0x3B282DB34012B251 = asc "1e-23" ∧
    parseToken exCfgFast (rest.length + 7) 49 (exSt (ryu 0x3B282DB34012B251 ++ rest)) =
      .ok (.number (.flt 0x3B282DB34012B252))
        (adv (exSt (ryu 0x3B282DB34012B251 ++ rest)) 5 (endPeek (exSt (ryu 0x3B282DB34012B251 ++ rest)) rest)) := by
  have htext : ryu 0x3B282DB34012B251 = asc "1e-23" := by rw [hspec.text_eq]; decide
  refine ⟨htext, ?_⟩
  have hfacts := RyuDec.litFacts ⟨false, 1, -23, .sci1⟩ hspec.wf
  have hlt : (RyuDec.lit ⟨false, 1, -23, .sci1⟩).text = asc "1e-23" := by decide
  have hparts : ∀ u, f64FromParts exCfgFast true (RyuDec.lit ⟨false, 1, -23, .sci1⟩).sig
      (RyuDec.lit ⟨false, 1, -23, .sci1⟩).exp10 u = .ok 0x3B282DB34012B252 u := by
    intro u
    rw [hfacts.sig, hfacts.exp]
    unfold f64FromParts
    simp only [exCfgFast, if_true, RyuDec.S, RyuDec.E]
    rw [fast_1em23.1]
    rfl
  have := token_lit_pos exCfgFast (rest.length + 7) (RyuDec.lit ⟨false, 1, -23, .sci1⟩) rest
    (exSt (ryu 0x3B282DB34012B251 ++ rest)) _ 49 rfl hfacts.wf (by rw [htext, hlt]; rfl)
    (by rw [hlt]; rfl) (delimStop_of_follow hF) (fun _ => rfl) (by rw [hfacts.sig]; decide)
    hfacts.small (by rw [hlt]; simp [asc]) hparts
  rw [this, hlt]
  rfl

/-! ### float leaves in the structural round trip (`ListRT`) -/

/-- **atomOK_float.**  `atomRT_float` in the form `ListRT` wants for the leaves of a value:
    a float with `FloatOK` satisfies `ListRT.AtomOK`. -/
theorem atomOK_float (cfg : Cfg) (ho : cfg.opts = Options.default) (ryu : Nat → List UInt8)
    (b : Nat) (h : FloatOK cfg ryu b) : ListRT.AtomOK cfg ryu (.number (.flt b)) := by
  obtain ⟨hb, d, hspec, hbuild⟩ := h
  have htext : ListRT.atomText ryu (.number (.flt b)) = ryu b := by
    simp [ListRT.atomText, Print.atomEmits, Print.numberText, ListRT.flatten_cons_all,
      ListRT.flatten_nil]
  have hfacts := d.litFacts hspec.wf
  refine ListRT.atomOK_of_parseToken cfg ryu _ (.number (.flt b)) rfl rfl (by simp) rfl ?_ ?_
  · rw [htext, hspec.text_eq]
    unfold RyuDec.text
    obtain ⟨c, tl, hc, hdig⟩ := d.lit.text_head hfacts.wf
    cases d.neg with
    | false =>
      simp only [Bool.false_eq_true, if_false, List.nil_append, hc]
      exact ListRT.head_of_nonterm c tl (digit_head_facts c hdig).1 (digit_head_facts c hdig).2
    | true =>
      simp only [if_true, List.cons_append, List.nil_append]
      exact ListRT.head_of_nonterm 45 _ (by decide) (by decide)
  · intro s rest pk tl hf hg ht hr
    rw [htext] at ht hr
    have hlen := congrArg List.length hr
    simp only [List.length_append] at hlen
    have := atomRT_float cfg ryu (s.rd.rest.length + 1) s rest b d pk ho hb hspec hbuild
      (by rw [atomText_flt]; exact hr) (by rw [atomText_flt, ht]; rfl)
      (by rw [atomText_flt]; omega) ((ListRT.follow_iff rest).mp hf) (fun _ => hg.2)
    rw [atomText_flt] at this
    exact ListRT.runs_of_adv _ s _ _ _ rest hg this (by simp [hr])

mutual
theorem allAtomsOK_of_supportedF (cfg : Cfg) (ho : cfg.opts = Options.default)
    (ryu : Nat → List UInt8) : ∀ v : Value, AllSupportedF cfg ryu v → ListRT.AllAtomsOK cfg ryu v
  | .cons a d, h => by
    simp only [AllSupportedF] at h
    simp only [ListRT.AllAtomsOK]
    exact ⟨allAtomsOK_of_supportedF cfg ho ryu a h.1, allAtomsOK_of_supportedF cfg ho ryu d h.2⟩
  | .vector xs, h => by
    simp only [AllSupportedF] at h
    simp only [ListRT.AllAtomsOK]
    exact allAtomsOKSeq_of_supportedF cfg ho ryu xs h
  | .null, _ => by simp only [ListRT.AllAtomsOK]
  | .nil, _ => by simp only [ListRT.AllAtomsOK]; exact ListRT.atomOK_nil cfg ryu
  | .bool b, _ => by simp only [ListRT.AllAtomsOK]; exact ListRT.atomOK_bool cfg ryu b
  | .number (.flt b), h => by
    simp only [AllSupportedF] at h; simp only [ListRT.AllAtomsOK]; exact atomOK_float cfg ho ryu b h
  | .number (.pos n), h => by
    simp only [AllSupportedF] at h; simp only [ListRT.AllAtomsOK]
    exact ListRT.atomOK_supported cfg ho ryu _ h
  | .number (.neg i), h => by
    simp only [AllSupportedF] at h; simp only [ListRT.AllAtomsOK]
    exact ListRT.atomOK_supported cfg ho ryu _ h
  | .char c, h => by
    simp only [AllSupportedF] at h; simp only [ListRT.AllAtomsOK]
    exact ListRT.atomOK_supported cfg ho ryu _ h
  | .string x, h => by
    simp only [AllSupportedF] at h; simp only [ListRT.AllAtomsOK]
    exact ListRT.atomOK_supported cfg ho ryu _ h
  | .symbol x, h => by
    simp only [AllSupportedF] at h; simp only [ListRT.AllAtomsOK]
    exact ListRT.atomOK_supported cfg ho ryu _ h
  | .keyword x, h => by
    simp only [AllSupportedF] at h; simp only [ListRT.AllAtomsOK]
    exact ListRT.atomOK_supported cfg ho ryu _ h
  | .bytes x, h => by simp only [AllSupportedF] at h
theorem allAtomsOKSeq_of_supportedF (cfg : Cfg) (ho : cfg.opts = Options.default)
    (ryu : Nat → List UInt8) :
    ∀ xs : List Value, AllSupportedFSeq cfg ryu xs → ListRT.AllAtomsOKSeq cfg ryu xs
  | [], _ => by simp only [ListRT.AllAtomsOKSeq]
  | x :: xs, h => by
    simp only [AllSupportedFSeq] at h
    simp only [ListRT.AllAtomsOKSeq]
    exact ⟨allAtomsOK_of_supportedF cfg ho ryu x h.1, allAtomsOKSeq_of_supportedF cfg ho ryu xs h.2⟩
end

/-- **C01_roundtrip_floats.**  `from_slice(to_string(v)) = Ok(v)` (default options on both sides)
    for every value of nesting at most 127 whose atoms are those of `C01_roundtrip_supported` or
    floats whose ryu text satisfies `RyuSpec` and lies in the exact window of the build
    (`FloatOK`). -/
theorem C01_roundtrip_floats (cfg : Cfg) (ho : cfg.opts = Options.default)
    (ryu : Nat → List UInt8) (v : Value) (h : AllSupportedF cfg ryu v) (hn : ListRT.nesting v ≤ 127) :
    ∃ s', fromTrait cfg (initSt .slice (Print.text Print.Options.default ryu v)) = .ok v s' ∧
      s'.rd.rest = [] ∧ s'.depth = 128 :=
  ListRT.C01_roundtrip_partial cfg ho ryu v (allAtomsOK_of_supportedF cfg ho ryu v h) hn

theorem floatOK_ex_15 : FloatOK exCfgFast ryuEx 0x3FF8000000000000 :=
  ⟨by decide, ⟨false, 15, -1, .mid⟩, ⟨by decide, by decide, by decide, by decide +kernel⟩,
   Or.inl ⟨rfl, exTable, by decide, by decide, by decide⟩⟩

theorem floatOK_ex_m100 : FloatOK exCfgFast ryuEx 0xC059000000000000 :=
  ⟨by decide, ⟨true, 1, 2, .intDot0⟩, ⟨by decide, by decide, by decide, by decide +kernel⟩,
   Or.inl ⟨rfl, exTable, by decide, by decide, by decide⟩⟩

/-- `(1.5 #(-100.0 x) . 1.5)` -/
example :
    let v : Value := .cons (.number (.flt 0x3FF8000000000000))
      (.cons (.vector [.number (.flt 0xC059000000000000), .symbol (asc "x")])
        (.number (.flt 0x3FF8000000000000)))
    ∃ s', fromTrait exCfgFast (initSt .slice (Print.text Print.Options.default ryuEx v)) = .ok v s' ∧
      s'.rd.rest = [] ∧ s'.depth = 128 := by
  intro v
  refine C01_roundtrip_floats exCfgFast rfl ryuEx v ?_ ?_
  · simp only [v, AllSupportedF, AllSupportedFSeq, ListRT.SupportedAtom, and_true]
    exact ⟨floatOK_ex_15, ⟨floatOK_ex_m100, by decide⟩, floatOK_ex_15⟩
  · simp [v, ListRT.nesting, ListRT.nestingTail, ListRT.nestingSeq]

#print axioms C05_scan_parts
#print axioms C05_shiftIn
#print axioms C05_rnDec_eq
#print axioms C05_rnDec_eq_all
#print axioms C05_decimal_exact
#print axioms C05_decimal_exact_nofast
#print axioms C05_decimal_token
#print axioms C05_out_of_range_literal
#print axioms C05_literal_finite_or_range
#print axioms C05_out_of_range_fast_counterexample
#print axioms C05_scan_any
#print axioms C05_any_literal_finite_or_range
#print axioms atomRT_float
#print axioms atomRT_float_window_needed
#print axioms atomOK_float
#print axioms C01_roundtrip_floats

end Decimals
end Lexpr
