import LexprModel.Parse
namespace Lexpr
namespace Parse

/-! ## Mapping results, and lock-step simulation of parser computations -/

/-- Map the returned value of a parser result; errors (code and position), the residual state,
    panics and fuel exhaustion are kept as they are. -/
def Res.map (f : α → β) : Res α → Res β
  | .ok a s => .ok (f a) s
  | .err e s => .err e s
  | .panic p => .panic p
  | .fuel => .fuel

/-- `m` and `m'` run in lock step: from every state they end the same way, in the same state,
    and the value of `m'` is the `h`-image of the value of `m`. -/
def Sim (h : α → β) (m : P α) (m' : P β) : Prop := ∀ s, Res.map h (m s) = m' s

theorem bind_apply_dv (m : P α) (f : α → P β) (s : St) :
    (m >>= f) s = match m s with
      | .ok a s' => f a s'
      | .err e s' => .err e s'
      | .panic p => .panic p
      | .fuel => .fuel := rfl

theorem pure_apply (a : α) (s : St) : (pure a : P α) s = .ok a s := rfl

theorem Sim.bind {h : α → β} {g : γ → δ} {m : P α} {m' : P β} {f : α → P γ} {f' : β → P δ}
    (hm : Sim h m m') (hf : ∀ a, Sim g (f a) (f' (h a))) : Sim g (m >>= f) (m' >>= f') := by
  intro s
  have := hm s
  rw [bind_apply_dv, bind_apply_dv, ← this]
  cases m s <;> simp only [Res.map]
  exact hf _ _

theorem Sim.bind_same {g : γ → δ} {m : P α} {f : α → P γ} {f' : α → P δ}
    (hf : ∀ a, Sim g (f a) (f' a)) : Sim g (m >>= f) (m >>= f') := by
  intro s
  rw [bind_apply_dv, bind_apply_dv]
  cases m s <;> simp only [Res.map]
  exact hf _ _

/-- reading the position on the datum side only does not disturb the simulation -/
theorem Sim.getPos_left {g : γ → δ} {f : Pos → P γ} {m' : P δ}
    (hf : ∀ p, Sim g (f p) m') : Sim g (getPos >>= f) m' := by
  intro s
  exact hf _ s

theorem Sim.pure {h : α → β} {a : α} {b : β} (hab : h a = b) :
    Sim h (pure a : P α) (pure b) := by
  intro s; simp only [pure_apply, Res.map, hab]

theorem Sim.peekErr {h : α → β} (c : Code) : Sim h (peekErr c) (peekErr c) := fun _ => rfl
theorem Sim.panicAt {h : α → β} (p : Site) : Sim h (panicAt p) (panicAt p) := fun _ => rfl
theorem Sim.outOfFuel {h : α → β} : Sim h outOfFuel outOfFuel := fun _ => rfl
theorem Sim.liftError {h : α → β} (e : Err) :
    Sim h (liftExcept (.error e)) (liftExcept (.error e)) := fun _ => rfl

theorem Sim.attempt {h : α → β} {m : P α} {m' : P β} (hm : Sim h m m') :
    Sim (Except.map h) (attempt m) (attempt m') := by
  intro s
  have := hm s
  simp only [Parse.attempt, ← this]
  cases m s <;> simp only [Res.map, Except.map]

theorem Sim.ite {h : α → β} {c : Prop} [Decidable c] {a b : P α} {a' b' : P β}
    (ht : Sim h a a') (he : Sim h b b') :
    Sim h (if c then a else b) (if c then a' else b') := by
  split
  · exact ht
  · exact he

/-- the value a `parse_list_meta` result stands for: `None` is the empty list -/
def listVal : Option (Value × SpanInfo × SpanInfo) → Value
  | none => Value.null
  | some (v, _, _) => v

theorem sim_all (cfg : Cfg) : ∀ fuel : Nat,
    Sim (Option.map Datum.value) (nextDatum cfg fuel) (nextValue cfg fuel) ∧
    (∀ term acc ms, Sim listVal (parseListMeta cfg fuel term acc ms) (parseList cfg fuel term acc)) ∧
    (∀ term acc ms,
      Sim Prod.fst (parseVectorMeta cfg fuel term acc ms) (parseVector cfg fuel term acc)) := by
  intro fuel
  induction fuel with
  | zero =>
    refine ⟨?_, ?_, ?_⟩
    · rw [nextDatum, nextValue]; exact Sim.outOfFuel
    · intro term acc ms; rw [parseListMeta, parseList]; exact Sim.outOfFuel
    · intro term acc ms; rw [parseVectorMeta, parseVector]; exact Sim.outOfFuel
  | succ f ih =>
    obtain ⟨ihD, ihL, ihV⟩ := ih
    refine ⟨?_, ?_, ?_⟩
    · rw [nextDatum, nextValue]
      refine Sim.bind_same ?_
      intro ws
      cases ws with
      | none => exact Sim.pure rfl
      | some pk =>
        dsimp only
        refine Sim.getPos_left ?_
        intro start
        refine Sim.bind_same ?_
        intro tf
        refine Sim.bind_same ?_
        intro tok
        have atomCase : ∀ t : Token, Sim (Option.map Datum.value)
            (match t.atom with
              | some v => do
                let stop ← getPos
                pure (some ({ value := v, info := SpanInfo.prim { start := start, stop := stop } } : Datum))
              | none => panicAt Site.unreachable)
            (match t.atom with
              | some v => pure (some v)
              | none => panicAt Site.unreachable) := by
          intro t
          cases t.atom with
          | none => exact Sim.panicAt _
          | some v => exact Sim.getPos_left (fun _ => Sim.pure rfl)
        cases tok with
        | byteVecOpen close =>
          dsimp only
          refine Sim.bind_same ?_
          intro bs
          exact Sim.getPos_left (fun _ => Sim.pure rfl)
        | vecOpen close =>
          dsimp only
          refine Sim.bind_same ?_
          intro _
          refine Sim.bind (Sim.attempt (ihV close [] [])) ?_
          intro ret
          refine Sim.bind_same ?_
          intro _
          refine Sim.bind_same ?_
          intro es
          rcases ret with e | ⟨xs, ms⟩ <;> rcases es with e' | ⟨⟩ <;> simp only [Except.map]
          · exact Sim.liftError _
          · exact Sim.liftError _
          · exact Sim.liftError _
          · exact Sim.getPos_left (fun _ => Sim.pure rfl)
        | listOpen close =>
          dsimp only
          refine Sim.bind_same ?_
          intro _
          refine Sim.bind (Sim.attempt (ihL close [] [])) ?_
          intro ret
          refine Sim.bind_same ?_
          intro _
          refine Sim.bind_same ?_
          intro es
          rcases ret with e | _ | ⟨v, c, d⟩ <;> rcases es with e' | ⟨⟩ <;>
            simp only [Except.map, listVal]
          · exact Sim.liftError _
          · exact Sim.liftError _
          · exact Sim.liftError _
          · exact Sim.getPos_left (fun _ => Sim.pure rfl)
          · exact Sim.liftError _
          · exact Sim.getPos_left (fun _ => Sim.pure rfl)
        | quotation q =>
          dsimp only
          refine Sim.getPos_left ?_
          intro tokenEnd
          refine Sim.bind_same ?_
          intro _
          refine Sim.bind (Sim.attempt ihD) ?_
          intro ret
          refine Sim.bind_same ?_
          intro _
          rcases ret with e | _ | d <;> simp only [Except.map, Option.map]
          · exact Sim.liftError _
          · exact Sim.peekErr _
          · exact Sim.pure rfl
        | null => exact atomCase Token.null
        | nil => exact atomCase Token.nil
        | bool b => exact atomCase (Token.bool b)
        | char c => exact atomCase (Token.char c)
        | number n => exact atomCase (Token.number n)
        | symbol s => exact atomCase (Token.symbol s)
        | keyword s => exact atomCase (Token.keyword s)
        | string s => exact atomCase (Token.string s)
        | bytes b => exact atomCase (Token.bytes b)
    · intro term acc ms
      rw [parseListMeta, parseList]
      refine Sim.bind_same ?_
      intro ws
      cases ws with
      | none => exact Sim.peekErr _
      | some c =>
        dsimp only
        refine Sim.ite (Sim.ite (Sim.peekErr _) ?_) (Sim.ite ?_ ?_)
        · by_cases hacc : acc.isEmpty = true
          · have : acc = [] := by simpa using hacc
            subst this
            simp only [List.isEmpty_nil, if_true]
            exact Sim.pure rfl
          · simp only [hacc]
            exact Sim.pure rfl
        · refine Sim.getPos_left ?_
          intro start
          refine Sim.bind_same ?_
          intro _
          refine Sim.bind_same ?_
          intro nxt
          refine Sim.ite (Sim.ite ?_ ?_) ?_
          · refine Sim.bind_same ?_
            intro pk
            cases pk with
            | none => exact Sim.peekErr _
            | some _ => exact Sim.peekErr _
          · refine Sim.bind (h := Datum.value) ?_ ?_
            · refine Sim.bind ihD ?_
              intro od
              cases od with
              | none => exact Sim.peekErr _
              | some d => exact Sim.pure rfl
            · intro tail
              refine Sim.bind_same ?_
              intro ws
              cases ws with
              | none => exact Sim.peekErr _
              | some c' => exact Sim.ite (Sim.pure rfl) (Sim.peekErr _)
          · refine Sim.bind_same ?_
            intro name
            refine Sim.getPos_left ?_
            intro stop
            exact ihL _ _ _
        · refine Sim.bind ihD ?_
          intro od
          cases od with
          | none => exact Sim.peekErr _
          | some d => exact ihL _ _ _
    · intro term acc ms
      rw [parseVectorMeta, parseVector]
      refine Sim.bind_same ?_
      intro ws
      cases ws with
      | none => exact Sim.peekErr _
      | some c =>
        dsimp only
        refine Sim.ite (Sim.ite (Sim.peekErr _) (Sim.pure rfl)) ?_
        refine Sim.bind ihD ?_
        intro od
        cases od with
        | none => exact Sim.peekErr _
        | some d => exact ihV _ _ _

theorem sim_nextTop (cfg : Cfg) :
    Sim (Option.map Datum.value) (nextDatumTop cfg) (nextValueTop cfg) := by
  unfold nextDatumTop nextValueTop
  exact Sim.bind_same (fun f => (sim_all cfg f).1)

theorem sim_expect (cfg : Cfg) : Sim Datum.value (expectDatum cfg) (expectValue cfg) := by
  unfold expectDatum expectValue
  refine Sim.bind (sim_nextTop cfg) ?_
  intro od
  cases od with
  | none => exact Sim.peekErr _
  | some d => exact Sim.pure rfl

theorem sim_fromTrait (cfg : Cfg) : Sim Datum.value (fromTraitDatum cfg) (fromTrait cfg) := by
  unfold fromTraitDatum fromTrait
  refine Sim.bind (sim_expect cfg) ?_
  intro d
  exact Sim.bind_same (fun _ => Sim.pure rfl)

/-! ## Call histories -/

/-- the value-API call corresponding to a datum-API call -/
def Op.toValue : Op → Op
  | .nextDatum => .nextValue
  | .datumIterNext => .valueIterNext
  | .expectDatum => .expectValue
  | op => op

/-- forget the spans of a returned item -/
def Item.toValue : Item → Item
  | .datum d => .value d.value
  | it => it

theorem stepOp_toValue (cfg : Cfg) (op : Op) (s : St) :
    stepOp cfg op.toValue s = ((stepOp cfg op s).1.toValue, (stepOp cfg op s).2) := by
  have hN := sim_nextTop cfg s
  have hE := sim_expect cfg s
  cases op <;> simp only [Op.toValue, stepOp]
  · cases nextValueTop cfg s with
    | ok a s' => cases a <;> rfl
    | _ => rfl
  · rw [← hN]
    cases nextDatumTop cfg s with
    | ok a s' => cases a <;> rfl
    | _ => rfl
  · cases expectValue cfg s <;> rfl
  · rw [← hE]
    cases expectDatum cfg s <;> rfl
  · cases expectEnd s <;> rfl
  · cases nextValueTop cfg s with
    | ok a s' => cases a <;> rfl
    | _ => rfl
  · rw [← hN]
    cases nextDatumTop cfg s with
    | ok a s' => cases a <;> rfl
    | _ => rfl
  · cases nextValueTop cfg s with
    | ok a s' => cases a <;> rfl
    | _ => rfl

theorem runHistory_toValue (cfg : Cfg) (ops : List Op) (s : St) :
    runHistory cfg (ops.map Op.toValue) s = (runHistory cfg ops s).map Item.toValue := by
  induction ops generalizing s with
  | nil => rfl
  | cons op ops ih =>
    simp only [List.map_cons, runHistory, stepOp_toValue]
    rcases stepOp cfg op s with ⟨it, _ | s'⟩
    · rfl
    · simp only [List.map_cons, ih]

theorem Item.toValue_eq_none (it : Item) : it.toValue = .none_ ↔ it = .none_ := by
  cases it <;> simp [Item.toValue]

theorem iterate_toValue (cfg : Cfg) (op : Op) (cap : Nat) (s : St) :
    iterate cfg op.toValue cap s = (iterate cfg op cap s).map Item.toValue := by
  induction cap generalizing s with
  | zero => rfl
  | succ cap ih =>
    simp only [iterate, stepOp_toValue]
    rcases stepOp cfg op s with ⟨it, os⟩
    cases it <;> cases os <;> simp [Item.toValue, ih]

/-! ## Well-shaped span information -/

def SpanInfo.isPrim : SpanInfo → Prop
  | .prim _ => True
  | _ => False

mutual
/-- The span tree mirrors the value tree: a pair carries `.cons` with shaped car and cdr, a
    vector carries `.vec` with as many shaped entries as elements, anything else `.prim`. -/
def Shaped : Value → SpanInfo → Prop
  | .cons a b, i =>
    match i with
    | .cons _ c d => Shaped a c ∧ Shaped b d
    | _ => False
  | .vector xs, i =>
    match i with
    | .vec _ ms => ShapedList xs ms
    | _ => False
  | .nil, i => i.isPrim
  | .null, i => i.isPrim
  | .bool _, i => i.isPrim
  | .number _, i => i.isPrim
  | .char _, i => i.isPrim
  | .string _, i => i.isPrim
  | .symbol _, i => i.isPrim
  | .keyword _, i => i.isPrim
  | .bytes _, i => i.isPrim
/-- element-wise `Shaped`, equal lengths -/
def ShapedList : List Value → List SpanInfo → Prop
  | [], ms => ms = []
  | x :: xs, ms =>
    match ms with
    | m :: ms => Shaped x m ∧ ShapedList xs ms
    | [] => False
end

theorem shapedList_iff (xs : List Value) (ms : List SpanInfo) :
    ShapedList xs ms ↔ xs.length = ms.length ∧ ∀ p ∈ xs.zip ms, Shaped p.1 p.2 := by
  induction xs generalizing ms with
  | nil => cases ms <;> simp [ShapedList]
  | cons x xs ih => cases ms <;> simp [ShapedList, ih] <;> grind

theorem ShapedList.length_eq {xs : List Value} {ms : List SpanInfo} (h : ShapedList xs ms) :
    xs.length = ms.length := ((shapedList_iff xs ms).mp h).1

theorem ShapedList.snoc {xs : List Value} {ms : List SpanInfo} {x : Value} {m : SpanInfo}
    (h : ShapedList xs ms) (hx : Shaped x m) : ShapedList (xs ++ [x]) (ms ++ [m]) := by
  induction xs generalizing ms with
  | nil =>
    cases ms with
    | nil => simpa [ShapedList] using hx
    | cons _ _ => simp [ShapedList] at h
  | cons y ys ih =>
    cases ms with
    | nil => simp [ShapedList] at h
    | cons m' ms' =>
      simp only [ShapedList] at h
      simp only [List.cons_append, ShapedList]
      exact ⟨h.1, ih h.2⟩

/-- an atom (anything but a pair or a vector) is shaped by a `.prim` -/
theorem Shaped.prim {v : Value} (hc : v.isCons = false) (hv : v.isVector = false) (sp : Span) :
    Shaped v (.prim sp) := by
  cases v <;> simp_all [Shaped, SpanInfo.isPrim, Value.isCons, Value.isVector]

theorem shaped_atom {t : Token} {v : Value} (h : t.atom = some v) (sp : Span) :
    Shaped v (.prim sp) := by
  cases t <;> simp [Token.atom] at h <;> subst h <;> simp [Shaped, SpanInfo.isPrim]

theorem shaped_symbolValue (o : Options) (name : List UInt8) (sp : Span) :
    Shaped (symbolValue o name) (.prim sp) := by
  unfold symbolValue
  split <;> simp [Shaped, SpanInfo.isPrim]

/-- the first cell built by `parse_list_meta` from shaped elements and a shaped tail -/
theorem shaped_buildMeta : ∀ (acc : List Value) (ms : List SpanInfo) (t : Value) (ti : SpanInfo)
    (sp : Span), acc ≠ [] → ShapedList acc ms → Shaped t ti →
    Shaped (Value.append acc t) (.cons sp (buildMeta ms ti).1 (buildMeta ms ti).2)
  | [], _, _, _, _, h, _, _ => absurd rfl h
  | _ :: _, [], _, _, _, _, h, _ => by simp [ShapedList] at h
  | [a], [m], t, ti, sp, _, h, ht => by
    simp only [ShapedList] at h
    simp only [Value.append, buildMeta, Shaped]
    exact ⟨h.1, ht⟩
  | [a], m :: m' :: ms, t, ti, sp, _, h, ht => by
    simp [ShapedList] at h
  | a :: b :: acc, [m], t, ti, sp, _, h, ht => by
    simp [ShapedList] at h
  | a :: b :: acc, m :: m' :: ms, t, ti, sp, _, h, ht => by
    simp only [ShapedList] at h
    have ih := shaped_buildMeta (b :: acc) (m' :: ms) t ti Span.empty (by simp)
      (by simp only [ShapedList]; exact h.2) ht
    simp only [Value.append, buildMeta, Shaped] at ih ⊢
    exact ⟨h.1, ih⟩

/-! ## Postconditions of parser computations -/

/-- every value `m` returns satisfies `Q` -/
def Post (Q : α → Prop) (m : P α) : Prop := ∀ s a s', m s = .ok a s' → Q a

theorem Post.bind {R : α → Prop} {Q : β → Prop} {m : P α} {f : α → P β}
    (hm : Post R m) (hf : ∀ a, R a → Post Q (f a)) : Post Q (m >>= f) := by
  intro s b s' h
  rw [bind_apply_dv] at h
  cases hms : m s with
  | ok a s1 =>
    rw [hms] at h
    exact hf a (hm s a s1 hms) s1 b s' h
  | err e s1 => rw [hms] at h; cases h
  | panic p => rw [hms] at h; cases h
  | fuel => rw [hms] at h; cases h

theorem Post.trivial {m : P α} : Post (fun _ => True) m := fun _ _ _ _ => True.intro

theorem Post.bind_any {Q : β → Prop} {m : P α} {f : α → P β}
    (hf : ∀ a, Post Q (f a)) : Post Q (m >>= f) :=
  Post.bind Post.trivial (fun a _ => hf a)

theorem Post.pure {Q : α → Prop} {a : α} (h : Q a) : Post Q (pure a : P α) := by
  intro s b s' hb
  rw [pure_apply] at hb
  cases hb
  exact h

theorem Post.peekErr {Q : α → Prop} (c : Code) : Post Q (peekErr c) := by
  intro s b s' hb; cases hb
theorem Post.panicAt {Q : α → Prop} (p : Site) : Post Q (panicAt p) := by
  intro s b s' hb; cases hb
theorem Post.outOfFuel {Q : α → Prop} : Post Q outOfFuel := by
  intro s b s' hb; cases hb
theorem Post.liftError {Q : α → Prop} (e : Err) : Post Q (liftExcept (.error e)) := by
  intro s b s' hb; cases hb

theorem Post.ite {Q : α → Prop} {c : Prop} [Decidable c] {a b : P α}
    (ht : c → Post Q a) (he : ¬ c → Post Q b) : Post Q (if c then a else b) := by
  split
  · exact ht ‹_›
  · exact he ‹_›

/-- lift a predicate to a captured result: nothing is claimed about an error -/
def OkP (R : α → Prop) : Except Err α → Prop
  | .ok a => R a
  | .error _ => True

theorem Post.attempt {R : α → Prop} {m : P α} (hm : Post R m) : Post (OkP R) (attempt m) := by
  intro s b s' hb
  simp only [Parse.attempt] at hb
  cases hms : m s with
  | ok a s1 =>
    rw [hms] at hb
    cases hb
    exact hm s _ _ hms
  | err e s1 => rw [hms] at hb; cases hb; exact True.intro
  | panic p => rw [hms] at hb; cases hb
  | fuel => rw [hms] at hb; cases hb

def ShapedOpt : Option Datum → Prop
  | none => True
  | some d => Shaped d.value d.info

/-- a `parse_list_meta` result: the two infos shape the first cell, whatever its span -/
def ShapedCell : Option (Value × SpanInfo × SpanInfo) → Prop
  | none => True
  | some (v, c, d) => ∀ sp, Shaped v (.cons sp c d)

theorem shaped_all (cfg : Cfg) : ∀ fuel : Nat,
    Post ShapedOpt (nextDatum cfg fuel) ∧
    (∀ term acc ms, ShapedList acc ms → Post ShapedCell (parseListMeta cfg fuel term acc ms)) ∧
    (∀ term acc ms, ShapedList acc ms →
      Post (fun r => ShapedList r.1 r.2) (parseVectorMeta cfg fuel term acc ms)) := by
  intro fuel
  induction fuel with
  | zero =>
    refine ⟨?_, ?_, ?_⟩
    · rw [nextDatum]; exact Post.outOfFuel
    · intro term acc ms _; rw [parseListMeta]; exact Post.outOfFuel
    · intro term acc ms _; rw [parseVectorMeta]; exact Post.outOfFuel
  | succ f ih =>
    obtain ⟨ihD, ihL, ihV⟩ := ih
    refine ⟨?_, ?_, ?_⟩
    · rw [nextDatum]
      refine Post.bind_any ?_
      intro ws
      cases ws with
      | none => exact Post.pure True.intro
      | some pk =>
        dsimp only
        refine Post.bind_any ?_
        intro start
        refine Post.bind_any ?_
        intro tf
        refine Post.bind_any ?_
        intro tok
        have atomCase : ∀ t : Token, Post ShapedOpt
            (match t.atom with
              | some v => do
                let stop ← getPos
                pure (some ({ value := v, info := SpanInfo.prim { start := start, stop := stop } } : Datum))
              | none => panicAt Site.unreachable) := by
          intro t
          cases ht : t.atom with
          | none => exact Post.panicAt _
          | some v => exact Post.bind_any (fun _ => Post.pure (shaped_atom ht _))
        cases tok with
        | byteVecOpen close =>
          dsimp only
          refine Post.bind_any ?_
          intro bs
          refine Post.bind_any ?_
          intro stop
          refine Post.pure ?_
          simp [ShapedOpt, Shaped, SpanInfo.isPrim]
        | vecOpen close =>
          dsimp only
          refine Post.bind_any ?_
          intro _
          refine Post.bind (Post.attempt (ihV close [] [] (by simp [ShapedList]))) ?_
          intro ret hret
          refine Post.bind_any ?_
          intro _
          refine Post.bind_any ?_
          intro es
          rcases ret with e | ⟨xs, ms⟩ <;> rcases es with e' | ⟨⟩ <;> dsimp only
          · exact Post.liftError _
          · exact Post.liftError _
          · exact Post.liftError _
          · refine Post.bind_any ?_
            intro stop
            refine Post.pure ?_
            simpa [ShapedOpt, Shaped, OkP] using hret
        | listOpen close =>
          dsimp only
          refine Post.bind_any ?_
          intro _
          refine Post.bind (Post.attempt (ihL close [] [] (by simp [ShapedList]))) ?_
          intro ret hret
          refine Post.bind_any ?_
          intro _
          refine Post.bind_any ?_
          intro es
          rcases ret with e | _ | ⟨v, c, d⟩ <;> rcases es with e' | ⟨⟩ <;> dsimp only
          · exact Post.liftError _
          · exact Post.liftError _
          · exact Post.liftError _
          · refine Post.bind_any ?_
            intro stop
            refine Post.pure ?_
            simp [ShapedOpt, Shaped, SpanInfo.isPrim]
          · exact Post.liftError _
          · refine Post.bind_any ?_
            intro stop
            refine Post.pure ?_
            exact hret _
        | quotation q =>
          dsimp only
          refine Post.bind_any ?_
          intro tokenEnd
          refine Post.bind_any ?_
          intro _
          refine Post.bind (Post.attempt ihD) ?_
          intro ret hret
          refine Post.bind_any ?_
          intro _
          rcases ret with e | _ | d <;> dsimp only
          · exact Post.liftError _
          · exact Post.peekErr _
          · refine Post.pure ?_
            simp only [OkP, ShapedOpt] at hret
            simp only [ShapedOpt, Datum.quotation, Value.list, Value.append, Shaped,
              SpanInfo.isPrim, true_and, and_true]
            exact hret
        | null => exact atomCase Token.null
        | nil => exact atomCase Token.nil
        | bool b => exact atomCase (Token.bool b)
        | char c => exact atomCase (Token.char c)
        | number n => exact atomCase (Token.number n)
        | symbol s => exact atomCase (Token.symbol s)
        | keyword s => exact atomCase (Token.keyword s)
        | string s => exact atomCase (Token.string s)
        | bytes b => exact atomCase (Token.bytes b)
    · intro term acc ms hacc
      rw [parseListMeta]
      refine Post.bind_any ?_
      intro ws
      cases ws with
      | none => exact Post.peekErr _
      | some c =>
        dsimp only
        refine Post.ite (fun _ => Post.ite (fun _ => Post.peekErr _) (fun _ => ?_))
          (fun _ => Post.ite (fun _ => ?_) (fun _ => ?_))
        · refine Post.ite (fun _ => Post.pure True.intro) (fun hne => Post.pure ?_)
          intro sp
          have hne' : acc ≠ [] := by simpa using hne
          exact shaped_buildMeta acc ms Value.null _ sp hne' hacc
            (by simp [Shaped, SpanInfo.isPrim])
        · refine Post.bind_any ?_
          intro start
          refine Post.bind_any ?_
          intro _
          refine Post.bind_any ?_
          intro nxt
          refine Post.ite (fun _ => Post.ite (fun _ => ?_) (fun hne => ?_)) (fun _ => ?_)
          · refine Post.bind_any ?_
            intro pk
            cases pk with
            | none => exact Post.peekErr _
            | some _ => exact Post.peekErr _
          · have hne' : acc ≠ [] := by simpa using hne
            refine Post.bind (R := fun d : Datum => Shaped d.value d.info) ?_ ?_
            · refine Post.bind ihD ?_
              intro od hod
              cases od with
              | none => exact Post.peekErr _
              | some d => exact Post.pure hod
            · intro tail htail
              refine Post.bind_any ?_
              intro ws
              cases ws with
              | none => exact Post.peekErr _
              | some c' =>
                refine Post.ite (fun _ => Post.pure ?_) (fun _ => Post.peekErr _)
                intro sp
                exact shaped_buildMeta acc ms tail.value tail.info sp hne' hacc htail
          · refine Post.bind_any ?_
            intro name
            refine Post.bind_any ?_
            intro stop
            exact ihL _ _ _ (ShapedList.snoc hacc (shaped_symbolValue _ _ _))
        · refine Post.bind ihD ?_
          intro od hod
          cases od with
          | none => exact Post.peekErr _
          | some d => exact ihL _ _ _ (ShapedList.snoc hacc hod)
    · intro term acc ms hacc
      rw [parseVectorMeta]
      refine Post.bind_any ?_
      intro ws
      cases ws with
      | none => exact Post.peekErr _
      | some c =>
        dsimp only
        refine Post.ite (fun _ => Post.ite (fun _ => Post.peekErr _) (fun _ => Post.pure hacc))
          (fun _ => ?_)
        refine Post.bind ihD ?_
        intro od hod
        cases od with
        | none => exact Post.peekErr _
        | some d => exact ihV _ _ _ (ShapedList.snoc hacc hod)

/-! ## Datum accessors on shaped datums -/

/-- forget the span information of a datum list cursor -/
def DCursor.forget : DCursor → Value.ListCursor
  | .cons a b _ _ => .cons a b
  | .dot v _ => .dot v
  | .rest v _ => .rest v
  | .exhausted => .exhausted

/-- the values a cursor holds are shaped by the infos it holds -/
def DCursor.Good : DCursor → Prop
  | .cons a b cm dm => Shaped a cm ∧ Shaped b dm
  | .dot v m => Shaped v m
  | .rest v m => Shaped v m
  | .exhausted => True

/-- The first `n` results of calling `next` repeatedly; `none` if the `expect` fires. -/
def DCursor.take : Nat → DCursor → Option (List (Option Datum))
  | 0, _ => some []
  | n + 1, c =>
    match c.next with
    | none => none
    | some (x, c') => (DCursor.take n c').map (x :: ·)

theorem DCursor.next_good (c : DCursor) (h : c.Good) :
    ∃ item c', c.next = some (item, c') ∧ c'.Good ∧ ShapedOpt item ∧
      c.forget.next = (item.map Datum.value, c'.forget) := by
  cases c with
  | cons car cdr cm dm =>
    obtain ⟨h1, h2⟩ := h
    cases dm with
    | cons sp c d =>
      cases cdr <;> simp only [Shaped, SpanInfo.isPrim] at h2
      exact ⟨_, _, rfl, h2, h1, rfl⟩
    | prim sp =>
      cases cdr <;> simp only [Shaped, SpanInfo.isPrim] at h2 <;>
        first
        | exact ⟨_, _, rfl, True.intro, h1, rfl⟩
        | exact ⟨_, _, rfl, by simp [DCursor.Good, Shaped, SpanInfo.isPrim], h1, rfl⟩
    | vec sp ms =>
      cases cdr <;> simp only [Shaped, SpanInfo.isPrim] at h2
      exact ⟨_, _, rfl, by simpa [DCursor.Good, Shaped] using h2, h1, rfl⟩
  | dot v m => exact ⟨_, _, rfl, h, True.intro, rfl⟩
  | rest v m => exact ⟨_, _, rfl, True.intro, h, rfl⟩
  | exhausted => exact ⟨_, _, rfl, True.intro, True.intro, rfl⟩

theorem DCursor.take_good (n : Nat) (c : DCursor) (h : c.Good) :
    ∃ l, DCursor.take n c = some l ∧
      l.map (Option.map Datum.value) = Value.ListCursor.take n c.forget ∧
      ∀ x ∈ l, ShapedOpt x := by
  induction n generalizing c with
  | zero => exact ⟨[], rfl, rfl, by simp⟩
  | succ n ih =>
    obtain ⟨item, c', hn, hg, hs, hf⟩ := DCursor.next_good c h
    obtain ⟨l, hl, hm, ha⟩ := ih c' hg
    refine ⟨item :: l, ?_, ?_, ?_⟩
    · simp only [DCursor.take, hn, hl, Option.map]
    · simp only [List.map_cons, Value.ListCursor.take, hf, hm]
    · intro x hx
      rcases List.mem_cons.mp hx with rfl | hx
      · exact hs
      · exact ha x hx

theorem listIter_shaped (d : Datum) (h : Shaped d.value d.info) :
    d.listIter.map DCursor.forget = d.value.listIter ∧ ∀ c, d.listIter = some c → c.Good := by
  rcases d with ⟨v, i⟩
  cases v <;> cases i <;> simp_all [Shaped, SpanInfo.isPrim, Datum.listIter, Value.listIter,
    DCursor.forget, DCursor.Good]

theorem asPair_shaped (d : Datum) (h : Shaped d.value d.info) :
    d.asPair ≠ some none ∧
    (∀ a b, d.value = .cons a b → ∃ cm dm, d.info.isPrim = False ∧
      d.asPair = some (some (⟨a, cm⟩, ⟨b, dm⟩)) ∧ Shaped a cm ∧ Shaped b dm) ∧
    (d.value.asPair = none → d.asPair = none) := by
  rcases d with ⟨v, i⟩
  cases v <;> cases i <;>
    simp_all [Shaped, SpanInfo.isPrim, Datum.asPair, Value.asPair]
  exact ⟨_, _, ⟨rfl, rfl⟩, h⟩

theorem zip_shaped (xs : List Value) (ms : List SpanInfo) (h : ShapedList xs ms) :
    ((xs.zip ms).map fun (v, m) => (⟨v, m⟩ : Datum)).map Datum.value = xs ∧
    ((xs.zip ms).map fun (v, m) => (⟨v, m⟩ : Datum)).map Datum.info = ms ∧
    ∀ e ∈ ((xs.zip ms).map fun (v, m) => (⟨v, m⟩ : Datum)), Shaped e.value e.info := by
  induction xs generalizing ms with
  | nil =>
    cases ms with
    | nil => simp
    | cons _ _ => simp [ShapedList] at h
  | cons x xs ih =>
    cases ms with
    | nil => simp [ShapedList] at h
    | cons m ms =>
      simp only [ShapedList] at h
      obtain ⟨h1, h2, h3⟩ := ih ms h.2
      refine ⟨?_, ?_, ?_⟩
      · simpa using h1
      · simpa using h2
      · intro e he
        simp only [List.zip_cons_cons, List.map_cons, List.mem_cons] at he
        rcases he with rfl | he
        · exact h.1
        · exact h3 e he

theorem vectorIter_shaped (d : Datum) (h : Shaped d.value d.info) (xs : List Value)
    (hv : d.value = .vector xs) :
    ∃ l, d.vectorIter = some l ∧ l.map Datum.value = xs ∧ l.length = xs.length ∧
      ∀ e ∈ l, Shaped e.value e.info := by
  rcases d with ⟨v, i⟩
  simp only at hv
  subst hv
  cases i with
  | prim _ => simp [Shaped] at h
  | cons _ _ _ => simp [Shaped] at h
  | vec sp ms =>
    simp only [Shaped] at h
    obtain ⟨h1, _, h3⟩ := zip_shaped xs ms h
    refine ⟨_, rfl, h1, ?_, h3⟩
    have := congrArg List.length h1
    simpa using this

/-! ## Shaped datums from the public entry points -/

theorem post_nextDatumTop (cfg : Cfg) : Post ShapedOpt (nextDatumTop cfg) := by
  unfold nextDatumTop
  exact Post.bind_any (fun f => (shaped_all cfg f).1)

theorem post_expectDatum (cfg : Cfg) :
    Post (fun d : Datum => Shaped d.value d.info) (expectDatum cfg) := by
  unfold expectDatum
  refine Post.bind (post_nextDatumTop cfg) ?_
  intro od hod
  cases od with
  | none => exact Post.peekErr _
  | some d => exact Post.pure hod

theorem post_fromTraitDatum (cfg : Cfg) :
    Post (fun d : Datum => Shaped d.value d.info) (fromTraitDatum cfg) := by
  unfold fromTraitDatum
  refine Post.bind (post_expectDatum cfg) ?_
  intro d hd
  exact Post.bind_any (fun _ => Post.pure hd)

theorem stepOp_shaped (cfg : Cfg) (op : Op) (s : St) (d : Datum)
    (h : (stepOp cfg op s).1 = .datum d) : Shaped d.value d.info := by
  have hN := post_nextDatumTop cfg s
  have hE := post_expectDatum cfg s
  cases op <;> simp only [stepOp] at h
  · cases hr : nextValueTop cfg s with
    | ok a s' => rw [hr] at h; cases a <;> simp at h
    | _ => rw [hr] at h; simp at h
  · cases hr : nextDatumTop cfg s with
    | ok a s' =>
      rw [hr] at h
      cases a with
      | none => simp at h
      | some d' =>
        simp only [Item.datum.injEq] at h
        subst h
        exact hN _ _ hr
    | _ => rw [hr] at h; simp at h
  · cases hr : expectValue cfg s <;> rw [hr] at h <;> simp at h
  · cases hr : expectDatum cfg s with
    | ok a s' =>
      rw [hr] at h
      simp only [Item.datum.injEq] at h
      subst h
      exact hE _ _ hr
    | _ => rw [hr] at h; simp at h
  · cases hr : expectEnd s <;> rw [hr] at h <;> simp at h
  · cases hr : nextValueTop cfg s with
    | ok a s' => rw [hr] at h; cases a <;> simp at h
    | _ => rw [hr] at h; simp at h
  · cases hr : nextDatumTop cfg s with
    | ok a s' =>
      rw [hr] at h
      cases a with
      | none => simp at h
      | some d' =>
        simp only [Item.datum.injEq] at h
        subst h
        exact hN _ _ hr
    | _ => rw [hr] at h; simp at h
  · cases hr : nextValueTop cfg s with
    | ok a s' => rw [hr] at h; cases a <;> simp at h
    | _ => rw [hr] at h; simp at h

theorem runHistory_shaped (cfg : Cfg) (ops : List Op) (s : St) (d : Datum)
    (h : Item.datum d ∈ runHistory cfg ops s) : Shaped d.value d.info := by
  induction ops generalizing s with
  | nil => simp [runHistory] at h
  | cons op ops ih =>
    simp only [runHistory] at h
    have hs := stepOp_shaped cfg op s d
    rcases hstep : stepOp cfg op s with ⟨it, _ | s'⟩
    · rw [hstep] at h hs
      simp only [List.mem_singleton] at h
      exact hs h.symm
    · rw [hstep] at h hs
      simp only [List.mem_cons] at h
      rcases h with h | h
      · exact hs h.symm
      · exact ih s' h

/-- `impl From<Datum> for Value` (`Value::from(datum)`, `datum.into()`): drops the spans. -/
def Datum.intoValue (d : Datum) : Value := d.value

/-! ## Example data -/

/-- a configuration for the examples (the two tables are not consulted by them) -/
def exCfg : Cfg := { opts := Options.default, isAlphabetic := fun _ => false, pow10 := fun _ => 0 }

/-- the datum the model returns for `(a b . c)` (checked with `#eval nextDatumTop exCfg
    (initSt .str (asc "(a b . c)"))`) -/
def exDotted : Datum :=
  { value := .cons (.symbol [97]) (.cons (.symbol [98]) (.symbol [99])),
    info := .cons ⟨⟨1, 0⟩, ⟨1, 9⟩⟩ (.prim ⟨⟨1, 1⟩, ⟨1, 2⟩⟩)
      (.cons Span.empty (.prim ⟨⟨1, 3⟩, ⟨1, 4⟩⟩) (.prim ⟨⟨1, 7⟩, ⟨1, 8⟩⟩)) }

/-- the datum the model returns for `(a #(b) 'c)` -/
def exMixed : Datum :=
  { value := Value.list [.symbol [97], .vector [.symbol [98]],
      Value.list [.symbol Quote.quote.name, .symbol [99]]],
    info := .cons ⟨⟨1, 0⟩, ⟨1, 11⟩⟩ (.prim ⟨⟨1, 1⟩, ⟨1, 2⟩⟩)
      (.cons Span.empty (.vec ⟨⟨1, 3⟩, ⟨1, 7⟩⟩ [.prim ⟨⟨1, 5⟩, ⟨1, 6⟩⟩])
        (.cons Span.empty
          (.cons ⟨⟨1, 8⟩, ⟨1, 10⟩⟩ (.prim ⟨⟨1, 8⟩, ⟨1, 9⟩⟩)
            (.cons ⟨⟨1, 9⟩, ⟨1, 10⟩⟩ (.prim ⟨⟨1, 9⟩, ⟨1, 10⟩⟩) (.prim ⟨⟨1, 10⟩, ⟨1, 10⟩⟩)))
          (.prim Span.empty))) }

theorem exDotted_shaped : Shaped exDotted.value exDotted.info := by
  simp [exDotted, Shaped, SpanInfo.isPrim]

theorem exMixed_shaped : Shaped exMixed.value exMixed.info := by
  simp [exMixed, Value.list, Value.append, Shaped, ShapedList, SpanInfo.isPrim]

/-! ## Main theorems -/

/-- **C10_sim.** `next_datum` and `next_value` run in lock step: from every configuration,
    fuel and parser state, forgetting the spans of the datum result gives exactly the result of
    `next_value` — the same value or end-of-input, or the same error (same code and same
    position) — with the same residual state (reader and depth), or the same panic site, or
    both run out of fuel. -/
theorem C10_sim (cfg : Cfg) (fuel : Nat) (s : St) :
    Res.map (Option.map Datum.value) (nextDatum cfg fuel s) = nextValue cfg fuel s :=
  (sim_all cfg fuel).1 s

/-- **C10_sim_list.** `parse_list_meta` against `parse_list`, for every accumulator: `None`
    stands for the empty list (`Value::Null` = `Value::list([])`), `Some((v, _, _))` for `v`
    (which is `Value::list(acc)` or `Value::append(acc, tail)`). -/
theorem C10_sim_list (cfg : Cfg) (fuel : Nat) (term : UInt8) (acc : List Value)
    (ms : List SpanInfo) (s : St) :
    Res.map listVal (parseListMeta cfg fuel term acc ms s) = parseList cfg fuel term acc s :=
  (sim_all cfg fuel).2.1 term acc ms s

/-- **C10_sim_vector.** `parse_vector_meta` against `parse_vector`, for every accumulator. -/
theorem C10_sim_vector (cfg : Cfg) (fuel : Nat) (term : UInt8) (acc : List Value)
    (ms : List SpanInfo) (s : St) :
    Res.map Prod.fst (parseVectorMeta cfg fuel term acc ms s) = parseVector cfg fuel term acc s :=
  (sim_all cfg fuel).2.2 term acc ms s

/-- **C10_sim_api.** The public entry points agree in the same sense: `Parser::next_datum` /
    `next_value`, `expect_datum` / `expect_value`, `datum::from_*` / `from_*`. -/
theorem C10_sim_api (cfg : Cfg) (s : St) :
    Res.map (Option.map Datum.value) (nextDatumTop cfg s) = nextValueTop cfg s ∧
    Res.map Datum.value (expectDatum cfg s) = expectValue cfg s ∧
    Res.map Datum.value (fromTraitDatum cfg s) = fromTrait cfg s :=
  ⟨sim_nextTop cfg s, sim_expect cfg s, sim_fromTrait cfg s⟩

/-- **C10_streams.** Any history of calls on one parser, with the datum calls replaced by the
    corresponding value calls (`next_datum` ↦ `next_value`, `datum_iter().next()` ↦
    `value_iter().next()`, `expect_datum` ↦ `expect_value`), returns the same items once the
    spans of datum items are forgotten; the same for iterating one kind of call to the end. -/
theorem C10_streams (cfg : Cfg) (s : St) :
    (∀ ops : List Op,
      runHistory cfg (ops.map Op.toValue) s = (runHistory cfg ops s).map Item.toValue) ∧
    (∀ (op : Op) (cap : Nat),
      iterate cfg op.toValue cap s = (iterate cfg op cap s).map Item.toValue) :=
  ⟨fun ops => runHistory_toValue cfg ops s, fun op cap => iterate_toValue cfg op cap s⟩

/-- **C10_into_value.** `Value::from(datum)` is the datum's value (by definition), so the value
    API is the datum API followed by `into()`. -/
theorem C10_into_value (d : Datum) (cfg : Cfg) (fuel : Nat) (s : St) :
    d.intoValue = d.value ∧
    Res.map (Option.map Datum.intoValue) (nextDatum cfg fuel s) = nextValue cfg fuel s :=
  ⟨rfl, C10_sim cfg fuel s⟩

/-- **C10_shaped.** Every datum returned by `next_datum` — and so by the public entry points and
    by every call of any history — has span information that mirrors its value. -/
theorem C10_shaped (cfg : Cfg) :
    (∀ fuel s d s', nextDatum cfg fuel s = .ok (some d) s' → Shaped d.value d.info) ∧
    (∀ s d s', nextDatumTop cfg s = .ok (some d) s' → Shaped d.value d.info) ∧
    (∀ s d s', expectDatum cfg s = .ok d s' → Shaped d.value d.info) ∧
    (∀ s d s', fromTraitDatum cfg s = .ok d s' → Shaped d.value d.info) ∧
    (∀ ops s d, Item.datum d ∈ runHistory cfg ops s → Shaped d.value d.info) :=
  ⟨fun fuel s d s' h => (shaped_all cfg fuel).1 s (some d) s' h,
   fun s d s' h => post_nextDatumTop cfg s (some d) s' h,
   fun s d s' h => post_expectDatum cfg s d s' h,
   fun s d s' h => post_fromTraitDatum cfg s d s' h,
   fun ops s d h => runHistory_shaped cfg ops s d h⟩

/-- **C10_shaped_spec.** What `Shaped` says, constructor by constructor: a pair carries `.cons`
    with shaped car and cdr, a vector carries `.vec` with as many entries as elements, shaped
    element-wise, and every other value carries `.prim`. -/
theorem C10_shaped_spec :
    (∀ a b i, Shaped (.cons a b) i ↔ ∃ sp c d, i = .cons sp c d ∧ Shaped a c ∧ Shaped b d) ∧
    (∀ xs i, Shaped (.vector xs) i ↔ ∃ sp ms, i = .vec sp ms ∧ xs.length = ms.length ∧
      ∀ p ∈ xs.zip ms, Shaped p.1 p.2) ∧
    (∀ v i, v.isCons = false → v.isVector = false → (Shaped v i ↔ ∃ sp, i = .prim sp)) := by
  refine ⟨?_, ?_, ?_⟩
  · intro a b i
    cases i with
    | cons sp c d =>
      simp only [Shaped]
      exact ⟨fun h => ⟨_, _, _, rfl, h⟩, fun ⟨_, _, _, he, h⟩ => by cases he; exact h⟩
    | prim _ => simp [Shaped]
    | vec _ _ => simp [Shaped]
  · intro xs i
    cases i with
    | vec sp ms =>
      simp only [Shaped, shapedList_iff]
      exact ⟨fun h => ⟨_, _, rfl, h⟩, fun ⟨_, _, he, h⟩ => by cases he; exact h⟩
    | prim _ => simp [Shaped]
    | cons _ _ _ => simp [Shaped]
  · intro v i hc hv
    cases v <;> cases i <;> simp_all [Shaped, SpanInfo.isPrim, Value.isCons, Value.isVector]

/-- **C10_list_iter.** For a shaped datum: `list_iter()` exists exactly when it does on the value
    and starts in the corresponding state; from there `next()` never hits the
    "badly shaped list span information" `expect` (every `DCursor.take n` is `some`), yields item
    for item the values that the value iterator yields, and every yielded datum is shaped again.
    In particular this holds when the value is a pair. -/
theorem C10_list_iter (d : Datum) (h : Shaped d.value d.info) :
    d.listIter.map DCursor.forget = d.value.listIter ∧
    (∀ a b, d.value = .cons a b → ∃ c, d.listIter = some c ∧ c.forget = .cons a b) ∧
    (∀ c, d.listIter = some c → ∀ n, ∃ l, DCursor.take n c = some l ∧
      l.map (Option.map Datum.value) = Value.ListCursor.take n c.forget ∧
      ∀ x ∈ l, ShapedOpt x) := by
  obtain ⟨h1, h2⟩ := listIter_shaped d h
  refine ⟨h1, ?_, fun c hc n => DCursor.take_good n c (h2 c hc)⟩
  intro a b hv
  rw [hv] at h1
  cases hl : d.listIter with
  | none => rw [hl] at h1; simp [Value.listIter] at h1
  | some c =>
    rw [hl] at h1
    simp only [Option.map, Value.listIter, Option.some.injEq] at h1
    exact ⟨c, rfl, h1⟩

/-- **C10_list_iter_step.** One step: from a cursor whose values are shaped by its infos,
    `next()` returns (never the failed `expect`), the item's value and the next state are those
    of the value iterator, and the next cursor is again good. -/
theorem C10_list_iter_step (c : DCursor) (h : c.Good) :
    ∃ item c', c.next = some (item, c') ∧ c'.Good ∧ ShapedOpt item ∧
      c.forget.next = (item.map Datum.value, c'.forget) :=
  DCursor.next_good c h

/-- **C10_as_pair.** On a shaped datum `as_pair` never reaches its `unreachable!`: it is
    `Some((car, cdr))` with shaped halves when the value is a pair, and `None` otherwise. -/
theorem C10_as_pair (d : Datum) (h : Shaped d.value d.info) :
    d.asPair ≠ some none ∧
    (∀ a b, d.value = .cons a b → ∃ cm dm,
      d.asPair = some (some (⟨a, cm⟩, ⟨b, dm⟩)) ∧ Shaped a cm ∧ Shaped b dm) ∧
    (d.value.asPair = none → d.asPair = none) := by
  obtain ⟨h1, h2, h3⟩ := asPair_shaped d h
  refine ⟨h1, ?_, h3⟩
  intro a b hv
  obtain ⟨cm, dm, _, hp, hs⟩ := h2 a b hv
  exact ⟨cm, dm, hp, hs⟩

/-- **C10_vector_iter.** On a shaped datum whose value is a vector, `vector_iter` yields exactly
    the elements of the vector, each with shaped span information. -/
theorem C10_vector_iter (d : Datum) (h : Shaped d.value d.info) (xs : List Value)
    (hv : d.value = .vector xs) :
    ∃ l, d.vectorIter = some l ∧ l.map Datum.value = xs ∧ l.length = xs.length ∧
      ∀ e ∈ l, Shaped e.value e.info :=
  vectorIter_shaped d h xs hv

/-! ### Instances -/

/-- C10_sim on the input `()`: both sides are the empty list and the exhausted reader. -/
example :
    Res.map (Option.map Datum.value) (nextDatum exCfg 3 (initSt .str [40, 41])) =
      nextValue exCfg 3 (initSt .str [40, 41]) ∧
    nextValue exCfg 3 (initSt .str [40, 41]) =
      .ok (some .null) { rd := { mode := .str, rest := [], line := 1, col := 2 } } :=
  ⟨C10_sim _ _ _, rfl⟩

/-- C10_sim_list / C10_sim_vector with non-empty accumulators. -/
example (s : St) :
    Res.map listVal (parseListMeta exCfg 7 41 [.nil] [.prim Span.empty] s) =
      parseList exCfg 7 41 [.nil] s ∧
    Res.map Prod.fst (parseVectorMeta exCfg 7 41 [.nil] [.prim Span.empty] s) =
      parseVector exCfg 7 41 [.nil] s :=
  ⟨C10_sim_list _ _ _ _ _ _, C10_sim_vector _ _ _ _ _ _⟩

/-- C10_streams on a history that mixes all the datum calls. -/
example (s : St) :
    runHistory exCfg [.nextValue, .expectValue, .valueIterNext, .parserNext, .expectEnd] s =
      (runHistory exCfg [.nextDatum, .expectDatum, .datumIterNext, .parserNext, .expectEnd] s).map
        Item.toValue ∧
    iterate exCfg .valueIterNext 10 s = (iterate exCfg .datumIterNext 10 s).map Item.toValue :=
  ⟨(C10_streams exCfg s).1 [.nextDatum, .expectDatum, .datumIterNext, .parserNext, .expectEnd],
   (C10_streams exCfg s).2 .datumIterNext 10⟩

/-- C10_into_value -/
example : exDotted.intoValue = Value.append [.symbol [97], .symbol [98]] (.symbol [99]) :=
  (C10_into_value exDotted exCfg 0 (initSt .str [])).1

/-- C10_shaped: the hypothesis is satisfiable (`()` parses to a datum), and the conclusion holds
    for it. -/
example : ∃ d s', nextDatum exCfg 3 (initSt .str [40, 41]) = .ok (some d) s' ∧
    Shaped d.value d.info := by
  have h : nextDatum exCfg 3 (initSt .str [40, 41]) =
      .ok (some ⟨.null, .prim ⟨⟨1, 0⟩, ⟨1, 2⟩⟩⟩)
        { rd := { mode := .str, rest := [], line := 1, col := 2 } } := rfl
  exact ⟨_, _, h, (C10_shaped exCfg).1 _ _ _ _ h⟩

/-- C10_list_iter on `(a b . c)`: the datum is shaped, its value is a pair, and five calls of
    `next()` give `a`, `b`, `None`, `c`, `None`, as on the value. -/
example :
    (∃ c, exDotted.listIter = some c ∧
      DCursor.take 5 c = some [some ⟨.symbol [97], .prim ⟨⟨1, 1⟩, ⟨1, 2⟩⟩⟩,
        some ⟨.symbol [98], .prim ⟨⟨1, 3⟩, ⟨1, 4⟩⟩⟩, none,
        some ⟨.symbol [99], .prim ⟨⟨1, 7⟩, ⟨1, 8⟩⟩⟩, none]) ∧
    (∀ c, exDotted.listIter = some c → ∀ n, ∃ l, DCursor.take n c = some l ∧
      l.map (Option.map Datum.value) = Value.ListCursor.take n c.forget ∧ ∀ x ∈ l, ShapedOpt x) :=
  ⟨⟨_, rfl, rfl⟩, (C10_list_iter exDotted exDotted_shaped).2.2⟩

/-- C10_as_pair on `(a #(b) 'c)`. -/
example : ∃ cm dm, exMixed.asPair =
    some (some (⟨.symbol [97], cm⟩,
      ⟨Value.list [.vector [.symbol [98]], Value.list [.symbol Quote.quote.name, .symbol [99]]],
       dm⟩)) :=
  let ⟨cm, dm, h, _⟩ := (C10_as_pair exMixed exMixed_shaped).2.1 _ _ rfl
  ⟨cm, dm, h⟩

/-- C10_vector_iter on the `#(b)` inside `(a #(b) 'c)`. -/
example : ∃ l, (⟨.vector [.symbol [98]], .vec ⟨⟨1, 3⟩, ⟨1, 7⟩⟩ [.prim ⟨⟨1, 5⟩, ⟨1, 6⟩⟩]⟩ :
    Datum).vectorIter = some l ∧ l.map Datum.value = [.symbol [98]] :=
  let ⟨l, h1, h2, _⟩ := C10_vector_iter ⟨.vector [.symbol [98]], .vec ⟨⟨1, 3⟩, ⟨1, 7⟩⟩
    [.prim ⟨⟨1, 5⟩, ⟨1, 6⟩⟩]⟩ (by simp [Shaped, ShapedList, SpanInfo.isPrim]) _ rfl
  ⟨l, h1, h2⟩

end Parse
end Lexpr

open Lexpr.Parse in
#print axioms C10_sim
open Lexpr.Parse in
#print axioms C10_sim_list
open Lexpr.Parse in
#print axioms C10_sim_vector
open Lexpr.Parse in
#print axioms C10_sim_api
open Lexpr.Parse in
#print axioms C10_streams
open Lexpr.Parse in
#print axioms C10_into_value
open Lexpr.Parse in
#print axioms C10_shaped
open Lexpr.Parse in
#print axioms C10_shaped_spec
open Lexpr.Parse in
#print axioms C10_list_iter
open Lexpr.Parse in
#print axioms C10_list_iter_step
open Lexpr.Parse in
#print axioms C10_as_pair
open Lexpr.Parse in
#print axioms C10_vector_iter
